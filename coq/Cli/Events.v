(* Events.v — executable model of cmd/ion-go/eventwriter.go (the Writer behind
   "-f events") and of the event record of cmd/ion-go/schema.go.

   The event writer keeps a depth, the pending field name (a *string) and
   annotations, and the map inStruct; every Write*/Begin*/End*/Finish encodes
   one event record {event_type, ion_type, field_name, annotations, value_text,
   value_binary, imports, depth} through an ion.Encoder over a text Writer.
   What is kept: every field eventwriter.go fills and when (omitempty fields as
   their zero value), depth arithmetic including misuse (End* at depth 0 goes
   negative, nothing is checked), the map being nil on the pinned tree
   (assignment to an entry of a nil map panics; reading does not).
   What is abstracted: value_text is the Ion text that stringify / symbolify /
   clobify render for the scalar; it is carried as the Writer call itself
   ([ev_value]); the serialisation of the record is ion.Encoder's (C16).
   No proofs in this file. *)
From Coq Require Import String List NArith ZArith Bool.
From IonV Require Import Base.Wire Data.Ion Bin.BitStream Bin.BinWriter Cli.Process.
Import ListNotations.
Open Scope N_scope.

(* eventtype *)
Definition EvContainerStart : N := 0.  Definition EvContainerEnd : N := 1.  Definition EvScalar : N := 2.
Definition EvSymbolTable : N := 3.     Definition EvStreamEnd : N := 4.

Record event := {
  ev_type : N;                 (* event_type *)
  ev_ion : N;                  (* ion_type: ion.Type; 0 (NoType) is omitted *)
  ev_field : option text;      (* field_name: &ion.SymbolToken{Text: name}; None = omitted *)
  ev_annots : list tok;        (* annotations: the tokens as given; [] = omitted *)
  ev_value : option wcall;     (* value_text: the text rendering of the scalar this call writes *)
  ev_binary : list N;          (* value_binary: never filled by eventwriter.go *)
  ev_depth : Z                 (* depth (a Go int: it can go negative on misuse) *)
}.

Record estate := {
  es_depth : Z;
  es_field : option text;
  es_annots : list tok;
  es_map : option (list (Z * bool));     (* inStruct; None = the nil map *)
  es_out : list event                    (* events encoded so far, newest first *)
}.

(* NewEventWriter: the pinned constructor leaves inStruct nil; fix_cli_events_map.diff makes it *)
Definition ew_init_pinned : estate :=
  {| es_depth := 0; es_field := None; es_annots := []; es_map := None; es_out := [] |}.
Definition ew_init_fixed : estate :=
  {| es_depth := 0; es_field := None; es_annots := []; es_map := Some []; es_out := [] |}.

(* e.write(ev): takes and clears the pending field name and annotations, stamps the depth *)
Definition ew_write (e : estate) (ty ion : N) (val : option wcall) : estate :=
  {| es_depth := es_depth e; es_field := None; es_annots := []; es_map := es_map e;
     es_out := {| ev_type := ty; ev_ion := ion; ev_field := es_field e; ev_annots := es_annots e;
                  ev_value := val; ev_binary := []; ev_depth := es_depth e |} :: es_out e |}.
Definition ew_depth (e : estate) (d : Z) : estate :=
  {| es_depth := d; es_field := es_field e; es_annots := es_annots e; es_map := es_map e; es_out := es_out e |}.

Fixpoint map_set (m : list (Z * bool)) (k : Z) (v : bool) : list (Z * bool) :=
  match m with
  | [] => [(k, v)]
  | (k0, v0) :: r => if (k0 =? k)%Z then (k, v) :: r else (k0, v0) :: map_set r k v
  end.
Fixpoint map_get (m : list (Z * bool)) (k : Z) : bool :=
  match m with
  | [] => false
  | (k0, v0) :: r => if (k0 =? k)%Z then v0 else map_get r k
  end.
(* e.inStruct[k] = v *)
Definition ew_map_set (e : estate) (k : Z) (v : bool) : res estate :=
  match es_map e with
  | None => Panic                                     (* assignment to entry in nil map *)
  | Some m => Ok {| es_depth := es_depth e; es_field := es_field e; es_annots := es_annots e;
                    es_map := Some (map_set m k v); es_out := es_out e |}
  end.
(* IsInStruct() *)
Definition ew_in_struct (e : estate) : bool :=
  match es_map e with None => false | Some m => map_get m (es_depth e) end.

(* FieldName: the text, or "$<sid>" for a token without text *)
Definition field_text_of (t : tok) : text :=
  match tk_text t with
  | Some x => x
  | None => 36 :: dec_of_Z (tk_sid t)
  end.

(* the ion_type of the event each scalar method writes *)
Definition ion_of_call (c : wcall) : N :=
  match c with
  | CNull => TNull
  | CNullType t => t
  | CBool _ => TBool
  | CInt _ | CUint _ | CBigInt _ => TInt
  | CFloat _ => TFloat
  | CDecimal _ => TDecimal
  | CTimestamp _ _ => TTimestamp
  | CSymbol _ | CSymbolFromString _ => TSymbol
  | CString _ => TString
  | CClob _ => TClob
  | CBlob _ => TBlob
  | _ => TNoType
  end.

Definition ion_of_kind (k : ckind) : N :=
  match k with KList => TList | KSexp => TSexp | KStruct => TStruct end.

(* Begin*: write the event, then depth++ (BeginStruct: then inStruct[depth] = true) *)
Definition ew_begin (e : estate) (k : ckind) : res (estate * bool) :=
  let e1 := ew_write e EvContainerStart (ion_of_kind k) None in
  let e2 := ew_depth e1 (es_depth e1 + 1)%Z in
  match k with
  | KStruct => do e3 <- ew_map_set e2 (es_depth e2) true; Ok (e3, true)
  | _ => Ok (e2, true)
  end.
(* End*: (EndStruct: inStruct[depth] = false first) depth--, then write the event *)
Definition ew_end (e : estate) (k : ckind) : res (estate * bool) :=
  do e1 <- (match k with KStruct => ew_map_set e (es_depth e) false | _ => Ok e end);
  let e2 := ew_depth e1 (es_depth e1 - 1)%Z in
  Ok (ew_write e2 EvContainerEnd (ion_of_kind k) None, true).

(* one Writer method; no method returns an error of its own (only an I/O failure of the
   underlying text Writer could, and that is outside the model) *)
Definition ew_step (e : estate) (c : wcall) : res (estate * bool) :=
  match c with
  | CFieldName t =>
    Ok ({| es_depth := es_depth e; es_field := Some (field_text_of t); es_annots := es_annots e;
           es_map := es_map e; es_out := es_out e |}, true)
  | CAnnotation t =>
    Ok ({| es_depth := es_depth e; es_field := es_field e; es_annots := es_annots e ++ [t];
           es_map := es_map e; es_out := es_out e |}, true)
  | CAnnotations ts =>
    Ok ({| es_depth := es_depth e; es_field := es_field e; es_annots := es_annots e ++ ts;
           es_map := es_map e; es_out := es_out e |}, true)
  | CBeginList => ew_begin e KList
  | CBeginSexp => ew_begin e KSexp
  | CBeginStruct => ew_begin e KStruct
  | CEndList => ew_end e KList
  | CEndSexp => ew_end e KSexp
  | CEndStruct => ew_end e KStruct
  | CFinish => Ok (ew_write e EvStreamEnd TNoType None, true)
  | _ => Ok (ew_write e EvScalar (ion_of_call c) (Some c), true)
  end.

Definition events_of_state (e : estate) : list event := rev (es_out e).

(* ---- the events a faithful event writer owes to a forest (specification side) ------------- *)
Definition ion_of_scalar (s : oscalar) : N :=
  match s with
  | SNull t => t | SBool _ => TBool | SInt _ => TInt | SFloat _ => TFloat | SDecimal _ => TDecimal
  | STimestamp _ _ => TTimestamp | SSymbol _ => TSymbol | SString _ => TString | SClob _ => TClob
  | SBlob _ => TBlob
  end.

Definition mk_event (ty ion : N) (f : option tok) (a : list tok) (v : option wcall) (d : Z) : event :=
  {| ev_type := ty; ev_ion := ion; ev_field := option_map field_text_of f; ev_annots := a;
     ev_value := v; ev_binary := []; ev_depth := d |}.

Fixpoint events_of (d : Z) (v : oval) : list event :=
  match v with
  | OScalar f a s => [mk_event EvScalar (ion_of_scalar s) f a (Some (scalar_call s)) d]
  | OCont f a k l =>
    mk_event EvContainerStart (ion_of_kind k) f a None d
      :: flat_map (events_of (d + 1)%Z) l ++ [mk_event EvContainerEnd (ion_of_kind k) None [] None d]
  | OFail => []
  end.
Definition stream_end : event := mk_event EvStreamEnd TNoType None [] None 0.
Definition events_of_forest (vs : list oval) : list event :=
  flat_map (events_of 0%Z) vs ++ [stream_end].

(* number of events owed: one per value, one more per container (its end), one stream end *)
Fixpoint count_events (v : oval) : nat :=
  match v with
  | OScalar _ _ _ => 1
  | OCont _ _ _ l => 2 + fold_right (fun x n => count_events x + n)%nat O l
  | OFail => 0
  end.
Definition count_forest (vs : list oval) : nat := S (fold_right (fun x n => count_events x + n)%nat O vs).

(* ---- well-formedness of an event and of an event sequence ---------------------------------- *)
Definition is_container_type (t : N) : bool := (t =? TList) || (t =? TSexp) || (t =? TStruct).
Definition opt_is_some {A} (o : option A) : bool := match o with Some _ => true | None => false end.
Definition list_is_nil {A} (l : list A) : bool := match l with [] => true | _ => false end.

Definition event_wf (e : event) : bool :=
  list_is_nil (ev_binary e) && (0 <=? ev_depth e)%Z &&
  (if ev_type e =? EvScalar then
     (1 <=? ev_ion e) && (ev_ion e <=? 13) &&
     match ev_value e with
     | Some c => (ion_of_call c =? ev_ion e) && opt_is_some (value_of_call c)
     | None => false
     end
   else if ev_type e =? EvContainerStart then
     is_container_type (ev_ion e) && negb (opt_is_some (ev_value e))
   else if ev_type e =? EvContainerEnd then
     is_container_type (ev_ion e) && negb (opt_is_some (ev_value e)) &&
     negb (opt_is_some (ev_field e)) && list_is_nil (ev_annots e)
   else if ev_type e =? EvStreamEnd then
     (ev_ion e =? TNoType) && negb (opt_is_some (ev_value e)) &&
     negb (opt_is_some (ev_field e)) && list_is_nil (ev_annots e)
   else false).

(* bracketing: [stack] = the ion types of the open containers, innermost first; every event sits at
   depth = number of open containers, values carry a field name exactly inside a struct, every end
   closes the innermost open container, and the stream end comes last, at depth 0 *)
Definition top_is_struct (stack : list N) : bool :=
  match stack with t :: _ => t =? TStruct | [] => false end.
Definition depth_is (e : event) (stack : list N) : bool := (ev_depth e =? Z.of_nat (length stack))%Z.
Fixpoint bracketed (evs : list event) (stack : list N) : bool :=
  match evs with
  | [] => false
  | e :: r =>
    if ev_type e =? EvStreamEnd then list_is_nil stack && list_is_nil r && depth_is e stack
    else if ev_type e =? EvScalar then
      depth_is e stack && Bool.eqb (opt_is_some (ev_field e)) (top_is_struct stack) && bracketed r stack
    else if ev_type e =? EvContainerStart then
      depth_is e stack && Bool.eqb (opt_is_some (ev_field e)) (top_is_struct stack) &&
      bracketed r (ev_ion e :: stack)
    else if ev_type e =? EvContainerEnd then
      match stack with
      | t :: s' => (t =? ev_ion e) && depth_is e s' && bracketed r s'
      | [] => false
      end
    else false
  end.

(* ---- "-f events" as a whole ------------------------------------------------------------------ *)
Definition events_pinned (vs : list oval) : res (list event * list report) :=
  do o <- process_pinned ew_step ew_init_pinned vs;
  Ok (events_of_state (oc_w o), oc_reports o).
Definition events_fixed (vs : list oval) : res (list event * list report) :=
  do o <- process_fixed ew_step ew_init_fixed vs;
  Ok (events_of_state (oc_w o), oc_reports o).
Definition events_fixed_sids (vs : list oval) : res (list event * list report) :=
  events_fixed (map norm_oval vs).
