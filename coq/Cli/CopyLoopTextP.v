(* CopyLoopTextP.v — C05 end to end, binary -> text: the copy loop's calls against the text Writer model. *)
From Coq Require Import String List NArith ZArith Bool Lia.
From IonV Require Import Base.Wire Base.Utf8 Data.Ion Num.Float Bin.BinWriter Bin.BitStream Bin.BinReader Bin.RoundTripBinS
  Bin.RoundTripBin Text.TextOut Text.TextWriter Text.TextRoundtrip Cli.Process Cli.ProcessP Cli.CopyLoop Cli.CopyLoopP.
Import ListNotations.
Open Scope N_scope.

(* the copy loop hands all annotations over in one WriteAnnotations call and an int64 through WriteInt; the canonical
   sequence of Text/TextRoundtrip.v uses one WriteAnnotation per annotation and WriteBigInt *)
Fixpoint expand (cs : list wcall) : list wcall :=
  match cs with
  | [] => []
  | CAnnotations (t :: ts) :: r => CAnnotation t :: map CAnnotation ts ++ expand r
  | CInt z :: r => CBigInt (Some z) :: expand r
  | c :: r => c :: expand r
  end.

Section T.
Variable F : formats.

Lemma set_p_eta w : set_p w (p_set_annots (tw_p w) (p_annots (tw_p w) ++ [])) = w.
Proof. destruct w as [o p]. destruct p. unfold set_p, p_set_annots. cbn. rewrite app_nil_r. reflexivity. Qed.

Lemma ann_seq ts : forall w rest, tw_err w = false ->
  drive (tw_step F) w (map CAnnotation ts ++ rest) =
  drive (tw_step F) (set_p w (p_set_annots (tw_p w) (p_annots (tw_p w) ++ ts))) rest.
Proof.
  induction ts as [|t r IH]; intros w rest He.
  - cbn [map app]. rewrite set_p_eta. reflexivity.
  - cbn [map app drive tw_step]. rewrite He. unfold upd. cbn [bind].
    rewrite IH by (destruct w as [o p]; destruct p; exact He). f_equal.
    destruct w as [o p]. destruct p. unfold set_p, p_set_annots. cbn. rewrite <- app_assoc. reflexivity.
Qed.

Lemma int_eq w z : tw_step F w (CInt z) = tw_step F w (CBigInt (Some z)).
Proof. cbn [tw_step]. unfold write_value, recorded. destruct (tw_err w); reflexivity. Qed.

Lemma drive_expand cs : forall w, drive (tw_step F) w cs = drive (tw_step F) w (expand cs).
Proof.
  induction cs as [|c r IH]; intros w; [reflexivity|].
  destruct c as [t|t|ts| |t|b|z|n|z|bits|d|len body|t|x|x|b|b| | | | | | |]; cbn [expand];
    try (cbn [drive]; destruct (tw_step F w _) as [[w' ok]| | |]; cbn [bind]; try reflexivity; destruct ok; [apply IH|reflexivity]).
  - (* Annotations *)
    destruct ts as [|t ts].
    + cbn [drive]. destruct (tw_step F w _) as [[w' ok]| | |]; cbn [bind]; try reflexivity. destruct ok; [apply IH|reflexivity].
    + change (CAnnotation t :: map CAnnotation ts ++ expand r) with (map CAnnotation (t :: ts) ++ expand r).
      cbn [drive tw_step]. destruct (tw_err w) eqn:He.
      * cbn [bind map app drive tw_step]. rewrite He. reflexivity.
      * unfold upd. cbn [bind]. rewrite ann_seq by exact He. apply IH.
  - (* Int *)
    cbn [drive]. rewrite int_eq. destruct (tw_step F w _) as [[w' ok]| | |]; cbn [bind]; try reflexivity. destruct ok; [apply IH|reflexivity].
Qed.
End T.

Lemma expand_app a : forall b, expand (a ++ b) = expand a ++ expand b.
Proof.
  induction a as [|c r IH]; intros b; [reflexivity|].
  destruct c as [t|t|ts| |t|bb|z|n|z|bits|d|len body|t|x|x|bb|bb| | | | | | |]; cbn [app expand]; rewrite ?IH; try reflexivity.
  destruct ts as [|t ts]; rewrite ?IH; [reflexivity|]. cbn [app]. rewrite <- app_assoc. reflexivity.
Qed.

Lemma expand_body v : wf_value v -> expand (map narrow_call (calls_body v)) = calls_of_value v.
Proof.
  induction v as [v Hsc|l IH|l IH|fs IH|a x IH] using value_ind'; intros Hw.
  - destruct v; try destruct Hsc; try reflexivity. cbn [calls_body map narrow_call]. destruct (in_i64 z); reflexivity.
  - inversion Hw as [| | | | | | | | | |? Hl| | |]; subst. cbn [calls_body map narrow_call expand calls_of_value]. f_equal.
    rewrite map_app, expand_app. f_equal. clear Hw.
    induction l as [|x r IHr]; [reflexivity|]. inversion IH as [|? ? Hx Hr]; subst. inversion Hl as [|? ? Hwx Hwr]; subst.
    cbn [flat_map]. rewrite map_app, expand_app, (Hx Hwx), (IHr Hr Hwr). reflexivity.
  - inversion Hw as [| | | | | | | | | | |? Hl| |]; subst. cbn [calls_body map narrow_call expand calls_of_value]. f_equal.
    rewrite map_app, expand_app. f_equal. clear Hw.
    induction l as [|x r IHr]; [reflexivity|]. inversion IH as [|? ? Hx Hr]; subst. inversion Hl as [|? ? Hwx Hwr]; subst.
    cbn [flat_map]. rewrite map_app, expand_app, (Hx Hwx), (IHr Hr Hwr). reflexivity.
  - inversion Hw as [| | | | | | | | | | | |? Hl|]; subst. cbn [calls_body map narrow_call expand calls_of_value]. f_equal.
    rewrite map_app, expand_app. f_equal. clear Hw.
    induction fs as [|[n x] r IHr]; [reflexivity|]. inversion IH as [|? ? Hx Hr]; subst. inversion Hl as [|? ? Hwx Hwr]; subst.
    cbn [fst snd] in *. cbn [flat_map]. rewrite map_app, expand_app. cbn [map narrow_call expand]. rewrite (Hx (proj2 Hwx)), (IHr Hr Hwr). reflexivity.
  - inversion Hw as [| | | | | | | | | | | | |? ? Hne Hsy Hna Hx]; subst. cbn [calls_body map narrow_call calls_of_value].
    destruct a as [|y r]; [congruence|]. cbn [map expand]. rewrite (IH Hx). rewrite map_map. reflexivity.
Qed.

Lemma expand_forest vs : Forall wf_value vs ->
  expand (fst (calls_upto_forest (obs_of_values vs)) ++ [CFinish]) = calls_of_stream vs.
Proof.
  intros H. rewrite (calls_obs_forest vs H). cbn [fst]. rewrite expand_app. unfold calls_of_stream. f_equal.
  induction H as [|v r Hv _ IH]; [reflexivity|]. cbn [flat_map]. rewrite map_app, expand_app, (expand_body v Hv), IH. reflexivity.
Qed.

Lemma tw_drive_all_ok F cs : forall w w' oks,
  tw_drive F w cs = Ok (w', oks) -> forallb (fun b => b) oks = true -> drive (tw_step F) w cs = Ok (w', true).
Proof.
  induction cs as [|c r IH]; intros w w' oks H Hok; cbn [tw_drive drive] in *.
  - inversion H; subst. reflexivity.
  - destruct (tw_step F w c) as [[w1 ok]| | |]; cbn [bind] in *; try discriminate.
    destruct (tw_drive F w1 r) as [[w2 oks2]| | |] eqn:E; cbn [bind] in H; try discriminate.
    inversion H; subst. cbn [forallb] in Hok. apply andb_prop in Hok. destruct Hok as [-> Hr]. apply (IH _ _ _ E Hr).
Qed.
