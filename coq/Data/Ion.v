(* Ion.v — data shared by the writer and reader models: symbol tokens as they
   appear at the API, decimals, the type codes of ion.Type.  No proofs. *)
From Coq Require Import String List NArith ZArith Bool.
From IonV Require Import Base.Wire.
Import ListNotations.
Open Scope N_scope.
Local Open Scope string_scope.

Definition text := list N.                    (* a Go string: bytes *)

(* ion.SymbolToken{Text *string, LocalSID int64}; SymbolIDUnknown = -1 *)
Record tok := { tk_text : option text; tk_sid : Z }.
Definition tok_text (t : text) : tok := {| tk_text := Some t; tk_sid := (-1)%Z |}.
Definition tok_sid (n : Z) : tok := {| tk_text := None; tk_sid := n |}.

(* *ion.Decimal as the writer sees it through CoEx(): coefficient, exponent (int32), isNegZero *)
Record dec := { d_coef : Z; d_exp : Z; d_negzero : bool }.

(* ion.Type *)
Definition TNoType : N := 0.   Definition TNull : N := 1.    Definition TBool : N := 2.
Definition TInt : N := 3.      Definition TFloat : N := 4.   Definition TDecimal : N := 5.
Definition TTimestamp : N := 6. Definition TSymbol : N := 7. Definition TString : N := 8.
Definition TClob : N := 9.     Definition TBlob : N := 10.   Definition TList : N := 11.
Definition TSexp : N := 12.    Definition TStruct : N := 13.

(* the nine system symbols, ids 1..9 *)
Definition system_symbols : list text :=
  [ s "$ion"; s "$ion_1_0"; s "$ion_symbol_table"; s "name"; s "version";
    s "imports"; s "symbols"; s "max_id"; s "$ion_shared_symbol_table" ].

(* first index (1-based, plus offset) at which [t] occurs in [l] *)
Fixpoint index_of (t : text) (l : list text) (i : N) : option N :=
  match l with
  | [] => None
  | x :: r => if list_eqb x t then Some i else index_of t r (i + 1)
  end.

(* ---- the Ion data model ----------------------------------------------------------------- *)
(* a symbol as data: its text when known, else the symbol ID it was written with *)
Inductive symv := SymText (t : text) | SymSid (n : N).

(* A timestamp is carried in the data model as its binary body (offset, year, ... fraction):
   the calendar meaning is C15's business (Num/Timestamp.v). *)
Inductive value :=
| VNull (t : N)                       (* ion.Type code 1..13 *)
| VBool (b : bool)
| VInt (z : Z)
| VFloat (bits : N)
| VDecimal (d : dec)
| VTimestamp (body : list N)
| VSymbol (y : symv)
| VString (t : text)
| VClob (b : list N)
| VBlob (b : list N)
| VList (l : list value)
| VSexp (l : list value)
| VStruct (l : list (symv * value))
| VAnn (a : list symv) (v : value).    (* annotation wrapper: a <> [], v not itself a VAnn *)

(* canonical observation text: one token list per value *)
Definition show_sym (y : symv) : list N :=
  match y with
  | SymText t => 116 :: hex_of_bytes t       (* "t" hex *)
  | SymSid n => 105 :: dec_of_N n             (* "i" sid *)
  end.
Definition show_dec (d : dec) : list N :=
  68 :: dec_of_Z (d_coef d) ++ 101 :: dec_of_Z (d_exp d) ++ 122 :: (if d_negzero d then [49] else [48]).

Fixpoint show_value (v : value) : list (list N) :=
  match v with
  | VNull t => [110 :: dec_of_N t]
  | VBool b => [[98; if b then 49 else 48]]
  | VInt z => [73 :: dec_of_Z z]
  | VFloat b => [70 :: dec_of_N b]
  | VDecimal d => [show_dec d]
  | VTimestamp body => [84 :: hex_of_bytes body]
  | VSymbol y => [89 :: show_sym y]
  | VString t => [83 :: xhex t]
  | VClob b => [67 :: xhex b]
  | VBlob b => [66 :: xhex b]
  | VList l => [[91]] ++ flat_map show_value l ++ [[93]]
  | VSexp l => [[40]] ++ flat_map show_value l ++ [[41]]
  | VStruct l => [[123]] ++ flat_map (fun '(n, x) => (102 :: show_sym n) :: show_value x) l ++ [[125]]
  | VAnn a x => map (fun y => 97 :: show_sym y) a ++ show_value x
  end.
Definition show_values (vs : list value) : list N := join_sp (flat_map show_value vs).
