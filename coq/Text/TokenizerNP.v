(* TokenizerNP.v — the tokenizer and skipper models never panic when driven by
   their own protocol, and every operation other than Next / ReadValue /
   FinishValue / the lob readers leaves [token] and [unfinished] alone. *)
From Coq Require Import String List NArith ZArith Bool Lia.
From IonV Require Import Base.Wire Text.Tokenizer Text.Skipper.
Import ListNotations.
Open Scope Z_scope.

(* no panic, and token / unfinished / ioerr unchanged *)
Definition same (t t' : tstate) : Prop :=
  t_token t' = t_token t /\ t_unfinished t' = t_unfinished t /\ t_ioerr t' = t_ioerr t.
Definition tframe {A} (m : M A) : Prop :=
  forall t, match m t with
            | Ok (_, t') => same t t'
            | Panic => False
            | _ => True
            end.

Lemma same_refl t : same t t.
Proof. repeat split. Qed.
Lemma same_trans a b c : same a b -> same b c -> same a c.
Proof. intros [A1 [A2 A3]] [B1 [B2 B3]]; repeat split; congruence. Qed.

Lemma tframe_ret {A} (a : A) : tframe (ret a).
Proof. intro t; apply same_refl. Qed.
Lemma tframe_fail {A} : tframe (@fail A).
Proof. intro t; exact I. Qed.
Lemma tframe_nofuel {A} : tframe (@nofuel A).
Proof. intro t; exact I. Qed.
Lemma tframe_get : tframe get.
Proof. intro t; apply same_refl. Qed.
Lemma tframe_read : tframe t_read.
Proof.
  intro t; unfold t_read. destruct (t_buf t); [|repeat split].
  destruct (t_in t) as [|i is]; [destruct (t_ioerr t); [exact I|apply same_refl]|].
  destruct (i =? 13)%N; [|repeat split].
  destruct is as [|i2 is2]; [destruct (t_ioerr t); [exact I|repeat split]|].
  destruct (i2 =? 10)%N; repeat split.
Qed.
#[export] Hint Resolve tframe_read : tfr.
Lemma tframe_unread c : tframe (t_unread c).
Proof. intro t; repeat split. Qed.
#[export] Hint Resolve tframe_unread : tfr.
Lemma tframe_bind {A B} (m : M A) (f : A -> M B) :
  tframe m -> (forall a, tframe (f a)) -> tframe (mbind m f).
Proof.
  intros Hm Hf t; unfold mbind; specialize (Hm t).
  destruct (m t) as [[a t1]| | |]; try assumption.
  specialize (Hf a t1). destruct (f a t1) as [[b t2]| | |]; try assumption.
  eapply same_trans; eassumption.
Qed.
Lemma tframe_with_fuel {A} (g : nat -> M A) : (forall f, tframe (g f)) -> tframe (with_fuel g).
Proof. intros H t; unfold with_fuel; apply H. Qed.

Ltac tf :=
  repeat first
    [ assumption
    | solve [auto 1 with tfr nocore]
    | apply tframe_ret | apply tframe_fail | apply tframe_nofuel | apply tframe_get
    | apply tframe_read | apply tframe_unread
    | apply tframe_with_fuel; intros
    | apply tframe_bind; [ | intros ]
    | progress cbn beta
    | match goal with
      | |- tframe (if ?b then _ else _) => destruct b
      | |- tframe (let '(_, _) := ?p in _) => destruct p
      | |- tframe (match ?v with _ => _ end) => destruct v
      end ].

Lemma tframe_peek : tframe t_peek.
Proof.
  intro t; unfold t_peek. destruct (t_buf t); [|apply same_refl].
  revert t. change (tframe (tdo c <- t_read; tdo _ <- t_unread c; ret c)). tf.
Qed.
#[export] Hint Resolve tframe_peek : tfr.

Lemma tframe_peekN_loop : forall n acc, tframe (peekN_loop n acc).
Proof. induction n; intros; cbn [peekN_loop]; tf. Qed.
#[export] Hint Resolve tframe_peekN_loop : tfr.
Lemma tframe_unread_all : forall l, tframe (unread_all l).
Proof. induction l; cbn [unread_all]; tf. Qed.
#[export] Hint Resolve tframe_unread_all : tfr.
Lemma tframe_peekN n : tframe (t_peekN n).
Proof. unfold t_peekN; tf. Qed.
#[export] Hint Resolve tframe_peekN : tfr.
Lemma tframe_skipN : forall n, tframe (t_skipN n).
Proof. induction n; cbn [t_skipN]; tf. Qed.
#[export] Hint Resolve tframe_skipN : tfr.
Lemma tframe_expect f : tframe (t_expect f).
Proof. unfold t_expect; tf. Qed.
#[export] Hint Resolve tframe_expect : tfr.
Lemma tframe_is_stop_char c : tframe (t_is_stop_char c).
Proof. unfold t_is_stop_char; tf. Qed.
#[export] Hint Resolve tframe_is_stop_char : tfr.
Lemma tframe_is_triple_quote : tframe t_is_triple_quote.
Proof. unfold t_is_triple_quote; tf. Qed.
#[export] Hint Resolve tframe_is_triple_quote : tfr.
Lemma tframe_is_inf c : tframe (t_is_inf c).
Proof. unfold t_is_inf; tf. Qed.
#[export] Hint Resolve tframe_is_inf : tfr.

Lemma tframe_single_line : forall f, tframe (skip_single_line_comment f).
Proof. induction f; cbn [skip_single_line_comment]; tf. Qed.
#[export] Hint Resolve tframe_single_line : tfr.
Lemma tframe_block : forall f star, tframe (skip_block_comment f star).
Proof. induction f; intros; cbn [skip_block_comment]; tf. Qed.
#[export] Hint Resolve tframe_block : tfr.
Lemma tframe_handler h : tframe (run_handler h).
Proof. destruct h; cbn [run_handler]; tf. Qed.
#[export] Hint Resolve tframe_handler : tfr.
Lemma tframe_ws : forall f h sk, tframe (skip_whitespace_with f h sk).
Proof. induction f; intros; cbn [skip_whitespace_with]; tf. Qed.
#[export] Hint Resolve tframe_ws : tfr.
Lemma tframe_skip_whitespace : tframe t_skip_whitespace.
Proof. unfold t_skip_whitespace; tf; apply tframe_ws. Qed.
#[export] Hint Resolve tframe_skip_whitespace : tfr.
Lemma tframe_skip_lob_whitespace : tframe t_skip_lob_whitespace.
Proof. unfold t_skip_lob_whitespace; tf; apply tframe_ws. Qed.
#[export] Hint Resolve tframe_skip_lob_whitespace : tfr.
Lemma tframe_skip_whitespace_h h : tframe (t_skip_whitespace_h h).
Proof. unfold t_skip_whitespace_h; tf; apply tframe_ws. Qed.
#[export] Hint Resolve tframe_skip_whitespace_h : tfr.
Lemma tframe_end_of_long_string h : tframe (t_skip_end_of_long_string h).
Proof.
  unfold t_skip_end_of_long_string; tf.
Qed.
#[export] Hint Resolve tframe_end_of_long_string : tfr.

(* ---- escapes, numbers, timestamps, symbols, strings ---------------------------------------------------- *)
Lemma tframe_hex_escape : forall n v, tframe (read_hex_escape_seq n v).
Proof. induction n; intros; cbn [read_hex_escape_seq]; tf. Qed.
#[export] Hint Resolve tframe_hex_escape : tfr.
Lemma tframe_escaped_char k : tframe (read_escaped_char k).
Proof. unfold read_escaped_char; tf. Qed.
#[export] Hint Resolve tframe_escaped_char : tfr.
Lemma tframe_backslash k : tframe (process_backslash k).
Proof. unfold process_backslash; tf. Qed.
#[export] Hint Resolve tframe_backslash : tfr.
Lemma tframe_radix_digits : forall f valid w, tframe (read_radix_digits f valid w).
Proof. induction f; intros; cbn [read_radix_digits]; tf. Qed.
#[export] Hint Resolve tframe_radix_digits : tfr.
Lemma tframe_read_digits c w : tframe (read_digits c w).
Proof. unfold read_digits; tf. Qed.
#[export] Hint Resolve tframe_read_digits : tfr.
Lemma tframe_read_exponent w : tframe (read_exponent w).
Proof. unfold read_exponent; tf. Qed.
#[export] Hint Resolve tframe_read_exponent : tfr.
Lemma tframe_read_number : tframe t_read_number.
Proof. unfold t_read_number; tf. Qed.
#[export] Hint Resolve tframe_read_number : tfr.
Lemma tframe_read_radix m v : tframe (read_radix m v).
Proof.
  unfold read_radix; tf.
  intro t. pose proof (tframe_peek t) as Hp. destruct (t_peek t) as [[nx t1]| | |]; try exact I; try apply same_refl; try assumption.
  match goal with |- match ?k t1 with _ => _ end => assert (Hk : tframe k) by tf; specialize (Hk t1); destruct (k t1) as [[r t2]| | |] end;
    try assumption. eapply same_trans; eassumption.
Qed.
#[export] Hint Resolve tframe_read_radix : tfr.
Lemma tframe_ts_digits : forall n w, tframe (read_timestamp_digits n w).
Proof. induction n; intros; cbn [read_timestamp_digits]; tf. Qed.
#[export] Hint Resolve tframe_ts_digits : tfr.
Lemma tframe_ts_offset c w : tframe (read_timestamp_offset c w).
Proof. unfold read_timestamp_offset; tf. Qed.
#[export] Hint Resolve tframe_ts_offset : tfr.
Lemma tframe_ts_offset_or_z c w : tframe (read_timestamp_offset_or_z c w).
Proof. unfold read_timestamp_offset_or_z; tf. Qed.
#[export] Hint Resolve tframe_ts_offset_or_z : tfr.
Lemma tframe_ts_finish c w : tframe (read_timestamp_finish c w).
Proof. unfold read_timestamp_finish; tf. Qed.
#[export] Hint Resolve tframe_ts_finish : tfr.
Lemma tframe_read_timestamp : tframe read_timestamp.
Proof. unfold read_timestamp; tf. Qed.
#[export] Hint Resolve tframe_read_timestamp : tfr.
Lemma tframe_read_while : forall f p w, tframe (read_while f p w).
Proof. induction f; intros; cbn [read_while]; tf. Qed.
#[export] Hint Resolve tframe_read_while : tfr.
Lemma tframe_quoted_symbol_loop : forall f w, tframe (read_quoted_symbol_loop f w).
Proof. induction f; intros; cbn [read_quoted_symbol_loop]; tf. Qed.
#[export] Hint Resolve tframe_quoted_symbol_loop : tfr.
Lemma tframe_string_loop : forall f w, tframe (read_string_loop f w).
Proof. induction f; intros; cbn [read_string_loop]; tf. Qed.
#[export] Hint Resolve tframe_string_loop : tfr.
Lemma tframe_clob_loop : forall f w, tframe (read_clob_loop f w).
Proof. induction f; intros; cbn [read_clob_loop]; tf. Qed.
#[export] Hint Resolve tframe_clob_loop : tfr.
Lemma tframe_long_string_loop : forall f w, tframe (read_long_string_loop f w).
Proof. induction f; intros; cbn [read_long_string_loop]; tf. Qed.
#[export] Hint Resolve tframe_long_string_loop : tfr.
Lemma tframe_long_clob_loop : forall f w, tframe (read_long_clob_loop f w).
Proof. induction f; intros; cbn [read_long_clob_loop]; tf. Qed.
#[export] Hint Resolve tframe_long_clob_loop : tfr.
Lemma tframe_blob_loop : forall f w, tframe (read_blob_loop f w).
Proof. induction f; intros; cbn [read_blob_loop]; tf. Qed.
#[export] Hint Resolve tframe_blob_loop : tfr.

(* ---- skipper.go -------------------------------------------------------------------------------------------- *)
Lemma tframe_skip_digits_loop : forall f c, tframe (skip_digits_loop f c).
Proof. induction f; intros; cbn [skip_digits_loop]; tf. Qed.
#[export] Hint Resolve tframe_skip_digits_loop : tfr.
Lemma tframe_skip_digits c : tframe (skip_digits c).
Proof. unfold skip_digits; tf. Qed.
#[export] Hint Resolve tframe_skip_digits : tfr.
Lemma tframe_skip_number : tframe skip_number.
Proof. unfold skip_number; tf. Qed.
#[export] Hint Resolve tframe_skip_number : tfr.
Lemma tframe_skip_radix_loop : forall f v, tframe (skip_radix_loop f v).
Proof. induction f; intros; cbn [skip_radix_loop]; tf. Qed.
#[export] Hint Resolve tframe_skip_radix_loop : tfr.
Lemma tframe_skip_radix m v : tframe (skip_radix m v).
Proof. unfold skip_radix; tf. Qed.
#[export] Hint Resolve tframe_skip_radix : tfr.
Lemma tframe_skip_ts_digits : forall n, tframe (skip_timestamp_digits n).
Proof. induction n; cbn [skip_timestamp_digits]; tf. Qed.
#[export] Hint Resolve tframe_skip_ts_digits : tfr.
Lemma tframe_skip_ts_finish c : tframe (skip_timestamp_finish c).
Proof. unfold skip_timestamp_finish; tf. Qed.
#[export] Hint Resolve tframe_skip_ts_finish : tfr.
Lemma tframe_skip_ts_offset c : tframe (skip_timestamp_offset c).
Proof. unfold skip_timestamp_offset; tf. Qed.
#[export] Hint Resolve tframe_skip_ts_offset : tfr.
Lemma tframe_skip_ts_offset_or_z c : tframe (skip_timestamp_offset_or_z c).
Proof. unfold skip_timestamp_offset_or_z; tf. Qed.
#[export] Hint Resolve tframe_skip_ts_offset_or_z : tfr.
Lemma tframe_skip_timestamp : tframe skip_timestamp.
Proof. unfold skip_timestamp; tf. Qed.
#[export] Hint Resolve tframe_skip_timestamp : tfr.
Lemma tframe_skip_while : forall f p c, tframe (skip_while f p c).
Proof. induction f; intros; cbn [skip_while]; tf. Qed.
#[export] Hint Resolve tframe_skip_while : tfr.
Lemma tframe_skip_quoted_helper : forall f q, tframe (skip_quoted_helper f q).
Proof. induction f; intros; cbn [skip_quoted_helper]; tf. Qed.
#[export] Hint Resolve tframe_skip_quoted_helper : tfr.
Lemma tframe_skip_long_string_loop : forall f h, tframe (skip_long_string_loop f h).
Proof. induction f; intros; cbn [skip_long_string_loop]; tf. Qed.
#[export] Hint Resolve tframe_skip_long_string_loop : tfr.
Lemma tframe_skip_blob_loop : forall f c, tframe (skip_blob_loop f c).
Proof. induction f; intros; cbn [skip_blob_loop]; tf. Qed.
#[export] Hint Resolve tframe_skip_blob_loop : tfr.
Lemma tframe_skip_blob_helper : tframe skip_blob_helper.
Proof. unfold skip_blob_helper; tf. Qed.
#[export] Hint Resolve tframe_skip_blob_helper : tfr.
Lemma tframe_skip_symbol_quoted_helper : tframe skip_symbol_quoted_helper.
Proof. unfold skip_symbol_quoted_helper; tf. Qed.
Lemma tframe_skip_string_helper : tframe skip_string_helper.
Proof. unfold skip_string_helper; tf. Qed.
Lemma tframe_skip_long_string_helper h : tframe (skip_long_string_helper h).
Proof. unfold skip_long_string_helper; tf. Qed.
#[export] Hint Resolve tframe_skip_symbol_quoted_helper tframe_skip_string_helper tframe_skip_long_string_helper : tfr.
Lemma tframe_skip_container_helper : forall f term, tframe (skip_container_helper f term).
Proof. induction f; intros; cbn [skip_container_helper]; tf. Qed.
#[export] Hint Resolve tframe_skip_container_helper : tfr.
Lemma tframe_skip_container_contents c : tframe (t_skip_container_contents c).
Proof. unfold t_skip_container_contents, t_skip_container_helper; tf. Qed.
Lemma tframe_skip_container term : tframe (skip_container term).
Proof. unfold skip_container, t_skip_container_helper; tf. Qed.
Lemma tframe_skip_double_colon : tframe t_skip_double_colon.
Proof. unfold t_skip_double_colon, skip_double_colon; tf. Qed.
Lemma tframe_skip_dot : tframe t_skip_dot.
Proof. unfold t_skip_dot; tf. Qed.
Lemma tframe_skip_lob_ws : tframe t_skip_lob_ws.
Proof. unfold t_skip_lob_ws; tf. Qed.
#[export] Hint Resolve tframe_skip_container_contents tframe_skip_container tframe_skip_double_colon tframe_skip_dot tframe_skip_lob_ws : tfr.

(* the thirteen tokens skipValue accepts *)
Definition skb (k : N) : bool :=
  existsb (N.eqb k) [tokenNumber; tokenBinary; tokenHex; tokenTimestamp; tokenSymbol; tokenSymbolQuoted; tokenSymbolOperator;
                     tokenString; tokenLongString; tokenOpenDoubleBrace; tokenOpenBrace; tokenOpenParen; tokenOpenBracket].

(* operations that end by marking the token finished *)
Definition tfin {A} (m : M A) (t : tstate) : Prop :=
  match m t with
  | Ok (_, t') => t_token t' = t_token t /\ t_unfinished t' = false /\ t_ioerr t' = t_ioerr t
  | Panic => False
  | _ => True
  end.
Lemma tfin_frame_finish {A} (m : M A) : tframe m -> forall t, tfin (tdo v <- m; tdo _ <- finish; ret v) t.
Proof.
  intros H t; unfold tfin, mbind; specialize (H t). destruct (m t) as [[a t1]| | |]; try assumption.
  cbn. destruct H as [H1 [H2 H3]]. repeat split; assumption.
Qed.

Lemma tfin_bind {A B} (m : M A) (f : A -> M B) t :
  match m t with
  | Ok (a, t1) => same t t1 /\ tfin (f a) t1
  | Panic => False
  | _ => True
  end -> tfin (mbind m f) t.
Proof.
  unfold tfin, mbind. destruct (m t) as [[a t1]| | |]; try (intros H; exact H).
  intros [[S1 [S2 S3]] H]. destruct (f a t1) as [[b t2]| | |]; try exact H.
  destruct H as [H1 [H2 H3]]. repeat split; congruence.
Qed.
Lemma tfin_bind_frame {A B} (m : M A) (f : A -> M B) t :
  tframe m -> (forall a t1, same t t1 -> tfin (f a) t1) -> tfin (mbind m f) t.
Proof.
  intros Hm Hf. apply tfin_bind. specialize (Hm t). destruct (m t) as [[a t1]| | |]; try assumption.
  split; [assumption|apply Hf; assumption].
Qed.
Lemma tfin_finish_ret {A} (v : A) t : tfin (tdo _ <- finish; ret v) t.
Proof. unfold tfin, mbind, finish, ret. cbn. repeat split. Qed.

Lemma skip_value_fin t : skb (t_token t) = true -> tfin t_skip_value t.
Proof.
  intros Hs. unfold t_skip_value.
  apply tfin_bind. unfold get. split; [apply same_refl|]. cbn beta.
  apply tfin_bind_frame.
  - repeat match goal with |- tframe (if ?b then _ else _) => destruct b eqn:? end; tf.
    (* the default branch: the token is none of the thirteen *)
    exfalso. unfold skb in Hs. cbn [existsb] in Hs.
    repeat match goal with H : (_ =? _)%N = false |- _ => rewrite H in Hs; clear H end. discriminate.
  - intros c t1 _. apply tfin_bind_frame; [tf|]. intros c2 t2 _. apply tfin_finish_ret.
Qed.

(* ---- ReadValue and the lob readers ------------------------------------------------------------------------------ *)
Definition rvb (k : N) : bool :=
  existsb (N.eqb k) [tokenSymbol; tokenSymbolQuoted; tokenSymbolOperator; tokenDot; tokenString; tokenLongString;
                     tokenBinary; tokenHex; tokenTimestamp].
Lemma read_value_fin k t : rvb k = true -> tfin (t_read_value k) t.
Proof.
  intros Hk. unfold t_read_value. apply tfin_bind_frame; [|intros; apply tfin_finish_ret].
  repeat match goal with |- tframe (if ?b then _ else _) => destruct b eqn:? end;
    try (unfold read_symbol, read_quoted_symbol, read_operator, read_string, read_long_string, read_binary, read_hex; tf).
  exfalso. unfold rvb in Hk. cbn [existsb] in Hk.
  repeat match goal with H : (_ =? _)%N = false |- _ => rewrite H in Hk; clear H
                    | H : (_ || _)%bool = false |- _ => apply orb_false_elim in H; destruct H end.
  discriminate.
Qed.
Lemma read_blob_fin t : tfin t_read_blob t.
Proof.
  unfold t_read_blob. apply tfin_bind_frame; [tf|intros w t1 _].
  apply tfin_bind_frame; [tf|intros c t2 _]. destruct (negb (c =? c_rbrace)); [exact I|apply tfin_finish_ret].
Qed.
Lemma lob_end_fin t : tfin lob_end t.
Proof.
  unfold lob_end. apply tfin_bind_frame; [tf|intros [c b] t1 _].
  destruct (negb (c =? c_rbrace)); [exact I|]. apply tfin_bind_frame; [tf|intros c2 t2 _].
  destruct (negb (c2 =? c_rbrace)); [exact I|]. unfold tfin, finish. cbn. repeat split.
Qed.
Lemma tfin_then_ret {A B} (m : M A) (v : B) t : tfin m t -> tfin (tdo _ <- m; ret v) t.
Proof. unfold tfin, mbind, ret. destruct (m t) as [[a t1]| | |]; auto. Qed.
Lemma read_short_clob_fin t : tfin t_read_short_clob t.
Proof.
  unfold t_read_short_clob. apply tfin_bind_frame; [unfold read_clob; tf|intros v t1 _].
  apply tfin_then_ret, lob_end_fin.
Qed.
Lemma read_long_clob_fin t : tfin t_read_long_clob t.
Proof.
  unfold t_read_long_clob. apply tfin_bind_frame; [unfold read_long_clob; tf|intros v t1 _].
  apply tfin_then_ret, lob_end_fin.
Qed.

(* ---- Next ------------------------------------------------------------------------------------------------------------ *)
(* after Next the unfinished flag is a function of the token *)
Definition unf_of (k : N) : bool := skb k || (k =? tokenEOF)%N.
Definition tok_sets {A} (m : M A) : Prop :=
  forall t, match m t with
            | Ok (_, t') => t_unfinished t' = unf_of (t_token t')
            | Panic => False
            | _ => True
            end.
Definition yields {A} (m : M A) (P : A -> Prop) : Prop :=
  forall t, match m t with Ok (a, _) => P a | Panic => False | _ => True end.
Lemma yields_frame {A} (m : M A) : tframe m -> yields m (fun _ => True).
Proof. intros H t; specialize (H t); destruct (m t) as [[a t1]| | |]; auto. Qed.
Lemma tok_sets_bind {A B} (m : M A) (f : A -> M B) (P : A -> Prop) :
  yields m P -> (forall a, P a -> tok_sets (f a)) -> tok_sets (mbind m f).
Proof.
  intros Hm Hf t; unfold mbind; specialize (Hm t). destruct (m t) as [[a t1]| | |]; try assumption.
  apply Hf; assumption.
Qed.
Lemma tok_sets_seq {A B} (m : M A) (f : A -> M B) : tframe m -> (forall a, tok_sets (f a)) -> tok_sets (mbind m f).
Proof. intros Hm Hf; eapply tok_sets_bind; [apply yields_frame, Hm|intros a _; apply Hf]. Qed.
Lemma tok_sets_ok k b : b = unf_of k -> tok_sets (t_ok k b).
Proof. intros -> t; reflexivity. Qed.
Lemma tok_sets_fail {A} : tok_sets (@fail A).
Proof. intro t; exact I. Qed.

Definition numeric_token (k : N) : Prop :=
  k = tokenBinary \/ k = tokenHex \/ k = tokenTimestamp \/ k = tokenNumber.
Lemma scan_numeric_yields c : is_digit c = true -> yields (t_scan_numeric c) numeric_token.
Proof.
  intros D t. unfold t_scan_numeric. rewrite D. cbn [negb].
  unfold mbind. pose proof (tframe_peekN 4 t) as H. destruct (t_peekN 4 t) as [[[cs e] t1]| | |]; try assumption.
  unfold numeric_token, ret.
  repeat match goal with |- match (if ?b then _ else _) _ with _ => _ end => destruct b end; auto.
Qed.

Ltac ts :=
  repeat first
    [ apply tok_sets_fail
    | apply tok_sets_ok; reflexivity
    | apply tok_sets_seq; [ solve [tf] | intros ]
    | progress cbn beta
    | match goal with
      | |- tok_sets (if ?b then _ else _) => destruct b eqn:?
      end ].

Lemma next_spec t :
  (t_unfinished t = true -> skb (t_token t) = true) ->
  match t_next t with
  | Ok (_, t') => t_unfinished t' = unf_of (t_token t')
  | Panic => False
  | _ => True
  end.
Proof.
  intros Hpre. unfold t_next, t_next_with. unfold mbind at 1. unfold get.
  (* the character Next dispatches on *)
  unfold mbind at 1.
  match goal with |- match match ?m t with _ => _ end with _ => _ end =>
    assert (Hm : match m t with Ok (_, t1) => True | Panic => False | _ => True end) end.
  { destruct (t_unfinished t) eqn:U.
    - pose proof (skip_value_fin t (Hpre eq_refl)) as H. unfold tfin in H.
      destruct (t_skip_value t) as [[c t1]| | |]; auto.
    - match goal with |- match ?m t with _ => _ end => assert (H : tframe m) by tf; specialize (H t); destruct (m t) as [[c t1]| | |] end; auto. }
  match goal with |- match match ?m t with _ => _ end with _ => _ end => destruct (m t) as [[c t1]| | |] end; try exact Hm; try exact I.
  clear Hm.
  match goal with |- match ?k t1 with _ => _ end => assert (Hk : tok_sets k); [ | exact (Hk t1) ] end.
  ts.
  - (* '-' followed by a digit *)
    eapply tok_sets_bind; [apply scan_numeric_yields; assumption|].
    intros k Hk. destruct (k =? tokenTimestamp)%N; [apply tok_sets_fail|].
    ts. destruct Hk as [ -> | [ -> | [ -> | -> ] ] ]; apply tok_sets_ok; reflexivity.
  - (* a digit *)
    eapply tok_sets_bind; [apply scan_numeric_yields; assumption|].
    intros k Hk. ts. destruct Hk as [ -> | [ -> | [ -> | -> ] ] ]; apply tok_sets_ok; reflexivity.
Qed.

(* ---- the bare tokenizer driven by its protocol never panics -------------------------------------------------------- *)
(* Next (not called again once EOF has been returned), and optionally ReadValue / ReadNumber on the current token *)
Inductive tkop := KNext | KRead.
Definition drop {A} (r : res (A * tstate)) : res tstate :=
  match r with Ok (_, t) => Ok t | Err => Err | Panic => Panic | OutOfFuel => OutOfFuel end.
Definition tk_step (o : tkop) (t : tstate) : res tstate :=
  match o with
  | KNext => if t_unfinished t && (t_token t =? tokenEOF)%N then Ok t else drop (t_next t)
  | KRead => if rvb (t_token t) then drop (t_read_value (t_token t) t)
             else if (t_token t =? tokenNumber)%N then drop (t_read_number t)
             else Ok t
  end.
Fixpoint tk_run (ops : list tkop) (t : tstate) : res tstate :=
  match ops with
  | [] => Ok t
  | o :: r => match tk_step o t with Ok t' => tk_run r t' | e => e end
  end.

Definition tinv (t : tstate) : Prop :=
  t_unfinished t = true -> skb (t_token t) = true \/ t_token t = tokenEOF.

Lemma tk_step_inv o t : tinv t ->
  match tk_step o t with Ok t' => tinv t' | Panic => False | _ => True end.
Proof.
  intros Hi. destruct o; cbn [tk_step].
  - destruct (t_unfinished t && (t_token t =? tokenEOF)%N) eqn:B; [exact Hi|].
    assert (Hpre : t_unfinished t = true -> skb (t_token t) = true).
    { intros U. destruct (Hi U) as [S|E]; [exact S|]. rewrite U, E in B. discriminate. }
    pose proof (next_spec t Hpre) as H. destruct (t_next t) as [[u t1]| | |]; cbn [drop]; auto.
    intros U. rewrite H in U. unfold unf_of in U. apply orb_true_iff in U as [S|E]; [left; exact S|right].
    apply N.eqb_eq in E; exact E.
  - destruct (rvb (t_token t)) eqn:R.
    + pose proof (read_value_fin (t_token t) t R) as H. unfold tfin in H.
      destruct (t_read_value (t_token t) t) as [[v t1]| | |]; cbn [drop]; auto.
      destruct H as [_ [H _]]. intros U. congruence.
    + destruct (t_token t =? tokenNumber)%N; [|exact Hi].
      pose proof (tframe_read_number t) as H. destruct (t_read_number t) as [[v t1]| | |]; cbn [drop]; auto.
      destruct H as [H1 [H2 _]]. unfold tinv. rewrite H1, H2. exact Hi.
Qed.

Lemma tk_run_no_panic : forall ops t, tinv t -> tk_run ops t <> Panic.
Proof.
  induction ops as [|o r IH]; intros t Hi; cbn [tk_run]; [discriminate|].
  pose proof (tk_step_inv o t Hi) as H. destruct (tk_step o t) as [t1| | |]; try discriminate; [|contradiction].
  apply IH; exact H.
Qed.
Lemma tk_no_panic inp ioerr ops : tk_run ops (t_init inp ioerr) <> Panic.
Proof. apply tk_run_no_panic. intros U. discriminate. Qed.
