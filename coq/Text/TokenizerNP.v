(* TokenizerNP.v — the tokenizer and skipper models never panic when driven by
   their own protocol, and every operation other than Next / ReadValue /
   FinishValue / the lob readers leaves [token] and [unfinished] alone. *)
From Coq Require Import String List NArith ZArith Bool Lia.
From IonV Require Import Base.Wire Base.Utf8 Text.Tokenizer Text.Skipper.
Import ListNotations.
Open Scope Z_scope.

(* no panic, and token / unfinished / ioerr unchanged *)
Definition same (t t' : tstate) : Prop :=
  t_token t' = t_token t /\ t_unfinished t' = t_unfinished t /\ t_ioerr t' = t_ioerr t.
Definition tframe {A} (m : M A) : Prop :=
  forall t, match m t with
            | Ok (_, t') => same t t'
            | Panic => False
            | _ => True
            end.

Lemma same_refl t : same t t.
Proof. repeat split. Qed.
Lemma same_trans a b c : same a b -> same b c -> same a c.
Proof. intros [A1 [A2 A3]] [B1 [B2 B3]]; repeat split; congruence. Qed.

Lemma tframe_ret {A} (a : A) : tframe (ret a).
Proof. intro t; apply same_refl. Qed.
Lemma tframe_fail {A} : tframe (@fail A).
Proof. intro t; exact I. Qed.
Lemma tframe_nofuel {A} : tframe (@nofuel A).
Proof. intro t; exact I. Qed.
Lemma tframe_get : tframe get.
Proof. intro t; apply same_refl. Qed.
Lemma tframe_read : tframe t_read.
Proof.
  intro t; unfold t_read. destruct (t_buf t); [|repeat split].
  destruct (t_in t) as [|i is]; [destruct (t_ioerr t); [exact I|apply same_refl]|].
  destruct (i =? 13)%N; [|repeat split].
  destruct is as [|i2 is2]; [destruct (t_ioerr t); [exact I|repeat split]|].
  destruct (i2 =? 10)%N; repeat split.
Qed.
#[export] Hint Resolve tframe_read : tfr.
Lemma tframe_unread c : tframe (t_unread c).
Proof. intro t; repeat split. Qed.
#[export] Hint Resolve tframe_unread : tfr.
Lemma tframe_bind {A B} (m : M A) (f : A -> M B) :
  tframe m -> (forall a, tframe (f a)) -> tframe (mbind m f).
Proof.
  intros Hm Hf t; unfold mbind; specialize (Hm t).
  destruct (m t) as [[a t1]| | |]; try assumption.
  specialize (Hf a t1). destruct (f a t1) as [[b t2]| | |]; try assumption.
  eapply same_trans; eassumption.
Qed.
Lemma tframe_with_fuel {A} (g : nat -> M A) : (forall f, tframe (g f)) -> tframe (with_fuel g).
Proof. intros H t; unfold with_fuel; apply H. Qed.

Ltac tf :=
  repeat first
    [ assumption
    | solve [auto 1 with tfr nocore]
    | apply tframe_ret | apply tframe_fail | apply tframe_nofuel | apply tframe_get
    | apply tframe_read | apply tframe_unread
    | apply tframe_with_fuel; intros
    | apply tframe_bind; [ | intros ]
    | progress cbn beta
    | match goal with
      | |- tframe (if ?b then _ else _) => destruct b
      | |- tframe (let '(_, _) := ?p in _) => destruct p
      | |- tframe (match ?v with _ => _ end) => destruct v
      end ].

Lemma tframe_peek : tframe t_peek.
Proof.
  intro t; unfold t_peek. destruct (t_buf t); [|apply same_refl].
  revert t. change (tframe (tdo c <- t_read; tdo _ <- t_unread c; ret c)). tf.
Qed.
#[export] Hint Resolve tframe_peek : tfr.

Lemma tframe_peekN_loop : forall n acc, tframe (peekN_loop n acc).
Proof. induction n; intros; cbn [peekN_loop]; tf. Qed.
#[export] Hint Resolve tframe_peekN_loop : tfr.
Lemma tframe_unread_all : forall l, tframe (unread_all l).
Proof. induction l; cbn [unread_all]; tf. Qed.
#[export] Hint Resolve tframe_unread_all : tfr.
Lemma tframe_peekN n : tframe (t_peekN n).
Proof. unfold t_peekN; tf. Qed.
#[export] Hint Resolve tframe_peekN : tfr.
Lemma tframe_skipN : forall n, tframe (t_skipN n).
Proof. induction n; cbn [t_skipN]; tf. Qed.
#[export] Hint Resolve tframe_skipN : tfr.
Lemma tframe_expect f : tframe (t_expect f).
Proof. unfold t_expect; tf. Qed.
#[export] Hint Resolve tframe_expect : tfr.
Lemma tframe_is_stop_char c : tframe (t_is_stop_char c).
Proof. unfold t_is_stop_char; tf. Qed.
#[export] Hint Resolve tframe_is_stop_char : tfr.
Lemma tframe_is_triple_quote : tframe t_is_triple_quote.
Proof. unfold t_is_triple_quote; tf. Qed.
#[export] Hint Resolve tframe_is_triple_quote : tfr.
Lemma tframe_is_inf c : tframe (t_is_inf c).
Proof. unfold t_is_inf; tf. Qed.
#[export] Hint Resolve tframe_is_inf : tfr.

Lemma tframe_single_line : forall f, tframe (skip_single_line_comment f).
Proof. induction f; cbn [skip_single_line_comment]; tf. Qed.
#[export] Hint Resolve tframe_single_line : tfr.
Lemma tframe_block : forall f star, tframe (skip_block_comment f star).
Proof. induction f; intros; cbn [skip_block_comment]; tf. Qed.
#[export] Hint Resolve tframe_block : tfr.
Lemma tframe_handler h : tframe (run_handler h).
Proof. destruct h; cbn [run_handler]; tf. Qed.
#[export] Hint Resolve tframe_handler : tfr.
Lemma tframe_ws : forall f h sk, tframe (skip_whitespace_with f h sk).
Proof. induction f; intros; cbn [skip_whitespace_with]; tf. Qed.
#[export] Hint Resolve tframe_ws : tfr.
Lemma tframe_skip_whitespace : tframe t_skip_whitespace.
Proof. unfold t_skip_whitespace; tf; apply tframe_ws. Qed.
#[export] Hint Resolve tframe_skip_whitespace : tfr.
Lemma tframe_skip_lob_whitespace : tframe t_skip_lob_whitespace.
Proof. unfold t_skip_lob_whitespace; tf; apply tframe_ws. Qed.
#[export] Hint Resolve tframe_skip_lob_whitespace : tfr.
Lemma tframe_skip_whitespace_h h : tframe (t_skip_whitespace_h h).
Proof. unfold t_skip_whitespace_h; tf; apply tframe_ws. Qed.
#[export] Hint Resolve tframe_skip_whitespace_h : tfr.
Lemma tframe_end_of_long_string h : tframe (t_skip_end_of_long_string h).
Proof.
  unfold t_skip_end_of_long_string; tf.
Qed.
#[export] Hint Resolve tframe_end_of_long_string : tfr.

(* ---- escapes, numbers, timestamps, symbols, strings ---------------------------------------------------- *)
Lemma tframe_hex_escape : forall n v, tframe (read_hex_escape_seq n v).
Proof. induction n; intros; cbn [read_hex_escape_seq]; tf. Qed.
#[export] Hint Resolve tframe_hex_escape : tfr.
Lemma tframe_surrogate_pair hi : tframe (read_surrogate_pair hi).
Proof. unfold read_surrogate_pair; tf. Qed.
#[export] Hint Resolve tframe_surrogate_pair : tfr.
Lemma tframe_escaped_char k : tframe (read_escaped_char k).
Proof. unfold read_escaped_char; tf. Qed.
#[export] Hint Resolve tframe_escaped_char : tfr.
Lemma tframe_backslash k : tframe (process_backslash k).
Proof. unfold process_backslash; tf. Qed.
#[export] Hint Resolve tframe_backslash : tfr.
Lemma tframe_radix_digits : forall f valid w, tframe (read_radix_digits f valid w).
Proof. induction f; intros; cbn [read_radix_digits]; tf. Qed.
#[export] Hint Resolve tframe_radix_digits : tfr.
Lemma tframe_read_digits c w : tframe (read_digits c w).
Proof. unfold read_digits; tf. Qed.
#[export] Hint Resolve tframe_read_digits : tfr.
Lemma tframe_plain_digits_loop : forall f c w, tframe (read_plain_digits_loop f c w).
Proof. induction f; intros; cbn [read_plain_digits_loop]; tf. Qed.
#[export] Hint Resolve tframe_plain_digits_loop : tfr.
Lemma tframe_plain_digits c w : tframe (read_plain_digits c w).
Proof. unfold read_plain_digits; tf. Qed.
#[export] Hint Resolve tframe_plain_digits : tfr.
Lemma tframe_read_exponent w : tframe (read_exponent w).
Proof. unfold read_exponent; tf. Qed.
#[export] Hint Resolve tframe_read_exponent : tfr.
Lemma tframe_read_number : tframe t_read_number.
Proof. unfold t_read_number; tf. Qed.
#[export] Hint Resolve tframe_read_number : tfr.
Lemma tframe_read_radix m v : tframe (read_radix m v).
Proof.
  unfold read_radix; tf.
  intro t. pose proof (tframe_peek t) as Hp. destruct (t_peek t) as [[nx t1]| | |]; try exact I; try apply same_refl; try assumption.
  match goal with |- match ?k t1 with _ => _ end => assert (Hk : tframe k) by tf; specialize (Hk t1); destruct (k t1) as [[r t2]| | |] end;
    try assumption. eapply same_trans; eassumption.
Qed.
#[export] Hint Resolve tframe_read_radix : tfr.
Lemma tframe_ts_digits : forall n w, tframe (read_timestamp_digits n w).
Proof. induction n; intros; cbn [read_timestamp_digits]; tf. Qed.
#[export] Hint Resolve tframe_ts_digits : tfr.
Lemma tframe_ts_offset c w : tframe (read_timestamp_offset c w).
Proof. unfold read_timestamp_offset; tf. Qed.
#[export] Hint Resolve tframe_ts_offset : tfr.
Lemma tframe_ts_offset_or_z c w : tframe (read_timestamp_offset_or_z c w).
Proof. unfold read_timestamp_offset_or_z; tf. Qed.
#[export] Hint Resolve tframe_ts_offset_or_z : tfr.
Lemma tframe_ts_finish c w : tframe (read_timestamp_finish c w).
Proof. unfold read_timestamp_finish; tf. Qed.
#[export] Hint Resolve tframe_ts_finish : tfr.
Lemma tframe_read_timestamp : tframe read_timestamp.
Proof. unfold read_timestamp; tf. Qed.
#[export] Hint Resolve tframe_read_timestamp : tfr.
Lemma tframe_read_while : forall f p w, tframe (read_while f p w).
Proof. induction f; intros; cbn [read_while]; tf. Qed.
#[export] Hint Resolve tframe_read_while : tfr.
Lemma tframe_read_operator_loop : forall f w, tframe (read_operator_loop f w).
Proof. induction f; intros; cbn [read_operator_loop]; tf. Qed.
#[export] Hint Resolve tframe_read_operator_loop : tfr.
Lemma tframe_check_utf8 v : tframe (check_utf8 v).
Proof. unfold check_utf8; tf. Qed.
#[export] Hint Resolve tframe_check_utf8 : tfr.
Lemma tframe_quoted_symbol_loop : forall f w, tframe (read_quoted_symbol_loop f w).
Proof. induction f; intros; cbn [read_quoted_symbol_loop]; tf. Qed.
#[export] Hint Resolve tframe_quoted_symbol_loop : tfr.
Lemma tframe_string_loop : forall f w, tframe (read_string_loop f w).
Proof. induction f; intros; cbn [read_string_loop]; tf. Qed.
#[export] Hint Resolve tframe_string_loop : tfr.
Lemma tframe_clob_loop : forall f w, tframe (read_clob_loop f w).
Proof. induction f; intros; cbn [read_clob_loop]; tf. Qed.
#[export] Hint Resolve tframe_clob_loop : tfr.
Lemma tframe_long_string_loop : forall f w seg, tframe (read_long_string_loop f w seg).
Proof. induction f; intros; cbn [read_long_string_loop]; tf. Qed.
#[export] Hint Resolve tframe_long_string_loop : tfr.
Lemma tframe_long_clob_loop : forall f w, tframe (read_long_clob_loop f w).
Proof. induction f; intros; cbn [read_long_clob_loop]; tf. Qed.
#[export] Hint Resolve tframe_long_clob_loop : tfr.
Lemma tframe_blob_loop : forall f w, tframe (read_blob_loop f w).
Proof. induction f; intros; cbn [read_blob_loop]; tf. Qed.
#[export] Hint Resolve tframe_blob_loop : tfr.

(* ---- skipper.go -------------------------------------------------------------------------------------------- *)
Lemma tframe_skip_digits_loop : forall f c, tframe (skip_digits_loop f c).
Proof. induction f; intros; cbn [skip_digits_loop]; tf. Qed.
#[export] Hint Resolve tframe_skip_digits_loop : tfr.
Lemma tframe_skip_digits c : tframe (skip_digits c).
Proof. unfold skip_digits; tf. Qed.
#[export] Hint Resolve tframe_skip_digits : tfr.
Lemma tframe_skip_number : tframe skip_number.
Proof. unfold skip_number; tf. Qed.
#[export] Hint Resolve tframe_skip_number : tfr.
Lemma tframe_skip_radix_loop : forall f v, tframe (skip_radix_loop f v).
Proof. induction f; intros; cbn [skip_radix_loop]; tf. Qed.
#[export] Hint Resolve tframe_skip_radix_loop : tfr.
Lemma tframe_skip_radix m v : tframe (skip_radix m v).
Proof. unfold skip_radix; tf. Qed.
#[export] Hint Resolve tframe_skip_radix : tfr.
Lemma tframe_skip_ts_digits : forall n, tframe (skip_timestamp_digits n).
Proof. induction n; cbn [skip_timestamp_digits]; tf. Qed.
#[export] Hint Resolve tframe_skip_ts_digits : tfr.
Lemma tframe_skip_ts_finish c : tframe (skip_timestamp_finish c).
Proof. unfold skip_timestamp_finish; tf. Qed.
#[export] Hint Resolve tframe_skip_ts_finish : tfr.
Lemma tframe_skip_ts_offset c : tframe (skip_timestamp_offset c).
Proof. unfold skip_timestamp_offset; tf. Qed.
#[export] Hint Resolve tframe_skip_ts_offset : tfr.
Lemma tframe_skip_ts_offset_or_z c : tframe (skip_timestamp_offset_or_z c).
Proof. unfold skip_timestamp_offset_or_z; tf. Qed.
#[export] Hint Resolve tframe_skip_ts_offset_or_z : tfr.
Lemma tframe_skip_timestamp : tframe skip_timestamp.
Proof. unfold skip_timestamp; tf. Qed.
#[export] Hint Resolve tframe_skip_timestamp : tfr.
Lemma tframe_skip_while : forall f p c, tframe (skip_while f p c).
Proof. induction f; intros; cbn [skip_while]; tf. Qed.
#[export] Hint Resolve tframe_skip_while : tfr.
Lemma tframe_skip_operator_loop : forall f c, tframe (skip_operator_loop f c).
Proof. induction f; intros; cbn [skip_operator_loop]; tf. Qed.
#[export] Hint Resolve tframe_skip_operator_loop : tfr.
Lemma tframe_skip_quoted_helper : forall f q, tframe (skip_quoted_helper f q).
Proof. induction f; intros; cbn [skip_quoted_helper]; tf. Qed.
#[export] Hint Resolve tframe_skip_quoted_helper : tfr.
Lemma tframe_skip_long_string_loop : forall f h, tframe (skip_long_string_loop f h).
Proof. induction f; intros; cbn [skip_long_string_loop]; tf. Qed.
#[export] Hint Resolve tframe_skip_long_string_loop : tfr.
Lemma tframe_skip_blob_loop : forall f c, tframe (skip_blob_loop f c).
Proof. induction f; intros; cbn [skip_blob_loop]; tf. Qed.
#[export] Hint Resolve tframe_skip_blob_loop : tfr.
Lemma tframe_skip_blob_helper : tframe skip_blob_helper.
Proof. unfold skip_blob_helper; tf. Qed.
#[export] Hint Resolve tframe_skip_blob_helper : tfr.
Lemma tframe_skip_symbol_quoted_helper : tframe skip_symbol_quoted_helper.
Proof. unfold skip_symbol_quoted_helper; tf. Qed.
Lemma tframe_skip_string_helper : tframe skip_string_helper.
Proof. unfold skip_string_helper; tf. Qed.
Lemma tframe_skip_long_string_helper h : tframe (skip_long_string_helper h).
Proof. unfold skip_long_string_helper; tf. Qed.
#[export] Hint Resolve tframe_skip_symbol_quoted_helper tframe_skip_string_helper tframe_skip_long_string_helper : tfr.
Lemma tframe_skip_container_loop : forall f top terms, tframe (skip_container_loop f top terms).
Proof. induction f; intros; cbn [skip_container_loop]; tf. Qed.
#[export] Hint Resolve tframe_skip_container_loop : tfr.
Lemma tframe_skip_container_helper : forall f term, tframe (skip_container_helper f term).
Proof. intros; unfold skip_container_helper; tf. Qed.
#[export] Hint Resolve tframe_skip_container_helper : tfr.
Lemma tframe_skip_container_contents c : tframe (t_skip_container_contents c).
Proof. unfold t_skip_container_contents, t_skip_container_helper; tf. Qed.
Lemma tframe_skip_container term : tframe (skip_container term).
Proof. unfold skip_container, t_skip_container_helper; tf. Qed.
Lemma tframe_skip_double_colon : tframe t_skip_double_colon.
Proof. unfold t_skip_double_colon, skip_double_colon; tf. Qed.
Lemma tframe_skip_dot : tframe t_skip_dot.
Proof. unfold t_skip_dot; tf. Qed.
Lemma tframe_skip_lob_ws : tframe t_skip_lob_ws.
Proof. unfold t_skip_lob_ws; tf. Qed.
#[export] Hint Resolve tframe_skip_container_contents tframe_skip_container tframe_skip_double_colon tframe_skip_dot tframe_skip_lob_ws : tfr.

(* the thirteen tokens skipValue accepts *)
Definition skb (k : N) : bool :=
  existsb (N.eqb k) [tokenNumber; tokenBinary; tokenHex; tokenTimestamp; tokenSymbol; tokenSymbolQuoted; tokenSymbolOperator;
                     tokenString; tokenLongString; tokenOpenDoubleBrace; tokenOpenBrace; tokenOpenParen; tokenOpenBracket].

(* operations that end by marking the token finished *)
Definition tfin {A} (m : M A) (t : tstate) : Prop :=
  match m t with
  | Ok (_, t') => t_token t' = t_token t /\ t_unfinished t' = false /\ t_ioerr t' = t_ioerr t
  | Panic => False
  | _ => True
  end.
Lemma tfin_frame_finish {A} (m : M A) : tframe m -> forall t, tfin (tdo v <- m; tdo _ <- finish; ret v) t.
Proof.
  intros H t; unfold tfin, mbind; specialize (H t). destruct (m t) as [[a t1]| | |]; try assumption.
  cbn. destruct H as [H1 [H2 H3]]. repeat split; assumption.
Qed.

Lemma tfin_bind {A B} (m : M A) (f : A -> M B) t :
  match m t with
  | Ok (a, t1) => same t t1 /\ tfin (f a) t1
  | Panic => False
  | _ => True
  end -> tfin (mbind m f) t.
Proof.
  unfold tfin, mbind. destruct (m t) as [[a t1]| | |]; try (intros H; exact H).
  intros [[S1 [S2 S3]] H]. destruct (f a t1) as [[b t2]| | |]; try exact H.
  destruct H as [H1 [H2 H3]]. repeat split; congruence.
Qed.
Lemma tfin_bind_frame {A B} (m : M A) (f : A -> M B) t :
  tframe m -> (forall a t1, same t t1 -> tfin (f a) t1) -> tfin (mbind m f) t.
Proof.
  intros Hm Hf. apply tfin_bind. specialize (Hm t). destruct (m t) as [[a t1]| | |]; try assumption.
  split; [assumption|apply Hf; assumption].
Qed.
Lemma tfin_finish_ret {A} (v : A) t : tfin (tdo _ <- finish; ret v) t.
Proof. unfold tfin, mbind, finish, ret. cbn. repeat split. Qed.

Lemma skip_value_fin t : skb (t_token t) = true -> tfin t_skip_value t.
Proof.
  intros Hs. unfold t_skip_value.
  apply tfin_bind. unfold get. split; [apply same_refl|]. cbn beta.
  apply tfin_bind_frame.
  - repeat match goal with |- tframe (if ?b then _ else _) => destruct b eqn:? end; tf.
    (* the default branch: the token is none of the thirteen *)
    exfalso. unfold skb in Hs. cbn [existsb] in Hs.
    repeat match goal with H : (_ =? _)%N = false |- _ => rewrite H in Hs; clear H end. discriminate.
  - intros c t1 _. apply tfin_bind_frame; [tf|]. intros c2 t2 _. apply tfin_finish_ret.
Qed.

(* ---- ReadValue and the lob readers ------------------------------------------------------------------------------ *)
Definition rvb (k : N) : bool :=
  existsb (N.eqb k) [tokenSymbol; tokenSymbolQuoted; tokenSymbolOperator; tokenDot; tokenString; tokenLongString;
                     tokenBinary; tokenHex; tokenTimestamp].
Lemma read_value_fin k t : rvb k = true -> tfin (t_read_value k) t.
Proof.
  intros Hk. unfold t_read_value. apply tfin_bind_frame; [|intros; apply tfin_finish_ret].
  repeat match goal with |- tframe (if ?b then _ else _) => destruct b eqn:? end;
    try (unfold read_symbol, read_quoted_symbol, read_operator, read_string, read_long_string, read_binary, read_hex; tf).
  exfalso. unfold rvb in Hk. cbn [existsb] in Hk.
  repeat match goal with H : (_ =? _)%N = false |- _ => rewrite H in Hk; clear H
                    | H : (_ || _)%bool = false |- _ => apply orb_false_elim in H; destruct H end.
  discriminate.
Qed.
Lemma read_blob_fin t : tfin t_read_blob t.
Proof.
  unfold t_read_blob. apply tfin_bind_frame; [tf|intros w t1 _].
  apply tfin_bind_frame; [tf|intros c t2 _]. destruct (negb (c =? c_rbrace)); [exact I|apply tfin_finish_ret].
Qed.
Lemma lob_end_fin t : tfin lob_end t.
Proof.
  unfold lob_end. apply tfin_bind_frame; [tf|intros [c b] t1 _].
  destruct (negb (c =? c_rbrace)); [exact I|]. apply tfin_bind_frame; [tf|intros c2 t2 _].
  destruct (negb (c2 =? c_rbrace)); [exact I|]. unfold tfin, finish. cbn. repeat split.
Qed.
Lemma tfin_then_ret {A B} (m : M A) (v : B) t : tfin m t -> tfin (tdo _ <- m; ret v) t.
Proof. unfold tfin, mbind, ret. destruct (m t) as [[a t1]| | |]; auto. Qed.
Lemma read_short_clob_fin t : tfin t_read_short_clob t.
Proof.
  unfold t_read_short_clob. apply tfin_bind_frame; [unfold read_clob; tf|intros v t1 _].
  apply tfin_then_ret, lob_end_fin.
Qed.
Lemma read_long_clob_fin t : tfin t_read_long_clob t.
Proof.
  unfold t_read_long_clob. apply tfin_bind_frame; [unfold read_long_clob; tf|intros v t1 _].
  apply tfin_then_ret, lob_end_fin.
Qed.

(* ---- the push-back buffer after a look-ahead ------------------------------------------------------------------------ *)
Lemma read_buf t c b : t_buf t = c :: b -> t_read t = Ok (c, set_buf t b).
Proof. intros H; unfold t_read; rewrite H; reflexivity. Qed.
Lemma peek_buf t c b : t_buf t = c :: b -> t_peek t = Ok (c, t).
Proof. intros H; unfold t_peek; rewrite H; reflexivity. Qed.
Lemma unread_all_buf : forall l t, exists t', unread_all l t = Ok (tt, t') /\ t_buf t' = rev l ++ t_buf t.
Proof.
  induction l as [|c l IH]; intros t; cbn [unread_all].
  - exists t; split; reflexivity.
  - unfold mbind, t_unread. destruct (IH (set_buf t (c :: t_buf t))) as [t' [E B]].
    exists t'; split; [exact E|]. rewrite B. cbn. rewrite <- app_assoc. reflexivity.
Qed.
Lemma peekN_loop_len : forall n acc t cs eof t1,
  peekN_loop n acc t = Ok ((cs, eof), t1) ->
  (eof = false -> length cs = length acc + n)%nat /\ (length acc <= length cs)%nat.
Proof.
  induction n as [|n IH]; intros acc t cs eof t1; cbn [peekN_loop].
  - unfold ret. intros E; injection E as <- <- _. rewrite rev_length. split; lia.
  - unfold mbind. destruct (t_read t) as [[c t0]| | |]; try discriminate.
    destruct (c =? -1).
    + unfold ret. intros E; injection E as <- <- _. rewrite rev_length. split; [discriminate|lia].
    + intros E. apply IH in E. cbn [length] in E. split; [intros H; destruct E as [E _]; specialize (E H)|]; lia.
Qed.
(* after peekN the characters it saw (and the EOF mark) are in the buffer *)
Lemma peekN_buf n t cs eof t' :
  t_peekN n t = Ok ((cs, eof), t') ->
  (length cs + (if eof then 1 else 0) <= length (t_buf t'))%nat /\ (eof = false -> length cs = n).
Proof.
  unfold t_peekN, mbind.
  destruct (peekN_loop n [] t) as [[[cs0 e0] t1]| | |] eqn:E1; try discriminate.
  apply peekN_loop_len in E1. cbn [length] in E1.
  set (t2 := if e0 then set_buf t1 (-1 :: t_buf t1) else t1).
  assert (E2 : (if e0 then t_unread (-1) else ret tt) t1 = Ok (tt, t2)) by (destruct e0; reflexivity).
  rewrite E2. destruct (unread_all_buf (rev cs0) t2) as [t3 [E3 B3]]. rewrite E3. unfold ret.
  intros E; injection E as <- <- <-. rewrite B3, rev_involutive, app_length.
  split; [|intros H; destruct E1 as [E1 _]; rewrite (E1 H); lia].
  subst t2. destruct e0; cbn; lia.
Qed.

(* ---- Next ------------------------------------------------------------------------------------------------------------ *)
(* after Next the unfinished flag is a function of the token, and a 0b / 0x token has its first three
   (with a sign: four) characters in the push-back buffer, so that readRadix's look-ahead cannot fail *)
Definition unf_of (k : N) : bool := skb k || (k =? tokenEOF)%N.
Definition is_radix (k : N) : bool := ((k =? tokenBinary) || (k =? tokenHex))%N.
Definition radix_ready (t : tstate) : Prop :=
  (3 <= length (t_buf t))%nat /\ (hd 0 (t_buf t) = c_minus -> (4 <= length (t_buf t))%nat).
Definition tokpost (t : tstate) : Prop :=
  t_unfinished t = unf_of (t_token t) /\ (is_radix (t_token t) = true -> radix_ready t).
Definition tok_sets {A} (m : M A) : Prop :=
  forall t, match m t with
            | Ok (_, t') => tokpost t'
            | Panic => False
            | _ => True
            end.
Definition yields {A} (m : M A) (P : A -> tstate -> Prop) : Prop :=
  forall t, match m t with Ok (a, t') => P a t' | Panic => False | _ => True end.
Lemma yields_frame {A} (m : M A) : tframe m -> yields m (fun _ _ => True).
Proof. intros H t; specialize (H t); destruct (m t) as [[a t1]| | |]; auto. Qed.
Lemma tok_sets_bind {A B} (m : M A) (f : A -> M B) (P : A -> tstate -> Prop) :
  yields m P ->
  (forall a t1, P a t1 -> match f a t1 with Ok (_, t') => tokpost t' | Panic => False | _ => True end) ->
  tok_sets (mbind m f).
Proof.
  intros Hm Hf t; unfold mbind; specialize (Hm t). destruct (m t) as [[a t1]| | |]; try assumption.
  apply Hf; assumption.
Qed.
Lemma tok_sets_seq {A B} (m : M A) (f : A -> M B) : tframe m -> (forall a, tok_sets (f a)) -> tok_sets (mbind m f).
Proof. intros Hm Hf; eapply tok_sets_bind; [apply yields_frame, Hm|intros a t1 _; apply Hf]. Qed.
Lemma tok_sets_ok k b : b = unf_of k -> is_radix k = false -> tok_sets (t_ok k b).
Proof. intros -> R t; split; [reflexivity|cbn; rewrite R; discriminate]. Qed.
Lemma tok_sets_fail {A} : tok_sets (@fail A).
Proof. intro t; exact I. Qed.

Definition numeric_token (k : N) : Prop :=
  k = tokenBinary \/ k = tokenHex \/ k = tokenTimestamp \/ k = tokenNumber.
(* scanForNumericType on a digit: a numeric token, and for 0b / 0x at least the marker and one more
   entry (a character or the EOF mark) in the buffer *)
Lemma scan_numeric_yields c : is_digit c = true ->
  yields (t_scan_numeric c) (fun k t' => numeric_token k /\ (is_radix k = true -> (2 <= length (t_buf t'))%nat)).
Proof.
  intros D t. unfold t_scan_numeric. rewrite D. cbn [negb].
  unfold mbind. pose proof (tframe_peekN 4 t) as H.
  destruct (t_peekN 4 t) as [[[cs e] t1]| | |] eqn:E; try assumption.
  apply peekN_buf in E. destruct E as [L1 L2].
  unfold numeric_token, ret.
  repeat match goal with |- match (if ?b then _ else _) _ with _ => _ end => destruct b eqn:? end;
    (split; [auto|]); try (cbn; discriminate); intros _.
  all: repeat match goal with H : (_ && _)%bool = true |- _ => apply andb_prop in H; destruct H end.
  all: match goal with H : (0 <? _)%nat = true |- _ => apply Nat.ltb_lt in H end.
  all: destruct e; [lia|specialize (L2 eq_refl); lia].
Qed.

Ltac ts :=
  repeat first
    [ apply tok_sets_fail
    | apply tok_sets_ok; reflexivity
    | apply tok_sets_seq; [ solve [tf] | intros ]
    | progress cbn beta
    | match goal with
      | |- tok_sets (if ?b then _ else _) => destruct b eqn:?
      end ].

Lemma digit_not_minus c : is_digit c = true -> c <> c_minus.
Proof. intros D ->. discriminate. Qed.

Lemma next_spec t :
  (t_unfinished t = true -> skb (t_token t) = true) ->
  match t_next t with
  | Ok (_, t') => tokpost t'
  | Panic => False
  | _ => True
  end.
Proof.
  intros Hpre. unfold t_next, t_next_with. unfold mbind at 1. unfold get.
  (* the character Next dispatches on *)
  unfold mbind at 1.
  match goal with |- match match ?m t with _ => _ end with _ => _ end =>
    assert (Hm : match m t with Ok (_, t1) => True | Panic => False | _ => True end) end.
  { destruct (t_unfinished t) eqn:U.
    - pose proof (skip_value_fin t (Hpre eq_refl)) as H. unfold tfin in H.
      destruct (t_skip_value t) as [[c t1]| | |]; auto.
    - match goal with |- match ?m t with _ => _ end => assert (H : tframe m) by tf; specialize (H t); destruct (m t) as [[c t1]| | |] end; auto. }
  match goal with |- match match ?m t with _ => _ end with _ => _ end => destruct (m t) as [[c t1]| | |] end; try exact Hm; try exact I.
  clear Hm.
  match goal with |- match ?k t1 with _ => _ end => assert (Hk : tok_sets k); [ | exact (Hk t1) ] end.
  ts.
  - (* '-' followed by a digit *)
    eapply tok_sets_bind; [apply scan_numeric_yields; assumption|].
    intros k t2 [Hk Hb]. destruct (k =? tokenTimestamp)%N eqn:KT; [exact I|].
    unfold mbind, t_unread, t_ok. cbn. split.
    + destruct Hk as [ -> | [ -> | [ -> | -> ] ] ]; reflexivity.
    + intros R. specialize (Hb R). split; cbn; [lia|intros _; lia].
  - (* a digit *)
    eapply tok_sets_bind; [apply scan_numeric_yields; assumption|].
    intros k t2 [Hk Hb]. unfold mbind, t_unread, t_ok. cbn. split.
    + destruct Hk as [ -> | [ -> | [ -> | -> ] ] ]; reflexivity.
    + intros R. specialize (Hb R). split; cbn; [lia|].
      intros Hc. exfalso. eapply digit_not_minus; eassumption.
Qed.

(* ---- readRadix: with the look-ahead in the buffer it yields (-)0b... / (-)0x..., on which parseInt cannot panic ---- *)
Definition radix_shape (v : list N) : Prop :=
  match v with
  | a :: _ :: r => if (a =? 45)%N then r <> [] else True
  | _ => False
  end.
Lemma radix_digits_suffix : forall fuel valid w t c w' t',
  read_radix_digits fuel valid w t = Ok ((c, w'), t') -> exists d, w' = d ++ w.
Proof.
  induction fuel as [|f IH]; intros valid w t c w' t'; cbn [read_radix_digits]; [discriminate|].
  unfold mbind. destruct (t_read t) as [[c0 t0]| | |]; try discriminate.
  destruct (c0 =? c_under).
  - destruct (t_peek t0) as [[nx t1]| | |]; try discriminate. destruct (negb (valid nx)); [discriminate|]. apply IH.
  - destruct (negb (valid c0)).
    + unfold ret. intros E; injection E as _ <- _. exists []; reflexivity.
    + intros E. apply IH in E. destruct E as [d ->]. exists (d ++ [byte_of c0]). rewrite <- app_assoc. reflexivity.
Qed.
Lemma radix_tail valid w t :
  match (tdo '(c, w') <- with_fuel (fun f => read_radix_digits f valid w);
         tdo ok <- t_is_stop_char c;
         if negb ok then fail else tdo _ <- t_unread c; ret (rev w')) t with
  | Ok (v, _) => exists d, v = rev (d ++ w)
  | _ => True
  end.
Proof.
  unfold mbind at 1, with_fuel.
  destruct (read_radix_digits (t_fuel t) valid w t) as [[[c w'] t1]| | |] eqn:E; try exact I.
  apply radix_digits_suffix in E. destruct E as [d ->].
  unfold mbind. destruct (t_is_stop_char c t1) as [[ok t2]| | |]; try exact I.
  destruct (negb ok); [exact I|]. cbn. exists d; reflexivity.
Qed.

Lemma read_radix_shape mk valid t : radix_ready t ->
  match read_radix mk valid t with Ok (v, _) => radix_shape v | _ => True end.
Proof.
  intros [L3 L4]. unfold read_radix.
  destruct (t_buf t) as [|c0 [|c1 [|c2 b]]] eqn:B; cbn [length] in L3; try lia.
  unfold mbind at 1. rewrite (read_buf _ _ _ B).
  destruct (c0 =? c_minus) eqn:M.
  - apply Z.eqb_eq in M. cbn [hd] in L4. specialize (L4 M). destruct b as [|c3 b]; [cbn in L4; lia|].
    unfold mbind at 1. unfold mbind at 1.
    erewrite read_buf by reflexivity. unfold ret.
    destruct (negb (c1 =? c_0)); [exact I|].
    unfold mbind at 1. erewrite read_buf by reflexivity.
    destruct (negb (mk c2)); [exact I|]. cbn beta.
    erewrite peek_buf by reflexivity.
    destruct (c3 =? c_under); [exact I|].
    match goal with |- match ?k ?st with _ => _ end =>
      assert (H : match k st with Ok (v, _) => exists d, v = rev (d ++ [byte_of c2; 48%N; 45%N]) | _ => True end)
        by exact (radix_tail valid [byte_of c2; 48%N; 45%N] st);
      destruct (k st) as [[v t']| | |] end; try exact I.
    destruct H as [d ->]. rewrite rev_app_distr. cbn. discriminate.
  - unfold ret. unfold mbind at 1.
    destruct (negb (c0 =? c_0)) eqn:Z0; [exact I|].
    unfold mbind at 1. erewrite read_buf by reflexivity.
    destruct (negb (mk c1)); [exact I|]. cbn beta.
    erewrite peek_buf by reflexivity.
    destruct (c2 =? c_under); [exact I|].
    match goal with |- match ?k ?st with _ => _ end =>
      assert (H : match k st with Ok (v, _) => exists d, v = rev (d ++ [byte_of c1; 48%N]) | _ => True end)
        by exact (radix_tail valid [byte_of c1; 48%N] st);
      destruct (k st) as [[v t']| | |] end; try exact I.
    destruct H as [d ->]. rewrite rev_app_distr. cbn. exact I.
Qed.
Lemma read_value_radix k t : is_radix k = true -> radix_ready t ->
  match t_read_value k t with Ok (v, _) => radix_shape v | _ => True end.
Proof.
  intros R Hr. unfold is_radix in R. unfold t_read_value, mbind.
  destruct (k =? tokenBinary)%N eqn:KB.
  - apply N.eqb_eq in KB; subst k. cbn [N.eqb tokenBinary tokenSymbol tokenSymbolQuoted tokenSymbolOperator tokenDot tokenString tokenLongString Pos.eqb orb].
    pose proof (read_radix_shape is_b is_bin_digit t Hr) as H. unfold read_binary.
    destruct (read_radix is_b is_bin_digit t) as [[v t']| | |]; try exact I. exact H.
  - cbn [orb] in R. apply N.eqb_eq in R; subst k. cbn [N.eqb tokenHex tokenBinary tokenSymbol tokenSymbolQuoted tokenSymbolOperator tokenDot tokenString tokenLongString Pos.eqb orb].
    pose proof (read_radix_shape is_x is_hex_digit t Hr) as H. unfold read_hex.
    destruct (read_radix is_x is_hex_digit t) as [[v t']| | |]; try exact I. exact H.
Qed.

(* FinishValue *)
Lemma finish_value_fin t : (t_unfinished t = true -> skb (t_token t) = true) -> tfin t_finish_value t.
Proof.
  intros Hpre. unfold t_finish_value, t_finish_value_with.
  apply tfin_bind. unfold get. split; [apply same_refl|]. cbn beta.
  destruct (t_unfinished t) eqn:U; cbn [negb].
  - unfold tfin. pose proof (skip_value_fin t (Hpre eq_refl)) as H. unfold tfin in H.
    unfold mbind. destruct (t_skip_value t) as [[c t1]| | |]; try exact H. cbn.
    destruct H as [H1 [_ H3]]. repeat split; assumption.
  - unfold tfin, ret. repeat split. exact U.
Qed.

(* ---- the bare tokenizer driven by its protocol never panics -------------------------------------------------------- *)
(* Next (not called again once EOF has been returned), and optionally ReadValue / ReadNumber on the current token *)
Inductive tkop := KNext | KRead.
Definition drop {A} (r : res (A * tstate)) : res tstate :=
  match r with Ok (_, t) => Ok t | Err => Err | Panic => Panic | OutOfFuel => OutOfFuel end.
Definition tk_step (o : tkop) (t : tstate) : res tstate :=
  match o with
  | KNext => if t_unfinished t && (t_token t =? tokenEOF)%N then Ok t else drop (t_next t)
  | KRead => if rvb (t_token t) then drop (t_read_value (t_token t) t)
             else if (t_token t =? tokenNumber)%N then drop (t_read_number t)
             else Ok t
  end.
Fixpoint tk_run (ops : list tkop) (t : tstate) : res tstate :=
  match ops with
  | [] => Ok t
  | o :: r => match tk_step o t with Ok t' => tk_run r t' | e => e end
  end.

Definition tinv (t : tstate) : Prop :=
  t_unfinished t = true -> skb (t_token t) = true \/ t_token t = tokenEOF.

Lemma tk_step_inv o t : tinv t ->
  match tk_step o t with Ok t' => tinv t' | Panic => False | _ => True end.
Proof.
  intros Hi. destruct o; cbn [tk_step].
  - destruct (t_unfinished t && (t_token t =? tokenEOF)%N) eqn:B; [exact Hi|].
    assert (Hpre : t_unfinished t = true -> skb (t_token t) = true).
    { intros U. destruct (Hi U) as [S|E]; [exact S|]. rewrite U, E in B. discriminate. }
    pose proof (next_spec t Hpre) as H. destruct (t_next t) as [[u t1]| | |]; cbn [drop]; auto.
    destruct H as [H _]. intros U. rewrite H in U. unfold unf_of in U. apply orb_true_iff in U as [S|E]; [left; exact S|right].
    apply N.eqb_eq in E; exact E.
  - destruct (rvb (t_token t)) eqn:R.
    + pose proof (read_value_fin (t_token t) t R) as H. unfold tfin in H.
      destruct (t_read_value (t_token t) t) as [[v t1]| | |]; cbn [drop]; auto.
      destruct H as [_ [H _]]. intros U. congruence.
    + destruct (t_token t =? tokenNumber)%N; [|exact Hi].
      pose proof (tframe_read_number t) as H. destruct (t_read_number t) as [[v t1]| | |]; cbn [drop]; auto.
      destruct H as [H1 [H2 _]]. unfold tinv. rewrite H1, H2. exact Hi.
Qed.

Lemma tk_run_no_panic : forall ops t, tinv t -> tk_run ops t <> Panic.
Proof.
  induction ops as [|o r IH]; intros t Hi; cbn [tk_run]; [discriminate|].
  pose proof (tk_step_inv o t Hi) as H. destruct (tk_step o t) as [t1| | |]; try discriminate; [|contradiction].
  apply IH; exact H.
Qed.
Lemma tk_no_panic inp ioerr ops : tk_run ops (t_init inp ioerr) <> Panic.
Proof. apply tk_run_no_panic. intros U. discriminate. Qed.

(* ---- UTF-8: concatenation, ASCII, and the texts ReadValue returns ------------------------------------------------ *)
Local Open Scope N_scope.
Ltac brk :=
  repeat match goal with
         | |- context [if ?b then _ else _] => destruct b eqn:?
         | |- context [match ?r with [] => _ | _ :: _ => _ end] => destruct r
         end.

Definition utf8_body (rec : list N -> bool) (c : N) (r : list N) : bool :=
  if c <? 128 then rec r
  else if in_range 194 223 c then
    match r with c1 :: r' => cont c1 && rec r' | _ => false end
  else if c =? 224 then
    match r with c1 :: c2 :: r' => in_range 160 191 c1 && cont c2 && rec r' | _ => false end
  else if in_range 225 236 c || in_range 238 239 c then
    match r with c1 :: c2 :: r' => cont c1 && cont c2 && rec r' | _ => false end
  else if c =? 237 then
    match r with c1 :: c2 :: r' => in_range 128 159 c1 && cont c2 && rec r' | _ => false end
  else if c =? 240 then
    match r with c1 :: c2 :: c3 :: r' => in_range 144 191 c1 && cont c2 && cont c3 && rec r' | _ => false end
  else if in_range 241 243 c then
    match r with c1 :: c2 :: c3 :: r' => cont c1 && cont c2 && cont c3 && rec r' | _ => false end
  else if c =? 244 then
    match r with c1 :: c2 :: c3 :: r' => in_range 128 143 c1 && cont c2 && cont c3 && rec r' | _ => false end
  else false.
Lemma utf8_step f c r : utf8_valid_fuel (S f) (c :: r) = utf8_body (utf8_valid_fuel f) c r.
Proof. reflexivity. Qed.
(* the body only calls [rec] on suffixes that are at least one byte shorter *)
Lemma utf8_body_ext (g h : list N -> bool) c r :
  (forall r', (length r' <= length r)%nat -> g r' = h r') -> utf8_body g c r = utf8_body h c r.
Proof.
  intros H. unfold utf8_body.
  repeat match goal with |- (if ?b then _ else _) = (if ?b then _ else _) => destruct b end; try reflexivity.
  - apply H; lia.
  - destruct r as [|c1 r']; [reflexivity|]. rewrite H by (cbn; lia). reflexivity.
  - destruct r as [|c1 [|c2 r']]; try reflexivity. rewrite H by (cbn; lia). reflexivity.
  - destruct r as [|c1 [|c2 r']]; try reflexivity. rewrite H by (cbn; lia). reflexivity.
  - destruct r as [|c1 [|c2 r']]; try reflexivity. rewrite H by (cbn; lia). reflexivity.
  - destruct r as [|c1 [|c2 [|c3 r']]]; try reflexivity. rewrite H by (cbn; lia). reflexivity.
  - destruct r as [|c1 [|c2 [|c3 r']]]; try reflexivity. rewrite H by (cbn; lia). reflexivity.
  - destruct r as [|c1 [|c2 [|c3 r']]]; try reflexivity. rewrite H by (cbn; lia). reflexivity.
Qed.

(* enough fuel is enough *)
Lemma utf8_fuel_S : forall f l, (length l <= f)%nat -> utf8_valid_fuel (S f) l = utf8_valid_fuel f l.
Proof.
  induction f as [|f IH]; intros l Hl.
  - destruct l; [reflexivity|cbn in Hl; lia].
  - destruct l as [|c r]; [reflexivity|].
    cbn [length] in Hl. rewrite !utf8_step. apply utf8_body_ext. intros r' Hr. apply IH. lia.
Qed.
Lemma utf8_fuel_ge : forall k f l, (length l <= f)%nat -> utf8_valid_fuel (k + f) l = utf8_valid_fuel f l.
Proof.
  induction k as [|k IH]; intros f l Hl; [reflexivity|].
  cbn [Nat.add]. rewrite utf8_fuel_S by lia. apply IH; exact Hl.
Qed.
Lemma utf8_valid_fuel_eq f l : (length l <= f)%nat -> utf8_valid_fuel f l = utf8_valid l.
Proof.
  intros Hl. unfold utf8_valid. replace f with ((f - length l) + length l)%nat by lia.
  apply utf8_fuel_ge. lia.
Qed.

(* the concatenation of two valid texts is valid *)
Lemma utf8_app_fuel : forall f a b, (length a <= f)%nat ->
  utf8_valid_fuel f a = true -> utf8_valid b = true -> utf8_valid (a ++ b) = true.
Proof.
  induction f as [|f IH]; intros a b Ha Va Vb.
  - destruct a; [exact Vb|cbn in Ha; lia].
  - destruct a as [|c r]; [exact Vb|].
    cbn [length] in Ha. rewrite <- (utf8_valid_fuel_eq (S (length (r ++ b))) ((c :: r) ++ b)) by (cbn; lia).
    cbn [app]. rewrite utf8_step in *.
    assert (Hk : forall r', (length r' <= f)%nat -> (length (r' ++ b) <= length (r ++ b))%nat ->
              utf8_valid_fuel f r' = true -> utf8_valid_fuel (length (r ++ b)) (r' ++ b) = true).
    { intros r' L1 L2 V. rewrite utf8_valid_fuel_eq by exact L2. apply (IH r' b L1 V Vb). }
    revert Va. unfold utf8_body.
    repeat match goal with |- (if ?x then _ else _) = true -> (if ?x then _ else _) = true => destruct x end;
      try discriminate.
    + intros V. apply Hk; [lia|lia|exact V].
    + destruct r as [|c1 r']; [discriminate|]. cbn [app]. intros V. apply andb_prop in V. destruct V as [V1 V2].
      rewrite V1. cbn [andb]. apply Hk; [cbn in Ha; lia|cbn; rewrite !app_length; lia|exact V2].
    + destruct r as [|c1 [|c2 r']]; try discriminate. cbn [app]. intros V.
      apply andb_prop in V. destruct V as [V1 V2]. rewrite V1. cbn [andb].
      apply Hk; [cbn in Ha; lia|cbn; rewrite !app_length; lia|exact V2].
    + destruct r as [|c1 [|c2 r']]; try discriminate. cbn [app]. intros V.
      apply andb_prop in V. destruct V as [V1 V2]. rewrite V1. cbn [andb].
      apply Hk; [cbn in Ha; lia|cbn; rewrite !app_length; lia|exact V2].
    + destruct r as [|c1 [|c2 r']]; try discriminate. cbn [app]. intros V.
      apply andb_prop in V. destruct V as [V1 V2]. rewrite V1. cbn [andb].
      apply Hk; [cbn in Ha; lia|cbn; rewrite !app_length; lia|exact V2].
    + destruct r as [|c1 [|c2 [|c3 r']]]; try discriminate. cbn [app]. intros V.
      apply andb_prop in V. destruct V as [V1 V2]. rewrite V1. cbn [andb].
      apply Hk; [cbn in Ha; lia|cbn; rewrite !app_length; lia|exact V2].
    + destruct r as [|c1 [|c2 [|c3 r']]]; try discriminate. cbn [app]. intros V.
      apply andb_prop in V. destruct V as [V1 V2]. rewrite V1. cbn [andb].
      apply Hk; [cbn in Ha; lia|cbn; rewrite !app_length; lia|exact V2].
    + destruct r as [|c1 [|c2 [|c3 r']]]; try discriminate. cbn [app]. intros V.
      apply andb_prop in V. destruct V as [V1 V2]. rewrite V1. cbn [andb].
      apply Hk; [cbn in Ha; lia|cbn; rewrite !app_length; lia|exact V2].
Qed.
Lemma utf8_app a b : utf8_valid a = true -> utf8_valid b = true -> utf8_valid (a ++ b) = true.
Proof. intros Va Vb. apply (utf8_app_fuel (length a) a b); auto. Qed.

(* ASCII is UTF-8 *)
Lemma utf8_ascii : forall l, forallb (fun c : N => (c <? 128)%N) l = true -> utf8_valid l = true.
Proof.
  unfold utf8_valid. induction l as [|c r IH]; [reflexivity|].
  cbn [forallb length utf8_valid_fuel]. intros H. apply andb_prop in H. destruct H as [H1 H2].
  rewrite H1. apply IH, H2.
Qed.


(* ---- the texts the tokenizer returns are UTF-8 ---------------------------------------------------------------------- *)
Definition valid_out (m : M (list N)) : Prop :=
  forall t, match m t with Ok (v, _) => utf8_valid v = true | _ => True end.
Lemma valid_out_bind {A} (m : M A) (k : A -> M (list N)) : (forall a, valid_out (k a)) -> valid_out (mbind m k).
Proof. intros H t. unfold mbind. destruct (m t) as [[a t1]| | |]; auto. apply H. Qed.
Lemma valid_out_fail : valid_out fail. Proof. intro t; exact I. Qed.
Lemma valid_out_nofuel : valid_out nofuel. Proof. intro t; exact I. Qed.
Lemma valid_out_check v : valid_out (check_utf8 v).
Proof. intro t. unfold check_utf8. destruct (utf8_valid v) eqn:E; [exact E|exact I]. Qed.

Ltac vo IH :=
  repeat first
    [ apply valid_out_fail | apply valid_out_nofuel | apply valid_out_check | apply IH
    | apply valid_out_bind; intros
    | progress cbn beta
    | match goal with
      | |- valid_out (if ?b then _ else _) => destruct b
      | |- valid_out (let '(_, _) := ?p in _) => destruct p
      end ].

Lemma valid_string_loop : forall f w, valid_out (read_string_loop f w).
Proof. induction f as [|f IH]; intros w; cbn [read_string_loop]; vo IH. Qed.
Lemma valid_quoted_symbol_loop : forall f w, valid_out (read_quoted_symbol_loop f w).
Proof. induction f as [|f IH]; intros w; cbn [read_quoted_symbol_loop]; vo IH. Qed.

(* the end of a long string is always reported together with "consumed" *)
Lemma end_is_consumed h t e c t' : t_skip_end_of_long_string h t = Ok ((e, c), t') -> e = true -> c = true.
Proof.
  unfold t_skip_end_of_long_string, mbind.
  destruct (t_peekN 2 t) as [[[cs eof] t1]| | |]; try discriminate.
  match goal with |- (if ?b then _ else _) _ = _ -> _ => destruct b end.
  - unfold ret. intros E; injection E as <- _ _. discriminate.
  - destruct (t_skipN 2 t1) as [[u t2]| | |]; try discriminate.
    destruct (t_skip_whitespace_h h t2) as [[[c0 s0] t3]| | |]; try discriminate.
    destruct ((if (c0 =? c_quote)%Z then t_is_triple_quote else ret false) t3) as [[again t4]| | |]; try discriminate.
    destruct again.
    + unfold ret. intros E; injection E as <- _ _. discriminate.
    + destruct (t_unread c0 t4) as [[u2 t5]| | |]; try discriminate.
      unfold ret. intros E; injection E as _ <- _. reflexivity.
Qed.
Lemma valid_long_string_loop : forall f w seg,
  utf8_valid (rev w) = true -> valid_out (read_long_string_loop f w seg).
Proof.
  induction f as [|f IH]; intros w seg Vw; cbn [read_long_string_loop]; [apply valid_out_nofuel|].
  apply valid_out_bind; intros c.
  match goal with |- valid_out (if ?b then _ else _) => destruct b end; [apply valid_out_fail|].
  destruct (c =? c_quote)%Z.
  - intros t. unfold mbind. destruct (t_skip_end_of_long_string HSkipComments t) as [[[e cns] t1]| | |] eqn:E; auto.
    pose proof (end_is_consumed _ _ _ _ _ E) as Hc.
    destruct cns.
    + destruct (utf8_valid (rev seg)) eqn:Vs; cbn [negb]; [|exact I].
      assert (Vall : utf8_valid (rev (seg ++ w)) = true) by (rewrite rev_app_distr; apply utf8_app; assumption).
      destruct e; [exact Vall|]. apply IH. exact Vall.
    + destruct e; [specialize (Hc eq_refl); discriminate|]. apply IH. exact Vw.
  - destruct (c =? c_bslash)%Z; [apply valid_out_bind; intros bs|]; apply IH; exact Vw.
Qed.

(* identifiers and operators are ASCII *)
Lemma valid_read_while : forall f p (w : list N),
  (forall c, p c = true -> (0 <= c < 128)%Z) ->
  forallb (fun c : N => (c <? 128)%N) w = true ->
  forall t, match read_while f p w t with Ok (v, _) => forallb (fun c : N => (c <? 128)%N) v = true | _ => True end.
Proof.
  induction f as [|f IH]; intros p w Hp Hw t; cbn [read_while]; [exact I|].
  unfold mbind. destruct (t_peek t) as [[c t1]| | |]; auto.
  destruct (p c) eqn:P.
  - destruct (t_read t1) as [[c' t2]| | |]; auto. apply IH; [exact Hp|].
    cbn [forallb]. rewrite Hw, andb_true_r. specialize (Hp c P). unfold byte_of.
    rewrite Z.mod_small by lia. apply N.ltb_lt. lia.
  - unfold ret. rewrite forallb_forall in *. intros x Hx. apply Hw. rewrite in_rev. exact Hx.
Qed.
Lemma ident_ascii c : is_identifier_part c = true -> (0 <= c < 128)%Z.
Proof.
  unfold is_identifier_part, is_identifier_start, is_digit. intros H.
  repeat match goal with
         | H : (_ || _)%bool = true |- _ => apply orb_true_iff in H; destruct H as [H|H]
         | H : (_ && _)%bool = true |- _ => apply andb_prop in H; destruct H
         | H : (_ <=? _)%Z = true |- _ => apply Z.leb_le in H
         | H : (_ =? _)%Z = true |- _ => apply Z.eqb_eq in H
         end; lia.
Qed.
Lemma operator_ascii c : is_operator_char c = true -> (0 <= c < 128)%Z.
Proof.
  unfold is_operator_char, zmem. cbn [existsb]. intros H.
  repeat (apply orb_true_iff in H; destruct H as [H|H]; [apply Z.eqb_eq in H; lia|]). discriminate.
Qed.
Lemma valid_read_symbol : valid_out read_symbol.
Proof.
  intros t. unfold read_symbol, with_fuel.
  pose proof (valid_read_while (t_fuel t) is_identifier_part [] ident_ascii eq_refl t) as H.
  destruct (read_while (t_fuel t) is_identifier_part [] t) as [[v t1]| | |]; auto. apply utf8_ascii, H.
Qed.
Lemma valid_read_operator_loop : forall f (w : list N),
  forallb (fun c : N => (c <? 128)%N) w = true ->
  forall t, match read_operator_loop f w t with Ok (v, _) => forallb (fun c : N => (c <? 128)%N) v = true | _ => True end.
Proof.
  induction f as [|f IH]; intros w Hw t; cbn [read_operator_loop]; [exact I|].
  unfold mbind at 1. destruct (t_peek t) as [[c t1]| | |]; auto.
  assert (Hret : forall t0, match ret (rev w) t0 with Ok (v, _) => forallb (fun c0 : N => (c0 <? 128)%N) v = true | _ => True end).
  { intros t0. unfold ret. rewrite forallb_forall in *. intros x Hx. apply Hw. rewrite in_rev. exact Hx. }
  destruct (is_operator_char c) eqn:P; [|apply Hret].
  unfold mbind at 1.
  match goal with |- match match ?m t1 with _ => _ end with _ => _ end => destruct (m t1) as [[stop t2]| | |]; auto end.
  destruct stop; [apply Hret|].
  unfold mbind. destruct (t_read t2) as [[c' t3]| | |]; auto. apply IH.
  cbn [forallb]. rewrite Hw, andb_true_r. pose proof (operator_ascii c P). unfold byte_of.
  rewrite Z.mod_small by lia. apply N.ltb_lt. lia.
Qed.
Lemma valid_read_operator : valid_out read_operator.
Proof.
  intros t. unfold read_operator, with_fuel.
  pose proof (valid_read_operator_loop (t_fuel t) [] eq_refl t) as H.
  destruct (read_operator_loop (t_fuel t) [] t) as [[v t1]| | |]; auto. apply utf8_ascii, H.
Qed.

(* ReadValue on a symbol or string token *)
Definition textual (k : N) : bool :=
  existsb (N.eqb k) [tokenSymbol; tokenSymbolQuoted; tokenSymbolOperator; tokenDot; tokenString; tokenLongString].
Lemma valid_read_value k : textual k = true -> valid_out (t_read_value k).
Proof.
  intros Hk t. unfold t_read_value, mbind.
  match goal with |- match match ?m t with _ => _ end with _ => _ end =>
    assert (Hm : valid_out m); [ | specialize (Hm t); destruct (m t) as [[v t1]| | |]; auto ] end.
  unfold textual in Hk. cbn [existsb] in Hk.
  repeat match goal with |- valid_out (if ?b then _ else _) => destruct b eqn:? end.
  - apply valid_read_symbol.
  - unfold read_quoted_symbol. intros t0. apply valid_quoted_symbol_loop.
  - apply valid_read_operator.
  - unfold read_string. intros t0. apply valid_string_loop.
  - unfold read_long_string. intros t0. apply valid_long_string_loop. reflexivity.
  - exfalso. repeat match goal with H : (_ || _)%bool = false |- _ => apply orb_false_elim in H; destruct H end.
    repeat match goal with H : (_ =? _)%N = false |- _ => rewrite H in Hk; clear H end. discriminate.
  - exfalso. repeat match goal with H : (_ || _)%bool = false |- _ => apply orb_false_elim in H; destruct H end.
    repeat match goal with H : (_ =? _)%N = false |- _ => rewrite H in Hk; clear H end. discriminate.
  - exfalso. repeat match goal with H : (_ || _)%bool = false |- _ => apply orb_false_elim in H; destruct H end.
    repeat match goal with H : (_ =? _)%N = false |- _ => rewrite H in Hk; clear H end. discriminate.
  - exfalso. repeat match goal with H : (_ || _)%bool = false |- _ => apply orb_false_elim in H; destruct H end.
    repeat match goal with H : (_ =? _)%N = false |- _ => rewrite H in Hk; clear H end. discriminate.
Qed.
