(* SpellTs.v — C02, timestamps: every precision and every offset form.

   [ts_shape] / [ts_text]: the spellings of a timestamp, written from the Ion text grammar
   (yyyyT, yyyy-mmT, yyyy-mm-dd, yyyy-mm-ddT, yyyy-mm-ddThh:mm<off>, ...:ss<off>, ...:ss.f+<off>
   with <off> = Z | +hh:mm | -hh:mm), independently of the tokenizer.  Fields are numbers,
   printed zero-padded in two or four decimal digits; the fraction is a list of digit VALUES
   of any length >= 1.  [ts_ok]: the ranges of the grammar and the calendar (month length of
   the SPECIFICATION, SpecText.month_len).  [ts_fields]: the eleven numbers the spelling
   denotes (y,mo,d,h,mi,s,ns,offset minutes,offset kind,precision,fraction digits), the
   fraction beyond nine digits rounded half up to nanoseconds with the carry spelled out.

   Theorems: the tokenizer's readTimestamp, started on the literal followed by anything that
   ends a token, consumes exactly the literal, answers it and pushes the terminator back
   ([read_timestamp_run]); the model's timestamp parser maps the literal to [ts_fields], for
   every number of fraction digits ([parse_ts_text_spelling]); both on a concrete input
   ([read_timestamp_spelling]).  Cross-check: the specification decoder SpecText.p_timestamp
   accepts every spelling in the same place and answers [spec_value] ([spec_timestamp_spelling]),
   its terminator condition is the tokenizer's ([num_end_stops]); all together [timestamp_spelling].
   The one place where model and specification differ by design: beyond nine fraction digits the
   model rounds to nanoseconds (and may carry, up to the year 10000), the specification keeps
   every digit.

   Not a spelling here: a lower-case `z` (the tokenizer accepts it, parse_ts_text and the
   grammar reject it) and yyyy-mm-ddT+hh:mm (the tokenizer accepts it, parse_ts_text and
   SpecText.p_timestamp reject it: see [date_T_offset_rejected]). *)
From Coq Require Import String List NArith ZArith Bool Lia ZifyBool ZifyN ZifyNat.
From IonV Require Import Base.Wire Base.Utf8 Text.Tokenizer Text.Skipper Text.SpellBase Text.TextNum.
From IonV Require Text.SpecText.
Import ListNotations.
Open Scope Z_scope.
Ltac Zify.zify_post_hook ::= Z.div_mod_to_equations.

(* ---- the spellings ------------------------------------------------------------------------------------ *)
Inductive ts_off :=
| OffZ                                  (* Z *)
| OffPlus (hh mm : N)                   (* +hh:mm *)
| OffMinus (hh mm : N).                 (* -hh:mm, -00:00 = unknown local offset *)
Inductive ts_shape :=
| TsYear (y : N)                                            (* yyyyT *)
| TsMonth (y mo : N)                                        (* yyyy-mmT *)
| TsDay (y mo d : N) (t : bool)                             (* yyyy-mm-dd, yyyy-mm-ddT *)
| TsMinute (y mo d h mi : N) (o : ts_off)                   (* yyyy-mm-ddThh:mm<off> *)
| TsSecond (y mo d h mi sec : N) (o : ts_off)               (* yyyy-mm-ddThh:mm:ss<off> *)
| TsFrac (y mo d h mi sec : N) (fd : list N) (o : ts_off).  (* yyyy-mm-ddThh:mm:ss.f+<off> *)

Definition d2 (n : N) : list N := [48 + n / 10; 48 + n mod 10]%N.
Definition d4 (n : N) : list N := d2 (n / 100) ++ d2 (n mod 100).
Definition digs (fd : list N) : list N := map (fun d => 48 + d)%N fd.
Definition off_text (o : ts_off) : list N :=
  match o with
  | OffZ => [90]%N
  | OffPlus hh mm => 43%N :: d2 hh ++ 58%N :: d2 mm
  | OffMinus hh mm => 45%N :: d2 hh ++ 58%N :: d2 mm
  end.
Definition date_text (y mo d : N) : list N := d4 y ++ 45%N :: d2 mo ++ 45%N :: d2 d.
Definition ts_text (sh : ts_shape) : list N :=
  match sh with
  | TsYear y => d4 y ++ [84]%N
  | TsMonth y mo => d4 y ++ 45%N :: d2 mo ++ [84]%N
  | TsDay y mo d t => date_text y mo d ++ (if t then [84]%N else [])
  | TsMinute y mo d h mi o => date_text y mo d ++ 84%N :: d2 h ++ 58%N :: d2 mi ++ off_text o
  | TsSecond y mo d h mi sec o => date_text y mo d ++ 84%N :: d2 h ++ 58%N :: d2 mi ++ 58%N :: d2 sec ++ off_text o
  | TsFrac y mo d h mi sec fd o =>
    date_text y mo d ++ 84%N :: d2 h ++ 58%N :: d2 mi ++ 58%N :: d2 sec ++ 46%N :: digs fd ++ off_text o
  end.

(* ranges *)
Definition year_ok (y : N) : bool := ((1 <=? y) && (y <=? 9999))%N.
Definition month_ok (mo : N) : bool := ((1 <=? mo) && (mo <=? 12))%N.
Definition date_wf (y mo d : N) : bool :=
  year_ok y && month_ok mo && (1 <=? d)%N && (Z.of_N d <=? SpecText.month_len (Z.of_N y) (Z.of_N mo)).
Definition time_ok (h mi : N) : bool := ((h <? 24) && (mi <? 60))%N.
Definition off_ok (o : ts_off) : bool :=
  match o with OffZ => true | OffPlus hh mm | OffMinus hh mm => ((hh <? 24) && (mm <? 60))%N end.
Definition frac_ok (fd : list N) : bool :=
  match fd with [] => false | _ => forallb (fun d => d <=? 9)%N fd end.
Definition ts_ok (sh : ts_shape) : bool :=
  match sh with
  | TsYear y => year_ok y
  | TsMonth y mo => year_ok y && month_ok mo
  | TsDay y mo d _ => date_wf y mo d
  | TsMinute y mo d h mi o => date_wf y mo d && time_ok h mi && off_ok o
  | TsSecond y mo d h mi sec o => date_wf y mo d && time_ok h mi && (sec <? 60)%N && off_ok o
  | TsFrac y mo d h mi sec fd o => date_wf y mo d && time_ok h mi && (sec <? 60)%N && frac_ok fd && off_ok o
  end.
(* all the tokenizer needs: every field fits its width *)
Definition w2 (n : N) : bool := (n <? 100)%N.
Definition off_fits (o : ts_off) : bool :=
  match o with OffZ => true | OffPlus hh mm | OffMinus hh mm => w2 hh && w2 mm end.
Definition ts_fits (sh : ts_shape) : bool :=
  match sh with
  | TsYear y => (y <? 10000)%N
  | TsMonth y mo => (y <? 10000)%N && w2 mo
  | TsDay y mo d _ => (y <? 10000)%N && w2 mo && w2 d
  | TsMinute y mo d h mi o => (y <? 10000)%N && w2 mo && w2 d && w2 h && w2 mi && off_fits o
  | TsSecond y mo d h mi sec o => (y <? 10000)%N && w2 mo && w2 d && w2 h && w2 mi && w2 sec && off_fits o
  | TsFrac y mo d h mi sec fd o =>
    (y <? 10000)%N && w2 mo && w2 d && w2 h && w2 mi && w2 sec && frac_ok fd && off_fits o
  end.

(* ---- what a spelling denotes ------------------------------------------------------------------------ *)
(* (offset in minutes, kind): kind 0 = unknown offset (-00:00), 1 = UTC (Z, +00:00), 2 = a local offset *)
Definition off_fields (o : ts_off) : Z * Z :=
  match o with
  | OffZ => (0, 1)
  | OffPlus hh mm => if ((hh =? 0) && (mm =? 0))%N then (0, 1) else (Z.of_N (hh * 60 + mm), 2)
  | OffMinus hh mm => if ((hh =? 0) && (mm =? 0))%N then (0, 0) else (- Z.of_N (hh * 60 + mm), 2)
  end.
(* the number a digit list spells *)
Definition dval (ds : list N) : Z := fold_left (fun a d => a * 10 + Z.of_N d) ds 0.
(* the fraction in nanoseconds: up to nine digits exactly; beyond, the first nine digits, plus one
   when the tenth digit is 5 or more (round half up; the result may be 10^9 = a whole second) *)
Definition frac_ns (fd : list N) : Z :=
  if (length fd <=? 9)%nat then dval fd * 10 ^ (9 - Z.of_nat (length fd))
  else dval (firstn 9 fd) + (if (5 <=? nth 9 fd 0)%N then 1 else 0).
(* one second later on calendar fields (month length of the specification) *)
Definition next_second (y mo d h mi sec : Z) : Z * Z * Z * Z * Z * Z :=
  if sec <? 59 then (y, mo, d, h, mi, sec + 1)
  else if mi <? 59 then (y, mo, d, h, mi + 1, 0)
  else if h <? 23 then (y, mo, d, h + 1, 0, 0)
  else if d <? SpecText.month_len y mo then (y, mo, d + 1, 0, 0, 0)
  else if mo <? 12 then (y, mo + 1, 1, 0, 0, 0)
  else (y + 1, 1, 1, 0, 0, 0).
Definition ts_fields (sh : ts_shape) : list Z :=
  let z := Z.of_N in
  match sh with
  | TsYear y => [z y; 1; 1; 0; 0; 0; 0; 0; 0; 1; 0]
  | TsMonth y mo => [z y; z mo; 1; 0; 0; 0; 0; 0; 0; 2; 0]
  | TsDay y mo d _ => [z y; z mo; z d; 0; 0; 0; 0; 0; 0; 3; 0]
  | TsMinute y mo d h mi o => let '(off, kind) := off_fields o in [z y; z mo; z d; z h; z mi; 0; 0; off; kind; 4; 0]
  | TsSecond y mo d h mi sec o =>
    let '(off, kind) := off_fields o in [z y; z mo; z d; z h; z mi; z sec; 0; off; kind; 5; 0]
  | TsFrac y mo d h mi sec fd o =>
    let '(off, kind) := off_fields o in
    let nf := Z.of_nat (Nat.min (length fd) 9) in
    if frac_ns fd =? 1000000000 then
      (* .9999999995 and the like: the fraction rounds to a whole second, which is carried *)
      let '(y2, mo2, d2, h2, mi2, s2) := next_second (z y) (z mo) (z d) (z h) (z mi) (z sec) in
      [y2; mo2; d2; h2; mi2; s2; 0; off; kind; 6; nf]
    else [z y; z mo; z d; z h; z mi; z sec; frac_ns fd; off; kind; 6; nf]
  end.

(* ---- digit characters --------------------------------------------------------------------------------- *)
Definition dig (c : N) : Prop := (48 <= c <= 57)%N.
Lemma dig_is_digit c : dig c -> is_digit (Z.of_N c) = true.
Proof. unfold dig, is_digit. lia. Qed.
Lemma dig_byte c : dig c -> byte_of (Z.of_N c) = c.
Proof. unfold dig, byte_of. lia. Qed.
Lemma dig_hi n : (n <? 100)%N = true -> dig (48 + n / 10).
Proof. unfold dig. lia. Qed.
Lemma dig_lo n : dig (48 + n mod 10).
Proof. unfold dig. lia. Qed.
Lemma d2_dig n : w2 n = true -> Forall dig (d2 n).
Proof. intros H. unfold d2. constructor; [apply dig_hi; exact H|]. constructor; [apply dig_lo|constructor]. Qed.
Lemma d4_dig n : (n <? 10000)%N = true -> Forall dig (d4 n).
Proof. intros H. unfold d4. apply Forall_app. split; apply d2_dig; unfold w2; lia. Qed.
Lemma digs_dig fd : forallb (fun d => d <=? 9)%N fd = true -> Forall dig (digs fd).
Proof.
  induction fd as [|d r IH]; intros H; [constructor|]. cbn [forallb] in H. apply andb_true_iff in H as [H1 H2].
  cbn [digs map]. constructor; [unfold dig; lia|apply IH; exact H2].
Qed.

(* ---- the tokenizer: pieces -------------------------------------------------------------------------------- *)
Lemma run_ts_digits : forall n ds w s,
  length ds = n -> Forall dig ds ->
  run (read_timestamp_digits n w) (zs ds ++ s) (shead s, rev ds ++ w) (stail s).
Proof.
  induction n as [|n IH]; intros ds w s Hl Hd; (destruct ds as [|c ds]; [|try discriminate Hl]); try discriminate Hl;
    cbn [read_timestamp_digits zs map app rev].
  - eapply run_bind; [apply run_read|]. apply run_ret.
  - inversion Hd as [|? ? Hc Hd']; subst. eapply run_bind; [apply run_read_cons|].
    rewrite (dig_is_digit c Hc), (dig_byte c Hc). cbn [negb].
    eapply run_eq; [apply (IH ds (c :: w) s); [now injection Hl|exact Hd']|f_equal|reflexivity].
    now rewrite <- app_assoc.
Qed.

(* the stream after the token: the terminator is pushed back; a slash was checked with one more look-ahead *)
Definition ts_after (s : list Z) : list Z :=
  shead s :: (if shead s =? c_slash then spush (stail s) else stail s).
Lemma stop_char_not_slash c : is_stop_char c = true -> (c =? c_slash) = false.
Proof. unfold is_stop_char, zmem, c_slash. cbn [existsb]. lia. Qed.
Lemma run_ts_finish s w :
  stops (shead s) (stail s) = true ->
  run (read_timestamp_finish (shead s) w) (stail s) (rev w) (ts_after s).
Proof.
  intros H. unfold read_timestamp_finish. eapply run_bind; [apply run_is_stop_char|]. rewrite H. cbn [negb].
  eapply run_bind; [apply run_unread|]. eapply run_eq; [apply run_ret|reflexivity|]. unfold ts_after.
  destruct (is_stop_char (shead s)) eqn:E; [now rewrite (stop_char_not_slash _ E)|reflexivity].
Qed.
(* what a terminator is not *)
Lemma stops_not c r : stops c r = true ->
  (c =? c_T) = false /\ is_digit c = false /\ (c =? c_minus) = false /\ (c =? c_plus) = false /\
  (c =? c_colon) = false /\ (c =? c_dot) = false /\ (c =? 122) = false /\ (c =? 90) = false.
Proof.
  unfold stops, is_stop_char, zmem, is_digit, c_T, c_minus, c_plus, c_slash, c_colon, c_dot. cbn [existsb]. lia.
Qed.

(* the fraction digits *)
Lemma run_plain_digits_loop : forall ds f c w s,
  Forall dig ds -> dig c -> is_digit (shead s) = false -> (length ds + 2 <= f)%nat ->
  run (read_plain_digits_loop f (Z.of_N c) w) (zs ds ++ s) (shead s, rev ds ++ c :: w) (stail s).
Proof.
  induction ds as [|c2 ds IH]; intros f c w s Hd Hc Hs Hf; (destruct f as [|f]; [lia|]);
    cbn [read_plain_digits_loop zs map app rev]; rewrite (dig_is_digit c Hc), (dig_byte c Hc).
  - eapply run_bind; [apply run_read|]. destruct f as [|f]; [cbn [length] in Hf; lia|].
    cbn [read_plain_digits_loop]. rewrite Hs. apply run_ret.
  - inversion Hd as [|? ? Hc2 Hd']; subst. eapply run_bind; [apply run_read_cons|].
    eapply run_eq; [apply (IH f c2 (c :: w) s Hd' Hc2 Hs); cbn [length] in Hf; lia|f_equal|reflexivity].
    now rewrite <- app_assoc.
Qed.
Lemma run_plain_digits c ds w s :
  Forall dig ds -> dig c -> is_digit (shead s) = false ->
  run (read_plain_digits (Z.of_N c) w) (zs ds ++ s) (shead s, rev ds ++ c :: w) (stail s).
Proof.
  intros Hd Hc Hs. unfold read_plain_digits. apply run_with_fuel. intros f Hf.
  apply run_plain_digits_loop; auto. rewrite nne_app, nne_zs in Hf. lia.
Qed.

(* the offset *)
Lemma zs_cons c l : zs (c :: l) = Z.of_N c :: zs l.
Proof. reflexivity. Qed.
Lemma zs_nil : zs [] = [].
Proof. reflexivity. Qed.
(* streams as  c :: zs l ++ c' :: ...  *)
Ltac zsn := repeat (rewrite zs_cons || rewrite zs_app || rewrite zs_nil || rewrite app_nil_l
                    || rewrite <- app_assoc || rewrite <- app_comm_cons).
Lemma run_ts_offset sg hh mm w s :
  (sg = 43 \/ sg = 45)%N -> w2 hh = true -> w2 mm = true ->
  run (read_timestamp_offset (Z.of_N sg) w) (zs (d2 hh ++ 58%N :: d2 mm) ++ s)
      (shead s, rev (sg :: d2 hh ++ 58%N :: d2 mm) ++ w) (stail s).
Proof.
  intros Hsg H1 H2. unfold read_timestamp_offset.
  replace (negb ((Z.of_N sg =? c_minus) || (Z.of_N sg =? c_plus))) with false by (unfold c_minus, c_plus; lia).
  replace (byte_of (Z.of_N sg)) with sg by (unfold byte_of; lia). zsn.
  eapply run_bind; [apply (run_ts_digits 2 (d2 hh)); [reflexivity|apply d2_dig; exact H1]|]. cbv beta iota.
  cbn [shead stail]. change (negb (Z.of_N 58 =? c_colon)) with false. cbv iota.
  eapply run_eq; [apply (run_ts_digits 2 (d2 mm)); [reflexivity|apply d2_dig; exact H2]|f_equal|reflexivity].
Qed.
Lemma run_ts_offset_or_z o w s :
  off_fits o = true ->
  run (read_timestamp_offset_or_z (shead (zs (off_text o))) w) (stail (zs (off_text o)) ++ s)
      (shead s, rev (off_text o) ++ w) (stail s).
Proof.
  intros Ho. unfold read_timestamp_offset_or_z. destruct o as [|hh mm|hh mm]; cbn [off_text]; rewrite zs_cons; cbn [shead stail].
  - cbn. eapply run_bind; [apply run_read|]. apply run_ret.
  - cbn [off_fits] in Ho. apply andb_true_iff in Ho as [H1 H2].
    change ((Z.of_N 43 =? c_minus) || (Z.of_N 43 =? c_plus)) with true. cbv iota.
    apply run_ts_offset; auto.
  - cbn [off_fits] in Ho. apply andb_true_iff in Ho as [H1 H2].
    change ((Z.of_N 45 =? c_minus) || (Z.of_N 45 =? c_plus)) with true. cbv iota.
    apply run_ts_offset; auto.
Qed.

(* ---- the tokenizer: readTimestamp on every spelling ------------------------------------------------------- *)
Lemma bind_ts_digits {A} n ds w s (k : Z * list N -> M A) a s' :
  length ds = n -> Forall dig ds ->
  run (k (shead s, rev ds ++ w)) (stail s) a s' ->
  run (mbind (read_timestamp_digits n w) k) (zs ds ++ s) a s'.
Proof. intros Hl Hd Hk. eapply run_bind; [apply run_ts_digits; assumption|exact Hk]. Qed.

Lemma digs_dig_cons f0 fr :
  forallb (fun d => d <=? 9)%N (f0 :: fr) = true -> dig (48 + f0) /\ Forall dig (digs fr).
Proof.
  intros H. cbn [forallb] in H. apply andb_true_iff in H as [H1 H2]. split; [unfold dig; lia|apply digs_dig; exact H2].
Qed.
Lemma off_head o s :
  is_digit (shead (zs (off_text o) ++ s)) = false /\
  (shead (zs (off_text o) ++ s) =? 58) = false /\ (shead (zs (off_text o) ++ s) =? 46) = false.
Proof. destruct o; repeat split; reflexivity. Qed.
Lemma bind_ts_offz {A} o w s (k : Z * list N -> M A) a s' :
  off_fits o = true ->
  run (k (shead s, rev (off_text o) ++ w)) (stail s) a s' ->
  run (mbind (read_timestamp_offset_or_z (shead (zs (off_text o) ++ s)) w) k) (stail (zs (off_text o) ++ s)) a s'.
Proof.
  intros Ho Hk. eapply run_bind; [|exact Hk].
  replace (shead (zs (off_text o) ++ s)) with (shead (zs (off_text o))) by (destruct o; reflexivity).
  replace (stail (zs (off_text o) ++ s)) with (stail (zs (off_text o)) ++ s) by (destruct o; reflexivity).
  apply run_ts_offset_or_z. exact Ho.
Qed.
(* the accumulated token, reversed, is the literal *)
Ltac revn := repeat (rewrite rev_app_distr || rewrite rev_involutive || (progress (cbn [rev]))
                     || rewrite <- app_assoc || rewrite <- app_comm_cons || rewrite app_nil_l || rewrite app_nil_r).
Lemma run_ts_finish_eq s w l :
  stops (shead s) (stail s) = true -> rev w = l ->
  run (read_timestamp_finish (shead s) w) (stail s) l (ts_after s).
Proof. intros H <-. apply run_ts_finish. exact H. Qed.

Ltac cst :=
  change (Z.of_N 45) with 45; change (Z.of_N 84) with 84; change (Z.of_N 58) with 58; change (Z.of_N 46) with 46;
  unfold c_T, c_minus, c_colon, c_dot; cbn [Z.eqb Pos.eqb negb shead stail]; cbv beta iota.
Ltac tsd n l := apply (bind_ts_digits n l); [reflexivity|first [apply d4_dig|apply d2_dig]; assumption|]; cst.

Ltac tsh h :=
  change (zs (d2 h)) with (zs [48 + h / 10]%N ++ zs [48 + h mod 10]%N); zsn;
  eapply run_bind; [apply run_read_cons|];
  rewrite (dig_is_digit _ (dig_hi h ltac:(assumption))), (dig_byte _ (dig_hi h ltac:(assumption))); cst;
  apply (bind_ts_digits 1 [48 + h mod 10]%N); [reflexivity|constructor; [apply dig_lo|constructor]|]; cst.
Ltac tsfin Hs := apply run_ts_finish_eq; [exact Hs|]; revn; unfold d4; revn; reflexivity.

Theorem read_timestamp_run sh s :
  ts_fits sh = true -> stops (shead s) (stail s) = true ->
  run read_timestamp (zs (ts_text sh) ++ s) (ts_text sh) (ts_after s).
Proof.
  intros Hf Hs. destruct (stops_not _ _ Hs) as (NT & Nd & Nm & Np & Nc & Ndot & Nz & NZ).
  unfold c_T, c_minus, c_plus, c_colon, c_dot in *. unfold read_timestamp.
  destruct sh as [y|y mo|y mo d t|y mo d h mi o|y mo d h mi sec o|y mo d h mi sec fd o]; cbn [ts_text ts_fits] in *; unfold date_text;
    repeat (apply andb_true_iff in Hf as [Hf ?]); zsn.
  - tsd 4%nat (d4 y). eapply run_bind; [apply run_read|]. tsfin Hs.
  - tsd 4%nat (d4 y). tsd 2%nat (d2 mo). eapply run_bind; [apply run_read|]. tsfin Hs.
  - tsd 4%nat (d4 y). tsd 2%nat (d2 mo). destruct t; zsn.
    + tsd 2%nat (d2 d). eapply run_bind; [apply run_read|]. rewrite Nd. cbn [negb].
      unfold read_timestamp_offset, c_minus, c_plus. rewrite Nm, Np. cbn [orb negb].
      eapply run_bind; [apply run_ret|]. cbv beta iota. tsfin Hs.
    + rewrite <- (app_nil_l s) at 1. change (@nil Z) with (zs []) at 1. rewrite app_nil_l.
      tsd 2%nat (d2 d). rewrite NT. cbn [negb]. tsfin Hs.
  - destruct (off_head o s) as (Od & Oc & Odot).
    tsd 4%nat (d4 y). tsd 2%nat (d2 mo). tsd 2%nat (d2 d). tsh h. tsd 2%nat (d2 mi). rewrite Oc. cbn [negb].
    apply bind_ts_offz; [assumption|]. cbv beta iota. tsfin Hs.
  - destruct (off_head o s) as (Od & Oc & Odot).
    tsd 4%nat (d4 y). tsd 2%nat (d2 mo). tsd 2%nat (d2 d). tsh h. tsd 2%nat (d2 mi). tsd 2%nat (d2 sec).
    rewrite Odot. cbn [negb].
    apply bind_ts_offz; [assumption|]. cbv beta iota. tsfin Hs.
  - destruct (off_head o s) as (Od & Oc & Odot).
    tsd 4%nat (d4 y). tsd 2%nat (d2 mo). tsd 2%nat (d2 d). tsh h. tsd 2%nat (d2 mi). tsd 2%nat (d2 sec).
    destruct fd as [|f0 fr]; [discriminate|]. cbn [frac_ok] in *.
    match goal with Hfr : forallb _ _ = true |- _ => destruct (digs_dig_cons _ _ Hfr) as [Hf0 Hfr'] end.
    cbn [digs map]. fold (digs fr). zsn.
    eapply run_bind; [apply run_read_cons|]. rewrite (dig_is_digit _ Hf0).
    eapply run_bind; [apply (run_plain_digits _ (digs fr)); [exact Hfr'|exact Hf0|exact Od]|]. cbv beta iota.
    apply bind_ts_offz; [assumption|]. cbv beta iota. tsfin Hs.
Qed.

(* ---- the parser: pieces -------------------------------------------------------------------------------------- *)
Lemma num2_cons c l i : num2 (c :: l) (S i) = num2 l i.
Proof. reflexivity. Qed.
Lemma dg_cons c l i : dg (c :: l) (S i) = dg l i.
Proof. reflexivity. Qed.
Lemma num2_at0 n r : (n <? 100)%N = true -> num2 ((48 + n / 10) :: (48 + n mod 10) :: r)%N 0 = Z.of_N n.
Proof. intros H. unfold num2, dg. cbn [nth]. lia. Qed.
Lemma num4_at0 n r : (n <? 10000)%N = true ->
  num4 ((48 + n / 100 / 10) :: (48 + (n / 100) mod 10) :: (48 + n mod 100 / 10) :: (48 + (n mod 100) mod 10) :: r)%N 0 = Z.of_N n.
Proof.
  intros H. unfold num4. rewrite !num2_cons, !num2_at0 by lia. lia.
Qed.
Lemma dg_lo n r : dg ((48 + n mod 10) :: r)%N 0 = Z.of_N n mod 10.
Proof. unfold dg. cbn [nth]. lia. Qed.

Lemma month_len_days_in y m : days_in y m = SpecText.month_len y m.
Proof. reflexivity. Qed.
Lemma month_len_pos y m : 28 <= SpecText.month_len y m <= 31.
Proof.
  unfold SpecText.month_len. destruct (m =? 2); [destruct (SpecText.is_leap y); lia|].
  destruct ((m =? 4) || (m =? 6) || (m =? 9) || (m =? 11)); lia.
Qed.
Lemma date_wf_ok y mo d : date_wf y mo d = true -> date_ok (Z.of_N y) (Z.of_N mo) (Z.of_N d) = true.
Proof.
  unfold date_wf, year_ok, month_ok, date_ok.
  change (days_in (Z.of_N y) (Z.of_N mo)) with (SpecText.month_len (Z.of_N y) (Z.of_N mo)). lia.
Qed.
Lemma month_ok_date y mo : year_ok y = true -> month_ok mo = true -> date_ok (Z.of_N y) (Z.of_N mo) 1 = true.
Proof.
  unfold year_ok, month_ok, date_ok.
  change (days_in (Z.of_N y) (Z.of_N mo)) with (SpecText.month_len (Z.of_N y) (Z.of_N mo)).
  pose proof (month_len_pos (Z.of_N y) (Z.of_N mo)). lia.
Qed.

Lemma parse_zone_off o : off_ok o = true -> parse_zone (off_text o) = Some (off_fields o).
Proof.
  intros Ho. destruct o as [|hh mm|hh mm]; [reflexivity| |]; cbn [off_ok] in Ho; apply andb_true_iff in Ho as [H1 H2];
    cbn [off_text d2 app parse_zone off_fields]; rewrite !num2_at0 by lia.
  - change ((43 =? 43)%N) with true. change ((58 =? 58)%N) with true. change ((43 =? 45)%N) with false. cbn [orb negb].
    replace ((24 <=? Z.of_N hh) || (60 <=? Z.of_N mm)) with false by lia.
    replace ((Z.of_N hh =? 0) && (Z.of_N mm =? 0)) with ((hh =? 0) && (mm =? 0))%N by lia.
    destruct ((hh =? 0) && (mm =? 0))%N; [reflexivity|]. do 2 f_equal. lia.
  - change ((45 =? 43)%N) with false. change ((58 =? 58)%N) with true. change ((45 =? 45)%N) with true. cbn [orb negb].
    replace ((24 <=? Z.of_N hh) || (60 <=? Z.of_N mm)) with false by lia.
    replace ((Z.of_N hh =? 0) && (Z.of_N mm =? 0)) with ((hh =? 0) && (mm =? 0))%N by lia.
    destruct ((hh =? 0) && (mm =? 0))%N; [reflexivity|]. do 2 f_equal. lia.
Qed.
(* the first character of an offset: not a colon, not a dot, not a digit *)
Lemma off_text_cons o : exists c z, off_text o = c :: z /\ (c =? 58)%N = false /\ (c =? 46)%N = false /\
                                    ((48 <=? c) && (c <=? 57))%N = false.
Proof. destruct o; eexists; eexists; (split; [reflexivity|]); repeat split. Qed.

Lemma take_digits_digs fd z :
  forallb (fun d => d <=? 9)%N fd = true ->
  match z with c :: _ => ((48 <=? c) && (c <=? 57))%N = false | [] => True end ->
  take_digits (digs fd ++ z) = (digs fd, z).
Proof.
  intros Hfd Hz. induction fd as [|f0 fr IH]; cbn [digs map app].
  - destruct z as [|c z']; [reflexivity|]. cbn [take_digits]. now rewrite Hz.
  - cbn [forallb] in Hfd. apply andb_true_iff in Hfd as [H1 H2]. cbn [take_digits].
    replace ((48 <=? 48 + f0) && (48 + f0 <=? 57))%N with true by lia. fold (digs fr). now rewrite (IH H2).
Qed.

(* the fraction *)
Definition dstep (a : Z) (d : N) : Z := a * 10 + Z.of_N d.
Lemma digits_val_digs : forall l acc, digits_val (digs l) acc = fold_left dstep l acc.
Proof.
  induction l as [|d r IH]; intros acc; [reflexivity|]. cbn [digs map digits_val fold_left]. fold (digs r).
  rewrite IH. f_equal. unfold dstep. lia.
Qed.
Lemma dval_fold l : dval l = fold_left dstep l 0.
Proof. reflexivity. Qed.
Lemma fold_zeros : forall k a, fold_left dstep (repeat 0%N k) a = a * 10 ^ Z.of_nat k.
Proof.
  induction k as [|k IH]; intros a; [cbn; lia|]. cbn [repeat fold_left]. rewrite IH, Nat2Z.inj_succ, Z.pow_succ_r by lia.
  unfold dstep. lia.
Qed.
Lemma pad9_digs : forall n l, (length l <= n)%nat -> pad9 (digs l) n = digs (l ++ repeat 0%N (n - length l)).
Proof.
  induction n as [|n IH]; intros l Hl.
  - destruct l; [reflexivity|cbn [length] in Hl; lia].
  - destruct l as [|d r]; cbn [digs map pad9 length app Nat.sub repeat].
    + f_equal. change (@nil N) with (digs []) at 1. rewrite (IH [] ltac:(cbn; lia)). cbn [length app]. now rewrite Nat.sub_0_r.
    + f_equal. fold (digs r). rewrite (IH r) by (cbn [length] in Hl; lia). reflexivity.
Qed.
Lemma digits_val_pad9 fd : (length fd <= 9)%nat ->
  digits_val (pad9 (digs fd) 9) 0 = dval fd * 10 ^ (9 - Z.of_nat (length fd)).
Proof.
  intros Hl. rewrite pad9_digs by exact Hl. rewrite digits_val_digs, fold_left_app, fold_zeros, dval_fold.
  do 2 f_equal. lia.
Qed.
(* a digit list spells a number below the power of ten of its length *)
Lemma fold_digits_bound : forall l a, forallb (fun d => d <=? 9)%N l = true -> 0 <= a ->
  a * 10 ^ Z.of_nat (length l) <= fold_left dstep l a < (a + 1) * 10 ^ Z.of_nat (length l).
Proof.
  induction l as [|d r IH]; intros a Hl Ha; [cbn; lia|]. cbn [forallb] in Hl. apply andb_true_iff in Hl as [H1 H2].
  cbn [fold_left length]. rewrite Nat2Z.inj_succ, Z.pow_succ_r by lia.
  pose proof (IH (dstep a d) H2 ltac:(unfold dstep; lia)) as B. unfold dstep in *.
  assert (P : 0 < 10 ^ Z.of_nat (length r)) by (apply Z.pow_pos_nonneg; lia). nia.
Qed.
Lemma dval_bound l : forallb (fun d => d <=? 9)%N l = true -> 0 <= dval l < 10 ^ Z.of_nat (length l).
Proof. intros H. pose proof (fold_digits_bound l 0 H ltac:(lia)). rewrite dval_fold. lia. Qed.
Lemma forallb_firstn {A} (p : A -> bool) : forall n l, forallb p l = true -> forallb p (firstn n l) = true.
Proof.
  induction n as [|n IH]; intros l H; [reflexivity|]. destruct l as [|a r]; [reflexivity|].
  cbn [forallb firstn] in *. apply andb_true_iff in H as [H1 H2]. now rewrite H1, IH.
Qed.
Lemma dval_firstn9 fd : forallb (fun d => d <=? 9)%N fd = true -> 0 <= dval (firstn 9 fd) < 1000000000.
Proof.
  intros H. pose proof (dval_bound _ (forallb_firstn _ 9 fd H)) as B. pose proof (firstn_le_length 9 fd) as L.
  assert (10 ^ Z.of_nat (length (firstn 9 fd)) <= 10 ^ 9) by (apply Z.pow_le_mono_r; lia).
  change (10 ^ 9) with 1000000000 in *. lia.
Qed.
Lemma frac_ns_short fd : forallb (fun d => d <=? 9)%N fd = true -> (length fd <= 9)%nat ->
  0 <= dval fd * 10 ^ (9 - Z.of_nat (length fd)) < 1000000000.
Proof.
  intros H L. pose proof (dval_bound _ H) as B.
  assert (E : 10 ^ Z.of_nat (length fd) * 10 ^ (9 - Z.of_nat (length fd)) = 1000000000).
  { rewrite <- Z.pow_add_r by lia. replace (Z.of_nat (length fd) + (9 - Z.of_nat (length fd))) with 9 by lia. reflexivity. }
  assert (P : 0 < 10 ^ (9 - Z.of_nat (length fd))) by (apply Z.pow_pos_nonneg; lia). nia.
Qed.
Lemma round_up_digs : forall n fd,
  match skipn n (digs fd) with c :: _ => (53 <=? c)%N | [] => false end = (5 <=? nth n fd 0)%N.
Proof.
  induction n as [|n IH]; intros fd; destruct fd as [|d r]; cbn [skipn digs map nth]; try reflexivity.
  - lia.
  - apply IH.
Qed.
Lemma firstn_digs n fd : firstn n (digs fd) = digs (firstn n fd).
Proof. unfold digs. apply firstn_map. Qed.
Lemma digs_length fd : length (digs fd) = length fd.
Proof. apply map_length. Qed.

Lemma frac_ns_long fd : (9 <= length fd)%nat ->
  frac_ns fd = dval (firstn 9 fd) + (if (5 <=? nth 9 fd 0)%N then 1 else 0).
Proof.
  intros L. unfold frac_ns. destruct (Nat.leb_spec (length fd) 9) as [L9|L9]; [|reflexivity].
  assert (E : length fd = 9%nat) by lia. rewrite E, firstn_all2 by lia. rewrite nth_overflow by lia.
  change (5 <=? 0)%N with false. change (10 ^ (9 - Z.of_nat 9)) with 1. cbv iota. lia.
Qed.

Lemma date_wf_fits y mo d : date_wf y mo d = true ->
  (y <? 10000)%N = true /\ (mo <? 100)%N = true /\ (d <? 100)%N = true.
Proof.
  unfold date_wf, year_ok, month_ok. pose proof (month_len_pos (Z.of_N y) (Z.of_N mo)). lia.
Qed.

(* ---- the parser on every spelling --------------------------------------------------------------------------------- *)
Ltac pts_open :=
  unfold ts_text, date_text, d4, d2; cbn [app]; unfold parse_ts_text; cbv zeta;
  cbn [length Nat.ltb Nat.leb Nat.eqb orb negb nth skipn];
  rewrite ?dg_cons, ?dg_lo, ?num2_cons, ?num2_at0, ?num4_at0 by lia.

Theorem parse_ts_text_spelling sh :
  ts_ok sh = true -> parse_ts_text (ts_text sh) = Ok (show_tuple (ts_fields sh)).
Proof.
  intros Hok.
  destruct sh as [y|y mo|y mo d t|y mo d h mi o|y mo d h mi sec o|y mo d h mi sec fd o]; cbn [ts_ok] in Hok.
  - assert (Fy : (y <? 10000)%N = true) by (unfold year_ok in Hok; lia). pts_open.
    replace (Z.of_N y <? 1) with false by (unfold year_ok in Hok; lia). reflexivity.
  - apply andb_true_iff in Hok as [Hy Hmo].
    assert (Fy : (y <? 10000)%N = true) by (unfold year_ok in Hy; lia).
    assert (Fmo : (mo <? 100)%N = true) by (unfold month_ok in Hmo; lia). pts_open.
    replace (Z.of_N y <? 1) with false by (unfold year_ok in Hy; lia).
    rewrite (month_ok_date _ _ Hy Hmo). reflexivity.
  - destruct (date_wf_fits _ _ _ Hok) as (Fy & Fmo & Fd).
    destruct t; pts_open; (replace (Z.of_N y <? 1) with false by (unfold date_wf, year_ok in Hok; lia));
      rewrite (date_wf_ok _ _ _ Hok); reflexivity.
  - apply andb_true_iff in Hok as [Hok Ho]. apply andb_true_iff in Hok as [Hd Ht].
    destruct (off_text_cons o) as (c0 & z & E & E58 & E46 & Edig).
    destruct (date_wf_fits _ _ _ Hd) as (Fy & Fmo & Fd). unfold time_ok in Ht.
    unfold ts_text. rewrite E. pts_open.
    replace (Z.of_N y <? 1) with false by (unfold date_wf, year_ok in Hd; lia).
    rewrite (date_wf_ok _ _ _ Hd). replace (24 <=? Z.of_N h) with false by lia. replace (60 <=? Z.of_N mi) with false by lia.
    cbn [negb orb]. rewrite E58. cbn [negb]. rewrite <- E, (parse_zone_off o Ho). cbn [ts_fields].
    destruct (off_fields o) as [off kind]. reflexivity.
  - apply andb_true_iff in Hok as [Hok Ho]. apply andb_true_iff in Hok as [Hok Hsec]. apply andb_true_iff in Hok as [Hd Ht].
    destruct (off_text_cons o) as (c0 & z & E & E58 & E46 & Edig).
    destruct (date_wf_fits _ _ _ Hd) as (Fy & Fmo & Fd). unfold time_ok in Ht.
    unfold ts_text. rewrite E. pts_open.
    replace (Z.of_N y <? 1) with false by (unfold date_wf, year_ok in Hd; lia).
    rewrite (date_wf_ok _ _ _ Hd). replace (24 <=? Z.of_N h) with false by lia. replace (60 <=? Z.of_N mi) with false by lia.
    cbn [negb orb]. change ((58 =? 58)%N) with true. cbn [negb]. replace (60 <=? Z.of_N sec) with false by lia.
    rewrite E46. cbn [negb]. rewrite <- E, (parse_zone_off o Ho). cbn [ts_fields].
    destruct (off_fields o) as [off kind]. reflexivity.
  -
    apply andb_true_iff in Hok as [Hok Ho]. apply andb_true_iff in Hok as [Hok Hfd].
    apply andb_true_iff in Hok as [Hok Hsec]. apply andb_true_iff in Hok as [Hd Ht].
    destruct (off_text_cons o) as (c0 & z & E & E58 & E46 & Edig).
    destruct (date_wf_fits _ _ _ Hd) as (Fy & Fmo & Fd). unfold time_ok in Ht.
    assert (Hfd' : forallb (fun d => d <=? 9)%N fd = true) by (destruct fd; [discriminate|exact Hfd]).
    unfold ts_text. pts_open.
    replace (Z.of_N y <? 1) with false by (unfold date_wf, year_ok in Hd; lia).
    rewrite (date_wf_ok _ _ _ Hd). replace (24 <=? Z.of_N h) with false by lia. replace (60 <=? Z.of_N mi) with false by lia.
    cbn [negb orb]. change ((58 =? 58)%N) with true. cbn [negb]. replace (60 <=? Z.of_N sec) with false by lia.
    change ((46 =? 46)%N) with true. cbn [negb].
    rewrite take_digits_digs by (try exact Hfd'; rewrite E; exact Edig).
    rewrite (parse_zone_off o Ho). cbn [ts_fields]. destruct (off_fields o) as [off kind].
    pose proof (round_up_digs 9 fd) as RU. cbn [skipn] in RU. rewrite RU. clear RU.
    rewrite firstn_digs, digits_val_digs, <- dval_fold, digs_length.
    destruct (Nat.eqb_spec (length fd) 0) as [L0|L0]; [destruct fd; [discriminate Hfd|discriminate L0]|].
    destruct (Nat.leb_spec (length fd) 8) as [L8|L8].
    + (* up to eight digits: exact *)
      rewrite digits_val_pad9 by lia. pose proof (frac_ns_short fd Hfd' ltac:(lia)) as B.
      unfold frac_ns. replace (length fd <=? 9)%nat with true by lia.
      destruct (Z.eqb_spec (dval fd * 10 ^ (9 - Z.of_nat (length fd))) 1000000000) as [Eq|_]; [lia|].
      rewrite Nat.min_l by lia. reflexivity.
    + (* nine or more: rounded to nine *)
      rewrite (frac_ns_long fd) by lia. rewrite Nat.min_r by lia.
      pose proof (dval_firstn9 fd Hfd') as B9.
      set (f9 := dval (firstn 9 fd)) in *. set (up := (5 <=? nth 9 fd 0)%N).
      set (u := Z.of_N sec mod 10).
      assert (Hu : 0 <= u <= 9 /\ exists q, Z.of_N sec = 10 * q + u).
      { subst u. split; [lia|]. exists (Z.of_N sec / 10). lia. }
      destruct Hu as (Hu & q & Hq).
      destruct (Z.eqb_spec (f9 + (if up then 1 else 0)) 1000000000) as [R|R].
      * destruct (Z.eqb_spec (u * 1000000000 + f9 + (if up then 1 else 0)) 10000000000) as [T|T].
        -- replace (Z.of_N sec - u + 9) with (Z.of_N sec) by lia.
           change (add_second (Z.of_N y) (Z.of_N mo) (Z.of_N d) (Z.of_N h) (Z.of_N mi) (Z.of_N sec))
             with (next_second (Z.of_N y) (Z.of_N mo) (Z.of_N d) (Z.of_N h) (Z.of_N mi) (Z.of_N sec)).
           destruct (next_second (Z.of_N y) (Z.of_N mo) (Z.of_N d) (Z.of_N h) (Z.of_N mi) (Z.of_N sec))
             as [[[[[y2 mo2] d3] h2] mi2] s2]. reflexivity.
        -- unfold next_second. replace (Z.of_N sec <? 59) with true by lia.
          do 2 f_equal. repeat (f_equal; try lia).
      * destruct (Z.eqb_spec (u * 1000000000 + f9 + (if up then 1 else 0)) 10000000000) as [T|T]; [destruct up; lia|].
        do 2 f_equal. repeat (f_equal; try (destruct up; lia)).
Qed.

(* ---- on a concrete input ---------------------------------------------------------------------------------------------- *)
Lemma off_ok_fits o : off_ok o = true -> off_fits o = true.
Proof. destruct o; cbn [off_ok off_fits]; unfold w2; lia. Qed.
Lemma ts_ok_fits sh : ts_ok sh = true -> ts_fits sh = true.
Proof.
  destruct sh as [y|y mo|y mo d t|y mo d h mi o|y mo d h mi sec o|y mo d h mi sec fd o]; cbn [ts_ok ts_fits]; intros Hok.
  - unfold year_ok in Hok. lia.
  - unfold year_ok, month_ok, w2 in *. lia.
  - destruct (date_wf_fits _ _ _ Hok) as (Fy & Fmo & Fd). unfold w2. lia.
  - apply andb_true_iff in Hok as [Hok Ho]. apply andb_true_iff in Hok as [Hd Ht].
    destruct (date_wf_fits _ _ _ Hd) as (Fy & Fmo & Fd). rewrite (off_ok_fits o Ho). unfold time_ok, w2 in *. lia.
  - apply andb_true_iff in Hok as [Hok Ho]. apply andb_true_iff in Hok as [Hok Hsec]. apply andb_true_iff in Hok as [Hd Ht].
    destruct (date_wf_fits _ _ _ Hd) as (Fy & Fmo & Fd). rewrite (off_ok_fits o Ho). unfold time_ok, w2 in *. lia.
  - apply andb_true_iff in Hok as [Hok Ho]. apply andb_true_iff in Hok as [Hok Hfd].
    apply andb_true_iff in Hok as [Hok Hsec]. apply andb_true_iff in Hok as [Hd Ht].
    destruct (date_wf_fits _ _ _ Hd) as (Fy & Fmo & Fd). rewrite (off_ok_fits o Ho), Hfd. unfold time_ok, w2 in *. lia.
Qed.

(* a literal has no carriage return: newline normalisation leaves it alone *)
Lemma dig_no_cr l : Forall dig l -> no_cr l.
Proof. intros H. eapply Forall_impl; [|exact H]. unfold dig. intros a Ha. lia. Qed.
Lemma off_text_no_cr o : off_fits o = true -> no_cr (off_text o).
Proof.
  destruct o as [|hh mm|hh mm]; cbn [off_fits off_text]; intros H; [repeat constructor; discriminate| |];
    apply andb_true_iff in H as [H1 H2]; (constructor; [discriminate|]); apply no_cr_app;
    (split; [apply dig_no_cr, d2_dig; assumption|]); (constructor; [discriminate|]); apply dig_no_cr, d2_dig; assumption.
Qed.
Ltac nocr :=
  repeat first [ apply Forall_nil
               | apply Forall_cons; [discriminate|]
               | apply off_text_no_cr; assumption
               | apply dig_no_cr; first [apply d4_dig|apply d2_dig|apply digs_dig]; assumption
               | apply Forall_app; split ].
Lemma ts_text_no_cr sh : ts_fits sh = true -> no_cr (ts_text sh).
Proof.
  intros Hf.
  destruct sh as [y|y mo|y mo d t|y mo d h mi o|y mo d h mi sec o|y mo d h mi sec fd o]; cbn [ts_text ts_fits] in *; unfold date_text;
    repeat (apply andb_true_iff in Hf as [Hf ?]); unfold no_cr.
  - nocr.
  - nocr.
  - destruct t; nocr.
  - nocr.
  - nocr.
  - assert (forallb (fun d => d <=? 9)%N fd = true) by (destruct fd; [discriminate|assumption]). nocr.
Qed.

Theorem read_timestamp_spelling sh rest t :
  ts_ok sh = true ->
  stops (shead (zs (norm rest))) (stail (zs (norm rest))) = true ->
  t_ioerr t = false -> t_buf t = [] -> t_in t = ts_text sh ++ rest ->
  exists t', read_timestamp t = Ok (ts_text sh, t') /\
             stream t' = ts_after (zs (norm rest)) /\ t_ioerr t' = false /\
             t_token t' = t_token t /\ t_unfinished t' = t_unfinished t /\
             parse_ts_text (ts_text sh) = Ok (show_tuple (ts_fields sh)).
Proof.
  intros Hok Hs Hi Hb Hin. pose proof (ts_ok_fits sh Hok) as Hf.
  pose proof (read_timestamp_run sh (zs (norm rest)) Hf Hs) as R.
  destruct (run_apply _ _ _ _ t R Hi) as (t' & E & Hi' & Hs' & Hk & Hu).
  - rewrite (stream_in t Hb), Hin, (norm_app_nocr _ _ (ts_text_no_cr sh Hf)), zs_app. reflexivity.
  - exists t'. repeat split; auto. apply parse_ts_text_spelling. exact Hok.
Qed.

(* ---- cross-check with the specification decoder (SpecText) ------------------------------------------------------------ *)
(* what the grammar's decoder is expected to answer on a spelling: the fields as written, every
   fraction digit kept (the specification does not round) *)
Definition spec_off (o : ts_off) : option Z :=
  match o with
  | OffZ => Some 0
  | OffPlus hh mm => Some (Z.of_N (hh * 60 + mm))
  | OffMinus hh mm => if (hh * 60 + mm =? 0)%N then None else Some (- Z.of_N (hh * 60 + mm))
  end.
Definition dvalN (ds : list N) : N := fold_left (fun a d => a * 10 + d)%N ds 0%N.
Definition spec_value (sh : ts_shape) : Ion.value :=
  let z := Z.of_N in
  match sh with
  | TsYear y => SpecText.ts_value 1 (z y) 1 1 0 0 0 None 0 0
  | TsMonth y mo => SpecText.ts_value 2 (z y) (z mo) 1 0 0 0 None 0 0
  | TsDay y mo d _ => SpecText.ts_value 3 (z y) (z mo) (z d) 0 0 0 None 0 0
  | TsMinute y mo d h mi o => SpecText.ts_value 4 (z y) (z mo) (z d) (z h) (z mi) 0 (spec_off o) 0 0
  | TsSecond y mo d h mi sec o => SpecText.ts_value 5 (z y) (z mo) (z d) (z h) (z mi) (z sec) (spec_off o) 0 0
  | TsFrac y mo d h mi sec fd o =>
    SpecText.ts_value 6 (z y) (z mo) (z d) (z h) (z mi) (z sec) (spec_off o) (N.of_nat (length fd)) (dvalN fd)
  end.

(* both decoders take the timestamp path on every spelling *)
Lemma looks_like_timestamp_spelling sh rest :
  ts_fits sh = true -> SpecText.looks_like_timestamp (ts_text sh ++ rest) = true.
Proof.
  intros Hf.
  assert (Hy : forall y r c, (y <? 10000)%N = true -> (c = 84 \/ c = 45)%N ->
                             SpecText.looks_like_timestamp (d4 y ++ c :: r) = true).
  { intros y r c Hy Hc. unfold d4, d2. cbn [app]. unfold SpecText.looks_like_timestamp, SpecText.is_digit, SpecText.in_rng. lia. }
  destruct sh as [y|y mo|y mo d t|y mo d h mi o|y mo d h mi sec o|y mo d h mi sec fd o]; cbn [ts_text ts_fits] in *; unfold date_text;
    repeat (apply andb_true_iff in Hf as [Hf ?]); rewrite <- app_assoc; cbn [app]; apply Hy; auto.
Qed.

(* fourteen spellings: each precision, each offset form, leap days, 1, 3, 8, 9 and 12 fraction digits *)
Definition ts_examples : list (ts_shape * string) :=
  [ (TsYear 1, "0001T"); (TsMonth 9999 12, "9999-12T"); (TsDay 2024 2 29 false, "2024-02-29");
    (TsDay 2000 2 29 true, "2000-02-29T"); (TsMinute 2023 6 30 23 59 OffZ, "2023-06-30T23:59Z");
    (TsMinute 1 1 1 0 0 (OffMinus 0 0), "0001-01-01T00:00-00:00");
    (TsMinute 1999 12 31 0 0 (OffPlus 0 0), "1999-12-31T00:00+00:00");
    (TsSecond 2016 12 31 23 59 59 (OffPlus 23 59), "2016-12-31T23:59:59+23:59");
    (TsSecond 1970 1 1 0 0 0 (OffMinus 12 30), "1970-01-01T00:00:00-12:30");
    (TsFrac 2024 2 29 12 34 56 [0] OffZ, "2024-02-29T12:34:56.0Z");
    (TsFrac 2024 2 29 12 34 56 [0; 0; 7] (OffPlus 5 30), "2024-02-29T12:34:56.007+05:30");
    (TsFrac 2001 9 9 1 46 40 [1; 2; 3; 4; 5; 6; 7; 8] (OffMinus 0 0), "2001-09-09T01:46:40.12345678-00:00");
    (TsFrac 2001 9 9 1 46 40 [1; 2; 3; 4; 5; 6; 7; 8; 9] (OffMinus 8 0), "2001-09-09T01:46:40.123456789-08:00");
    (TsFrac 9999 12 31 23 59 59 [9; 9; 9; 9; 9; 9; 9; 9; 9; 9; 9; 5] OffZ, "9999-12-31T23:59:59.999999999995Z") ]%N%string.
(* the printer gives the literal one expects, and the range predicate holds *)
Example ts_examples_text : forallb (fun '(sh, l) => ts_ok sh && list_eqb (ts_text sh) (s l)) ts_examples = true.
Proof. vm_compute. reflexivity. Qed.
(* the specification decoder accepts each of them, consumes it entirely and answers [spec_value] *)
Example ts_examples_spec :
  forallb (fun '(sh, _) => match SpecText.p_timestamp (ts_text sh), spec_value sh with
                           | Some (Ion.VTimestamp a, []), Ion.VTimestamp b => list_eqb a b
                           | _, _ => false
                           end) ts_examples = true.
Proof. vm_compute. reflexivity. Qed.
(* the model's parser on them, computed (an independent run of [parse_ts_text_spelling]) *)
Example ts_examples_model :
  forallb (fun '(sh, _) => match parse_ts_text (ts_text sh) with
                           | Ok l => list_eqb l (show_tuple (ts_fields sh))
                           | _ => false
                           end) ts_examples = true.
Proof. vm_compute. reflexivity. Qed.
(* the last example: twelve nines-and-a-five round up to a whole second, carried to the year 10000
   by the model; the specification keeps the twelve digits (see [spec_value]) *)
Example ts_carry_example :
  ts_fields (TsFrac 9999 12 31 23 59 59 [9; 9; 9; 9; 9; 9; 9; 9; 9; 9; 9; 5]%N OffZ) = [10000; 1; 1; 0; 0; 0; 0; 0; 1; 6; 9].
Proof. vm_compute. reflexivity. Qed.

(* the hypotheses of the theorems are satisfiable: a leap day, ten fraction digits, unknown offset,
   ended by a comment *)
Example read_timestamp_spelling_example :
  exists t', read_timestamp (t_init (s "2024-02-29T23:59:58.1234567895-00:00/*c*/ 1") false)
               = Ok (s "2024-02-29T23:59:58.1234567895-00:00", t') /\
             stream t' = zs (s "/*c*/ 1") /\
             parse_ts_text (s "2024-02-29T23:59:58.1234567895-00:00")
               = Ok (show_tuple [2024; 2; 29; 23; 59; 58; 123456790; 0; 0; 6; 9]).
Proof.
  destruct (read_timestamp_spelling (TsFrac 2024 2 29 23 59 58 [1; 2; 3; 4; 5; 6; 7; 8; 9; 5]%N (OffMinus 0 0)) (s "/*c*/ 1")
              (t_init (s "2024-02-29T23:59:58.1234567895-00:00/*c*/ 1") false))
    as (t' & E & Hs & _ & _ & _ & P); try reflexivity.
  exists t'. split; [exact E|split; [exact Hs|exact P]].
Qed.

(* not spellings: the tokenizer reads them, the model's parser and the specification reject them *)
Definition tok_accepts (l : string) : bool :=
  match read_timestamp (t_init (s l) false) with Ok (tok, _) => list_eqb tok (s l) | _ => false end.
Example date_T_offset_rejected :
  tok_accepts "2000-01-01T+01:00" = true /\ parse_ts_text (s "2000-01-01T+01:00") = Err /\
  SpecText.p_timestamp (s "2000-01-01T+01:00") = None.
Proof. vm_compute. repeat split. Qed.
Example lower_case_z_rejected :
  tok_accepts "2000-01-01T00:00z" = true /\ parse_ts_text (s "2000-01-01T00:00z") = Err /\
  SpecText.p_timestamp (s "2000-01-01T00:00z") = None.
Proof. vm_compute. repeat split. Qed.

(* ---- the specification decoder on every spelling ------------------------------------------------------------------------ *)
Lemma dig2_at n r : (n <? 100)%N = true ->
  SpecText.dig2 ((48 + n / 10) :: (48 + n mod 10) :: r)%N = Some (Z.of_N n, r).
Proof.
  intros H. unfold SpecText.dig2, SpecText.is_digit, SpecText.in_rng.
  replace ((48 <=? 48 + n / 10) && (48 + n / 10 <=? 57) && ((48 <=? 48 + n mod 10) && (48 + n mod 10 <=? 57)))%N with true by lia.
  do 2 f_equal. lia.
Qed.
Lemma dig4_at n r : (n <? 10000)%N = true ->
  SpecText.dig4 ((48 + n / 100 / 10) :: (48 + (n / 100) mod 10) :: (48 + n mod 100 / 10) :: (48 + (n mod 100) mod 10) :: r)%N
  = Some (Z.of_N n, r).
Proof.
  intros H. unfold SpecText.dig4. rewrite dig2_at by lia. rewrite dig2_at by lia. do 2 f_equal. lia.
Qed.
Lemma p_offset_off o r : off_ok o = true -> SpecText.p_offset (off_text o ++ r) = Some (spec_off o, r).
Proof.
  intros Ho. destruct o as [|hh mm|hh mm]; [reflexivity| |]; cbn [off_ok] in Ho; apply andb_true_iff in Ho as [H1 H2];
    unfold off_text, d2; cbn [app]; unfold SpecText.p_offset; cbv beta iota.
  - change ((43 =? 43) || (43 =? 45))%N with true. cbv iota. rewrite dig2_at by lia. rewrite dig2_at by lia.
    replace ((Z.of_N hh <=? 23) && (Z.of_N mm <=? 59)) with true by lia. change (43 =? 45)%N with false. cbv iota.
    cbn [spec_off]. do 3 f_equal. lia.
  - change ((45 =? 43) || (45 =? 45))%N with true. cbv iota. rewrite dig2_at by lia. rewrite dig2_at by lia.
    replace ((Z.of_N hh <=? 23) && (Z.of_N mm <=? 59)) with true by lia. change (45 =? 45)%N with true. cbv iota.
    cbn [spec_off]. replace (Z.of_N hh * 60 + Z.of_N mm =? 0) with (hh * 60 + mm =? 0)%N by lia.
    destruct (hh * 60 + mm =? 0)%N; [reflexivity|]. do 3 f_equal. lia.
Qed.
Lemma plain_digits_digs : forall fd z acc n,
  forallb (fun d => d <=? 9)%N fd = true ->
  match z with c :: _ => ((48 <=? c) && (c <=? 57))%N = false | [] => True end ->
  SpecText.plain_digits (digs fd ++ z) acc n
  = (fold_left (fun a d => a * 10 + d)%N fd acc, (n + N.of_nat (length fd))%N, z).
Proof.
  induction fd as [|f0 fr IH]; intros z acc n Hfd Hz; cbn [digs map app fold_left length].
  - destruct z as [|c z']; cbn [SpecText.plain_digits].
    + do 2 f_equal. lia.
    + unfold SpecText.is_digit, SpecText.in_rng. rewrite Hz. do 2 f_equal. lia.
  - cbn [forallb] in Hfd. apply andb_true_iff in Hfd as [H1 H2]. cbn [SpecText.plain_digits].
    unfold SpecText.is_digit at 1, SpecText.in_rng. replace ((48 <=? 48 + f0) && (48 + f0 <=? 57))%N with true by lia.
    fold (digs fr). rewrite (IH z _ _ H2 Hz). do 2 f_equal; [f_equal|]; lia.
Qed.
Lemma starts_comment_47 c r : SpecText.starts_comment (c :: r) = true -> c = 47%N.
Proof.
  intros H. destruct c as [|p]; [discriminate H|].
  repeat (destruct p as [p|p|]; try discriminate H). reflexivity.
Qed.
Lemma num_end_head c r : SpecText.num_end (c :: r) = true -> SpecText.is_digit c = false /\ c <> 84%N.
Proof.
  intros H. cbn [SpecText.num_end] in H. apply orb_true_iff in H as [H|H].
  - unfold SpecText.is_stop, SpecText.is_ws, SpecText.in_rng, SpecText.memN in H. cbn [existsb] in H.
    unfold SpecText.is_digit, SpecText.in_rng. lia.
  - apply starts_comment_47 in H. subst c. split; [reflexivity|discriminate].
Qed.
Ltac sp_open :=
  unfold ts_text, date_text, d4, d2; rewrite <- ?app_assoc; cbn [app]; rewrite <- ?app_assoc;
  unfold SpecText.p_timestamp; rewrite dig4_at by lia; cbv beta iota zeta.
Ltac sp_d2 := rewrite dig2_at by lia; cbv beta iota zeta.

Theorem spec_timestamp_spelling sh rest :
  ts_ok sh = true -> SpecText.num_end rest = true ->
  SpecText.p_timestamp (ts_text sh ++ rest) = Some (spec_value sh, rest).
Proof.
  intros Hok Hr.
  destruct sh as [y|y mo|y mo d t|y mo d h mi o|y mo d h mi sec o|y mo d h mi sec fd o]; cbn [ts_ok] in Hok.
  - assert (Fy : (y <? 10000)%N = true) by (unfold year_ok in Hok; lia). sp_open.
    replace (Z.of_N y <? 1) with false by (unfold year_ok in Hok; lia). cbv iota. rewrite Hr. reflexivity.
  - apply andb_true_iff in Hok as [Hy Hmo].
    assert (Fy : (y <? 10000)%N = true) by (unfold year_ok in Hy; lia).
    assert (Fmo : (mo <? 100)%N = true) by (unfold month_ok in Hmo; lia). sp_open.
    replace (Z.of_N y <? 1) with false by (unfold year_ok in Hy; lia). cbv iota. sp_d2.
    replace (negb ((1 <=? Z.of_N mo) && (Z.of_N mo <=? 12))) with false by (unfold month_ok in Hmo; lia). cbv iota.
    rewrite Hr. reflexivity.
  - destruct (date_wf_fits _ _ _ Hok) as (Fy & Fmo & Fd). destruct t; sp_open.
    + replace (Z.of_N y <? 1) with false by (unfold date_wf, year_ok in Hok; lia). cbv iota. sp_d2.
      replace (negb ((1 <=? Z.of_N mo) && (Z.of_N mo <=? 12))) with false by (unfold date_wf, month_ok in Hok; lia). cbv iota. sp_d2.
      replace (negb ((1 <=? Z.of_N d) && (Z.of_N d <=? SpecText.month_len (Z.of_N y) (Z.of_N mo)))) with false
        by (unfold date_wf in Hok; lia). cbv iota.
      destruct rest as [|c r]; [reflexivity|]. destruct (num_end_head c r Hr) as [Hc _]. rewrite Hc. cbn [negb]. cbv iota.
      rewrite Hr. reflexivity.
    + replace (Z.of_N y <? 1) with false by (unfold date_wf, year_ok in Hok; lia). cbv iota. sp_d2.
      replace (negb ((1 <=? Z.of_N mo) && (Z.of_N mo <=? 12))) with false by (unfold date_wf, month_ok in Hok; lia). cbv iota. sp_d2.
      replace (negb ((1 <=? Z.of_N d) && (Z.of_N d <=? SpecText.month_len (Z.of_N y) (Z.of_N mo)))) with false
        by (unfold date_wf in Hok; lia). cbv iota.
      destruct rest as [|c r]; [reflexivity|]. destruct c as [|p]; [rewrite Hr; reflexivity|].
      repeat (destruct p as [p|p|]; try (cbv iota; rewrite Hr; reflexivity)).
      discriminate Hr.
  - apply andb_true_iff in Hok as [Hok Ho]. apply andb_true_iff in Hok as [Hd Ht].
    destruct (date_wf_fits _ _ _ Hd) as (Fy & Fmo & Fd). unfold time_ok in Ht. sp_open.
    replace (Z.of_N y <? 1) with false by (unfold date_wf, year_ok in Hd; lia). cbv iota. sp_d2.
    replace (negb ((1 <=? Z.of_N mo) && (Z.of_N mo <=? 12))) with false by (unfold date_wf, month_ok in Hd; lia). cbv iota. sp_d2.
    replace (negb ((1 <=? Z.of_N d) && (Z.of_N d <=? SpecText.month_len (Z.of_N y) (Z.of_N mo)))) with false
      by (unfold date_wf in Hd; lia). cbv iota.
    replace (SpecText.is_digit (48 + h / 10)) with true by (unfold SpecText.is_digit, SpecText.in_rng; lia). cbn [negb]. cbv iota.
    sp_d2. sp_d2. replace (negb ((Z.of_N h <=? 23) && (Z.of_N mi <=? 59))) with false by lia. cbv iota.
    pose proof (p_offset_off o rest Ho) as PO.
    destruct o as [|hh mm|hh mm]; unfold off_text, d2 in *; cbn [app] in *; cbv iota; rewrite PO, Hr; reflexivity.
  - apply andb_true_iff in Hok as [Hok Ho]. apply andb_true_iff in Hok as [Hok Hsec]. apply andb_true_iff in Hok as [Hd Ht].
    destruct (date_wf_fits _ _ _ Hd) as (Fy & Fmo & Fd). unfold time_ok in Ht. sp_open.
    replace (Z.of_N y <? 1) with false by (unfold date_wf, year_ok in Hd; lia). cbv iota. sp_d2.
    replace (negb ((1 <=? Z.of_N mo) && (Z.of_N mo <=? 12))) with false by (unfold date_wf, month_ok in Hd; lia). cbv iota. sp_d2.
    replace (negb ((1 <=? Z.of_N d) && (Z.of_N d <=? SpecText.month_len (Z.of_N y) (Z.of_N mo)))) with false
      by (unfold date_wf in Hd; lia). cbv iota.
    replace (SpecText.is_digit (48 + h / 10)) with true by (unfold SpecText.is_digit, SpecText.in_rng; lia). cbn [negb]. cbv iota.
    sp_d2. sp_d2. replace (negb ((Z.of_N h <=? 23) && (Z.of_N mi <=? 59))) with false by lia. cbv iota.
    sp_d2. replace (negb (Z.of_N sec <=? 59)) with false by lia. cbv iota.
    pose proof (p_offset_off o rest Ho) as PO.
    destruct o as [|hh mm|hh mm]; unfold off_text, d2 in *; cbn [app] in *; cbv iota; rewrite PO, Hr; reflexivity.
  - apply andb_true_iff in Hok as [Hok Ho]. apply andb_true_iff in Hok as [Hok Hfd].
    apply andb_true_iff in Hok as [Hok Hsec]. apply andb_true_iff in Hok as [Hd Ht].
    destruct (off_text_cons o) as (c0 & z & E & E58 & E46 & Edig).
    destruct (date_wf_fits _ _ _ Hd) as (Fy & Fmo & Fd). unfold time_ok in Ht.
    assert (Hfd' : forallb (fun d => d <=? 9)%N fd = true) by (destruct fd; [discriminate|exact Hfd]).
    unfold ts_text, date_text, d4, d2. rewrite <- ?app_assoc. cbn [app]. rewrite <- ?app_assoc.
    unfold SpecText.p_timestamp. rewrite dig4_at by lia. cbv beta iota zeta.
    replace (Z.of_N y <? 1) with false by (unfold date_wf, year_ok in Hd; lia). cbv iota.
    rewrite dig2_at by lia. cbv beta iota zeta.
    replace (negb ((1 <=? Z.of_N mo) && (Z.of_N mo <=? 12))) with false by (unfold date_wf, month_ok in Hd; lia). cbv iota.
    rewrite dig2_at by lia. cbv beta iota zeta.
    replace (negb ((1 <=? Z.of_N d) && (Z.of_N d <=? SpecText.month_len (Z.of_N y) (Z.of_N mo)))) with false
      by (unfold date_wf in Hd; lia). cbv iota.
    replace (SpecText.is_digit (48 + h / 10)) with true by (unfold SpecText.is_digit, SpecText.in_rng; lia). cbn [negb]. cbv iota.
    rewrite dig2_at by lia. cbv beta iota zeta. rewrite dig2_at by lia. cbv beta iota zeta.
    replace (negb ((Z.of_N h <=? 23) && (Z.of_N mi <=? 59))) with false by lia. cbv iota.
    rewrite dig2_at by lia. cbv beta iota zeta.
    replace (negb (Z.of_N sec <=? 59)) with false by lia. cbv iota.
    rewrite plain_digits_digs by (try exact Hfd'; rewrite E; exact Edig). cbv beta iota.
    rewrite N.add_0_l. replace (N.of_nat (length fd) =? 0)%N with false by (destruct fd; [discriminate Hfd|cbn [length]; lia]).
    cbv iota. rewrite (p_offset_off o rest Ho), Hr. reflexivity.
Qed.

(* the offset as the model reports it (minutes, kind) and as the specification does (None = unknown) agree *)
Lemma off_fields_spec o :
  spec_off o = (let '(m, kind) := off_fields o in if kind =? 0 then None else Some m).
Proof.
  destruct o as [|hh mm|hh mm]; cbn [spec_off off_fields]; [reflexivity| |].
  - destruct (N.eqb_spec hh 0) as [->|Hh]; [destruct (N.eqb_spec mm 0) as [->|Hm]|]; reflexivity.
  - destruct (N.eqb_spec hh 0) as [->|Hh]; [destruct (N.eqb_spec mm 0) as [->|Hm]|]; cbn [andb].
    + reflexivity.
    + replace (0 * 60 + mm =? 0)%N with false by lia. reflexivity.
    + replace (hh * 60 + mm =? 0)%N with false by lia. reflexivity.
Qed.

(* the terminator condition of the tokenizer theorems is the specification's [num_end] *)
Lemma num_end_stops rest :
  SpecText.num_end rest = stops (shead (zs (norm rest))) (stail (zs (norm rest))).
Proof.
  destruct rest as [|c r]; [reflexivity|]. cbn [SpecText.num_end].
  assert (Hstop : forall c', SpecText.is_stop c' = is_stop_char (Z.of_N c')).
  { intros c'. unfold SpecText.is_stop, SpecText.is_ws, SpecText.in_rng, SpecText.memN, is_stop_char, zmem.
    cbn [existsb]. lia. }
  destruct (N.eqb_spec c 47) as [->|Hc].
  - cbn [norm]. change (47 =? 13)%N with false. cbv iota. rewrite zs_cons. cbn [shead stail].
    unfold stops. change (SpecText.is_stop 47) with false. change (is_stop_char (Z.of_N 47)) with false.
    change (Z.of_N 47 =? c_slash) with true. cbn [orb andb].
    destruct r as [|c2 r']; [reflexivity|]. cbn [SpecText.starts_comment norm].
    destruct (N.eqb_spec c2 13) as [->|H13]; [reflexivity|]. rewrite zs_cons. cbn [shead]. unfold c_slash, c_star. lia.
  - assert (Hsc : SpecText.starts_comment (c :: r) = false).
    { destruct (SpecText.starts_comment (c :: r)) eqn:Esc; [apply starts_comment_47 in Esc; contradiction|reflexivity]. }
    rewrite Hsc, orb_false_r, Hstop. cbn [norm]. unfold stops.
    destruct (N.eqb_spec c 13) as [->|H13].
    + destruct r as [|c2 r']; [reflexivity|]. destruct (c2 =? 10)%N; reflexivity.
    + rewrite zs_cons. cbn [shead stail]. replace (Z.of_N c =? c_slash) with false by (unfold c_slash; lia).
      now rewrite andb_false_l, orb_false_r.
Qed.

(* everything together: on a concrete input the tokenizer cuts out exactly the spelling, the model's
   parser reads the fields the spelling denotes, and the specification decoder accepts the same spelling
   in the same place *)
Theorem timestamp_spelling sh rest t :
  ts_ok sh = true -> SpecText.num_end rest = true ->
  t_ioerr t = false -> t_buf t = [] -> t_in t = ts_text sh ++ rest ->
  (exists t', read_timestamp t = Ok (ts_text sh, t') /\
              stream t' = ts_after (zs (norm rest)) /\ t_ioerr t' = false /\
              t_token t' = t_token t /\ t_unfinished t' = t_unfinished t) /\
  parse_ts_text (ts_text sh) = Ok (show_tuple (ts_fields sh)) /\
  SpecText.looks_like_timestamp (t_in t) = true /\
  SpecText.p_timestamp (t_in t) = Some (spec_value sh, rest).
Proof.
  intros Hok Hr Hi Hb Hin. rewrite num_end_stops in Hr.
  destruct (read_timestamp_spelling sh rest t Hok Hr Hi Hb Hin) as (t' & E & Hs & Hi' & Hk & Hu & P).
  split; [exists t'; auto|]. split; [exact P|]. rewrite Hin. split.
  - apply looks_like_timestamp_spelling, ts_ok_fits, Hok.
  - apply spec_timestamp_spelling; [exact Hok|]. now rewrite num_end_stops.
Qed.
