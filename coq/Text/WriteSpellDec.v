(* WriteSpellDec.v — C01, text half: the hypothesis [dec_fmt_ok] of Text/WriteSpell.v discharged for the model of
   Decimal.String ([dec_format] of Num/Decimal.v).

   [dec_cv d]       the Decimal record of an Ion decimal: coefficient, scale = - exponent, negative-zero flag.
   [fmt_dec_std d]  dec_format (dec_cv d): what Decimal.String prints.
   [dec_std_ok d]   the decimals covered:
     - the negative-zero flag only on a zero coefficient.  The real type cannot hold anything else: NewDecimal stores
       isNegZero = negZero && n.Sign() == 0 (NewDecimal(5, 0, true).String() is "5."), ParseDecimal only sets it on "-0";
       the model's record with the flag on a non-zero coefficient prints "-0..." and loses the coefficient.
     - the exponent is an int32 (the scale field of the real type is an int32; NewDecimal takes an int32 exponent).
       Outside that range dec_format's int32 negation of the scale wraps (exponent 2147483648 prints 1d-2147483648)
       or ParseDecimal refuses the printed exponent (exponent -2147483649 prints 1d-2147483649: Err) -- see
       [ex_out_of_range].
   At exponent -2147483648 the scale of [dec_cv] is 2147483648, NOT an int32: the real NewDecimal(n, MinInt32, _)
   wraps the scale to MinInt32 and String() prints n d-2147483648 from the "scale < 0" branch ("12d-2147483648"),
   where dec_format (dec_cv d) prints "1.2d-2147483647".  Both are literals ParseDecimal reads as the same decimal;
   the theorem below covers the text of [dec_cv], [dec_format_go_fmt_ok] the text of the real conversion
   ([new_decimal]); the two texts are equal for every other covered decimal ([fmt_dec_go_std]).

   Theorems: [dec_format_fmt_ok]: for every [formats] whose fmt_dec is fmt_dec_std, dec_fmt_ok holds of every
   decimal with dec_std_ok -- the printed text is a decimal literal of the grammar without underscores, of kind
   decimal, and parse_decimal_text maps it back to the decimal. *)
From Coq Require Import String List NArith ZArith Bool Lia ZifyBool ZifyN ZifyNat.
From IonV Require Import Base.Wire Data.Ion Num.Decimal Num.DecimalP Text.TextWriter Text.Tokenizer Text.TextReader Text.TextNum
  Text.SpellNum Text.WriteSpell Text.WriteSpellScalar.
Import ListNotations.
Open Scope Z_scope.
Ltac Zify.zify_post_hook ::= Z.div_mod_to_equations.

Definition dec_cv (d : Ion.dec) : Decimal.dec :=
  {| d_n := d_coef d; d_scale := - d_exp d; Decimal.d_negzero := Ion.d_negzero d |}.
Definition fmt_dec_std (d : Ion.dec) : list N := dec_format (dec_cv d).
Definition dec_std_ok (d : Ion.dec) : Prop :=
  (Ion.d_negzero d = true -> d_coef d = 0) /\ -2147483648 <= d_exp d <= 2147483647.

(* ---- digit strings ------------------------------------------------------------------------------------------- *)
Lemma digits_us l : l <> [] -> all_digits l = true -> us_digits is_dec_b l l.
Proof.
  destruct l as [|c r]; [congruence|]. intros _ H. cbn [all_digits] in H. apply andb_true_iff in H as [Hc Hr].
  apply usd; [exact Hc|now apply all_digits_us].
Qed.
Lemma digits_forall l : all_digits l = true -> Forall (fun c => is_dec_b c = true) l.
Proof.
  induction l as [|c r IH]; cbn [all_digits]; intros H; [constructor|]. apply andb_true_iff in H as [Hc Hr].
  constructor; [exact Hc|auto].
Qed.
Lemma digits_value_digits l : all_digits l = true -> digits_value 10 l = val_digits l 0.
Proof. intros H. unfold digits_value. now rewrite fold_val_digits. Qed.
Lemma digits_value_dec_of_N n : digits_value 10 (dec_of_N n) = n.
Proof. rewrite digits_value_digits by apply all_digits_dec_of_N. apply val_dec_of_N. Qed.

(* ---- String() of a coefficient text (optional '-', canonical digits) and a scale, as a literal ---------------- *)
(* the exponent printed for a scale: its int32 negation (only MinInt32 is its own negation) *)
Definition exp_of_scale (sc : Z) : Z := if sc =? -2147483648 then sc else - sc.

Lemma format_with_numsp neg ds sc :
  canon ds -> -2147483648 <= sc <= 2147483648 ->
  exists n, plain_num n /\ num_kind n = NKDecimal /\ format_with (sign_bytes neg ++ ds) sc = num_text n /\
    n_neg n = neg /\ n_ip n ++ n_fp n = ds /\
    exp_value (n_exp n) - Z.of_nat (length (n_fp n)) = exp_of_scale sc /\ written_exp_int64 n = true.
Proof.
  intros Hc Hsc. pose proof (canon_all_digits ds Hc) as Hd. pose proof (canon_nonnil ds Hc) as Hnn.
  assert (Hl0 : no_lead0 ds).
  { destruct Hc as [->|(c & r & -> & Hc & _)]; [now left|right; cbn [hd]; lia]. }
  assert (Hst : starts_minus (sign_bytes neg ++ ds) = neg).
  { destruct neg; cbn [sign_bytes app starts_minus]; [reflexivity|]. destruct ds as [|c r]; [congruence|].
    cbn [starts_minus all_digits] in *. apply andb_true_iff in Hd as [Hd _]. unfold Decimal.is_digit in Hd. lia. }
  assert (Hlen : zlen (sign_bytes neg ++ ds) = (if neg then 1 else 0) + zlen ds).
  { unfold zlen. rewrite app_length. destruct neg; cbn [sign_bytes length]; lia. }
  pose proof (digits_us ds Hnn Hd) as Hus.
  unfold format_with. rewrite Hst, Hlen. unfold exp_of_scale.
  destruct (Z.eqb_spec sc 0) as [E0|N0].
  { (* "nnn." *)
    exists {| n_neg := neg; n_iw := ds; n_ip := ds; n_dot := true; n_fw := []; n_fp := []; n_exp := None |}.
    unfold plain_num, num_wf, num_kind, num_text, written_exp_int64.
    cbn [n_neg n_iw n_ip n_dot n_fw n_fp n_exp exp_wf exp_text exp_value length].
    split; [split; [split; [exact Hus|split; [exact Hl0|split; [left; split; reflexivity|exact I]]]|split; reflexivity]|].
    split; [reflexivity|]. split; [now rewrite <- app_assoc|]. split; [reflexivity|]. split; [apply app_nil_r|].
    split; [subst sc; reflexivity|reflexivity]. }
  destruct (Z.ltb_spec sc 0) as [NEG|POS].
  { (* "nnn d ss" *)
    destruct (Z.eqb_spec sc (-2147483648)) as [EM|NM].
    - subst sc. change (zstr (Decimal.wrap32 (- -2147483648))) with (45%N :: dec_of_N 2147483648).
      exists {| n_neg := neg; n_iw := ds; n_ip := ds; n_dot := false; n_fw := []; n_fp := [];
                n_exp := Some (100%N, [45%N], dec_of_N 2147483648) |}.
      unfold plain_num, num_wf, num_kind, num_text, written_exp_int64.
      cbn [n_neg n_iw n_ip n_dot n_fw n_fp n_exp exp_wf exp_text exp_value length].
      split; [split; [split; [exact Hus|split; [exact Hl0|split; [split; reflexivity|]]]|split; reflexivity]|].
      { split; [right; right; now left|]. split; [right; now right|]. split; [discriminate|].
        apply digits_forall, all_digits_dec_of_N. }
      split; [reflexivity|]. split; [now rewrite <- app_assoc|]. split; [reflexivity|]. split; [apply app_nil_r|].
      rewrite digits_value_dec_of_N. split; reflexivity.
    - rewrite DecimalP.wrap32_id by (unfold min_i32, max_i32; lia). rewrite zstr_nonneg by lia.
      exists {| n_neg := neg; n_iw := ds; n_ip := ds; n_dot := false; n_fw := []; n_fp := [];
                n_exp := Some (100%N, [], dec_of_N (Z.to_N (- sc))) |}.
      unfold plain_num, num_wf, num_kind, num_text, written_exp_int64.
      cbn [n_neg n_iw n_ip n_dot n_fw n_fp n_exp exp_wf exp_text exp_value length app].
      split; [split; [split; [exact Hus|split; [exact Hl0|split; [split; reflexivity|]]]|split; reflexivity]|].
      { split; [right; right; now left|]. split; [now left|].
        split; [apply canon_nonnil, canon_dec_of_N|apply digits_forall, all_digits_dec_of_N]. }
      split; [reflexivity|]. split; [now rewrite <- app_assoc|]. split; [reflexivity|]. split; [apply app_nil_r|].
      rewrite digits_value_dec_of_N. split; [lia|unfold in_int64; lia]. }
  replace (sc =? -2147483648) with false by lia.
  assert (Hpfx : ((if neg then 1 else 0) + zlen ds - sc >=? (if neg then 2 else 1)) = (zlen ds - sc >=? 1)).
  { destruct neg; lia. }
  cbv zeta. rewrite Hpfx.
  destruct (Z.geb_spec (zlen ds - sc) 1) as [GE|LT].
  { (* "nn.nn" *)
    set (k := Z.to_nat (zlen ds - sc)).
    assert (Hf : firstn (Z.to_nat ((if neg then 1 else 0) + zlen ds - sc)) (sign_bytes neg ++ ds)
                 = sign_bytes neg ++ firstn k ds).
    { destruct neg; cbn [sign_bytes app]; [|reflexivity].
      replace (Z.to_nat (1 + zlen ds - sc)) with (S k) by (unfold k; lia). reflexivity. }
    assert (Hs : skipn (Z.to_nat ((if neg then 1 else 0) + zlen ds - sc)) (sign_bytes neg ++ ds) = skipn k ds).
    { destruct neg; cbn [sign_bytes app]; [|reflexivity].
      replace (Z.to_nat (1 + zlen ds - sc)) with (S k) by (unfold k; lia). reflexivity. }
    rewrite Hf, Hs.
    assert (Hk : (1 <= k <= length ds)%nat) by (unfold k, zlen in *; lia).
    assert (Hfl : length (firstn k ds) = k) by (rewrite firstn_length; lia).
    assert (Hsl : Z.of_nat (length (skipn k ds)) = sc) by (rewrite skipn_length; unfold k, zlen in *; lia).
    assert (Hfn : firstn k ds <> []) by (intros E; rewrite E in Hfl; cbn [length] in Hfl; lia).
    assert (Hsn : skipn k ds <> []) by (intros E; rewrite E in Hsl; cbn [length] in Hsl; lia).
    exists {| n_neg := neg; n_iw := firstn k ds; n_ip := firstn k ds; n_dot := true;
              n_fw := skipn k ds; n_fp := skipn k ds; n_exp := None |}.
    unfold plain_num, num_wf, num_kind, num_text, written_exp_int64.
    cbn [n_neg n_iw n_ip n_dot n_fw n_fp n_exp exp_wf exp_text exp_value].
    split; [split; [split; [|split; [|split; [right|exact I]]]|split; reflexivity]|].
    - apply digits_us; [exact Hfn|now apply all_digits_firstn].
    - destruct Hc as [->|(c & r & -> & Hc & _)].
      + cbn [length] in Hk. replace k with 1%nat by lia. now left.
      + right. destruct k as [|k']; [lia|]. cbn [firstn hd]. lia.
    - apply digits_us; [exact Hsn|now apply all_digits_skipn].
    - split; [reflexivity|]. split; [now rewrite <- app_assoc, app_nil_r|]. split; [reflexivity|].
      split; [apply firstn_skipn|]. split; [lia|reflexivity]. }
  (* "n.nnn d -ss" *)
  destruct ds as [|c r]; [congruence|].
  assert (Hr : all_digits r = true) by (cbn [all_digits] in Hd; apply andb_true_iff in Hd; tauto).
  assert (Hcd : is_dec_b c = true) by (cbn [all_digits] in Hd; apply andb_true_iff in Hd; tauto).
  assert (Hf : firstn (Z.to_nat (if neg then 2 else 1)) (sign_bytes neg ++ c :: r) = sign_bytes neg ++ [c]).
  { destruct neg; reflexivity. }
  assert (Hs : skipn (Z.to_nat (if neg then 2 else 1)) (sign_bytes neg ++ c :: r) = r).
  { destruct neg; reflexivity. }
  rewrite Hf, Hs.
  assert (Hz : zlen (c :: r) = 1 + zlen r) by (unfold zlen; cbn [length]; lia).
  rewrite Hz in *.
  replace ((if neg then 1 else 0) + (1 + zlen r) - sc - (if neg then 2 else 1)) with (zlen r - sc)
    by (destruct neg; lia).
  rewrite zstr_neg by lia.
  assert (Hc0 : no_lead0 [c]).
  { destruct Hc as [E|(c' & r' & E & Hc' & _)]; [injection E as -> ->; now left|].
    injection E as -> ->. right. cbn [hd]. lia. }
  assert (Hgt : ((if neg then 1 else 0) + (1 + zlen r) >? (if neg then 2 else 1)) = (zlen r >? 0)).
  { destruct neg; lia. }
  rewrite Hgt.
  assert (Hew : exp_wf (Some (100%N, [45%N], dec_of_N (Z.to_N (- (zlen r - sc)))))).
  { cbn [exp_wf]. split; [right; right; now left|]. split; [right; now right|].
    split; [apply canon_nonnil, canon_dec_of_N|apply digits_forall, all_digits_dec_of_N]. }
  exists {| n_neg := neg; n_iw := [c]; n_ip := [c]; n_dot := (zlen r >? 0); n_fw := r; n_fp := r;
            n_exp := Some (100%N, [45%N], dec_of_N (Z.to_N (- (zlen r - sc)))) |}.
  unfold plain_num, num_wf, num_kind, num_text, written_exp_int64.
  cbn [n_neg n_iw n_ip n_dot n_fw n_fp n_exp exp_text exp_value].
  split; [split; [split; [|split; [exact Hc0|split; [|exact Hew]]]|split; reflexivity]|].
  - apply usd; [exact Hcd|constructor].
  - destruct r as [|c2 r2]; [split; reflexivity|].
    replace (zlen (c2 :: r2) >? 0) with true by (unfold zlen; cbn [length]; lia).
    right. apply digits_us; [discriminate|exact Hr].
  - split; [reflexivity|]. split.
    { rewrite <- !app_assoc. cbn [app]. destruct (zlen r >? 0); reflexivity. }
    split; [reflexivity|]. split; [reflexivity|].
    rewrite digits_value_dec_of_N. unfold zlen in *. split; [lia|unfold in_int64; lia].
Qed.

(* the coefficient text of String(): "-0" for a negative zero, big.Int.String otherwise *)
Lemma mant_text_std nz co : (nz = true -> co = 0) ->
  (if nz then neg_zero_str else zstr co) = sign_bytes (nz || (co <? 0)) ++ dec_of_N (Z.abs_N co).
Proof.
  intros Hz. destruct nz.
  - rewrite Hz by reflexivity. reflexivity.
  - cbn [orb]. unfold zstr, dec_of_Z. destruct co; reflexivity.
Qed.

(* String() of (coefficient, scale, flag) is a decimal literal without underscores, and ParseDecimal reads it as the
   coefficient, the int32 negation of the scale and the flag *)
Lemma format_with_fmt_ok nz co sc :
  (nz = true -> co = 0) -> -2147483648 <= sc <= 2147483648 ->
  (exists n, plain_num n /\ num_kind n = NKDecimal /\
             format_with (if nz then neg_zero_str else zstr co) sc = num_text n) /\
  PD (format_with (if nz then neg_zero_str else zstr co) sc)
  = Ok {| d_coef := co; d_exp := exp_of_scale sc; Ion.d_negzero := nz |}.
Proof.
  intros Hz Hsc. rewrite (mant_text_std nz co Hz).
  destruct (format_with_numsp (nz || (co <? 0)) (dec_of_N (Z.abs_N co)) sc (canon_dec_of_N _) Hsc)
    as (n & Hp & Hk & Ht & Hn & Hds & Hex & H64).
  rewrite Ht. split; [exists n; auto|].
  assert (Hr : -2147483648 <= exp_of_scale sc <= 2147483647) by (clear - Hsc; unfold exp_of_scale; destruct (Z.eqb_spec sc (-2147483648)); lia).
  rewrite <- (plain_num_plain n Hp).
  rewrite parse_decimal_spelling; [|apply Hp|exact Hk|unfold dec_denotes; cbn [d_exp]; rewrite Hex; exact Hr|exact H64].
  unfold dec_denotes. rewrite Hn, Hds, Hex, digits_value_dec_of_N. f_equal.
  assert (Ha : Z.of_N (Z.abs_N co) = Z.abs co) by apply N2Z.inj_abs_N.
  destruct nz; [rewrite Hz by reflexivity; reflexivity|]. cbn [orb]. unfold sgn. f_equal.
  - destruct (Z.ltb_spec co 0); lia.
  - destruct (Z.ltb_spec co 0); [|reflexivity]. cbn [andb].
    destruct (N.eqb_spec (Z.abs_N co) 0) as [E|E]; [rewrite E in Ha; lia|reflexivity].
Qed.

(* ---- the theorem ------------------------------------------------------------------------------------------------ *)
Theorem dec_format_fmt_ok : forall F d, fmt_dec F = fmt_dec_std -> dec_std_ok d -> dec_fmt_ok F d.
Proof.
  intros F d HF [Hz He]. unfold dec_fmt_ok. rewrite HF. unfold fmt_dec_std. rewrite dec_format_with.
  unfold mant_str, dec_cv. cbn [Decimal.d_negzero d_n d_scale].
  destruct (format_with_fmt_ok (Ion.d_negzero d) (d_coef d) (- d_exp d) Hz ltac:(lia)) as [H1 H2].
  split; [exact H1|]. rewrite H2. unfold exp_of_scale. replace (- d_exp d =? -2147483648) with false by lia.
  rewrite Z.opp_involutive. destruct d; reflexivity.
Qed.

(* the same for the real conversion NewDecimal(coefficient, int32 exponent, flag) ([new_decimal]: the scale is the
   int32 negation of the exponent, the flag is dropped on a non-zero coefficient); no hypothesis on the flag:
   what is read back is the decimal NewDecimal built *)
Definition fmt_dec_go (d : Ion.dec) : list N := dec_format (new_decimal (d_coef d) (d_exp d) (Ion.d_negzero d)).
Theorem dec_format_go_literal d :
  -2147483648 <= d_exp d <= 2147483647 ->
  (exists n, plain_num n /\ num_kind n = NKDecimal /\ fmt_dec_go d = num_text n) /\
  PD (fmt_dec_go d) = Ok {| d_coef := d_coef d; d_exp := d_exp d; Ion.d_negzero := Ion.d_negzero d && (d_coef d =? 0) |}.
Proof.
  intros He. unfold fmt_dec_go. rewrite dec_format_with. unfold mant_str, new_decimal. cbn [Decimal.d_negzero d_n d_scale].
  assert (Hz : Ion.d_negzero d && (d_coef d =? 0) = true -> d_coef d = 0) by lia.
  pose proof (DecimalP.wrap32_range (- d_exp d)) as Hw. unfold min_i32, max_i32 in Hw.
  destruct (format_with_fmt_ok _ (d_coef d) (Decimal.wrap32 (- d_exp d)) Hz ltac:(lia)) as [H1 H2].
  split; [exact H1|]. rewrite H2. f_equal. f_equal.
  clear - He. destruct (Z.eq_dec (d_exp d) (-2147483648)) as [E|E]; [rewrite E; reflexivity|].
  rewrite DecimalP.wrap32_id by (unfold min_i32, max_i32; lia). unfold exp_of_scale.
  destruct (Z.eqb_spec (- d_exp d) (-2147483648)); lia.
Qed.
Theorem dec_format_go_fmt_ok : forall F d, fmt_dec F = fmt_dec_go -> dec_std_ok d -> dec_fmt_ok F d.
Proof.
  intros F d HF [Hz He]. unfold dec_fmt_ok. rewrite HF. destruct (dec_format_go_literal d He) as [H1 H2].
  split; [exact H1|]. rewrite H2. destruct d as [co ex nz]; cbn [d_coef d_exp Ion.d_negzero] in *. f_equal.
  destruct nz; [rewrite Hz by reflexivity|]; reflexivity.
Qed.
(* the two texts differ only at exponent MinInt32 *)
Lemma fmt_dec_go_std d : dec_std_ok d -> -2147483648 < d_exp d -> fmt_dec_go d = fmt_dec_std d.
Proof.
  intros [Hz He] Hm. unfold fmt_dec_go, fmt_dec_std, new_decimal, dec_cv. f_equal.
  rewrite DecimalP.wrap32_id by (unfold min_i32, max_i32; lia). f_equal.
  destruct (Ion.d_negzero d); [rewrite Hz by reflexivity|]; reflexivity.
Qed.

(* a [formats] with Decimal.String as modelled; the other two fields play no role *)
Definition std_formats (ff : N -> list N) (ft : N -> list N -> list N) : formats :=
  {| fmt_float := ff; fmt_dec := fmt_dec_std; fmt_ts := ft |}.
Corollary dec_format_fmt_ok_std ff ft d : dec_std_ok d -> dec_fmt_ok (std_formats ff ft) d.
Proof. apply dec_format_fmt_ok. reflexivity. Qed.

Print Assumptions dec_format_fmt_ok.
Print Assumptions dec_format_go_fmt_ok.

(* ---- examples ------------------------------------------------------------------------------------------------------- *)
Definition mkd (c e : Z) (z : bool) : Ion.dec := {| d_coef := c; d_exp := e; Ion.d_negzero := z |}.
Local Ltac std_ok := split; [cbn [Ion.d_negzero d_coef mkd]; intros; try reflexivity; discriminate|cbn [d_exp mkd]; lia].

Example ex_negzero_ok : dec_std_ok (mkd 0 0 true) /\ dec_std_ok (mkd 0 (-3) true) /\ dec_std_ok (mkd 0 3 true).
Proof. repeat split; try reflexivity; cbn [d_exp mkd]; lia. Qed.
Example ex_negzero_text :
  fmt_dec_std (mkd 0 0 true) = s "-0." /\ fmt_dec_std (mkd 0 (-3) true) = s "-0d-3" /\ fmt_dec_std (mkd 0 3 true) = s "-0d3".
Proof. vm_compute. repeat split. Qed.
Example ex_1234_ok : dec_std_ok (mkd 1234 (-2) false).  Proof. std_ok. Qed.
Example ex_1234_text :
  fmt_dec_std (mkd 1234 (-2) false) = s "12.34" /\ fmt_dec_std (mkd 1234 (-4) false) = s "1.234d-1" /\
  fmt_dec_std (mkd 1234 (-7) false) = s "1.234d-4" /\ fmt_dec_std (mkd (-1234) (-3) false) = s "-1.234" /\
  fmt_dec_std (mkd 1 5 false) = s "1d5" /\ fmt_dec_std (mkd (-1) 0 false) = s "-1." /\
  fmt_dec_std (mkd 0 0 false) = s "0." /\ fmt_dec_std (mkd 0 (-3) false) = s "0d-3" /\ fmt_dec_std (mkd 0 3 false) = s "0d3".
Proof. vm_compute. repeat split. Qed.
Example ex_big_ok :
  dec_std_ok (mkd 123456789012345678901234567890 2000000000 false) /\
  dec_std_ok (mkd 123456789012345678901234567890 (-2000000000) false).
Proof. split; std_ok. Qed.
Example ex_big_text :
  fmt_dec_std (mkd 123456789012345678901234567890 2000000000 false) = s "123456789012345678901234567890d2000000000" /\
  fmt_dec_std (mkd 123456789012345678901234567890 (-2000000000) false) = s "1.23456789012345678901234567890d-1999999971".
Proof. vm_compute. split; reflexivity. Qed.
Example ex_big_fmt_ok ff ft :
  dec_fmt_ok (std_formats ff ft) (mkd 123456789012345678901234567890 (-2000000000) false).
Proof. apply dec_format_fmt_ok_std. exact (proj2 ex_big_ok). Qed.
(* the ends of the range *)
Example ex_ends_text :
  fmt_dec_std (mkd 1 2147483647 false) = s "1d2147483647" /\ fmt_dec_std (mkd 1 (-2147483648) false) = s "1d-2147483648" /\
  fmt_dec_std (mkd 12 (-2147483648) false) = s "1.2d-2147483647" /\ fmt_dec_go (mkd 12 (-2147483648) false) = s "12d-2147483648" /\
  PD (s "1.2d-2147483647") = Ok (mkd 12 (-2147483648) false) /\ PD (s "12d-2147483648") = Ok (mkd 12 (-2147483648) false).
Proof. vm_compute. repeat split. Qed.

(* what is excluded, on the model: outside int32 the printed exponent is the wrapped one or is refused by ParseDecimal;
   a flag on a non-zero coefficient prints "-0" (the real NewDecimal drops such a flag: fmt_dec_go prints "5.") *)
Example ex_out_of_range :
  fmt_dec_std (mkd 1 2147483648 false) = s "1d-2147483648" /\
  PD (fmt_dec_std (mkd 1 2147483648 false)) = Ok (mkd 1 (-2147483648) false) /\
  fmt_dec_std (mkd 1 (-2147483649) false) = s "1d-2147483649" /\ PD (fmt_dec_std (mkd 1 (-2147483649) false)) = Err /\
  fmt_dec_std (mkd 12 (-2147483649) false) = s "1.2d-2147483648" /\ PD (fmt_dec_std (mkd 12 (-2147483649) false)) = Err /\
  fmt_dec_std (mkd 1 4294967296 false) = s "1d0" /\
  fmt_dec_std (mkd 1 (-100000000000000000000) false) = s "1d-100000000000000000000" /\
  PD (fmt_dec_std (mkd 1 (-100000000000000000000) false)) = Err.
Proof. vm_compute. repeat split. Qed.
Example ex_flag_nonzero :
  fmt_dec_std (mkd 5 0 true) = s "-0." /\ PD (fmt_dec_std (mkd 5 0 true)) = Ok (mkd 0 0 true) /\
  fmt_dec_go (mkd 5 0 true) = s "5." /\ PD (fmt_dec_go (mkd 5 0 true)) = Ok (mkd 5 0 false).
Proof. vm_compute. repeat split. Qed.
