(* SpecAgreeTextP.v — C04, text half: for every well-formed forest, SpecText.tdecode reads the text Writer model's
   output (compact mode) back as [canonical] of the forest.  By induction over the value tree, directly on [wt]. *)
From Coq Require Import String List NArith ZArith Bool Lia ZifyBool ZifyN ZifyNat.
From IonV Require Import Base.Wire Base.Utf8 Data.Ion Num.Float Num.Decimal Num.DecimalP Bin.BinWriter Bin.SpecBin Bin.RoundTripBinS
  Text.TextOut Text.TextWriter Text.TextWriterP Text.TextRoundtrip Text.Tokenizer Text.TextReader Text.TextNum
  Text.SpellBase Text.SpellWs Text.SpellNum Text.SpellIdent Text.SpellSym Text.SpellEsc Text.SpellStr Text.SpellBlob Text.SpellTs
  Text.SpellStream Text.SpellTree
  Text.WriteSpell Text.WriteSpellOut Text.WriteSpellScalar Text.WriteSpellTree Text.WriteSpellStream
  Text.SpecAgreeTextNum Text.SpecAgreeTextStr Text.SpecAgreeText.
From IonV Require Text.SpecText.
Import ListNotations.
Open Scope N_scope.
Local Notation p_val := SpecText.p_val.
Local Notation sctx := system_ctx.

(* ---- two-character look-aheads ---------------------------------------------------------------------------------- *)
Lemma match_colons {A} (l : list N) (a : list N -> A) (b : A) :
  (forall r2, l <> 58 :: 58 :: r2) -> match l with 58 :: 58 :: r2 => a r2 | _ => b end = b.
Proof.
  intros H. destruct l as [|x [|y r]]; try reflexivity.
  - destruct x as [|p]; [reflexivity|]. do 6 (try (destruct p as [p|p|]; try reflexivity)).
  - destruct x as [|p]; [reflexivity|]. do 6 (try (destruct p as [p|p|]; try reflexivity)).
    destruct y as [|p]; [reflexivity|]. do 6 (try (destruct p as [p|p|]; try reflexivity)).
    exfalso. exact (H r eq_refl).
Qed.
Lemma match_quotes {A} (l : list N) (a : list N -> A) (b : A) :
  (forall r2, l <> 39 :: 39 :: r2) -> match l with 39 :: 39 :: r2 => a r2 | _ => b end = b.
Proof.
  intros H. destruct l as [|x [|y r]]; try reflexivity.
  - destruct x as [|p]; [reflexivity|]. do 6 (try (destruct p as [p|p|]; try reflexivity)).
  - destruct x as [|p]; [reflexivity|]. do 6 (try (destruct p as [p|p|]; try reflexivity)).
    destruct y as [|p]; [reflexivity|]. do 6 (try (destruct p as [p|p|]; try reflexivity)).
    exfalso. exact (H r eq_refl).
Qed.
Lemma match_brace {A} (l : list N) (a : list N -> A) (b : A) :
  hd 0 l <> 123 -> match l with 123 :: r2 => a r2 | _ => b end = b.
Proof.
  intros H. destruct l as [|x r]; [reflexivity|]. cbn [hd] in H.
  destruct x as [|p]; [reflexivity|]. do 7 (try (destruct p as [p|p|]; try reflexivity)). contradiction.
Qed.

(* ---- what a value's text begins with, what follows it --------------------------------------------------------------- *)
Definition nows (c : N) : Prop := SpecText.is_ws c = false /\ c <> 47.
Definition vstart (c : N) : Prop := nows c /\ c <> 58 /\ c <> 93 /\ c <> 41 /\ c <> 125 /\ c <> 44.
Definition first_tok_ok (l : list N) : Prop := tok_is (fst (SpecText.p_ident l)) "$ion_1_0" = false.
Definition tstart (l : list N) : Prop := exists c r, l = c :: r /\ vstart c /\ first_tok_ok l.

Definition wfollow (rest : list N) : Prop :=
  SpecText.num_end rest = true /\ spec_stop SpecText.is_id_part rest /\ hd 0 rest <> 39 /\
  exists r', SpecText.skip_ws rest = Some r' /\ (forall r2, r' <> 58 :: 58 :: r2).

Lemma skip_ws_nows c r : nows c -> SpecText.skip_ws (c :: r) = Some (c :: r).
Proof.
  intros (Hw & H47). unfold SpecText.skip_ws. cbn [SpecText.skip_ws_st]. change (0 =? 0) with true. cbv iota.
  rewrite Hw. replace (c =? 47) with false by lia. reflexivity.
Qed.
Lemma skip_ws_vstart c r : vstart c -> SpecText.skip_ws (c :: r) = Some (c :: r).
Proof. intros (H & _). now apply skip_ws_nows. Qed.
Lemma skip_ws_one w l : w = 32 \/ w = 10 -> SpecText.skip_ws (w :: l) = SpecText.skip_ws l.
Proof. intros [->| ->]; reflexivity. Qed.

Lemma wfollow_nil : wfollow [].
Proof. repeat split; try discriminate. exists []. split; [reflexivity|discriminate]. Qed.
Lemma wfollow_close c r : c = 44 \/ c = 93 \/ c = 41 \/ c = 125 -> wfollow (c :: r).
Proof.
  intros H. assert (Hv : nows c) by (unfold nows, SpecText.is_ws, SpecText.in_rng; lia).
  split; [destruct H as [->|[->|[->| ->]]]; reflexivity|]. split; [destruct H as [->|[->|[->| ->]]]; reflexivity|].
  split; [cbn [hd]; lia|]. exists (c :: r). split; [now apply skip_ws_nows|]. intros r2 E. inversion E. lia.
Qed.
Lemma wfollow_ws w l : w = 32 \/ w = 10 -> l = [] \/ tstart l -> wfollow (w :: l).
Proof.
  intros Hw Hl.
  split; [destruct Hw as [->| ->]; reflexivity|]. split; [destruct Hw as [->| ->]; reflexivity|].
  split; [cbn [hd]; lia|]. rewrite (skip_ws_one w l Hw).
  destruct Hl as [->|(c & r & -> & Hv & _)].
  - exists []. split; [reflexivity|discriminate].
  - exists (c :: r). split; [now apply skip_ws_vstart|]. intros r2 E. inversion E. destruct Hv as (_ & H58 & _). contradiction.
Qed.

Lemma p_ident_acc_fst : forall l acc, exists t, fst (SpecText.p_ident_acc l acc) = rev acc ++ t.
Proof.
  induction l as [|c r IH]; intros acc; cbn [SpecText.p_ident_acc].
  - exists []. now rewrite app_nil_r.
  - destruct (SpecText.is_id_part c).
    + destruct (IH (c :: acc)) as (t & E). exists (c :: t). rewrite E. cbn [rev]. now rewrite <- app_assoc.
    + exists []. cbn [fst]. now rewrite app_nil_r.
Qed.
Lemma first_tok_not_dollar c r : c <> 36 -> first_tok_ok (c :: r).
Proof.
  intros Hc. unfold first_tok_ok, SpecText.p_ident. cbn [SpecText.p_ident_acc].
  destruct (SpecText.is_id_part c); [|reflexivity].
  destruct (p_ident_acc_fst r [c]) as (t & ->). cbn [rev app]. unfold tok_is.
  change (bytes_of_string "$ion_1_0") with (36 :: bytes_of_string "ion_1_0"). cbn [list_eqb].
  replace (c =? 36) with false by lia. reflexivity.
Qed.
Lemma tstart_char c r : vstart c -> c <> 36 -> tstart (c :: r).
Proof. intros Hv Hc. exists c, r. split; [reflexivity|]. split; [exact Hv|now apply first_tok_not_dollar]. Qed.

(* ---- symbols as the specification reads them ------------------------------------------------------------------------- *)
Inductive sym_spec (y : symv) : Prop :=
| ss_bare : ident_chars (wsym y) -> SpecText.is_keyword (wsym y) = false ->
            SpecText.ident_symbol sctx (wsym y) = Some (csym y) -> tok_is (wsym y) "$ion_1_0" = false -> sym_spec y
| ss_quoted body text : wsym y = 39 :: body ++ [39] -> ubody 39 body text -> csym y = SymText text -> sym_spec y.

Lemma dollar_digits_ubody r : forallb BinWriter.is_digit r = true -> ubody 39 (36 :: r) (36 :: r).
Proof.
  intros H. apply ub_raw; [lia|unfold raw_char, str_ws; lia|].
  induction r as [|c r IH]; [constructor|]. cbn [forallb] in H. apply andb_true_iff in H as [Hc Hr].
  unfold BinWriter.is_digit in Hc. apply ub_raw; [lia|unfold raw_char, str_ws; lia|auto].
Qed.
Lemma keywords_spec t : existsb (list_eqb t) keywords = false -> SpecText.is_keyword t = false.
Proof. intros H. apply keywords_model in H. exact H. Qed.

Lemma ident_symbol_text t : ident_chars t -> not_sid_form t -> SpecText.ident_symbol sctx t = Some (SymText t).
Proof.
  intros [c r Hc Hr] Hn. unfold SpecText.ident_symbol.
  destruct (N.eqb_spec c 36) as [->|Hne].
  - cbn [not_sid_form] in Hn. destruct r as [|d ds]; [reflexivity|]. destruct Hn as [Hn|Hn]; [discriminate|].
    replace (forallb SpecText.is_digit (d :: ds)) with false; [reflexivity|].
    symmetry. apply not_true_iff_false. intros Hall. rewrite forallb_forall in Hall.
    apply Exists_exists in Hn as (x & Hx & Hd). specialize (Hall x Hx). rewrite is_digit_dec in Hall. congruence.
  - destruct c as [|p]; [reflexivity|]. do 6 (try (destruct p as [p|p|]; try reflexivity)). contradiction.
Qed.

Lemma sym_text_spec t : bytes_ok t -> utf8_valid t = true -> sym_spec (SymText t).
Proof.
  intros Hb Hu.
  destruct (BinWriter.symbol_identifier t) as [z|] eqn:Esi.
  - destruct (symbol_identifier_shape t z Esi) as (r & -> & Hr).
    apply (ss_quoted _ (36 :: r) (36 :: r)); [|now apply dollar_digits_ubody|reflexivity].
    unfold wsym, sym_bytes, write_symbol. cbn [tok_of_sym tok_text tk_text]. rewrite Esi. cbn [concat]. now rewrite app_nil_r.
  - destruct (symbol_needs_quoting t) eqn:Eq.
    + apply (ss_quoted _ (concat (escaped_symbol t)) t); [|now apply symbol_ubody|reflexivity].
      unfold wsym, sym_bytes, write_symbol. cbn [tok_of_sym tok_text tk_text]. rewrite Esi.
      rewrite (write_symbol_from_string_quoted t Eq). reflexivity.
    + destruct (sym_text_shape t Hb Hu) as [Hid Hkw Hk Hv|body text E _ _ _ _].
      2:{ exfalso. revert E. unfold wsym, sym_bytes, write_symbol. cbn [tok_of_sym tok_text tk_text]. rewrite Esi.
          rewrite (write_symbol_from_string_unquoted t Eq). cbn [concat]. rewrite app_nil_r. intros ->.
          destruct (bare_symbol_is_identifier _ Eq) as (_ & c & r & E & Hc & _). inversion E; subst. discriminate Hc. }
      assert (Ews : wsym (SymText t) = t).
      { unfold wsym, sym_bytes, write_symbol. cbn [tok_of_sym tok_text tk_text]. rewrite Esi.
        rewrite (write_symbol_from_string_unquoted t Eq). cbn [concat]. now rewrite app_nil_r. }
      rewrite Ews in *.
      destruct (bare_symbol_is_identifier t Eq) as (Hkw' & _).
      apply ss_bare; rewrite ?Ews; [exact Hid|now apply keywords_spec| |exact Hv].
      cbn [csym]. apply ident_symbol_text; [exact Hid|].
      (* not of the form $digits: else symbol_identifier answers or the quoting clause fires *)
      destruct Hid as [c r Hc Hr]. unfold not_sid_form.
      destruct (N.eqb_spec c 36) as [->|Hc36]; [|destruct c as [|p]; auto; repeat (destruct p; auto); contradiction].
      destruct r as [|d r']; [now left|right].
      unfold symbol_needs_quoting in Eq. rewrite Hkw' in Eq.
      apply orb_false_iff in Eq as [Eq _]. apply orb_false_iff in Eq as [_ Eq].
      rewrite Esi in Eq. change (36 =? 36) with true in Eq. cbn [list_eqb negb andb] in Eq.
      rewrite andb_true_r in Eq.
      apply Exists_exists. rewrite <- not_true_iff_false in Eq. rewrite forallb_forall in Eq.
      destruct (forallb is_dec_b (d :: r')) eqn:Ea.
      * exfalso. apply Eq. intros x Hx. rewrite forallb_forall in Ea. specialize (Ea x Hx).
        unfold is_dec_b in Ea. unfold is_digit_c, in_rng. exact Ea.
      * apply not_true_iff_false in Ea. rewrite forallb_forall in Ea.
        destruct (Exists_dec (fun x => is_dec_b x = false) (d :: r')) as [He|He].
        -- intros x. destruct (is_dec_b x); [right; discriminate|now left].
        -- apply Exists_exists in He. exact He.
        -- exfalso. apply Ea. intros x Hx. destruct (is_dec_b x) eqn:Ex; [reflexivity|].
           exfalso. apply He. apply Exists_exists. eauto.
Qed.

Ltac sid_spec_case := apply ss_bare;
  [ match goal with |- ident_chars ?x => let v := eval vm_compute in x in change x with v end;
    constructor; [unfold id_start; lia|repeat (apply Forall_cons; [unfold id_part, digit; lia|]); apply Forall_nil]
  | vm_compute; reflexivity | vm_compute; reflexivity | vm_compute; reflexivity ].
Lemma sym_sid_spec n : n <= 9 -> sym_spec (SymSid n).
Proof.
  intros H.
  assert (E : n = 0 \/ n = 1 \/ n = 2 \/ n = 3 \/ n = 4 \/ n = 5 \/ n = 6 \/ n = 7 \/ n = 8 \/ n = 9) by lia.
  repeat (destruct E as [->|E]; [sid_spec_case|]). subst n. sid_spec_case.
Qed.
Lemma sym_spec_wf y : wf_sym y -> sym_spec y.
Proof. destruct y as [t|n]; cbn [wf_sym]; [intros [Hb Hu]; now apply sym_text_spec|apply sym_sid_spec]. Qed.

(* ---- p_val, branch by branch --------------------------------------------------------------------------------------------- *)
Definition soa (f : nat) (sx : bool) (anns : list symv) (y : symv) (r : list N) : option (value * list N) :=
  match SpecText.skip_ws r with
  | Some (58 :: 58 :: r2) =>
    match SpecText.skip_ws r2 with Some r3 => p_val f sctx sx (anns ++ [y]) r3 | None => None end
  | Some _ => Some (mk_ann anns (VSymbol y), r)
  | None => None
  end.

Lemma p_val_string f sx anns r :
  p_val (S f) sctx sx anns (34 :: r) =
  match SpecText.p_quoted f 34 false r [] with Some (t, r') => Some (mk_ann anns (VString t), r') | None => None end.
Proof. reflexivity. Qed.
Lemma p_val_qsym f sx anns r : (forall r2, r <> 39 :: 39 :: r2) ->
  p_val (S f) sctx sx anns (39 :: r) =
  match SpecText.p_quoted f 39 false r [] with Some (t, r') => soa f sx anns (SymText t) r' | None => None end.
Proof.
  intros H. cbn [SpecText.p_val]. change (39 =? 34) with false. change (39 =? 39) with true. cbv iota.
  rewrite (match_quotes r _ _ H). reflexivity.
Qed.
Lemma p_val_lob f sx anns r :
  p_val (S f) sctx sx anns (123 :: 123 :: r) =
  match SpecText.p_lob f r with Some (v, r') => Some (mk_ann anns v, r') | None => None end.
Proof. reflexivity. Qed.
Lemma p_val_struct f sx anns r : hd 0 r <> 123 ->
  p_val (S f) sctx sx anns (123 :: r) =
  match SpecText.p_fields (p_val f sctx false []) (SpecText.p_field_name f sctx) f r with
  | Some (fs, r') => Some (mk_ann anns (VStruct fs), r') | None => None end.
Proof.
  intros H. cbn [SpecText.p_val]. change (123 =? 34) with false. change (123 =? 39) with false. change (123 =? 123) with true.
  cbv iota. rewrite (match_brace r _ _ H). reflexivity.
Qed.
Lemma p_val_list f sx anns r :
  p_val (S f) sctx sx anns (91 :: r) =
  match SpecText.p_list_items (p_val f sctx false []) f r with
  | Some (vs, r') => Some (mk_ann anns (VList vs), r') | None => None end.
Proof. reflexivity. Qed.
Lemma p_val_sexp f sx anns r :
  p_val (S f) sctx sx anns (40 :: r) =
  match SpecText.p_sexp_items (p_val f sctx true []) f r with
  | Some (vs, r') => Some (mk_ann anns (VSexp vs), r') | None => None end.
Proof. reflexivity. Qed.
Lemma p_val_digit f sx anns c r : is_dec_b c = true ->
  p_val (S f) sctx sx anns (c :: r) =
  match SpecText.p_number (c :: r) with Some (v, r') => Some (mk_ann anns v, r') | None => None end.
Proof.
  intros Hc. destruct (dec_cases c Hc) as [->|H]; [reflexivity|].
  repeat (destruct H as [->|H]; [reflexivity|]). subst c. reflexivity.
Qed.
Lemma p_val_minus f sx anns d r : is_dec_b d = true ->
  p_val (S f) sctx sx anns (45 :: d :: r) =
  match SpecText.p_number (45 :: d :: r) with Some (v, r') => Some (mk_ann anns v, r') | None => None end.
Proof.
  intros Hc. destruct (dec_cases d Hc) as [->|H]; [reflexivity|].
  repeat (destruct H as [->|H]; [reflexivity|]). subst d. reflexivity.
Qed.

Lemma id_start_spec c : id_start c -> SpecText.is_id_start c = true /\ is_dec_b c = false /\
  c <> 34 /\ c <> 39 /\ c <> 123 /\ c <> 91 /\ c <> 40 /\ c <> 45 /\ c <> 43 /\ vstart c.
Proof.
  unfold id_start, letter, SpecText.is_id_start, SpecText.in_rng, is_dec_b, vstart, nows, SpecText.is_ws, SpecText.in_rng. lia.
Qed.

(* an identifier that is not a keyword *)
Lemma p_val_ident f sx anns c r t r' y : id_start c ->
  SpecText.p_ident (c :: r) = (t, r') -> SpecText.is_keyword t = false -> SpecText.ident_symbol sctx t = Some y ->
  p_val (S f) sctx sx anns (c :: r) = soa f sx anns y r'.
Proof.
  intros Hc Hp Hk Hy. destruct (id_start_spec c Hc) as (H1 & H2 & H3 & H4 & H5 & H6 & H7 & H8 & H9 & _).
  unfold SpecText.is_keyword in Hk. apply orb_false_iff in Hk as [Hk Hk4]. apply orb_false_iff in Hk as [Hk Hk3].
  apply orb_false_iff in Hk as [Hk1 Hk2].
  cbn [SpecText.p_val].
  replace (c =? 34) with false by lia. replace (c =? 39) with false by lia. replace (c =? 123) with false by lia.
  replace (c =? 91) with false by lia. replace (c =? 40) with false by lia. rewrite is_digit_dec, H2.
  replace (c =? 45) with false by lia. replace (c =? 43) with false by lia. rewrite H1, Hp, Hk1, Hk2, Hk3, Hk4, Hy.
  reflexivity.
Qed.

(* keywords: p_val on a fixed word followed by a non-identifier character *)
Lemma p_ident_word w rest : ident_chars w -> spec_stop SpecText.is_id_part rest -> SpecText.p_ident (w ++ rest) = (w, rest).
Proof. apply spec_ident_spelling. Qed.

Ltac idc := match goal with |- ident_chars ?x => let v := eval vm_compute in x in change x with v end; constructor; [unfold id_start, letter; lia|repeat (apply Forall_cons; [unfold id_part, id_start, letter, digit; lia|]); apply Forall_nil].

Lemma p_val_kw f sx anns w v rest : ident_chars w -> spec_stop SpecText.is_id_part rest ->
  (tok_is w "null" = false) ->
  (if tok_is w "true" then Some v = Some (VBool true) else if tok_is w "false" then Some v = Some (VBool false)
   else if tok_is w "nan" then Some v = Some (VFloat 9221120237041090560) else False) ->
  p_val (S f) sctx sx anns (w ++ rest) = Some (mk_ann anns v, rest).
Proof.
  intros Hw Hs Hn Hv. pose proof (p_ident_word w rest Hw Hs) as Hp. destruct Hw as [c r Hc Hr]. cbn [app] in *.
  destruct (id_start_spec c Hc) as (H1 & H2 & H3 & H4 & H5 & H6 & H7 & H8 & H9 & _).
  cbn [SpecText.p_val].
  replace (c =? 34) with false by lia. replace (c =? 39) with false by lia. replace (c =? 123) with false by lia.
  replace (c =? 91) with false by lia. replace (c =? 40) with false by lia. rewrite is_digit_dec, H2.
  replace (c =? 45) with false by lia. replace (c =? 43) with false by lia. rewrite H1, Hp, Hn.
  destruct (tok_is (c :: r) "true"); [inversion Hv; reflexivity|].
  destruct (tok_is (c :: r) "false"); [inversion Hv; reflexivity|].
  destruct (tok_is (c :: r) "nan"); [inversion Hv; reflexivity|contradiction].
Qed.

Lemma p_val_null f sx anns nm ty rest : ident_chars nm -> SpecText.type_code nm = Some ty ->
  spec_stop SpecText.is_id_part rest ->
  p_val (S f) sctx sx anns (s "null." ++ nm ++ rest) = Some (mk_ann anns (VNull ty), rest).
Proof.
  intros Hn Ht Hs.
  assert (Hp : SpecText.p_ident (s "null" ++ 46 :: nm ++ rest) = (s "null", 46 :: nm ++ rest)).
  { apply p_ident_word; [idc|reflexivity]. }
  change (s "null." ++ nm ++ rest) with (s "null" ++ 46 :: nm ++ rest).
  change (s "null" ++ 46 :: nm ++ rest) with (110 :: s "ull" ++ 46 :: nm ++ rest) in *.
  cbn [SpecText.p_val]. change (110 =? 34) with false. cbv iota.
  change (SpecText.is_digit 110) with false. change (SpecText.is_id_start 110) with true. cbv iota.
  change (110 =? 39) with false. change (110 =? 123) with false. change (110 =? 91) with false. change (110 =? 40) with false.
  change (110 =? 45) with false. change (110 =? 43) with false. cbv iota.
  rewrite Hp. change (tok_is (s "null") "null") with true. cbv iota.
  rewrite (p_ident_word nm rest Hn Hs), Ht. reflexivity.
Qed.

Lemma text_null_shape t : 1 <= t <= 13 ->
  exists nm, nth (N.to_nat t) text_nulls [] = s "null." ++ nm /\ ident_chars nm /\ SpecText.type_code nm = Some t.
Proof.
  intros H.
  assert (E : t = 1 \/ t = 2 \/ t = 3 \/ t = 4 \/ t = 5 \/ t = 6 \/ t = 7 \/ t = 8 \/ t = 9 \/ t = 10 \/ t = 11 \/ t = 12 \/ t = 13) by lia.
  clear H.
  destruct E as [->|[->|[->|[->|[->|[->|[->|[->|[->|[->|[->|[->| ->]]]]]]]]]]]];
    match goal with |- exists nm, nth (N.to_nat ?k) _ _ = _ /\ _ => exists (tn_of k) end;
    (split; [vm_compute; reflexivity|split; [idc|vm_compute; reflexivity]]).
Qed.

Lemma p_val_pinf f sx anns rest : spec_stop SpecText.is_id_part rest ->
  p_val (S f) sctx sx anns (s "+inf" ++ rest) = Some (mk_ann anns (VFloat inf_bits), rest).
Proof.
  intros Hs. change (s "+inf" ++ rest) with (43 :: 105 :: 110 :: 102 :: rest). cbn [SpecText.p_val].
  change (43 =? 34) with false. cbv iota.
  replace (SpecText.after_inf rest) with true; [reflexivity|].
  destruct rest as [|c r]; [reflexivity|]. cbn [spec_stop] in Hs. cbn [SpecText.after_inf]. now rewrite Hs.
Qed.
Lemma p_val_ninf f sx anns rest : spec_stop SpecText.is_id_part rest ->
  p_val (S f) sctx sx anns (s "-inf" ++ rest) = Some (mk_ann anns (VFloat neg_inf_bits), rest).
Proof.
  intros Hs. change (s "-inf" ++ rest) with (45 :: 105 :: 110 :: 102 :: rest). cbn [SpecText.p_val].
  change (45 =? 34) with false. cbv iota.
  replace (SpecText.after_inf rest) with true; [reflexivity|].
  destruct rest as [|c r]; [reflexivity|]. cbn [spec_stop] in Hs. cbn [SpecText.after_inf]. now rewrite Hs.
Qed.

(* ---- a symbol token: value, annotation, field name ------------------------------------------------------------------------ *)
Lemma soa_val f sx anns y r : wfollow r -> soa f sx anns y r = Some (mk_ann anns (VSymbol y), r).
Proof.
  intros (_ & _ & _ & r' & E & H). unfold soa. rewrite E.
  exact (match_colons r' (fun r2 => match SpecText.skip_ws r2 with Some r3 => p_val f sctx sx (anns ++ [y]) r3 | None => None end) _ H).
Qed.
Lemma soa_ann f sx anns y c X : vstart c -> soa f sx anns y (58 :: 58 :: c :: X) = p_val f sctx sx (anns ++ [y]) (c :: X).
Proof.
  intros Hv. unfold soa. change (SpecText.skip_ws (58 :: 58 :: c :: X)) with (Some (58 :: 58 :: c :: X)). cbv iota.
  rewrite (skip_ws_vstart c X Hv). reflexivity.
Qed.

Lemma ubody_head q w t : ubody q w t -> q < 128 -> q <> 92 -> w = [] \/ hd 0 w <> q.
Proof.
  intros H Hq Hq2. destruct H as [|c w t Hc Hr _|c bs w t Hc _ _|e cp w t _ _|nl w t _ _]; [now left| | | |]; right; cbn [hd]; try lia.
  destruct Hr as (H & _). exact H.
Qed.

Definition stail (tail : list N) : Prop := spec_stop SpecText.is_id_part tail /\ hd 0 tail <> 39.
Lemma stail_colons X : stail (58 :: 58 :: X).
Proof. split; [reflexivity|cbn [hd]; lia]. Qed.
Lemma stail_colon X : stail (58 :: X).
Proof. split; [reflexivity|cbn [hd]; lia]. Qed.
Lemma wfollow_stail r : wfollow r -> stail r.
Proof. intros (_ & A & B & _). split; assumption. Qed.

Lemma not_two_quotes body text tail : ubody 39 body text -> hd 0 tail <> 39 -> forall r2, body ++ 39 :: tail <> 39 :: 39 :: r2.
Proof.
  intros Hb Ht r2 E. destruct (ubody_head 39 body text Hb ltac:(lia) ltac:(lia)) as [->|Hh].
  - cbn [app] in E. injection E as E'. subst tail. cbn [hd] in Ht. contradiction.
  - destruct body as [|c b]; cbn [app hd] in *; [injection E as E'; subst tail; cbn [hd] in Ht; contradiction|].
    inversion E. subst. contradiction.
Qed.

Lemma p_val_sym f sx anns y tail : sym_spec y -> stail tail -> (length (wsym y) <= f)%nat ->
  p_val (S f) sctx sx anns (wsym y ++ tail) = soa f sx anns (csym y) tail.
Proof.
  intros Hy [Hs H39] Hf. destruct Hy as [Hid Hkw Hy _|body text E Hb Hy].
  - pose proof (p_ident_word _ tail Hid Hs) as Hp. destruct Hid as [c r Hc Hr]. cbn [app] in *.
    exact (p_val_ident f sx anns c (r ++ tail) _ tail (csym y) Hc Hp Hkw Hy).
  - rewrite E, Hy. cbn [app]. rewrite <- app_assoc. cbn [app].
    rewrite (p_val_qsym f sx anns _ (not_two_quotes body text tail Hb H39)).
    rewrite (p_quoted_ubody 39 body text Hb ltac:(lia) ltac:(lia) ltac:(lia) f [] tail); [reflexivity|].
    rewrite E in Hf. cbn [length] in Hf. rewrite app_length in Hf. lia.
Qed.

Lemma wsym_vstart y tail : sym_spec y -> stail tail -> tstart (wsym y ++ tail).
Proof.
  intros Hy [Hs _]. destruct Hy as [Hid Hkw Hy Hv|body text E Hb Hy].
  - pose proof (p_ident_word _ tail Hid Hs) as Hp. destruct Hid as [c r Hc Hr]. cbn [app] in *.
    exists c, (r ++ tail). split; [reflexivity|]. split; [exact (proj2 (proj2 (proj2 (proj2 (proj2 (proj2 (proj2 (proj2 (proj2 (id_start_spec c Hc))))))))))|].
    unfold first_tok_ok. rewrite Hp. exact Hv.
  - rewrite E. cbn [app]. apply tstart_char; [unfold vstart, nows, SpecText.is_ws, SpecText.in_rng; lia|lia].
Qed.

(* the annotations in front of a value *)
Lemma p_val_anns pa : Forall wf_sym pa -> forall fuel sx anns core rest,
  (length (ann_bytes pa ++ core) < fuel)%nat -> tstart (core ++ rest) ->
  exists fuel', (length core < fuel')%nat /\
    p_val fuel sctx sx anns (ann_bytes pa ++ core ++ rest) = p_val fuel' sctx sx (anns ++ map csym pa) (core ++ rest).
Proof.
  induction 1 as [|y pa Hy Hpa IH]; intros fuel sx anns core rest Hf Hb.
  - exists fuel. cbn [ann_bytes flat_map app map] in *. rewrite app_nil_r. split; [exact Hf|reflexivity].
  - cbn [ann_bytes flat_map map] in *. fold (ann_bytes pa) in *.
    destruct fuel as [|f]; [lia|].
    assert (Hts : tstart (ann_bytes pa ++ core ++ rest)).
    { destruct Hpa as [|y2 pa2 Hy2 _]; [exact Hb|]. cbn [ann_bytes flat_map]. rewrite <- !app_assoc. cbn [app].
      apply wsym_vstart; [now apply sym_spec_wf|apply stail_colons]. }
    replace (((wsym y ++ [58; 58]) ++ ann_bytes pa) ++ core ++ rest) with (wsym y ++ 58 :: 58 :: ann_bytes pa ++ core ++ rest)
      by (rewrite <- !app_assoc; reflexivity).
    rewrite (p_val_sym f sx anns y _ (sym_spec_wf y Hy) (stail_colons _)) by (rewrite !app_length in Hf; lia).
    destruct Hts as (c & r & E & Hv & _). rewrite E. rewrite (soa_ann f sx anns (csym y) c r Hv). rewrite <- E.
    destruct (IH f sx (anns ++ [csym y]) core rest) as (fuel' & Hf' & Ep).
    + rewrite !app_length in Hf. cbn [length] in Hf. rewrite !app_length in *. lia.
    + exact Hb.
    + exists fuel'. split; [exact Hf'|]. rewrite Ep. rewrite <- app_assoc. reflexivity.
Qed.

(* field names *)
Lemma p_field_name_id k c r : c <> 34 -> c <> 39 ->
  SpecText.p_field_name k sctx (c :: r) =
  if SpecText.is_id_start c then
    let '(t, r') := SpecText.p_ident (c :: r) in
    if SpecText.is_keyword t then None
    else match SpecText.ident_symbol sctx t with Some y => Some (y, r') | None => None end
  else None.
Proof.
  intros H1 H2. destruct c as [|p]; [reflexivity|]. do 6 (try (destruct p as [p|p|]; try reflexivity)); contradiction.
Qed.
Lemma p_field_name_q k r : (forall r2, r <> 39 :: 39 :: r2) ->
  SpecText.p_field_name k sctx (39 :: r) =
  match SpecText.p_quoted k 39 false r [] with Some (t, r') => Some (SymText t, r') | None => None end.
Proof.
  intros H. unfold SpecText.p_field_name.
  exact (match_quotes r (fun r0 => match SpecText.p_long_seq k false r0 [] with Some (t, r') => Some (SymText t, r') | None => None end) _ H).
Qed.
Lemma p_field_name_sym k y X : sym_spec y -> (length (wsym y) <= k)%nat ->
  SpecText.p_field_name k sctx (wsym y ++ 58 :: X) = Some (csym y, 58 :: X).
Proof.
  intros Hy Hk. destruct Hy as [Hid Hkw Hy _|body text E Hb Hy].
  - pose proof (p_ident_word _ (58 :: X) Hid eq_refl) as Hp. destruct Hid as [c r Hc Hr]. cbn [app] in *.
    destruct (id_start_spec c Hc) as (H1 & _ & H34 & H39 & _).
    rewrite (p_field_name_id k c _ H34 H39), H1, Hp, Hkw, Hy. reflexivity.
  - rewrite E, Hy. cbn [app]. rewrite <- app_assoc. cbn [app].
    rewrite (p_field_name_q k _ (not_two_quotes body text (58 :: X) Hb ltac:(cbn [hd]; lia))).
    rewrite (p_quoted_ubody 39 body text Hb ltac:(lia) ltac:(lia) ltac:(lia) k [] (58 :: X)); [reflexivity|].
    rewrite E in Hk. cbn [length] in Hk. rewrite app_length in Hk. lia.
Qed.

(* ---- numbers and timestamps through p_val ---------------------------------------------------------------------------------- *)
Lemma p_val_num f sx anns n rest : num_wf n -> SpecText.num_end rest = true ->
  p_val (S f) sctx sx anns (num_text n ++ rest) = Some (mk_ann anns (spec_num n), rest).
Proof.
  intros Hwf Hr. pose proof (p_number_spelling n rest Hwf Hr) as Hp.
  destruct (num_text_first n rest Hwf) as (c & r & E & [Hc|(-> & d & r' & -> & Hd)]); rewrite E in *.
  - rewrite (p_val_digit f sx anns c r Hc), Hp. reflexivity.
  - rewrite (p_val_minus f sx anns d r' Hd), Hp. reflexivity.
Qed.

Lemma p_number_ts c r : is_dec_b c = true -> SpecText.looks_like_timestamp (c :: r) = true ->
  SpecText.p_number (c :: r) = SpecText.p_timestamp (c :: r).
Proof.
  intros Hc Hl. unfold SpecText.p_number.
  destruct (dec_cases c Hc) as [->|H];
    [|repeat (destruct H as [->|H]; [cbv beta iota; cbn [negb andb]; rewrite Hl; reflexivity|]); subst c;
      cbv beta iota; cbn [negb andb]; rewrite Hl; reflexivity].
  cbv beta iota. destruct r as [|x r']; [discriminate Hl|].
  assert (Hx : is_dec_b x = true).
  { unfold SpecText.looks_like_timestamp in Hl. destruct r' as [|a [|b [|e r2]]]; try discriminate Hl.
    unfold SpecText.is_digit, SpecText.in_rng, is_dec_b in *. lia. }
  unfold is_dec_b in Hx.
  replace ((x =? 120) || (x =? 88)) with false by lia. replace ((x =? 98) || (x =? 66)) with false by lia.
  cbn [negb andb]. rewrite Hl. reflexivity.
Qed.
Lemma p_val_ts f sx anns sh rest : ts_ok sh = true -> SpecText.num_end rest = true ->
  p_val (S f) sctx sx anns (ts_text sh ++ rest) = Some (mk_ann anns (spec_value sh), rest).
Proof.
  intros Hok Hr. pose proof (spec_timestamp_spelling sh rest Hok Hr) as Hp.
  pose proof (looks_like_timestamp_spelling sh rest (ts_ok_fits sh Hok)) as Hl.
  destruct (ts_text sh ++ rest) as [|c r] eqn:E; [discriminate Hl|].
  assert (Hc : is_dec_b c = true).
  { unfold SpecText.looks_like_timestamp in Hl. destruct r as [|a [|b [|d [|e r2]]]]; try discriminate Hl.
    unfold SpecText.is_digit, SpecText.in_rng, is_dec_b in *. lia. }
  rewrite (p_val_digit f sx anns c r Hc), (p_number_ts c r Hc Hl), Hp. reflexivity.
Qed.

(* ---- every scalar -------------------------------------------------------------------------------------------------------------- *)
Section Agree.
Variable F : formats.

Lemma int_spec z : spec_num (int_numsp z) = VInt z.
Proof.
  rewrite spec_num_int by reflexivity. unfold int_numsp. cbn [n_neg n_ip]. f_equal.
  unfold digits_value. rewrite fold_val_digits by apply all_digits_dec_of_N. rewrite val_dec_of_N.
  unfold SpellNum.sgn. destruct (Z.ltb_spec z 0); lia.
Qed.

Lemma num_text_fp_len n : num_wf n -> (length (n_fw n) <= length (num_text n))%nat.
Proof.
  intros (_ & _ & Hf & _). unfold num_text. destruct (n_dot n).
  - rewrite !app_length. cbn [length]. lia.
  - destruct Hf as [-> _]. cbn [length]. lia.
Qed.

Lemma scalar_spec v : is_scalar v -> wf_scalar F v -> spec_fmt F v -> forall f sx anns rest,
  wfollow rest -> (length (scalar_bytes F v) <= f)%nat ->
  p_val (S f) sctx sx anns (scalar_bytes F v ++ rest) = Some (canon_a anns v, rest).
Proof.
  intros Hs Hw Hsf f sx anns rest Hfol Hlen. pose proof Hfol as (Hne & Hst & H39 & _).
  destruct v; try contradiction; cbn [scalar_bytes wf_scalar spec_fmt canon_a] in *.
  - destruct (text_null_shape t Hw) as (nm & -> & Hid & Hty). rewrite <- app_assoc. now apply p_val_null.
  - destruct b.
    + apply (p_val_kw f sx anns (s "true") (VBool true) rest); [idc|exact Hst|reflexivity|reflexivity].
    + apply (p_val_kw f sx anns (s "false") (VBool false) rest); [idc|exact Hst|reflexivity|reflexivity].
  - rewrite <- int_numsp_text, <- int_spec. apply p_val_num; [apply int_numsp_wf|exact Hne].
  - unfold format_float, cfloat in *. destruct (f64_is_nan bits) eqn:En.
    + apply (p_val_kw f sx anns (s "nan") (VFloat canonical_nan64) rest); [idc|exact Hst|reflexivity|reflexivity].
    + destruct (f64_is_inf bits) eqn:Ei.
      * destruct (f64_sign bits =? 0); [now apply p_val_pinf|now apply p_val_ninf].
      * destruct Hsf as [Hx|[Hx|(n & Hp & Hk & Et & Hv)]]; try discriminate.
        unfold format_float in Et. rewrite En, Ei in Et. rewrite Et.
        rewrite <- Hv, <- (spec_num_float n Hk). apply p_val_num; [apply Hp|exact Hne].
  - destruct Hw as ((n & Hp & Hk & Et) & Hpd). rewrite Et in *.
    assert (Hd : d = dec_denotes n).
    { apply (pd_ok_denotes n d (proj1 Hp) Hk); [|now rewrite (plain_num_plain n Hp)].
      unfold dec_len_ok in Hsf. rewrite Et in Hsf. pose proof (num_text_fp_len n (proj1 Hp)) as Hl.
      destruct Hp as (_ & _ & <-). lia. }
    rewrite Hd, <- (spec_num_dec n Hk). apply p_val_num; [apply Hp|exact Hne].
  - destruct Hw as (sh & Hok & Et & Hv). rewrite Et, <- Hv. now apply p_val_ts.
  - pose proof (sym_spec_wf y Hw) as Hy.
    rewrite (p_val_sym f sx anns y rest Hy (wfollow_stail rest Hfol) Hlen). now apply soa_val.
  - destruct Hw as [Hb Hu]. cbn [app]. rewrite <- app_assoc. cbn [app]. rewrite p_val_string.
    rewrite (p_quoted_ubody 34 _ t (string_ubody t Hb Hu) ltac:(lia) ltac:(lia) ltac:(lia) f [] rest); [reflexivity|].
    cbn [length] in Hlen. rewrite app_length in Hlen. lia.
  - cbn [app]. rewrite <- app_assoc. cbn [app]. rewrite p_val_lob.
    rewrite (p_lob_clob _ b f rest (clob_cbody b Hw)); [reflexivity|].
    cbn [length app] in Hlen. rewrite app_length in Hlen. lia.
  - cbn [app]. rewrite <- app_assoc. cbn [app]. rewrite p_val_lob. rewrite blob_body_concat.
    pose proof (b64_encode_text (length b) b (le_n _) Hw) as Ht.
    rewrite (p_lob_blob _ b f rest (b64_text_blob_bytes _ _ Ht) Ht). reflexivity.
Qed.

(* ---- how the text of a value begins ------------------------------------------------------------------------------------------- *)
Lemma vstart_of c : SpecText.is_ws c = false -> c <> 47 -> c <> 58 -> c <> 93 -> c <> 41 -> c <> 125 -> c <> 44 -> vstart c.
Proof. unfold vstart, nows. tauto. Qed.
Ltac vst := apply vstart_of; [reflexivity|discriminate..].

Lemma digit_vstart c : is_dec_b c = true -> vstart c /\ c <> 36.
Proof. unfold is_dec_b, vstart, nows, SpecText.is_ws, SpecText.in_rng. lia. Qed.

Lemma num_tstart n rest : num_wf n -> tstart (num_text n ++ rest).
Proof.
  intros Hwf. destruct (num_text_first n rest Hwf) as (c & r & -> & [Hc|(-> & _)]).
  - destruct (digit_vstart c Hc). now apply tstart_char.
  - apply tstart_char; [vst|discriminate].
Qed.

Lemma scalar_tstart v rest : is_scalar v -> wf_scalar F v -> wfollow rest -> tstart (scalar_bytes F v ++ rest).
Proof.
  intros Hs Hw Hfol. destruct v; try contradiction; cbn [scalar_bytes wf_scalar] in *.
  - destruct (text_null_shape t Hw) as (nm & -> & _). apply tstart_char; [vst|discriminate].
  - destruct b; (apply tstart_char; [vst|discriminate]).
  - rewrite <- int_numsp_text. apply num_tstart, int_numsp_wf.
  - unfold format_float in *. destruct (f64_is_nan bits) eqn:En; [apply tstart_char; [vst|discriminate]|].
    destruct (f64_is_inf bits) eqn:Ei; [destruct (f64_sign bits =? 0); (apply tstart_char; [vst|discriminate])|].
    destruct Hw as [Hx|[Hx|(n & Hp & Hk & Et)]]; try discriminate.
    unfold format_float in Et. rewrite En, Ei in Et. rewrite Et. apply num_tstart, Hp.
  - destruct Hw as ((n & Hp & Hk & Et) & _). rewrite Et. apply num_tstart, Hp.
  - destruct Hw as (sh & Hok & Et & _). rewrite Et.
    pose proof (looks_like_timestamp_spelling sh rest (ts_ok_fits sh Hok)) as Hl.
    destruct (ts_text sh ++ rest) as [|c r] eqn:E; [discriminate Hl|].
    assert (Hc : is_dec_b c = true).
    { unfold SpecText.looks_like_timestamp in Hl. destruct r as [|a [|b [|d [|e r2]]]]; try discriminate Hl.
      unfold SpecText.is_digit, SpecText.in_rng, is_dec_b in *. lia. }
    destruct (digit_vstart c Hc). now apply tstart_char.
  - apply wsym_vstart; [now apply sym_spec_wf|now apply wfollow_stail].
  - cbn [app]. apply tstart_char; [vst|discriminate].
  - cbn [app]. apply tstart_char; [vst|discriminate].
  - cbn [app]. apply tstart_char; [vst|discriminate].
Qed.

Lemma ann_bytes_app a b : ann_bytes (a ++ b) = ann_bytes a ++ ann_bytes b.
Proof. unfold ann_bytes. now rewrite flat_map_app. Qed.
Lemma wt_pa v : forall pa, wt F pa v = ann_bytes pa ++ wt F [] v.
Proof.
  induction v as [v Hsc|l IH|l IH|fs IH|a0 x IH] using value_ind'; intros pa; try reflexivity.
  - destruct v; try contradiction; reflexivity.
  - cbn [wt app]. rewrite (IH (pa ++ a0)), (IH a0), ann_bytes_app, <- app_assoc. reflexivity.
Qed.

Lemma wt_tstart v : wf_value F v -> forall pa rest, Forall wf_sym pa -> wfollow rest -> tstart (wt F pa v ++ rest).
Proof.
  induction v as [v Hsc|l IH|l IH|fs IH|a0 x IH] using value_ind'; intros Hw pa rest Hpa Hfol;
    (destruct pa as [|y pa'];
     [|rewrite wt_pa; cbn [ann_bytes flat_map]; rewrite <- !app_assoc; cbn [app];
       inversion Hpa; subst; apply wsym_vstart; [now apply sym_spec_wf|apply stail_colons]]).
  - rewrite (wt_scalar F [] v Hsc). cbn [ann_bytes flat_map app].
    apply scalar_tstart; auto. destruct v; try contradiction; exact Hw.
  - cbn [wt ann_bytes flat_map app]. apply tstart_char; [vst|discriminate].
  - cbn [wt ann_bytes flat_map app]. apply tstart_char; [vst|discriminate].
  - cbn [wt ann_bytes flat_map app]. apply tstart_char; [vst|discriminate].
  - destruct Hw as [Ha Hx]. cbn [wt app]. apply IH; auto.
Qed.

Ltac len := repeat first [rewrite app_length in * | progress cbn [length] in *]; lia.

(* ---- containers ------------------------------------------------------------------------------------------------------------------ *)
Definition Pv (v : value) : Prop :=
  wf_value F v -> spec_fmt F v -> forall pa, Forall wf_sym pa ->
  forall fuel sx anns rest, wfollow rest -> (length (wt F pa v) < fuel)%nat ->
  p_val fuel sctx sx anns (wt F pa v ++ rest) = Some (canon_a (anns ++ map csym pa) v, rest).

Lemma p_list_items_step pv k c l : c <> 93 -> nows c ->
  SpecText.p_list_items pv (S k) (c :: l) =
  match pv (c :: l) with
  | Some (v, r1) =>
    match SpecText.skip_ws r1 with
    | Some (44 :: r2) => match SpecText.p_list_items pv k r2 with Some (vs, r3) => Some (v :: vs, r3) | None => None end
    | Some (93 :: r2) => Some ([v], r2)
    | _ => None
    end
  | None => None
  end.
Proof.
  intros H Hn. cbn [SpecText.p_list_items]. rewrite (skip_ws_nows c l Hn).
  destruct c as [|p]; [reflexivity|]. do 7 (try (destruct p as [p|p|]; try reflexivity)). contradiction.
Qed.
Lemma p_sexp_items_step pv k c l : c <> 41 -> nows c ->
  SpecText.p_sexp_items pv (S k) (c :: l) =
  match pv (c :: l) with
  | Some (v, r1) => match SpecText.p_sexp_items pv k r1 with Some (vs, r2) => Some (v :: vs, r2) | None => None end
  | None => None
  end.
Proof.
  intros H Hn. cbn [SpecText.p_sexp_items]. rewrite (skip_ws_nows c l Hn).
  destruct c as [|p]; [reflexivity|]. do 6 (try (destruct p as [p|p|]; try reflexivity)). contradiction.
Qed.
Lemma p_sexp_items_sp pv k T : SpecText.p_sexp_items pv k (32 :: T) = SpecText.p_sexp_items pv k T.
Proof. destruct k; reflexivity. Qed.
Lemma p_fields_step pv pname k c l y c2 T v r5 (comma : bool) : c <> 125 -> nows c ->
  pname (c :: l) = Some (y, 58 :: c2 :: T) -> nows c2 -> pv (c2 :: T) = Some (v, (if comma then 44 else 125) :: r5) ->
  SpecText.p_fields pv pname (S k) (c :: l) =
  if comma then match SpecText.p_fields pv pname k r5 with Some (fs, r6) => Some ((y, v) :: fs, r6) | None => None end
  else Some ([(y, v)], r5).
Proof.
  intros H Hn Hp Hn2 Hv. cbn [SpecText.p_fields]. rewrite (skip_ws_nows c l Hn).
  assert (E : forall A (a : list N -> A) (b : A), match c :: l with 125 :: r => a r | _ => b end = b).
  { intros A a b. destruct c as [|p]; [reflexivity|]. do 7 (try (destruct p as [p|p|]; try reflexivity)). contradiction. }
  destruct c as [|p]; [|do 7 (try (destruct p as [p|p|]))]; try contradiction;
    rewrite Hp; change (SpecText.skip_ws (58 :: c2 :: T)) with (Some (58 :: c2 :: T)); cbv iota;
    rewrite (skip_ws_nows c2 T Hn2), Hv; destruct comma; reflexivity.
Qed.

Definition sf_list (l : list value) : Prop := spec_fmt F (VList l).
Definition sf_fields (fs : list (symv * value)) : Prop := spec_fmt F (VStruct fs).
Definition itexts (l : list value) : list (list N) := map (wt F []) l.
Definition ftexts (fs : list (symv * value)) : list (list N) := map (fun '(n, x) => wsym n ++ [58] ++ wt F [] x) fs.

Ltac asc := unfold itexts, ftexts; repeat first [rewrite <- app_assoc | progress cbn [app]]; reflexivity.

Lemma Pv_inner x f sx tail : Pv x -> wf_value F x -> spec_fmt F x -> wfollow tail -> (length (wt F [] x) < f)%nat ->
  p_val f sctx sx [] (wt F [] x ++ tail) = Some (canon x, tail).
Proof. intros HP Hw Hs Hfol Hl. exact (HP Hw Hs [] (Forall_nil _) f sx [] tail Hfol Hl). Qed.

Lemma list_items_spec f rest : forall r, Forall Pv r -> wf_list F r -> sf_list r ->
  forall x k, Pv x -> wf_value F x -> spec_fmt F x ->
  (length (wt F [] x ++ items [44%N] true (itexts r)) < f)%nat -> (length r <= k)%nat ->
  SpecText.p_list_items (p_val f sctx false []) (S k) (wt F [] x ++ items [44] true (itexts r) ++ 93 :: rest)
  = Some (canon x :: map canon r, rest).
Proof.
  induction 1 as [|y r Hy Hr IH]; intros Hw Hs x k Hx Hwx Hsx Hlen Hk.
  - cbn [itexts map items app] in *. rewrite app_nil_r in Hlen.
    assert (Hfol : wfollow (93 :: rest)) by (apply wfollow_close; lia).
    destruct (wt_tstart x Hwx [] _ (Forall_nil _) Hfol) as (c & l & E & (Hn & _ & H93 & _) & _).
    rewrite E, (p_list_items_step _ k c l H93 Hn), <- E, (Pv_inner x f false _ Hx Hwx Hsx Hfol Hlen). reflexivity.
  - destruct Hw as [Hwy Hwr]. destruct Hs as [Hsy Hsr]. cbn [itexts map items] in *. fold (itexts r) in *.
    rewrite <- ?app_assoc. cbn [app]. rewrite <- ?app_assoc.
    set (tail := 44 :: wt F [] y ++ items [44] true (itexts r) ++ 93 :: rest).
    assert (Hfol : wfollow tail) by (apply wfollow_close; lia).
    destruct (wt_tstart x Hwx [] tail (Forall_nil _) Hfol) as (c & l & E & (Hn & _ & H93 & _) & _).
    destruct k as [|k]; [cbn [length] in Hk; lia|].
    rewrite E, (p_list_items_step _ (S k) c l H93 Hn), <- E.
    rewrite (Pv_inner x f false tail Hx Hwx Hsx Hfol) by (rewrite !app_length in Hlen; lia).
    unfold tail. change (SpecText.skip_ws (44 :: ?t)) with (Some (44 :: t)). cbv iota.
    rewrite (IH Hwr Hsr y k Hy Hwy Hsy); [reflexivity| |cbn [length] in Hk; lia].
    len.
Qed.

Lemma sexp_tail_follow rest : forall r, wf_list F r -> wfollow (items [32] true (itexts r) ++ 41 :: rest).
Proof.
  induction r as [|y r IH]; intros Hw; cbn [itexts map items app].
  - apply wfollow_close. lia.
  - destruct Hw as [Hwy Hwr]. fold (itexts r). rewrite <- app_assoc. apply wfollow_ws; [now left|right].
    apply wt_tstart; [exact Hwy|constructor|exact (IH Hwr)].
Qed.

Lemma sexp_items_spec f rest : forall r, Forall Pv r -> wf_list F r -> sf_list r ->
  forall x k, Pv x -> wf_value F x -> spec_fmt F x ->
  (length (wt F [] x ++ items [32%N] true (itexts r)) < f)%nat -> (length r < k)%nat ->
  SpecText.p_sexp_items (p_val f sctx true []) (S k) (wt F [] x ++ items [32] true (itexts r) ++ 41 :: rest)
  = Some (canon x :: map canon r, rest).
Proof.
  induction 1 as [|y r Hy Hr IH]; intros Hw Hs x k Hx Hwx Hsx Hlen Hk.
  - cbn [itexts map items app] in *. rewrite app_nil_r in Hlen.
    assert (Hfol : wfollow (41 :: rest)) by (apply wfollow_close; lia).
    destruct (wt_tstart x Hwx [] _ (Forall_nil _) Hfol) as (c & l & E & (Hn & _ & _ & H41 & _) & _).
    rewrite E, (p_sexp_items_step _ k c l H41 Hn), <- E, (Pv_inner x f true _ Hx Hwx Hsx Hfol Hlen).
    destruct k as [|k]; [cbn [length] in Hk; lia|]. reflexivity.
  - destruct Hw as [Hwy Hwr]. destruct Hs as [Hsy Hsr]. cbn [itexts map items] in *. fold (itexts r) in *.
    rewrite <- ?app_assoc. cbn [app]. rewrite <- ?app_assoc.
    set (tl := wt F [] y ++ items [32] true (itexts r) ++ 41 :: rest).
    assert (Hts : tstart tl).
    { unfold tl. apply wt_tstart; [exact Hwy|constructor|now apply sexp_tail_follow]. }
    assert (Hfol : wfollow (32 :: tl)) by (apply wfollow_ws; [now left|now right]).
    destruct (wt_tstart x Hwx [] (32 :: tl) (Forall_nil _) Hfol) as (c & l & E & (Hn & _ & _ & H41 & _) & _).
    destruct k as [|k]; [cbn [length] in Hk; lia|].
    rewrite E, (p_sexp_items_step _ (S k) c l H41 Hn), <- E.
    rewrite (Pv_inner x f true (32 :: tl) Hx Hwx Hsx Hfol) by (rewrite !app_length in Hlen; lia).
    rewrite p_sexp_items_sp. unfold tl.
    rewrite (IH Hwr Hsr y k Hy Hwy Hsy); [reflexivity| |cbn [length] in Hk; lia].
    len.
Qed.

Lemma wsym_not_brace y tail : sym_spec y -> hd 0 (wsym y ++ tail) <> 123.
Proof.
  intros [Hid _ _ _|body text E _ _].
  - destruct Hid as [c r Hc _]. cbn [app hd]. unfold id_start, letter in Hc. lia.
  - rewrite E. cbn [app hd]. lia.
Qed.

Definition cfield (p : symv * value) : symv * value := let '(n, x) := p in (csym n, canon x).

Lemma fields_spec f rest : forall fs, Forall (fun p => Pv (snd p)) fs -> wf_fields F fs -> sf_fields fs ->
  forall n x k, wf_sym n -> Pv x -> wf_value F x -> spec_fmt F x ->
  (length (wsym n ++ [58%N] ++ wt F [] x ++ items [44%N] true (ftexts fs)) < f)%nat -> (length fs <= k)%nat ->
  SpecText.p_fields (p_val f sctx false []) (SpecText.p_field_name f sctx) (S k)
    (wsym n ++ 58 :: wt F [] x ++ items [44] true (ftexts fs) ++ 125 :: rest)
  = Some ((csym n, canon x) :: map cfield fs, rest).
Proof.
  induction 1 as [|[n' x'] fs Hy Hr IH]; intros Hw Hs n x k Hn Hx Hwx Hsx Hlen Hk.
  - cbn [ftexts map items app] in *. rewrite app_nil_r in Hlen.
    assert (Hfol : wfollow (125 :: rest)) by (apply wfollow_close; lia).
    destruct (wt_tstart x Hwx [] _ (Forall_nil _) Hfol) as (c2 & T & E2 & (Hn2 & _) & _).
    destruct (wsym_vstart n (58 :: wt F [] x ++ 125 :: rest) (sym_spec_wf n Hn) (stail_colon _))
      as (c & l & E & (Hnc & _ & _ & _ & H125 & _) & _).
    pose proof (p_field_name_sym f n (wt F [] x ++ 125 :: rest) (sym_spec_wf n Hn) ltac:(len)) as Hp.
    pose proof (Pv_inner x f false _ Hx Hwx Hsx Hfol ltac:(len)) as Hv.
    rewrite E in *. rewrite E2 in *.
    exact (p_fields_step _ _ k c l (csym n) c2 T (canon x) rest false H125 Hnc Hp Hn2 Hv).
  - destruct Hw as (Hwn' & Hwy & Hwr). destruct Hs as [Hsy Hsr]. cbn [snd] in Hy.
    cbn [ftexts map items] in *. fold (ftexts fs) in *.
    rewrite <- ?app_assoc. cbn [app]. rewrite <- ?app_assoc. cbn [app].
    set (tl := wsym n' ++ 58 :: wt F [] x' ++ items [44] true (ftexts fs) ++ 125 :: rest).
    assert (Hfol : wfollow (44 :: tl)) by (apply wfollow_close; lia).
    destruct (wt_tstart x Hwx [] _ (Forall_nil _) Hfol) as (c2 & T & E2 & (Hn2 & _) & _).
    destruct (wsym_vstart n (58 :: wt F [] x ++ 44 :: tl) (sym_spec_wf n Hn) (stail_colon _))
      as (c & l & E & (Hnc & _ & _ & _ & H125 & _) & _).
    pose proof (p_field_name_sym f n (wt F [] x ++ 44 :: tl) (sym_spec_wf n Hn) ltac:(len)) as Hp.
    pose proof (Pv_inner x f false _ Hx Hwx Hsx Hfol ltac:(len)) as Hv.
    destruct k as [|k]; [cbn [length] in Hk; lia|].
    rewrite E in *. rewrite E2 in *.
    rewrite (p_fields_step _ _ (S k) c l (csym n) c2 T (canon x) tl true H125 Hnc Hp Hn2 Hv).
    unfold tl. rewrite (IH Hwr Hsr n' x' k Hwn' Hy Hwy Hsy); [reflexivity| |cbn [length] in Hk; lia].
    clear - Hlen. len.
Qed.

(* ---- every value ------------------------------------------------------------------------------------------------------------------ *)
Lemma canon_map l : map canon l = map (canon_a []) l.
Proof. reflexivity. Qed.

Theorem value_spec v : Pv v.
Proof.
  induction v as [v Hsc|l IH|l IH|fs IH|a0 x IH] using value_ind'; intros Hw Hs pa Hpa fuel sx anns rest Hfol Hlen.
  - assert (Hws : wf_scalar F v) by (destruct v; try contradiction; exact Hw).
    rewrite (wt_scalar F pa v Hsc) in *. rewrite <- app_assoc.
    destruct (p_val_anns pa Hpa fuel sx anns (scalar_bytes F v) rest Hlen (scalar_tstart v rest Hsc Hws Hfol)) as (f' & Hf' & ->).
    destruct f' as [|f']; [lia|]. apply scalar_spec; auto. lia.
  - rewrite wf_list_eq in Hw. cbn [wt canon_a] in *.
    replace ((ann_bytes pa ++ [91] ++ items [44] false (map (wt F []) l) ++ [93]) ++ rest)
      with (ann_bytes pa ++ (91 :: items [44] false (itexts l) ++ [93]) ++ rest) by asc.
    destruct (p_val_anns pa Hpa fuel sx anns (91 :: items [44] false (itexts l) ++ [93]) rest Hlen
                ltac:(cbn [app]; apply tstart_char; [vst|discriminate])) as (f' & Hf' & ->).
    destruct f' as [|f']; [lia|]. cbn [app]. rewrite <- app_assoc. cbn [app]. rewrite p_val_list.
    destruct l as [|x r].
    + cbn [itexts map items app]. destruct f' as [|f']; [cbn [length app] in Hf'; lia|]. reflexivity.
    + inversion IH as [|? ? Hx Hr]; subst. destruct Hw as [Hwx Hwr]. destruct Hs as [Hsx Hsr].
      cbn [itexts map items app] in *. fold (itexts r) in *. rewrite <- app_assoc.
      destruct f' as [|f']; [cbn [length app] in Hf'; lia|].
      rewrite (list_items_spec (S f') rest r Hr Hwr Hsr x f' Hx Hwx Hsx); [reflexivity|clear - Hf'; len|].
      clear - Hf'. assert (length r <= length (items [44%N] true (itexts r)))%nat.
      { clear. induction r as [|y r IH]; cbn [itexts map items length app]; [lia|]. fold (itexts r). rewrite app_length. lia. }
      len.
  - rewrite wf_sexp_eq in Hw. cbn [wt canon_a] in *.
    replace ((ann_bytes pa ++ [40] ++ items [32] false (map (wt F []) l) ++ [41]) ++ rest)
      with (ann_bytes pa ++ (40 :: items [32] false (itexts l) ++ [41]) ++ rest) by asc.
    destruct (p_val_anns pa Hpa fuel sx anns (40 :: items [32] false (itexts l) ++ [41]) rest Hlen
                ltac:(cbn [app]; apply tstart_char; [vst|discriminate])) as (f' & Hf' & ->).
    destruct f' as [|f']; [lia|]. cbn [app]. rewrite <- app_assoc. cbn [app]. rewrite p_val_sexp.
    destruct l as [|x r].
    + cbn [itexts map items app]. destruct f' as [|f']; [cbn [length app] in Hf'; lia|]. reflexivity.
    + inversion IH as [|? ? Hx Hr]; subst. destruct Hw as [Hwx Hwr]. destruct Hs as [Hsx Hsr].
      cbn [itexts map items app] in *. fold (itexts r) in *. rewrite <- app_assoc.
      destruct f' as [|f']; [cbn [length app] in Hf'; lia|].
      rewrite (sexp_items_spec (S f') rest r Hr Hwr Hsr x f' Hx Hwx Hsx); [reflexivity|clear - Hf'; len|].
      clear - Hf'. assert (length r <= length (items [32%N] true (itexts r)))%nat.
      { clear. induction r as [|y r IH]; cbn [itexts map items length app]; [lia|]. fold (itexts r). rewrite app_length. lia. }
      len.
  - rewrite wf_struct_eq in Hw. cbn [wt canon_a] in *.
    replace ((ann_bytes pa ++ [123] ++ items [44] false (map (fun '(n, x) => wsym n ++ [58] ++ wt F [] x) fs) ++ [125]) ++ rest)
      with (ann_bytes pa ++ (123 :: items [44] false (ftexts fs) ++ [125]) ++ rest) by asc.
    destruct (p_val_anns pa Hpa fuel sx anns (123 :: items [44] false (ftexts fs) ++ [125]) rest Hlen
                ltac:(cbn [app]; apply tstart_char; [vst|discriminate])) as (f' & Hf' & ->).
    destruct f' as [|f']; [lia|]. cbn [app]. rewrite <- app_assoc. cbn [app].
    destruct fs as [|[n x] r].
    + cbn [ftexts map items app]. rewrite p_val_struct by (cbn [hd]; lia).
      destruct f' as [|f']; [cbn [length app] in Hf'; lia|]. reflexivity.
    + inversion IH as [|? ? Hx Hr]; subst. destruct Hw as (Hn & Hwx & Hwr). destruct Hs as [Hsx Hsr]. cbn [snd] in Hx.
      cbn [ftexts map items app] in *. fold (ftexts r) in *. rewrite <- ?app_assoc. cbn [app]. rewrite <- ?app_assoc.
      rewrite p_val_struct by (apply wsym_not_brace; now apply sym_spec_wf).
      destruct f' as [|f']; [cbn [length app] in Hf'; lia|].
      change (map (fun '(n0, x0) => wsym n0 ++ 58 :: wt F [] x0) r) with (ftexts r) in *.
      rewrite (fields_spec (S f') rest r Hr Hwr Hsr n x f' Hn Hx Hwx Hsx); [reflexivity|clear - Hf'; len|].
      clear - Hf'. assert (length r <= length (items [44%N] true (ftexts r)))%nat.
      { clear. unfold ftexts. induction r as [|[n' y] r IH]; cbn [map items length app] in *; [lia|]. rewrite app_length. lia. }
      len.
  - destruct Hw as [Ha Hx]. cbn [wt canon_a spec_fmt] in *.
    rewrite (IH Hx Hs (pa ++ a0) ltac:(apply Forall_app; now split) fuel sx anns rest Hfol Hlen).
    rewrite map_app, app_assoc. reflexivity.
Qed.

(* ---- the top level ------------------------------------------------------------------------------------------------------------------ *)
Lemma rd_csym_text y : wf_sym y -> tk_text (rd_sym y) = match csym y with SymText t => Some t | SymSid _ => None end.
Proof.
  destruct y as [t|n]; cbn [wf_sym rd_sym csym].
  - intros _. destruct (BinWriter.symbol_identifier t); [reflexivity|]. destruct (symbol_needs_quoting t); reflexivity.
  - intros H.
    assert (E : n = 0 \/ n = 1 \/ n = 2 \/ n = 3 \/ n = 4 \/ n = 5 \/ n = 6 \/ n = 7 \/ n = 8 \/ n = 9) by lia. clear H.
    destruct E as [->|[->|[->|[->|[->|[->|[->|[->|[->| ->]]]]]]]]]; vm_compute; reflexivity.
Qed.

Lemma is_lst_mk_ann_other acc v : match v with VStruct _ | VAnn _ _ => False | _ => True end -> is_lst (mk_ann acc v) = None.
Proof. intros H. destruct acc as [|[t|n] acc'], v; try contradiction; reflexivity. Qed.

Lemma not_lst v : wf_value F v -> forall pa, Forall wf_sym pa -> top_ok_ann pa v -> is_lst (canon_a (map csym pa) v) = None.
Proof.
  induction v as [v Hsc|l IH|l IH|fs IH|a0 x IH] using value_ind'; intros Hw pa Hpa Htop.
  - destruct v; try contradiction; cbn [canon_a]; apply is_lst_mk_ann_other; exact I.
  - cbn [canon_a]. apply is_lst_mk_ann_other. exact I.
  - cbn [canon_a]. apply is_lst_mk_ann_other. exact I.
  - cbn [canon_a top_ok_ann] in *. destruct pa as [|y pa']; [reflexivity|]. cbn [map mk_ann is_lst].
    inversion Hpa as [|? ? Hy _]; subst. cbn [map is_ion_symbol_table] in Htop. rewrite (rd_csym_text y Hy) in Htop.
    destruct (csym y) as [t|n]; [|reflexivity]. now rewrite Htop.
  - destruct Hw as [Ha Hx]. cbn [canon_a top_ok_ann] in *. rewrite <- map_app. apply IH; auto. apply Forall_app. now split.
Qed.

Lemma p_stream_lf k fuel ctx T : SpecText.p_stream k fuel ctx (10 :: T) = SpecText.p_stream k fuel ctx T.
Proof. destruct k; reflexivity. Qed.

Definition fin_ok (fin : list N) : Prop := fin = [] \/ fin = [10].

Lemma stream_tail_follow fin : fin_ok fin -> forall r, Forall (wf_top F) r -> wfollow (items [10] true (itexts r) ++ fin).
Proof.
  intros Hfin. induction 1 as [|y r [Hwy _] Hr IH]; cbn [itexts map items app].
  - destruct Hfin as [->| ->]; [apply wfollow_nil|apply wfollow_ws; [now right|now left]].
  - fold (itexts r). rewrite <- app_assoc. apply wfollow_ws; [now right|right]. apply wt_tstart; [exact Hwy|constructor|exact IH].
Qed.

Lemma stream_spec fuel fin : fin_ok fin -> forall r, Forall (wf_top F) r -> Forall (spec_fmt F) r ->
  forall x k, wf_top F x -> spec_fmt F x ->
  Forall (fun y => (length (wt F [] y) < fuel)%nat) (x :: r) -> (length r < k)%nat ->
  SpecText.p_stream (S k) fuel sctx (wt F [] x ++ items [10] true (itexts r) ++ fin) = Some (canon x :: map canon r).
Proof.
  intros Hfin. induction 1 as [|y r Hy Hr IH]; intros Hs x k [Hwx Htx] Hsx Hlen Hk.
  - cbn [itexts map items app].
    assert (Hfol : wfollow fin) by (apply (stream_tail_follow fin Hfin []); constructor).
    destruct (wt_tstart x Hwx [] fin (Forall_nil _) Hfol) as (c & l & E & (Hn & _) & Hft).
    pose proof (value_spec x Hwx Hsx [] (Forall_nil _) fuel false [] fin Hfol (Forall_inv Hlen)) as Hv.
    cbn [app map] in Hv. rewrite E in *. cbn [SpecText.p_stream]. rewrite (skip_ws_nows c l Hn).
    unfold first_tok_ok in Hft. destruct (SpecText.p_ident (c :: l)) as [t r0]. cbn [fst] in Hft. rewrite Hft, Hv.
    pose proof (not_lst x Hwx [] (Forall_nil _) Htx) as Hnl. cbn [map] in Hnl. rewrite Hnl. destruct k as [|k]; [lia|].
    destruct Hfin as [->| ->]; reflexivity.
  - inversion Hs as [|? ? Hsy Hsr]; subst. cbn [itexts map items] in *. fold (itexts r) in *.
    rewrite <- ?app_assoc. cbn [app]. rewrite <- ?app_assoc.
    set (tl := wt F [] y ++ items [10] true (itexts r) ++ fin).
    assert (Hfol : wfollow (10 :: tl)).
    { apply wfollow_ws; [now right|right]. unfold tl. apply wt_tstart; [exact (proj1 Hy)|constructor|].
      now apply stream_tail_follow. }
    destruct (wt_tstart x Hwx [] (10 :: tl) (Forall_nil _) Hfol) as (c & l & E & (Hn & _) & Hft).
    pose proof (value_spec x Hwx Hsx [] (Forall_nil _) fuel false [] (10 :: tl) Hfol (Forall_inv Hlen)) as Hv.
    cbn [app map] in Hv. rewrite E in *. cbn [SpecText.p_stream]. rewrite (skip_ws_nows c l Hn).
    unfold first_tok_ok in Hft. destruct (SpecText.p_ident (c :: l)) as [t r0]. cbn [fst] in Hft. rewrite Hft, Hv.
    pose proof (not_lst x Hwx [] (Forall_nil _) Htx) as Hnl. cbn [map] in Hnl. rewrite Hnl. rewrite p_stream_lf.
    destruct k as [|k]; [cbn [length] in Hk; lia|]. unfold tl.
    rewrite (IH Hsr y k Hy Hsy (Forall_inv_tail Hlen)); [reflexivity|cbn [length] in Hk; lia].
Qed.

Lemma items_lengths (r : list value) :
  (length r <= length (items [10%N] true (itexts r)))%nat /\
  Forall (fun y => (length (wt F [] y) <= length (items [10%N] true (itexts r)))%nat) r.
Proof.
  induction r as [|y r [H1 H2]]; cbn [itexts map items length]; [split; [lia|constructor]|].
  fold (itexts r). rewrite !app_length. cbn [length]. split; [lia|].
  constructor; [lia|]. eapply Forall_impl; [|exact H2]. cbn beta. intros a Ha. lia.
Qed.

Theorem tdecode_stream quiet vs : Forall (wf_top F) vs -> Forall (spec_fmt F) vs ->
  SpecText.tdecode (wt_stream F quiet vs) = Some (canonical vs).
Proof.
  intros Hw Hs. destruct vs as [|x r]; [reflexivity|].
  inversion Hw as [|? ? Hwx Hwr]; subst. inversion Hs as [|? ? Hsx Hsr]; subst.
  unfold wt_stream, SpecText.tdecode, SpecText.tdecode_ctx, canonical. cbn [map items app]. fold (itexts r).
  set (fin := if quiet then [] else [10]).
  assert (Hfin : fin_ok fin) by (unfold fin, fin_ok; destruct quiet; auto).
  rewrite <- app_assoc.
  destruct (items_lengths r) as [H1 H2].
  apply (stream_spec _ fin Hfin r Hwr Hsr x _ Hwx Hsx).
  - constructor; [rewrite !app_length; lia|]. eapply Forall_impl; [|exact H2]. cbn beta. intros a Ha. rewrite !app_length. lia.
  - rewrite !app_length.
    assert (1 <= length (wt F [] x))%nat.
    { destruct (wt_tstart x (proj1 Hwx) [] [] (Forall_nil _) wfollow_nil) as (c & l & E & _). rewrite app_nil_r in E. rewrite E. cbn [length]. lia. }
    lia.
Qed.
End Agree.

(* ---- [canonical] changes nothing observable on plain forests ------------------------------------------------------------------------ *)
Lemma plain_csym y : plain_sym y -> csym y = y.
Proof. destruct y as [t|n]; cbn [plain_sym csym]; [reflexivity|]. intros ->. reflexivity. Qed.
Lemma plain_csyms a : Forall plain_sym a -> map csym a = a.
Proof. induction 1 as [|y a Hy Ha IH]; [reflexivity|]. cbn [map]. now rewrite plain_csym, IH. Qed.
Lemma show_mk_ann acc v : show_value (mk_ann acc v) = map (fun y => 97 :: show_sym y) acc ++ show_value v.
Proof. destruct acc; reflexivity. Qed.

Lemma plain_cfloat b : b < 2 ^ 64 -> (f64_is_nan b = true -> b = canonical_nan64) -> cfloat b = b.
Proof.
  intros Hb Hn. unfold cfloat. destruct (f64_is_nan b) eqn:En; [symmetry; now apply Hn|].
  destruct (f64_is_inf b) eqn:Ei; [|reflexivity].
  unfold f64_is_inf, f64_is_nan, f64_exp, f64_man, f64_sign in *. unfold inf_bits, neg_inf_bits.
  apply andb_true_iff in Ei as [E1 E2]. apply N.eqb_eq in E1, E2.
  change (2 ^ 64) with 18446744073709551616 in Hb. change (2 ^ 52) with 4503599627370496 in *. change (2 ^ 63) with 9223372036854775808.
  destruct (N.eqb_spec (b / 9223372036854775808) 0); lia.
Qed.

Theorem show_canon v : plain_value v -> forall acc, show_value (canon_a acc v) = map (fun y => 97 :: show_sym y) acc ++ show_value v.
Proof.
  induction v as [v Hsc|l IH|l IH|fs IH|a0 x IH] using value_ind'; intros Hp acc.
  - destruct v; try contradiction; cbn [canon_a plain_value] in *; rewrite show_mk_ann; try reflexivity.
    + destruct Hp as [Hb Hn]. now rewrite plain_cfloat.
    + now rewrite plain_csym.
  - cbn [canon_a]. rewrite show_mk_ann. f_equal. cbn [show_value]. do 2 f_equal.
    induction IH as [|x r Hx Hr IHr]; [reflexivity|]. destruct Hp as [Hpx Hpr]. cbn [map flat_map].
    rewrite (Hx Hpx []), (IHr Hpr). reflexivity.
  - cbn [canon_a]. rewrite show_mk_ann. f_equal. cbn [show_value]. do 2 f_equal.
    induction IH as [|x r Hx Hr IHr]; [reflexivity|]. destruct Hp as [Hpx Hpr]. cbn [map flat_map].
    rewrite (Hx Hpx []), (IHr Hpr). reflexivity.
  - cbn [canon_a]. rewrite show_mk_ann. f_equal. cbn [show_value]. do 2 f_equal.
    induction IH as [|[n x] r Hx Hr IHr]; [reflexivity|]. destruct Hp as (Hn & Hpx & Hpr). cbn [map flat_map snd] in *.
    rewrite (Hx Hpx []), (IHr Hpr), (plain_csym n Hn). reflexivity.
  - destruct Hp as [Ha Hx]. cbn [canon_a show_value]. rewrite (IH Hx), (plain_csyms a0 Ha), map_app, <- app_assoc. reflexivity.
Qed.
Corollary show_canonical vs : Forall plain_value vs -> show_values (canonical vs) = show_values vs.
Proof.
  intros H. unfold show_values, canonical. f_equal. induction H as [|v r Hv Hr IH]; [reflexivity|].
  cbn [map flat_map]. unfold canon at 1. rewrite (show_canon v Hv []), IH. reflexivity.
Qed.

(* ---- composed with the Writer model ---------------------------------------------------------------------------------------------------- *)
Theorem writer_output_decodes F quiet vs : Forall (wf_top F) vs -> Forall (spec_fmt F) vs ->
  exists w oks, tw_drive F (new_text_writer None false quiet) (calls_of_stream vs) = Ok (w, oks) /\
                forallb (fun b => b) oks = true /\
                sink_bytes (tw_out w) = wt_stream F quiet vs /\
                SpecText.tdecode (sink_bytes (tw_out w)) = Some (canonical vs).
Proof.
  intros Hw Hs.
  assert (Hv : Forall (wf_value F) vs) by (eapply Forall_impl; [|exact Hw]; intros v [Hv _]; exact Hv).
  destruct (forest_written F quiet vs Hv) as (w & oks & E & Hok & Hout).
  exists w, oks. rewrite Hout. repeat split; auto. now apply tdecode_stream.
Qed.
Corollary writer_output_recovered F quiet vs : Forall (wf_top F) vs -> Forall (spec_fmt F) vs -> Forall plain_value vs ->
  exists w oks vs', tw_drive F (new_text_writer None false quiet) (calls_of_stream vs) = Ok (w, oks) /\
                forallb (fun b => b) oks = true /\
                SpecText.tdecode (sink_bytes (tw_out w)) = Some vs' /\ show_values vs' = show_values vs.
Proof.
  intros Hw Hs Hp. destruct (writer_output_decodes F quiet vs Hw Hs) as (w & oks & E & Hok & _ & Hd).
  exists w, oks, (canonical vs). repeat split; auto. now apply show_canonical.
Qed.

(* the zeros are written by formatFloat itself: no hypothesis on the oracle *)
Lemma float_zero_spec F : float_spec_ok F 0 /\ float_spec_ok F (2 ^ 63).
Proof.
  split.
  - exists {| n_neg := false; n_iw := [48]; n_ip := [48]; n_dot := false; n_fw := []; n_fp := [];
              n_exp := Some (101, [43], [48]) |}.
    split; [|split; [reflexivity|split; [reflexivity|vm_compute; reflexivity]]]. split; [|split; reflexivity].
    unfold num_wf; cbn. split; [apply usd; [reflexivity|constructor]|]. split; [now left|]. split; [split; reflexivity|].
    split; [now left|]. split; [right; now left|]. split; [discriminate|repeat constructor].
  - exists {| n_neg := true; n_iw := [48]; n_ip := [48]; n_dot := false; n_fw := []; n_fp := [];
              n_exp := Some (101, [43], [48]) |}.
    split; [|split; [reflexivity|split; [reflexivity|vm_compute; reflexivity]]]. split; [|split; reflexivity].
    unfold num_wf; cbn. split; [apply usd; [reflexivity|constructor]|]. split; [now left|]. split; [split; reflexivity|].
    split; [now left|]. split; [right; now left|]. split; [discriminate|repeat constructor].
Qed.

(* for Examples: [bytes_ok] by computation *)
Lemma bytes_ok_b l : forallb (fun c => c <? 256) l = true -> bytes_ok l.
Proof. intros H. apply Forall_forall. intros c Hc. rewrite forallb_forall in H. specialize (H c Hc). lia. Qed.
