(* SpellStream.v — C02, stage 8c: top-level streams of annotated scalar values.

   [settled S k u rest]: a tokenizer in abstract state (S,k,u) is, after FinishValue, in front of a
   whitespace run followed by the text [rest] (this is the state between two values).
   [item_spells]: every class of scalar literal of stages 2-7 with the type and value it denotes
   and the condition on what follows it; [aval_spells]: annotations `a::` in front;
   [stream_spells]: values separated by whitespace runs, up to the end of the input.
   Theorem: the reader's full traversal of such a text is exactly the trace of the values. *)
From Coq Require Import String List NArith ZArith Bool Lia ZifyBool ZifyN ZifyNat.
From IonV Require Import Base.Wire Base.Utf8 Data.Ion Bin.Bits Bin.BitStream Bin.BinReader Num.Float Text.Tokenizer Text.Skipper
  Text.TextReader Text.TextNum Text.SpellBase Text.SpellWs Text.SpellNum Text.SpellTok Text.SpellRead
  Text.SpellEsc Text.SpellStr Text.SpellLong Text.SpellIdent Text.SpellSym Text.SpellTs Text.SpellBlob
  Text.SpellVal Text.SpellSymVal Text.SpellOp.
Import ListNotations.
Open Scope Z_scope.

(* ---- between two values ------------------------------------------------------------------------------------------------ *)
Definition settled (S' : list Z) (k' : N) (u' : bool) (rest : list N) : Prop :=
  exists S1 w1, runK t_finish_value (S', k', u') u' (S1, k', false) /\ ws_run w1 /\ no_cr w1 /\
                ends S1 (w1 ++ rest) /\ (length (w1 ++ rest) <= nne S')%nat.

Lemma nne_all_eof e : all_eof e -> nne e = O.
Proof. induction 1 as [|x e Hx He IH]; [reflexivity|]. unfold nne in *. cbn [filter]. rewrite Hx. cbn. exact IH. Qed.
Lemma nne_ends S r : ends S r -> nne S = length r.
Proof. intros (e & He & ->). rewrite nne_app, nne_zs, (nne_all_eof e He). lia. Qed.

Lemma settled_false S' k' rest w1 :
  ws_run w1 -> no_cr w1 -> ends S' (w1 ++ rest) -> settled S' k' false rest.
Proof.
  intros Hw Hcr He. exists S', w1. split; [apply runK_finish_value_noop|]. repeat split; auto.
  rewrite (nne_ends S' _ He). lia.
Qed.

Lemma ends_zs_app a S r : ends S r -> ends (zs a ++ S) (a ++ r).
Proof. apply ends_intro. Qed.
Lemma nne_pks_ge n S : (nne S <= nne (pks n S))%nat.
Proof.
  revert S. induction n as [|n IH]; intros S; cbn [pks]; [lia|]. destruct S as [|c r]; [cbn; lia|].
  destruct (c =? -1) eqn:E; [lia|]. specialize (IH r). unfold nne in *. cbn [filter]. rewrite E. cbn [negb length]. lia.
Qed.
Lemma nne_unterm_ge S : (nne S <= nne (unterm S))%nat.
Proof.
  unfold unterm. destruct S as [|c r]; [cbn; lia|]. cbn [shead stail].
  destruct (c =? c_slash); [|lia].
  assert (H : (nne r <= nne (spush r))%nat) by (destruct r; [cbn; lia|rewrite spush_cons; lia]).
  unfold nne in *. cbn [filter]. destruct (negb (c =? -1)); cbn [length]; lia.
Qed.

(* after a decimal-radix number *)
Lemma settled_number m wn S2 rest :
  ws_run wn -> no_cr wn -> ws_stop S2 = true -> ends S2 rest -> terminated (zs wn ++ S2) = true ->
  settled (unterm (pks m (zs wn ++ S2))) tokenNumber true rest.
Proof.
  intros Hw Hcr Hs2 He Ht. rewrite pks_zs_app. set (S2p := pks (m - length wn) S2).
  assert (Hs2p : ws_stop S2p = true) by (unfold S2p; now rewrite ws_stop_pks).
  assert (Hep : ends S2p rest) by (unfold S2p; now apply pks_ends).
  assert (Htp : terminated (zs wn ++ S2p) = true).
  { pose proof (terminated_pks m _ Ht) as H. rewrite pks_zs_app in H. exact H. }
  pose proof (runK_finish_value_number wn S2p Hw Hcr Hs2p Htp) as R.
  assert (Hn : (length (wn ++ rest) <= nne (unterm (zs wn ++ S2p)))%nat).
  { etransitivity; [|apply nne_unterm_ge]. rewrite (nne_ends _ _ (ends_zs_app wn S2p rest Hep)). lia. }
  destruct (is_whitespace (shead (zs wn ++ S2p))).
  - exists (shead S2p :: after_stop S2p), []. split; [exact R|]. split; [constructor|]. split; [constructor|].
    split; [cbn [app]; now apply ends_head_after_stop|]. cbn [app]. rewrite app_length in Hn. lia.
  - exists (unterm (zs wn ++ S2p)), wn. split; [exact R|]. repeat split; auto.
    apply ends_unterm. now apply ends_zs_app.
Qed.

(* ---- conditions on what follows, read off the text ------------------------------------------------------------------------ *)
Lemma ends_shead S t : ends S t -> shead S = shead (zs t).
Proof. intros H. destruct t as [|c r]; [now apply ends_shead_nil|exact (ends_shead_cons S c r H)]. Qed.
Lemma ends_stail S t : ends S t -> ends (stail S) (tl t).
Proof. intros H. destruct t as [|c r]; [now apply ends_stail_nil|exact (ends_stail_cons S c r H)]. Qed.
Lemma stail_zs t : stail (zs t) = zs (tl t).
Proof. destruct t; reflexivity. Qed.
Lemma ends_shead2 S t : ends S t -> shead (stail S) = shead (stail (zs t)).
Proof. intros H. rewrite stail_zs. apply ends_shead. now apply ends_stail. Qed.
Lemma ends_shead3 S t : ends S t -> shead (stail (stail S)) = shead (stail (stail (zs t))).
Proof. intros H. rewrite !stail_zs. apply ends_shead. now apply ends_stail, ends_stail. Qed.

Lemma ends_terminated S t : ends S t -> terminated S = terminated (zs t).
Proof. intros H. unfold terminated, stops. now rewrite (ends_shead S t H), (ends_shead2 S t H). Qed.
Lemma ends_ws_stop S t : ends S t -> ws_stop S = ws_stop (zs t).
Proof. intros H. unfold ws_stop. now rewrite (ends_shead S t H), (ends_shead2 S t H). Qed.
Lemma ends_dcolon S t : ends S t -> dcolon S = dcolon (zs t).
Proof. intros H. unfold dcolon. now rewrite (ends_shead S t H), (ends_shead2 S t H). Qed.
Lemma ends_starts3 S t : ends S t -> starts3 S = starts3 (zs t).
Proof. intros H. unfold starts3, triple. now rewrite (ends_shead S t H), (ends_shead2 S t H), (ends_shead3 S t H). Qed.

Ltac list_norm :=
  unfold zs; repeat first [rewrite map_app | rewrite <- app_assoc | progress (cbn [map app])]; reflexivity.
Lemma rrun_pre_eq {A} (m : R A) X Y a X' : rrun m X a X' -> X = Y -> rrun m Y a X'.
Proof. intros H <-. exact H. Qed.

Section Stream.
Variable pd : list N -> res dec.
Variable pt : list N -> res (list N).
Variable api : xstate -> xstate * res bool.
Variable lst : rlst.
Variable ctx : list ctype.
Notation BTA := trsBeforeTypeAnnotations.

(* what must hold of the whitespace run [wn] and the text [rest] that follow a literal *)
Definition f_term (wn rest : list N) : Prop := terminated (zs (wn ++ rest)) = true.
Definition f_ident (wn rest : list N) : Prop := is_identifier_part (shead (zs (wn ++ rest))) = false.
Definition f_null (wn rest : list N) : Prop := f_ident wn rest /\ (wn = [] -> shead (zs rest) <> c_dot).
Definition f_quote (body : list N) (wn rest : list N) : Prop := body = [] -> shead (zs (wn ++ rest)) <> 39.
Definition f_long (wn rest : list N) : Prop := starts3 (zs rest) = false.
Definition f_any (wn rest : list N) : Prop := True.
(* after an operator symbol: no further operator character; `+` and `-` alone are not followed by `inf`,
   `-` alone not by a digit (those would be numbers) *)
Definition f_op (c : N) (r : list N) (wn rest : list N) : Prop :=
  zs (wn ++ rest) <> [] /\ is_operator_char (shead (zs (wn ++ rest))) = false /\
  ((c = 43 \/ c = 45)%N -> r = [] -> starts_inf (zs (wn ++ rest)) = false) /\
  (c = 45%N -> r = [] -> is_digit (shead (zs (wn ++ rest))) = false).

(* every scalar literal: its text, what may follow, its type and value.  [ann]: the annotations in front of it *)
Inductive item_spells (ann : list tok) : list N -> (list N -> list N -> Prop) -> N -> xvalue -> Prop :=
| it_num n ty v : num_wf n -> num_value pd n = Some (ty, v) -> item_spells ann (num_text n) f_term ty v
| it_radix (hex : bool) neg m dw p :
    (if hex then (m = 120 \/ m = 88)%N /\ us_digits is_hex_b dw p else (m = 98 \/ m = 66)%N /\ us_digits is_bin_b dw p) ->
    item_spells ann (sign_bytes neg ++ 48%N :: m :: dw) f_term
                TInt (XInt (mk_int (sgn neg (digits_value (if hex then 16 else 2) p))))
| it_ts sh fields : ts_fits sh = true -> pt (ts_text sh) = Ok fields ->
    item_spells ann (ts_text sh) f_term TTimestamp (XTimestamp fields)
| it_inf (neg : bool) :
    item_spells ann ((if neg then 45 else 43) :: [105; 110; 102])%N f_term
                TFloat (XFloatBits (if neg then neg_inf_bits else inf_bits))
| it_str body text : qbody 34 body text -> utf8_valid text = true ->
    item_spells ann (34%N :: body ++ [34%N]) f_any TString (XString text)
| it_long body ts : lsegs body ts -> valid_segs ts ->
    item_spells ann (39%N :: 39%N :: 39%N :: body) f_long TString (XString (concat ts))
| it_blob bw chars bytes : interleaved bw chars -> b64_text chars bytes ->
    item_spells ann (123%N :: 123%N :: bw ++ [125; 125]%N) f_any TBlob (XBytes bytes)
| it_clob ws0 body bytes ws1 : ws_plain ws0 -> cbody body bytes -> ws_plain ws1 ->
    item_spells ann (123%N :: 123%N :: ws0 ++ 34%N :: body ++ 34%N :: ws1 ++ [125; 125]%N) f_any TClob (XBytes bytes)
| it_lclob ws0 body ts ws1 : ws_plain ws0 -> lcsegs body ts -> ws_plain ws1 ->
    item_spells ann (123%N :: 123%N :: ws0 ++ 39%N :: 39%N :: 39%N :: body ++ ws1 ++ [125; 125]%N) f_any
                TClob (XBytes (concat ts))
| it_sym id k : ident_chars id -> is_keyword id = false -> is_ivm id ctx ann = false ->
    new_symbol_token lst id = Ok k -> item_spells ann id f_ident TSymbol (XSymbol k)
| it_kw id ty v : keyword_value id = Some (ty, v) -> item_spells ann id f_ident ty v
| it_null : item_spells ann (s "null"%string) f_null TNull XNil
| it_tnull tn ty : null_type_of tn = Some ty -> lst_marker ty ctx ann = false ->
    item_spells ann (s "null"%string ++ 46%N :: tn) f_ident ty XNil
| it_qsym body text : qbody 39 body text -> utf8_valid text = true ->
    item_spells ann (39%N :: body ++ [39%N]) (f_quote body) TSymbol (XSymbol (tok_text text))
(* an operator symbol, directly inside an s-expression; a comment opener ends an operator; the symbols that
   begin with a slash are left out here (whether a slash opens a comment depends on what follows the literal) *)
| it_op c r ctxr : ctx = CSexp :: ctxr -> op_chars (c :: r) -> no_comment_start (c :: r) = true -> c <> 47%N ->
    item_spells ann (c :: r) (f_op c r) TSymbol (XSymbol (name_symbol_token lst (c :: r))).

Lemma no_cr_cons c l : no_cr (c :: l) -> c <> 13%N /\ no_cr l.
Proof. intros H. inversion H; auto. Qed.

(* one round of Next on any scalar literal *)
Lemma item_next ann lit fol ty v :
  item_spells ann lit fol ty v ->
  forall wn rest S2,
  no_cr lit -> ws_run wn -> no_cr wn -> fol wn rest ->
  ends S2 rest -> ws_stop S2 = true -> dcolon S2 = false ->
  exists S' k' u', settled S' k' u' rest /\
    forall w k0 fld ty0 v0 kk fuel, ws_run w -> no_cr w ->
    rrun (x_next_loop pd pt api (S kk) fuel)
         (mkax (zs w ++ zs lit ++ zs wn ++ S2) k0 false BTA ctx false false lst fld ann ty0 v0) true
         (mkax S' k' u' (after_value_state ctx) ctx false false lst fld ann ty v).
Proof.
  intros Hit wn rest S2 Hcl Hwn Hcrn Hfol He Hs2 Hdc.
  pose proof (ends_zs_app wn S2 rest He) as Hes.
  destruct Hit as [n ty v Hwf Hv|hex neg m dw p Hm|sh fields Hf Hpt|neg|body text Hb Hu|body ts Hb Hv|bw chars bytes Hbw Hb
                  |ws0 body bytes ws1 H0 Hb H1|ws0 body ts ws1 H0 Hb H1|id k Hid Hkw Hivm Hk|id ty v Hkv| |tn ty Hty Hmk
                  |body text Hb Hu|c r ctxr Ectx Hop Hnc Hc47].
  - (* decimal-radix number *)
    assert (Ht : terminated (zs wn ++ S2) = true) by (rewrite (ends_terminated _ _ Hes); exact Hfol).
    exists (unterm (pks (num_look n) (zs wn ++ S2))), tokenNumber, true. split; [now apply settled_number|].
    intros w k0 fld ty0 v0 kk fuel Hw Hcr.
    exact (next_number pd pt api w n (zs wn ++ S2) ty v k0 ctx lst fld ann ty0 v0 kk fuel Hw Hcr Hwf Ht Hv).
  - (* 0x / 0b *)
    assert (Ht : terminated (zs wn ++ S2) = true) by (rewrite (ends_terminated _ _ Hes); exact Hfol).
    exists (unterm (pks (3 - length dw) (zs wn ++ S2))), (if hex then tokenHex else tokenBinary), false. split.
    + apply (settled_false _ _ rest wn); auto. apply ends_unterm, pks_ends. exact Hes.
    + intros w k0 fld ty0 v0 kk fuel Hw Hcr.
      exact (next_radix pd pt api hex w neg m dw p (zs wn ++ S2) k0 ctx lst fld ann ty0 v0 kk fuel Hw Hcr Hm Ht).
  - (* timestamp *)
    assert (Ht : terminated (zs wn ++ S2) = true) by (rewrite (ends_terminated _ _ Hes); exact Hfol).
    exists (unterm (zs wn ++ S2)), tokenTimestamp, false. split.
    + apply (settled_false _ _ rest wn); auto. apply ends_unterm. exact Hes.
    + intros w k0 fld ty0 v0 kk fuel Hw Hcr.
      exact (next_timestamp pd pt api w sh fields (zs wn ++ S2) k0 ctx lst fld ann ty0 v0 kk fuel Hw Hcr Hf Hpt Ht).
  - (* +inf -inf *)
    assert (Ht : terminated (zs wn ++ S2) = true) by (rewrite (ends_terminated _ _ Hes); exact Hfol).
    exists (pks 2 (zs wn ++ S2)), (if neg then tokenFloatMinusInf else tokenFloatInf), false. split.
    + apply (settled_false _ _ rest wn); auto. apply pks_ends. exact Hes.
    + intros w k0 fld ty0 v0 kk fuel Hw Hcr.
      pose proof (next_inf pd pt api neg w (zs wn ++ S2) k0 ctx lst fld ann ty0 v0 kk fuel Hw Hcr Ht) as R.
      destruct neg; exact R.
  - (* short string *)
    apply no_cr_cons in Hcl as [_ Hcl]. apply no_cr_app in Hcl as [Hcb _].
    exists (zs wn ++ S2), tokenString, false. split; [apply (settled_false _ _ rest wn); auto|].
    intros w k0 fld ty0 v0 kk fuel Hw Hcr.
    pose proof (next_string pd pt api w body text (zs wn ++ S2) k0 ctx lst fld ann ty0 v0 kk fuel Hw Hcr Hb Hcb Hu) as R.
    eapply rrun_pre_eq; [exact R|]. f_equal; list_norm.
  - (* long string *)
    apply no_cr_cons in Hcl as [_ Hcl]. apply no_cr_cons in Hcl as [_ Hcl]. apply no_cr_cons in Hcl as [_ Hcb].
    assert (H3 : starts3 S2 = false) by (rewrite (ends_starts3 _ _ He); exact Hfol).
    exists (long_end S2), tokenLongString, false. split.
    + apply (settled_false _ _ rest []); [constructor|constructor|]. cbn [app].
      unfold long_end, long_end_with. destruct (shead S2 =? 39) eqn:E.
      * destruct rest as [|c r]; [rewrite (ends_shead_nil _ He) in E; discriminate|].
        pose proof (ends_shead_cons _ _ _ He) as Hc. assert (c = 39%N) by lia. subst c.
        rewrite peek2_pks. apply (ends_unread _ 39%N). apply pks_ends. exact (ends_stail_cons _ _ _ He).
      * now apply ends_head_after_stop.
    + intros w k0 fld ty0 v0 kk fuel Hw Hcr.
      exact (next_long_string pd pt api w body ts wn S2 k0 ctx lst fld ann ty0 v0 kk fuel Hw Hcr Hb Hcb Hv Hwn Hcrn Hs2 H3).
  - (* blob *)
    exists (zs wn ++ S2), tokenOpenDoubleBrace, false. split; [apply (settled_false _ _ rest wn); auto|].
    intros w k0 fld ty0 v0 kk fuel Hw Hcr.
    pose proof (next_blob pd pt api w bw chars bytes (zs wn ++ S2) k0 ctx lst fld ann ty0 v0 kk fuel Hw Hcr Hbw Hb) as R.
    eapply rrun_pre_eq; [exact R|]. f_equal; list_norm.
  - (* short clob *)
    assert (Hcb : no_cr body).
    { apply no_cr_cons in Hcl as [_ Hcl]. apply no_cr_cons in Hcl as [_ Hcl]. apply no_cr_app in Hcl as [_ Hcl].
      apply no_cr_cons in Hcl as [_ Hcl]. now apply no_cr_app in Hcl as [Hcl _]. }
    exists (zs wn ++ S2), tokenOpenDoubleBrace, false. split; [apply (settled_false _ _ rest wn); auto|].
    intros w k0 fld ty0 v0 kk fuel Hw Hcr.
    pose proof (next_short_clob pd pt api w ws0 body bytes ws1 (zs wn ++ S2) k0 ctx lst fld ann ty0 v0 kk fuel
                  Hw Hcr H0 Hb Hcb H1) as R.
    eapply rrun_pre_eq; [exact R|]. f_equal; list_norm.
  - (* long clob *)
    assert (Hcb : no_cr body).
    { apply no_cr_cons in Hcl as [_ Hcl]. apply no_cr_cons in Hcl as [_ Hcl]. apply no_cr_app in Hcl as [_ Hcl].
      apply no_cr_cons in Hcl as [_ Hcl]. apply no_cr_cons in Hcl as [_ Hcl]. apply no_cr_cons in Hcl as [_ Hcl].
      now apply no_cr_app in Hcl as [Hcl _]. }
    exists (zs wn ++ S2), tokenOpenDoubleBrace, false. split; [apply (settled_false _ _ rest wn); auto|].
    intros w k0 fld ty0 v0 kk fuel Hw Hcr.
    pose proof (next_long_clob pd pt api w ws0 body ts ws1 (zs wn ++ S2) k0 ctx lst fld ann ty0 v0 kk fuel
                  Hw Hcr H0 Hb Hcb H1) as R.
    eapply rrun_pre_eq; [exact R|]. f_equal; list_norm.
  - (* identifier symbol *)
    assert (Hnp : is_identifier_part (shead (zs wn ++ S2)) = false) by (rewrite (ends_shead _ _ Hes); exact Hfol).
    exists (sym_rest wn S2), tokenSymbol, false. split.
    + apply (settled_false _ _ rest []); [constructor|constructor|]. now apply ends_sym_rest.
    + intros w k0 fld ty0 v0 kk fuel Hw Hcr.
      exact (next_ident pd pt api w id k wn S2 k0 ctx lst fld ann ty0 v0 kk fuel Hw Hcr Hid Hkw Hivm Hk Hwn Hcrn Hs2 Hdc Hnp).
  - (* true false nan *)
    assert (Hnp : is_identifier_part (shead (zs wn ++ S2)) = false) by (rewrite (ends_shead _ _ Hes); exact Hfol).
    exists (sym_rest wn S2), tokenSymbol, false. split.
    + apply (settled_false _ _ rest []); [constructor|constructor|]. now apply ends_sym_rest.
    + intros w k0 fld ty0 v0 kk fuel Hw Hcr.
      exact (next_keyword pd pt api w id ty v wn S2 k0 ctx lst fld ann ty0 v0 kk fuel Hw Hcr Hkv Hwn Hcrn Hs2 Hdc Hnp).
  - (* null *)
    destruct Hfol as [Hfi Hfd].
    assert (Hnp : is_identifier_part (shead (zs wn ++ S2)) = false) by (rewrite (ends_shead _ _ Hes); exact Hfi).
    assert (Hdot : wn = [] -> shead S2 <> c_dot) by (intros E; rewrite (ends_shead _ _ He); now apply Hfd).
    exists (if nonempty wn then sym_rest wn S2 else spush (sym_rest wn S2)), tokenSymbol, false. split.
    + apply (settled_false _ _ rest []); [constructor|constructor|].
      destruct (nonempty wn); [|apply ends_spush]; now apply ends_sym_rest.
    + intros w k0 fld ty0 v0 kk fuel Hw Hcr.
      exact (next_null pd pt api w wn S2 k0 ctx lst fld ann ty0 v0 kk fuel Hw Hcr Hwn Hcrn Hs2 Hdc Hnp Hdot).
  - (* null.type *)
    assert (Hnp : is_identifier_part (shead (zs wn ++ S2)) = false) by (rewrite (ends_shead _ _ Hes); exact Hfol).
    exists (spush (zs wn ++ S2)), tokenSymbol, false. split.
    + apply (settled_false _ _ rest wn); auto. now apply ends_spush.
    + intros w k0 fld ty0 v0 kk fuel Hw Hcr.
      pose proof (next_typed_null pd pt api w tn ty (zs wn ++ S2) k0 ctx lst fld ann ty0 v0 kk fuel Hw Hcr Hty Hnp Hmk) as R.
      eapply rrun_pre_eq; [exact R|]. f_equal; list_norm.
  - (* quoted symbol *)
    apply no_cr_cons in Hcl as [_ Hcl]. apply no_cr_app in Hcl as [Hcb _].
    assert (H0 : body = [] -> shead (zs wn ++ S2) <> 39) by (intros E; rewrite (ends_shead _ _ Hes); now apply Hfol).
    exists (after_dcolon (pks (1 - length body - length wn) S2)), tokenSymbolQuoted, false. split.
    + apply (settled_false _ _ rest []); [constructor|constructor|]. apply ends_after_dcolon, pks_ends. exact He.
    + intros w k0 fld ty0 v0 kk fuel Hw Hcr.
      pose proof (next_quoted pd pt api w body text wn S2 k0 ctx lst fld ann ty0 v0 kk fuel Hw Hcr Hb Hcb Hu H0 Hwn Hcrn Hs2 Hdc) as R.
      eapply rrun_pre_eq; [exact R|]. f_equal; list_norm.
  - (* operator *)
    destruct Hfol as (Hne & Hno & Hinf & Hdig).
    assert (Hne' : zs wn ++ S2 <> []).
    { destruct Hes as (e & _ & ->). destruct (zs (wn ++ rest)); [contradiction|discriminate]. }
    assert (Hno' : is_operator_char (shead (zs wn ++ S2)) = false) by (rewrite (ends_shead _ _ Hes); exact Hno).
    assert (Hinf' : (c = 43 \/ c = 45)%N -> r = [] -> starts_inf (zs wn ++ S2) = false).
    { intros A B. unfold starts_inf. rewrite (ends_shead _ _ Hes), (ends_shead2 _ _ Hes), (ends_shead3 _ _ Hes). now apply Hinf. }
    assert (Hdig' : c = 45%N -> r = [] -> is_digit (shead (zs wn ++ S2)) = false).
    { intros A B. rewrite (ends_shead _ _ Hes). now apply Hdig. }
    exists (sym_rest wn (pks (op_look c r - length wn) S2)),
           (if (c =? 46)%N && match r with [] => true | _ => false end then tokenDot else tokenSymbolOperator), false. split.
    + apply (settled_false _ _ rest []); [constructor|constructor|]. apply ends_sym_rest, pks_ends. exact He.
    + intros w k0 fld ty0 v0 kk fuel Hw Hcr. rewrite Ectx.
      exact (next_op pd pt api w c r wn S2 k0 ctxr lst fld ann ty0 v0 kk fuel Hw Hcr Hop Hnc Hwn Hcrn Hs2 Hdc Hne' Hno' Hinf' Hdig').
Qed.

(* ---- annotations in front of a literal --------------------------------------------------------------------------------------- *)
(* [aval_spells ann text fol anns ty v]: with the annotations [ann] already read, [text] spells further annotations
   and a literal; [anns] are all the annotations of the value *)
Inductive aval_spells : list tok -> list N -> (list N -> list N -> Prop) -> list tok -> N -> xvalue -> Prop :=
| av_item ann lit fol ty v : item_spells ann lit fol ty v -> aval_spells ann lit fol ann ty v
| av_id ann id k wn1 wn2 rest fol anns ty v :
    ident_chars id -> is_keyword id = false -> new_symbol_token lst id = Ok k -> ws_run wn1 -> ws_run wn2 ->
    aval_spells (ann ++ [k]) rest fol anns ty v ->
    aval_spells ann (id ++ wn1 ++ [58; 58]%N ++ wn2 ++ rest) fol anns ty v
| av_quoted ann body text wn1 wn2 rest fol anns ty v :
    qbody 39 body text -> utf8_valid text = true -> ws_run wn1 -> ws_run wn2 ->
    aval_spells (ann ++ [tok_text text]) rest fol anns ty v ->
    aval_spells ann (39%N :: body ++ [39%N] ++ wn1 ++ [58; 58]%N ++ wn2 ++ rest) fol anns ty v.

Lemma ws_run_head_not_quote wn SS : ws_run wn -> shead SS <> 39 -> shead (zs wn ++ SS) <> 39.
Proof.
  intros Hw Hs. inversion Hw as [|c w' Hc Hw'|body nl w' Hb Hn Hw'|body w' Hb Hw']; subst; cbn [zs map app shead]; auto; try lia.
  unfold ws_byte in Hc. lia.
Qed.

Lemma aval_next ann text fol anns ty v :
  aval_spells ann text fol anns ty v ->
  forall wn rest S2,
  no_cr text -> ws_run wn -> no_cr wn -> fol wn rest ->
  ends S2 rest -> ws_stop S2 = true -> dcolon S2 = false ->
  exists S' k' u', settled S' k' u' rest /\
    forall w k0 fld ty0 v0 kk fuel, (length text <= kk)%nat -> ws_run w -> no_cr w ->
    rrun (x_next_loop pd pt api (S kk) fuel)
         (mkax (zs w ++ zs text ++ zs wn ++ S2) k0 false BTA ctx false false lst fld ann ty0 v0) true
         (mkax S' k' u' (after_value_state ctx) ctx false false lst fld anns ty v).
Proof.
  induction 1 as [ann lit fol ty v Hit|ann id k wn1 wn2 rest' fol anns ty v Hid Hkw Hk Hw1 Hw2 Hav IH
                 |ann body txt wn1 wn2 rest' fol anns ty v Hb Hu Hw1 Hw2 Hav IH];
    intros wn rest S2 Hct Hwn Hcrn Hfol He Hs2 Hdc.
  - destruct (item_next ann lit fol ty v Hit wn rest S2 Hct Hwn Hcrn Hfol He Hs2 Hdc) as (S' & k' & u' & Hset & R).
    exists S', k', u'. split; [exact Hset|]. intros w k0 fld ty0 v0 kk fuel _ Hw Hcr. now apply R.
  - apply no_cr_app in Hct as [Hc1 Hct]. apply no_cr_app in Hct as [Hc2 Hct]. apply no_cr_app in Hct as [_ Hct].
    apply no_cr_app in Hct as [Hc3 Hc4].
    destruct (IH wn rest S2 Hc4 Hwn Hcrn Hfol He Hs2 Hdc) as (S' & k' & u' & Hset & R).
    exists S', k', u'. split; [exact Hset|]. intros w k0 fld ty0 v0 kk fuel Hlen Hw Hcr.
    destruct kk as [|kk]; [rewrite !app_length in Hlen; destruct Hid; cbn [length] in Hlen; lia|].
    eapply rrun_pre_eq.
    + apply (ann_step_ident pd pt api w id k wn1 (zs wn2 ++ zs rest' ++ zs wn ++ S2) k0 ctx lst fld ann ty0 v0 (S kk) fuel true _
               Hw Hcr Hid Hkw Hk Hw1 Hc2).
      apply R; auto. rewrite !app_length in Hlen. cbn [length] in Hlen. lia.
    + f_equal; list_norm.
  - apply no_cr_cons in Hct as [_ Hct]. apply no_cr_app in Hct as [Hc1 Hct]. apply no_cr_app in Hct as [_ Hct].
    apply no_cr_app in Hct as [Hc2 Hct]. apply no_cr_app in Hct as [_ Hct]. apply no_cr_app in Hct as [Hc3 Hc4].
    destruct (IH wn rest S2 Hc4 Hwn Hcrn Hfol He Hs2 Hdc) as (S' & k' & u' & Hset & R).
    exists S', k', u'. split; [exact Hset|]. intros w k0 fld ty0 v0 kk fuel Hlen Hw Hcr.
    destruct kk as [|kk]; [cbn [length] in Hlen; lia|].
    eapply rrun_pre_eq.
    + apply (ann_step_quoted pd pt api w body txt wn1 (zs wn2 ++ zs rest' ++ zs wn ++ S2) k0 ctx lst fld ann ty0 v0 (S kk) fuel
               true _ Hw Hcr Hb Hc1 Hu); auto.
      * intros _. apply ws_run_head_not_quote; [exact Hw1|discriminate].
      * apply R; auto. cbn [length] in Hlen. rewrite !app_length in Hlen. cbn [length] in Hlen. lia.
    + f_equal; list_norm.
Qed.
End Stream.

(* ---- the first character of a value ------------------------------------------------------------------------------------------ *)
Definition val_start (c : N) : Prop := is_whitespace (Z.of_N c) = false /\ c <> 47%N /\ c <> 58%N.
Lemma id_start_val_start c : id_start c -> val_start c.
Proof.
  unfold id_start, letter, val_start, is_whitespace, zmem. cbn [existsb]. intros H. repeat split; lia.
Qed.
Lemma dec_val_start c : is_dec_b c = true -> val_start c.
Proof. unfold is_dec_b, val_start, is_whitespace, zmem. cbn [existsb]. intros H. repeat split; lia. Qed.

Lemma val_start_stop c r : val_start c -> ws_stop (zs (c :: r)) = true /\ dcolon (zs (c :: r)) = false.
Proof.
  intros (H1 & H2 & H3). cbn [zs map]. split.
  - apply ws_stop_cons; [exact H1|unfold c_slash; lia].
  - unfold dcolon. cbn [shead]. replace (Z.of_N c =? c_colon) with false by (unfold c_colon; lia). reflexivity.
Qed.


Section Stream2.
Variable pd : list N -> res dec.
Variable pt : list N -> res (list N).
Variable api : xstate -> xstate * res bool.
Variable lst : rlst.
Variable ctx : list ctype.

Lemma item_first ann lit fol ty v : item_spells pd pt lst ctx ann lit fol ty v -> exists c r, lit = c :: r /\ val_start c.
Proof.
  intros Hit.
  destruct Hit as [n ty v Hwf Hv|hex neg m dw p Hm|sh fields Hf Hpt|neg|body text Hb Hu|body ts Hb Hv|bw chars bytes Hbw Hb
                  |ws0 body bytes ws1 H0 Hb H1|ws0 body ts ws1 H0 Hb H1|id k Hid Hkw Hivm Hk|id ty v Hkv| |tn ty Hty Hmk
                  |body text Hb Hu|c r ctxr Ectx Hop Hnc Hc47].
  - destruct Hwf as (Hi & _). unfold num_text. destruct (n_neg n); cbn [sign_bytes app].
    + eexists _, _. split; [reflexivity|]. unfold val_start. repeat split; (reflexivity || discriminate).
    + inversion Hi as [c0 iw' ip' Hc0 Ht Hiw Hip]. cbn [app]. eexists _, _. split; [reflexivity|]. now apply dec_val_start.
  - destruct neg; cbn [sign_bytes app]; eexists _, _; (split; [reflexivity|]); unfold val_start; repeat split; (reflexivity || discriminate).
  - destruct (ts_text_head pd pt sh [] Hf) as (a & b & c & d & e & r & E & Ha & _). rewrite app_nil_r in E. rewrite E.
    eexists _, _. split; [reflexivity|]. now apply dec_val_start.
  - destruct neg; eexists _, _; (split; [reflexivity|]); unfold val_start; repeat split; (reflexivity || discriminate).
  - eexists _, _. split; [reflexivity|]. unfold val_start; repeat split; (reflexivity || discriminate).
  - eexists _, _. split; [reflexivity|]. unfold val_start; repeat split; (reflexivity || discriminate).
  - eexists _, _. split; [reflexivity|]. unfold val_start; repeat split; (reflexivity || discriminate).
  - eexists _, _. split; [reflexivity|]. unfold val_start; repeat split; (reflexivity || discriminate).
  - eexists _, _. split; [reflexivity|]. unfold val_start; repeat split; (reflexivity || discriminate).
  - destruct Hid as [c r Hc Hr]. eexists _, _. split; [reflexivity|]. now apply id_start_val_start.
  - destruct (keyword_ident id ty v Hkv) as [[c r Hc Hr] _]. eexists _, _. split; [reflexivity|]. now apply id_start_val_start.
  - eexists _, _. split; [reflexivity|]. unfold val_start; repeat split; (reflexivity || discriminate).
  - eexists _, _. split; [reflexivity|]. unfold val_start; repeat split; (reflexivity || discriminate).
  - eexists _, _. split; [reflexivity|]. unfold val_start; repeat split; (reflexivity || discriminate).
  - eexists _, _. split; [reflexivity|]. inversion Hop as [c' r' Hc Hr]; subst.
    unfold op_char in Hc. cbn [In] in Hc. unfold val_start.
    cbn [no_comment_start] in Hnc. apply andb_true_iff in Hnc as [Hnc _]. apply negb_true_iff in Hnc.
    repeat (destruct Hc as [<-|Hc]; [repeat split; (reflexivity || discriminate || congruence)|]); contradiction.
Qed.
Lemma aval_first ann text fol anns ty v :
  aval_spells pd pt lst ctx ann text fol anns ty v -> exists c r, text = c :: r /\ val_start c.
Proof.
  destruct 1 as [ann lit fol ty v Hit|ann id k wn1 wn2 rest' fol anns ty v Hid Hkw Hk Hw1 Hw2 Hav
                |ann body txt wn1 wn2 rest' fol anns ty v Hb Hu Hw1 Hw2 Hav].
  - exact (item_first ann lit fol ty v Hit).
  - destruct Hid as [c r Hc Hr]. eexists _, _. split; [reflexivity|]. now apply id_start_val_start.
  - eexists _, _. split; [reflexivity|]. unfold val_start; repeat split; (reflexivity || discriminate).
Qed.
(* the values an item can have: a null of some type, or something its accessor answers *)
Lemma item_value ann lit fol ty v :
  item_spells pd pt lst ctx ann lit fol ty v -> (v = XNil /\ ty <> 0%N) \/ (exists t, acc_token ty v = Some t).
Proof.
  intros Hit.
  destruct Hit as [n ty v Hwf Hv|hex neg m dw p Hm|sh fields Hf Hpt|neg|body text Hb Hu|body ts Hb Hv|bw chars bytes Hbw Hb
                  |ws0 body bytes ws1 H0 Hb H1|ws0 body ts ws1 H0 Hb H1|id k Hid Hkw Hivm Hk|id ty v Hkv| |tn ty Hty Hmk
                  |body text Hb Hu|c r ctxr Ectx Hop Hnc Hc47]; try (right; eexists; reflexivity).
  - right. unfold num_value in Hv. destruct (num_kind n).
    + injection Hv as <- <-. eexists; reflexivity.
    + injection Hv as <- <-. eexists; reflexivity.
    + destruct (pd (num_plain n)); try discriminate. injection Hv as <- <-. eexists; reflexivity.
  - right. unfold keyword_value in Hkv.
    destruct (list_eqb id (s "true"%string)); [injection Hkv as <- <-; eexists; reflexivity|].
    destruct (list_eqb id (s "false"%string)); [injection Hkv as <- <-; eexists; reflexivity|].
    destruct (list_eqb id (s "nan"%string)); [injection Hkv as <- <-; eexists; reflexivity|discriminate].
  - left. split; [reflexivity|discriminate].
  - left. split; [reflexivity|]. unfold null_type_of in Hty.
    repeat match type of Hty with (if ?b then _ else _) = _ => destruct b; [injection Hty as <-; discriminate|] end.
    discriminate Hty.
Qed.
Lemma aval_value ann text fol anns ty v :
  aval_spells pd pt lst ctx ann text fol anns ty v -> (v = XNil /\ ty <> 0%N) \/ (exists t, acc_token ty v = Some t).
Proof. induction 1; eauto using item_value. Qed.
End Stream2.

(* ---- top-level streams ------------------------------------------------------------------------------------------------------- *)
Section Top.
Variable pd : list N -> res dec.
Variable pt : list N -> res (list N).
Variable lst : rlst.
Notation BTA := trsBeforeTypeAnnotations.

(* a value as the reader presents it: annotations, type, value *)
Definition sval := (list tok * N * xvalue)%type.
Definition tr_sval (sv : sval) : list (list N) :=
  let '(anns, ty, v) := sv in
  match v with
  | XNil => tr_head None anns ty true
  | _ => tr_head None anns ty false ++ match acc_token ty v with Some t => [t] | None => [] end
  end.
Definition tr_tail : list (list N) := [[70]; [101; 48]; [70]; [101; 48]; [70]; [101; 48]]%N.
Definition strace (vs : list sval) : list (list N) := flat_map tr_sval vs ++ tr_tail.

(* a text that starts at a value: values, each followed by a whitespace run, up to the end of the input *)
Inductive vals_spell : list N -> list sval -> Prop :=
| vs_nil : vals_spell [] []
| vs_cons text fol anns ty v wn rest vs :
    aval_spells pd pt lst [] [] text fol anns ty v -> ws_run wn -> fol wn rest -> vals_spell rest vs ->
    vals_spell (text ++ wn ++ rest) ((anns, ty, v) :: vs).

Lemma vals_first rest vs : vals_spell rest vs -> ws_stop (zs rest) = true /\ dcolon (zs rest) = false.
Proof.
  destruct 1 as [|text fol anns ty v wn rest vs Hav Hwn Hfol Hvs]; [split; reflexivity|].
  destruct (aval_first pd pt lst [] [] text fol anns ty v Hav) as (c & r & -> & Hc). cbn [app].
  exact (val_start_stop c _ Hc).
Qed.

Lemma rrun_finish_settled S k u S1 fld ann ty v :
  runK t_finish_value (S, k, u) u (S1, k, false) ->
  rrun x_finish_value (mkax S k u BTA [] false false lst fld ann ty v) tt (mkax S1 k false BTA [] false false lst fld ann ty v).
Proof.
  intros Rf. unfold x_finish_value. eapply rrun_bind; [apply rrun_lift; cbn [a_s a_k a_u]; exact Rf|].
  unfold ax_tok. cbn [a_s a_k a_u a_state a_ctx a_eof a_err a_lst a_field a_annots a_type a_value].
  destruct u; [|apply rrun_ret].
  apply rrun_rmod. intros x Ha. xfields Ha. split; [|reflexivity].
  unfold xabs, state_after_value. cbn [x_tok x_state x_ctx x_eof x_err x_lst x_field x_annots x_type x_value xs_state].
  rewrite Fs, Fk, Fu, Fctx, Feof, Ferr, Flst, Ffield, Fannots, Ftype, Fvalue. reflexivity.
Qed.

Lemma x_fuel_S x : x_fuel x = S (S (t_rem (x_tok x))).
Proof. reflexivity. Qed.

Lemma top_next x S0 k u fld ann ty v text fol anns ty' v' wn rest :
  xok x -> xabs x = mkax S0 k u BTA [] false false lst fld ann ty v -> settled S0 k u (text ++ wn ++ rest) ->
  aval_spells pd pt lst [] [] text fol anns ty' v' -> no_cr (text ++ wn) -> ws_run wn -> fol wn rest ->
  ws_stop (zs rest) = true -> dcolon (zs rest) = false ->
  exists x' S' k' u', x_next pd pt x = (x', Ok true) /\ xok x' /\
    xabs x' = mkax S' k' u' BTA [] false false lst None anns ty' v' /\ settled S' k' u' rest.
Proof.
  intros Hi Ha (S1 & w1 & Rf & Hw1 & Hcr1 & He1 & Hlen) Hav Hcr Hwn Hfol Hst Hdc.
  apply no_cr_app in Hcr as [Hct Hcrn].
  destruct He1 as (e & Hee & ES1).
  set (S2 := zs rest ++ e).
  assert (He2 : ends S2 rest) by (exists e; auto).
  assert (HS1 : S1 = zs w1 ++ zs text ++ zs wn ++ S2) by (rewrite ES1; unfold S2; list_norm).
  xfields Ha.
  assert (Hk : (length text <= S (t_rem (x_tok x)))%nat).
  { pose proof (stream_rem (x_tok x)) as Hr. rewrite Fs in Hr. rewrite !app_length in Hlen. lia. }
  destruct (aval_next pd pt (x_next_inner pd pt) lst [] [] text fol anns ty' v' Hav wn rest S2 Hct Hwn Hcrn Hfol He2)
    as (S' & k' & u' & Hset & R0).
  { now rewrite (ends_ws_stop _ _ He2). }
  { now rewrite (ends_dcolon _ _ He2). }
  pose proof (R0 w1 k None 0%N XNil (S (t_rem (x_tok x))) (x_fuel x) Hk Hw1 Hcr1) as R.
  destruct (x_next_with_ok pd pt (x_next_inner pd pt) (x_fuel x) x
              (mkax S1 k false BTA [] false false lst fld ann ty v) true
              (mkax S' k' u' BTA [] false false lst None anns ty' v')) as (x2 & E & Hi2 & Ha2); auto.
  - rewrite Fst. discriminate.
  - rewrite Ha. now apply rrun_finish_settled.
  - unfold ax_clear. cbn [a_s a_k a_u a_state a_ctx a_eof a_err a_lst]. rewrite HS1. rewrite x_fuel_S at 1. exact R.
  - exists x2, S', k', u'. auto.
Qed.

(* the end of the input *)
Lemma top_eof x S0 k u fld ann ty v :
  xok x -> xabs x = mkax S0 k u BTA [] false false lst fld ann ty v -> settled S0 k u [] ->
  exists x', x_next pd pt x = (x', Ok false) /\ x_eof x' = true /\ x_err x' = false.
Proof.
  intros Hi Ha (S1 & w1 & Rf & Hw1 & Hcr1 & He1 & Hlen). rewrite app_nil_r in He1.
  destruct He1 as (e & Hee & ES1).
  assert (Hse : ws_stop e = true) by (apply ws_stop_eof, all_eof_shead; exact Hee).
  xfields Ha.
  set (X2 := mkax (after_stop e) tokenEOF true BTA [] true false lst None [] 0%N XNil).
  assert (R : rrun (x_next_loop pd pt (x_next_inner pd pt) (x_fuel x) (x_fuel x))
                   (mkax (zs w1 ++ e) k false BTA [] false false lst None [] 0%N XNil) false X2).
  { rewrite x_fuel_S at 1. intros y Hy Hay.
    pose proof (rrun_lift t_next (mkax (zs w1 ++ e) k false BTA [] false false lst None [] 0%N XNil)
                  tt (after_stop e) tokenEOF true) as HL.
    destruct (HL (runK_t_next w1 e k _ Hw1 Hcr1 Hse ltac:(rewrite (all_eof_shead e Hee); apply runK_t_ok)) y Hy Hay)
      as (y1 & E1 & Hy1 & Hay1).
    unfold ax_tok in Hay1. cbn [a_state a_ctx a_eof a_err a_lst a_field a_annots a_type a_value] in Hay1.
    pose proof Hay1 as Hay1'. xfields Hay1.
    assert (E2 : next_before_type_annotations pd pt (x_next_inner pd pt) (x_fuel x) y1 = (xs_eof y1 true, Ok true)).
    { unfold next_before_type_annotations. unfold rbind at 1. unfold rget. cbv zeta. rewrite Fk0, Fannots0. tok_cbn.
      unfold x_at_top. rewrite Fctx0. reflexivity. }
    exists (xs_eof y1 true). rewrite (next_loop_bta pd pt (x_next_inner pd pt) _ (x_fuel x) y y1 _ true E1 Fst0 E2).
    split; [reflexivity|]. split; [exact Hy1|].
    unfold X2, xabs. cbn [x_tok x_state x_ctx x_eof x_err x_lst x_field x_annots x_type x_value xs_eof].
    rewrite Fs0, Fk0, Fu0, Fst0, Fctx0, Ferr0, Flst0, Ffield0, Fannots0, Ftype0, Fvalue0. reflexivity. }
  destruct (x_next_with_ok pd pt (x_next_inner pd pt) (x_fuel x) x
              (mkax S1 k false BTA [] false false lst fld ann ty v) false X2) as (x2 & E & Hi2 & Ha2); auto.
  - rewrite Fst. discriminate.
  - rewrite Ha. now apply rrun_finish_settled.
  - unfold ax_clear. cbn [a_s a_k a_u a_state a_ctx a_eof a_err a_lst]. rewrite ES1. exact R.
  - exists x2. split; [exact E|]. xfields Ha2. auto.
Qed.

Lemma x_op_next x x' b : x_next pd pt x = (x', Ok b) -> x_op pd pt x ONext = (x', Some [if b then 84 else 70]%N).
Proof. intros E. unfold x_op, x_op_res. rewrite E. reflexivity. Qed.

Lemma vals_no_cr_split text wn rest : no_cr (text ++ wn ++ rest) -> no_cr (text ++ wn) /\ no_cr rest.
Proof.
  intros H. apply no_cr_app in H as [H1 H2]. apply no_cr_app in H2 as [H2 H3]. split; [|exact H3].
  apply no_cr_app. auto.
Qed.

(* the traversal of a top-level stream of scalars *)
Lemma traverse_vals : forall text vs, vals_spell text vs -> no_cr text ->
  forall x S0 k u fld ann ty v f acc,
  xok x -> xabs x = mkax S0 k u BTA [] false false lst fld ann ty v -> settled S0 k u text ->
  (length vs < f)%nat ->
  exists x', x_traverse_loop pd pt f x 0 acc = (x', [70]%N :: rev (flat_map tr_sval vs) ++ acc, false) /\
             x_eof x' = true /\ x_err x' = false.
Proof.
  induction 1 as [|text fol anns ty' v' wn rest vs Hav Hwn Hfol Hvs IH]; intros Hcr x S0 k u fld ann ty v f acc Hi Ha Hset Hf.
  - destruct (top_eof x S0 k u fld ann ty v Hi Ha Hset) as (x' & E & He & Hr).
    destruct f as [|f]; [cbn [length] in Hf; lia|]. cbn [x_traverse_loop].
    rewrite (x_op_next x x' false E). change (list_eqb [70]%N [70]%N) with true. cbv iota.
    exists x'. cbn [flat_map rev app]. auto.
  - destruct (vals_no_cr_split _ _ _ Hcr) as [Hcr1 Hcr2].
    destruct (vals_first rest vs Hvs) as [Hst Hdc].
    destruct (top_next x S0 k u fld ann ty v text fol anns ty' v' wn rest Hi Ha Hset Hav Hcr1 Hwn Hfol Hst Hdc)
      as (x1 & S' & k' & u' & E & Hi1 & Ha1 & Hset1).
    destruct f as [|f]; [cbn [length] in Hf; lia|].
    pose proof (x_op_next x x1 true E) as Eo. xfields Ha1.
    destruct (IH Hcr2 x1 S' k' u' None anns ty' v' f
                (rev (tr_sval (anns, ty', v')) ++ acc) Hi1 Ha1 Hset1 ltac:(cbn [length] in Hf; lia)) as (x' & Et & He & Hr).
    exists x'. split; [|auto].
    destruct (aval_value pd pt lst [] [] text fol anns ty' v' Hav) as [[-> Hty]|[t Ht]].
    + rewrite (traverse_null pd pt f x x1 0 acc ty' Eo Ferr Ftype Hty Fvalue). rewrite Ffield, Fannots.
      cbn [tr_sval] in Et. rewrite Et. cbn [flat_map tr_sval]. rewrite rev_app_distr, <- app_assoc. reflexivity.
    + rewrite (traverse_scalar pd pt f x x1 0 acc ty' v' t Eo Ferr Ftype Fvalue Ht). rewrite Ffield, Fannots.
      assert (Htr : tr_sval (anns, ty', v') = tr_head None anns ty' false ++ [t]).
      { cbn [tr_sval]. rewrite Ht. destruct v'; try reflexivity. discriminate Ht. }
      rewrite Htr in Et. rewrite rev_app_distr in Et. cbn [rev app] in Et. rewrite Et.
      cbn [flat_map]. rewrite Htr. rewrite !rev_app_distr, <- !app_assoc. reflexivity.
Qed.
End Top.

(* ---- the whole traversal, from the bytes of the input --------------------------------------------------------------------- *)
Theorem traverse_scalar_stream pd pt inp w0 text vs :
  norm inp = w0 ++ text -> ws_run w0 -> vals_spell pd pt LSys text vs ->
  x_traverse pd pt inp false = strace vs.
Proof.
  intros Hn Hw0 Hvs. unfold x_traverse.
  pose proof (norm_no_cr inp) as Hcr. rewrite Hn in Hcr. apply no_cr_app in Hcr as [Hcr0 Hcrt].
  assert (Hi : xok (x_init inp false)) by reflexivity.
  assert (Ha : xabs (x_init inp false)
               = mkax (zs (norm inp)) tokenError false trsBeforeTypeAnnotations [] false false LSys None [] 0%N XNil) by reflexivity.
  assert (Hset : settled (zs (norm inp)) tokenError false text).
  { apply (settled_false _ _ text w0); auto. rewrite Hn. exists []. split; [constructor|now rewrite app_nil_r]. }
  assert (Hf : (length vs < 4 * length inp + 17)%nat).
  { assert (Hl : forall t v, vals_spell pd pt LSys t v -> (length v <= length t)%nat).
    { induction 1 as [|tx fol anns ty v wn rest vs' Hav Hwn Hfol Hv IH]; [cbn; lia|].
      destruct (aval_first pd pt LSys [] [] tx fol anns ty v Hav) as (c & r & -> & _).
      cbn [length app]. rewrite !app_length. lia. }
    pose proof (Hl _ _ Hvs). pose proof (norm_length inp) as Hnl. rewrite Hn, app_length in Hnl. lia. }
  destruct (traverse_vals pd pt LSys text vs Hvs Hcrt (x_init inp false) _ _ _ _ _ _ _ (4 * length inp + 17)%nat [] Hi Ha Hset Hf)
    as (x' & Et & He & Hr).
  rewrite Et. cbv iota.
  assert (Hnext : x_next pd pt x' = (x', Ok false)).
  { unfold x_next, x_next_with. rewrite He, orb_true_r. reflexivity. }
  cbn [x_run]. unfold x_op_res at 1. rewrite Hr. cbv iota.
  cbn [x_run]. unfold x_op_res at 1. rewrite Hnext.
  cbn [x_run]. unfold x_op_res at 1. rewrite Hr. cbv iota.
  cbn [x_run]. unfold x_op_res at 1. rewrite Hnext.
  cbn [x_run]. unfold x_op_res at 1. rewrite Hr. cbv iota.
  cbn [x_run rev app]. unfold strace, tr_tail. rewrite app_nil_r.
  rewrite rev_involutive, <- app_assoc. reflexivity.
Qed.

(* the model as the driver instantiates it *)
Theorem traverse_scalar_stream_text inp w0 text vs :
  norm inp = w0 ++ text -> ws_run w0 -> vals_spell parse_decimal_text parse_ts_text LSys text vs ->
  x_traverse parse_decimal_text parse_ts_text inp false = strace vs.
Proof. apply traverse_scalar_stream. Qed.

(* the premises of the relation that mention the parsers follow from the grammar-level theorems *)
Lemma num_value_decimal n :
  num_wf n -> num_kind n = NKDecimal -> -2147483648 <= d_exp (dec_denotes n) <= 2147483647 -> written_exp_int64 n = true ->
  num_value parse_decimal_text n = Some (TDecimal, XDecimal (dec_denotes n)).
Proof. intros Hwf Hk H1 H2. unfold num_value. rewrite Hk, (parse_decimal_spelling n Hwf Hk H1 H2). reflexivity. Qed.
Lemma ts_item ann lst ctx sh :
  ts_ok sh = true ->
  item_spells parse_decimal_text parse_ts_text lst ctx ann (ts_text sh) f_term TTimestamp
              (XTimestamp (show_tuple (ts_fields sh))).
Proof. intros H. apply it_ts; [now apply ts_ok_fits|now apply parse_ts_text_spelling]. Qed.

(* ---- an example: the hypotheses are satisfiable ---------------------------------------------------------------------------- *)
Definition stream_example : list N :=
  s " 1_2 /*c*/ a :: 'b'::" ++ [34]%N ++ s "x\n" ++ [34; 13; 10]%N ++ s "null.int $4 -0x1F".
Definition stream_example_values : list sval :=
  [ ([], TInt, XInt (I64 12));
    ([{| tk_text := Some (s "a"); tk_sid := -1 |}; {| tk_text := Some (s "b"); tk_sid := -1 |}], TString, XString [120; 10]%N);
    ([], TInt, XNil);
    ([], TSymbol, XSymbol {| tk_text := Some (s "name"); tk_sid := 4 |});
    ([], TInt, XInt (I64 (-31))) ].
Example stream_example_spells :
  exists w0 text, norm stream_example = w0 ++ text /\ ws_run w0 /\
                  vals_spell parse_decimal_text parse_ts_text LSys text stream_example_values.
Proof.
  exists (s " "), (s "1_2" ++ s " /*c*/ " ++ (s "a :: 'b'::" ++ [34]%N ++ s "x\n" ++ [34]%N) ++ [10]%N ++
                   s "null.int" ++ s " " ++ s "$4" ++ s " " ++ s "-0x1F" ++ [] ++ []).
  split; [reflexivity|]. split; [apply ws_ch; [reflexivity|constructor]|].
  (* 1_2 *)
  apply (vs_cons _ _ _ (s "1_2") f_term [] TInt (XInt (I64 12)) (s " /*c*/ ")).
  { apply av_item.
    apply (it_num _ _ _ _ _ {| n_neg := false; n_iw := s "1_2"; n_ip := s "12"; n_dot := false; n_fw := []; n_fp := [];
                               n_exp := None |}); [|reflexivity].
    split; [|split; [|split]]; cbn.
    - apply usd; [reflexivity|]. apply ut_under; [reflexivity|]. apply ut_digit; [reflexivity|]. apply ut_nil.
    - right. discriminate.
    - auto.
    - exact I. }
  { apply ws_ch; [reflexivity|]. apply (ws_block (s "c")); [reflexivity|]. apply ws_ch; [reflexivity|constructor]. }
  { reflexivity. }
  (* a :: 'b'::"x\n" *)
  apply (vs_cons _ _ _ (s "a :: 'b'::" ++ [34]%N ++ s "x\n" ++ [34]%N) f_any
           [{| tk_text := Some (s "a"); tk_sid := -1 |}; {| tk_text := Some (s "b"); tk_sid := -1 |}] TString
           (XString [120; 10]%N) [10]%N).
  { apply (av_id _ _ _ _ [] (s "a") {| tk_text := Some (s "a"); tk_sid := -1 |} (s " ") (s " ")
             (s "'b'::" ++ [34]%N ++ s "x\n" ++ [34]%N)).
    - constructor; [unfold id_start, letter; cbn; lia|constructor].
    - reflexivity.
    - reflexivity.
    - apply ws_ch; [reflexivity|constructor].
    - apply ws_ch; [reflexivity|constructor].
    - apply (av_quoted _ _ _ _ _ (s "b") (s "b") [] [] ([34]%N ++ s "x\n" ++ [34]%N)).
      + apply qb_raw; [unfold raw_char, str_ws; cbn; lia|apply qb_nil].
      + reflexivity.
      + constructor.
      + constructor.
      + apply av_item. apply (it_str _ _ _ _ _ (s "x\n") [120; 10]%N); [|reflexivity].
        apply qb_raw; [unfold raw_char, str_ws; cbn; lia|].
        apply (qb_esc 34 (s "n") 10 [] []); [|apply qb_nil]. apply es_one. unfold esc_table. cbn [In]. do 4 right. left. reflexivity. }
  { apply ws_ch; [reflexivity|constructor]. }
  { exact I. }
  (* null.int *)
  apply (vs_cons _ _ _ (s "null.int") f_ident [] TInt XNil (s " ")).
  { apply av_item. apply (it_tnull _ _ _ _ _ (s "int") TInt); reflexivity. }
  { apply ws_ch; [reflexivity|constructor]. }
  { reflexivity. }
  (* $4 *)
  apply (vs_cons _ _ _ (s "$4") f_ident [] TSymbol (XSymbol {| tk_text := Some (s "name"); tk_sid := 4 |}) (s " ")).
  { apply av_item. apply it_sym; try reflexivity.
    constructor; [unfold id_start; cbn; lia|]. apply Forall_cons; [unfold id_part, digit; cbn; lia|constructor]. }
  { apply ws_ch; [reflexivity|constructor]. }
  { reflexivity. }
  (* -0x1F at the end of the input *)
  apply (vs_cons _ _ _ (s "-0x1F") f_term [] TInt (XInt (I64 (-31))) [] []).
  { apply av_item. apply (it_radix _ _ _ _ _ true true 120%N (s "1F") (s "1F")). split; [now left|].
    cbn. apply usd; [reflexivity|]. apply ut_digit; [reflexivity|]. apply ut_nil. }
  { constructor. }
  { reflexivity. }
  apply vs_nil.
Qed.
(* the theorem applies, and the trace it promises is this one *)
Example stream_example_trace :
  x_traverse parse_decimal_text parse_ts_text stream_example false = strace stream_example_values.
Proof.
  destruct stream_example_spells as (w0 & text & Hn & Hw & Hv). exact (traverse_scalar_stream_text _ w0 text _ Hn Hw Hv).
Qed.
Example stream_example_strace :
  join_sp (strace stream_example_values) =
  s "T nil a[] y3 n0 I12 T nil a[k61.-1;k62.-1;] y8 n0 Sx780a T nil a[] y3 n1 T nil a[] y7 n0 k6e616d65.4 T nil a[] y3 n0 I-31 F e0 F e0 F e0".
Proof. vm_compute. reflexivity. Qed.

(* ---- cross-check with the specification decoder on exotic number spellings --------------------------------------------------- *)
Definition show_str (l : list N) : string := string_of_list_ascii (map Ascii.ascii_of_N l).
Definition both_views (t : list N) : option string * string :=
  (option_map (fun v => show_str (show_values v)) (SpecText.tdecode t),
   show_str (join_sp (x_traverse parse_decimal_text parse_ts_text t false))).
Example num_cross_check :
  both_views (s "-1_234.5_0e-07 ") =
    (Some "F13772058561983405160", "T nil a[] y4 n0 Ftext2d313233342e3530652d3037 F e0 F e0 F e0")%string /\
  both_views (s "-0b1_0 0xAb_cD") =
    (Some "I-2 I43981", "T nil a[] y3 n0 I-2 T nil a[] y3 n0 I43981 F e0 F e0 F e0")%string /\
  both_views (s "-0. -0d0 12_3.4_5D-6/**/0.00") =
    (Some "D0e0z1 D0e0z1 D12345e-8z0 D0e-2z0",
     "T nil a[] y5 n0 D0e0z1 T nil a[] y5 n0 D0e0z1 T nil a[] y5 n0 D12345e-8z0 T nil a[] y5 n0 D0e-2z0 F e0 F e0 F e0")%string /\
  both_views (s "+inf -inf/**/nan") =
    (Some "F9218868437227405312 F18442240474082181120 F9221120237041090560",
     "T nil a[] y4 n0 F9218868437227405312 T nil a[] y4 n0 F18442240474082181120 T nil a[] y4 n0 F9221120237041090560 F e0 F e0 F e0")%string /\
  (* not spellings: both refuse *)
  map both_views [s "1_0d+0_1"; s "0_1"; s "1__2"; s "1_"; s "0x_1"; s "-_1"] =
    repeat (None, "F e1 F e1 F e1"%string) 6.
Proof. vm_compute. repeat split. Qed.
Example stream_cross_check :
  option_map (fun v => show_str (show_values v)) (SpecText.tdecode stream_example)
  = Some "I12 at61 at62 Sx780a n3 Yt6e616d65 I-31"%string.
Proof. vm_compute. reflexivity. Qed.
