(* DenoteCallsTextReadP.v — C12, text Writer, any call sequence: composition of the lock-step theorem of
   Text/DenoteCallsTextP.v with C01's "the canonical text is a spelling of the forest and the reader model reads
   it back" (Text/WriteSpellStream.v). *)
From Coq Require Import String List NArith ZArith Bool Lia.
From IonV Require Import Base.Wire Base.Utf8 Data.Ion Num.Float Bin.BinWriter Bin.BitStream Bin.BinReader Bin.DenoteCalls
  Text.TextOut Text.TextWriter Text.TextRoundtrip Text.Tokenizer Text.Skipper Text.TextReader Text.TextNum
  Text.SpellBase Text.SpellStream Text.SpellTree Text.WriteSpell Text.WriteSpellOut Text.WriteSpellStream
  Text.DenoteCallsTextP.
Import ListNotations.
Open Scope N_scope.

Theorem denote_text_reads_back F quiet cs w oks : Forall call_ok cs -> Forall plain_call cs ->
  tw_drive F (new_text_writer None false quiet) cs = Ok (w, oks) -> final_finish_ok cs oks ->
  exists vs, denote cs oks = Some vs /\ sink_bytes (tw_out w) = wt_stream F quiet vs /\
    (Forall (wf_top F) vs ->
     tops_spell PD PT LSys (sink_bytes (tw_out w)) (tvs F vs) /\
     x_traverse PD PT (sink_bytes (tw_out w)) false = ttrace (tvs F vs)).
Proof.
  intros Hc Hpl E Hf. destruct (denote_text_sound F quiet cs w oks Hc Hpl E Hf) as (vs & Ed & Eb).
  exists vs. split; [exact Ed|]. split; [exact Eb|]. intros Hwf.
  destruct (write_then_read F quiet vs Hwf) as (w2 & oks2 & _ & _ & Eb2 & Hsp & Htr).
  rewrite Eb2 in Hsp, Htr. rewrite Eb. split; assumption.
Qed.
