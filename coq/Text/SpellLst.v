(* SpellLst.v — C02, stage 8j: a local symbol table at the top level of a text stream.
   `$ion_symbol_table::{ ... }` (further annotations allowed behind the first) is consumed inside one call of Next:
   the reader steps into the struct and reads it with its own Next / StepIn / StepOut (readLocalSymbolTable).
   This file follows that reading over the spelled text:
     [next_inner_eq]   inside a container the Next that readLocalSymbolTable calls is the reader's Next;
     [symlist]         the members of the `symbols` list (annotated scalars of every class, any separators) with the
                       entries they denote (a string: its text; anything else: no text);
     [lstbody]         the fields of the table struct: scalars, and `symbols:[...]`, with the imports / symbols it denotes;
     [lst_step]        one round of the loop of Next on the whole table: the reader's symbol table becomes
                       [install lst oi os] and the loop goes on behind the closing brace.
   Not covered: a field value that is a container other than the list of `symbols` (in particular `imports:[...]`),
   containers as members of the `symbols` list. *)
From Coq Require Import String List NArith ZArith Bool Lia ZifyBool ZifyN ZifyNat.
From IonV Require Import Base.Wire Base.Utf8 Data.Ion Bin.Bits Bin.BitStream Bin.BinReader Num.Float Text.Tokenizer Text.Skipper
  Text.TextReader Text.TextReaderNP Text.TextNum Text.SpellBase Text.SpellWs Text.SpellNum Text.SpellTok Text.SpellRead
  Text.SpellEsc Text.SpellStr Text.SpellLong Text.SpellIdent Text.SpellSym Text.SpellTs Text.SpellBlob
  Text.SpellVal Text.SpellSymVal Text.SpellOp Text.SpellStream Text.SpellCont Text.SpellTree
  Text.SpellEofc Text.SpellOp2 Text.SpellStream2 Text.SpellIvm Text.SpellTree2.
Import ListNotations.
Open Scope Z_scope.

(* ---- inside a container Next does not depend on the Next handed to readLocalSymbolTable --------------------------- *)
Section Inner.
Variable pd : list N -> res dec.
Variable pt : list N -> res (list N).

Lemma rget_bind {A} (f : xstate -> R A) x : rbind rget f x = f x x.
Proof. reflexivity. Qed.

Lemma rmod_bind {A} (f : xstate -> xstate) (g : unit -> R A) x : rbind (rmod f) g x = g tt (f x).
Proof. reflexivity. Qed.

Lemma nbta_api api1 api2 fuel x : x_ctx x <> [] ->
  next_before_type_annotations pd pt api1 fuel x = next_before_type_annotations pd pt api2 fuel x.
Proof.
  intros Hc. unfold next_before_type_annotations. rewrite !rget_bind. cbv beta zeta.
  assert (Top : x_at_top x = false) by (unfold x_at_top; destruct (x_ctx x); congruence).
  repeat match goal with
         | |- (if ?b then _ else _) x = (if ?b then _ else _) x => destruct b; try reflexivity
         end.
  rewrite !rmod_bind, !rget_bind. cbv beta.
  change (x_at_top (xs_val (xs_state x trsBeforeContainer) TStruct XContainer)) with (x_at_top x). rewrite Top. reflexivity.
Qed.

Lemma next_loop_api api1 api2 fuel : forall k x, x_ctx x <> [] ->
  x_next_loop pd pt api1 k fuel x = x_next_loop pd pt api2 k fuel x.
Proof.
  induction k as [|k IH]; intros x Hc; cbn [x_next_loop]; [reflexivity|].
  pose proof (ctxpres_lift t_next x) as H1.
  destruct (lift t_next x) as [x1 [u| | |]]; cbn [fst] in *; try reflexivity.
  assert (Hc1 : x_ctx x1 <> []) by (rewrite H1; exact Hc).
  cbv zeta.
  destruct (x_state x1 =? trsAfterValue)%N.
  { pose proof (ctxpres_next_after_value x1) as G.
    destruct (next_after_value x1) as [x2 [[|]| | |]]; cbn [fst] in *; try reflexivity. apply IH. congruence. }
  destruct (x_state x1 =? trsBeforeFieldName)%N.
  { pose proof (ctxpres_next_before_field_name x1) as G.
    destruct (next_before_field_name x1) as [x2 [[|]| | |]]; cbn [fst] in *; try reflexivity. apply IH. congruence. }
  destruct (x_state x1 =? trsBeforeTypeAnnotations)%N; [|reflexivity].
  rewrite (nbta_api api1 api2 fuel x1 Hc1).
  pose proof (nbta_ctx pd pt api2 fuel x1 Hc1) as G.
  destruct (next_before_type_annotations pd pt api2 fuel x1) as [x2 [[|]| | |]]; cbn [fst] in *; try reflexivity.
  apply IH. congruence.
Qed.

Lemma next_inner_eq x : x_ctx x <> [] -> x_next_inner pd pt x = x_next pd pt x.
Proof.
  intros Hc. unfold x_next_inner, x_next, x_next_with.
  destruct ((x_state x =? trsDone)%N || x_eof x); [reflexivity|].
  pose proof (ctxpres_finish_value x) as H1.
  destruct (x_finish_value x) as [x1 [u| | |]]; cbn [fst] in *; try reflexivity.
  apply next_loop_api. cbn. congruence.
Qed.
End Inner.

(* ---- rounds of the loop of Next that go on, as equations ------------------------------------------------------------- *)
(* [rrunP m X a Post]: from every state with abstraction X, m answers Ok a in a state whose abstraction satisfies Post
   ([rrun m X a X'] is the case Post = (eq X')); the state behind a symbol table is only known up to [ends] *)
Definition rrunP {A} (m : R A) (X : ax) (a : A) (Post : ax -> Prop) : Prop :=
  forall x, xok x -> xabs x = X -> exists x', m x = (x', Ok a) /\ xok x' /\ Post (xabs x').
Lemma rrun_rrunP {A} (m : R A) X a X' (Post : ax -> Prop) : rrun m X a X' -> Post X' -> rrunP m X a Post.
Proof. intros H HP x Hi Ha. destruct (H x Hi Ha) as (x' & E & Hi' & Ha'). exists x'. rewrite Ha'. auto. Qed.

Section Steps.
Variable pd : list N -> res dec.
Variable pt : list N -> res (list N).
Variable api : xstate -> xstate * res bool.
Notation BTA := trsBeforeTypeAnnotations.

(* one round from a state with abstraction PRE leads to a state with abstraction MID, and the loop goes on *)
Definition loop_to (kk fuel : nat) (PRE MID : ax) : Prop :=
  forall x, xok x -> xabs x = PRE ->
  exists x2, xok x2 /\ xabs x2 = MID /\ x_next_loop pd pt api (S kk) fuel x = x_next_loop pd pt api kk fuel x2.
Lemma loop_to_pre_eq kk fuel PRE PRE' MID : loop_to kk fuel PRE MID -> PRE = PRE' -> loop_to kk fuel PRE' MID.
Proof. intros H <-. exact H. Qed.
Lemma loop_to_rrunP kk fuel PRE MID b Post :
  loop_to kk fuel PRE MID -> rrunP (x_next_loop pd pt api kk fuel) MID b Post ->
  rrunP (x_next_loop pd pt api (S kk) fuel) PRE b Post.
Proof. intros H1 H2 x Hi Ha. destruct (H1 x Hi Ha) as (x2 & Hi2 & Ha2 & E). rewrite E. exact (H2 x2 Hi2 Ha2). Qed.

(* SpellSymVal.ann_step_ident / ann_step_quoted in this form *)
Lemma ann_ident_to w id k wn r k0 ctx lst fld ann ty0 v0 kk fuel :
  ws_run w -> no_cr w -> ident_chars id -> is_keyword id = false -> new_symbol_token lst id = Ok k ->
  ws_run wn -> no_cr wn ->
  loop_to kk fuel (mkax (zs w ++ zs id ++ zs wn ++ 58 :: 58 :: r) k0 false BTA ctx false false lst fld ann ty0 v0)
                  (mkax r tokenSymbol false BTA ctx false false lst fld (ann ++ [k]) ty0 v0).
Proof.
  intros Hw Hcr Hid Hkw Hk Hwn Hcrn x Hi Ha.
  set (s1 := zs wn ++ 58 :: 58 :: r).
  assert (Hnp : is_identifier_part (shead s1) = false) by (apply (ws_run_head_not_id pd pt); [exact Hwn|reflexivity]).
  destruct (ident_first id s1 Hid) as (c & r0 & Eid & Hc & Est).
  destruct (ident_start_stop (Z.of_N c) (zs r0 ++ s1) Hc) as [Hst Has].
  destruct (loop_sym pd pt api w (zs id ++ s1) k0 tokenSymbol true (zs id ++ s1) ctx lst fld ann ty0 v0 false
              (mkax r tokenSymbol false BTA ctx false false lst fld (ann ++ [k]) ty0 v0)
              kk fuel Hw Hcr) with (x := x) as (x2 & Hi2 & Ha2 & E); auto.
  - rewrite Est. exact Hst.
  - rewrite Est. cbn [shead]. rewrite Has, (dispatch_ident _ Hc).
    eapply runK_bind; [apply run_runK, run_unread|]. apply runK_t_ok.
  - apply rrun_rget_bind. intros y Hy Hay. xfields Hay. unfold sym_branch.
    eapply rrun_bind; [apply rrun_lift; cbn [a_s a_k a_u]; apply (run_read_value_symbol id s1 _ _ Hid Hnp)|].
    unfold ax_tok. cbn [a_s a_k a_u a_state a_ctx a_eof a_err a_lst a_field a_annots a_type a_value].
    assert (Hsp : spush s1 = s1) by (unfold s1; destruct wn; reflexivity). rewrite Hsp.
    eapply rrun_bind; [apply rrun_lift_run; cbn [a_s]; apply (run_skip_double_colon_yes wn r Hwn Hcrn)|].
    cbv beta iota. unfold ax_tok. cbn [a_s a_k a_u a_state a_ctx a_eof a_err a_lst a_field a_annots a_type a_value].
    rewrite Hkw. tok_cbn.
    apply rrun_rget_bind. intros z Hz Haz. xfields Haz. rewrite Flst0.
    eapply rrun_bind; [apply rrun_of_res; exact Hk|].
    eapply rrun_bind; [|apply rrun_ret].
    apply rrun_rmod. intros z' Haz'. xfields Haz'. split; [|reflexivity].
    unfold xabs. cbn [x_tok x_state x_ctx x_eof x_err x_lst x_field x_annots x_type x_value xs_annots].
    rewrite Fs1, Fk1, Fu1, Fst1, Fctx1, Feof1, Ferr1, Flst1, Ffield1, Fannots1, Ftype1, Fvalue1. reflexivity.
  - exists x2. auto.
Qed.

Lemma ann_quoted_to w body text wn r k0 ctx lst fld ann ty0 v0 kk fuel :
  ws_run w -> no_cr w -> qbody 39 body text -> no_cr body -> utf8_valid text = true ->
  (body = [] -> shead (zs wn ++ 58 :: 58 :: r) <> 39) ->
  ws_run wn -> no_cr wn ->
  loop_to kk fuel (mkax (zs w ++ 39 :: zs body ++ 39 :: zs wn ++ 58 :: 58 :: r) k0 false BTA ctx false false lst fld ann ty0 v0)
                  (mkax r tokenSymbolQuoted false BTA ctx false false lst fld (ann ++ [tok_text text]) ty0 v0).
Proof.
  intros Hw Hcr Hb Hcb Hu H0 Hwn Hcrn x Hi Ha.
  set (s1 := zs wn ++ 58 :: 58 :: r).
  assert (Hpk : pks (1 - length body) s1 = s1).
  { unfold s1. rewrite pks_zs_app. f_equal.
    assert (Hle : (1 - length body - length wn <= 1)%nat) by lia.
    destruct (1 - length body - length wn)%nat as [|[|n]]; [reflexivity|reflexivity|lia]. }
  destruct (loop_sym pd pt api w (39 :: zs body ++ 39 :: s1) k0 tokenSymbolQuoted true (zs body ++ 39 :: s1)
              ctx lst fld ann ty0 v0 false
              (mkax r tokenSymbolQuoted false BTA ctx false false lst fld (ann ++ [tok_text text]) ty0 v0)
              kk fuel Hw Hcr) with (x := x) as (x2 & Hi2 & Ha2 & E); auto.
  - cbn [shead]. change (after_stop (39 :: zs body ++ 39 :: s1)) with (zs body ++ 39 :: s1).
    eapply eq_rect; [apply (runK_dispatch_quoted pd pt body s1 k0 H0 (qbody_first body text Hb))|].
    now rewrite Hpk.
  - apply rrun_rget_bind. intros y Hy Hay. xfields Hay. unfold sym_branch.
    eapply rrun_bind.
    { apply rrun_lift. cbn [a_s a_k a_u].
      apply (runK_read_value tokenSymbolQuoted read_quoted_symbol); [reflexivity|].
      apply (run_read_quoted_symbol body text _ Hb Hcb Hu). }
    unfold ax_tok. cbn [a_s a_k a_u a_state a_ctx a_eof a_err a_lst a_field a_annots a_type a_value].
    eapply rrun_bind; [apply rrun_lift_run; cbn [a_s]; apply (run_skip_double_colon_yes wn r Hwn Hcrn)|].
    cbv beta iota. unfold ax_tok. cbn [a_s a_k a_u a_state a_ctx a_eof a_err a_lst a_field a_annots a_type a_value].
    tok_cbn.
    apply rrun_rget_bind. intros z Hz Haz. xfields Haz.
    eapply rrun_bind; [apply rrun_ret|].
    eapply rrun_bind; [|apply rrun_ret].
    apply rrun_rmod. intros z' Haz'. xfields Haz'. split; [|reflexivity].
    unfold xabs. cbn [x_tok x_state x_ctx x_eof x_err x_lst x_field x_annots x_type x_value xs_annots].
    rewrite Fs1, Fk1, Fu1, Fst1, Fctx1, Feof1, Ferr1, Flst1, Ffield1, Fannots1, Ftype1, Fvalue1. reflexivity.
  - exists x2. auto.
Qed.
End Steps.

(* ---- one call of Next on a member of a container ------------------------------------------------------------------- *)
Section Members.
Variable pd : list N -> res dec.
Variable pt : list N -> res (list N).
Variable lst : rlst.
Notation BTA := trsBeforeTypeAnnotations.
Notation api := (x_next_inner pd pt).

(* a scalar *)
Lemma member_next ctx pre st fld n wb text fol anns ty v x wn rest :
  sep_spells2 lst ctx st pre fld n -> ws_run wb -> (pre = [] -> wb = []) ->
  aval_spells2 pd pt lst ctx [] text fol anns ty v ->
  nextable pd pt lst x st ctx (pre ++ wb ++ text ++ wn ++ rest) -> no_cr (pre ++ wb ++ text ++ wn) -> ws_run wn ->
  fol wn rest -> rest_ok ctx rest ->
  exists x1 S' k' u', x_next pd pt x = (x1, Ok true) /\ xok x1 /\
    xabs x1 = mkax S' k' u' (after_value_state ctx) ctx false false lst fld anns ty v /\ settled_w S' k' u' rest.
Proof.
  intros Hsep Hwb Hpw Hav Hnx Hcr Hwn Hfol Hrok.
  destruct (sep_facts2 pd pt lst _ _ _ _ _ Hsep) as [Hn Hnd].
  destruct (aval_nonempty2 pd pt lst ctx [] text fol anns ty v Hav) as (c0 & r0 & Etext & _ & Hc58).
  assert (Hcr' := Hcr). apply no_cr_app in Hcr' as [Hcp Hcr']. apply no_cr_app in Hcr' as [Hcb Hcr'].
  apply no_cr_app in Hcr' as [Hct Hcn].
  destruct (Hnx true
              (fun X2 => exists S' k' u', X2 = mkax S' k' u' (after_value_state ctx) ctx false false lst fld anns ty v /\
                                          settled_w S' k' u' rest)) as (x1 & E & Hi1 & HP).
  { intros S1 w1 k kk fuel Hw1 Hcr1 He1 Hlen.
    destruct (ends_split S1 _ _ He1) as (Sa & -> & Hea). destruct (ends_split Sa _ _ Hea) as (Sb & -> & Heb).
    destruct (ends_split Sb _ _ Heb) as (Sc & -> & Hec). destruct (ends_split Sc _ _ Hec) as (Sd & -> & Hed).
    destruct (ends_split Sd _ _ Hed) as (S2 & -> & He2).
    rewrite !app_length in Hlen.
    destruct (aval_next2 pd pt api lst ctx [] text fol anns ty v Hav wn rest S2 Hct Hwn Hcn Hfol He2 Hrok)
      as (S' & k' & u' & Hset' & R).
    exists (mkax S' k' u' (after_value_state ctx) ctx false false lst fld anns ty v). split; [|eauto].
    replace (S kk) with (n + S (kk - n))%nat by lia.
    apply (sep_loop2 pd pt lst ctx st pre fld n Hsep w1 wb (zs text ++ zs wn ++ S2) k (S (kk - n)) fuel true); auto.
    - apply no_cr_app. split; [exact Hcr1|]. apply no_cr_app. auto.
    - rewrite Etext. discriminate.
    - rewrite Etext. cbn [zs map app shead]. lia.
    - intros k1 w' Hw' Hcw'. apply R; auto. lia. }
  destruct HP as (S' & k' & u' & Ha1 & Hset1). exists x1, S', k', u'. auto.
Qed.

(* an opening bracket *)
Lemma member_open ctx pre st fld n wb otext anns tok x tail :
  sep_spells2 lst ctx st pre fld n -> ws_run wb -> (pre = [] -> wb = []) ->
  aopen_spells lst ctx [] otext anns tok -> (tok = tokenOpenBrace -> hd 0%N tail <> 123%N) ->
  nextable pd pt lst x st ctx (pre ++ wb ++ otext ++ tail) -> no_cr (pre ++ wb ++ otext) ->
  exists x1 r, x_next pd pt x = (x1, Ok true) /\ xok x1 /\
    xabs x1 = mkax r tok true trsBeforeContainer ctx false false lst fld anns (open_type tok) XContainer /\ ends r tail.
Proof.
  intros Hsep Hwb Hpw Hao Hb123 Hnx Hcr.
  destruct (sep_facts2 pd pt lst _ _ _ _ _ Hsep) as [Hn Hnd].
  destruct (aopen_first lst ctx [] otext anns tok Hao) as (c0 & r0 & Etext & Hc0).
  assert (Hcr' := Hcr). apply no_cr_app in Hcr' as [Hcp Hcr']. apply no_cr_app in Hcr' as [Hcb Hco].
  set (brace := (tok =? tokenOpenBrace)%N).
  destruct (Hnx true
              (fun X2 => exists r, X2 = mkax r tok true trsBeforeContainer ctx false false lst fld anns (open_type tok) XContainer /\
                                   ends r tail)) as (x1 & E & Hi1 & HP).
  { intros S1 w1 k kk fuel Hw1 Hcr1 He1 Hlen.
    destruct (ends_split S1 _ _ He1) as (Sa & -> & Hea). destruct (ends_split Sa _ _ Hea) as (Sb & -> & Heb).
    destruct (ends_split Sb _ _ Heb) as (Sc & -> & Hec). destruct (ends_split Sc _ _ Hec) as (Sd & -> & Hed).
    rewrite !app_length in Hlen.
    assert (Hbr : tok = tokenOpenBrace -> shead Sd <> 123).
    { intros Ht. specialize (Hb123 Ht). rewrite (ends_shead _ _ Hed). destruct tail as [|ct tl]; cbn [zs map shead hd] in *; lia. }
    exists (mkax (if brace then spush Sd else Sd) tok true trsBeforeContainer ctx false false lst fld anns (open_type tok) XContainer).
    split; [|exists (if brace then spush Sd else Sd); split; [reflexivity|]; destruct brace; [now apply ends_spush|exact Hed]].
    replace (S kk) with (n + S (kk - n))%nat by lia.
    apply (sep_loop2 pd pt lst ctx st pre fld n Hsep w1 wb (zs otext ++ Sd) k (S (kk - n)) fuel true); auto.
    - apply no_cr_app. split; [exact Hcr1|]. apply no_cr_app. auto.
    - rewrite Etext. discriminate.
    - rewrite Etext. cbn [zs map app shead]. destruct Hc0 as (_ & _ & H58). lia.
    - intros k1 w' Hw' Hcw'.
      apply (aopen_next pd pt lst ctx [] otext anns tok Hao w' Sd k1 fld 0%N XNil (kk - n) fuel); auto. lia. }
  destruct HP as (r & Ha1 & Her). exists x1, r. auto.
Qed.

(* the closing bracket *)
Lemma member_close ctx st pre tok n x S0 k u fld0 ann0 ty0 v0 outer :
  close_spells ctx st pre tok n ->
  xok x -> xabs x = mkax S0 k u st ctx false false lst fld0 ann0 ty0 v0 -> (u = true -> st = after_value_state ctx) ->
  settled S0 k u (pre ++ outer) -> no_cr pre ->
  exists x1 S2 st', x_next pd pt x = (x1, Ok false) /\ xok x1 /\
    xabs x1 = mkax S2 tok false st' ctx true false lst None [] 0%N XNil /\ ends S2 outer.
Proof.
  intros Hcl Hi Ha Hst Hset Hcr.
  destruct (close_facts pd pt _ _ _ _ _ Hcl) as (Hn & Hnd & _).
  destruct (x_next_settled pd pt x S0 k u st ctx lst fld0 ann0 ty0 v0 (pre ++ outer) false
              (fun X2 => exists S2 st', X2 = mkax S2 tok false st' ctx true false lst None [] 0%N XNil /\ ends S2 outer)
              Hi Ha Hnd Hst Hset) as (x1 & E & Hi1 & HP).
  { intros S1 w1 kk fuel Hw1 Hcr1 He1 Hlen.
    destruct (ends_split S1 _ _ He1) as (Sa & -> & Hea). destruct (ends_split Sa _ _ Hea) as (S2 & -> & He2).
    rewrite !app_length in Hlen.
    destruct (close_loop pd pt lst ctx st pre tok n Hcl w1 S2 k (kk - n) fuel Hw1) as (st' & R).
    { apply no_cr_app. auto. }
    exists (mkax S2 tok false st' ctx true false lst None [] 0%N XNil). split; [|eauto].
    replace (S kk) with (n + S (kk - n))%nat by lia. exact R. }
  destruct HP as (S2 & st' & Ha1 & He2). exists x1, S2, st'. auto.
Qed.
End Members.

(* ---- the `symbols` list ---------------------------------------------------------------------------------------------- *)
(* an entry of the list: a (non-null) string gives its text, anything else no text *)
Definition sym_entry (ty : N) (v : xvalue) : option (list N) :=
  if (ty =? TString)%N then match v with XString t => Some t | _ => None end else None.
(* ... which readSymbols records as the empty text (known defect D16 when the entry is not a string) *)
Definition entry_text (o : option (list N)) : list N := match o with Some t => t | None => [] end.

Section SymList.
Variable pd : list N -> res dec.
Variable pt : list N -> res (list N).
Variable lst : rlst.
Notation BTA := trsBeforeTypeAnnotations.
Notation api := (x_next_inner pd pt).
Notation LC := [CList; CStruct].
Notation SC := [CStruct].

(* the members of the list from reader state st, and the closing bracket; no whitespace in front *)
Inductive symlist : N -> list N -> list (option (list N)) -> Prop :=
| sl_close st pre tok n : close_spells LC st pre tok n -> symlist st pre []
| sl_item st pre fld n wb text fol anns ty v wn rest syms :
    sep_spells2 lst LC st pre fld n -> ws_run wb -> (pre = [] -> wb = []) ->
    aval_spells2 pd pt lst LC [] text fol anns ty v -> ws_run wn ->
    (forall outer, fol wn (rest ++ outer)) ->
    symlist trsAfterValue rest syms ->
    symlist st (pre ++ wb ++ text ++ wn ++ rest) (sym_entry ty v :: syms).

Lemma vs_first c r : val_start c -> first_ok (c :: r) /\ forall outer, startok ((c :: r) ++ outer).
Proof.
  intros Hc. split; [destruct Hc as (Ha & Hb & Hd); eexists _, _; eauto|]. intros outer. now apply val_start_startok.
Qed.
Lemma sep_member_first ctx st pre fld n wb text fol anns ty v wn rest :
  sep_spells2 lst ctx st pre fld n -> (pre = [] -> wb = []) ->
  aval_spells2 pd pt lst ctx [] text fol anns ty v -> (forall outer, fol wn (rest ++ outer)) ->
  first_ok (pre ++ wb ++ text ++ wn ++ rest) /\ forall outer, startok ((pre ++ wb ++ text ++ wn ++ rest) ++ outer).
Proof.
  intros Hsep Hpw Hav Hfol.
  destruct Hsep as [ctx|ctx|ctx nm k wn1 Hnm Hw1|ctx w nm k wn1 Hw Hnm Hw1].
  - rewrite (Hpw eq_refl). cbn [app].
    destruct (aval_nonempty2 pd pt lst ctx [] text fol anns ty v Hav) as (c & r & -> & Ha & Hb). split.
    + eexists _, _. cbn [app]. eauto.
    + intros outer. rewrite <- !app_assoc. apply (aval_first2 pd pt lst ctx [] _ fol anns ty v Hav). apply Hfol.
  - apply vs_first; unfold val_start; repeat split; (reflexivity || discriminate).
  - destruct (fname_first2 lst nm k Hnm) as (c & r & -> & Hc). cbn [app]. now apply vs_first.
  - apply vs_first; unfold val_start; repeat split; (reflexivity || discriminate).
Qed.
Lemma close_first ctx st pre tok n : close_spells ctx st pre tok n ->
  first_ok pre /\ (forall outer, startok (pre ++ outer)) /\ (1 <= length pre)%nat.
Proof.
  intros Hcl.
  assert (H : exists c r, pre = c :: r /\ val_start c).
  { destruct Hcl; eexists _, _; (split; [reflexivity|]); unfold val_start; repeat split; (reflexivity || discriminate). }
  destruct H as (c & r & -> & Hc). destruct (vs_first c r Hc) as [H1 H2]. split; [exact H1|]. split; [exact H2|]. cbn [length]. lia.
Qed.
Lemma symlist_first st t syms : symlist st t syms -> first_ok t /\ forall outer, startok (t ++ outer).
Proof.
  destruct 1 as [st pre tok n Hcl|st pre fld n wb text fol anns ty v wn rest syms Hsep Hwb Hpw Hav Hwn Hfol Hsl].
  - destruct (close_first _ _ _ _ _ Hcl) as (H1 & H2 & _). auto.
  - now apply (sep_member_first LC st pre fld n wb text fol anns ty v wn rest).
Qed.

Lemma read_symbols_loop_ok : forall st t syms, symlist st t syms ->
  forall x S0 k u fld0 ann0 ty0 v0 outer acc fuel,
  xok x -> xabs x = mkax S0 k u st LC false false lst fld0 ann0 ty0 v0 -> (u = true -> st = trsAfterValue) ->
  settled S0 k u (t ++ outer) -> no_cr t -> (length t <= fuel)%nat ->
  exists x1 S2 tok st', read_symbols_loop api fuel x acc = (x1, Ok (acc ++ map entry_text syms)) /\ xok x1 /\
    xabs x1 = mkax S2 tok false st' LC true false lst None [] 0%N XNil /\ ends S2 outer.
Proof.
  induction 1 as [st pre tok n Hcl|st pre fld n wb text fol anns ty v wn rest syms Hsep Hwb Hpw Hav Hwn Hfol Hsl IH];
    intros x S0 k u fld0 ann0 ty0 v0 outer acc fuel Hi Ha Hst Hset Hcr Hlen.
  - destruct (close_first _ _ _ _ _ Hcl) as (_ & _ & Hl1).
    destruct fuel as [|f]; [lia|].
    destruct (member_close pd pt lst LC st pre tok n x S0 k u fld0 ann0 ty0 v0 outer Hcl Hi Ha Hst Hset Hcr)
      as (x1 & S2 & st' & E & Hi1 & Ha1 & He2).
    assert (Hc : x_ctx x <> []) by (xfields Ha; rewrite Fctx; discriminate).
    exists x1, S2, tok, st'. cbn [read_symbols_loop]. rewrite (next_inner_eq pd pt x Hc), E. cbn [map]. rewrite app_nil_r. auto.
  - assert (Hcr' := Hcr). apply no_cr_app in Hcr' as [Hcp Hcr']. apply no_cr_app in Hcr' as [Hcb Hcr'].
    apply no_cr_app in Hcr' as [Hct Hcr']. apply no_cr_app in Hcr' as [Hcn Hcrest].
    destruct (symlist_first _ _ _ Hsl) as [_ Hro]. specialize (Hro outer).
    destruct (aval_nonempty2 pd pt lst LC [] text fol anns ty v Hav) as (c0 & r0 & Etext & _).
    destruct fuel as [|f]; [rewrite !app_length, Etext in Hlen; cbn [length] in Hlen; lia|].
    destruct (member_next pd pt lst LC pre st fld n wb text fol anns ty v x wn (rest ++ outer) Hsep Hwb Hpw Hav)
      as (x1 & S' & k' & u' & E & Hi1 & Ha1 & Hset1); auto.
    { rewrite <- !app_assoc in Hset. apply (nextable_settled pd pt lst x S0 k u st LC fld0 ann0 ty0 v0); auto.
      exact (proj2 (sep_facts2 pd pt lst _ _ _ _ _ Hsep)). }
    { repeat (apply no_cr_app; split); auto. }
    { now apply startok_rest_ok. }
    apply (settled_w_startok _ _ _ _ Hro) in Hset1.
    destruct (IH x1 S' k' u' fld anns ty v outer (acc ++ [entry_text (sym_entry ty v)]) f Hi1 Ha1 ltac:(reflexivity) Hset1 Hcrest)
      as (x2 & S2 & tok & st' & E2 & Hi2 & Ha2 & He2).
    { rewrite !app_length, Etext in Hlen. cbn [length] in Hlen. lia. }
    assert (Hc : x_ctx x <> []) by (xfields Ha; rewrite Fctx; discriminate).
    exists x2, S2, tok, st'. split; [|auto].
    cbn [read_symbols_loop]. rewrite (next_inner_eq pd pt x Hc), E. xfields Ha1.
    replace (if (x_type x1 =? TString)%N then match x_value x1 with XString t => t | _ => [] end else [])
      with (entry_text (sym_entry ty v)).
    + rewrite E2. cbn [map]. rewrite <- app_assoc. reflexivity.
    + rewrite Ftype, Fvalue. unfold sym_entry. destruct (ty =? TString)%N; [|reflexivity]. destruct v; reflexivity.
Qed.
End SymList.

(* ---- the fields of the table struct ---------------------------------------------------------------------------------- *)
Definition ist_name : list N := s "$ion_symbol_table"%string.
Definition tok_is_ist (k : tok) : bool := match tk_text k with Some y => list_eqb y ist_name | None => false end.
(* the value of an `imports` field that is a scalar: Some true = the symbol $ion_symbol_table (append to the current
   table), Some false = no imports; None = a symbol without that text but with ID 3 (the reader goes by the ID; it does
   not arise while the system symbols are the first nine of every table) *)
Definition imports_kind (ty : N) (v : xvalue) : option bool :=
  if (ty =? TSymbol)%N then
    match v with
    | XSymbol k => if tok_is_ist k then Some true else if is_append_marker k then None else Some false
    | _ => Some false
    end
  else Some false.
(* the imports the reader hands to NewLocalSymbolTable *)
Definition append_imps (cur : rlst) : list imp :=
  match cur with
  | LSys => []
  | LTab t0 => lt_imps t0 ++ [{| im_syms := lt_locals t0; im_maxid := N.of_nat (length (lt_locals t0)) |}]
  end.
Definition imps_of (cur : rlst) (b : bool) : list imp := if b then append_imps cur else [].
(* the table the reader installs: imports (Some true = append), symbols *)
Definition install (cur : rlst) (oi : option bool) (os : option (list (option (list N)))) : rlst :=
  let imps := match oi with Some b => imps_of cur b | None => [] end in
  let starts := match imps with
                | i :: _ => list_eqb (hd [] (im_syms i)) (s "$ion"%string) && (im_maxid i =? 9)%N
                | [] => false
                end in
  LTab {| lt_imps := process_imports imps starts;
          lt_locals := match os with Some sy => map entry_text sy | None => [] end |}.

Lemma scalar_not_list pd pt lst ctx ann text fol anns ty v :
  aval_spells2 pd pt lst ctx ann text fol anns ty v ->
  negb (ty =? TList)%N || (negb (ty =? 0)%N && match v with XNil => true | _ => false end) = true.
Proof.
  intros Hav. destruct (aval_value2 pd pt lst ctx ann text fol anns ty v Hav) as [[-> Hty]|[t Ht]].
  - destruct (N.eqb_spec ty 0); [contradiction|]. cbn. now rewrite orb_true_r.
  - destruct v; cbn [acc_token] in Ht; try discriminate;
      repeat match type of Ht with
             | (if (?a =? ?b)%N then _ else _) = _ => destruct (N.eqb_spec a b); [subst ty; reflexivity|try discriminate]
             | (if ((?a =? ?b) || _)%N then _ else _) = _ => destruct (N.eqb_spec a b); [subst ty; reflexivity|cbn [orb] in Ht]
             end.
Qed.

Section LstBody.
Variable pd : list N -> res dec.
Variable pt : list N -> res (list N).
Variable lst : rlst.
Notation BTA := trsBeforeTypeAnnotations.
Notation api := (x_next_inner pd pt).
Notation LC := [CList; CStruct].
Notation SC := [CStruct].

(* the fields from reader state st and the closing brace, with the imports field and the symbols field they hold *)
Inductive lstbody : N -> list N -> option bool -> option (list (option (list N))) -> Prop :=
| lb_close st pre tok n : close_spells SC st pre tok n -> lstbody st pre None None
(* a field of another name with a scalar value: ignored *)
| lb_other st pre k fnm n wb text fol anns ty v wn rest oi os :
    sep_spells2 lst SC st pre (Some k) n -> ws_run wb -> (pre = [] -> wb = []) -> tk_text k = Some fnm ->
    list_eqb fnm (s "symbols"%string) = false -> list_eqb fnm (s "imports"%string) = false ->
    aval_spells2 pd pt lst SC [] text fol anns ty v -> ws_run wn -> (forall outer, fol wn (rest ++ outer)) ->
    lstbody trsAfterValue rest oi os ->
    lstbody st (pre ++ wb ++ text ++ wn ++ rest) oi os
(* imports with a scalar value; no second imports field behind it *)
| lb_imports st pre k n wb text fol anns ty v b wn rest os :
    sep_spells2 lst SC st pre (Some k) n -> ws_run wb -> (pre = [] -> wb = []) -> tk_text k = Some (s "imports"%string) ->
    aval_spells2 pd pt lst SC [] text fol anns ty v -> imports_kind ty v = Some b ->
    ws_run wn -> (forall outer, fol wn (rest ++ outer)) ->
    lstbody trsAfterValue rest None os ->
    lstbody st (pre ++ wb ++ text ++ wn ++ rest) (Some b) os
(* symbols with a scalar value (null.list included): an empty list *)
| lb_symbols_scalar st pre k n wb text fol anns ty v wn rest oi :
    sep_spells2 lst SC st pre (Some k) n -> ws_run wb -> (pre = [] -> wb = []) -> tk_text k = Some (s "symbols"%string) ->
    aval_spells2 pd pt lst SC [] text fol anns ty v -> ws_run wn -> (forall outer, fol wn (rest ++ outer)) ->
    lstbody trsAfterValue rest oi None ->
    lstbody st (pre ++ wb ++ text ++ wn ++ rest) oi (Some [])
(* symbols with a list *)
| lb_symbols_list st pre k n wb otext anns w0 body syms wn rest oi :
    sep_spells2 lst SC st pre (Some k) n -> ws_run wb -> (pre = [] -> wb = []) -> tk_text k = Some (s "symbols"%string) ->
    aopen_spells lst SC [] otext anns tokenOpenBracket -> ws_run w0 -> symlist pd pt lst BTA body syms -> ws_run wn ->
    lstbody trsAfterValue rest oi None ->
    lstbody st (pre ++ wb ++ (otext ++ w0 ++ body) ++ wn ++ rest) oi (Some syms).

Lemma lstbody_first st t oi os : lstbody st t oi os -> first_ok t /\ forall outer, startok (t ++ outer).
Proof.
  destruct 1 as [st pre tok n Hcl
                |st pre k fnm n wb text fol anns ty v wn rest oi os Hsep Hwb Hpw Hk Hn1 Hn2 Hav Hwn Hfol Hb
                |st pre k n wb text fol anns ty v b wn rest os Hsep Hwb Hpw Hk Hav Hik Hwn Hfol Hb
                |st pre k n wb text fol anns ty v wn rest oi Hsep Hwb Hpw Hk Hav Hwn Hfol Hb
                |st pre k n wb otext anns w0 body syms wn rest oi Hsep Hwb Hpw Hk Hao Hw0 Hsl Hwn Hb].
  - destruct (close_first pd pt _ _ _ _ _ Hcl) as (H1 & H2 & _). auto.
  - now apply (sep_member_first pd pt lst SC st pre (Some k) n wb text fol anns ty v wn rest).
  - now apply (sep_member_first pd pt lst SC st pre (Some k) n wb text fol anns ty v wn rest).
  - now apply (sep_member_first pd pt lst SC st pre (Some k) n wb text fol anns ty v wn rest).
  - inversion Hsep as [ctx|ctx|ctx nm k' wn1 Hnm Hw1|ctx w nm k' wn1 Hw Hnm Hw1]; subst.
    + destruct (fname_first2 lst nm k Hnm) as (c & r & -> & Hc). cbn [app]. now apply vs_first.
    + apply vs_first; unfold val_start; repeat split; (reflexivity || discriminate).
Qed.

Lemma read_symbols_scalar x fuel :
  negb (x_type x =? TList)%N || (negb (x_type x =? 0)%N && match x_value x with XNil => true | _ => false end) = true ->
  read_symbols api fuel x = (x, Ok []).
Proof. intros H. unfold read_symbols, x_is_null. rewrite H. reflexivity. Qed.

Lemma read_imports_scalar x b fuel :
  x_err x = false -> x_lst x = lst ->
  negb (x_type x =? TList)%N || (negb (x_type x =? 0)%N && match x_value x with XNil => true | _ => false end) = true ->
  imports_kind (x_type x) (x_value x) = Some b ->
  read_imports api fuel x = (x, Ok (imps_of lst b)).
Proof.
  intros He Hl Hs Hk. unfold read_imports, imports_kind in *. fold (x_is_null x). unfold x_is_null. rewrite He, Hl.
  destruct (x_type x =? TSymbol)%N.
  - destruct (x_value x) as [| | | | | | |k| | |]; try (injection Hk as <-; rewrite Hs; reflexivity).
    unfold tok_is_ist, ist_name in Hk. unfold is_append_marker at 1.
    destruct (match tk_text k with Some y => list_eqb y (s "$ion_symbol_table"%string) | None => false end) eqn:E.
    + injection Hk as <-. rewrite orb_true_r. destruct lst; reflexivity.
    + unfold is_append_marker in Hk. rewrite E in *. destruct ((tk_sid k =? 3) || false); [discriminate|].
      injection Hk as <-. rewrite Hs. reflexivity.
  - injection Hk as <-. rewrite Hs. reflexivity.
Qed.

Lemma field_scalar_next st pre k n wb text fol anns ty v wn rest x S0 k0 u fld0 ann0 ty0 v0 outer :
  sep_spells2 lst SC st pre (Some k) n -> ws_run wb -> (pre = [] -> wb = []) ->
  aval_spells2 pd pt lst SC [] text fol anns ty v -> ws_run wn -> (forall outer, fol wn (rest ++ outer)) ->
  startok (rest ++ outer) ->
  xok x -> xabs x = mkax S0 k0 u st SC false false lst fld0 ann0 ty0 v0 -> (u = true -> st = trsAfterValue) ->
  settled S0 k0 u ((pre ++ wb ++ text ++ wn ++ rest) ++ outer) -> no_cr (pre ++ wb ++ text ++ wn ++ rest) ->
  exists x1 S' k' u', x_next_inner pd pt x = (x1, Ok true) /\ xok x1 /\
    xabs x1 = mkax S' k' u' trsAfterValue SC false false lst (Some k) anns ty v /\ settled S' k' u' (rest ++ outer) /\
    (1 <= length text)%nat /\ no_cr rest.
Proof.
  intros Hsep Hwb Hpw Hav Hwn Hfol Hro Hi Ha Hst Hset Hcr.
  assert (Hcr' := Hcr). apply no_cr_app in Hcr' as [Hcp Hcr']. apply no_cr_app in Hcr' as [Hcb Hcr'].
  apply no_cr_app in Hcr' as [Hct Hcr']. apply no_cr_app in Hcr' as [Hcn Hcrest].
  destruct (aval_nonempty2 pd pt lst SC [] text fol anns ty v Hav) as (c0 & r0 & Etext & _).
  destruct (member_next pd pt lst SC pre st (Some k) n wb text fol anns ty v x wn (rest ++ outer) Hsep Hwb Hpw Hav)
    as (x1 & S' & k' & u' & E & Hi1 & Ha1 & Hset1); auto.
  { rewrite <- !app_assoc in Hset. apply (nextable_settled pd pt lst x S0 k0 u st SC fld0 ann0 ty0 v0); auto.
    exact (proj2 (sep_facts2 pd pt lst _ _ _ _ _ Hsep)). }
  { repeat (apply no_cr_app; split); auto. }
  { now apply startok_rest_ok. }
  apply (settled_w_startok _ _ _ _ Hro) in Hset1.
  assert (Hc : x_ctx x <> []) by (xfields Ha; rewrite Fctx; discriminate).
  exists x1, S', k', u'. rewrite (next_inner_eq pd pt x Hc). repeat split; auto. rewrite Etext. cbn [length]. lia.
Qed.

Lemma read_lst_loop_ok : forall st t oi os, lstbody st t oi os ->
  forall x S0 k u fld0 ann0 ty0 v0 outer imps0 syms0 fi fs fuel,
  xok x -> xabs x = mkax S0 k u st SC false false lst fld0 ann0 ty0 v0 -> (u = true -> st = trsAfterValue) ->
  settled S0 k u (t ++ outer) -> no_cr t -> (length t <= fuel)%nat ->
  (fi = true -> oi = None) -> (fs = true -> os = None) ->
  exists x1 S2 tok st',
    read_lst_loop api fuel x imps0 syms0 fi fs =
      (x1, Ok (match oi with Some b => imps_of lst b | None => imps0 end,
               match os with Some sy => map entry_text sy | None => syms0 end)) /\ xok x1 /\
    xabs x1 = mkax S2 tok false st' SC true false lst None [] 0%N XNil /\ ends S2 outer.
Proof.
  induction 1 as [st pre tok n Hcl
                 |st pre k fnm n wb text fol anns ty v wn rest oi os Hsep Hwb Hpw Hk Hn1 Hn2 Hav Hwn Hfol Hb IH
                 |st pre k n wb text fol anns ty v b wn rest os Hsep Hwb Hpw Hk Hav Hik Hwn Hfol Hb IH
                 |st pre k n wb text fol anns ty v wn rest oi Hsep Hwb Hpw Hk Hav Hwn Hfol Hb IH
                 |st pre k n wb otext anns w0 body syms wn rest oi Hsep Hwb Hpw Hk Hao Hw0 Hsl Hwn Hb IH];
    intros x S0 k0 u fld0 ann0 ty0 v0 outer imps0 syms0 fi fs fuel Hi Ha Hst Hset Hcr Hlen Hfi Hfs;
    assert (Hc : x_ctx x <> []) by (xfields Ha; rewrite Fctx; discriminate).
  - destruct (close_first pd pt _ _ _ _ _ Hcl) as (_ & _ & Hl1).
    destruct fuel as [|f]; [lia|].
    destruct (member_close pd pt lst SC st pre tok n x S0 k0 u fld0 ann0 ty0 v0 outer Hcl Hi Ha Hst Hset Hcr)
      as (x1 & S2 & st' & E & Hi1 & Ha1 & He2).
    exists x1, S2, tok, st'. cbn [read_lst_loop]. rewrite (next_inner_eq pd pt x Hc), E. auto.
  - (* another field *)
    destruct (lstbody_first _ _ _ _ Hb) as [_ Hro]. specialize (Hro outer).
    destruct (field_scalar_next st pre k n wb text fol anns ty v wn rest x S0 k0 u fld0 ann0 ty0 v0 outer
                Hsep Hwb Hpw Hav Hwn Hfol Hro Hi Ha Hst Hset Hcr)
      as (x1 & S' & k' & u' & E & Hi1 & Ha1 & Hset1 & Hl1 & Hcrest).
    destruct fuel as [|f]; [rewrite !app_length in Hlen; lia|].
    destruct (IH x1 S' k' u' (Some k) anns ty v outer imps0 syms0 fi fs f Hi1 Ha1 ltac:(reflexivity) Hset1 Hcrest)
      as (x2 & S2 & tok & st' & E2 & Hi2 & Ha2 & He2); auto.
    { rewrite !app_length in Hlen. lia. }
    exists x2, S2, tok, st'. split; [|auto].
    cbn [read_lst_loop]. rewrite E. xfields Ha1. rewrite Ferr. unfold field_text. rewrite Ffield, Hk, Hn1, Hn2. exact E2.
  - (* imports *)
    destruct (lstbody_first _ _ _ _ Hb) as [_ Hro]. specialize (Hro outer).
    destruct (field_scalar_next st pre k n wb text fol anns ty v wn rest x S0 k0 u fld0 ann0 ty0 v0 outer
                Hsep Hwb Hpw Hav Hwn Hfol Hro Hi Ha Hst Hset Hcr)
      as (x1 & S' & k' & u' & E & Hi1 & Ha1 & Hset1 & Hl1 & Hcrest).
    destruct fuel as [|f]; [rewrite !app_length in Hlen; lia|].
    destruct fi; [now specialize (Hfi eq_refl)|].
    destruct (IH x1 S' k' u' (Some k) anns ty v outer (imps_of lst b) syms0 true fs f Hi1 Ha1 ltac:(reflexivity) Hset1 Hcrest)
      as (x2 & S2 & tok & st' & E2 & Hi2 & Ha2 & He2); auto.
    { rewrite !app_length in Hlen. lia. }
    exists x2, S2, tok, st'. split; [|auto].
    cbn [read_lst_loop]. rewrite E. xfields Ha1. rewrite Ferr. unfold field_text. rewrite Ffield, Hk.
    change (list_eqb (s "imports"%string) (s "symbols"%string)) with false.
    change (list_eqb (s "imports"%string) (s "imports"%string)) with true. cbv iota.
    rewrite (read_imports_scalar x1 b (S f)); auto.
    + rewrite Ftype, Fvalue. exact (scalar_not_list pd pt lst SC [] text fol anns ty v Hav).
    + now rewrite Ftype, Fvalue.
  - (* symbols: a scalar *)
    destruct (lstbody_first _ _ _ _ Hb) as [_ Hro]. specialize (Hro outer).
    destruct (field_scalar_next st pre k n wb text fol anns ty v wn rest x S0 k0 u fld0 ann0 ty0 v0 outer
                Hsep Hwb Hpw Hav Hwn Hfol Hro Hi Ha Hst Hset Hcr)
      as (x1 & S' & k' & u' & E & Hi1 & Ha1 & Hset1 & Hl1 & Hcrest).
    destruct fuel as [|f]; [rewrite !app_length in Hlen; lia|].
    destruct fs; [now specialize (Hfs eq_refl)|].
    destruct (IH x1 S' k' u' (Some k) anns ty v outer imps0 [] fi true f Hi1 Ha1 ltac:(reflexivity) Hset1 Hcrest)
      as (x2 & S2 & tok & st' & E2 & Hi2 & Ha2 & He2); auto.
    { rewrite !app_length in Hlen. lia. }
    exists x2, S2, tok, st'. split; [|auto].
    cbn [read_lst_loop]. rewrite E. xfields Ha1. rewrite Ferr. unfold field_text. rewrite Ffield, Hk.
    change (list_eqb (s "symbols"%string) (s "symbols"%string)) with true. cbv iota.
    rewrite (read_symbols_scalar x1 (S f)).
    + exact E2.
    + rewrite Ftype, Fvalue. exact (scalar_not_list pd pt lst SC [] text fol anns ty v Hav).
  - (* symbols: a list *)
    destruct (lstbody_first _ _ _ _ Hb) as [_ Hro]. specialize (Hro outer).
    destruct (aopen_first lst SC [] otext anns tokenOpenBracket Hao) as (c0 & r0 & Eo & _).
    assert (Hcr' := Hcr). apply no_cr_app in Hcr' as [Hcp Hcr']. apply no_cr_app in Hcr' as [Hcb Hcr'].
    apply no_cr_app in Hcr' as [Hct Hcr']. apply no_cr_app in Hcr' as [Hcn Hcrest].
    apply no_cr_app in Hct as [Hco Hct]. apply no_cr_app in Hct as [Hcw0 Hcbody].
    destruct fuel as [|f]; [rewrite !app_length, Eo in Hlen; cbn [length] in Hlen; lia|].
    destruct fs; [now specialize (Hfs eq_refl)|].
    destruct (member_open pd pt lst SC pre st (Some k) n wb otext anns tokenOpenBracket x (w0 ++ body ++ wn ++ rest ++ outer)
                Hsep Hwb Hpw Hao ltac:(discriminate)) as (x1 & r & E & Hi1 & Ha1 & Her).
    { rewrite <- !app_assoc in Hset. apply (nextable_settled pd pt lst x S0 k0 u st SC fld0 ann0 ty0 v0); auto.
      exact (proj2 (sep_facts2 pd pt lst _ _ _ _ _ Hsep)). }
    { repeat (apply no_cr_app; split); auto. }
    change (open_type tokenOpenBracket) with TList in Ha1.
    destruct (rrun_step_in r tokenOpenBracket true SC lst (Some k) anns TList ltac:(now left) x1 Hi1 Ha1)
      as (x2 & Es & Hi2 & Ha2).
    change (ctype_of TList) with CList in Ha2. cbv iota in Ha2.
    destruct (read_symbols_loop_ok pd pt lst BTA body syms Hsl x2 r tokenOpenBracket false None [] 0%N XNil
                (wn ++ rest ++ outer) [] (S f) Hi2 Ha2 ltac:(discriminate))
      as (x3 & S3 & tok3 & st3 & E3 & Hi3 & Ha3 & He3).
    { apply (settled_false _ _ _ w0); auto. }
    { exact Hcbody. }
    { rewrite !app_length in Hlen. lia. }
    destruct (rrun_step_out S3 tok3 st3 CList SC lst None [] 0%N XNil x3 Hi3 Ha3) as (x4 & Eo4 & Hi4 & Ha4).
    change (after_value_state SC) with trsAfterValue in Ha4.
    destruct (IH x4 S3 tok3 false None [] 0%N XNil outer imps0 (map entry_text syms) fi true f Hi4 Ha4 ltac:(discriminate))
      as (x5 & S5 & tok5 & st5 & E5 & Hi5 & Ha5 & He5); auto.
    { apply (settled_false _ _ _ wn); auto. }
    { rewrite !app_length, Eo in Hlen. cbn [length] in Hlen. lia. }
    exists x5, S5, tok5, st5. split; [|auto].
    cbn [read_lst_loop]. rewrite (next_inner_eq pd pt x Hc), E. xfields Ha1. rewrite Ferr. unfold field_text. rewrite Ffield, Hk.
    change (list_eqb (s "symbols"%string) (s "symbols"%string)) with true. cbv iota.
    unfold read_symbols, x_is_null. rewrite Ftype, Fvalue.
    change (negb (TList =? TList)%N || negb (TList =? 0)%N && false) with false. cbv iota.
    rewrite Es, E3. cbn [app]. rewrite Eo4. exact E5.
Qed.
End LstBody.

(* ---- the whole table: one round of the loop of Next ------------------------------------------------------------------ *)
Section LstStep.
Variable pd : list N -> res dec.
Variable pt : list N -> res (list N).
Variable lst : rlst.
Notation BTA := trsBeforeTypeAnnotations.
Notation api := (x_next_inner pd pt).
Notation SC := [CStruct].

(* the annotations (the first one has the text $ion_symbol_table) and the opening brace *)
Inductive lopen_spells : list tok -> list N -> Prop :=
| lo_open ann : is_ion_symbol_table ann = true -> lopen_spells ann [123%N]
| lo_id ann id k wn1 wn2 rest :
    ident_chars id -> is_keyword id = false -> new_symbol_token lst id = Ok k -> ws_run wn1 -> ws_run wn2 ->
    lopen_spells (ann ++ [k]) rest -> lopen_spells ann (id ++ wn1 ++ [58; 58]%N ++ wn2 ++ rest)
| lo_quoted ann body text wn1 wn2 rest :
    qbody 39 body text -> utf8_valid text = true -> ws_run wn1 -> ws_run wn2 ->
    lopen_spells (ann ++ [tok_text text]) rest ->
    lopen_spells ann (39%N :: body ++ [39%N] ++ wn1 ++ [58; 58]%N ++ wn2 ++ rest).

Lemma lst_brace_step w r w0 body oi os outer ann k0 fld ty0 v0 kk fuel b X' :
  ws_run w -> no_cr w -> is_ion_symbol_table ann = true -> ws_run w0 -> no_cr w0 ->
  lstbody pd pt lst trsBeforeFieldName body oi os -> no_cr body -> hd 0%N (w0 ++ body) <> 123%N ->
  ends r (w0 ++ body ++ outer) -> (length body <= fuel)%nat ->
  (forall S3 tok, ends S3 outer ->
     rrunP (x_next_loop pd pt api kk fuel) (mkax S3 tok false BTA [] false false (install lst oi os) None [] 0%N XNil) b X') ->
  rrunP (x_next_loop pd pt api (S kk) fuel) (mkax (zs w ++ 123 :: r) k0 false BTA [] false false lst fld ann ty0 v0) b X'.
Proof.
  intros Hw Hcr Hist Hw0 Hcw0 Hbody Hcb H123 Her Hfuel Hrest x Hi Ha.
  assert (Hr123 : shead r <> 123).
  { rewrite (ends_shead _ _ Her). destruct (lstbody_first pd pt lst _ _ _ _ Hbody) as [(cb & rb & Eb & _) _].
    destruct w0 as [|cw w0']; cbn [app] in *; [rewrite Eb in *|]; cbn [app zs map shead hd] in *; lia. }
  pose proof (rrun_next_punct w 123 r (spush r) tokenOpenBrace true
                (mkax (zs w ++ 123 :: r) k0 false BTA [] false false lst fld ann ty0 v0)
                Hw Hcr eq_refl ltac:(discriminate) eq_refl eq_refl (runK_dispatch_lbrace r k0 Hr123)) as HL.
  destruct (HL x Hi Ha) as (x1 & E1 & Hi1 & Ha1).
  unfold ax_tok in Ha1. cbn [a_state a_ctx a_eof a_err a_lst a_field a_annots a_type a_value] in Ha1.
  set (y := xs_val (xs_state x1 trsBeforeContainer) TStruct XContainer).
  assert (Hiy : xok y) by exact Hi1.
  assert (Hay : xabs y = mkax (spush r) tokenOpenBrace true trsBeforeContainer [] false false lst fld ann TStruct XContainer).
  { xfields Ha1. unfold y, xabs. cbn [x_tok x_state x_ctx x_eof x_err x_lst x_field x_annots x_type x_value xs_val xs_state].
    rewrite Fs, Fk, Fu, Fctx, Feof, Ferr, Flst, Ffield, Fannots. reflexivity. }
  destruct (rrun_step_in (spush r) tokenOpenBrace true [] lst fld ann TStruct ltac:(right; now right) y Hiy Hay)
    as (x2 & Es & Hi2 & Ha2).
  change (ctype_of TStruct) with CStruct in Ha2. cbv iota in Ha2.
  destruct (read_lst_loop_ok pd pt lst trsBeforeFieldName body oi os Hbody x2 (spush r) tokenOpenBrace false None [] 0%N XNil
              outer [] [] false false fuel Hi2 Ha2 ltac:(discriminate))
    as (x3 & S3 & tok3 & st3 & E3 & Hi3 & Ha3 & He3); auto; try discriminate.
  { apply (settled_false _ _ _ w0); auto. now apply ends_spush. }
  destruct (rrun_step_out S3 tok3 st3 CStruct [] lst None [] 0%N XNil x3 Hi3 Ha3) as (x4 & Eo4 & Hi4 & Ha4).
  change (after_value_state []) with BTA in Ha4.
  assert (E2 : next_before_type_annotations pd pt api fuel x1 = (xs_lst x4 (install lst oi os), Ok false)).
  { xfields Ha1. unfold next_before_type_annotations. rewrite rget_bind. cbv zeta. rewrite Fk. tok_cbn. rewrite ?andb_false_r. cbv iota.
    rewrite rmod_bind, rget_bind. fold y.
    assert (Hty : x_at_top y && is_ion_symbol_table (x_annots y) = true).
    { unfold x_at_top, y. cbn [x_ctx x_annots xs_val xs_state]. now rewrite Fctx, Fannots, Hist. }
    rewrite Hty. change (x_is_null y) with false. cbv iota.
    unfold rbind at 1. unfold read_local_symbol_table. rewrite Es, E3, Eo4.
    reflexivity. }
  xfields Ha1. rewrite (next_loop_bta pd pt api kk fuel x x1 _ false E1 Fst E2).
  apply (Hrest S3 tok3 He3).
  - exact Hi4.
  - xfields Ha4. unfold xabs. cbn [x_tok x_state x_ctx x_eof x_err x_lst x_field x_annots x_type x_value xs_lst].
    rewrite Fs0, Fk0, Fu0, Fst0, Fctx0, Feof0, Ferr0, Ffield0, Fannots0, Ftype0, Fvalue0. reflexivity.
Qed.

Lemma lst_step ann otext : lopen_spells ann otext ->
  forall w r w0 body oi os outer k0 fld ty0 v0 kk fuel b Post,
  ws_run w -> no_cr w -> no_cr otext -> ws_run w0 -> no_cr w0 ->
  lstbody pd pt lst trsBeforeFieldName body oi os -> no_cr body -> hd 0%N (w0 ++ body) <> 123%N ->
  ends r (w0 ++ body ++ outer) -> (length body <= fuel)%nat -> (length otext <= S kk)%nat ->
  (forall kk' S3 tok, (S kk <= kk' + length otext)%nat -> ends S3 outer ->
     rrunP (x_next_loop pd pt api kk' fuel) (mkax S3 tok false BTA [] false false (install lst oi os) None [] 0%N XNil) b Post) ->
  rrunP (x_next_loop pd pt api (S kk) fuel) (mkax (zs w ++ zs otext ++ r) k0 false BTA [] false false lst fld ann ty0 v0) b Post.
Proof.
  induction 1 as [ann Hist|ann id k wn1 wn2 rest' Hid Hkw Hk Hw1 Hw2 Hlo IH|ann qb txt wn1 wn2 rest' Hb Hu Hw1 Hw2 Hlo IH];
    intros w r w0 body oi os outer k0 fld ty0 v0 kk fuel b Post Hw Hcr Hco Hw0 Hcw0 Hbody Hcb H123 Her Hfuel Hkk Hrest.
  - cbn [zs map app].
    apply (lst_brace_step w r w0 body oi os outer ann k0 fld ty0 v0 kk fuel b Post); auto.
    intros S3 tok He3. apply Hrest; [cbn [length]; lia|exact He3].
  - apply no_cr_app in Hco as [Hc1 Hco]. apply no_cr_app in Hco as [Hc2 Hco]. apply no_cr_app in Hco as [_ Hco].
    apply no_cr_app in Hco as [Hc3 Hc4].
    rewrite !app_length in Hkk. cbn [length] in Hkk.
    destruct kk as [|kk]; [destruct Hid; cbn [length] in Hkk; lia|].
    apply (loop_to_rrunP pd pt api (S kk) fuel _
             (mkax (zs wn2 ++ zs rest' ++ r) tokenSymbol false BTA [] false false lst fld (ann ++ [k]) ty0 v0)).
    + eapply loop_to_pre_eq; [apply (ann_ident_to pd pt api w id k wn1 (zs wn2 ++ zs rest' ++ r) k0 [] lst fld ann ty0 v0 (S kk) fuel
                                Hw Hcr Hid Hkw Hk Hw1 Hc2)|].
      f_equal. list_norm.
    + apply (IH wn2 r w0 body oi os outer tokenSymbol fld ty0 v0 kk fuel b Post); auto.
      * destruct Hid; cbn [length] in Hkk; lia.
      * intros kk' S3 tok Hk' He3. apply Hrest; [|exact He3]. rewrite !app_length. cbn [length]. lia.
  - apply no_cr_cons in Hco as [_ Hco]. apply no_cr_app in Hco as [Hc1 Hco]. apply no_cr_app in Hco as [_ Hco].
    apply no_cr_app in Hco as [Hc2 Hco]. apply no_cr_app in Hco as [_ Hco]. apply no_cr_app in Hco as [Hc3 Hc4].
    cbn [length] in Hkk. rewrite !app_length in Hkk. cbn [length] in Hkk.
    destruct kk as [|kk]; [lia|].
    apply (loop_to_rrunP pd pt api (S kk) fuel _
             (mkax (zs wn2 ++ zs rest' ++ r) tokenSymbolQuoted false BTA [] false false lst fld (ann ++ [tok_text txt]) ty0 v0)).
    + eapply loop_to_pre_eq; [apply (ann_quoted_to pd pt api w qb txt wn1 (zs wn2 ++ zs rest' ++ r) k0 [] lst fld ann ty0 v0 (S kk) fuel
                                Hw Hcr Hb Hc1 Hu); auto|].
      * intros _. apply (ws_run_head_not_quote pd pt); [exact Hw1|discriminate].
      * f_equal. list_norm.
    + apply (IH wn2 r w0 body oi os outer tokenSymbolQuoted fld ty0 v0 kk fuel b Post); auto.
      * lia.
      * intros kk' S3 tok Hk' He3. apply Hrest; [|exact He3]. cbn [length]. rewrite !app_length. cbn [length]. lia.
Qed.
End LstStep.
