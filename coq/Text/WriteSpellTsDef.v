(* WriteSpellTsDef.v — C01, text half: the timestamp text the text Writer emits, built from the models of
   Num/Timestamp.v instead of being an oracle.  Definitions only; the lemmas are in Text/WriteSpellTs.v.

   The Writer model's call [CTimestamp len body] carries a timestamp as its Ion binary body ([VTimestamp body]
   of Data/Ion.v: what binaryWriter.WriteTimestamp puts after the type descriptor).  In Go the argument is an
   ion.Timestamp; [ts_body t] is the body of the timestamp t (appendTimestamp on the UTC instant and the
   offset in minutes, Num/Timestamp.v), and [fmt_ts_std len body] is Timestamp.String() of the timestamp the
   binary reader model (ReadTimestamp, patched tree) finds in that body. *)
From Coq Require Import List NArith ZArith.
From IonV Require Import Base.Wire Bin.Bits Num.Calendar Num.Timestamp.
Import ListNotations.
Open Scope Z_scope.

Definition ts_utc (t : ts) : ts := mkTs (go_in (t_time t) 0) (t_prec t) (t_kind t) (t_nfrac t).
Definition ts_body (t : ts) : list N := append_timestamp [] (Z.quot (g_off (t_time t)) 60) (ts_utc t).
Definition fmt_ts_std (len : N) (body : list N) : list N :=
  match read_ts_body patched len body with Ok t => ts_format t | _ => [] end.
