(* SpellTreeEx3.v — C02: an example for the stream theorem of SpellTree3.v: two local symbol tables (the first replaces
   the system context, the second appends), a comment inside the table struct, `$10` / `$12` as values, `$11` as a field
   name, `$10` as an annotation, and the version marker directly in front of the final unterminated comment;
   cross-checked with the model by computation and with the specification decoder. *)
From Coq Require Import String List NArith ZArith Bool Lia ZifyBool ZifyN ZifyNat.
From IonV Require Sym.LstSpec.
From IonV Require Import Base.Wire Base.Utf8 Data.Ion Bin.Bits Bin.BitStream Bin.BinReader Num.Float Text.Tokenizer Text.Skipper
  Text.TextReader Text.TextNum Text.SpecText Text.SpellBase Text.SpellWs Text.SpellNum Text.SpellTok Text.SpellRead
  Text.SpellEsc Text.SpellStr Text.SpellLong Text.SpellIdent Text.SpellSym Text.SpellTs Text.SpellBlob
  Text.SpellVal Text.SpellSymVal Text.SpellOp Text.SpellStream Text.SpellCont Text.SpellTree Text.SpellTreeEx
  Text.SpellEofc Text.SpellOp2 Text.SpellStream2 Text.SpellIvm Text.SpellTree2 Text.SpellLst Text.SpellTree3.
Import ListNotations.
Open Scope Z_scope.

Definition tree3_example : list N :=
  s "$ion_symbol_table::{/*t*/symbols:[""a"",""b""]} $10 {$11:$10::1} $ion_symbol_table::{imports:$ion_symbol_table,symbols:[""c""]} $12 $ion_1_0// end".
Definition tree3_example_values : list tval :=
  [ TScalar [] TSymbol (XSymbol (tk "a" 10));
    TCont [] TStruct [ (Some (tk "b" 11), TScalar [tk "a" 10] TInt (XInt (I64 1))) ];
    TScalar [] TSymbol (XSymbol (tk "c" 12)) ].

(* the contexts: after the first table (replace), after the second (append) *)
Definition ex3_L1 : rlst := install LSys None (Some [Some (s "a"); Some (s "b")]).
Definition ex3_L2 : rlst := install ex3_L1 (Some true) (Some [Some (s "c")]).

Ltac idc := constructor; [unfold id_start, letter; cbn; lia
                         |repeat (apply Forall_cons; [unfold id_part, id_start, letter, digit; cbn; lia|]); apply Forall_nil].
Ltac ws1 := apply ws_ch; [reflexivity|constructor].

Lemma int_item' lst ctx ann d v :
  is_dec_b d = true -> d <> 48%N ->
  num_value PD {| n_neg := false; n_iw := [d]; n_ip := [d]; n_dot := false; n_fw := []; n_fp := []; n_exp := None |}
    = Some (TInt, XInt (I64 v)) ->
  item_spells PD PT lst ctx ann [d] f_term TInt (XInt (I64 v)).
Proof.
  intros Hd H0 Hv.
  apply (it_num PD PT lst ctx ann {| n_neg := false; n_iw := [d]; n_ip := [d]; n_dot := false; n_fw := []; n_fp := [];
                                     n_exp := None |} TInt (XInt (I64 v))); [|exact Hv].
  split; [|split; [|split]]; cbn.
  - apply usd; [exact Hd|apply ut_nil].
  - right. exact H0.
  - auto.
  - exact I.
Qed.
Lemma str1_item lst ctx ann c : raw_char 34 c -> utf8_valid [c] = true ->
  item_spells PD PT lst ctx ann (34%N :: [c] ++ [34%N]) f_any TString (XString [c]).
Proof. intros Hc Hu. apply (it_str PD PT lst ctx ann [c] [c]); [|exact Hu]. apply qb_raw; [exact Hc|apply qb_nil]. Qed.

Definition ist_id : list N := s "$ion_symbol_table".

Example tree3_example_spells :
  exists w0 text, norm tree3_example = w0 ++ text /\ ws_run w0 /\ tops_spell3 PD PT LSys text tree3_example_values.
Proof.
  exists [],
    ((ist_id ++ [] ++ [58; 58]%N ++ [] ++ [123]%N) ++ s "/*t*/" ++
     ((s "symbols" ++ [] ++ [58]%N) ++ [] ++ ([91]%N ++ [] ++
        ([] ++ [] ++ s """a""" ++ [] ++ ([44]%N ++ [] ++ s """b""" ++ [] ++ [93]%N))) ++ [] ++ [125]%N) ++ s " " ++
     (s "$10" ++ s " " ++
      (([123]%N ++ [] ++ ((s "$11" ++ [] ++ [58]%N) ++ [] ++ (s "$10" ++ [] ++ [58; 58]%N ++ [] ++ s "1") ++ [] ++ [125]%N)) ++ s " " ++
       ((ist_id ++ [] ++ [58; 58]%N ++ [] ++ [123]%N) ++ [] ++
        ((s "imports" ++ [] ++ [58]%N) ++ [] ++ ist_id ++ [] ++
         ((44%N :: [] ++ s "symbols" ++ [] ++ [58]%N) ++ [] ++ ([91]%N ++ [] ++ ([] ++ [] ++ s """c""" ++ [] ++ [93]%N)) ++ [] ++ [125]%N)) ++
        s " " ++
        (s "$12" ++ s " " ++ (ivm_text ++ [] ++ s "// end")))))).
  split; [reflexivity|]. split; [constructor|].
  (* the first table: replaces the context *)
  apply (tp3_lst PD PT LSys _ _ _ None (Some [Some (s "a"); Some (s "b")]) (s " ")).
  { apply (lo_id LSys [] ist_id (tk "$ion_symbol_table" 3) [] []); [idc|reflexivity|reflexivity|constructor|constructor|].
    apply lo_open. reflexivity. }
  { apply (ws_block (s "t")); [reflexivity|constructor]. }
  { apply (lb_symbols_list PD PT LSys _ _ (tk "symbols" 7) 1 [] [91]%N [] [] _ [Some (s "a"); Some (s "b")] [] _ None).
    - apply sep2_field; [|constructor]. apply fn2_old, fn_id; try reflexivity. idc.
    - constructor.
    - discriminate.
    - reflexivity.
    - apply (ao_open LSys _ [] tokenOpenBracket). now left.
    - constructor.
    - apply (sl_item PD PT LSys _ [] None 0 [] _ f_any [] TString (XString (s "a")) []).
      + apply sep2_none.
      + constructor.
      + reflexivity.
      + apply av2_item, it2_old. apply str1_item; [unfold raw_char, str_ws; cbn; lia|reflexivity].
      + constructor.
      + intros outer. exact I.
      + apply (sl_item PD PT LSys _ [44]%N None 1 [] _ f_any [] TString (XString (s "b")) []).
        * apply sep2_comma.
        * constructor.
        * discriminate.
        * apply av2_item, it2_old. apply str1_item; [unfold raw_char, str_ws; cbn; lia|reflexivity].
        * constructor.
        * intros outer. exact I.
        * apply (sl_close PD PT LSys _ _ tokenCloseBracket 0). apply cl_list.
    - constructor.
    - apply (lb_close PD PT LSys _ _ tokenCloseBrace 0). apply cl_struct. }
  { discriminate. }
  { repeat constructor; discriminate. }
  { ws1. }
  fold ex3_L1.
  (* $10 against the new context *)
  eapply (tp3_cons PD PT ex3_L1 (s "$10") f_ident _ (s " ") _).
  { apply t2_scalar, av2_item, it2_old. apply (it_sym PD PT ex3_L1 [] [] (s "$10") (tk "a" 10)); try reflexivity. idc. }
  { ws1. }
  { reflexivity. }
  (* a struct whose field name and annotation are symbol IDs of the table *)
  eapply (tp3_cons PD PT ex3_L1 _ f_any _ (s " ")).
  { apply (t2_cont PD PT ex3_L1 [] [123]%N [] tokenOpenBrace [] _ _).
    - apply (ao_open ex3_L1 [] [] tokenOpenBrace). right; right. split; reflexivity.
    - constructor.
    - intros _. discriminate.
    - eapply (cs2_item PD PT ex3_L1 _ _ (s "$11" ++ [] ++ [58]%N) (Some (tk "b" 11)) 1 []
                (s "$10" ++ [] ++ [58; 58]%N ++ [] ++ s "1") f_term _ []).
      + apply sep2_field; [|constructor]. apply fn2_old, fn_id; try reflexivity. idc.
      + constructor.
      + discriminate.
      + apply t2_scalar. apply (av2_id PD PT ex3_L1 _ [] (s "$10") (tk "a" 10) [] [] (s "1")); [idc|reflexivity|reflexivity|constructor|constructor|].
        apply av2_item, it2_old. apply int_item'; [reflexivity|discriminate|reflexivity].
      + constructor.
      + intros outer. reflexivity.
      + apply (cs2_close PD PT ex3_L1 _ _ _ tokenCloseBrace 0). apply cl_struct. }
  { ws1. }
  { exact I. }
  (* the second table: appends to the context *)
  apply (tp3_lst PD PT ex3_L1 _ _ _ (Some true) (Some [Some (s "c")]) (s " ")).
  { apply (lo_id ex3_L1 [] ist_id (tk "$ion_symbol_table" 3) [] []); [idc|reflexivity|reflexivity|constructor|constructor|].
    apply lo_open. reflexivity. }
  { constructor. }
  { apply (lb_imports PD PT ex3_L1 _ _ (tk "imports" 6) 1 [] ist_id f_ident [] TSymbol (XSymbol (tk "$ion_symbol_table" 3)) true [] _
             (Some [Some (s "c")])).
    - apply sep2_field; [|constructor]. apply fn2_old, fn_id; try reflexivity. idc.
    - constructor.
    - discriminate.
    - reflexivity.
    - apply av2_item, it2_old. apply (it_sym PD PT ex3_L1 _ [] ist_id (tk "$ion_symbol_table" 3)); try reflexivity. idc.
    - reflexivity.
    - constructor.
    - intros outer. reflexivity.
    - apply (lb_symbols_list PD PT ex3_L1 _ _ (tk "symbols" 7) 2 [] [91]%N [] [] _ [Some (s "c")] [] _ None).
      + apply (sep2_comma_field ex3_L1 [] []); [constructor| |constructor]. apply fn2_old, fn_id; try reflexivity. idc.
      + constructor.
      + discriminate.
      + reflexivity.
      + apply (ao_open ex3_L1 _ [] tokenOpenBracket). now left.
      + constructor.
      + apply (sl_item PD PT ex3_L1 _ [] None 0 [] _ f_any [] TString (XString (s "c")) []).
        * apply sep2_none.
        * constructor.
        * reflexivity.
        * apply av2_item, it2_old. apply str1_item; [unfold raw_char, str_ws; cbn; lia|reflexivity].
        * constructor.
        * intros outer. exact I.
        * apply (sl_close PD PT ex3_L1 _ _ tokenCloseBracket 0). apply cl_list.
      + constructor.
      + apply (lb_close PD PT ex3_L1 _ _ tokenCloseBrace 0). apply cl_struct. }
  { discriminate. }
  { repeat constructor; discriminate. }
  { ws1. }
  fold ex3_L2.
  eapply (tp3_cons PD PT ex3_L2 (s "$12") f_ident _ (s " ") _).
  { apply t2_scalar, av2_item, it2_old. apply (it_sym PD PT ex3_L2 [] [] (s "$12") (tk "c" 12)); try reflexivity. idc. }
  { ws1. }
  { reflexivity. }
  (* the version marker directly in front of the comment that ends the input *)
  apply (tp3_ivm PD PT ex3_L2 [] (s "// end")).
  { constructor. }
  { reflexivity. }
  { right. exists (s " end"). split; [reflexivity|repeat constructor; discriminate]. }
  apply (tp3_comment PD PT LSys (s " end")). repeat constructor; discriminate.
Qed.

Example tree3_example_trace : x_traverse PD PT tree3_example false = ttrace tree3_example_values.
Proof.
  destruct tree3_example_spells as (w0 & text & Hn & Hw & Hv). exact (traverse_stream3_text _ w0 text _ Hn Hw Hv).
Qed.
Example tree3_example_ttrace :
  join_sp (ttrace tree3_example_values) =
  s "T nil a[] y7 n0 k61.10 T nil a[] y13 n0 ok T k62.11 a[k61.10;] y3 n0 I1 F ok T nil a[] y7 n0 k63.12 F e0 F e0 F e0".
Proof. vm_compute. reflexivity. Qed.
(* the model computes that trace on the input (independently of the theorem) *)
Example tree3_example_model :
  join_sp (x_traverse PD PT tree3_example false) = join_sp (ttrace tree3_example_values).
Proof. vm_compute. reflexivity. Qed.
Example tree3_example_spec :
  option_map (fun v => show_str (show_values v)) (SpecText.tdecode tree3_example)
  = Some "Yt61 { ft62 at61 I1 } Yt63"%string.
Proof. vm_compute. reflexivity. Qed.

(* the two contexts are those the specification of symbol contexts prescribes (Sym/LstSpec.v), and symbol IDs resolve
   in the reader's tables as in these contexts *)
Example tree3_example_contexts :
  LstSpec.spec_step [] (rslots LSys) (spec_item None (Some [Some (s "a"); Some (s "b")])) = Ok (rslots ex3_L1) /\
  LstSpec.spec_step [] (rslots ex3_L1) (spec_item (Some true) (Some [Some (s "c")])) = Ok (rslots ex3_L2) /\
  rslots ex3_L2 = (LstSpec.system_ctx ++ [Some (s "a"); Some (s "b"); Some (s "c")])%list /\
  map (fun n => match tok_by_sid ex3_L2 n with Some k => Ok (tk_text k) | None => Err end) [0; 3; 10; 11; 12; 13]%N
  = map (LstSpec.resolve (rslots ex3_L2)) [0; 3; 10; 11; 12; 13]%N.
Proof. vm_compute. repeat split; reflexivity. Qed.

(* the exclusion [gap_free] is the known defect D16: an entry of `symbols` that is not a string should leave a slot without
   text, the reader gives it the empty text *)
Example tree3_d16_witness :
  show_str (join_sp (x_traverse PD PT (s "$ion_symbol_table::{symbols:[5]} $10") false)) = "T nil a[] y7 n0 k.10 F e0 F e0 F e0"%string /\
  option_map (fun v => show_str (show_values v)) (SpecText.tdecode (s "$ion_symbol_table::{symbols:[5]} $10")) = Some "Yi10"%string.
Proof. vm_compute. split; reflexivity. Qed.

(* further spellings, by computation: a table directly followed by the final comment, `$3` and a quoted symbol as the
   first annotation, further annotations, symbols:null.list, a scalar `symbols`, other fields *)
Example lst_cases :
  map (fun t => show_str (join_sp (x_traverse PD PT (s t) false)))
      ["$ion_symbol_table::{symbols:[""a""]}// c"; "$3::{symbols:[""a""]} $10"; "'$ion_symbol_table'::x::{symbols:[""a""]} $10";
       "$ion_symbol_table::{symbols:null.list, name:""n"", version:1} $9"; "$ion_symbol_table::{$7:[ ""a"" , ]} $10";
       "$ion_1_0// c"; "$ion_1_0 // c"]%string =
  ["F e0 F e0 F e0"; "T nil a[] y7 n0 k61.10 F e0 F e0 F e0"; "T nil a[] y7 n0 k61.10 F e0 F e0 F e0";
   "T nil a[] y7 n0 k24696f6e5f7368617265645f73796d626f6c5f7461626c65.9 F e0 F e0 F e0"; "T nil a[] y7 n0 k61.10 F e0 F e0 F e0";
   "F e0 F e0 F e0"; "F e0 F e0 F e0"]%string.
Proof. vm_compute. reflexivity. Qed.
