(* WriteSpellPrettyOut.v — C01, text half, PRETTY mode, step 1: with TextWriterPretty, on a sink that never fails,
   the text Writer model driven by the canonical calls of a forest returns nil from every call and emits exactly
   [wtp_stream] (Text/WriteSpellPretty.v).  Same Hoare triples as WriteSpellOut.v ([runs], [steps], [drives]),
   over states [mkpp] with p_pretty = true and p_indent = a natural number. *)
From Coq Require Import String List NArith ZArith Bool Lia ZifyBool ZifyN ZifyNat.
From IonV Require Import Base.Wire Base.Utf8 Data.Ion Num.Float Bin.BinWriter Bin.RoundTripBinS
  Text.TextOut Text.TextWriter Text.TextRoundtrip Text.WriteSpell Text.WriteSpellOut Text.WriteSpellPretty.
Import ListNotations.
Open Scope N_scope.

(* ---- indentation ------------------------------------------------------------------------------------------------ *)
Lemma concat_tabs n : concat (repeat [9] n) = repeat 9 n.
Proof. induction n as [|n IH]; [reflexivity|]. cbn [repeat concat app]. now rewrite IH. Qed.
Lemma runs_write_indent p : runs write_indent p (repeat 9 (Z.to_nat (p_indent p))) p.
Proof. unfold write_indent. apply runs_on. eapply runs_eq; [apply runs_raws|apply concat_tabs|reflexivity]. Qed.

(* ---- beginValue, pretty mode ------------------------------------------------------------------------------------- *)
Definition mkpp (c : list N) (f : option tok) (a : list tok) (ns ec es : bool) (i : nat) (wl q : bool) : pstate :=
  {| p_ctx := c; p_err := false; p_field := f; p_annots := a; p_needs_sep := ns; p_empty_cont := ec;
     p_empty_stream := es; p_indent := Z.of_nat i; p_wrote_lst := wl; p_pretty := true; p_quiet := q |}.
Definition sepp_of (t : N) : list N :=
  if (t =? ctxStruct) || (t =? ctxList) then [44; 10] else [10].
(* separator, newline after an opening bracket, indentation *)
Definition pre_bytes (c : list N) (ns ec : bool) (i : nat) : list N :=
  (if ns then sepp_of (top_of c) else []) ++ (if ec then [10] else []) ++ repeat 9 i.
Definition fieldp_bytes (c : list N) (f : option tok) : list N :=
  if top_of c =? ctxStruct then match f with Some n => sym_bytes n ++ [58; 32] | None => [] end else [].
(* the state after a value *)
Definition afterp (c : list N) (i : nat) (q : bool) : pstate := mkpp c None [] true false false i true q.

Ltac cbn_p := cbn [mkpp p_clear p_set_field p_set_annots p_set_flags p_set_indent p_set_ctx p_set_wrote p_end_value
  p_ctx p_err p_field p_annots p_needs_sep p_empty_cont p_empty_stream p_indent p_wrote_lst p_pretty p_quiet].

Lemma runs_begin_value_p c f a ns ec es i wl q :
  field_ok c f -> Forall wok a ->
  runs begin_value (mkpp c f a ns ec es i wl q) (pre_bytes c ns ec i ++ fieldp_bytes c f ++ tann a) (mkpp c None [] ns ec es i true q).
Proof.
  intros Hf Ha. unfold begin_value. apply runs_on. cbn [mkpp p_field p_annots].
  eapply runs_eq.
  - eapply runs_seq; [apply runs_upd|]. cbn_p.
    eapply runs_seq.
    { apply runs_on. cbn [p_wrote_lst].
      instantiate (2 := []). instantiate (1 := mkpp c None [] ns ec es i true q).
      destruct wl; [apply runs_ret|].
      eapply runs_eq; [eapply runs_seq; [apply runs_upd|apply runs_ret]|reflexivity|reflexivity]. }
    eapply runs_seq.
    { apply runs_on. cbn [mkpp p_needs_sep]. instantiate (2 := if ns then sepp_of (top_of c) else []).
      instantiate (1 := mkpp c None [] ns ec es i true q).
      destruct ns; [|apply runs_ret].
      unfold write_separator. apply runs_on. unfold p_peek, sepp_of, top_of. cbn [mkpp p_ctx p_pretty].
      destruct c as [|t c']; [apply runs_raw|].
      destruct ((t =? ctxStruct) || (t =? ctxList)); [apply runs_raw|]. destruct (t =? ctxSexp); apply runs_raw. }
    eapply runs_seq.
    { apply runs_on. cbn [mkpp p_empty_cont p_pretty]. rewrite andb_true_r.
      instantiate (2 := if ec then [10] else []). instantiate (1 := mkpp c None [] ns ec es i true q).
      destruct ec; [apply runs_raw|apply runs_ret]. }
    eapply runs_seq.
    { apply runs_on. cbn [mkpp p_pretty].
      eapply runs_eq; [apply runs_write_indent| |reflexivity]. cbn [mkpp p_indent]. rewrite Nat2Z.id. reflexivity. }
    eapply runs_seq.
    { apply runs_on. unfold p_in_struct, p_peek. cbn [mkpp p_ctx]. fold (top_of c).
      instantiate (2 := fieldp_bytes c f). instantiate (1 := mkpp c None [] ns ec es i true q).
      unfold fieldp_bytes. destruct (N.eqb_spec (top_of c) ctxStruct) as [E|E]; [|apply runs_ret].
      destruct (Hf E) as (n & -> & Hn).
      eapply runs_eq; [eapply runs_seq; [apply runs_upd|]| |reflexivity].
      - cbn_p.
        unfold write_field_name. apply runs_on. cbn [p_field].
        eapply runs_seq; [apply runs_upd|].
        eapply runs_seq; [apply runs_sym_act, Hn|]. apply runs_on. cbn [p_set_field p_pretty]. apply runs_raw.
      - app_norm. }
    eapply runs_seq; [apply runs_upd|].
    cbn_p. cbn [app].
    apply runs_on. cbn [p_annots].
    instantiate (2 := tann a). instantiate (1 := mkpp c None [] ns ec es i true q).
    destruct a as [|t a']; [apply runs_ret|].
    unfold write_annotations. apply runs_on. cbn [p_annots].
    eapply runs_eq; [eapply runs_seq; [apply runs_upd|apply runs_annots_act, Ha]|reflexivity|reflexivity].
  - unfold pre_bytes. app_norm.
  - reflexivity.
Qed.

Lemma runs_recorded_p body c f a ns ec es i wl q bs c' f' a' ns' ec' es' i' wl' q' :
  runs body (mkpp c f a ns ec es i wl q) bs (mkpp c' f' a' ns' ec' es' i' wl' q') ->
  runs (recorded body) (mkpp c f a ns ec es i wl q) bs (mkpp c' f' a' ns' ec' es' i' wl' q').
Proof.
  intros H w out Hs. unfold recorded, tw_err. destruct Hs as (Hb & Ho & Hp). rewrite Hp. cbn [mkpp p_err].
  destruct (H w out) as (w' & E & Hb' & Ho' & Hp'); [now repeat split|]. rewrite E.
  eexists. split; [reflexivity|]. repeat split; cbn; auto. rewrite Hp'. reflexivity.
Qed.

(* writeValue *)
Lemma runs_write_value_act_p fn bs c f a ns ec es i wl q :
  field_ok c f -> Forall wok a ->
  (forall p, runs fn p bs p) ->
  runs (write_value_act fn) (mkpp c f a ns ec es i wl q) (pre_bytes c ns ec i ++ fieldp_bytes c f ++ tann a ++ bs) (afterp c i q).
Proof.
  intros Hf Ha Hfn. unfold write_value_act, afterp. apply runs_recorded_p.
  eapply runs_eq; [eapply runs_seq; [apply (runs_begin_value_p c f a ns ec es i wl q Hf Ha)|
                   eapply runs_seq; [apply Hfn|apply runs_upd]]| |reflexivity].
  app_norm.
Qed.
Lemma runs_write_value_p body c f a ns ec es i wl q :
  field_ok c f -> Forall wok a ->
  runs (write_value body) (mkpp c f a ns ec es i wl q) (pre_bytes c ns ec i ++ fieldp_bytes c f ++ tann a ++ concat body) (afterp c i q).
Proof. intros Hf Ha. apply (runs_write_value_act_p (raws body)); auto. intros p. apply runs_raws. Qed.

(* ---- calls ----------------------------------------------------------------------------------------------------- *)
Section Drive.
Variable F : formats.
Notation steps := (steps F).
Notation drives := (drives F).

(* field names and annotations only set fields *)
Lemma steps_field_name_p t c' a ns ec es i wl q f0 :
  steps (CFieldName t) (mkpp (ctxStruct :: c') f0 a ns ec es i wl q) [] (mkpp (ctxStruct :: c') (Some t) a ns ec es i wl q).
Proof.
  intros w out (Hb & Ho & Hp). cbn [tw_step]. unfold tw_err, p_in_struct, p_peek. rewrite Hp. cbn [mkpp p_err p_ctx].
  change (ctxStruct =? ctxStruct) with true. cbn [negb].
  eexists. split; [reflexivity|]. rewrite app_nil_r. repeat split; cbn; auto. rewrite Hp. reflexivity.
Qed.
Lemma drives_annotations_p pa c f a ns ec es i wl q :
  drives (map (fun y => CAnnotation (tok_of_sym y)) pa) (mkpp c f a ns ec es i wl q) [] (mkpp c f (a ++ map tok_of_sym pa) ns ec es i wl q).
Proof.
  revert a. induction pa as [|y r IH]; intros a; cbn [map].
  - rewrite app_nil_r. apply drives_nil.
  - eapply drives_eq; [eapply (drives_cons F _ _ _ [] _ [] _); [|apply (IH (a ++ [tok_of_sym y]))]|reflexivity|].
    + intros w out (Hb & Ho & Hp). cbn [tw_step]. unfold tw_err. rewrite Hp. cbn [mkpp p_err].
      eexists. split; [reflexivity|]. rewrite app_nil_r. repeat split; cbn; auto. rewrite Hp. reflexivity.
    + now rewrite <- app_assoc.
Qed.

(* every scalar: one call *)
Lemma steps_scalar_p v c f a ns ec es i wl q :
  is_scalar v -> wf_scalar F v -> field_ok c f -> Forall wok a ->
  exists call, calls_of_value v = [call] /\
  steps call (mkpp c f a ns ec es i wl q) (pre_bytes c ns ec i ++ fieldp_bytes c f ++ tann a ++ scalar_bytes F v) (afterp c i q).
Proof.
  intros Hs Hw Hf Ha.
  assert (Herr : forall w out, st w out (mkpp c f a ns ec es i wl q) -> tw_err w = false).
  { intros w out (_ & _ & Hp). unfold tw_err. now rewrite Hp. }
  destruct v; try contradiction; cbn [calls_of_value scalar_bytes]; eexists; (split; [reflexivity|]); intros w out Hst;
    cbn [tw_step]; rewrite ?(Herr w out Hst).
  - (* null *)
    cbn [wf_scalar] in Hw. replace (14 <=? t) with false by lia.
    assert (Ht : text_null t = Ok (nth (N.to_nat t) text_nulls [])).
    { unfold text_null. destruct (nth_error text_nulls (N.to_nat t)) eqn:E.
      - f_equal. symmetry. now apply nth_error_nth.
      - apply nth_error_None in E. cbn [length text_nulls] in E. lia. }
    rewrite Ht. cbn [bind].
    destruct (runs_write_value_p [nth (N.to_nat t) text_nulls []] c f a ns ec es i wl q Hf Ha w out Hst) as (w' & E & Hs').
    exists w'. rewrite E. split; [reflexivity|]. cbn [concat] in Hs'. now rewrite app_nil_r in Hs'.
  - destruct (runs_write_value_p [if b then s "true" else s "false"] c f a ns ec es i wl q Hf Ha w out Hst) as (w' & E & Hs').
    exists w'. rewrite E. split; [reflexivity|]. cbn [concat] in Hs'. now rewrite app_nil_r in Hs'.
  - destruct (runs_write_value_p [dec_of_Z z] c f a ns ec es i wl q Hf Ha w out Hst) as (w' & E & Hs').
    exists w'. rewrite E. split; [reflexivity|]. cbn [concat] in Hs'. now rewrite app_nil_r in Hs'.
  - destruct (runs_write_value_p [format_float (fmt_float F) bits] c f a ns ec es i wl q Hf Ha w out Hst) as (w' & E & Hs').
    exists w'. rewrite E. split; [reflexivity|]. cbn [concat] in Hs'. now rewrite app_nil_r in Hs'.
  - destruct (runs_write_value_p [fmt_dec F d] c f a ns ec es i wl q Hf Ha w out Hst) as (w' & E & Hs').
    exists w'. rewrite E. split; [reflexivity|]. cbn [concat] in Hs'. now rewrite app_nil_r in Hs'.
  - destruct (runs_write_value_p [fmt_ts F (N.of_nat (length body)) body] c f a ns ec es i wl q Hf Ha w out Hst) as (w' & E & Hs').
    exists w'. rewrite E. split; [reflexivity|]. cbn [concat] in Hs'. now rewrite app_nil_r in Hs'.
  - (* symbol *)
    assert (Hy : wok (tok_of_sym y)) by (apply wsym_ok; exact Hw).
    destruct (runs_write_value_act_p (sym_act (tok_of_sym y)) (sym_bytes (tok_of_sym y)) c f a ns ec es i wl q Hf Ha
                (fun p => runs_sym_act _ p Hy) w out Hst) as (w' & E & Hs').
    exists w'. rewrite E. split; [reflexivity|]. exact Hs'.
  - destruct (runs_write_value_p ([[34]] ++ escaped_string t ++ [[34]]) c f a ns ec es i wl q Hf Ha w out Hst) as (w' & E & Hs').
    exists w'. rewrite E. split; [reflexivity|]. rewrite !concat_app in Hs'. cbn [concat app] in Hs'. exact Hs'.
  - destruct (runs_write_value_p ([[123; 123; 34]] ++ escaped_clob b ++ [[34; 125; 125]]) c f a ns ec es i wl q Hf Ha w out Hst) as (w' & E & Hs').
    exists w'. rewrite E. split; [reflexivity|]. rewrite !concat_app in Hs'. cbn [concat app] in Hs'. exact Hs'.
  - destruct (runs_write_value_p ([[123; 123]] ++ blob_body b ++ [[125; 125]]) c f a ns ec es i wl q Hf Ha w out Hst) as (w' & E & Hs').
    exists w'. rewrite E. split; [reflexivity|]. rewrite !concat_app in Hs'. cbn [concat app] in Hs'. exact Hs'.
Qed.

(* containers *)
Lemma mkpp_indent_S c f a ns ec es i wl q :
  {| p_ctx := c; p_err := false; p_field := f; p_annots := a; p_needs_sep := ns; p_empty_cont := ec;
     p_empty_stream := es; p_indent := (Z.of_nat i + 1)%Z; p_wrote_lst := wl; p_pretty := true; p_quiet := q |}
  = mkpp c f a ns ec es (S i) wl q.
Proof. unfold mkpp. f_equal. lia. Qed.
Lemma mkpp_indent_P c f a ns ec es i wl q :
  {| p_ctx := c; p_err := false; p_field := f; p_annots := a; p_needs_sep := ns; p_empty_cont := ec;
     p_empty_stream := es; p_indent := (Z.of_nat (S i) - 1)%Z; p_wrote_lst := wl; p_pretty := true; p_quiet := q |}
  = mkpp c f a ns ec es i wl q.
Proof. unfold mkpp. f_equal. lia. Qed.
Lemma p_set_indent_P c f a ns ec es i wl q :
  p_set_indent (mkpp c f a ns ec es (S i) wl q) (Z.of_nat (S i) - 1) = mkpp c f a ns ec es i wl q.
Proof. unfold p_set_indent. cbn_p. apply mkpp_indent_P. Qed.

Lemma steps_begin_p call t c0 c f a ns ec es i wl q :
  (forall w, tw_step F w call = Ok (begin_container t c0 w)) ->
  field_ok c f -> Forall wok a ->
  steps call (mkpp c f a ns ec es i wl q) (pre_bytes c ns ec i ++ fieldp_bytes c f ++ tann a ++ [c0])
        (mkpp (t :: c) None [] false true es (S i) true q).
Proof.
  intros Hcall Hf Ha w out Hst. rewrite Hcall. unfold begin_container.
  assert (R : runs (recorded (begin_value ;;
            upd (fun p => p_set_flags (p_set_indent (p_set_ctx p (t :: p_ctx p)) (p_indent p + 1)) false true (p_empty_stream p)) ;;
            raw [c0])) (mkpp c f a ns ec es i wl q) (pre_bytes c ns ec i ++ fieldp_bytes c f ++ tann a ++ [c0])
            (mkpp (t :: c) None [] false true es (S i) true q)).
  { apply runs_recorded_p.
    eapply runs_eq; [eapply runs_seq; [apply (runs_begin_value_p c f a ns ec es i wl q Hf Ha)|
                     eapply runs_seq; [apply runs_upd|apply runs_raw]]| |].
    - app_norm.
    - cbn_p. apply mkpp_indent_S. }
  destruct (R w out Hst) as (w' & E & Hs'). exists w'. now rewrite E.
Qed.
Lemma steps_end_p call t c0 c ns ec es i q :
  t <> 0 ->
  (forall w, tw_step F w call = end_container w t c0) ->
  steps call (mkpp (t :: c) None [] ns ec es (S i) true q) ((if ec then [] else 10 :: repeat 9 i) ++ [c0]) (afterp c i q).
Proof.
  intros Ht Hcall w out Hst. rewrite Hcall. unfold end_container, tw_err, p_peek.
  pose proof Hst as (Hb & Ho & Hp). rewrite Hp. cbn [mkpp p_err p_ctx]. rewrite N.eqb_refl. cbn [negb].
  assert (R : runs (recorded (end_body c c0)) (mkpp (t :: c) None [] ns ec es (S i) true q)
                   ((if ec then [] else 10 :: repeat 9 i) ++ [c0]) (afterp c i q)).
  { unfold afterp. apply runs_recorded_p. unfold end_body.
    eapply runs_eq.
    - eapply runs_seq; [apply runs_upd|]. cbn [mkpp p_indent]. fold (mkpp (t :: c) None [] ns ec es (S i) true q).
      rewrite p_set_indent_P.
      eapply runs_seq.
      { apply runs_on. cbn_p. rewrite andb_true_r.
        instantiate (2 := if ec then [] else 10 :: repeat 9 i).
        instantiate (1 := mkpp (t :: c) None [] ns ec es i true q).
        destruct ec; cbn [negb]; [apply runs_ret|].
        eapply runs_eq; [eapply runs_seq; [apply runs_raw|apply runs_write_indent]| |reflexivity].
        cbn [mkpp p_indent app]. now rewrite Nat2Z.id. }
      eapply runs_seq; [apply runs_raw|apply runs_upd].
    - app_norm.
    - reflexivity. }
  destruct (R w out Hst) as (w' & E & Hs'). exists w'. now rewrite E.
Qed.
(* the closing bracket after the members [l] of a container opened by [steps_begin_p] *)
Lemma steps_end_l {A} call t c0 c (l : list A) es i q :
  t <> 0 ->
  (forall w, tw_step F w call = end_container w t c0) ->
  steps call (match l with [] => mkpp (t :: c) None [] false true es (S i) true q | _ => afterp (t :: c) (S i) q end)
        (pclose i l ++ [c0]) (afterp c i q).
Proof.
  intros Ht Hcall. destruct l; cbn [pclose].
  - apply (steps_end_p call t c0 c false true es i q Ht Hcall).
  - apply (steps_end_p call t c0 c true false false i q Ht Hcall).
Qed.

Definition Pvp (v : value) : Prop :=
  wf_value F v ->
  forall pa c f ns ec es i wl q, field_ok c f -> Forall wf_sym pa ->
  drives (calls_of_value v) (mkpp c f (map tok_of_sym pa) ns ec es i wl q)
         (pre_bytes c ns ec i ++ fieldp_bytes c f ++ wtp F i pa v) (afterp c i q).

(* the members of a list / s-expression / the top level *)
Lemma drives_members_p cx i q l : top_of cx <> ctxStruct -> Forall Pvp l -> wf_list F l ->
  forall ns ec es wl,
  drives (flat_map calls_of_value l) (mkpp cx None [] ns ec es i wl q)
         (pitems (sepp_of (top_of cx)) i ns ec (map (wtp F i []) l))
         (match l with [] => mkpp cx None [] ns ec es i wl q | _ => afterp cx i q end).
Proof.
  intros Hcx. induction 1 as [|x r Hx Hr IH]; intros Hw ns ec es wl; cbn [flat_map map pitems]; [apply drives_nil|].
  destruct Hw as [Hwx Hwr].
  assert (Hfo : field_ok cx None) by (intros E; contradiction).
  eapply drives_eq; [eapply drives_app; [apply (Hx Hwx [] cx None ns ec es i wl q Hfo (Forall_nil _))|apply (IH Hwr true false false true)]| |].
  - unfold pre_bytes, fieldp_bytes. destruct (N.eqb_spec (top_of cx) ctxStruct); [contradiction|]. app_norm.
  - destruct r; reflexivity.
Qed.
Lemma drives_fields_p c i q fs : Forall (fun p => Pvp (snd p)) fs -> wf_fields F fs ->
  forall ns ec es,
  drives (flat_map (fun '(n, x) => CFieldName (tok_of_sym n) :: calls_of_value x) fs) (mkpp (ctxStruct :: c) None [] ns ec es i true q)
         (pitems [44; 10] i ns ec (map (fun '(n, x) => wsym n ++ [58; 32] ++ wtp F i [] x) fs))
         (match fs with [] => mkpp (ctxStruct :: c) None [] ns ec es i true q | _ => afterp (ctxStruct :: c) i q end).
Proof.
  induction 1 as [|[n x] r Hx Hr IH]; intros Hw ns ec es; cbn [flat_map map pitems]; [apply drives_nil|].
  destruct Hw as (Hn & Hwx & Hwr). cbn [snd] in Hx.
  assert (Hfo : field_ok (ctxStruct :: c) (Some (tok_of_sym n))) by (intros _; eexists; split; [reflexivity|now apply wsym_ok]).
  change (CFieldName (tok_of_sym n) :: calls_of_value x ++ flat_map (fun '(n0, x0) => CFieldName (tok_of_sym n0) :: calls_of_value x0) r)
    with ((CFieldName (tok_of_sym n) :: calls_of_value x) ++ flat_map (fun '(n0, x0) => CFieldName (tok_of_sym n0) :: calls_of_value x0) r).
  eapply drives_eq; [eapply drives_app; [eapply drives_cons; [apply steps_field_name_p|
     apply (Hx Hwx [] (ctxStruct :: c) (Some (tok_of_sym n)) ns ec es i true q Hfo (Forall_nil _))]|apply (IH Hwr true false false)]| |].
  - unfold pre_bytes, fieldp_bytes, wsym. cbn [top_of]. change (ctxStruct =? ctxStruct) with true.
    change (sepp_of ctxStruct) with [44; 10]. app_norm.
  - destruct r; reflexivity.
Qed.

Lemma wtp_scalar i pa v : is_scalar v -> wtp F i pa v = ann_bytes pa ++ scalar_bytes F v.
Proof. destruct v; try contradiction; reflexivity. Qed.

Theorem value_written_p v : Pvp v.
Proof.
  induction v as [v Hsc|l IH|l IH|fs IH|a0 x IH] using value_ind'; intros Hw pa c f ns ec es i wl q Hf Hpa;
    pose proof (wsyms_ok pa Hpa) as Hwok.
  - assert (Hws : wf_scalar F v) by (destruct v; try contradiction; exact Hw).
    destruct (steps_scalar_p v c f (map tok_of_sym pa) ns ec es i wl q Hsc Hws Hf Hwok) as (call & -> & Hst).
    eapply drives_eq; [eapply drives_cons; [exact Hst|apply drives_nil]| |reflexivity].
    rewrite (wtp_scalar i pa v Hsc), tann_map. app_norm.
  - rewrite wf_list_eq in Hw. cbn [calls_of_value wtp].
    change (CBeginList :: flat_map calls_of_value l ++ [CEndList]) with ([CBeginList] ++ flat_map calls_of_value l ++ [CEndList]).
    eapply drives_eq; [eapply drives_app; [eapply drives_cons; [apply (steps_begin_p CBeginList ctxList 91 c f _ ns ec es i wl q (fun w => eq_refl) Hf Hwok)|apply drives_nil]|
                       eapply drives_app; [apply (drives_members_p (ctxList :: c) (S i) q l ltac:(discriminate) IH Hw false true es true)|
                                           eapply drives_cons; [|apply drives_nil]]]| |reflexivity].
    + apply (steps_end_l CEndList ctxList 93 c l es i q ltac:(discriminate) (fun w => eq_refl)).
    + rewrite tann_map. cbn [top_of]. change (sepp_of ctxList) with [44; 10]. app_norm.
  - rewrite wf_sexp_eq in Hw. cbn [calls_of_value wtp].
    change (CBeginSexp :: flat_map calls_of_value l ++ [CEndSexp]) with ([CBeginSexp] ++ flat_map calls_of_value l ++ [CEndSexp]).
    eapply drives_eq; [eapply drives_app; [eapply drives_cons; [apply (steps_begin_p CBeginSexp ctxSexp 40 c f _ ns ec es i wl q (fun w => eq_refl) Hf Hwok)|apply drives_nil]|
                       eapply drives_app; [apply (drives_members_p (ctxSexp :: c) (S i) q l ltac:(discriminate) IH Hw false true es true)|
                                           eapply drives_cons; [|apply drives_nil]]]| |reflexivity].
    + apply (steps_end_l CEndSexp ctxSexp 41 c l es i q ltac:(discriminate) (fun w => eq_refl)).
    + rewrite tann_map. cbn [top_of]. change (sepp_of ctxSexp) with [10]. app_norm.
  - rewrite wf_struct_eq in Hw. cbn [calls_of_value wtp].
    change (CBeginStruct :: ?x ++ [CEndStruct]) with ([CBeginStruct] ++ x ++ [CEndStruct]).
    eapply drives_eq; [eapply drives_app; [eapply drives_cons; [apply (steps_begin_p CBeginStruct ctxStruct 123 c f _ ns ec es i wl q (fun w => eq_refl) Hf Hwok)|apply drives_nil]|
                       eapply drives_app; [apply (drives_fields_p c (S i) q fs IH Hw false true es)|
                                           eapply drives_cons; [|apply drives_nil]]]| |reflexivity].
    + apply (steps_end_l CEndStruct ctxStruct 125 c fs es i q ltac:(discriminate) (fun w => eq_refl)).
    + rewrite tann_map. app_norm.
  - destruct Hw as [Ha0 Hwx]. cbn [calls_of_value wtp].
    eapply drives_eq; [eapply drives_app; [apply drives_annotations_p|rewrite <- map_app; apply (IH Hwx (pa ++ a0) c f ns ec es i wl q Hf)]|reflexivity|reflexivity].
    apply Forall_app. now split.
Qed.

(* ---- the whole stream ---------------------------------------------------------------------------------------------- *)
Theorem forest_written_pretty quiet vs : Forall (wf_value F) vs ->
  exists w oks, tw_drive F (new_text_writer None true quiet) (calls_of_stream vs) = Ok (w, oks) /\
                forallb (fun b => b) oks = true /\ sink_bytes (tw_out w) = wtp_stream F quiet vs.
Proof.
  intros Hvs.
  assert (Hwl : wf_list F vs) by (induction Hvs; cbn; auto).
  assert (HP : Forall Pvp vs) by (apply Forall_forall; intros v _; apply value_written_p).
  pose proof (drives_members_p [] 0%nat quiet vs ltac:(discriminate) HP Hwl false false true false) as Hm.
  assert (Hfin : steps CFinish (match vs with [] => mkpp [] None [] false false true 0%nat false quiet | _ => afterp [] 0%nat quiet end)
                       (match vs with [] => [] | _ => if quiet then [] else [10] end)
                       (match vs with [] => mkpp [] None [] false false true 0%nat false quiet
                                 | _ => mkpp [] None [] (if quiet then true else false) false (if quiet then false else true) 0%nat true quiet end)).
  { intros w out Hst. cbn [tw_step]. unfold finish, tw_err, p_peek. pose proof Hst as (Hb & Ho & Hp). rewrite Hp.
    destruct vs as [|v0 vs']; unfold afterp; cbn [mkpp p_err p_ctx p_empty_stream p_quiet N.eqb negb andb].
    - destruct (runs_upd p_clear (mkpp [] None [] false false true 0%nat false quiet) w out Hst) as (w' & E & Hs').
      exists w'. rewrite E. split; [reflexivity|exact Hs'].
    - destruct quiet; cbn [negb andb].
      + destruct (runs_upd p_clear (mkpp [] None [] true false false 0%nat true true) w out Hst) as (w' & E & Hs').
        exists w'. rewrite E. split; [reflexivity|exact Hs'].
      + destruct (runs_raw [10] _ w out Hst) as (w1 & E1 & Hs1). rewrite E1. cbn [negb].
        destruct (runs_upd (fun p => p_clear (p_set_flags p false (p_empty_cont p) true)) _ w1 _ Hs1) as (w' & E & Hs').
        exists w'. rewrite E. split; [reflexivity|]. rewrite app_nil_r in Hs'. exact Hs'. }
  assert (Hinit : st (new_text_writer None true quiet) [] (mkpp [] None [] false false true 0%nat false quiet)) by (repeat split).
  unfold calls_of_stream.
  destruct (drives_app F _ _ _ _ _ _ _ Hm (drives_cons F _ _ _ _ _ _ _ Hfin (drives_nil F _)) _ _ Hinit) as (w & oks & E & Hok & (_ & Hout & _)).
  exists w, oks. split; [exact E|]. split; [exact Hok|]. rewrite Hout. unfold wtp_stream. cbn [app top_of].
  change (sepp_of 0) with [10]. now rewrite app_nil_r.
Qed.
End Drive.
