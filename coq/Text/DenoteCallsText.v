(* DenoteCallsText.v — vocabulary for the byte-level C12 statement of the TEXT Writer over ALL calls.
   The text Writer has two spellings of the untyped null: WriteNull() and WriteNullType(NoType) write `null`,
   WriteNullType(NullType) writes `null.null`; [denote] (Bin/DenoteCalls.v) maps all three to VNull NullType, and
   the canonical text [wt] of VNull NullType is `null.null`.  To say exactly which bytes are written, the
   spelling is recorded in the forest: a MARKED forest uses the type code 0 (NoType, not a value of the data
   model) for an untyped null spelled `null` — [wt] of VNull 0 is `null` — and [nz] erases the mark.
   [dstep0] / [denote_from0] are [dstep] / [denote_from] producing the marked forest.  No proofs in this file. *)
From Coq Require Import String List NArith ZArith Bool.
From IonV Require Import Base.Wire Data.Ion Bin.BinWriter Bin.DenoteCalls.
Import ListNotations.
Open Scope N_scope.

Fixpoint nz (v : value) : value :=
  match v with
  | VNull t => VNull (if t =? 0 then TNull else t)
  | VList l => VList (map nz l)
  | VSexp l => VSexp (map nz l)
  | VStruct fs => VStruct (map (fun '(n, x) => (n, nz x)) fs)
  | VAnn a x => VAnn a (nz x)
  | _ => v
  end.
Definition nz_open (o : opened) : opened :=
  match o with
  | OList l => OList (map nz l)
  | OSexp l => OSexp (map nz l)
  | OStruct fs => OStruct (map (fun '(n, x) => (n, nz x)) fs)
  end.
Definition nz_frame (fr : frame) : frame :=
  {| fr_open := nz_open (fr_open fr); fr_field := fr_field fr; fr_annots := fr_annots fr |}.
Definition nz_state (ds : dstate) : dstate :=
  {| ds_flushed := map nz (ds_flushed ds); ds_done := map nz (ds_done ds); ds_stack := map nz_frame (ds_stack ds);
     ds_field := ds_field ds; ds_annots := ds_annots ds |}.

(* the calls that spell the untyped null `null` *)
Definition bare_null (c : wcall) : bool :=
  match c with CNull => true | CNullType t => t =? 0 | _ => false end.
Definition dstep0 (ds : dstate) (c : wcall) : option dstate :=
  if bare_null c then d_scalar ds (VNull 0) else dstep ds c.
Fixpoint denote_from0 (st : dstate) (cs : list wcall) (oks : list bool) : option dstate :=
  match cs, oks with
  | [], [] => Some st
  | c :: cs', ok :: oks' =>
    if ok then match dstep0 st c with Some st' => denote_from0 st' cs' oks' | None => None end
    else denote_from0 st cs' oks'
  | _, _ => None
  end.
(* the marked forest of a call sequence *)
Definition denote0 (cs : list wcall) (oks : list bool) : option (list value) :=
  match denote_from0 d_init cs oks with
  | Some st => match ds_stack st with [] => Some (ds_flushed st ++ ds_done st) | _ :: _ => None end
  | None => None
  end.
