(* WriteSpellTree.v — C01, text half, step 3: by induction over the value tree, the text [wt] the Writer model
   emits for a value (compact mode) is a spelling of the value as the reader presents it: [tspell] of
   Text/SpellTree.v — annotations (bare identifier / $n / quoted), containers with their separators, field
   names, and what follows every member satisfies the member's follow condition. *)
From Coq Require Import String List NArith ZArith Bool Lia ZifyBool ZifyN ZifyNat.
From IonV Require Import Base.Wire Base.Utf8 Data.Ion Num.Float Bin.BinWriter Bin.BitStream Bin.BinReader Bin.RoundTripBinS
  Text.TextOut Text.TextWriter Text.TextRoundtrip Text.Tokenizer Text.Skipper Text.TextReader Text.TextNum
  Text.SpellBase Text.SpellWs Text.SpellNum Text.SpellIdent Text.SpellSym Text.SpellEsc Text.SpellStr Text.SpellBlob
  Text.SpellTs Text.SpellRead Text.SpellVal Text.SpellSymVal Text.SpellStream Text.SpellCont Text.SpellTree
  Text.WriteSpell Text.WriteSpellOut Text.WriteSpellScalar.
Import ListNotations.
Open Scope N_scope.

Ltac app_eq := repeat first [rewrite <- app_assoc | progress (cbn [app])]; try reflexivity.

Lemma aval_eq ctx acc t t' fol anns ty v :
  aval_spells PD PT LSys ctx acc t fol anns ty v -> t = t' -> aval_spells PD PT LSys ctx acc t' fol anns ty v.
Proof. intros H <-. exact H. Qed.
Lemma aopen_eq ctx acc t t' anns tok :
  aopen_spells LSys ctx acc t anns tok -> t = t' -> aopen_spells LSys ctx acc t' anns tok.
Proof. intros H <-. exact H. Qed.
Lemma cseq_eq ctx st t t' items :
  cseq PD PT LSys ctx st t items -> t = t' -> cseq PD PT LSys ctx st t' items.
Proof. intros H <-. exact H. Qed.
Lemma tspell_eq ctx t t' fol tv0 :
  tspell PD PT LSys ctx t fol tv0 -> t = t' -> tspell PD PT LSys ctx t' fol tv0.
Proof. intros H <-. exact H. Qed.

(* ---- annotations ------------------------------------------------------------------------------------------------ *)
Lemma ann_aval ctx pa : Forall wf_sym pa -> forall acc lit fol ty v,
  item_spells PD PT LSys ctx (acc ++ map rd_sym pa) lit fol ty v ->
  aval_spells PD PT LSys ctx acc (ann_bytes pa ++ lit) fol (acc ++ map rd_sym pa) ty v.
Proof.
  induction 1 as [|y r Hy Hr IH]; intros acc lit fol ty v Hit; cbn [map ann_bytes flat_map app] in *.
  - rewrite app_nil_r in *. now apply av_item.
  - assert (Hrest : aval_spells PD PT LSys ctx (acc ++ [rd_sym y]) (ann_bytes r ++ lit) fol (acc ++ rd_sym y :: map rd_sym r) ty v).
    { replace (acc ++ rd_sym y :: map rd_sym r) with ((acc ++ [rd_sym y]) ++ map rd_sym r) in * by now rewrite <- app_assoc.
      now apply IH. }
    destruct (sym_shape_wf y Hy) as [Hid Hkw Hk _|body text E Hq _ Hu Hk].
    + eapply aval_eq; [apply (av_id PD PT LSys ctx acc (wsym y) (rd_sym y) [] [] (ann_bytes r ++ lit)); auto; constructor|].
      unfold ann_bytes. app_eq.
    + rewrite Hk in Hrest |- *.
      eapply aval_eq; [apply (av_quoted PD PT LSys ctx acc body text [] [] (ann_bytes r ++ lit)); auto; constructor|].
      rewrite E. unfold ann_bytes. app_eq.
Qed.
Lemma ann_aopen ctx tok pa : Forall wf_sym pa -> forall acc,
  open_ok ctx (acc ++ map rd_sym pa) tok ->
  aopen_spells LSys ctx acc (ann_bytes pa ++ [open_byte tok]) (acc ++ map rd_sym pa) tok.
Proof.
  induction 1 as [|y r Hy Hr IH]; intros acc Hok; cbn [map ann_bytes flat_map app] in *.
  - rewrite app_nil_r in *. now apply ao_open.
  - assert (Hrest : aopen_spells LSys ctx (acc ++ [rd_sym y]) (ann_bytes r ++ [open_byte tok]) (acc ++ rd_sym y :: map rd_sym r) tok).
    { replace (acc ++ rd_sym y :: map rd_sym r) with ((acc ++ [rd_sym y]) ++ map rd_sym r) in * by now rewrite <- app_assoc.
      now apply IH. }
    destruct (sym_shape_wf y Hy) as [Hid Hkw Hk _|body text E Hq _ Hu Hk].
    + eapply aopen_eq; [apply (ao_id LSys ctx acc (wsym y) (rd_sym y) [] [] (ann_bytes r ++ [open_byte tok])); auto; constructor|].
      unfold ann_bytes. app_eq.
    + rewrite Hk in Hrest |- *.
      eapply aopen_eq; [apply (ao_quoted LSys ctx acc body text [] [] (ann_bytes r ++ [open_byte tok])); auto; constructor|].
      rewrite E. unfold ann_bytes. app_eq.
Qed.
Lemma ann_no_cr pa : Forall wf_sym pa -> no_cr (ann_bytes pa).
Proof.
  induction 1 as [|y r Hy Hr IH]; cbn [ann_bytes flat_map]; [constructor|].
  apply no_cr_app. split; [|exact IH]. apply no_cr_app. split; [now apply wsym_no_cr|repeat constructor; discriminate].
Qed.

(* field names *)
Lemma sym_fname y : wf_sym y -> fname_spells LSys (wsym y) (rd_sym y) /\ hd 0 (wsym y) <> 123.
Proof.
  intros Hy. destruct (sym_shape_wf y Hy) as [Hid Hkw Hk _|body text E Hq _ Hu Hk].
  - split; [now apply fn_id|]. destruct Hid as [c r Hc _]. cbn [hd]. unfold id_start, letter in Hc. lia.
  - rewrite E, Hk. split; [now apply fn_quoted|]. cbn [hd]. discriminate.
Qed.

(* ---- separators ------------------------------------------------------------------------------------------------- *)
Lemma no_cr_items sep ns l : no_cr sep -> Forall no_cr l -> no_cr (items sep ns l).
Proof.
  intros Hs H. revert ns. induction H as [|x r Hx Hr IH]; intros ns; cbn [items]; [constructor|].
  apply no_cr_app. split; [destruct ns; [exact Hs|constructor]|]. apply no_cr_app. split; [exact Hx|apply IH].
Qed.
Lemma good_follow_cons c r : (c = 44 \/ c = 93 \/ c = 32 \/ c = 41 \/ c = 125 \/ c = 10) -> good_follow (c :: r).
Proof. intros H. right. eauto. Qed.

Section Tree.
Variable F : formats.

Definition Ps (v : value) : Prop :=
  wf_value F v -> forall pa, Forall wf_sym pa ->
  no_cr (wt F pa v) /\
  forall ctx, (ctx = [] -> top_ok_ann pa v) ->
  exists fol, fol_ok fol /\ tspell PD PT LSys ctx (wt F pa v) fol (tv F pa v).

Lemma Ps_no_cr l : Forall Ps l -> wf_list F l -> Forall (@no_cr) (map (wt F []) l).
Proof.
  induction 1 as [|x r Hx Hr IH]; intros Hw; cbn [map]; [constructor|]. destruct Hw as [Hwx Hwr].
  constructor; [exact (proj1 (Hx Hwx [] (Forall_nil _)))|auto].
Qed.
Lemma Ps_inner x ctx c : Ps x -> wf_value F x ->
  exists fol, fol_ok fol /\ tspell PD PT LSys (c :: ctx) (wt F [] x) fol (tv F [] x).
Proof. intros Hx Hw. apply (proj2 (Hx Hw [] (Forall_nil _))). discriminate. Qed.

(* members of a list *)
Lemma list_cseq ctx l : Forall Ps l -> wf_list F l -> forall first : bool,
  cseq PD PT LSys (CList :: ctx) (if first then trsBeforeTypeAnnotations else trsAfterValue)
       (items [44] (negb first) (map (wt F []) l) ++ [93]) (map (fun x => (None, tv F [] x)) l).
Proof.
  induction 1 as [|x r Hx Hr IH]; intros Hw first; cbn [map items app].
  - destruct first; eapply cs_close; [apply cl_list_bta|apply cl_list].
  - destruct Hw as [Hwx Hwr]. destruct (Ps_inner x ctx CList Hx Hwx) as (fol & Hfol & Hsp).
    specialize (IH Hwr false). cbn [negb] in IH.
    assert (Hgf : forall outer, good_follow ([] ++ (items [44] true (map (wt F []) r) ++ [93]) ++ outer)).
    { intros outer. destruct r; cbn [map items app]; apply good_follow_cons; lia. }
    destruct first; cbn [negb].
    + eapply cseq_eq; [eapply (cs_item PD PT LSys (CList :: ctx) _ [] None 0 [] (wt F [] x) fol (tv F [] x) []);
                       [apply sep_none|constructor|reflexivity|exact Hsp|constructor|intros outer; apply Hfol, Hgf|exact IH]|].
      app_eq.
    + eapply cseq_eq; [eapply (cs_item PD PT LSys (CList :: ctx) _ [44] None 1 [] (wt F [] x) fol (tv F [] x) []);
                       [apply sep_comma|constructor|discriminate|exact Hsp|constructor|intros outer; apply Hfol, Hgf|exact IH]|].
      app_eq.
Qed.

(* members of an s-expression: the space belongs to the member in front of it *)
Lemma sexp_cseq ctx l : Forall Ps l -> wf_list F l -> forall x, Ps x -> wf_value F x ->
  cseq PD PT LSys (CSexp :: ctx) trsBeforeTypeAnnotations
       (wt F [] x ++ items [32] true (map (wt F []) l) ++ [41]) ((None, tv F [] x) :: map (fun x => (None, tv F [] x)) l).
Proof.
  induction 1 as [|y r Hy Hr IH]; intros Hw x Hx Hwx; cbn [map items app];
    destruct (Ps_inner x ctx CSexp Hx Hwx) as (fol & Hfol & Hsp).
  - eapply cseq_eq; [eapply (cs_item PD PT LSys (CSexp :: ctx) _ [] None 0 [] (wt F [] x) fol (tv F [] x) [] [41]);
                     [apply sep_none|constructor|reflexivity|exact Hsp|constructor|
                      intros outer; apply Hfol; cbn [app]; apply good_follow_cons; lia|
                      eapply cs_close; apply cl_sexp]|].
    app_eq.
  - destruct Hw as [Hwy Hwr]. specialize (IH Hwr y Hy Hwy).
    eapply cseq_eq; [eapply (cs_item PD PT LSys (CSexp :: ctx) _ [] None 0 [] (wt F [] x) fol (tv F [] x) [32]);
                     [apply sep_none|constructor|reflexivity|exact Hsp|apply ws_ch; [reflexivity|constructor]|
                      intros outer; apply Hfol; cbn [app]; apply good_follow_cons; lia|exact IH]|].
    app_eq.
Qed.

(* fields of a struct *)
Lemma struct_cseq ctx fs : Forall (fun p => Ps (snd p)) fs -> wf_fields F fs -> forall first : bool,
  cseq PD PT LSys (CStruct :: ctx) (if first then trsBeforeFieldName else trsAfterValue)
       (items [44] (negb first) (map (fun '(n, x) => wsym n ++ [58] ++ wt F [] x) fs) ++ [125])
       (map (fun '(n, x) => (Some (rd_sym n), tv F [] x)) fs).
Proof.
  induction 1 as [|[n x] r Hx Hr IH]; intros Hw first; cbn [map items app].
  - destruct first; eapply cs_close; [apply cl_struct_first|apply cl_struct].
  - destruct Hw as (Hn & Hwx & Hwr). cbn [snd] in Hx. destruct (Ps_inner x ctx CStruct Hx Hwx) as (fol & Hfol & Hsp).
    specialize (IH Hwr false). cbn [negb] in IH. destruct (sym_fname n Hn) as [Hfn _].
    assert (Hgf : forall outer, good_follow ([] ++ (items [44] true (map (fun '(n, x) => wsym n ++ [58] ++ wt F [] x) r) ++ [125]) ++ outer)).
    { intros outer. destruct r; cbn [map items app]; apply good_follow_cons; lia. }
    destruct first; cbn [negb].
    + eapply cseq_eq; [eapply (cs_item PD PT LSys (CStruct :: ctx) _ (wsym n ++ [] ++ [58]) (Some (rd_sym n)) 1 [] (wt F [] x) fol (tv F [] x) []);
                       [apply sep_field; [exact Hfn|constructor]|constructor|intros E; destruct (wsym n); discriminate E|exact Hsp|constructor|
                        intros outer; apply Hfol, Hgf|exact IH]|].
      app_eq.
    + eapply cseq_eq; [eapply (cs_item PD PT LSys (CStruct :: ctx) _ (44 :: [] ++ wsym n ++ [] ++ [58]) (Some (rd_sym n)) 2 [] (wt F [] x) fol (tv F [] x) []);
                       [apply sep_comma_field; [constructor|exact Hfn|constructor]|constructor|discriminate|exact Hsp|constructor|
                        intros outer; apply Hfol, Hgf|exact IH]|].
      app_eq.
Qed.

Lemma fields_no_cr fs : Forall (fun p => Ps (snd p)) fs -> wf_fields F fs ->
  Forall (@no_cr) (map (fun '(n, x) => wsym n ++ [58] ++ wt F [] x) fs).
Proof.
  induction 1 as [|[n x] r Hx Hr IH]; intros Hw; cbn [map]; [constructor|]. destruct Hw as (Hn & Hwx & Hwr). cbn [snd] in Hx.
  constructor; [|auto]. apply no_cr_app. split; [now apply wsym_no_cr|]. constructor; [discriminate|].
  exact (proj1 (Hx Hwx [] (Forall_nil _))).
Qed.

Lemma open_ok_ctx ctx pa v tok : (ctx = [] -> top_ok_ann pa v) ->
  (tok = tokenOpenBrace -> exists fs, v = VStruct fs) -> tok = tokenOpenBracket \/ tok = tokenOpenParen \/ tok = tokenOpenBrace ->
  open_ok ctx ([] ++ map rd_sym pa) tok.
Proof.
  intros Htop Hv [->|[->| ->]]; [now left|right; now left|right; right]. split; [reflexivity|].
  destruct ctx as [|c ctx']; [|reflexivity]. destruct (Hv eq_refl) as (fs & ->). cbn [app andb]. exact (Htop eq_refl).
Qed.

Theorem value_spells v : Ps v.
Proof.
  induction v as [v Hsc|l IH|l IH|fs IH|a0 x IH] using value_ind'; intros Hw pa Hpa.
  - (* scalars *)
    assert (Hws : wf_scalar F v) by (destruct v; try contradiction; exact Hw).
    rewrite (wt_scalar F pa v Hsc).
    assert (Htv : tv F pa v = TScalar (map rd_sym pa) (scalar_ty v) (scalar_xv F v)) by (destruct v; try contradiction; reflexivity).
    split.
    + apply no_cr_app. split; [now apply ann_no_cr|].
      destruct (scalar_item F [] [] v Hsc Hws) as (fol & _ & Hcr & _); [|exact Hcr].
      intros t _. unfold lst_marker. cbn. now rewrite andb_false_r.
    + intros ctx Htop. rewrite Htv.
      destruct (scalar_item F ctx (map rd_sym pa) v Hsc Hws) as (fol & Hfol & _ & Hit).
      { intros t ->. unfold lst_marker. destruct ctx as [|c ctx']; [|now rewrite andb_false_r].
        specialize (Htop eq_refl). cbn [top_ok_ann] in Htop.
        destruct (N.eqb_spec t TStruct) as [->|Ht]; [|reflexivity]. cbn [andb]. exact Htop. }
      exists fol. split; [exact Hfol|]. apply t_scalar.
      exact (ann_aval ctx pa Hpa [] _ fol _ _ Hit).
  - (* lists *)
    rewrite wf_list_eq in Hw. cbn [wt tv]. split.
    + apply no_cr_app. split; [now apply ann_no_cr|]. constructor; [discriminate|]. apply no_cr_app.
      split; [apply no_cr_items; [repeat constructor; discriminate|now apply Ps_no_cr]|repeat constructor; discriminate].
    + intros ctx Htop. exists f_any. split; [exact fol_any|].
      eapply tspell_eq; [apply (t_cont PD PT LSys ctx (ann_bytes pa ++ [91]) (map rd_sym pa) tokenOpenBracket [] _ _
                                  (ann_aopen ctx tokenOpenBracket pa Hpa [] (or_introl eq_refl)) ws_nil ltac:(discriminate)
                                  (list_cseq ctx l IH Hw true))|].
      app_eq.
  - (* s-expressions *)
    rewrite wf_sexp_eq in Hw. cbn [wt tv]. split.
    + apply no_cr_app. split; [now apply ann_no_cr|]. constructor; [discriminate|]. apply no_cr_app.
      split; [apply no_cr_items; [repeat constructor; discriminate|now apply Ps_no_cr]|repeat constructor; discriminate].
    + intros ctx Htop. exists f_any. split; [exact fol_any|].
      assert (Hcs : cseq PD PT LSys (CSexp :: ctx) trsBeforeTypeAnnotations (items [32] false (map (wt F []) l) ++ [41])
                         (map (fun x => (None, tv F [] x)) l)).
      { destruct l as [|x r]; cbn [map items app].
        - eapply cs_close. apply cl_sexp.
        - inversion IH as [|? ? Hx Hr]; subst. destruct Hw as [Hwx Hwr].
          eapply cseq_eq; [apply (sexp_cseq ctx r Hr Hwr x Hx Hwx)|]. app_eq. }
      eapply tspell_eq; [apply (t_cont PD PT LSys ctx (ann_bytes pa ++ [40]) (map rd_sym pa) tokenOpenParen [] _ _
                                  (ann_aopen ctx tokenOpenParen pa Hpa [] (or_intror (or_introl eq_refl))) ws_nil ltac:(discriminate) Hcs)|].
      app_eq.
  - (* structs *)
    rewrite wf_struct_eq in Hw. cbn [wt tv]. split.
    + apply no_cr_app. split; [now apply ann_no_cr|]. constructor; [discriminate|]. apply no_cr_app.
      split; [apply no_cr_items; [repeat constructor; discriminate|now apply fields_no_cr]|repeat constructor; discriminate].
    + intros ctx Htop. exists f_any. split; [exact fol_any|].
      assert (Hok : open_ok ctx ([] ++ map rd_sym pa) tokenOpenBrace).
      { apply (open_ok_ctx ctx pa (VStruct fs)); [exact Htop|intros _; eauto|auto]. }
      assert (H123 : tokenOpenBrace = tokenOpenBrace ->
                     hd 0 ([] ++ items [44] false (map (fun '(n, x) => wsym n ++ [58] ++ wt F [] x) fs) ++ [125]) <> 123).
      { intros _. destruct fs as [|[n x] r]; cbn [map items app hd]; [discriminate|].
        destruct Hw as (Hn & _). destruct (sym_fname n Hn) as [Hfn Hhd].
        destruct (fname_first LSys _ _ Hfn) as (c & r0 & E & _). rewrite E in *. cbn [app hd] in *. exact Hhd. }
      eapply tspell_eq; [apply (t_cont PD PT LSys ctx (ann_bytes pa ++ [123]) (map rd_sym pa) tokenOpenBrace [] _ _
                                  (ann_aopen ctx tokenOpenBrace pa Hpa [] Hok) ws_nil H123 (struct_cseq ctx fs IH Hw true))|].
      app_eq.
  - (* annotations *)
    destruct Hw as [Ha0 Hwx]. cbn [wt tv top_ok_ann].
    apply (IH Hwx (pa ++ a0)). apply Forall_app. now split.
Qed.
End Tree.
