(* SpellEofc.v — C02, stage 8f: a `//` comment that runs to the end of the input (no newline behind it).

   [eofc wc]: wc is a whitespace run followed by `//` and a body without newline; the text ends there.
   On a stream  zs wc ++ e  (e: end marks only) the whitespace skipper reads up to the end and answers -1.
   The file proves, for that tail, the triples of SkipDoubleColon, tokenizer.Next (EOF token), FinishValue behind a
   number, and one round of Next on the literals whose reading looks beyond the whitespace that follows them
   (identifiers, keywords, null, quoted symbols); the lemmas [next_ident_abs] / [next_quoted_abs] are stated
   over an arbitrary tail, given the triple of SkipDoubleColon on it. *)
From Coq Require Import String List NArith ZArith Bool Lia ZifyBool ZifyN ZifyNat.
From IonV Require Import Base.Wire Base.Utf8 Data.Ion Bin.Bits Bin.BitStream Bin.BinReader Num.Float Text.Tokenizer Text.Skipper
  Text.TextReader Text.TextNum Text.SpellBase Text.SpellWs Text.SpellNum Text.SpellTok Text.SpellRead
  Text.SpellEsc Text.SpellStr Text.SpellLong Text.SpellIdent Text.SpellSym Text.SpellVal Text.SpellSymVal.
Import ListNotations.
Open Scope Z_scope.

Inductive eofc : list N -> Prop :=
| eofc_intro w body : ws_run w -> no_cr w -> Forall not_nl body -> eofc (w ++ 47 :: 47 :: body)%N.

(* the stream after the skipper has met the end and the end mark has been pushed back *)
Definition eofT (e : list Z) : list Z := -1 :: stail (stail e).

Lemma all_eof_eofT e : all_eof e -> all_eof (eofT e).
Proof. intros H. constructor; [reflexivity|]. now apply all_eof_stail, all_eof_stail. Qed.
Lemma ends_eofT e : all_eof e -> ends (eofT e) [].
Proof. intros H. exists (eofT e). split; [now apply all_eof_eofT|reflexivity]. Qed.

Lemma eofc_cons wc : eofc wc -> exists c r, wc = c :: r /\ (ws_byte c = true \/ c = 47%N).
Proof.
  intros [w body Hw Hcr Hb]. destruct Hw as [|c w' Hc Hw'|b nl w' Hb' Hn Hw'|b w' Hb' Hw']; cbn [app]; eauto.
Qed.
Lemma eofc_tail c r : eofc (c :: r) -> is_whitespace (Z.of_N c) = true -> eofc r.
Proof.
  intros H Hc. inversion H as [w body Hw Hcr Hb E]. destruct w as [|c' w'].
  - cbn [app] in E. injection E as <- _. discriminate Hc.
  - cbn [app] in E. injection E as -> <-. constructor; auto.
    + apply (ws_run_head_ws c w' Hw Hc).
    + now inversion Hcr.
Qed.
Lemma eofc_no_cr wc : eofc wc -> no_cr wc.
Proof.
  intros [w body Hw Hcr Hb]. apply no_cr_app. split; [exact Hcr|].
  constructor; [discriminate|]. constructor; [discriminate|]. now apply not_nl_no_cr.
Qed.
Lemma eofc_spush wc e : eofc wc -> spush (zs wc ++ e) = zs wc ++ e.
Proof. intros H. destruct (eofc_cons wc H) as (c & r & -> & _). reflexivity. Qed.
Lemma eofc_pks wc e n : eofc wc -> all_eof e -> exists e', all_eof e' /\ pks n (zs wc ++ e) = zs wc ++ e' /\ stail (stail e') = stail (stail e).
Proof.
  intros Hc He. rewrite pks_zs_app. exists (pks (n - length wc) e). split; [|split; [reflexivity|]].
  - destruct (n - length wc)%nat as [|m]; [exact He|]. cbn [pks]. destruct e as [|x e']; [repeat constructor|].
    inversion He as [|? ? Hx He']; subst. exact He.
  - destruct (n - length wc)%nat as [|m]; [reflexivity|]. cbn [pks]. destruct e as [|x e']; [reflexivity|].
    inversion He as [|? ? Hx He']; subst. reflexivity.
Qed.

Lemma run_skip_eofc wc e : eofc wc -> all_eof e -> run t_skip_whitespace (zs wc ++ e) (-1, true) (stail (stail e)).
Proof. intros [w body Hw Hcr Hb] He. now apply run_t_skip_whitespace_eof_comment. Qed.

Lemma run_skip_double_colon_eofc wc e : eofc wc -> all_eof e ->
  run t_skip_double_colon (zs wc ++ e) (false, true) (eofT e).
Proof.
  intros Hc He. unfold t_skip_double_colon.
  eapply run_bind; [apply (run_skip_eofc wc e Hc He)|]. cbv beta iota.
  eapply run_bind; [apply run_unread|].
  eapply run_bind; [|apply run_ret]. unfold skip_double_colon.
  eapply run_bind; [apply run_peekN_pk|].
  change (pk 2 (-1 :: stail (stail e))) with (@nil Z, true). cbv beta iota. apply run_ret.
Qed.

(* Next at the end of the input *)
Lemma runK_t_next_eofc wc e k : eofc wc -> all_eof e ->
  runK t_next (zs wc ++ e, k, false) tt (stail (stail e), tokenEOF, true).
Proof.
  intros Hc He. unfold t_next, t_next_with. apply runK_get_bind. intros t Ha Hi.
  assert (Hu : t_unfinished t = false) by (unfold abs in Ha; now injection Ha).
  rewrite Hu. eapply runK_bind.
  - eapply runK_bind; [apply run_runK, (run_skip_eofc wc e Hc He)|]. cbv beta iota. apply runK_ret.
  - change (-1 =? -1) with true. cbv iota. apply runK_t_ok.
Qed.

(* FinishValue behind a number *)
Lemma runK_finish_value_number_eofc wc e :
  eofc wc -> all_eof e -> terminated (zs wc ++ e) = true ->
  runK t_finish_value (unterm (zs wc ++ e), tokenNumber, true) true
       ((if is_whitespace (shead (zs wc ++ e)) then eofT e else unterm (zs wc ++ e)), tokenNumber, false).
Proof.
  intros Hc He Hs. set (s := zs wc ++ e) in *.
  unfold t_finish_value, t_finish_value_with. apply runK_get_bind. intros t Ha Hi.
  assert (Hu : t_unfinished t = true) by (unfold abs in Ha; now injection Ha). rewrite Hu. cbn [negb]. clear t Ha Hi Hu.
  destruct (is_whitespace (shead s)) eqn:Hws.
  - destruct (eofc_cons wc Hc) as (c0 & wtail & -> & _).
    assert (Hc0 : shead s = Z.of_N c0) by reflexivity.
    assert (Hwt : eofc wtail) by (apply (eofc_tail c0 wtail Hc); now rewrite <- Hc0).
    assert (Hat : after_term s = zs wtail ++ e).
    { unfold after_term. rewrite Hc0. destruct (Z.eqb_spec (Z.of_N c0) c_slash) as [E|E]; [|reflexivity].
      rewrite Hc0, E in Hws. discriminate Hws. }
    eapply runK_bind with (a := -1) (x1 := (stail (stail e), tokenNumber, false)).
    + unfold t_skip_value. apply runK_get_bind. intros t Ha Hi.
      assert (Hk : t_token t = tokenNumber) by (unfold abs in Ha; now injection Ha). rewrite Hk. tok_cbn. clear t Ha Hi Hk.
      eapply runK_bind; [apply run_runK, (run_skip_number_done s Hs)|].
      rewrite Hws, Hat.
      eapply runK_bind.
      { eapply runK_bind; [apply run_runK, (run_skip_eofc wtail e Hwt He)|].
        cbv beta iota. apply runK_ret. }
      eapply runK_bind; [apply runK_finish|]. apply runK_ret.
    + eapply runK_bind; [apply run_runK, run_unread|].
      eapply runK_bind; [apply runK_finish|]. apply runK_ret.
  - eapply runK_bind with (a := shead s) (x1 := (after_term s, tokenNumber, false)).
    + unfold t_skip_value. apply runK_get_bind. intros t Ha Hi.
      assert (Hk : t_token t = tokenNumber) by (unfold abs in Ha; now injection Ha). rewrite Hk. tok_cbn. clear t Ha Hi Hk.
      eapply runK_bind; [apply run_runK, (run_skip_number_done s Hs)|].
      rewrite Hws.
      eapply runK_bind; [apply runK_ret|].
      eapply runK_bind; [apply runK_finish|]. apply runK_ret.
    + eapply runK_bind; [apply run_runK, run_unread|].
      eapply runK_bind; [apply runK_finish|]. rewrite <- unterm_after_term. apply runK_ret.
Qed.

(* ---- long strings: the whitespace behind the last segment is whatever the skipper takes ------------------------------------ *)
Lemma run_long_segs_abs : forall w ts, lsegs w ts -> forall f acc ws s sk after,
  no_cr w -> valid_segs ts ->
  run (t_skip_whitespace_h HSkipComments) (zs ws ++ s) (shead s, sk) after -> (shead s = 39 -> after = stail s) ->
  starts3 s = false ->
  (length w <= f)%nat ->
  run (read_long_string_loop f acc []) (zs w ++ zs ws ++ s) (rev acc ++ concat ts) (long_end_with after s).
Proof.
  induction 1 as [w t Hb|w t ws0 rest ts Hb Hws0 Hrest IH]; intros f acc ws s sk after Hcr Hv Hskip Hafter H3 Hf.
  - inversion Hv as [|? ? Hvt _]; subst. apply no_cr_app in Hcr as [Hcr _].
    unfold q3 in *. rewrite zs_app, <- app_assoc. cbn [zs map app].
    rewrite app_length in Hf. cbn [length] in Hf.
    apply run_long_body with (t := t); auto; [lia|]. intros f' Hf'. rewrite app_nil_r.
    destruct f' as [|f']; [lia|]. cbn [read_long_string_loop].
    eapply run_bind; [apply run_read_cons|].
    change ((39 =? -1) || is_prohibited_control_char 39) with false. change (39 =? c_quote) with true. cbv iota.
    eapply run_bind; [apply (run_skip_end_gen HSkipComments ws s sk after Hskip Hafter)|]. rewrite H3. cbn [negb]. cbv iota.
    rewrite rev_involutive, Hvt. cbn [negb]. cbv iota.
    cbn [concat]. rewrite app_nil_r, rev_app_distr, rev_involutive. apply run_ret.
  - inversion Hv as [|? ? Hvt Hvts]; subst.
    apply no_cr_app in Hcr as [Hcr Hcr2]. apply no_cr_app in Hcr2 as [_ Hcr2].
    apply no_cr_app in Hcr2 as [Hcr0 Hcr2]. apply no_cr_app in Hcr2 as [_ Hcr2].
    rewrite !app_length in Hf. unfold q3 in *. cbn [length] in Hf.
    rewrite !zs_app, <- !app_assoc. cbn [zs map app].
    apply run_long_body with (t := t); auto; [lia|]. intros f' Hf'. rewrite app_nil_r.
    destruct f' as [|f']; [lia|]. cbn [read_long_string_loop].
    eapply run_bind; [apply run_read_cons|].
    change ((39 =? -1) || is_prohibited_control_char 39) with false. change (39 =? c_quote) with true. cbv iota.
    eapply run_bind; [apply (run_skip_end_str ws0 (39 :: 39 :: 39 :: zs rest ++ zs ws ++ s) Hws0 Hcr0 eq_refl)|].
    change (starts3 (39 :: 39 :: 39 :: zs rest ++ zs ws ++ s)) with true. cbn [negb stail]. cbv iota.
    rewrite rev_involutive, Hvt. cbn [negb]. cbv iota.
    eapply run_eq; [apply (IH f' (rev t ++ acc) ws s sk after)| |reflexivity]; auto; [lia|].
    cbn [concat]. rewrite rev_app_distr, rev_involutive, <- app_assoc. reflexivity.
Qed.
Lemma run_read_long_string_eofc w ts wc e :
  lsegs w ts -> no_cr w -> valid_segs ts -> eofc wc -> all_eof e ->
  run read_long_string (zs w ++ zs wc ++ e) (concat ts) (eofT e).
Proof.
  intros Hw Hcr Hv Hc He. unfold read_long_string. apply run_with_fuel. intros f Hf.
  rewrite nne_app, nne_zs in Hf.
  assert (Hh : shead e = -1) by now apply all_eof_shead.
  eapply run_eq; [apply (run_long_segs_abs w ts Hw f [] wc e true (stail (stail e)))| |]; auto.
  - rewrite Hh. exact (run_skip_eofc wc e Hc He).
  - rewrite Hh. discriminate.
  - unfold starts3. now rewrite Hh.
  - lia.
  - unfold long_end_with, eofT. now rewrite Hh.
Qed.

Section Values.
Variable pd : list N -> res dec.
Variable pt : list N -> res (list N).
Variable api : xstate -> xstate * res bool.
Notation BTA := trsBeforeTypeAnnotations.

(* an identifier that is not followed by `::`, over any tail T, given SkipDoubleColon's triple on it *)
Lemma next_ident_abs w id T b R S' k' ty v k0 ctx lst fld ann ty0 v0 kk fuel :
  ws_run w -> no_cr w -> ident_chars id -> is_ivm id ctx ann = false ->
  is_identifier_part (shead T) = false ->
  run t_skip_double_colon (spush T) (false, b) R ->
  rrun (on_symbol id b)
       (mkax R tokenSymbol false BTA ctx false false lst fld ann ty0 v0) tt
       (mkax S' k' false (after_value_state ctx) ctx false false lst fld ann ty v) ->
  lst_marker ty ctx ann = false \/ v <> XNil ->
  rrun (x_next_loop pd pt api (S kk) fuel)
       (mkax (zs w ++ zs id ++ T) k0 false BTA ctx false false lst fld ann ty0 v0) true
       (mkax S' k' false (after_value_state ctx) ctx false false lst fld ann ty v).
Proof.
  intros Hw Hcr Hid Hivm Hnp Hdc Hon Hmk x Hi Ha.
  destruct (ident_first id T Hid) as (c & r & Eid & Hc & Est).
  destruct (ident_start_stop (Z.of_N c) (zs r ++ T) Hc) as [Hst Has].
  destruct (loop_sym pd pt api w (zs id ++ T) k0 tokenSymbol true (zs id ++ T) ctx lst fld ann ty0 v0 true
              (mkax S' k' false (after_value_state ctx) ctx false false lst fld ann ty v)
              kk fuel Hw Hcr) with (x := x) as (x2 & Hi2 & Ha2 & E); auto.
  - rewrite Est. exact Hst.
  - rewrite Est. cbn [shead]. rewrite Has, (dispatch_ident _ Hc).
    eapply runK_bind; [apply run_runK, run_unread|]. apply runK_t_ok.
  - apply rrun_rget_bind. intros y Hy Hay. xfields Hay. unfold sym_branch.
    eapply rrun_bind; [apply rrun_lift; cbn [a_s a_k a_u]; apply (run_read_value_symbol id T _ _ Hid Hnp)|].
    unfold ax_tok. cbn [a_s a_k a_u a_state a_ctx a_eof a_err a_lst a_field a_annots a_type a_value].
    eapply rrun_bind.
    { apply rrun_lift_run. cbn [a_s]. exact Hdc. }
    cbv beta iota. unfold ax_tok. cbn [a_s a_k a_u a_state a_ctx a_eof a_err a_lst a_field a_annots a_type a_value].
    assert (Hiv : (tokenSymbol =? tokenSymbol)%N && list_eqb id (s "$ion_1_0"%string) && x_at_top y
                  && match x_annots y with [] => true | _ :: _ => false end = false).
    { unfold x_at_top. rewrite Fctx, Fannots. unfold is_ivm in Hivm. cbn [N.eqb Pos.eqb tokenSymbol andb]. exact Hivm. }
    rewrite Hiv. tok_cbn.
    eapply rrun_bind; [exact Hon|].
    apply rrun_rget_bind. intros z Hz Haz. xfields Haz.
    assert (Hm : (x_type z =? TStruct)%N && x_is_null z && x_at_top z && is_ion_symbol_table (x_annots z) = false).
    { unfold x_at_top, x_is_null. rewrite Ftype0, Fvalue0, Fctx0, Fannots0. destruct Hmk as [Hmk|Hmk].
      - unfold lst_marker in Hmk. destruct ((ty =? TStruct)%N); [|reflexivity]. cbn [andb] in *.
        destruct (negb (ty =? 0)%N && match v with XNil => true | _ => false end); [|reflexivity]. cbn [andb]. exact Hmk.
      - destruct v; try contradiction; now rewrite !andb_false_r. }
    rewrite Hm. apply rrun_ret.
  - exists x2. rewrite E. xfields Ha2. rewrite Feof. auto.
Qed.

(* the same behind a comment that ends the input *)
Lemma next_ident_gen_eofc w id wc e S' k' ty v k0 ctx lst fld ann ty0 v0 kk fuel :
  ws_run w -> no_cr w -> ident_chars id -> is_ivm id ctx ann = false ->
  eofc wc -> all_eof e ->
  rrun (on_symbol id true)
       (mkax (eofT e) tokenSymbol false BTA ctx false false lst fld ann ty0 v0) tt
       (mkax S' k' false (after_value_state ctx) ctx false false lst fld ann ty v) ->
  lst_marker ty ctx ann = false \/ v <> XNil ->
  rrun (x_next_loop pd pt api (S kk) fuel)
       (mkax (zs w ++ zs id ++ zs wc ++ e) k0 false BTA ctx false false lst fld ann ty0 v0) true
       (mkax S' k' false (after_value_state ctx) ctx false false lst fld ann ty v).
Proof.
  intros Hw Hcr Hid Hivm Hc He Hon Hmk.
  apply (next_ident_abs w id (zs wc ++ e) true (eofT e)); auto.
  - destruct (eofc_cons wc Hc) as (c & r & -> & [Hb| ->]); cbn [zs map app shead]; [|reflexivity].
    unfold ws_byte in Hb. unfold is_identifier_part, is_identifier_start, is_digit. lia.
  - rewrite (eofc_spush wc e Hc). now apply run_skip_double_colon_eofc.
Qed.

Lemma next_ident_eofc w id k wc e k0 ctx lst fld ann ty0 v0 kk fuel :
  ws_run w -> no_cr w -> ident_chars id -> is_keyword id = false -> is_ivm id ctx ann = false ->
  new_symbol_token lst id = Ok k -> eofc wc -> all_eof e ->
  rrun (x_next_loop pd pt api (S kk) fuel)
       (mkax (zs w ++ zs id ++ zs wc ++ e) k0 false BTA ctx false false lst fld ann ty0 v0) true
       (mkax (eofT e) tokenSymbol false (after_value_state ctx) ctx false false lst fld ann TSymbol (XSymbol k)).
Proof.
  intros Hw Hcr Hid Hkw Hivm Hk Hc He.
  apply next_ident_gen_eofc; auto.
  - unfold on_symbol. unfold is_keyword in Hkw.
    apply orb_false_iff in Hkw as [Hkw K4]. apply orb_false_iff in Hkw as [Hkw K3]. apply orb_false_iff in Hkw as [K1 K2].
    rewrite K1, K2, K3, K4.
    apply rrun_rget_bind. intros z Hz Haz. xfields Haz. rewrite Flst.
    eapply rrun_bind; [apply rrun_of_res; exact Hk|]. apply rrun_set_value.
Qed.

Lemma next_keyword_eofc w id ty v wc e k0 ctx lst fld ann ty0 v0 kk fuel :
  ws_run w -> no_cr w -> keyword_value id = Some (ty, v) -> eofc wc -> all_eof e ->
  rrun (x_next_loop pd pt api (S kk) fuel)
       (mkax (zs w ++ zs id ++ zs wc ++ e) k0 false BTA ctx false false lst fld ann ty0 v0) true
       (mkax (eofT e) tokenSymbol false (after_value_state ctx) ctx false false lst fld ann ty v).
Proof.
  intros Hw Hcr Hkv Hc He. destruct (keyword_ident id ty v Hkv) as [Hid Hnull].
  assert (Hnn : v <> XNil).
  { unfold keyword_value in Hkv. destruct (list_eqb id (s "true"%string)); [injection Hkv as <- <-; discriminate|].
    destruct (list_eqb id (s "false"%string)); [injection Hkv as <- <-; discriminate|].
    destruct (list_eqb id (s "nan"%string)); [injection Hkv as <- <-; discriminate|discriminate]. }
  apply next_ident_gen_eofc; auto.
  - unfold is_ivm. unfold keyword_value in Hkv.
    destruct (list_eqb id (s "$ion_1_0"%string)) eqn:E; [|reflexivity]. apply list_eqb_eq in E. subst id. discriminate Hkv.
  - unfold on_symbol. rewrite Hnull. unfold keyword_value in Hkv.
    destruct (list_eqb id (s "true"%string)); [injection Hkv as <- <-; apply rrun_set_value|].
    destruct (list_eqb id (s "false"%string)); [injection Hkv as <- <-; apply rrun_set_value|].
    destruct (list_eqb id (s "nan"%string)); [injection Hkv as <- <-; apply rrun_set_value|discriminate].
Qed.

Lemma next_null_eofc w wc e k0 ctx lst fld ann ty0 v0 kk fuel :
  ws_run w -> no_cr w -> eofc wc -> all_eof e ->
  rrun (x_next_loop pd pt api (S kk) fuel)
       (mkax (zs w ++ zs (s "null"%string) ++ zs wc ++ e) k0 false BTA ctx false false lst fld ann ty0 v0) true
       (mkax (eofT e) tokenSymbol false (after_value_state ctx) ctx false false lst fld ann TNull XNil).
Proof.
  intros Hw Hcr Hc He.
  apply next_ident_gen_eofc; auto; [apply null_ident|].
  unfold on_symbol. change (list_eqb (s "null"%string) (s "null"%string)) with true. cbv iota. unfold on_null.
  cbn [negb]. eapply rrun_bind; [apply rrun_ret|]. apply rrun_set_value.
Qed.

(* quoted symbols, over any tail *)
Lemma next_quoted_abs w body text T b R k0 ctx lst fld ann ty0 v0 kk fuel :
  ws_run w -> no_cr w -> qbody 39 body text -> no_cr body -> utf8_valid text = true ->
  (body = [] -> shead T <> 39) ->
  run t_skip_double_colon (pks (1 - length body) T) (false, b) R ->
  rrun (x_next_loop pd pt api (S kk) fuel)
       (mkax (zs w ++ 39 :: zs body ++ 39 :: T) k0 false BTA ctx false false lst fld ann ty0 v0) true
       (mkax R tokenSymbolQuoted false (after_value_state ctx) ctx false false lst fld ann
             TSymbol (XSymbol (tok_text text))).
Proof.
  intros Hw Hcr Hb Hcb Hu H0 Hdc.
  intros x Hi Ha.
  set (Tp := pks (1 - length body) T) in *.
  destruct (loop_sym pd pt api w (39 :: zs body ++ 39 :: T) k0 tokenSymbolQuoted true (zs body ++ 39 :: Tp)
              ctx lst fld ann ty0 v0 true
              (mkax R tokenSymbolQuoted false (after_value_state ctx) ctx false false lst fld ann
                    TSymbol (XSymbol (tok_text text)))
              kk fuel Hw Hcr) with (x := x) as (x2 & Hi2 & Ha2 & E); auto.
  - cbn [shead]. change (after_stop (39 :: zs body ++ 39 :: T)) with (zs body ++ 39 :: T).
    apply (runK_dispatch_quoted pd pt body T k0 H0 (qbody_first body text Hb)).
  - apply rrun_rget_bind. intros y Hy Hay. xfields Hay. unfold sym_branch.
    eapply rrun_bind.
    { apply rrun_lift. cbn [a_s a_k a_u].
      apply (runK_read_value tokenSymbolQuoted read_quoted_symbol); [reflexivity|].
      apply (run_read_quoted_symbol body text _ Hb Hcb Hu). }
    unfold ax_tok. cbn [a_s a_k a_u a_state a_ctx a_eof a_err a_lst a_field a_annots a_type a_value].
    eapply rrun_bind.
    { apply rrun_lift_run. cbn [a_s]. exact Hdc. }
    cbv beta iota. unfold ax_tok. cbn [a_s a_k a_u a_state a_ctx a_eof a_err a_lst a_field a_annots a_type a_value].
    tok_cbn. eapply rrun_bind; [apply rrun_set_value|]. apply rrun_ret.
  - exists x2. rewrite E. xfields Ha2. rewrite Feof. auto.
Qed.

Lemma next_quoted_eofc w body text wc e k0 ctx lst fld ann ty0 v0 kk fuel :
  ws_run w -> no_cr w -> qbody 39 body text -> no_cr body -> utf8_valid text = true ->
  eofc wc -> all_eof e ->
  rrun (x_next_loop pd pt api (S kk) fuel)
       (mkax (zs w ++ 39 :: zs body ++ 39 :: zs wc ++ e) k0 false BTA ctx false false lst fld ann ty0 v0) true
       (mkax (eofT e) tokenSymbolQuoted false (after_value_state ctx) ctx false false lst fld ann
             TSymbol (XSymbol (tok_text text))).
Proof.
  intros Hw Hcr Hb Hcb Hu Hc He.
  destruct (eofc_pks wc e (1 - length body) Hc He) as (e' & He' & Ep & Et).
  replace (eofT e) with (eofT e') by (unfold eofT; now rewrite Et).
  apply (next_quoted_abs w body text (zs wc ++ e) true (eofT e')); auto.
  - intros _. destruct (eofc_cons wc Hc) as (c & r & -> & [Hbt| ->]); cbn [zs map app shead]; [|discriminate].
    unfold ws_byte in Hbt. lia.
  - rewrite Ep. now apply run_skip_double_colon_eofc.
Qed.
Lemma next_long_string_eofc w body ts wc e k0 ctx lst fld ann ty0 v0 kk fuel :
  ws_run w -> no_cr w -> lsegs body ts -> no_cr body -> valid_segs ts -> eofc wc -> all_eof e ->
  rrun (x_next_loop pd pt api (S kk) fuel)
       (mkax (zs w ++ 39 :: 39 :: 39 :: zs body ++ zs wc ++ e) k0 false BTA ctx false false lst fld ann ty0 v0) true
       (mkax (eofT e) tokenLongString false (after_value_state ctx) ctx false false lst fld ann
             TString (XString (concat ts))).
Proof.
  intros Hw Hcr Hb Hcb Hv Hc He.
  set (rest := zs body ++ zs wc ++ e).
  eapply (loop_plain pd pt api w (39 :: 39 :: 39 :: rest) k0 tokenLongString true rest); auto.
  - cbn [shead]. change (after_stop (39 :: 39 :: 39 :: rest)) with (39 :: 39 :: rest).
    change (next_dispatch 39) with (tdo ok <- t_is_triple_quote; if ok then t_ok tokenLongString true else t_ok tokenSymbolQuoted true).
    eapply runK_bind; [apply run_runK, run_is_triple_quote|].
    change (triple (39 :: 39 :: rest)) with true. cbv iota. cbn [stail]. apply runK_t_ok.
  - unfold plain_handler. tok_cbn.
    eapply rrun_bind.
    { apply rrun_lift. cbn [a_s a_k a_u].
      apply (runK_read_value tokenLongString read_long_string); [reflexivity|].
      apply (run_read_long_string_eofc body ts wc e); auto. }
    unfold ax_tok. cbn [a_s a_k a_u a_state a_ctx a_eof a_err a_lst a_field a_annots a_type a_value].
    eapply rrun_bind; [apply rrun_set_value|]. apply rrun_ret.
Qed.
End Values.
