(* SpecAgreeTextNum.v — C04, text half: the SPECIFICATION decoder (Text/SpecText.v) on the numeric spellings of
   Text/SpellNum.v.  For EVERY decimal-radix spelling [numsp] (underscores between digits, optional fraction,
   optional e/E/d/D exponent with optional sign) followed by what the grammar allows after a number,
   [SpecText.p_number] consumes exactly the literal and answers the value the grammar denotes:
   the integer, the decimal [dec_denotes] (the same record ParseDecimal is proved to return, SpellNum.v),
   or the float [float_denotes] = the correctly rounded binary64 of the written decimal. *)
From Coq Require Import String List NArith ZArith Bool Lia ZifyBool ZifyN ZifyNat.
From IonV Require Import Base.Wire Data.Ion Text.Tokenizer Text.TextReader Text.TextNum Text.SpellNum.
From IonV Require Text.SpecText.
Import ListNotations.
Open Scope N_scope.

(* the digit values of a run of decimal digit characters, as SpecText collects them *)
Definition dvals (p : list N) : list N := map (fun c => c - 48) p.

(* the float a literal denotes: correctly rounded binary64 (SpecText.f64_of_dec) of sign * digits * 10^exp *)
Definition float_denotes (n : numsp) : N :=
  SpecText.f64_of_dec (n_neg n) (digits_value 10 (n_ip n ++ n_fp n))
                      (exp_value (n_exp n) - Z.of_nat (length (n_fp n)))%Z.
(* the value a decimal-radix literal denotes *)
Definition spec_num (n : numsp) : value :=
  match num_kind n with
  | NKInt => VInt (SpellNum.sgn (n_neg n) (digits_value 10 (n_ip n)))
  | NKDecimal => VDecimal (dec_denotes n)
  | _ => VFloat (float_denotes n)
  end.

(* what may follow a digit run: not a digit, not an underscore *)
Definition dstop (rest : list N) : Prop :=
  match rest with [] => True | c :: _ => is_dec_b c = false /\ c <> 95 end.

Lemma decv_digit c : is_dec_b c = true -> SpecText.decv c = Some (c - 48).
Proof. unfold is_dec_b, SpecText.decv, SpecText.is_digit, SpecText.in_rng. intros H. now rewrite H. Qed.
Lemma decv_nondigit c : is_dec_b c = false -> SpecText.decv c = None.
Proof. unfold is_dec_b, SpecText.decv, SpecText.is_digit, SpecText.in_rng. intros H. now rewrite H. Qed.
Lemma is_digit_dec c : SpecText.is_digit c = is_dec_b c.
Proof. reflexivity. Qed.

Lemma digits_us_tail w p : us_tail is_dec_b w p -> forall acc rest, dstop rest ->
  SpecText.digits_us SpecText.decv (w ++ rest) acc = (rev acc ++ dvals p, rest).
Proof.
  induction 1 as [|c w p Hc Ht IH|c w p Hc Ht IH]; intros acc rest Hs; cbn [app dvals map].
  - rewrite app_nil_r. destruct rest as [|c r]; [reflexivity|]. destruct Hs as [Hd H95].
    cbn [SpecText.digits_us]. rewrite (decv_nondigit c Hd). destruct (N.eqb_spec c 95); [contradiction|reflexivity].
  - cbn [SpecText.digits_us]. rewrite (decv_digit c Hc). rewrite (IH _ rest Hs). cbn [rev]. now rewrite <- app_assoc.
  - cbn [SpecText.digits_us]. change (SpecText.decv 95) with (@None N). change (95 =? 95) with true. cbv iota.
    rewrite (decv_digit c Hc). specialize (IH acc rest Hs). cbn [app SpecText.digits_us] in IH.
    rewrite (decv_digit c Hc) in IH. exact IH.
Qed.

Lemma us_tail_nil_gen w p : us_tail is_dec_b w p -> p = [] -> w = [].
Proof.
  induction 1 as [|c w p Hc Ht IH|c w p Hc Ht IH]; intros E; [reflexivity|discriminate|].
  specialize (IH E). discriminate IH.
Qed.
Lemma us_tail_nil_inv w : us_tail is_dec_b w [] -> w = [].
Proof. intros H. exact (us_tail_nil_gen w [] H eq_refl). Qed.

(* the integer part, from its first digit: no leading zero *)
Lemma int_part iw ip rest : us_digits is_dec_b iw ip -> no_lead0 ip -> dstop rest ->
  exists c r, iw ++ rest = c :: r /\ is_dec_b c = true /\
    (if c =? 48 then ([0], r) else SpecText.digits_us SpecText.decv r [c - 48]) = (dvals ip, rest).
Proof.
  intros [c w p Hc Ht] Hl Hs. exists c, (w ++ rest). split; [reflexivity|]. split; [exact Hc|].
  destruct (N.eqb_spec c 48) as [->|Hne].
  - destruct Hl as [E|E]; [|cbn [hd] in E; contradiction]. inversion E; subst.
    rewrite (us_tail_nil_inv w Ht). reflexivity.
  - rewrite (digits_us_tail w p Ht [c - 48] rest Hs). reflexivity.
Qed.

(* ---- what follows a number ------------------------------------------------------------------------------------ *)
Lemma starts_comment_head c r : SpecText.starts_comment (c :: r) = true -> c = 47.
Proof.
  destruct c as [|p]; [discriminate|]. do 6 (destruct p as [p|p|]; try discriminate). reflexivity.
Qed.
Lemma num_end_head c r : SpecText.num_end (c :: r) = true ->
  is_dec_b c = false /\ c <> 95 /\ c <> 46 /\ c <> 101 /\ c <> 69 /\ c <> 100 /\ c <> 68 /\ c <> 84 /\ c <> 45 /\
  c <> 120 /\ c <> 88 /\ c <> 98 /\ c <> 66 /\ c <> 43.
Proof.
  unfold SpecText.num_end. intros H. apply orb_true_iff in H as [H|H].
  - unfold SpecText.is_stop, SpecText.is_ws, SpecText.in_rng, SpecText.memN in H. cbn [existsb] in H.
    unfold is_dec_b. lia.
  - apply starts_comment_head in H. subst c. unfold is_dec_b. lia.
Qed.
Lemma num_end_dstop rest : SpecText.num_end rest = true -> dstop rest.
Proof. destruct rest as [|c r]; [constructor|]. intros H. destruct (num_end_head c r H) as (A & B & _). split; assumption. Qed.

(* ---- exponents ------------------------------------------------------------------------------------------------- *)
Lemma plain_digits_app ed : Forall (fun c => is_dec_b c = true) ed -> forall rest acc k,
  (match rest with c :: _ => is_dec_b c = false | [] => True end) ->
  SpecText.plain_digits (ed ++ rest) acc k =
  (fold_left (fun a c => a * 10 + dval c) ed acc, k + N.of_nat (length ed), rest).
Proof.
  induction 1 as [|c ed Hc Hed IH]; intros rest acc k Hr; cbn [app fold_left length].
  - replace (k + N.of_nat 0) with k by lia. destruct rest as [|c r]; [reflexivity|].
    cbn [SpecText.plain_digits]. rewrite is_digit_dec, Hr. reflexivity.
  - cbn [SpecText.plain_digits]. rewrite is_digit_dec, Hc. rewrite (IH rest _ _ Hr).
    assert (Ed : dval c = c - 48) by (unfold dval; unfold is_dec_b in Hc; replace (c <=? 57) with true by lia; reflexivity).
    rewrite Ed. replace (k + 1 + N.of_nat (length ed)) with (k + N.of_nat (S (length ed))) by lia. reflexivity.
Qed.

Lemma p_exp_spelling m sg ed rest : exp_wf (Some (m, sg, ed)) ->
  (match rest with c :: _ => is_dec_b c = false | [] => True end) ->
  SpecText.p_exp (sg ++ ed ++ rest) = Some (exp_value (Some (m, sg, ed)), rest).
Proof.
  intros (_ & Hsg & Hne & Hd) Hr. unfold SpecText.p_exp, exp_value.
  assert (Hlen : (0 + N.of_nat (length ed) =? 0) = false) by (destruct ed; [contradiction|cbn [length]; lia]).
  destruct Hsg as [->|[->| ->]]; cbn [app].
  - destruct ed as [|c ed']; [contradiction|]. inversion Hd as [|? ? Hc Hd']; subst.
    assert (E : match (c :: ed') ++ rest with 43 :: r => (false, r) | 45 :: r => (true, r) | _ => (false, (c :: ed') ++ rest) end
                = (false, (c :: ed') ++ rest)).
    { cbn [app]. unfold is_dec_b in Hc. destruct c as [|q]; [reflexivity|].
      do 6 (try (destruct q as [q|q|]; try reflexivity)); cbv in Hc; discriminate Hc. }
    rewrite E. rewrite (plain_digits_app (c :: ed') Hd rest 0 0 Hr). rewrite Hlen. reflexivity.
  - rewrite (plain_digits_app ed Hd rest 0 0 Hr). rewrite Hlen. reflexivity.
  - rewrite (plain_digits_app ed Hd rest 0 0 Hr). rewrite Hlen. reflexivity.
Qed.

(* ---- digit values ---------------------------------------------------------------------------------------------- *)
Lemma num_of_dvals p : Forall (fun c => is_dec_b c = true) p -> forall acc,
  fold_left (fun a d => a * 10 + d) (dvals p) acc = fold_left (fun a c => a * 10 + dval c) p acc.
Proof.
  induction 1 as [|c p Hc Hp IH]; intros acc; [reflexivity|]. cbn [dvals map fold_left]. fold (dvals p). rewrite IH.
  f_equal. unfold dval. unfold is_dec_b in Hc. replace (c <=? 57) with true by lia. reflexivity.
Qed.
Lemma num_of_digits p : Forall (fun c => is_dec_b c = true) p -> SpecText.num_of 10 (dvals p) = digits_value 10 p.
Proof. intros H. unfold SpecText.num_of, digits_value. now apply num_of_dvals. Qed.
Lemma dvals_app a b : dvals (a ++ b) = dvals a ++ dvals b.
Proof. unfold dvals. apply map_app. Qed.
Lemma dvals_length p : length (dvals p) = length p.
Proof. unfold dvals. apply map_length. Qed.
Lemma sgn_eq neg v : SpecText.sgn neg v = SpellNum.sgn neg v.
Proof. reflexivity. Qed.

(* ---- the decimal-radix literal --------------------------------------------------------------------------------- *)
Lemma frac_digits (dot : bool) fw fp :
  (if dot then (fw = [] /\ fp = []) \/ us_digits is_dec_b fw fp else fw = [] /\ fp = []) ->
  Forall (fun c => is_dec_b c = true) fp.
Proof.
  destruct dot; [intros [[_ ->]|H]|intros [_ ->]]; try constructor. exact (proj1 (us_digits_plain _ _ _ H)).
Qed.

Lemma exp_text_head e rest : exp_wf e -> SpecText.num_end rest = true ->
  match exp_text e ++ rest with
  | [] => True
  | c :: _ => is_dec_b c = false /\ c <> 95 /\ c <> 46 /\ c <> 84 /\ c <> 45 /\ c <> 120 /\ c <> 88 /\ c <> 98 /\ c <> 66
  end.
Proof.
  intros He Hr. destruct e as [[[m sg] ed]|]; cbn [exp_text app].
  - destruct He as (Hm & _). unfold is_dec_b. destruct Hm as [->|[->|[->| ->]]]; repeat split; lia || reflexivity.
  - destruct rest as [|c r]; [exact I|].
    destruct (num_end_head c r Hr) as (A1 & A2 & A3 & A4 & A5 & A6 & A7 & A8 & A9 & A10 & A11 & A12 & A13 & A14).
    repeat split; assumption.
Qed.

Theorem p_decnum_spelling n rest : num_wf n -> SpecText.num_end rest = true ->
  SpecText.p_decnum (n_neg n) (n_iw n ++ (if n_dot n then 46 :: n_fw n else []) ++ exp_text (n_exp n) ++ rest)
  = Some (spec_num n, rest).
Proof.
  intros (Hi & Hl & Hf & He) Hr. destruct n as [neg iw ip dot fw fp e].
  unfold spec_num, num_kind, dec_denotes, float_denotes. cbn [n_neg n_iw n_ip n_dot n_fw n_fp n_exp] in *.
  destruct (us_digits_plain _ _ _ Hi) as [Hip _]. pose proof (frac_digits dot fw fp Hf) as Hfp.
  pose proof (exp_text_head e rest He Hr) as Hh.
  remember (exp_text e ++ rest) as tail eqn:Etail.
  assert (Hds : dstop ((if dot then 46 :: fw else []) ++ tail)).
  { destruct dot; cbn [app]; [split; [reflexivity|discriminate]|]. destruct tail as [|c r]; [exact I|]. unfold dstop. tauto. }
  destruct (int_part iw ip _ Hi Hl Hds) as (c & r & E & Hc & Eids). rewrite E.
  unfold SpecText.p_decnum. rewrite is_digit_dec, Hc. cbn [negb]. rewrite Eids. clear E Eids c r Hc.
  (* the exponent and the end, for any fraction digits [fds] *)
  assert (Hexp : forall (had_dot : bool) fds,
    match tail with
    | x :: r4 =>
      if (x =? 101) || (x =? 69) then
        match SpecText.p_exp r4 with
        | Some (e0, r5) => if SpecText.num_end r5 then Some (SpecText.mk_float neg (dvals ip) fds e0, r5) else None
        | None => None end
      else if (x =? 100) || (x =? 68) then
        match SpecText.p_exp r4 with
        | Some (e0, r5) => if SpecText.num_end r5 then Some (SpecText.mk_dec neg (dvals ip) fds e0, r5) else None
        | None => None end
      else if had_dot then (if SpecText.num_end tail then Some (SpecText.mk_dec neg (dvals ip) fds 0%Z, tail) else None)
      else (if SpecText.num_end tail then Some (VInt (SpecText.sgn neg (SpecText.num_of 10 (dvals ip))), tail) else None)
    | [] => if had_dot then Some (SpecText.mk_dec neg (dvals ip) fds 0%Z, []) else Some (VInt (SpecText.sgn neg (SpecText.num_of 10 (dvals ip))), [])
    end =
    Some (match e with
          | Some (m, _, _) => if (m =? 101) || (m =? 69) then SpecText.mk_float neg (dvals ip) fds (exp_value e)
                              else SpecText.mk_dec neg (dvals ip) fds (exp_value e)
          | None => if had_dot then SpecText.mk_dec neg (dvals ip) fds 0%Z
                    else VInt (SpecText.sgn neg (SpecText.num_of 10 (dvals ip)))
          end, rest)).
  { intros had_dot fds. rewrite Etail. clear Etail Hh Hds. destruct e as [[[m sg] ed]|]; cbn [exp_text app].
    - assert (Hr' : match rest with c :: _ => is_dec_b c = false | [] => True end).
      { destruct rest as [|c r]; [exact I|]. exact (proj1 (num_end_head c r Hr)). }
      rewrite <- app_assoc, (p_exp_spelling m sg ed rest He Hr'), Hr.
      destruct He as (Hm & _). destruct Hm as [->|[->|[->| ->]]]; reflexivity.
    - destruct rest as [|x r4]; [destruct had_dot; reflexivity|]. rewrite Hr.
      destruct (num_end_head x r4 Hr) as (_ & _ & _ & H1 & H2 & H3 & H4 & _).
      replace ((x =? 101) || (x =? 69)) with false by lia. replace ((x =? 100) || (x =? 68)) with false by lia. destruct had_dot; reflexivity. }
  assert (Hval : forall had_dot, had_dot = dot ->
    match e with
    | Some (m, _, _) => if (m =? 101) || (m =? 69) then SpecText.mk_float neg (dvals ip) (dvals fp) (exp_value e)
                        else SpecText.mk_dec neg (dvals ip) (dvals fp) (exp_value e)
    | None => if had_dot then SpecText.mk_dec neg (dvals ip) (dvals fp) 0%Z
              else VInt (SpecText.sgn neg (SpecText.num_of 10 (dvals ip)))
    end =
    match match e with Some (m, _, _) => if (m =? 101) || (m =? 69) then NKFloat else NKDecimal
                | None => if dot then NKDecimal else NKInt end with
    | NKInt => VInt (SpellNum.sgn neg (digits_value 10 ip))
    | NKDecimal => VDecimal {| d_coef := SpellNum.sgn neg (digits_value 10 (ip ++ fp));
                               d_exp := exp_value e - Z.of_nat (length fp);
                               d_negzero := neg && (digits_value 10 (ip ++ fp) =? 0) |}
    | _ => VFloat (SpecText.f64_of_dec neg (digits_value 10 (ip ++ fp)) (exp_value e - Z.of_nat (length fp)))
    end).
  { intros had_dot ->. unfold SpecText.mk_float, SpecText.mk_dec.
    rewrite <- dvals_app, dvals_length, (num_of_digits (ip ++ fp)) by (apply Forall_app; now split).
    rewrite (num_of_digits ip Hip), !sgn_eq.
    destruct e as [[[m sg] ed]|]; [destruct ((m =? 101) || (m =? 69)); reflexivity|]. destruct dot; reflexivity. }
  destruct dot; cbn [app].
  - (* a dot *)
    destruct Hf as [[-> ->]|Hfw].
    + assert (Efd : match tail with c2 :: r2' => if SpecText.is_digit c2 then SpecText.digits_us SpecText.decv r2' [c2 - 48] else ([], tail) | [] => ([], tail) end
                    = (@nil N, tail)).
      { destruct tail as [|c2 r2']; [reflexivity|]. rewrite is_digit_dec. destruct Hh as (Hd & _). now rewrite Hd. }
      cbn [app]. rewrite Efd. rewrite (Hexp true []). rewrite <- (Hval true eq_refl). reflexivity.
    + destruct Hfw as [c2 w2 p2 Hc2 Ht2]. cbn [app]. rewrite is_digit_dec, Hc2.
      assert (Hds2 : dstop tail) by (destruct tail as [|c r]; [exact I|]; unfold dstop; tauto).
      rewrite (digits_us_tail w2 p2 Ht2 [c2 - 48] tail Hds2). cbn [rev app].
      change ((c2 - 48) :: dvals p2) with (dvals (c2 :: p2)).
      rewrite (Hexp true (dvals (c2 :: p2))). rewrite <- (Hval true eq_refl). reflexivity.
  - destruct Hf as [-> ->]. cbn [app].
    pose proof (Hexp false []) as Hx. pose proof (Hval false eq_refl) as Hv. cbv beta iota in Hx, Hv.
    change (dvals []) with (@nil N) in Hv. rewrite <- Hv, <- Hx. clear Hv Hx Hexp Hval.
    destruct tail as [|c r]; [reflexivity|]. destruct Hh as (_ & _ & H46 & _).
    destruct c as [|q]; [reflexivity|]. do 6 (try (destruct q as [q|q|]; try reflexivity)). contradiction.
Qed.

(* ---- the sign, and the other things a digit can begin ---------------------------------------------------------- *)
Lemma not_timestamp w tail : Forall (fun c => is_dec_b c = true \/ c = 95) w ->
  match tail with [] => True | c :: _ => is_dec_b c = false /\ c <> 84 /\ c <> 45 end ->
  SpecText.looks_like_timestamp (w ++ tail) = false.
Proof.
  intros Hw Ht. unfold SpecText.looks_like_timestamp.
  destruct w as [|a [|b [|c [|d [|e w]]]]]; cbn [app];
    repeat match goal with H : Forall _ (_ :: _) |- _ => let h := fresh "Hd" in inversion H as [|? ? h ?]; subst; clear H end;
    try (destruct tail as [|t0 tail]; [reflexivity|]);
    try (destruct tail as [|t1 tail]; [reflexivity|]);
    try (destruct tail as [|t2 tail]; [reflexivity|]);
    try (destruct tail as [|t3 tail]; [reflexivity|]);
    try (destruct tail as [|t4 tail]; [reflexivity|]);
    unfold SpecText.is_digit, SpecText.in_rng, is_dec_b in *; lia.
Qed.

Definition radix_mark (x : N) : bool := (x =? 120) || (x =? 88) || (x =? 98) || (x =? 66).
Lemma dec_cases c : is_dec_b c = true ->
  c = 48 \/ c = 49 \/ c = 50 \/ c = 51 \/ c = 52 \/ c = 53 \/ c = 54 \/ c = 55 \/ c = 56 \/ c = 57.
Proof. unfold is_dec_b. lia. Qed.

Lemma p_number_neg c l : is_dec_b c = true ->
  (c = 48 -> match l with x :: _ => radix_mark x = false | [] => True end) ->
  SpecText.p_number (45 :: c :: l) = SpecText.p_decnum true (c :: l).
Proof.
  intros Hc H0. unfold SpecText.p_number. cbv beta iota.
  destruct (dec_cases c Hc) as [->|H]; [|repeat (destruct H as [->|H]; [reflexivity|]); subst c; reflexivity].
  destruct l as [|x r]; [reflexivity|]. specialize (H0 eq_refl). unfold radix_mark in H0.
  replace ((x =? 120) || (x =? 88)) with false by lia. replace ((x =? 98) || (x =? 66)) with false by lia. reflexivity.
Qed.
Lemma p_number_pos c l : is_dec_b c = true -> SpecText.looks_like_timestamp (c :: l) = false ->
  (c = 48 -> match l with x :: _ => radix_mark x = false | [] => True end) ->
  SpecText.p_number (c :: l) = SpecText.p_decnum false (c :: l).
Proof.
  intros Hc Hl H0. unfold SpecText.p_number.
  destruct (dec_cases c Hc) as [->|H];
    [|repeat (destruct H as [->|H]; [cbv beta iota; cbn [negb andb]; rewrite Hl; reflexivity|]); subst c;
      cbv beta iota; cbn [negb andb]; rewrite Hl; reflexivity].
  cbv beta iota. destruct l as [|x r]; [cbn [negb andb]; rewrite Hl; reflexivity|]. specialize (H0 eq_refl). unfold radix_mark in H0.
  replace ((x =? 120) || (x =? 88)) with false by lia. replace ((x =? 98) || (x =? 66)) with false by lia.
  cbn [negb andb]. rewrite Hl. reflexivity.
Qed.

Lemma us_tail_chars w p : us_tail is_dec_b w p -> Forall (fun c => is_dec_b c = true \/ c = 95) w.
Proof. induction 1; auto. Qed.

(* HEADLINE of this file: every decimal-radix spelling, followed by what may follow a number *)
Theorem p_number_spelling n rest : num_wf n -> SpecText.num_end rest = true ->
  SpecText.p_number (num_text n ++ rest) = Some (spec_num n, rest).
Proof.
  intros Hwf Hr. pose proof (p_decnum_spelling n rest Hwf Hr) as Hd.
  destruct Hwf as (Hi & Hl & Hf & He). unfold num_text.
  pose proof (exp_text_head (n_exp n) rest He Hr) as Hh.
  replace ((sign_bytes (n_neg n) ++ n_iw n ++ (if n_dot n then 46 :: n_fw n else []) ++ exp_text (n_exp n)) ++ rest)
    with (sign_bytes (n_neg n) ++ n_iw n ++ (if n_dot n then 46 :: n_fw n else []) ++ exp_text (n_exp n) ++ rest)
    by (now rewrite <- !app_assoc).
  set (tail := (if n_dot n then 46 :: n_fw n else []) ++ exp_text (n_exp n) ++ rest) in *.
  assert (Ht : match tail with [] => True
               | c :: _ => is_dec_b c = false /\ c <> 84 /\ c <> 45 /\ radix_mark c = false end).
  { unfold tail. destruct (n_dot n); cbn [app]; [repeat split; (reflexivity || discriminate)|].
    destruct (exp_text (n_exp n) ++ rest) as [|c r]; [exact I|]. unfold radix_mark.
    destruct Hh as (A1 & A2 & A3 & A4 & A5 & A6 & A7 & A8 & A9). repeat split; auto. lia. }
  destruct Hi as [c w p Hc Hw]. cbn [app] in *.
  assert (Hlook : SpecText.looks_like_timestamp (c :: w ++ tail) = false).
  { apply (not_timestamp (c :: w) tail); [constructor; [now left|now apply (us_tail_chars w p)]|].
    destruct tail as [|t r]; [exact I|]. tauto. }
  assert (H0 : c = 48 -> match w ++ tail with x :: _ => radix_mark x = false | [] => True end).
  { intros ->. destruct Hl as [E|E]; [|cbn [hd] in E; contradiction]. inversion E; subst.
    rewrite (us_tail_nil_inv w Hw). cbn [app]. destruct tail as [|t r]; [exact I|]. tauto. }
  destruct (n_neg n); cbn [sign_bytes app].
  - rewrite (p_number_neg c (w ++ tail) Hc H0). exact Hd.
  - rewrite (p_number_pos c (w ++ tail) Hc Hlook H0). exact Hd.
Qed.

(* how a number begins *)
Lemma num_text_first n rest : num_wf n ->
  exists c r, num_text n ++ rest = c :: r /\
    (is_dec_b c = true \/ (c = 45 /\ exists d r', r = d :: r' /\ is_dec_b d = true)).
Proof.
  intros (Hi & _). unfold num_text. destruct Hi as [c w p Hc Hw].
  destruct (n_neg n); cbn [sign_bytes app].
  - eexists _, _. split; [reflexivity|]. right. split; [reflexivity|]. eexists _, _. split; [reflexivity|exact Hc].
  - eexists _, _. split; [reflexivity|]. now left.
Qed.

(* ---- what the denotations are, for the Writer's literals -------------------------------------------------------- *)
Lemma spec_num_int n : num_kind n = NKInt -> spec_num n = VInt (SpellNum.sgn (n_neg n) (digits_value 10 (n_ip n))).
Proof. unfold spec_num. now intros ->. Qed.
Lemma spec_num_dec n : num_kind n = NKDecimal -> spec_num n = VDecimal (dec_denotes n).
Proof. unfold spec_num. now intros ->. Qed.
Lemma spec_num_float n : num_kind n = NKFloat -> spec_num n = VFloat (float_denotes n).
Proof. unfold spec_num. now intros ->. Qed.

(* ParseDecimal's answer on a decimal literal is what the grammar denotes: so [PD text = Ok d] pins [d].  The bound on
   the number of fraction digits only says that the literal is a Go string (its length is an int): with 2^64 fraction
   digits ParseDecimal's int64 arithmetic on the exponent would wrap. *)
Lemma pd_ok_denotes n d : num_wf n -> num_kind n = NKDecimal ->
  (Z.of_nat (length (n_fp n)) < 4611686018427387904)%Z ->
  parse_decimal_text (num_plain n) = Ok d -> d = dec_denotes n.
Proof.
  intros Hwf Hk Hs. rewrite (parse_decimal_spelling_gen n Hwf Hk).
  destruct (written_exp_int64 n) eqn:H64; [|discriminate]. cbv zeta.
  destruct (in_int32 _) eqn:H32; [|discriminate]. intros E. inversion E; subst. clear E.
  unfold dec_denotes. cbn [d_coef d_exp d_negzero]. f_equal.
  unfold written_exp_int64 in H64.
  destruct (in_int32 (exp_value (n_exp n) - Z.of_nat (length (n_fp n)))) eqn:E32.
  - now rewrite wrap64z_sub.
  - rewrite wrap64z_sub_out in H32 by (try assumption; lia). discriminate.
Qed.
