(* TextReaderP.v — lemmas about the text reader model (Text/TextReader.v):
   the error is sticky (C07), for every input and every navigation program. *)
From Coq Require Import String List NArith ZArith Bool Lia.
From IonV Require Import Base.Wire Bin.Bits Data.Ion Num.Float Bin.BitStream Bin.BinReader
  Text.Tokenizer Text.Skipper Text.TextReader.
Import ListNotations.
Open Scope N_scope.

(* explode sets err and state together; nothing else touches err *)
Definition sticky_inv (x : xstate) : Prop := x_err x = false \/ x_state x = trsDone.

(* ---- handlers built from the reader monad never touch err ---------------------------------------- *)
Definition errpres {A} (m : R A) : Prop := forall x, x_err (fst (m x)) = x_err x.

Lemma errpres_ret {A} (a : A) : errpres (rret a).
Proof. intro x; reflexivity. Qed.
Lemma errpres_fail {A} : errpres (@rfail A).
Proof. intro x; reflexivity. Qed.
Lemma errpres_panic {A} : errpres (@rpanic A).
Proof. intro x; reflexivity. Qed.
Lemma errpres_rget : errpres rget.
Proof. intro x; reflexivity. Qed.
Lemma errpres_of_res {A} (r : res A) : errpres (of_res r).
Proof. intro x; reflexivity. Qed.
Lemma errpres_lift {A} (m : M A) : errpres (lift m).
Proof. intro x; unfold lift; destruct (m (x_tok x)) as [[a t]| | |]; reflexivity. Qed.
Lemma errpres_rmod (f : xstate -> xstate) : (forall x, x_err (f x) = x_err x) -> errpres (rmod f).
Proof. intros H x; apply H. Qed.
Lemma errpres_bind {A B} (m : R A) (f : A -> R B) :
  errpres m -> (forall a, errpres (f a)) -> errpres (rbind m f).
Proof.
  intros Hm Hf x; unfold rbind; specialize (Hm x).
  destruct (m x) as [x' [a| | |]]; cbn [fst] in *; try assumption.
  rewrite Hf; assumption.
Qed.

Ltac ep :=
  repeat first
    [ apply errpres_ret | apply errpres_fail | apply errpres_panic | apply errpres_rget
    | apply errpres_of_res | apply errpres_lift
    | apply errpres_rmod; intros; reflexivity
    | apply errpres_bind; [ | intros ]
    | match goal with
      | |- errpres (if ?b then _ else _) => destruct b
      | |- errpres (match ?v with _ => _ end) => destruct v
      | |- errpres (let '(_, _) := ?p in _) => destruct p
      end ].

Lemma errpres_set_value t v : errpres (set_value t v).
Proof. unfold set_value; ep. Qed.
Lemma errpres_read_null_type : errpres read_null_type.
Proof. unfold read_null_type; ep. Qed.
Lemma errpres_on_null ws : errpres (on_null ws).
Proof. unfold on_null; ep; apply errpres_read_null_type. Qed.
Lemma errpres_on_symbol v ws : errpres (on_symbol v ws).
Proof. unfold on_symbol; ep; try apply errpres_set_value; apply errpres_on_null. Qed.
Lemma errpres_on_number pd tok : errpres (on_number pd tok).
Proof. unfold on_number; ep; apply errpres_set_value. Qed.
Lemma errpres_on_timestamp pt : errpres (on_timestamp pt).
Proof. unfold on_timestamp; ep; apply errpres_set_value. Qed.
Lemma errpres_on_lob : errpres on_lob.
Proof. unfold on_lob; ep; apply errpres_set_value. Qed.
Lemma errpres_next_after_value : errpres next_after_value.
Proof. unfold next_after_value; ep. Qed.
Lemma errpres_next_before_field_name : errpres next_before_field_name.
Proof. unfold next_before_field_name; ep. Qed.
Lemma errpres_finish_value : errpres x_finish_value.
Proof. unfold x_finish_value; ep. Qed.

(* ---- StepIn / StepOut -------------------------------------------------------------------------------- *)
Lemma step_in_inv x : sticky_inv x -> sticky_inv (fst (x_step_in x)).
Proof.
  intros H; unfold x_step_in.
  destruct (x_err x) eqn:E; [exact H|].
  destruct (negb (x_state x =? trsBeforeContainer)); [exact H|].
  destruct (x_type x =? TList); [left; exact E|].
  destruct (x_type x =? TSexp); [left; exact E|].
  destruct (x_type x =? TStruct); [left; exact E|exact H].
Qed.
Lemma step_in_ok x : snd (x_step_in x) = Ok true -> x_err (fst (x_step_in x)) = false.
Proof.
  unfold x_step_in.
  destruct (x_err x) eqn:E; [discriminate|].
  destruct (negb (x_state x =? trsBeforeContainer)); [discriminate|].
  destruct (x_type x =? TList); [intros _; exact E|].
  destruct (x_type x =? TSexp); [intros _; exact E|].
  destruct (x_type x =? TStruct); [intros _; exact E|discriminate].
Qed.

Lemma step_out_spec x :
  sticky_inv x ->
  sticky_inv (fst (x_step_out x)) /\ (snd (x_step_out x) = Ok true -> x_err (fst (x_step_out x)) = false).
Proof.
  intros H; unfold x_step_out.
  destruct (x_err x) eqn:E; [split; [exact H|discriminate]|].
  destruct (x_ctx x) as [|c rest]; [split; [exact H|discriminate]|].
  pose proof (errpres_lift t_finish_value x) as H1.
  destruct (lift t_finish_value x) as [x1 [b| | |]]; cbn [fst snd] in *;
    try (split; [right; reflexivity|discriminate]);
    try (split; [left; congruence|discriminate]).
  destruct (x_eof x1).
  - split; [left|intros _]; cbn; congruence.
  - pose proof (errpres_lift (t_skip_container_contents c) x1) as H2.
    destruct (lift (t_skip_container_contents c) x1) as [x2 [u| | |]]; cbn [fst snd] in *;
      try (split; [right; reflexivity|discriminate]);
      try (split; [left; congruence|discriminate]).
    split; [left|intros _]; cbn; congruence.
Qed.
Lemma step_out_inv x : sticky_inv x -> sticky_inv (fst (x_step_out x)).
Proof. intros H; apply (step_out_spec x H). Qed.

(* ---- readLocalSymbolTable --------------------------------------------------------------------------------- *)
Section Lst.
Variable api_next : xstate -> xstate * res bool.
Hypothesis Hnext : forall x, sticky_inv x -> sticky_inv (fst (api_next x)).

Ltac next_cases x1 r :=
  match goal with
  | |- context [api_next ?x] =>
    let H := fresh "Hn" in
    pose proof (Hnext x) as H; destruct (api_next x) as [x1 r]; cbn [fst] in H
  end.

Lemma read_symbols_loop_inv fuel : forall x acc,
  sticky_inv x -> sticky_inv (fst (read_symbols_loop api_next fuel x acc)).
Proof.
  induction fuel as [|f IH]; intros x acc H; cbn [read_symbols_loop]; [exact H|].
  next_cases x1 r. destruct r as [[|]| | |]; cbn [fst]; auto.
Qed.
Lemma read_symbols_inv fuel x : sticky_inv x -> sticky_inv (fst (read_symbols api_next fuel x)).
Proof.
  intros H; unfold read_symbols. destruct (negb (x_type x =? TList) || x_is_null x); [exact H|].
  pose proof (step_in_inv x H) as H1. destruct (x_step_in x) as [x1 [[|]| | |]]; cbn [fst] in *; auto.
  pose proof (read_symbols_loop_inv fuel x1 [] H1) as H2.
  destruct (read_symbols_loop api_next fuel x1 []) as [x2 [sy| | |]]; cbn [fst] in *; auto.
  pose proof (step_out_inv x2 H2) as H3. destruct (x_step_out x2) as [x3 [[|]| | |]]; cbn [fst] in *; auto.
Qed.

Lemma read_import_loop_inv fuel : forall x d,
  sticky_inv x -> sticky_inv (fst (read_import_loop api_next fuel x d)).
Proof.
  induction fuel as [|f IH]; intros x d H; cbn [read_import_loop]; [exact H|].
  next_cases x1 r. destruct r as [[|]| | |]; cbn [fst]; auto.
  destruct (x_err x1); cbn [fst]; auto.
  destruct (field_text x1) as [fnm|]; cbn [fst]; auto.
  repeat match goal with
         | |- sticky_inv (fst (if ?b then _ else _)) => destruct b
         | |- sticky_inv (fst (match ?v with _ => _ end)) => destruct v
         end; cbn [fst]; auto.
Qed.
Lemma read_import_inv fuel x : sticky_inv x -> sticky_inv (fst (read_import api_next fuel x)).
Proof.
  intros H; unfold read_import. destruct (negb (x_type x =? TStruct) || x_is_null x); [exact H|].
  pose proof (step_in_inv x H) as H1. destruct (x_step_in x) as [x1 [[|]| | |]]; cbn [fst] in *; auto.
  match goal with |- context [read_import_loop api_next fuel x1 ?d] =>
    pose proof (read_import_loop_inv fuel x1 d H1) as H2;
    destruct (read_import_loop api_next fuel x1 d) as [x2 [dd| | |]] end; cbn [fst] in *; auto.
  pose proof (step_out_inv x2 H2) as H3. destruct (x_step_out x2) as [x3 [[|]| | |]]; cbn [fst] in *; auto.
  repeat match goal with |- sticky_inv (fst (if ?b then _ else _)) => destruct b end; cbn [fst]; auto.
Qed.
Lemma read_imports_loop_inv fuel : forall x acc,
  sticky_inv x -> sticky_inv (fst (read_imports_loop api_next fuel x acc)).
Proof.
  induction fuel as [|f IH]; intros x acc H; cbn [read_imports_loop]; [exact H|].
  next_cases x1 r. destruct r as [[|]| | |]; cbn [fst]; auto.
  pose proof (read_import_inv (S f) x1 (Hn H)) as H2.
  destruct (read_import api_next (S f) x1) as [x2 [[i|]| | |]]; cbn [fst] in *; auto.
Qed.
Lemma read_imports_inv fuel x : sticky_inv x -> sticky_inv (fst (read_imports api_next fuel x)).
Proof.
  intros H; unfold read_imports.
  match goal with |- sticky_inv (fst (match ?c with _ => _ end)) => assert (Hc : forall r, c = Some r -> sticky_inv (fst r)) end.
  { intros r. destruct (x_type x =? TSymbol); [|discriminate].
    destruct (x_err x); [intros E; injection E as <-; exact H|].
    destruct (x_value x) as [| | | | | | |tk| | |]; try discriminate.
    destruct (is_append_marker tk); [|discriminate].
    destruct (x_lst x); intros E; injection E as <-; exact H. }
  match goal with |- sticky_inv (fst (match ?c with _ => _ end)) => destruct c as [r|] end; [apply Hc; reflexivity|].
  destruct (negb (x_type x =? TList) || x_is_null x); [exact H|].
  pose proof (step_in_inv x H) as H1. destruct (x_step_in x) as [x1 [[|]| | |]]; cbn [fst] in *; auto.
  pose proof (read_imports_loop_inv fuel x1 [] H1) as H2.
  destruct (read_imports_loop api_next fuel x1 []) as [x2 [im| | |]]; cbn [fst] in *; auto.
  pose proof (step_out_inv x2 H2) as H3. destruct (x_step_out x2) as [x3 [[|]| | |]]; cbn [fst] in *; auto.
Qed.
Lemma read_lst_loop_inv fuel : forall x imps syms fi fs,
  sticky_inv x -> sticky_inv (fst (read_lst_loop api_next fuel x imps syms fi fs)).
Proof.
  induction fuel as [|f IH]; intros x imps syms fi fs H; cbn [read_lst_loop]; [exact H|].
  next_cases x1 r. destruct r as [[|]| | |]; cbn [fst]; auto.
  destruct (x_err x1); cbn [fst]; auto.
  destruct (field_text x1) as [fnm|]; cbn [fst]; auto.
  destruct (list_eqb fnm (s "symbols")).
  - destruct fs; cbn [fst]; auto.
    pose proof (read_symbols_inv (S f) x1 (Hn H)) as H2.
    destruct (read_symbols api_next (S f) x1) as [x2 [sy| | |]]; cbn [fst] in *; auto.
  - destruct (list_eqb fnm (s "imports")); auto.
    destruct fi; cbn [fst]; auto.
    pose proof (read_imports_inv (S f) x1 (Hn H)) as H2.
    destruct (read_imports api_next (S f) x1) as [x2 [im| | |]]; cbn [fst] in *; auto.
Qed.
Lemma read_lst_spec fuel x :
  sticky_inv x ->
  sticky_inv (fst (read_local_symbol_table api_next fuel x)) /\
  (is_ok (snd (read_local_symbol_table api_next fuel x)) = true ->
   x_err (fst (read_local_symbol_table api_next fuel x)) = false).
Proof.
  intros H; unfold read_local_symbol_table.
  pose proof (step_in_inv x H) as H1. destruct (x_step_in x) as [x1 [[|]| | |]]; cbn [fst snd] in *;
    try (split; [auto|discriminate]).
  pose proof (read_lst_loop_inv fuel x1 [] [] false false H1) as H2.
  destruct (read_lst_loop api_next fuel x1 [] [] false false) as [x2 [[im sy]| | |]]; cbn [fst snd] in *;
    try (split; [auto|discriminate]).
  pose proof (step_out_spec x2 H2) as [H3 H4].
  destruct (x_step_out x2) as [x3 [[|]| | |]]; cbn [fst snd] in *; try (split; [auto|discriminate]).
  split; [auto|intros _; auto].
Qed.
End Lst.

(* ---- Next ------------------------------------------------------------------------------------------------------ *)
(* a handler started without an error: an Ok answer leaves err unset, any other answer leaves a consistent state *)
Definition good {A} (m : R A) : Prop :=
  forall x, x_err x = false ->
    match m x with
    | (x', Ok _) => x_err x' = false
    | (x', _) => sticky_inv x'
    end.
Lemma good_of_errpres {A} (m : R A) : errpres m -> good m.
Proof.
  intros H x E; specialize (H x). destruct (m x) as [x' [a| | |]]; cbn [fst] in H; try (left; congruence); congruence.
Qed.
Lemma good_bind {A B} (m : R A) (f : A -> R B) : good m -> (forall a, good (f a)) -> good (rbind m f).
Proof.
  intros Hm Hf x E; unfold rbind; specialize (Hm x E).
  destruct (m x) as [x' [a| | |]]; try assumption. apply Hf; assumption.
Qed.

Section Next.
Variable pd : list N -> res dec.
Variable pt : list N -> res (list N).
Variable api_next : xstate -> xstate * res bool.
Hypothesis Hnext : forall x, sticky_inv x -> sticky_inv (fst (api_next x)).

Lemma good_read_lst fuel : good (read_local_symbol_table api_next fuel).
Proof.
  intros x E. pose proof (read_lst_spec api_next Hnext fuel x (or_introl E)) as [H1 H2].
  destruct (read_local_symbol_table api_next fuel x) as [x' [st| | |]]; cbn [fst snd is_ok] in *; auto.
Qed.

Lemma good_nbta fuel : good (next_before_type_annotations pd pt api_next fuel).
Proof.
  unfold next_before_type_annotations.
  apply good_bind; [apply good_of_errpres; ep|intros x0].
  repeat match goal with
         | |- good (if ?b then _ else _) => destruct b
         end;
    try (apply good_of_errpres; ep;
         first [apply errpres_set_value | apply errpres_on_symbol | apply errpres_on_number
               | apply errpres_on_timestamp | apply errpres_on_lob]).
  (* the struct case with a local symbol table *)
  apply good_bind; [apply good_of_errpres; ep|intros _].
  apply good_bind; [apply good_of_errpres; ep|intros x1].
  destruct (x_at_top x1 && is_ion_symbol_table (x_annots x1)); [|apply good_of_errpres; ep].
  destruct (x_is_null x1); [apply good_of_errpres; ep|].
  apply good_bind; [apply good_read_lst|intros st]. apply good_of_errpres; ep.
Qed.

Lemma next_loop_inv fuel : forall k x,
  x_err x = false -> sticky_inv (fst (x_next_loop pd pt api_next k fuel x)).
Proof.
  induction k as [|k IH]; intros x E; cbn [x_next_loop]; [left; exact E|].
  pose proof (errpres_lift t_next x) as H1.
  destruct (lift t_next x) as [x1 [u| | |]]; cbn [fst] in *;
    try (right; reflexivity); try (left; congruence).
  assert (E1 : x_err x1 = false) by congruence.
  match goal with |- context [?step x1] =>
    match type of step with R bool => assert (G : good step) end end.
  { destruct (x_state x1 =? trsAfterValue); [apply good_of_errpres, errpres_next_after_value|].
    destruct (x_state x1 =? trsBeforeFieldName); [apply good_of_errpres, errpres_next_before_field_name|].
    destruct (x_state x1 =? trsBeforeTypeAnnotations); [apply good_nbta|apply good_of_errpres, errpres_panic]. }
  specialize (G x1 E1).
  match goal with |- context [?step x1] =>
    match type of step with R bool => destruct (step x1) as [x2 [[|]| | |]] end end; cbn [fst]; auto.
  - left; exact G.
  - right; reflexivity.
Qed.

Lemma next_with_inv fuel x : sticky_inv x -> sticky_inv (fst (x_next_with pd pt api_next fuel x)).
Proof.
  intros H; unfold x_next_with.
  destruct ((x_state x =? trsDone) || x_eof x) eqn:B; [exact H|].
  apply orb_false_elim in B as [B _]. apply N.eqb_neq in B.
  destruct H as [E|D]; [|contradiction].
  pose proof (errpres_finish_value x) as H1.
  destruct (x_finish_value x) as [x1 [u| | |]]; cbn [fst] in *;
    try (right; reflexivity); try (left; congruence).
  apply next_loop_inv. cbn. congruence.
Qed.
End Next.

Section Api.
Variable pd : list N -> res dec.
Variable pt : list N -> res (list N).

Lemma next_inner_inv x : sticky_inv x -> sticky_inv (fst (x_next_inner pd pt x)).
Proof. intros H; unfold x_next_inner; apply next_with_inv; [intros x0 H0; exact H0|exact H]. Qed.
Lemma next_inv x : sticky_inv x -> sticky_inv (fst (x_next pd pt x)).
Proof. intros H; unfold x_next; apply next_with_inv; [apply next_inner_inv|exact H]. Qed.

Lemma init_inv inp ioerr : sticky_inv (x_init inp ioerr).
Proof. left; reflexivity. Qed.

Lemma op_inv x o : sticky_inv x -> sticky_inv (fst (x_op_res pd pt x o)).
Proof.
  intros H; destruct o; cbn [x_op_res];
    repeat match goal with
           | |- sticky_inv (fst (if ?b then _ else _)) => destruct b
           end; cbn [fst]; auto.
  - pose proof (next_inv x H) as H1. destruct (x_next pd pt x) as [x1 [b| | |]]; cbn [fst] in *; auto.
  - pose proof (step_in_inv x H) as H1. destruct (x_step_in x) as [x1 [b| | |]]; cbn [fst] in *; auto.
  - pose proof (step_out_inv x H) as H1. destruct (x_step_out x) as [x1 [b| | |]]; cbn [fst] in *; auto.
  - repeat match goal with
           | |- sticky_inv (fst (if ?b then _ else _)) => destruct b
           | |- sticky_inv (fst (match ?v with _ => _ end)) => destruct v
           end; cbn [fst]; auto.
  - repeat match goal with
           | |- sticky_inv (fst (if ?b then _ else _)) => destruct b
           | |- sticky_inv (fst (match ?v with _ => _ end)) => destruct v
           end; cbn [fst]; auto.
Qed.

(* once the error is set, no call changes the reader, Next answers F and Err answers e1 *)
Lemma op_after_error x o :
  sticky_inv x -> x_err x = true ->
  fst (x_op_res pd pt x o) = x /\
  (o = ONext -> snd (x_op_res pd pt x o) = Ok [70]) /\
  (o = OErr -> snd (x_op_res pd pt x o) = Ok [101; 49]).
Proof.
  intros [E|D] Et; [congruence|].
  assert (Hn : x_next pd pt x = (x, Ok false)).
  { unfold x_next, x_next_with. rewrite D. reflexivity. }
  assert (Hi : x_step_in x = (x, Ok false)) by (unfold x_step_in; rewrite Et; reflexivity).
  assert (Ho : x_step_out x = (x, Ok false)) by (unfold x_step_out; rewrite Et; reflexivity).
  destruct o; cbn [x_op_res]; rewrite ?Hn, ?Hi, ?Ho, ?Et; cbn [fst snd];
    repeat split; try discriminate; try reflexivity;
    repeat match goal with
           | |- fst (if ?b then _ else _) = _ => destruct b
           | |- fst (match ?v with _ => _ end) = _ => destruct v
           end; reflexivity.
Qed.

Lemma run_inv : forall p x acc, sticky_inv x -> sticky_inv (fst (x_run pd pt x p acc)).
Proof.
  induction p as [|o p IH]; intros x acc H; cbn [x_run]; [exact H|].
  pose proof (op_inv x o H) as H1.
  destruct (x_op_res pd pt x o) as [x1 [t| | |]]; cbn [fst] in *; auto.
Qed.
End Api.

Section Run.
Variable pd : list N -> res dec.
Variable pt : list N -> res (list N).
Lemma sticky_after_run inp ioerr p o :
  let x := fst (x_run pd pt (x_init inp ioerr) p []) in
  x_err x = true ->
  x_err (fst (x_op_res pd pt x o)) = true /\
  (o = ONext -> snd (x_op_res pd pt x o) = Ok [70]).
Proof.
  intros x E.
  destruct (op_after_error pd pt x o (run_inv pd pt p _ [] (init_inv inp ioerr)) E) as [H1 [H2 _]].
  split; [rewrite H1; exact E|exact H2].
Qed.
End Run.
