(* WriteSpellStream.v — C01, text half, step 4: the whole output of the text Writer model for a forest is a
   spelling of the forest ([tops_spell] of Text/SpellTree.v) without carriage returns, hence — by the C02 stream
   theorem ([traverse_stream_text]) — the text READER model's full traversal of the Writer model's output is the
   trace of the forest. *)
From Coq Require Import String List NArith ZArith Bool Lia ZifyBool ZifyN ZifyNat.
From IonV Require Import Base.Wire Base.Utf8 Data.Ion Num.Float Bin.BinWriter Bin.BitStream Bin.BinReader Bin.RoundTripBinS
  Text.TextOut Text.TextWriter Text.TextRoundtrip Text.Tokenizer Text.Skipper Text.TextReader Text.TextNum
  Text.SpellBase Text.SpellWs Text.SpellNum Text.SpellIdent Text.SpellSym Text.SpellEsc Text.SpellStr Text.SpellBlob
  Text.SpellTs Text.SpellRead Text.SpellVal Text.SpellSymVal Text.SpellStream Text.SpellCont Text.SpellTree
  Text.WriteSpell Text.WriteSpellOut Text.WriteSpellScalar Text.WriteSpellTree.
Import ListNotations.
Open Scope N_scope.

Section Stream.
Variable F : formats.

Lemma tops_eq t t' l : tops_spell PD PT LSys t l -> t = t' -> tops_spell PD PT LSys t' l.
Proof. intros H <-. exact H. Qed.

Definition fin_of (quiet : bool) : list N := if quiet then [] else [10].

Lemma tops_from quiet l : Forall (wf_top F) l -> forall x, wf_top F x ->
  tops_spell PD PT LSys (wt F [] x ++ items [10] true (map (wt F []) l) ++ fin_of quiet) (tv F [] x :: map (tv F []) l).
Proof.
  induction 1 as [|y r Hy Hr IH]; intros x [Hwx Htx]; cbn [map items app];
    destruct (proj2 (value_spells F x Hwx [] (Forall_nil _)) [] (fun _ => Htx)) as (fol & Hfol & Hsp).
  - eapply tops_eq; [apply (tp_cons PD PT LSys (wt F [] x) fol (tv F [] x) (fin_of quiet) [] []); [exact Hsp| | |apply tp_nil]|].
    + destruct quiet; [constructor|apply ws_ch; [reflexivity|constructor]].
    + apply Hfol. rewrite app_nil_r. destruct quiet; [now left|apply good_follow_cons; lia].
    + now rewrite app_nil_r.
  - eapply tops_eq; [apply (tp_cons PD PT LSys (wt F [] x) fol (tv F [] x) [10]
                              (wt F [] y ++ items [10] true (map (wt F []) r) ++ fin_of quiet) (tv F [] y :: map (tv F []) r) Hsp);
                     [| |apply (IH y Hy)]|].
    + apply ws_ch; [reflexivity|constructor].
    + apply Hfol. apply good_follow_cons. lia.
    + repeat first [rewrite <- app_assoc | progress (cbn [app])]. reflexivity.
Qed.

Theorem stream_spells quiet vs : Forall (wf_top F) vs ->
  tops_spell PD PT LSys (wt_stream F quiet vs) (tvs F vs) /\ no_cr (wt_stream F quiet vs).
Proof.
  intros H. split.
  - unfold wt_stream, tvs. destruct vs as [|x r]; cbn [map items app]; [apply tp_nil|].
    inversion H as [|? ? Hx Hr]; subst.
    eapply tops_eq; [apply (tops_from quiet r Hr x Hx)|]. unfold fin_of. now rewrite <- app_assoc.
  - unfold wt_stream. apply no_cr_app. split.
    + apply no_cr_items; [repeat constructor; discriminate|].
      induction H as [|x r [Hwx _] Hr IH]; cbn [map]; constructor; [|exact IH].
      exact (proj1 (value_spells F x Hwx [] (Forall_nil _))).
    + destruct vs; [constructor|]. destruct quiet; repeat constructor; discriminate.
Qed.

(* the two models composed *)
Theorem write_then_read quiet vs : Forall (wf_top F) vs ->
  exists w oks, tw_drive F (new_text_writer None false quiet) (calls_of_stream vs) = Ok (w, oks) /\
                forallb (fun b => b) oks = true /\
                sink_bytes (tw_out w) = wt_stream F quiet vs /\
                tops_spell PD PT LSys (sink_bytes (tw_out w)) (tvs F vs) /\
                x_traverse PD PT (sink_bytes (tw_out w)) false = ttrace (tvs F vs).
Proof.
  intros H.
  assert (Hw : Forall (wf_value F) vs) by (eapply Forall_impl; [|exact H]; intros v [Hv _]; exact Hv).
  destruct (forest_written F quiet vs Hw) as (w & oks & E & Hok & Hout).
  destruct (stream_spells quiet vs H) as [Hsp Hcr].
  exists w, oks. rewrite Hout. repeat split; auto.
  apply (traverse_stream_text (wt_stream F quiet vs) [] (wt_stream F quiet vs) (tvs F vs)); [|constructor|exact Hsp].
  cbn [app]. now apply norm_id.
Qed.
End Stream.

(* ---- the hypotheses on [formats] hold for the zeros whatever the oracle (formatFloat writes them itself) ---- *)
Lemma float_zero_ok F : float_fmt_ok F 0 /\ float_fmt_ok F (2 ^ 63).
Proof.
  split.
  - exists {| n_neg := false; n_iw := [48]; n_ip := [48]; n_dot := false; n_fw := []; n_fp := [];
              n_exp := Some (101, [43], [48]) |}.
    split; [|split; reflexivity]. split; [|split; reflexivity].
    unfold num_wf; cbn. split; [apply usd; [reflexivity|constructor]|]. split; [now left|]. split; [split; reflexivity|].
    split; [now left|]. split; [right; now left|]. split; [discriminate|repeat constructor].
  - exists {| n_neg := true; n_iw := [48]; n_ip := [48]; n_dot := false; n_fw := []; n_fp := [];
              n_exp := Some (101, [43], [48]) |}.
    split; [|split; reflexivity]. split; [|split; reflexivity].
    unfold num_wf; cbn. split; [apply usd; [reflexivity|constructor]|]. split; [now left|]. split; [split; reflexivity|].
    split; [now left|]. split; [right; now left|]. split; [discriminate|repeat constructor].
Qed.
