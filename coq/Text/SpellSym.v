(* SpellSym.v — C02, stage 5 (interpretation of unquoted symbol text).

   An unquoted identifier that is not a keyword denotes
   - the symbol with ID n when it is spelled `$` + one or more decimal digits (leading zeros allowed),
   - the symbol whose text is the identifier otherwise.
   Theorems: symbolIdentifier / newSymbolToken of the reader model give exactly that:
   [sid_spells w n] -> the token found by ID n in the current table (an error when the table has no
   such ID), any other identifier -> the token with that text (and the ID the table knows it by). *)
From Coq Require Import String List NArith ZArith Bool Lia ZifyBool ZifyN ZifyNat.
From IonV Require Import Base.Wire Base.Utf8 Data.Ion Bin.Bits Bin.BitStream Bin.BinReader Text.Tokenizer Text.Skipper
  Text.TextReader Text.SpellBase Text.SpellNum Text.SpellIdent.
Import ListNotations.
Open Scope Z_scope.

(* `$` digits *)
Definition sid_spells (w : list N) (n : N) : Prop :=
  exists ds, w = 36%N :: ds /\ ds <> [] /\ Forall (fun c => is_dec_b c = true) ds /\ digits_value 10 ds = n.
(* an identifier that is not of that form *)
Definition not_sid_form (w : list N) : Prop :=
  match w with
  | 36%N :: ds => ds = [] \/ Exists (fun c => is_dec_b c = false) ds
  | _ => True
  end.

Lemma forallb_dec_digit ds : Forall (fun c => is_dec_b c = true) ds -> forallb dec_digit_b ds = true.
Proof. intros H. apply forallb_forall. rewrite Forall_forall in H. exact H. Qed.
Lemma forallb_dec_digit_not ds : Exists (fun c => is_dec_b c = false) ds -> forallb dec_digit_b ds = false.
Proof.
  intros H. destruct (forallb dec_digit_b ds) eqn:E; [|reflexivity].
  rewrite forallb_forall in E. apply Exists_exists in H. destruct H as (c & Hc & Hb).
  specialize (E c Hc). unfold dec_digit_b in E. unfold is_dec_b in Hb. congruence.
Qed.

Lemma symbol_identifier_sid w n :
  sid_spells w n -> (n <= 9223372036854775807)%N -> symbol_identifier w = Some (Z.of_N n).
Proof.
  intros (ds & -> & Hn & Hd & <-) Hr. unfold symbol_identifier.
  destruct ds as [|d ds']; [contradiction|].
  pose proof (go_signed_val_spec 10 false (d :: ds') Hn (Forall_digit_in _ _ _ dec_digit_in Hd)) as G.
  cbn [sign_bytes app sgn] in G. rewrite (forallb_dec_digit _ Hd), G.
  replace (in_int64 (Z.of_N (digits_value 10 (d :: ds')))) with true by (unfold in_int64; lia). reflexivity.
Qed.
(* `$` digits whose number does not fit an int64: not an identifier for symbolIdentifier,
   and recognised as an out-of-range ID by newSymbolToken *)
Lemma symbol_identifier_sid_big w n :
  sid_spells w n -> (9223372036854775807 < n)%N ->
  symbol_identifier w = None /\ symbol_id_out_of_range w = true.
Proof.
  intros (ds & -> & Hn & Hd & <-) Hr.
  assert (E : symbol_identifier (36%N :: ds) = None).
  { unfold symbol_identifier. destruct ds as [|d ds']; [contradiction|].
    pose proof (go_signed_val_spec 10 false (d :: ds') Hn (Forall_digit_in _ _ _ dec_digit_in Hd)) as G.
    cbn [sign_bytes app sgn] in G. rewrite (forallb_dec_digit _ Hd), G.
    replace (in_int64 (Z.of_N (digits_value 10 (d :: ds')))) with false by (unfold in_int64; lia). reflexivity. }
  split; [exact E|]. unfold symbol_id_out_of_range. rewrite E.
  destruct ds as [|d ds']; [contradiction|]. rewrite (forallb_dec_digit _ Hd). reflexivity.
Qed.

(* once the fold of ParseInt has failed it stays failed *)
Lemma fold_go_none radix : forall p,
  fold_left (fun acc c => match acc, hexval c with
                          | Some a, Some d => if (d <? radix)%N then Some (a * Z.of_N radix + Z.of_N d) else None
                          | _, _ => None
                          end) p None = None.
Proof. induction p as [|c p IH]; [reflexivity|]. cbn [fold_left]. exact IH. Qed.
Lemma hexval_nondec c : is_dec_b c = false ->
  match hexval c with Some d => (d <? 10)%N | None => false end = false.
Proof.
  unfold is_dec_b, hexval. intros H. rewrite H.
  destruct ((97 <=? c)%N && (c <=? 102)%N) eqn:E1; [lia|].
  destruct ((65 <=? c)%N && (c <=? 70)%N) eqn:E2; [lia|reflexivity].
Qed.
Lemma go_digits_val_bad : forall p a, Exists (fun c => is_dec_b c = false) p ->
  fold_left (fun acc c => match acc, hexval c with
                          | Some a, Some d => if (d <? 10)%N then Some (a * Z.of_N 10 + Z.of_N d) else None
                          | _, _ => None
                          end) p a = None.
Proof.
  induction p as [|c p IH]; intros a Hp; [inversion Hp|]. cbn [fold_left].
  inversion Hp as [? ? Hc|? ? Hp']; subst.
  - pose proof (hexval_nondec c Hc) as Hh. destruct a as [a|]; [|apply fold_go_none].
    destruct (hexval c) as [d|]; [rewrite Hh|]; apply fold_go_none.
  - apply IH. exact Hp'.
Qed.

Lemma symbol_identifier_text w :
  ident_chars w -> not_sid_form w -> symbol_identifier w = None.
Proof.
  intros Hw Hn. unfold symbol_identifier. destruct Hw as [c r Hc Hr].
  destruct (N.eq_dec c 36) as [->|Hc36].
  - cbn [not_sid_form] in Hn. destruct r as [|d ds]; [reflexivity|].
    destruct Hn as [Hn|Hn]; [discriminate|].
    rewrite (forallb_dec_digit_not _ Hn). reflexivity.
  - destruct c as [|q]; [reflexivity|]. do 6 (try (destruct q as [q|q|]; try reflexivity)). congruence.
Qed.
Lemma out_of_range_text w : not_sid_form w -> symbol_id_out_of_range w = false.
Proof.
  intros Hn. unfold symbol_id_out_of_range.
  destruct w as [|c r]; [reflexivity|].
  destruct c as [|q]; [reflexivity|]. do 6 (try (destruct q as [q|q|]; try reflexivity)).
  cbn [not_sid_form] in Hn. destruct r as [|d ds]; [reflexivity|].
  destruct Hn as [Hn|Hn]; [discriminate|].
  rewrite (forallb_dec_digit_not _ Hn). reflexivity.
Qed.

Theorem new_symbol_token_sid l w n :
  sid_spells w n -> (n <= 9223372036854775807)%N ->
  new_symbol_token l w = match tok_by_sid l n with Some k => Ok k | None => Err end.
Proof.
  intros Hw Hr. unfold new_symbol_token. rewrite (symbol_identifier_sid w n Hw Hr).
  replace (Z.of_N n <? 0) with false by lia. now rewrite N2Z.id.
Qed.
Theorem new_symbol_token_text l w :
  ident_chars w -> not_sid_form w -> new_symbol_token l w = Ok (name_symbol_token l w).
Proof.
  intros Hw Hn. unfold new_symbol_token. now rewrite (symbol_identifier_text w Hw Hn), (out_of_range_text w Hn).
Qed.
(* `$` digits beyond 2^63-1: an undefined symbol ID, whatever the table *)
Theorem new_symbol_token_sid_out_of_range l w n :
  sid_spells w n -> (9223372036854775807 < n)%N -> new_symbol_token l w = Err.
Proof.
  intros Hw Hr. unfold new_symbol_token.
  destruct (symbol_identifier_sid_big w n Hw Hr) as [-> ->]. reflexivity.
Qed.

(* in the system symbol table *)
Lemma tok_by_sid_sys n : (n <= 9)%N ->
  tok_by_sid LSys n = Some {| tk_text := lst_find_by_id LSys n; tk_sid := Z.of_N n |}.
Proof.
  intros H. unfold tok_by_sid, sid_ok. replace (n <? two63)%N with true by (unfold two63; lia).
  replace (n <=? lst_max_id LSys)%N with true by (cbn; lia). reflexivity.
Qed.

Example sid_example : sid_spells (s "$007") 7.
Proof. exists (s "007"). repeat split; [discriminate|repeat constructor]. Qed.
Example sid_example_tok : new_symbol_token LSys (s "$007") = Ok {| tk_text := Some (s "symbols"); tk_sid := 7 |}.
Proof. rewrite (new_symbol_token_sid LSys _ 7 sid_example) by lia. reflexivity. Qed.
Example sid_example_big : sid_spells (s "$9223372036854775808") 9223372036854775808.
Proof. exists (s "9223372036854775808"). repeat split; [discriminate|repeat constructor]. Qed.
Example sid_example_big_tok : new_symbol_token LSys (s "$9223372036854775808") = Err.
Proof. apply (new_symbol_token_sid_out_of_range LSys _ _ sid_example_big). lia. Qed.
Example text_example_tok :
  new_symbol_token LSys (s "$ion_9z") = Ok {| tk_text := Some (s "$ion_9z"); tk_sid := -1 |}.
Proof.
  set (w := s "$ion_9z") at 1. vm_compute in w. subst w.
  rewrite new_symbol_token_text; [reflexivity| |].
  - constructor; [right; right; reflexivity|].
    repeat (apply Forall_cons; [unfold id_part, id_start, letter, digit; lia|]). apply Forall_nil.
  - cbn. right. constructor. reflexivity.
Qed.
