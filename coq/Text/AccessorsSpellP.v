(* AccessorsSpellP.v — C13, integer accessors composed with "how the value got there" (text):
   for every spelling of the Ion integer z (decimal, 0x / 0b, underscores, either sign, any annotations
   in front), Next on the text reader model positions it on an int and IntSize / IntValue / Int64Value /
   BigIntValue answer in terms of z itself, IntSize exactly.
   PARTIAL in position only: the first top-level value of a stream (under the system table). *)
From Coq Require Import String List NArith ZArith Bool Lia ZifyBool ZifyN ZifyNat.
From IonV Require Import Base.Wire Base.Utf8 Data.Ion Bin.Bits Bin.BitStream Bin.BinReader Num.Float Text.Tokenizer Text.Skipper
  Text.TextReader Text.TextNum Text.SpellBase Text.SpellWs Text.SpellNum Text.SpellTok Text.SpellRead
  Text.SpellEsc Text.SpellStr Text.SpellLong Text.SpellIdent Text.SpellSym Text.SpellTs Text.SpellBlob
  Text.SpellVal Text.SpellSymVal Text.SpellOp Text.SpellStream Text.SpellCont Text.SpellTree
  Text.SpellEofc Text.SpellOp2 Text.SpellStream2 Text.SpellIvm Text.SpellTree2 Text.SkipSpell Text.SkipSpellTree Text.SkipSpellNav
  Text.AccessorsTP.
Import ListNotations.
Open Scope N_scope.

Definition int_answers_t (pd : list N -> res dec) (pt : list N -> res (list N)) (x : xstate) (z : Z) : Prop :=
  x_op_res pd pt x OIntSize = (x, Ok (122 :: dec_of_N (min_size z))) /\
  x_op_res pd pt x OInt = (x, Ok (if in_int32 z then 73 :: dec_of_Z z else t_err)) /\
  x_op_res pd pt x OInt64 = (x, Ok (if in_int64 z then 73 :: dec_of_Z z else t_err)) /\
  x_op_res pd pt x OBigInt = (x, Ok (73 :: dec_of_Z z)).

(* the spellings of an int: a decimal-radix literal without fraction and exponent, a 0x / 0b literal *)
Definition dec_int (neg : bool) (dw p : list N) : numsp :=
  {| n_neg := neg; n_iw := dw; n_ip := p; n_dot := false; n_fw := []; n_fp := []; n_exp := None |}.
Lemma dec_int_text neg dw p : num_text (dec_int neg dw p) = sign_bytes neg ++ dw.
Proof. unfold num_text, dec_int. cbn [n_neg n_iw n_dot n_exp exp_text]. rewrite !app_nil_r. reflexivity. Qed.

Section Sp.
Variable pd : list N -> res dec.
Variable pt : list N -> res (list N).

Lemma dec_int_spells lst ctx ann neg dw p : us_digits is_dec_b dw p -> no_lead0 p ->
  aval_spells pd pt lst ctx ann (sign_bytes neg ++ dw) (f_term) ann TInt (XInt (mk_int (sgn neg (digits_value 10 p)))).
Proof.
  intros Hd Hl. rewrite <- dec_int_text with (p := p). apply av_item, it_num.
  - unfold num_wf, dec_int. cbn [n_iw n_ip n_dot n_fw n_fp n_exp exp_wf]. repeat split; auto.
  - reflexivity.
Qed.
Lemma radix_int_spells lst ctx ann (hex : bool) neg m dw p :
  (if hex then (m = 120 \/ m = 88) /\ us_digits is_hex_b dw p else (m = 98 \/ m = 66) /\ us_digits is_bin_b dw p) ->
  aval_spells pd pt lst ctx ann (sign_bytes neg ++ 48 :: m :: dw) (f_term) ann TInt
              (XInt (mk_int (sgn neg (digits_value (if hex then 16 else 2) p)))).
Proof. intros H. apply av_item, it_radix, H. Qed.

(* Next on the first value of a stream *)
Theorem spelled_int_top inp w0 text fol anns z wn rest :
  norm inp = w0 ++ text ++ wn ++ rest -> ws_run w0 ->
  aval_spells pd pt LSys [] [] text fol anns TInt (XInt (mk_int z)) ->
  ws_run wn -> fol wn rest -> ws_stop (zs rest) = true -> dcolon (zs rest) = false ->
  exists x1, x_op_res pd pt (x_init inp false) ONext = (x1, Ok [84]) /\ x_type x1 = TInt /\ x_field x1 = None /\
             x_annots x1 = anns /\ int_answers_t pd pt x1 z.
Proof.
  intros Hn Hw0 Hav Hwn Hfol Hst Hdc.
  pose proof (norm_no_cr inp) as Hcr. rewrite Hn in Hcr. apply no_cr_app in Hcr as [Hcr0 Hcrt].
  assert (Hcr2 : no_cr (text ++ wn)).
  { rewrite app_assoc in Hcrt. apply no_cr_app in Hcrt as [H _]. exact H. }
  assert (Hi : xok (x_init inp false)) by reflexivity.
  assert (Ha : xabs (x_init inp false)
               = mkax (zs (norm inp)) tokenError false trsBeforeTypeAnnotations [] false false LSys None [] 0%N XNil) by reflexivity.
  assert (Hset : settled (zs (norm inp)) tokenError false (text ++ wn ++ rest)).
  { apply (settled_false _ _ _ w0); auto. rewrite Hn. exists []. split; [constructor|now rewrite app_nil_r]. }
  destruct (top_next pd pt LSys (x_init inp false) _ _ _ _ _ _ _ text fol anns TInt (XInt (mk_int z)) wn rest Hi Ha Hset Hav Hcr2 Hwn Hfol Hst Hdc)
    as (x1 & S' & k' & u' & E & Hi1 & Ha1 & _).
  xfields Ha1. exists x1. split; [unfold x_op_res; rewrite E; reflexivity|].
  repeat (split; [assumption|]). apply spelled_int_accessors; assumption.
Qed.

(* the three families of spellings, with the integer they denote *)
Theorem spelled_int_top_dec inp w0 neg dw p wn rest :
  norm inp = w0 ++ (sign_bytes neg ++ dw) ++ wn ++ rest -> ws_run w0 ->
  us_digits is_dec_b dw p -> no_lead0 p ->
  ws_run wn -> f_term wn rest -> ws_stop (zs rest) = true -> dcolon (zs rest) = false ->
  exists x1, x_op_res pd pt (x_init inp false) ONext = (x1, Ok [84]) /\ x_type x1 = TInt /\ x_field x1 = None /\
             x_annots x1 = [] /\ int_answers_t pd pt x1 (sgn neg (digits_value 10 p)).
Proof.
  intros Hn Hw0 Hd Hl. apply (spelled_int_top inp w0 _ f_term [] _ wn rest Hn Hw0). apply dec_int_spells; assumption.
Qed.
Theorem spelled_int_top_radix inp w0 (hex : bool) neg m dw p wn rest :
  norm inp = w0 ++ (sign_bytes neg ++ 48 :: m :: dw) ++ wn ++ rest -> ws_run w0 ->
  (if hex then (m = 120 \/ m = 88) /\ us_digits is_hex_b dw p else (m = 98 \/ m = 66) /\ us_digits is_bin_b dw p) ->
  ws_run wn -> f_term wn rest -> ws_stop (zs rest) = true -> dcolon (zs rest) = false ->
  exists x1, x_op_res pd pt (x_init inp false) ONext = (x1, Ok [84]) /\ x_type x1 = TInt /\ x_field x1 = None /\
             x_annots x1 = [] /\ int_answers_t pd pt x1 (sgn neg (digits_value (if hex then 16 else 2) p)).
Proof.
  intros Hn Hw0 Hd. apply (spelled_int_top inp w0 _ f_term [] _ wn rest Hn Hw0). apply radix_int_spells; assumption.
Qed.

(* ---- an int anywhere a value may stand -------------------------------------------------------------------------------- *)
(* [ctx]: the containers the reader is inside of; [pre]: what stands between the previous member and this one
   (nothing, a comma, a field name and a colon: sep_spells2); [nextable]: Next on x runs its loop in front of the text
   (Text/SpellTree2.v: any state the tree traversal of C02 reaches, see nextable_at_rest / nextable_settled) *)
Theorem spelled_int_anywhere lst ctx text fol anns z pre st fld n wb x wn rest :
  aval_spells2 pd pt lst ctx [] text fol anns TInt (XInt (mk_int z)) ->
  sep_spells2 lst ctx st pre fld n -> ws_run wb -> (pre = [] -> wb = []) ->
  nextable pd pt lst x st ctx (pre ++ wb ++ text ++ wn ++ rest) -> no_cr (pre ++ wb ++ text ++ wn) -> ws_run wn ->
  fol wn rest -> rest_ok ctx rest ->
  exists x1, x_op_res pd pt x ONext = (x1, Ok [84]) /\ x_type x1 = TInt /\ x_field x1 = fld /\
             x_annots x1 = anns /\ x_ctx x1 = ctx /\ int_answers_t pd pt x1 z.
Proof.
  intros Hav Hsep Hwb Hpw Hnx Hcr Hwn Hfol Hrok.
  destruct (next_scalar pd pt lst ctx text fol anns TInt (XInt (mk_int z)) Hav pre st fld n wb Hsep Hwb Hpw x wn rest Hnx Hcr Hwn Hfol Hrok)
    as (x1 & S' & k' & u' & E & Hi1 & Ha1 & _).
  xfields Ha1. exists x1. split; [unfold x_op_res; rewrite E; reflexivity|].
  repeat (split; [assumption|]). apply spelled_int_accessors; assumption.
Qed.
(* ... in particular from every state "at rest" the tree traversal of C02 leaves the reader in (after a Next, a StepIn or
   a StepOut; [settled]: the tokenizer in front of the remaining text) *)
Theorem spelled_int_at_rest lst ctx text fol anns z pre fld n wb x S0 k u st0 fld0 ann0 ty0 v0 wn rest :
  aval_spells2 pd pt lst ctx [] text fol anns TInt (XInt (mk_int z)) ->
  xok x -> xabs x = mkax S0 k u st0 ctx false false lst fld0 ann0 ty0 v0 -> st0 <> trsDone ->
  settled S0 k u (pre ++ wb ++ text ++ wn ++ rest) ->
  sep_spells2 lst ctx (loop_state u st0 ctx) pre fld n -> ws_run wb -> (pre = [] -> wb = []) ->
  no_cr (pre ++ wb ++ text ++ wn) -> ws_run wn -> fol wn rest -> rest_ok ctx rest ->
  exists x1, x_op_res pd pt x ONext = (x1, Ok [84]) /\ x_type x1 = TInt /\ x_field x1 = fld /\
             x_annots x1 = anns /\ x_ctx x1 = ctx /\ int_answers_t pd pt x1 z.
Proof.
  intros Hav Hi Ha Hnd Hset Hsep Hwb Hpw Hcr Hwn Hfol Hrok.
  apply (spelled_int_anywhere lst ctx text fol anns z pre _ fld n wb x wn rest Hav Hsep Hwb Hpw); try assumption.
  apply (nextable_at_rest pd pt lst x S0 k u st0 ctx fld0 ann0 ty0 v0 _ Hi Ha Hnd Hset).
Qed.
(* the int literals are spellings in this sense too *)
Lemma dec_int_spells2 lst ctx ann neg dw p : us_digits is_dec_b dw p -> no_lead0 p ->
  aval_spells2 pd pt lst ctx ann (sign_bytes neg ++ dw) (f_term) ann TInt (XInt (mk_int (sgn neg (digits_value 10 p)))).
Proof. intros Hd Hl. apply aval_spells_incl, dec_int_spells; assumption. Qed.
Lemma radix_int_spells2 lst ctx ann (hex : bool) neg m dw p :
  (if hex then (m = 120 \/ m = 88) /\ us_digits is_hex_b dw p else (m = 98 \/ m = 66) /\ us_digits is_bin_b dw p) ->
  aval_spells2 pd pt lst ctx ann (sign_bytes neg ++ 48 :: m :: dw) (f_term) ann TInt
               (XInt (mk_int (sgn neg (digits_value (if hex then 16 else 2) p)))).
Proof. intros H. apply aval_spells_incl, radix_int_spells, H. Qed.
End Sp.

(* the hypotheses are satisfiable: -0x8000_0000_0000_0000 followed by a space, after a comment *)
Example spelled_example_hyps :
  let inp := s "/*c*/ -0x8000_0000_0000_0000 " in
  norm inp = s "/*c*/ " ++ (sign_bytes true ++ 48 :: 120 :: s "8000_0000_0000_0000") ++ s " " ++ [] /\ ws_run (s "/*c*/ ") /\
  us_digits is_hex_b (s "8000_0000_0000_0000") (s "8000000000000000") /\
  ws_run (s " ") /\ f_term (s " ") [] /\ ws_stop (zs []) = true /\ dcolon (zs []) = false /\
  sgn true (digits_value 16 (s "8000000000000000")) = (-9223372036854775808)%Z.
Proof.
  cbv zeta. split; [vm_compute; reflexivity|]. split.
  { change (s "/*c*/ ") with (47 :: 42 :: [99] ++ 42 :: 47 :: [32]). apply ws_block; [reflexivity|]. apply ws_ch; [reflexivity|constructor]. }
  split.
  { repeat match goal with |- context [s ?str] => let x := eval vm_compute in (s str) in change (s str) with x end.
    apply usd; [reflexivity|].
    repeat first [apply ut_under; [reflexivity|] | apply ut_digit; [reflexivity|] | apply ut_nil]. }
  split; [apply ws_ch; [reflexivity|constructor]|].
  repeat split; vm_compute; reflexivity.
Qed.
