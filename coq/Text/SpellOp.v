(* SpellOp.v — C02, stage 8b (continued): operator symbols inside s-expressions.  Next on a run of operator
   characters that contains no comment opener (a comment ends an operator; see the repaired finding in
   SpellIdent.v), including the look-aheads that
   Next makes on `+`, `-` (not a number, not an infinity) and `.`. *)
From Coq Require Import String List NArith ZArith Bool Lia ZifyBool ZifyN ZifyNat.
From IonV Require Import Base.Wire Base.Utf8 Data.Ion Bin.Bits Bin.BitStream Bin.BinReader Num.Float Text.Tokenizer Text.Skipper
  Text.TextReader Text.TextNum Text.SpellBase Text.SpellWs Text.SpellNum Text.SpellTok Text.SpellRead
  Text.SpellEsc Text.SpellStr Text.SpellLong Text.SpellIdent Text.SpellSym Text.SpellVal Text.SpellSymVal.
Import ListNotations.
Open Scope Z_scope.

Lemma spush_nonempty' (r : list Z) : r <> [] -> spush r = r.
Proof. destruct r; [contradiction|reflexivity]. Qed.

(* the stream begins with `inf` *)
Definition starts_inf (s : list Z) : bool :=
  (shead s =? 105) && (shead (stail s) =? 110) && (shead (stail (stail s)) =? 102).

Lemma pk_shead n s : (0 < length (fst (pk (S n) s)))%nat -> nth 0 (fst (pk (S n) s)) 0 = shead s.
Proof. intros H. rewrite pk_nth by exact H. destruct s; [cbn in H; lia|reflexivity]. Qed.
Lemma nth_stail i (s : list Z) : nth (S i) s 0 = nth i (stail s) 0.
Proof. destruct s; [destruct i; reflexivity|reflexivity]. Qed.
Lemma nth0_shead (s : list Z) : s <> [] -> nth 0 s 0 = shead s.
Proof. destruct s; [contradiction|reflexivity]. Qed.

(* isInf answers false when `inf` does not follow *)
Lemma run_is_inf_no c s :
  c = c_plus \/ c = c_minus -> starts_inf s = false -> run (t_is_inf c) s false (pks 5 s).
Proof.
  intros Hc Hs. unfold t_is_inf.
  replace (negb ((c =? c_plus) || (c =? c_minus))) with false by (destruct Hc as [-> | ->]; reflexivity).
  eapply run_bind; [apply run_peekN_pk|].
  destruct (pk 5 s) as [cs e] eqn:Ep. cbv beta iota.
  assert (Hcs : cs = fst (pk 5 s)) by now rewrite Ep.
  destruct (length cs <? 3)%nat eqn:E3; [cbn [orb]; apply run_ret|]. apply Nat.ltb_ge in E3. cbn [orb].
  assert (H0 : znth cs 0 = shead s /\ znth cs 1 = shead (stail s) /\ znth cs 2 = shead (stail (stail s))).
  { unfold znth. rewrite Hcs in *. rewrite !pk_nth by lia.
    pose proof (pk_length_le 5 s) as Hl.
    destruct s as [|a [|b [|c0 r]]]; cbn [length] in Hl; try lia. cbn [nth shead stail]. auto. }
  destruct H0 as (-> & -> & ->). unfold starts_inf in Hs. rewrite Hs. cbn [negb]. apply run_ret.
Qed.

(* ---- Next on the first character of an operator -------------------------------------------------------------------------------- *)
Lemma dispatch_op_plain c :
  op_char c -> c <> 43%N -> c <> 45%N -> c <> 46%N ->
  next_dispatch (Z.of_N c) = (tdo _ <- t_unread (Z.of_N c); t_ok tokenSymbolOperator true).
Proof.
  unfold op_char. cbn [In]. intros H H1 H2 H3.
  repeat (destruct H as [<-|H]; [try reflexivity; try contradiction|]); contradiction.
Qed.

(* how far Next looks beyond the operator c :: r *)
Definition op_look (c : N) (r : list N) : nat :=
  if ((c =? 43) || (c =? 45))%N then (5 - length r)%nat
  else if (c =? 46)%N then match r with [] => 1%nat | _ => 0%nat end else 0%nat.
(* the token and the stream after Next has seen the first character c of the operator w = c :: r, followed by s *)
Lemma runK_dispatch_op c r s k0 :
  op_chars (c :: r) -> is_operator_char (shead s) = false ->
  ((c = 43 \/ c = 45)%N -> r = [] -> starts_inf s = false) -> (c = 45%N -> r = [] -> is_digit (shead s) = false) ->
  runK (next_dispatch (Z.of_N c)) (zs r ++ s, k0, false) tt
       (Z.of_N c :: zs r ++ pks (op_look c r) s, (if (c =? 46)%N && match r with [] => true | _ => false end then tokenDot else tokenSymbolOperator),
        negb ((c =? 46)%N && match r with [] => true | _ => false end)).
Proof.
  intros Hw Hs Hinf Hdig. inversion Hw as [c' r' Hc Hr]; subst.
  assert (Hhd : r <> [] -> exists d r2, r = d :: r2 /\ op_char d).
  { intros Hn. destruct r as [|d r2]; [contradiction|]. inversion Hr; subst. eauto. }
  assert (Hsi : forall d r2, r = d :: r2 -> starts_inf (zs r ++ s) = false /\ is_digit (shead (zs r ++ s)) = false /\
                                            is_operator_char (shead (zs r ++ s)) = true).
  { intros d r2 ->. inversion Hr as [|? ? Hd _]; subst. destruct (op_char_model d Hd) as (Ho & _).
    cbn [zs map app shead]. unfold starts_inf. cbn [shead].
    unfold op_char in Hd. cbn [In] in Hd.
    repeat (destruct Hd as [<-|Hd]; [repeat split; reflexivity|]). contradiction. }
  destruct (N.eq_dec c 43) as [->|H43]; [|destruct (N.eq_dec c 45) as [->|H45]; [|destruct (N.eq_dec c 46) as [->|H46]]].
  - (* + *)
    unfold op_look. cbn [N.eqb Pos.eqb andb negb orb].
    change (next_dispatch (Z.of_N 43)) with
      (tdo ok <- t_is_inf 43; if ok then t_ok tokenFloatInf false else tdo _ <- t_unread 43; t_ok tokenSymbolOperator true).
    assert (Hni : starts_inf (zs r ++ s) = false).
    { destruct r as [|d r2]; [apply Hinf; auto|]. now destruct (Hsi d r2 eq_refl). }
    eapply runK_bind; [apply run_runK, (run_is_inf_no 43 _ (or_introl eq_refl) Hni)|]. cbv iota.
    eapply runK_bind; [apply run_runK, run_unread|]. rewrite pks_zs_app. apply runK_t_ok.
  - (* - *)
    unfold op_look. cbn [N.eqb Pos.eqb andb negb orb].
    change (next_dispatch (Z.of_N 45)) with
        (tdo c2 <- t_peek;
         if is_digit c2 then
           tdo _ <- t_read; tdo k <- t_scan_numeric c2;
           if (k =? tokenTimestamp)%N then fail else tdo _ <- t_unread c2; tdo _ <- t_unread 45; t_ok k true
         else tdo ok <- t_is_inf 45; if ok then t_ok tokenFloatMinusInf false
              else tdo _ <- t_unread 45; t_ok tokenSymbolOperator true).
    assert (Hni : starts_inf (zs r ++ s) = false /\ is_digit (shead (zs r ++ s)) = false).
    { destruct r as [|d r2]; [split; [apply Hinf|apply Hdig]; auto|]. destruct (Hsi d r2 eq_refl) as (A & B & _). auto. }
    destruct Hni as [Hni Hnd].
    eapply runK_bind; [apply run_runK, run_peek|]. rewrite Hnd.
    assert (Hsp : starts_inf (spush (zs r ++ s)) = false) by exact Hni.
    eapply runK_bind; [apply run_runK, (run_is_inf_no 45 _ (or_intror eq_refl) Hsp)|]. cbv iota.
    eapply runK_bind; [apply run_runK, run_unread|].
    assert (Hpk : pks 5 (spush (zs r ++ s)) = zs r ++ pks (5 - length r) s).
    { rewrite <- pks_zs_app. destruct (zs r ++ s) as [|a l]; [reflexivity|]. reflexivity. }
    rewrite Hpk. apply runK_t_ok.
  - (* . *)
    unfold op_look. cbn [N.eqb Pos.eqb andb orb].
    change (next_dispatch (Z.of_N 46)) with
      (tdo c2 <- t_peek;
       if is_operator_char c2 then tdo _ <- t_unread 46; t_ok tokenSymbolOperator true
       else tdo _ <- t_unread 46; t_ok tokenDot false).
    destruct r as [|d r2].
    + cbn [zs map app negb]. eapply runK_bind; [apply run_runK, run_peek|]. rewrite Hs.
      eapply runK_bind; [apply run_runK, run_unread|].
      assert (Hp : spush s = pks 1 s) by (destruct s as [|a l]; [reflexivity|]; cbn [pks]; destruct (a =? -1); reflexivity).
      rewrite Hp. apply runK_t_ok.
    + cbn [negb pks]. destruct (Hsi d r2 eq_refl) as (_ & _ & Ho).
      eapply runK_bind; [apply run_runK, run_peek|]. rewrite Ho.
      eapply runK_bind; [apply run_runK, run_unread|].
      assert (Hsp2 : spush (zs (d :: r2) ++ s) = zs (d :: r2) ++ s) by reflexivity. rewrite Hsp2. apply runK_t_ok.
  - (* any other operator character *)
    unfold op_look. replace ((c =? 46)%N) with false by lia. replace ((c =? 43)%N) with false by lia.
    replace ((c =? 45)%N) with false by lia. cbn [andb orb negb pks].
    rewrite (dispatch_op_plain c Hc H43 H45 H46).
    eapply runK_bind; [apply run_runK, run_unread|]. apply runK_t_ok.
Qed.

(* ---- the value ------------------------------------------------------------------------------------------------------------------ *)
Lemma op_not_keyword w : op_chars w -> is_keyword w = false.
Proof.
  intros [c r Hc Hr]. unfold op_char in Hc. cbn [In] in Hc. unfold is_keyword.
  repeat (destruct Hc as [<-|Hc]; [reflexivity|]). contradiction.
Qed.
Lemma op_symbol_token lst w : op_chars w -> new_symbol_token lst w = Ok (name_symbol_token lst w).
Proof.
  intros [c r Hc Hr]. unfold new_symbol_token, symbol_identifier. unfold op_char in Hc. cbn [In] in Hc.
  repeat (destruct Hc as [<-|Hc]; [reflexivity|]). contradiction.
Qed.
Lemma runK_read_value_op tok w s k u :
  tok = tokenSymbolOperator \/ tok = tokenDot ->
  op_chars w -> no_comment_start w = true -> is_operator_char (shead s) = false ->
  runK (t_read_value tok) (zs w ++ s, k, u) w (spush s, k, false).
Proof.
  intros Htok Hw Hn Hs. apply (runK_read_value tok read_operator).
  - destruct Htok as [-> | ->]; reflexivity.
  - now apply run_read_operator.
Qed.

Section Values.
Variable pd : list N -> res dec.
Variable pt : list N -> res (list N).
Variable api : xstate -> xstate * res bool.
Notation BTA := trsBeforeTypeAnnotations.

Lemma op_first_stop c r s :
  op_chars (c :: r) -> no_comment_start (c :: r) = true -> is_operator_char (shead s) = false -> zs r ++ s <> [] ->
  ws_stop (Z.of_N c :: zs r ++ s) = true /\ after_stop (Z.of_N c :: zs r ++ s) = zs r ++ s.
Proof.
  intros Hw Hn Hs Hne. inversion Hw as [c' r' Hc Hr]; subst. destruct (op_char_model c Hc) as (Ho & _).
  assert (Hws : is_whitespace (Z.of_N c) = false).
  { unfold op_char in Hc. cbn [In] in Hc. repeat (destruct Hc as [<-|Hc]; [reflexivity|]). contradiction. }
  unfold ws_stop, after_stop. cbn [shead stail]. rewrite Hws. cbn [negb andb].
  destruct (Z.eqb_spec (Z.of_N c) c_slash) as [E|E]; [|split; reflexivity].
  assert (c = 47%N) by (unfold c_slash in E; lia). subst c.
  rewrite (spush_nonempty' _ Hne). split; [|reflexivity].
  cbn [no_comment_start] in Hn. apply andb_true_iff in Hn as [Hn _]. apply negb_true_iff in Hn.
  change ((47 =? 47)%N) with true in Hn. cbn [andb] in Hn.
  destruct r as [|d r2]; cbn [zs map app shead].
  - assert (Hsl : shead s <> c_slash /\ shead s <> c_star).
    { split; intros E'; rewrite E' in Hs; discriminate Hs. }
    destruct Hsl. replace (shead s =? c_slash) with false by lia. replace (shead s =? c_star) with false by lia. reflexivity.
  - unfold c_slash, c_star. replace (Z.of_N d =? 47) with ((d =? 47)%N) by lia. replace (Z.of_N d =? 42) with ((d =? 42)%N) by lia.
    now rewrite Hn.
Qed.

Lemma next_op w c r wn S2 k0 ctxr lst fld ann ty0 v0 kk fuel :
  ws_run w -> no_cr w -> op_chars (c :: r) -> no_comment_start (c :: r) = true ->
  ws_run wn -> no_cr wn -> ws_stop S2 = true -> dcolon S2 = false -> zs wn ++ S2 <> [] ->
  is_operator_char (shead (zs wn ++ S2)) = false ->
  ((c = 43 \/ c = 45)%N -> r = [] -> starts_inf (zs wn ++ S2) = false) ->
  (c = 45%N -> r = [] -> is_digit (shead (zs wn ++ S2)) = false) ->
  rrun (x_next_loop pd pt api (S kk) fuel)
       (mkax (zs w ++ zs (c :: r) ++ zs wn ++ S2) k0 false BTA (CSexp :: ctxr) false false lst fld ann ty0 v0) true
       (mkax (sym_rest wn (pks (op_look c r - length wn) S2)) (if (c =? 46)%N && match r with [] => true | _ => false end then tokenDot else tokenSymbolOperator)
             false BTA (CSexp :: ctxr) false false lst fld ann TSymbol (XSymbol (name_symbol_token lst (c :: r)))).
Proof.
  intros Hw Hcr Hop Hnc Hwn Hcrn Hs2 Hdc Hne Hno Hinf Hdig x Hi Ha.
  set (s := zs wn ++ S2) in *.
  set (tk := if (c =? 46)%N && match r with [] => true | _ => false end then tokenDot else tokenSymbolOperator).
  set (S2p := pks (op_look c r - length wn) S2).
  assert (Hne' : zs r ++ s <> []) by (destruct r; [exact Hne|discriminate]).
  destruct (op_first_stop c r s Hop Hnc Hno Hne') as [Hst Has].
  assert (Htk : tk = tokenSymbolOperator \/ tk = tokenDot) by (unfold tk; destruct ((c =? 46)%N && _); auto).
  destruct (loop_sym pd pt api w (zs (c :: r) ++ s) k0 tk (negb ((c =? 46)%N && match r with [] => true | _ => false end))
              (zs (c :: r) ++ zs wn ++ S2p) (CSexp :: ctxr) lst fld ann ty0 v0 true
              (mkax (sym_rest wn S2p) tk false BTA (CSexp :: ctxr) false false lst fld ann TSymbol
                    (XSymbol (name_symbol_token lst (c :: r))))
              kk fuel Hw Hcr) with (x := x) as (x2 & Hi2 & Ha2 & E); auto.
  - change (zs (c :: r) ++ s) with (Z.of_N c :: zs r ++ s). cbn [shead]. rewrite Has.
    pose proof (runK_dispatch_op c r s k0 Hop Hno Hinf Hdig) as R.
    unfold s in R at 2. rewrite pks_zs_app in R. exact R.
  - right; right. split; [exact Htk|eauto].
  - apply rrun_rget_bind. intros y Hy Hay. xfields Hay. unfold sym_branch.
    assert (Hno' : is_operator_char (shead (zs wn ++ S2p)) = false).
    { unfold S2p. rewrite <- pks_zs_app, shead_pks. exact Hno. }
    eapply rrun_bind; [apply rrun_lift; cbn [a_s a_k a_u]; apply (runK_read_value_op tk (c :: r) (zs wn ++ S2p) _ _ Htk Hop Hnc Hno')|].
    unfold ax_tok. cbn [a_s a_k a_u a_state a_ctx a_eof a_err a_lst a_field a_annots a_type a_value].
    rewrite spush_app.
    eapply rrun_bind.
    { apply rrun_lift_run. cbn [a_s].
      apply (run_skip_double_colon_no wn (if nonempty wn then S2p else spush S2p) Hwn Hcrn).
      - destruct (nonempty wn); [|rewrite ws_stop_spush]; unfold S2p; now rewrite ws_stop_pks.
      - destruct (nonempty wn); [|rewrite dcolon_spush]; unfold S2p; now rewrite dcolon_pks. }
    cbv beta iota. unfold ax_tok. cbn [a_s a_k a_u a_state a_ctx a_eof a_err a_lst a_field a_annots a_type a_value].
    fold (sym_rest wn S2p).
    assert (Hsel : (tk =? tokenSymbol)%N = false /\ (tk =? tokenSymbolQuoted)%N = false)
      by (destruct Htk as [-> | ->]; split; reflexivity).
    destruct Hsel as [Hs1 Hs2']. rewrite Hs1, Hs2'. cbn [andb].
    unfold on_symbol. pose proof (op_not_keyword (c :: r) Hop) as Hkw. unfold is_keyword in Hkw.
    apply orb_false_iff in Hkw as [Hkw K4]. apply orb_false_iff in Hkw as [Hkw K3]. apply orb_false_iff in Hkw as [K1 K2].
    rewrite K1, K2, K3, K4.
    eapply rrun_bind.
    { apply rrun_rget_bind. intros z Hz Haz. xfields Haz. rewrite Flst0.
      eapply rrun_bind; [apply rrun_of_res; apply (op_symbol_token lst (c :: r) Hop)|]. apply rrun_set_value. }
    apply rrun_rget_bind. intros z Hz Haz. xfields Haz. rewrite Ftype0. tok_cbn. apply rrun_ret.
  - exists x2. rewrite E. xfields Ha2. rewrite Feof. auto.
Qed.
End Values.
