(* TextWriterP.v — lemmas about the text Writer model (Text/TextWriter.v).

   1. no step panics;
   2. stickiness: with w.err set a step returns false and changes nothing; a call other
      than Finish that returns false has recorded the error;
   3. the io.Writer only ever sees appended writes, and a run against a failing
      io.Writer is, write for write, the fault-free run up to the first failed write
      (simulation [rel]); hence the prefix property of C19 and "no failed write goes
      unreported".
   All for every [formats] and every call sequence (induction over the list). *)
From Coq Require Import String List NArith ZArith Bool Lia.
From IonV Require Import Base.Wire Data.Ion Num.Float Bin.BinWriter Text.TextOut Text.TextWriter.
Import ListNotations.
Open Scope N_scope.

Definition writes (w : twstate) : list chunk := sk_writes (tw_out w).
Definition prefix {A} (a b : list A) : Prop := exists t, b = a ++ t.

Lemma prefix_refl {A} (a : list A) : prefix a a.
Proof. exists []. now rewrite app_nil_r. Qed.
Lemma prefix_trans {A} (a b c : list A) : prefix a b -> prefix b c -> prefix a c.
Proof. intros [t ->] [u ->]. exists (t ++ u). now rewrite app_assoc. Qed.
Lemma prefix_app {A} (a t : list A) : prefix a (a ++ t).
Proof. now exists t. Qed.
Lemma prefix_concat {A} (a b : list (list A)) : prefix a b -> prefix (concat a) (concat b).
Proof. intros [t ->]. exists (concat t). apply concat_app. Qed.

(* ---- 1. no panic ------------------------------------------------------------------------ *)
Lemma text_null_ok (t : N) : t < 14 -> exists x, text_null t = Ok x.
Proof.
  intros H.
  assert (E : t = 0 \/ t = 1 \/ t = 2 \/ t = 3 \/ t = 4 \/ t = 5 \/ t = 6 \/ t = 7 \/ t = 8 \/ t = 9
              \/ t = 10 \/ t = 11 \/ t = 12 \/ t = 13) by lia.
  repeat (destruct E as [-> | E]; [eexists; reflexivity |]).
  subst. eexists; reflexivity.
Qed.

Lemma end_container_ok (w : twstate) (t c : N) : t <> 0 -> exists r, end_container w t c = Ok r.
Proof.
  intros Ht. unfold end_container.
  destruct (tw_err w); [eexists; reflexivity |].
  destruct (p_peek (tw_p w) =? t) eqn:E; cbn [negb]; [| eexists; reflexivity].
  apply N.eqb_eq in E. unfold p_peek in E.
  destruct (p_ctx (tw_p w)); [congruence | eexists; reflexivity].
Qed.

Lemma tw_step_ok (F : formats) (w : twstate) (c : wcall) : exists r, tw_step F w c = Ok r.
Proof.
  destruct c; cbn [tw_step];
    try (eexists; reflexivity);
    try (destruct (tw_err w); [eexists; reflexivity |]);
    try (apply end_container_ok; discriminate);
    try (eexists; reflexivity).
  - destruct (negb (p_in_struct (tw_p w))); eexists; reflexivity.
  - destruct (14 <=? t) eqn:E; [eexists; reflexivity |].
    apply N.leb_gt in E. destruct (text_null_ok t E) as [x ->]. eexists; reflexivity.
  - destruct z; eexists; reflexivity.
  - destruct d; eexists; reflexivity.
Qed.

Lemma tw_drive_ok (F : formats) (cs : list wcall) :
  forall w, exists w' rs, tw_drive F w cs = Ok (w', rs) /\ length rs = length cs.
Proof.
  induction cs as [| c r IH]; intros w; cbn [tw_drive].
  - now exists w, [].
  - destruct (tw_step_ok F w c) as [[w1 ok] ->]. cbn [bind].
    destruct (IH w1) as (w2 & rs & -> & L). cbn [bind].
    exists w2, (ok :: rs). split; [reflexivity | cbn; now rewrite L].
Qed.

(* ---- 2. stickiness ---------------------------------------------------------------------- *)
Lemma recorded_err (a : act) (w : twstate) : tw_err w = true -> recorded a w = (w, false).
Proof. intros H. unfold recorded. now rewrite H. Qed.

Lemma tw_sticky_step (F : formats) (w : twstate) (c : wcall) :
  tw_err w = true -> tw_step F w c = Ok (w, false).
Proof.
  intros H.
  destruct c; cbn [tw_step]; unfold write_value, write_value_act, begin_container, end_container, finish;
    rewrite ?recorded_err by exact H; rewrite ?H; try reflexivity.
  cbn [text_null nth_error N.to_nat text_nulls bind]. now rewrite recorded_err.
Qed.

Lemma tw_err_set_p (w : twstate) (p : pstate) : tw_err (set_p w p) = p_err p.
Proof. reflexivity. Qed.

Lemma recorded_false (a : act) (w w' : twstate) : recorded a w = (w', false) -> tw_err w' = true.
Proof.
  unfold recorded. destruct (tw_err w) eqn:E.
  - intros [= <-]. exact E.
  - destruct (a w) as [w1 ok]. intros [= <- ->]. reflexivity.
Qed.

Lemma tw_records_error (F : formats) (w w' : twstate) (c : wcall) :
  c <> CFinish -> tw_step F w c = Ok (w', false) -> tw_err w' = true.
Proof.
  intros Hc.
  destruct c; cbn [tw_step]; try congruence;
    unfold write_value, write_value_act, begin_container, end_container;
    try (destruct (tw_err w) eqn:E; [intros [= <-]; exact E |]);
    try (intros [= H]; apply recorded_false in H; exact H).
  - destruct (negb (p_in_struct (tw_p w))); [intros [= <-]; reflexivity | discriminate].
  - destruct (14 <=? t) eqn:E'; [intros [= <-]; reflexivity |].
    apply N.leb_gt in E'. destruct (text_null_ok t E') as [x ->]. cbn [bind].
    intros [= H]. apply recorded_false in H. exact H.
  - destruct z; [intros [= H]; apply recorded_false in H; exact H | intros [= <-]; reflexivity].
  - destruct d; [intros [= H]; apply recorded_false in H; exact H | intros [= <-]; reflexivity].
  - destruct (negb (p_peek (tw_p w) =? ctxList)); [intros [= <-]; reflexivity |].
    destruct (p_ctx (tw_p w)); [discriminate |]. intros [= H]. apply recorded_false in H. exact H.
  - destruct (negb (p_peek (tw_p w) =? ctxSexp)); [intros [= <-]; reflexivity |].
    destruct (p_ctx (tw_p w)); [discriminate |]. intros [= H]. apply recorded_false in H. exact H.
  - destruct (negb (p_peek (tw_p w) =? ctxStruct)); [intros [= <-]; reflexivity |].
    destruct (p_ctx (tw_p w)); [discriminate |]. intros [= H]. apply recorded_false in H. exact H.
Qed.

(* the oracle of the correspondence check, as a function: after a call other than Finish
   has returned false, every later result is false *)
Definition is_finish (c : wcall) : bool := match c with CFinish => true | _ => false end.
Fixpoint sticky_check (failed : bool) (cs : list wcall) (rs : list bool) : bool :=
  match cs, rs with
  | [], [] => true
  | c :: cs', r :: rs' =>
    (if failed then negb r else true) && sticky_check (failed || (negb r && negb (is_finish c))) cs' rs'
  | _, _ => false
  end.

Lemma tw_sticky_drive (F : formats) (cs : list wcall) :
  forall failed w w' rs, (failed = true -> tw_err w = true) ->
    tw_drive F w cs = Ok (w', rs) -> sticky_check failed cs rs = true.
Proof.
  induction cs as [| c r IH]; intros failed w w' rs Hf; cbn [tw_drive].
  - intros [= <- <-]. reflexivity.
  - destruct (tw_step F w c) as [[w1 ok] | | |] eqn:E; cbn [bind]; try discriminate.
    destruct (tw_drive F w1 r) as [[w2 oks] | | |] eqn:E2; cbn [bind]; try discriminate.
    intros [= <- <-]. cbn [sticky_check].
    apply andb_true_iff. split.
    + destruct failed; [| reflexivity].
      rewrite (tw_sticky_step F w c (Hf eq_refl)) in E. injection E as <- <-. reflexivity.
    + apply (IH _ w1 w2 oks); [| exact E2].
      intros H. apply orb_true_iff in H. destruct H as [H | H].
      * rewrite (tw_sticky_step F w c (Hf H)) in E. injection E as <- <-. exact (Hf H).
      * apply andb_true_iff in H. destruct H as [H1 H2].
        apply negb_true_iff in H1. subst ok.
        apply (tw_records_error F w w1 c); [| exact E].
        intros ->. discriminate.
Qed.

(* explicit form: positions i < j *)
Lemma sticky_check_nth (cs : list wcall) :
  forall failed rs, sticky_check failed cs rs = true ->
    (failed = true -> forall j, j < length rs -> nth j rs true = false)%nat /\
    (forall i j c, nth_error cs i = Some c -> c <> CFinish -> nth i rs true = false ->
                   i < j -> j < length rs -> nth j rs true = false)%nat.
Proof.
  induction cs as [| c r IH]; intros failed rs; destruct rs as [| x rs']; cbn [sticky_check]; try discriminate.
  - intros _. split; intros; cbn in *; lia.
  - intros H. apply andb_true_iff in H. destruct H as [H1 H2].
    destruct (IH _ _ H2) as [A B]. split.
    + intros -> j Hj. destruct j as [| j]; cbn [nth].
      * now apply negb_true_iff in H1.
      * apply A; [reflexivity | cbn in Hj; lia].
    + intros i j c0 Hi Hc Hr Hij Hj.
      destruct j as [| j]; [lia |]. cbn [nth]. cbn [length] in Hj.
      destruct i as [| i].
      * cbn in Hi, Hr. injection Hi as ->. subst x.
        apply A; [| lia].
        destruct c0; now destruct failed.
      * cbn in Hi, Hr. apply (B i j c0); try assumption; lia.
Qed.

(* ---- 3. the io.Writer sees appended writes only; simulation against a failing sink ------- *)
Definition rel (w1 w2 : twstate) : Prop :=
  tw_p w1 = tw_p w2 /\ writes w1 = writes w2 /\ sk_budget (tw_out w2) = None.

Definition good (a : act) : Prop :=
  (forall w w' ok, a w = (w', ok) -> prefix (writes w) (writes w')) /\
  (forall w1 w2, rel w1 w2 ->
     match a w1, a w2 with
     | (w1', true), (w2', ok2) => ok2 = true /\ rel w1' w2'
     | (w1', false), (w2', _) => prefix (writes w1') (writes w2')
     end).

Lemma good_ext (a b : act) : (forall w, a w = b w) -> good a -> good b.
Proof.
  intros E [A B]. split.
  - intros w w' ok. rewrite <- E. apply A.
  - intros w1 w2 R. rewrite <- !E. now apply B.
Qed.

Lemma good_ret_ok : good ret_ok.
Proof.
  split.
  - intros w w' ok [= <- <-]. apply prefix_refl.
  - intros w1 w2 R. cbn. now split.
Qed.

Lemma good_fail : good fail.
Proof.
  split.
  - intros w w' ok [= <- <-]. apply prefix_refl.
  - intros w1 w2 (_ & E & _). cbn. rewrite E. apply prefix_refl.
Qed.

Lemma good_upd (f : pstate -> pstate) : good (upd f).
Proof.
  split.
  - intros w w' ok [= <- <-]. apply prefix_refl.
  - intros w1 w2 (P & E & Bd). cbn. split; [reflexivity |].
    unfold rel, writes. cbn. rewrite P. now repeat split.
Qed.

Lemma good_on {A} (g : pstate -> A) (k : A -> act) : (forall x, good (k x)) -> good (on g k).
Proof.
  intros H. split.
  - intros w w' ok. unfold on. apply (H (g (tw_p w))).
  - intros w1 w2 R. unfold on. destruct R as (P & E & Bd). rewrite P.
    apply (H (g (tw_p w2))). now repeat split.
Qed.

Lemma good_andthen (a b : act) : good a -> good b -> good (a ;; b).
Proof.
  intros [A1 A2] [B1 B2]. split.
  - intros w w' ok. unfold andthen.
    destruct (a w) as [w1 ok1] eqn:E1. destruct ok1.
    + intros E2. eapply prefix_trans; [eapply A1; exact E1 | eapply B1; exact E2].
    + intros [= <- <-]. eapply A1; exact E1.
  - intros w1 w2 R. unfold andthen.
    specialize (A2 w1 w2 R).
    destruct (a w1) as [w1a ok1] eqn:E1. destruct (a w2) as [w2a ok2] eqn:E2.
    destruct ok1.
    + destruct A2 as [-> R']. apply B2. exact R'.
    + destruct ok2.
      * destruct (b w2a) as [w2b okb] eqn:E3.
        eapply prefix_trans; [exact A2 | eapply B1; exact E3].
      * exact A2.
Qed.

Lemma good_raw (c : chunk) : good (raw c).
Proof.
  split.
  - intros w w' ok. unfold raw, sink_write, writes.
    destruct (sk_budget (tw_out w)) as [[| n] |]; intros [= <- <-]; cbn;
      (apply prefix_app || apply prefix_refl).
  - intros w1 w2 (P & E & Bd). unfold raw, sink_write. rewrite Bd.
    unfold writes in E.
    destruct (sk_budget (tw_out w1)) as [[| n] |]; cbn.
    + unfold writes. cbn. rewrite E. apply prefix_app.
    + split; [reflexivity |]. unfold rel, writes. cbn. rewrite E. now repeat split.
    + split; [reflexivity |]. unfold rel, writes. cbn. rewrite E. now repeat split.
Qed.

Lemma raws_cons (c : chunk) (r : list chunk) (w : twstate) : raws (c :: r) w = (raw c ;; raws r) w.
Proof.
  unfold raws, andthen, raw. cbn [sink_write_all].
  destruct (sink_write (tw_out w) c) as [k ok]. destruct ok; reflexivity.
Qed.

Lemma good_raws (cs : list chunk) : good (raws cs).
Proof.
  induction cs as [| c r IH].
  - apply (good_ext ret_ok); [| apply good_ret_ok].
    intros w. unfold raws, ret_ok, set_out. cbn. now destruct w.
  - apply (good_ext (raw c ;; raws r)); [intros w; symmetry; apply raws_cons |].
    apply good_andthen; [apply good_raw | exact IH].
Qed.

Lemma good_sym_act (t : tok) : good (sym_act t).
Proof. unfold sym_act. destruct (write_symbol t); [apply good_raws | apply good_fail]. Qed.

Lemma good_annots_act (l : list tok) : good (annots_act l).
Proof.
  induction l as [| a r IH]; cbn [annots_act]; [apply good_ret_ok |].
  repeat apply good_andthen; auto using good_sym_act, good_raw.
Qed.

Ltac good_tac :=
  repeat first
    [ apply good_ret_ok | apply good_fail | apply good_upd | apply good_raw | apply good_raws
    | apply good_sym_act | apply good_annots_act
    | apply good_andthen
    | apply good_on; intros
    | match goal with
      | |- good (let '(_, _) := ?x in _) => destruct x
      | |- good (if ?b then _ else _) => destruct b
      | |- good (match ?x with _ => _ end) => destruct x
      end ].

Lemma good_write_separator : good write_separator.
Proof. unfold write_separator. good_tac. Qed.
Lemma good_write_indent : good write_indent.
Proof. unfold write_indent. good_tac. Qed.
Lemma good_write_field_name : good write_field_name.
Proof. unfold write_field_name. good_tac. Qed.
Lemma good_write_annotations : good write_annotations.
Proof. unfold write_annotations. good_tac. Qed.
Lemma good_begin_value : good begin_value.
Proof.
  unfold begin_value, lst_write_to.
  repeat first
    [ apply good_write_separator | apply good_write_indent | apply good_write_field_name
    | apply good_write_annotations | progress good_tac ].
Qed.
Lemma good_end_value : good end_value.
Proof. apply good_upd. Qed.
Lemma good_end_body (rest : list N) (c : N) : good (end_body rest c).
Proof.
  unfold end_body.
  repeat first [ apply good_write_indent | progress good_tac ].
Qed.

(* the step-level invariant *)
Definition srel (r1 r2 : tret) : Prop :=
  let '(w1, ok1) := r1 in
  let '(w2, ok2) := r2 in
  prefix (writes w1) (writes w2) /\
  ((ok1 = false /\ tw_err w1 = true) \/ (rel w1 w2 /\ ok1 = ok2)).

Lemma rel_prefix (w1 w2 : twstate) : rel w1 w2 -> prefix (writes w1) (writes w2).
Proof. intros (_ & E & _). rewrite E. apply prefix_refl. Qed.

Lemma rel_set_p (w1 w2 : twstate) (f : pstate -> pstate) :
  rel w1 w2 -> rel (set_p w1 (f (tw_p w1))) (set_p w2 (f (tw_p w2))).
Proof. intros (P & E & B). unfold rel, writes. cbn. rewrite P. now repeat split. Qed.

Lemma srel_same (w1 w2 : twstate) (ok : bool) : rel w1 w2 -> srel (w1, ok) (w2, ok).
Proof. intros R. split; [now apply rel_prefix | right; now split]. Qed.

Lemma srel_record_error (w1 w2 : twstate) : rel w1 w2 -> srel (record_error w1) (record_error w2).
Proof.
  intros R. unfold record_error. apply srel_same.
  apply (rel_set_p w1 w2 (fun p => p_set_err p true)). exact R.
Qed.

Lemma srel_recorded (a : act) (w1 w2 : twstate) : good a -> rel w1 w2 -> srel (recorded a w1) (recorded a w2).
Proof.
  intros [A B] R. unfold recorded, tw_err.
  destruct R as (P & E & Bd). rewrite P.
  destruct (p_err (tw_p w2)) eqn:Er.
  - apply srel_same. now repeat split.
  - specialize (B w1 w2 (conj P (conj E Bd))).
    destruct (a w1) as [w1' ok1]. destruct (a w2) as [w2' ok2].
    destruct ok1.
    + destruct B as [-> R']. cbn [negb]. apply srel_same.
      apply (rel_set_p w1' w2' (fun p => p_set_err p false)). exact R'.
    + split; [exact B | left; now split].
Qed.

Lemma srel_upd (f : pstate -> pstate) (w1 w2 : twstate) : rel w1 w2 -> srel (upd f w1) (upd f w2).
Proof. intros R. unfold upd. apply srel_same. now apply rel_set_p. Qed.

Lemma srel_finish (w1 w2 : twstate) : rel w1 w2 -> srel (finish w1) (finish w2).
Proof.
  intros R. unfold finish, tw_err.
  pose proof R as (P & E & Bd). rewrite P.
  destruct (p_err (tw_p w2)); [now apply srel_same |].
  destruct (negb (p_peek (tw_p w2) =? 0)); [now apply srel_same |].
  destruct (negb (p_empty_stream (tw_p w2)) && negb (p_quiet (tw_p w2))); [| now apply srel_upd].
  destruct (good_raw [10]) as [_ B]. specialize (B w1 w2 R).
  destruct (raw [10] w1) as [w1' ok1]. destruct (raw [10] w2) as [w2' ok2].
  destruct ok1.
  - destruct B as [-> R']. cbn [negb]. now apply srel_upd.
  - destruct ok2; cbn [negb]; unfold record_error, upd; (split; [exact B | left; now split]).
Qed.

Definition sres (r1 r2 : res tret) : Prop :=
  match r1, r2 with
  | Ok a, Ok b => srel a b
  | _, _ => False
  end.

Lemma sres_end_container (w1 w2 : twstate) (t c : N) :
  t <> 0 -> rel w1 w2 -> sres (end_container w1 t c) (end_container w2 t c).
Proof.
  intros Ht R. unfold end_container, tw_err.
  pose proof R as (P & E & Bd). rewrite P.
  destruct (p_err (tw_p w2)); [now apply srel_same |].
  destruct (p_peek (tw_p w2) =? t) eqn:Ep; cbn [negb]; [| now apply srel_record_error].
  apply N.eqb_eq in Ep. unfold p_peek in Ep.
  destruct (p_ctx (tw_p w2)); [congruence |].
  apply srel_recorded; [apply good_end_body | exact R].
Qed.

Lemma good_value_body (cs : list chunk) : good (begin_value ;; raws cs ;; end_value).
Proof. repeat apply good_andthen; auto using good_begin_value, good_raws, good_end_value. Qed.

Lemma tw_step_sim (F : formats) (c : wcall) (w1 w2 : twstate) :
  rel w1 w2 -> sres (tw_step F w1 c) (tw_step F w2 c).
Proof.
  intros R. pose proof R as (P & E & Bd).
  destruct c; cbn [tw_step]; unfold tw_err; rewrite ?P;
    unfold write_value, write_value_act, begin_container;
    try (apply srel_recorded; [| exact R]; try apply good_value_body);
    try (apply sres_end_container; [discriminate | exact R]).
  - destruct (p_err (tw_p w2)); [now apply srel_same |].
    destruct (negb (p_in_struct (tw_p w2))); [now apply srel_record_error | now apply srel_upd].
  - destruct (p_err (tw_p w2)); [now apply srel_same | now apply srel_upd].
  - destruct (p_err (tw_p w2)); [now apply srel_same | now apply srel_upd].
  - destruct (p_err (tw_p w2)); [now apply srel_same |].
    destruct (14 <=? t) eqn:E'; [now apply srel_record_error |].
    apply N.leb_gt in E'. destruct (text_null_ok t E') as [x ->]. cbn [bind sres].
    apply srel_recorded; [apply good_value_body | exact R].
  - destruct (p_err (tw_p w2)); [now apply srel_same |].
    destruct z; [| now apply srel_record_error].
    apply srel_recorded; [apply good_value_body | exact R].
  - destruct (p_err (tw_p w2)); [now apply srel_same |].
    destruct d; [| now apply srel_record_error].
    apply srel_recorded; [apply good_value_body | exact R].
  - repeat apply good_andthen; auto using good_begin_value, good_sym_act, good_end_value.
  - repeat apply good_andthen; auto using good_begin_value, good_upd, good_raw.
  - repeat apply good_andthen; auto using good_begin_value, good_upd, good_raw.
  - repeat apply good_andthen; auto using good_begin_value, good_upd, good_raw.
  - now apply srel_finish.
Qed.

(* every step only appends writes *)
Lemma recorded_appends (a : act) (w w' : twstate) (ok : bool) :
  good a -> recorded a w = (w', ok) -> prefix (writes w) (writes w').
Proof.
  intros [A _]. unfold recorded. destruct (tw_err w).
  - intros [= <- <-]. apply prefix_refl.
  - destruct (a w) as [w1 ok1] eqn:E. intros [= <- <-]. apply (A _ _ _ E).
Qed.

Lemma tw_step_appends (F : formats) (c : wcall) (w w' : twstate) (ok : bool) :
  tw_step F w c = Ok (w', ok) -> prefix (writes w) (writes w').
Proof.
  assert (RE : forall w0 : twstate, prefix (writes w0) (writes (fst (record_error w0))))
    by (intros; apply prefix_refl).
  assert (EC : forall t ch, end_container w t ch = Ok (w', ok) -> prefix (writes w) (writes w')).
  { intros t ch. unfold end_container.
    destruct (tw_err w); [intros [= <- <-]; apply prefix_refl |].
    destruct (negb (p_peek (tw_p w) =? t)); [intros [= <- <-]; apply prefix_refl |].
    destruct (p_ctx (tw_p w)); [discriminate |].
    intros [= H]. eapply recorded_appends; [apply good_end_body | exact H]. }
  destruct c; cbn [tw_step]; unfold write_value, write_value_act, begin_container;
    try (apply EC);
    try (destruct (tw_err w) eqn:Ew; [intros [= <- <-]; apply prefix_refl |]);
    try (intros [= H]; eapply recorded_appends; [| exact H]; try apply good_value_body).
  - destruct (negb (p_in_struct (tw_p w))); intros [= <- <-]; apply prefix_refl.
  - intros [= <- <-]; apply prefix_refl.
  - intros [= <- <-]; apply prefix_refl.
  - destruct (14 <=? t) eqn:E'; [intros [= <- <-]; apply prefix_refl |].
    apply N.leb_gt in E'. destruct (text_null_ok t E') as [x ->]. cbn [bind].
    intros [= H]. eapply recorded_appends; [apply good_value_body | exact H].
  - destruct z; [| intros [= <- <-]; apply prefix_refl].
    intros [= H]. eapply recorded_appends; [apply good_value_body | exact H].
  - destruct d; [| intros [= <- <-]; apply prefix_refl].
    intros [= H]. eapply recorded_appends; [apply good_value_body | exact H].
  - repeat apply good_andthen; auto using good_begin_value, good_sym_act, good_end_value.
  - repeat apply good_andthen; auto using good_begin_value, good_upd, good_raw.
  - repeat apply good_andthen; auto using good_begin_value, good_upd, good_raw.
  - repeat apply good_andthen; auto using good_begin_value, good_upd, good_raw.
  - unfold finish. destruct (tw_err w); [intros [= <- <-]; apply prefix_refl |].
    destruct (negb (p_peek (tw_p w) =? 0)); [intros [= <- <-]; apply prefix_refl |].
    destruct (negb (p_empty_stream (tw_p w)) && negb (p_quiet (tw_p w))); [| intros [= <- <-]; apply prefix_refl].
    destruct (good_raw [10]) as [A _].
    destruct (raw [10] w) as [w1 ok1] eqn:E1. specialize (A _ _ _ E1).
    destruct ok1; cbn [negb]; intros [= <- <-]; exact A.
Qed.

Lemma tw_drive_appends (F : formats) (cs : list wcall) :
  forall w w' rs, tw_drive F w cs = Ok (w', rs) -> prefix (writes w) (writes w').
Proof.
  induction cs as [| c r IH]; intros w w' rs; cbn [tw_drive].
  - intros [= <- <-]. apply prefix_refl.
  - destruct (tw_step F w c) as [[w1 ok] | | |] eqn:E; cbn [bind]; try discriminate.
    destruct (tw_drive F w1 r) as [[w2 oks] | | |] eqn:E2; cbn [bind]; try discriminate.
    intros [= <- <-]. eapply prefix_trans; [eapply tw_step_appends; exact E | eapply IH; exact E2].
Qed.

(* once the error is recorded the sink is frozen and all results are false *)
Lemma tw_drive_err (F : formats) (cs : list wcall) :
  forall w w' rs, tw_err w = true -> tw_drive F w cs = Ok (w', rs) ->
                  w' = w /\ forallb negb rs = true.
Proof.
  induction cs as [| c r IH]; intros w w' rs He; cbn [tw_drive].
  - intros [= <- <-]. now split.
  - rewrite (tw_sticky_step F w c He). cbn [bind].
    destruct (tw_drive F w r) as [[w2 oks] | | |] eqn:E2; cbn [bind]; try discriminate.
    intros [= <- <-]. destruct (IH _ _ _ He E2) as [-> Hr]. split; [reflexivity | cbn; exact Hr].
Qed.

(* the simulation lifted to call sequences *)
Lemma tw_drive_sim (F : formats) (cs : list wcall) :
  forall w1 w2 w1' rs1 w2' rs2, rel w1 w2 ->
    tw_drive F w1 cs = Ok (w1', rs1) -> tw_drive F w2 cs = Ok (w2', rs2) ->
    prefix (writes w1') (writes w2') /\
    (forallb (fun b => b) rs1 = true -> rel w1' w2' /\ rs1 = rs2) /\
    (forall i, nth i rs1 false = true -> nth i rs2 false = true).
Proof.
  induction cs as [| c r IH]; intros w1 w2 w1' rs1 w2' rs2 R; cbn [tw_drive].
  - intros [= <- <-] [= <- <-]. split; [now apply rel_prefix |]. split; [now split | auto].
  - pose proof (tw_step_sim F c w1 w2 R) as S.
    destruct (tw_step F w1 c) as [[w1a ok1] | | |] eqn:E1; cbn [bind]; try discriminate.
    destruct (tw_step F w2 c) as [[w2a ok2] | | |] eqn:E2; cbn [bind]; try (now destruct S).
    destruct (tw_drive F w1a r) as [[w1b oks1] | | |] eqn:D1; cbn [bind]; try discriminate.
    destruct (tw_drive F w2a r) as [[w2b oks2] | | |] eqn:D2; cbn [bind]; try discriminate.
    intros [= <- <-] [= <- <-].
    cbn [sres srel] in S. destruct S as [Pf [[-> Er] | [R' <-]]].
    + (* the faulty run has recorded an error: it is frozen *)
      destruct (tw_drive_err F r _ _ _ Er D1) as [-> Hr].
      split; [eapply prefix_trans; [exact Pf | eapply tw_drive_appends; exact D2] |].
      split; [cbn; discriminate |].
      intros [| i]; cbn [nth]; [discriminate |].
      intros H. exfalso. clear -Hr H. revert i H.
      induction oks1 as [| x l IHl]; intros i H; [destruct i; discriminate |].
      cbn in Hr. apply andb_true_iff in Hr. destruct Hr as [Hx Hl].
      destruct i; cbn in H; [subst x; discriminate | eapply IHl; eauto].
    + destruct (IH _ _ _ _ _ _ R' D1 D2) as (A & B & C).
      split; [exact A |]. split.
      * cbn [forallb]. intros H. apply andb_true_iff in H. destruct H as [-> H].
        destruct (B H) as [Rb ->]. now split.
      * intros [| i]; cbn [nth]; [auto | apply C].
Qed.

Lemma rel_new (k : option nat) (pretty quiet : bool) :
  rel (new_text_writer k pretty quiet) (new_text_writer None pretty quiet).
Proof. now repeat split. Qed.

(* ---- 4. spelling lemmas about TextOut -------------------------------------------------------- *)
(* an identifier-shaped symbol that is not a keyword is written as itself, in one write *)
Lemma write_symbol_from_string_unquoted (x : text) :
  symbol_needs_quoting x = false -> write_symbol_from_string x = [x].
Proof. intros H. unfold write_symbol_from_string. now rewrite H. Qed.

(* everything else is written between single quotes *)
Lemma write_symbol_from_string_quoted (x : text) :
  symbol_needs_quoting x = true ->
  concat (write_symbol_from_string x) = [39] ++ concat (escaped_symbol x) ++ [39].
Proof.
  intros H. unfold write_symbol_from_string. rewrite H.
  cbn [app concat]. rewrite concat_app. cbn [concat app]. reflexivity.
Qed.

(* ---- 5. the statements used by Props/C12text.v ----------------------------------------------- *)
Lemma tw_sticky_seq_l (F : formats) (w w' : twstate) (cs : list wcall) (rs : list bool) :
  tw_drive F w cs = Ok (w', rs) ->
  forall i j c, nth_error cs i = Some c -> c <> CFinish -> nth i rs true = false ->
                (i < j)%nat -> (j < length rs)%nat -> nth j rs true = false.
Proof.
  intros D.
  assert (H : sticky_check false cs rs = true)
    by (apply (tw_sticky_drive F cs false w w' rs); [discriminate | exact D]).
  exact (proj2 (sticky_check_nth cs false rs H)).
Qed.

Lemma sink_bytes_prefix (w1 w2 : twstate) :
  prefix (writes w1) (writes w2) -> prefix (sink_bytes (tw_out w1)) (sink_bytes (tw_out w2)).
Proof. apply prefix_concat. Qed.

Lemma tw_prefix_l (F : formats) (pretty quiet : bool) (k : option nat) (cs : list wcall)
      (w1 w2 : twstate) (rs1 rs2 : list bool) :
  tw_drive F (new_text_writer k pretty quiet) cs = Ok (w1, rs1) ->
  tw_drive F (new_text_writer None pretty quiet) cs = Ok (w2, rs2) ->
  prefix (sink_bytes (tw_out w1)) (sink_bytes (tw_out w2)).
Proof.
  intros D1 D2. apply sink_bytes_prefix.
  exact (proj1 (tw_drive_sim F cs _ _ _ _ _ _ (rel_new k pretty quiet) D1 D2)).
Qed.

Lemma tw_fault_reported_l (F : formats) (pretty quiet : bool) (k : option nat) (cs : list wcall)
      (w1 w2 : twstate) (rs1 rs2 : list bool) :
  tw_drive F (new_text_writer k pretty quiet) cs = Ok (w1, rs1) ->
  tw_drive F (new_text_writer None pretty quiet) cs = Ok (w2, rs2) ->
  forallb (fun b => b) rs1 = true ->
  sink_bytes (tw_out w1) = sink_bytes (tw_out w2) /\ writes w1 = writes w2 /\ rs1 = rs2.
Proof.
  intros D1 D2 H.
  destruct (proj1 (proj2 (tw_drive_sim F cs _ _ _ _ _ _ (rel_new k pretty quiet) D1 D2)) H)
    as [(_ & E & _) ->].
  unfold sink_bytes. unfold writes in E. rewrite E. now repeat split.
Qed.

Lemma tw_fault_results_l (F : formats) (pretty quiet : bool) (k : option nat) (cs : list wcall)
      (w1 w2 : twstate) (rs1 rs2 : list bool) :
  tw_drive F (new_text_writer k pretty quiet) cs = Ok (w1, rs1) ->
  tw_drive F (new_text_writer None pretty quiet) cs = Ok (w2, rs2) ->
  forall i, nth i rs1 false = true -> nth i rs2 false = true.
Proof.
  intros D1 D2.
  exact (proj2 (proj2 (tw_drive_sim F cs _ _ _ _ _ _ (rel_new k pretty quiet) D1 D2))).
Qed.

(* ---- 6. escapes: what is written reads back, under the specification's rules, as what was given -- *)
Lemma hexval_upper (d : N) : d < 16 -> hexval (hex_char_upper d) = Some d.
Proof.
  intros H.
  assert (E : d = 0 \/ d = 1 \/ d = 2 \/ d = 3 \/ d = 4 \/ d = 5 \/ d = 6 \/ d = 7 \/ d = 8 \/ d = 9
              \/ d = 10 \/ d = 11 \/ d = 12 \/ d = 13 \/ d = 14 \/ d = 15) by lia.
  repeat (destruct E as [-> | E]; [reflexivity |]). subst. reflexivity.
Qed.

(* one escaped character in front of anything *)
Lemma unescape_escaped_char (lob : bool) (q c : N) (rest : list N) :
  c < 256 -> (lob = true \/ c < 128) ->
  unescape lob q (escaped_char c ++ rest) = option_map (cons c) (unescape lob q rest).
Proof.
  intros Hc Hl. unfold escaped_char.
  repeat match goal with
         | |- context [if ?x =? ?k then _ else _] =>
           let E := fresh "E" in
           destruct (x =? k) eqn:E; [apply N.eqb_eq in E; subst; reflexivity | apply N.eqb_neq in E]
         end.
  cbn [app unescape]. cbn [N.eqb Pos.eqb].
  assert (H1 : (c / 16) mod 16 < 16) by (apply N.mod_lt; discriminate).
  assert (H2 : c mod 16 < 16) by (apply N.mod_lt; discriminate).
  rewrite (hexval_upper _ H1), (hexval_upper _ H2).
  assert (V : (c / 16) mod 16 * 16 + c mod 16 = c).
  { assert (c / 16 < 16) by (apply N.div_lt_upper_bound; lia).
    rewrite (N.mod_small (c / 16) 16) by assumption.
    rewrite N.mul_comm. symmetry. apply N.div_mod. discriminate. }
  rewrite V.
  destruct Hl as [-> | Hl]; [reflexivity |].
  apply N.ltb_lt in Hl. rewrite Hl. now rewrite orb_true_r.
Qed.

Lemma unescape_raw (lob : bool) (q c : N) (rest : list N) :
  c <> 92 -> c <> q -> 32 <= c -> (lob = false \/ c <= 127) ->
  unescape lob q (c :: rest) = option_map (cons c) (unescape lob q rest).
Proof.
  intros H1 H2 H3 H4. cbn [unescape].
  apply N.eqb_neq in H1. rewrite H1. apply N.eqb_neq in H2. rewrite H2.
  assert (E : c <? 32 = false) by (apply N.ltb_ge; exact H3). rewrite E.
  destruct H4 as [-> | H4]; [reflexivity |].
  assert (E2 : 127 <? c = false) by (apply N.ltb_ge; exact H4). rewrite E2.
  now rewrite andb_false_r.
Qed.

Lemma escaped_string_reads_back (x : text) :
  Forall (fun c => c < 256) x -> unescape false 34 (concat (escaped_string x)) = Some x.
Proof.
  induction 1 as [| c r Hc Hr IH]; [reflexivity |].
  unfold escaped_string in *. cbn [map concat]. unfold esc_string_char at 1.
  destruct ((c <? 32) || (c =? 92) || (c =? 34)) eqn:E.
  - rewrite unescape_escaped_char; [now rewrite IH | exact Hc |].
    right. apply orb_true_iff in E. destruct E as [E | E].
    + apply orb_true_iff in E. destruct E as [E | E]; [apply N.ltb_lt in E; lia | apply N.eqb_eq in E; lia].
    + apply N.eqb_eq in E; lia.
  - apply orb_false_iff in E. destruct E as [E E3]. apply orb_false_iff in E. destruct E as [E1 E2].
    apply N.ltb_ge in E1. apply N.eqb_neq in E2. apply N.eqb_neq in E3.
    cbn [app]. rewrite unescape_raw; auto. now rewrite IH.
Qed.

Lemma escaped_symbol_reads_back (x : text) :
  Forall (fun c => c < 256) x -> unescape false 39 (concat (escaped_symbol x)) = Some x.
Proof.
  induction 1 as [| c r Hc Hr IH]; [reflexivity |].
  unfold escaped_symbol in *. cbn [map concat]. unfold esc_symbol_char at 1.
  destruct ((c <? 32) || (c =? 92) || (c =? 39)) eqn:E.
  - rewrite unescape_escaped_char; [now rewrite IH | exact Hc |].
    right. apply orb_true_iff in E. destruct E as [E | E].
    + apply orb_true_iff in E. destruct E as [E | E]; [apply N.ltb_lt in E; lia | apply N.eqb_eq in E; lia].
    + apply N.eqb_eq in E; lia.
  - apply orb_false_iff in E. destruct E as [E E3]. apply orb_false_iff in E. destruct E as [E1 E2].
    apply N.ltb_ge in E1. apply N.eqb_neq in E2. apply N.eqb_neq in E3.
    cbn [app]. rewrite unescape_raw; auto. now rewrite IH.
Qed.

Lemma escaped_clob_reads_back (x : list N) :
  Forall (fun c => c < 256) x -> unescape true 34 (concat (escaped_clob x)) = Some x.
Proof.
  induction 1 as [| c r Hc Hr IH]; [reflexivity |].
  unfold escaped_clob in *. cbn [map concat]. unfold esc_clob_char at 1.
  destruct ((c <? 32) || (c =? 92) || (c =? 34) || (127 <? c)) eqn:E.
  - rewrite unescape_escaped_char; [now rewrite IH | exact Hc | now left].
  - apply orb_false_iff in E. destruct E as [E E4]. apply orb_false_iff in E. destruct E as [E E3].
    apply orb_false_iff in E. destruct E as [E1 E2].
    apply N.ltb_ge in E1. apply N.eqb_neq in E2. apply N.eqb_neq in E3. apply N.ltb_ge in E4.
    cbn [app]. rewrite unescape_raw; auto. now rewrite IH.
Qed.

(* a symbol written bare is an identifier and not a keyword *)
Lemma bare_symbol_is_identifier (x : text) :
  symbol_needs_quoting x = false ->
  existsb (list_eqb x) keywords = false /\
  exists c r, x = c :: r /\ is_identifier_start c = true /\ forallb is_identifier_part r = true.
Proof.
  unfold symbol_needs_quoting.
  destruct (existsb (list_eqb x) keywords); [discriminate |].
  destruct x as [| c r]; [discriminate |].
  intros H. apply orb_false_iff in H. destruct H as [H _].
  apply orb_false_iff in H. destruct H as [H _].
  apply orb_false_iff in H. destruct H as [H1 H2].
  apply negb_false_iff in H1. apply negb_false_iff in H2.
  split; [reflexivity |]. now exists c, r.
Qed.
