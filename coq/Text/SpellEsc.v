(* SpellEsc.v — C02, stage 2: escape sequences.

   [esc_spells e cp]: the bytes [e] that follow a backslash spell the code point [cp]
   (Ion 1.0 text, "Escape Characters"): the thirteen one-character escapes, \xHH,
   \uHHHH naming a non-surrogate, a \uHHHH\uHHHH surrogate pair, \UHHHHHHHH naming a
   Unicode scalar value.  Hex digits of either case; their value is [hex_acc], a fold of
   Base.Wire.hexval.  [esc_spells_clob]: the escapes of clob text (one character, \xHH).
   Both are written from the specification, independently of the tokenizer.

   Theorems: readEscapedChar answers exactly the code point and consumes exactly the
   escape; processBackslashInString appends its UTF-8 encoding (which is the
   specification's [SpecText.utf8_enc]), processBackslashInClob the byte; a backslash
   followed by a newline appends nothing.  The specification decoder [SpecText.p_escape]
   agrees on every spelling. *)
From Coq Require Import String List NArith ZArith Bool Lia ZifyBool ZifyN ZifyNat.
From IonV Require Import Base.Wire Base.Utf8 Text.Tokenizer Text.Skipper Text.SpellBase.
From IonV Require Text.SpecText.
Import ListNotations.
Open Scope Z_scope.

(* ---- hex digits --------------------------------------------------------------------------------------- *)
Fixpoint hex_acc (acc : N) (l : list N) : option N :=
  match l with
  | [] => Some acc
  | c :: r => match hexval c with Some d => hex_acc (acc * 16 + d) r | None => None end
  end.
(* [l] is [k] hex digits with value [v] *)
Definition hex_digits (k : nat) (l : list N) (v : N) : Prop := length l = k /\ hex_acc 0 l = Some v.

Lemma hexval_lt c d : hexval c = Some d -> (d < 16)%N.
Proof.
  unfold hexval. intros H.
  destruct ((48 <=? c)%N && (c <=? 57)%N) eqn:E1; [injection H as <-; lia|].
  destruct ((97 <=? c)%N && (c <=? 102)%N) eqn:E2; [injection H as <-; lia|].
  destruct ((65 <=? c)%N && (c <=? 70)%N) eqn:E3; [injection H as <-; lia|discriminate].
Qed.
Lemma hexval_no_cr c d : hexval c = Some d -> c <> 13%N.
Proof. intros H ->. discriminate H. Qed.
Lemma from_hex_hexval c d : hexval c = Some d -> from_hex (Z.of_N c) = Some (Z.of_N d).
Proof.
  unfold hexval, from_hex. intros H.
  destruct ((48 <=? c)%N && (c <=? 57)%N) eqn:E1.
  { injection H as <-. replace ((48 <=? Z.of_N c) && (Z.of_N c <=? 57)) with true by lia. f_equal. lia. }
  replace ((48 <=? Z.of_N c) && (Z.of_N c <=? 57)) with false by lia.
  destruct ((97 <=? c)%N && (c <=? 102)%N) eqn:E2.
  { injection H as <-. replace ((97 <=? Z.of_N c) && (Z.of_N c <=? 102)) with true by lia. f_equal. lia. }
  replace ((97 <=? Z.of_N c) && (Z.of_N c <=? 102)) with false by lia.
  destruct ((65 <=? c)%N && (c <=? 70)%N) eqn:E3; [|discriminate].
  injection H as <-. replace ((65 <=? Z.of_N c) && (Z.of_N c <=? 70)) with true by lia. f_equal. lia.
Qed.
Lemma hex_acc_le : forall l acc v, hex_acc acc l = Some v -> (acc <= v)%N.
Proof.
  induction l as [|c l IH]; intros acc v H; cbn [hex_acc] in H.
  - injection H as <-. lia.
  - destruct (hexval c) as [d|]; [|discriminate]. apply IH in H. lia.
Qed.
Lemma hex_acc_lt : forall l acc v, hex_acc acc l = Some v -> (v < (acc + 1) * 16 ^ N.of_nat (length l))%N.
Proof.
  induction l as [|c l IH]; intros acc v H; cbn [hex_acc length] in *.
  - injection H as <-. cbn. lia.
  - destruct (hexval c) as [d|] eqn:Ed; [|discriminate]. apply IH in H. apply hexval_lt in Ed.
    rewrite Nat2N.inj_succ, N.pow_succ_r'. nia.
Qed.
Lemma hex_acc_no_cr : forall l acc v, hex_acc acc l = Some v -> no_cr l.
Proof.
  induction l as [|c l IH]; intros acc v H; cbn [hex_acc] in H; [constructor|].
  destruct (hexval c) as [d|] eqn:Ed; [|discriminate]. constructor; [eapply hexval_no_cr; exact Ed|eapply IH; exact H].
Qed.
Lemma hex_digits_lt k l v : hex_digits k l v -> (v < 16 ^ N.of_nat k)%N.
Proof. intros [Hl Hv]. apply hex_acc_lt in Hv. rewrite Hl in Hv. lia. Qed.
Lemma hex_digits_no_cr k l v : hex_digits k l v -> no_cr l.
Proof. intros [_ Hv]. eapply hex_acc_no_cr; exact Hv. Qed.

(* readHexEscapeSeq *)
Lemma run_hex_acc : forall h acc v s,
  hex_acc acc h = Some v -> (v < 4294967296)%N ->
  run (read_hex_escape_seq (length h) (Z.of_N acc)) (zs h ++ s) (Z.of_N v) s.
Proof.
  induction h as [|c h IH]; intros acc v s Hh Hv; cbn [hex_acc length read_hex_escape_seq zs map app] in *.
  - injection Hh as <-. apply run_ret.
  - destruct (hexval c) as [d|] eqn:Ed; [|discriminate].
    eapply run_bind; [apply run_read_cons|]. rewrite (from_hex_hexval c d Ed).
    pose proof (hex_acc_le _ _ _ Hh) as Hle.
    replace ((Z.of_N acc * 16 + Z.of_N d) mod 4294967296) with (Z.of_N (acc * 16 + d))
      by (rewrite Z.mod_small; lia).
    apply IH; auto.
Qed.
Lemma run_hex_digits k h v s :
  hex_digits k h v -> (k <= 8)%nat ->
  run (read_hex_escape_seq k 0) (zs h ++ s) (Z.of_N v) s.
Proof.
  intros Hd Hk. pose proof (hex_digits_lt _ _ _ Hd) as Hlt. destruct Hd as [Hl Hv]. subst k.
  apply (run_hex_acc h 0%N v s Hv).
  assert (H16 : (16 ^ N.of_nat (length h) <= 16 ^ 8)%N) by (apply N.pow_le_mono_r; lia).
  change (16 ^ 8)%N with 4294967296%N in H16. lia.
Qed.

(* ---- the relation ------------------------------------------------------------------------------------------ *)
(* the one-character escapes: 0 a b t n f r v, double quote, quote, ? backslash and slash *)
Definition esc_table : list (N * Z) :=
  [(48%N, 0); (97%N, 7); (98%N, 8); (116%N, 9); (110%N, 10); (102%N, 12); (114%N, 13); (118%N, 11);
   (34%N, 34); (39%N, 39); (63%N, 63); (92%N, 92); (47%N, 47)].
Definition surrogate (v : N) : Prop := (55296 <= v <= 57343)%N.

Inductive esc_spells : list N -> Z -> Prop :=
| es_one c cp : In (c, cp) esc_table -> esc_spells [c] cp
| es_x h v : hex_digits 2 h v -> esc_spells (120%N :: h) (Z.of_N v)
| es_u h v : hex_digits 4 h v -> ~ surrogate v -> esc_spells (117%N :: h) (Z.of_N v)
| es_pair h1 hi h2 lo :
    hex_digits 4 h1 hi -> (55296 <= hi <= 56319)%N ->
    hex_digits 4 h2 lo -> (56320 <= lo <= 57343)%N ->
    esc_spells (117%N :: h1 ++ 92%N :: 117%N :: h2) (65536 + (Z.of_N hi - 55296) * 1024 + (Z.of_N lo - 56320))
| es_U h v : hex_digits 8 h v -> (v <= 1114111)%N -> ~ surrogate v -> esc_spells (85%N :: h) (Z.of_N v).

Inductive esc_spells_clob : list N -> Z -> Prop :=
| esc_one c cp : In (c, cp) esc_table -> esc_spells_clob [c] cp
| esc_x h v : hex_digits 2 h v -> esc_spells_clob (120%N :: h) (Z.of_N v).

Lemma esc_clob_text e cp : esc_spells_clob e cp -> esc_spells e cp.
Proof. destruct 1; [apply es_one|apply es_x]; assumption. Qed.

(* a Unicode scalar value *)
Definition scalar (cp : Z) : Prop := 0 <= cp <= 1114111 /\ ~ (55296 <= cp <= 57343).
Lemma esc_table_small c cp : In (c, cp) esc_table -> 0 <= cp <= 127 /\ c <> 10%N /\ c <> 13%N.
Proof.
  unfold esc_table. cbn [In]. intros H.
  repeat (destruct H as [H|H]; [injection H as <- <-; lia|]). contradiction.
Qed.
Lemma esc_spells_scalar e cp : esc_spells e cp -> scalar cp.
Proof.
  unfold scalar.
  destruct 1 as [c cp Hc|h v Hh|h v Hh Hs|h1 hi h2 lo Hh1 Hhi Hh2 Hlo|h v Hh Hv Hs]; unfold surrogate in *.
  - apply esc_table_small in Hc. lia.
  - apply hex_digits_lt in Hh. change (16 ^ N.of_nat 2)%N with 256%N in Hh. lia.
  - apply hex_digits_lt in Hh. change (16 ^ N.of_nat 4)%N with 65536%N in Hh. lia.
  - lia.
  - lia.
Qed.
Lemma esc_clob_byte e cp : esc_spells_clob e cp -> 0 <= cp <= 255.
Proof.
  destruct 1 as [c cp Hc|h v Hh].
  - apply esc_table_small in Hc. lia.
  - apply hex_digits_lt in Hh. change (16 ^ N.of_nat 2)%N with 256%N in Hh. lia.
Qed.
(* an escape is not empty, does not begin with a newline and contains no CR *)
Lemma esc_spells_hd e cp : esc_spells e cp -> exists c r, e = c :: r /\ c <> 10%N.
Proof.
  destruct 1 as [c cp Hc|h v Hh|h v Hh Hs|h1 hi h2 lo Hh1 Hhi Hh2 Hlo|h v Hh Hv Hs];
    try (eexists; eexists; split; [reflexivity|discriminate]).
  apply esc_table_small in Hc. exists c, []. split; [reflexivity|lia].
Qed.
Lemma esc_spells_no_cr e cp : esc_spells e cp -> no_cr e.
Proof.
  destruct 1 as [c cp Hc|h v Hh|h v Hh Hs|h1 hi h2 lo Hh1 Hhi Hh2 Hlo|h v Hh Hv Hs].
  - apply esc_table_small in Hc. constructor; [lia|constructor].
  - constructor; [discriminate|eapply hex_digits_no_cr; exact Hh].
  - constructor; [discriminate|eapply hex_digits_no_cr; exact Hh].
  - constructor; [discriminate|]. apply no_cr_app. split; [eapply hex_digits_no_cr; exact Hh1|].
    constructor; [discriminate|]. constructor; [discriminate|eapply hex_digits_no_cr; exact Hh2].
  - constructor; [discriminate|eapply hex_digits_no_cr; exact Hh].
Qed.
Lemma esc_spells_nonempty e cp : esc_spells e cp -> (0 < length e)%nat.
Proof. intros H. destruct (esc_spells_hd e cp H) as (c & r & -> & _). cbn [length]. lia. Qed.

(* ---- readEscapedChar ------------------------------------------------------------------------------------------ *)
Lemma simple_escape_table c cp : In (c, cp) esc_table -> simple_escape (Z.of_N c) = Some cp.
Proof.
  unfold esc_table. cbn [In]. intros H.
  repeat (destruct H as [H|H]; [injection H as <- <-; reflexivity|]). contradiction.
Qed.

Lemma run_read_escaped_one k c cp s :
  In (c, cp) esc_table -> run (read_escaped_char k) (zs [c] ++ s) cp s.
Proof.
  intros Hc. unfold read_escaped_char. cbn [zs map app].
  eapply run_bind; [apply run_read_cons|]. rewrite (simple_escape_table c cp Hc). apply run_ret.
Qed.
Lemma run_read_escaped_x k h v s :
  hex_digits 2 h v -> run (read_escaped_char k) (zs (120%N :: h) ++ s) (Z.of_N v) s.
Proof.
  intros Hh. unfold read_escaped_char. cbn [zs map app].
  eapply run_bind; [apply run_read_cons|]. change (simple_escape (Z.of_N 120)) with (@None Z). cbv iota.
  change (Z.of_N 120 =? 85) with false. change (Z.of_N 120 =? 117) with false.
  change (Z.of_N 120 =? 120) with true. cbv iota.
  apply run_hex_digits; [exact Hh|lia].
Qed.

Theorem run_read_escaped_char e cp s :
  esc_spells e cp -> run (read_escaped_char false) (zs e ++ s) cp s.
Proof.
  destruct 1 as [c cp Hc|h v Hh|h v Hh Hs|h1 hi h2 lo Hh1 Hhi Hh2 Hlo|h v Hh Hv Hs].
  - apply run_read_escaped_one. exact Hc.
  - apply run_read_escaped_x. exact Hh.
  - unfold read_escaped_char. cbn [zs map app].
    eapply run_bind; [apply run_read_cons|]. change (simple_escape (Z.of_N 117)) with (@None Z). cbv iota.
    change (Z.of_N 117 =? 85) with false. change (Z.of_N 117 =? 117) with true. cbv iota.
    eapply run_bind; [apply run_hex_digits; [exact Hh|lia]|].
    unfold surrogate in Hs. replace (is_surrogate (Z.of_N v)) with false by (unfold is_surrogate; lia).
    apply run_ret.
  - unfold read_escaped_char. cbn [zs map app]. rewrite zs_app, <- app_assoc. cbn [zs map app].
    eapply run_bind; [apply run_read_cons|]. change (simple_escape (Z.of_N 117)) with (@None Z). cbv iota.
    change (Z.of_N 117 =? 85) with false. change (Z.of_N 117 =? 117) with true. cbv iota.
    eapply run_bind; [apply run_hex_digits; [exact Hh1|lia]|].
    replace (is_surrogate (Z.of_N hi)) with true by (unfold is_surrogate; lia).
    unfold read_surrogate_pair. replace (56320 <=? Z.of_N hi) with false by lia.
    eapply run_bind; [apply run_expect; reflexivity|]. cbn [stail].
    eapply run_bind; [apply run_expect; reflexivity|]. cbn [stail].
    eapply run_bind; [apply run_hex_digits; [exact Hh2|lia]|].
    replace ((Z.of_N lo <? 56320) || (57343 <? Z.of_N lo)) with false by lia.
    apply run_ret.
  - unfold read_escaped_char. cbn [zs map app].
    eapply run_bind; [apply run_read_cons|]. change (simple_escape (Z.of_N 85)) with (@None Z). cbv iota.
    change (Z.of_N 85 =? 85) with true. cbv iota.
    eapply run_bind; [apply run_hex_digits; [exact Hh|lia]|].
    unfold surrogate in Hs.
    replace ((1114111 <? Z.of_N v) || is_surrogate (Z.of_N v)) with false by (unfold is_surrogate; lia).
    apply run_ret.
Qed.
Theorem run_read_escaped_char_clob e cp s :
  esc_spells_clob e cp -> run (read_escaped_char true) (zs e ++ s) cp s.
Proof.
  destruct 1 as [c cp Hc|h v Hh].
  - apply run_read_escaped_one. exact Hc.
  - apply run_read_escaped_x. exact Hh.
Qed.

(* ---- processBackslashInString / InClob ------------------------------------------------------------------------- *)
Theorem run_process_backslash e cp s :
  esc_spells e cp -> run (process_backslash false) (zs e ++ s) (utf8_of_rune cp) s.
Proof.
  intros He. destruct (esc_spells_hd e cp He) as (c & r & -> & Hc). unfold process_backslash.
  eapply run_bind; [apply (run_peek_cons (Z.of_N c) (zs r ++ s))|].
  replace (Z.of_N c =? c_nl) with false by (unfold c_nl; lia).
  eapply run_bind; [apply (run_read_escaped_char (c :: r) cp s He)|]. apply run_ret.
Qed.
Theorem run_process_backslash_clob e cp s :
  esc_spells_clob e cp -> run (process_backslash true) (zs e ++ s) [Z.to_N cp] s.
Proof.
  intros He. pose proof (esc_clob_byte e cp He) as Hb.
  destruct (esc_spells_hd e cp (esc_clob_text e cp He)) as (c & r & -> & Hc). unfold process_backslash.
  eapply run_bind; [apply (run_peek_cons (Z.of_N c) (zs r ++ s))|].
  replace (Z.of_N c =? c_nl) with false by (unfold c_nl; lia).
  eapply run_bind; [apply (run_read_escaped_char_clob (c :: r) cp s He)|].
  eapply run_eq; [apply run_ret| |reflexivity]. unfold byte_of. rewrite Z.mod_small by lia. reflexivity.
Qed.
(* a backslash before a newline: the line continues, nothing is appended *)
Theorem run_process_backslash_nl k s : run (process_backslash k) (10 :: s) [] s.
Proof.
  unfold process_backslash. eapply run_bind; [apply run_peek_cons|].
  change (10 =? c_nl) with true. cbv iota. eapply run_bind; [apply run_read_cons|]. apply run_ret.
Qed.

(* ---- WriteRune is the specification's UTF-8 encoder on scalar values ---------------------------------------------- *)
Section Enc.
Local Ltac Zify.zify_post_hook ::= Z.div_mod_to_equations.
Theorem utf8_of_rune_enc cp : scalar cp -> utf8_of_rune cp = SpecText.utf8_enc (Z.to_N cp).
Proof.
  unfold scalar, utf8_of_rune, SpecText.utf8_enc. intros [Hr Hs].
  destruct (Z.leb_spec cp 127).
  { replace (Z.to_N cp <? 128)%N with true by lia. reflexivity. }
  replace (Z.to_N cp <? 128)%N with false by lia.
  destruct (Z.leb_spec cp 2047).
  { replace (Z.to_N cp <? 2048)%N with true by lia. repeat f_equal; lia. }
  replace (Z.to_N cp <? 2048)%N with false by lia.
  replace ((1114111 <? cp) || ((55296 <=? cp) && (cp <=? 57343))) with false by lia.
  destruct (Z.leb_spec cp 65535).
  { replace (Z.to_N cp <? 65536)%N with true by lia. repeat f_equal; lia. }
  replace (Z.to_N cp <? 65536)%N with false by lia. repeat f_equal; lia.
Qed.
End Enc.
Corollary esc_spells_enc e cp : esc_spells e cp -> utf8_of_rune cp = SpecText.utf8_enc (Z.to_N cp).
Proof. intros H. apply utf8_of_rune_enc. eapply esc_spells_scalar; exact H. Qed.

(* ---- the specification decoder agrees ------------------------------------------------------------------------------ *)
Lemma hexn_hex_acc : forall h acc v r,
  hex_acc acc h = Some v -> SpecText.hexn (length h) (h ++ r) acc = Some (v, r).
Proof.
  induction h as [|c h IH]; intros acc v r H; cbn [hex_acc length SpecText.hexn app] in *.
  - now injection H as <-.
  - destruct (hexval c) as [d|]; [|discriminate]. apply IH. exact H.
Qed.
Lemma hexn_hex_digits k h v r : hex_digits k h v -> SpecText.hexn k (h ++ r) 0 = Some (v, r).
Proof. intros [<- Hv]. apply hexn_hex_acc. exact Hv. Qed.

Theorem p_escape_spells (lob : bool) e cp r :
  (if lob then esc_spells_clob e cp else esc_spells e cp) ->
  SpecText.p_escape lob (e ++ r) = Some (SpecText.EChar (Z.to_N cp), r).
Proof.
  assert (Hone : forall c cp, In (c, cp) esc_table ->
            SpecText.p_escape lob ([c] ++ r) = Some (SpecText.EChar (Z.to_N cp), r)).
  { unfold esc_table. cbn [In]. intros c0 cp0 H.
    repeat (destruct H as [H|H]; [injection H as <- <-; reflexivity|]). contradiction. }
  assert (Hx : forall h v, hex_digits 2 h v ->
            SpecText.p_escape lob ((120%N :: h) ++ r) = Some (SpecText.EChar (Z.to_N (Z.of_N v)), r)).
  { intros h v Hh. cbn [app]. unfold SpecText.p_escape.
    change ((120 =? 48)%N) with false. cbv iota.
    repeat match goal with |- context [(120 =? ?n)%N] => let b := eval vm_compute in (120 =? n)%N in change ((120 =? n)%N) with b; cbv iota end.
    rewrite (hexn_hex_digits 2 h v r Hh), N2Z.id. reflexivity. }
  destruct lob.
  - destruct 1 as [c cp Hc|h v Hh]; auto.
  - destruct 1 as [c cp Hc|h v Hh|h v Hh Hs|h1 hi h2 lo Hh1 Hhi Hh2 Hlo|h v Hh Hv Hs]; auto.
    + cbn [app]. unfold SpecText.p_escape.
      repeat match goal with |- context [(117 =? ?n)%N] => let b := eval vm_compute in (117 =? n)%N in change ((117 =? n)%N) with b; cbv iota end.
      rewrite (hexn_hex_digits 4 h v r Hh), N2Z.id. unfold surrogate in Hs. unfold SpecText.in_rng.
      replace ((55296 <=? v)%N && (v <=? 56319)%N) with false by lia.
      replace ((56320 <=? v)%N && (v <=? 57343)%N) with false by lia. reflexivity.
    + cbn [app]. rewrite <- app_assoc. cbn [app]. unfold SpecText.p_escape.
      repeat match goal with |- context [(117 =? ?n)%N] => let b := eval vm_compute in (117 =? n)%N in change ((117 =? n)%N) with b; cbv iota end.
      rewrite (hexn_hex_digits 4 h1 hi _ Hh1). unfold SpecText.in_rng.
      replace ((55296 <=? hi)%N && (hi <=? 56319)%N) with true by lia.
      rewrite (hexn_hex_digits 4 h2 lo r Hh2).
      replace ((56320 <=? lo)%N && (lo <=? 57343)%N) with true by lia.
      do 3 f_equal. lia.
    + cbn [app]. unfold SpecText.p_escape.
      repeat match goal with |- context [(85 =? ?n)%N] => let b := eval vm_compute in (85 =? n)%N in change ((85 =? n)%N) with b; cbv iota end.
      rewrite (hexn_hex_digits 8 h v r Hh), N2Z.id. unfold surrogate in Hs. unfold SpecText.in_rng.
      replace ((1114111 <? v)%N || ((55296 <=? v)%N && (v <=? 57343)%N)) with false by lia. reflexivity.
Qed.

(* ---- examples: the hypotheses are satisfiable, and the specification decoder agrees ---------------------------------- *)
Example esc_ex_pair : esc_spells (s "uD83d\uDe00") 128512.       (* U+1F600 *)
Proof.
  apply (es_pair (s "D83d") 55357%N (s "De00") 56832%N); try (split; reflexivity); lia.
Qed.
Example esc_ex_U : esc_spells (s "U0010fFfF") 1114111.
Proof. apply (es_U (s "0010fFfF") 1114111%N); [split; reflexivity|lia|unfold surrogate; lia]. Qed.
Example esc_ex_u : esc_spells (s "uFFFF") 65535.
Proof. apply (es_u (s "FFFF") 65535%N); [split; reflexivity|unfold surrogate; lia]. Qed.
Example esc_ex_x : esc_spells_clob (s "xfE") 254.
Proof. apply (esc_x (s "fE") 254%N). split; reflexivity. Qed.
Example esc_ex_v : esc_spells_clob (s "v") 11.
Proof. apply esc_one. cbn. tauto. Qed.

Example p_escape_ex_pair : SpecText.p_escape false (s "uD83d\uDe00!") = Some (SpecText.EChar 128512, s "!").
Proof. vm_compute. reflexivity. Qed.
Example p_escape_ex_U : SpecText.p_escape false (s "U0010fFfF!") = Some (SpecText.EChar 1114111, s "!").
Proof. vm_compute. reflexivity. Qed.
Example p_escape_ex_u : SpecText.p_escape false (s "uFFFF!") = Some (SpecText.EChar 65535, s "!").
Proof. vm_compute. reflexivity. Qed.
Example p_escape_ex_x : SpecText.p_escape true (s "xfE!") = Some (SpecText.EChar 254, s "!").
Proof. vm_compute. reflexivity. Qed.
Example p_escape_ex_v : SpecText.p_escape true (s "v!") = Some (SpecText.EChar 11, s "!").
Proof. vm_compute. reflexivity. Qed.
(* and the model on the same inputs *)
Example model_ex_pair :
  process_backslash false (t_init (s "uD83d\uDe00!") false) = Ok (SpecText.utf8_enc 128512, t_init (s "!") false).
Proof. vm_compute. reflexivity. Qed.
Example model_ex_U :
  process_backslash false (t_init (s "U0010fFfF!") false) = Ok (SpecText.utf8_enc 1114111, t_init (s "!") false).
Proof. vm_compute. reflexivity. Qed.
Example model_ex_x : process_backslash true (t_init (s "xfE!") false) = Ok ([254%N], t_init (s "!") false).
Proof. vm_compute. reflexivity. Qed.
(* what the grammar excludes is refused by both *)
Example p_escape_ex_lone_low : SpecText.p_escape false (s "uDC00") = None /\ process_backslash false (t_init (s "uDC00") false) = Err.
Proof. vm_compute. auto. Qed.
Example p_escape_ex_lone_high : SpecText.p_escape false (s "uD800x") = None /\ process_backslash false (t_init (s "uD800x") false) = Err.
Proof. vm_compute. auto. Qed.
Example p_escape_ex_big : SpecText.p_escape false (s "U00110000") = None /\ process_backslash false (t_init (s "U00110000") false) = Err.
Proof. vm_compute. auto. Qed.
Example p_escape_ex_clob_u : SpecText.p_escape true (s "u0041") = None /\ process_backslash true (t_init (s "u0041") false) = Err.
Proof. vm_compute. auto. Qed.
