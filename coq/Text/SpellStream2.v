(* SpellStream2.v — C02, stage 8g: the scalar items of SpellStream, widened.

   [item_spells2] = [item_spells] plus
     - operator symbols that begin with a slash (inside an s-expression),
     - operator symbols directly followed by a comment,
   and every item may be followed, at the top level, by whitespace and a `//` comment that runs to the end of the
   input ([rest_eofc]).  [item_next2] / [aval_next2]: one round of Next, as in SpellStream, for the wider relation;
   the state afterwards is settled in front of the rest, or (when the reader has looked through the final comment)
   in front of nothing ([settled_w]). *)
From Coq Require Import String List NArith ZArith Bool Lia ZifyBool ZifyN ZifyNat.
From IonV Require Import Base.Wire Base.Utf8 Data.Ion Bin.Bits Bin.BitStream Bin.BinReader Num.Float Text.Tokenizer Text.Skipper
  Text.TextReader Text.TextNum Text.SpellBase Text.SpellWs Text.SpellNum Text.SpellTok Text.SpellRead
  Text.SpellEsc Text.SpellStr Text.SpellLong Text.SpellIdent Text.SpellSym Text.SpellTs Text.SpellBlob
  Text.SpellVal Text.SpellSymVal Text.SpellOp Text.SpellStream Text.SpellEofc Text.SpellOp2.
Import ListNotations.
Open Scope Z_scope.

(* the rest of the input is a `//` comment without newline *)
Definition rest_eofc (rest : list N) : Prop := exists body, rest = (47 :: 47 :: body)%N /\ Forall not_nl body.
(* what may follow a value and the whitespace behind it: something that stops the whitespace skipper and is not `::`,
   or, at the top level, the final comment *)
Definition rest_ok (ctx : list ctype) (rest : list N) : Prop :=
  (ws_stop (zs rest) = true /\ dcolon (zs rest) = false) \/ (ctx = [] /\ rest_eofc rest).
Definition settled_w (S' : list Z) (k' : N) (u' : bool) (rest : list N) : Prop :=
  settled S' k' u' rest \/ (rest_eofc rest /\ settled S' k' u' []).

(* first characters *)
Definition first_ok (t : list N) : Prop := exists c r, t = c :: r /\ is_whitespace (Z.of_N c) = false /\ c <> 58%N.
Definition startok (t : list N) : Prop := first_ok t /\ ws_stop (zs t) = true.
Lemma val_start_startok c r : val_start c -> startok (c :: r).
Proof.
  intros Hc. destruct (val_start_stop c r Hc) as [H1 _]. destruct Hc as (Ha & Hb & Hd).
  split; [|exact H1]. exists c, r. auto.
Qed.
Lemma startok_dcolon t : startok t -> dcolon (zs t) = false.
Proof.
  intros [(c & r & -> & _ & Hc) _]. unfold dcolon. cbn [zs map shead].
  replace (Z.of_N c =? c_colon) with false by (unfold c_colon; lia). reflexivity.
Qed.
Lemma startok_rest_ok ctx t : startok t -> rest_ok ctx t.
Proof. intros H. left. split; [apply H|now apply startok_dcolon]. Qed.
Lemma startok_not_eofc t : startok t -> ~ rest_eofc t.
Proof. intros [_ H] (body & -> & _). discriminate H. Qed.
Lemma settled_w_startok S' k' u' t : startok t -> settled_w S' k' u' t -> settled S' k' u' t.
Proof. intros Ht [H|[H _]]; [exact H|]. now apply startok_not_eofc in H. Qed.

Section Stream.
Variable pd : list N -> res dec.
Variable pt : list N -> res (list N).
Variable api : xstate -> xstate * res bool.
Variable lst : rlst.
Variable ctx : list ctype.
Notation BTA := trsBeforeTypeAnnotations.

Inductive item_spells2 (ann : list tok) : list N -> (list N -> list N -> Prop) -> N -> xvalue -> Prop :=
| it2_old lit fol ty v : item_spells pd pt lst ctx ann lit fol ty v -> item_spells2 ann lit fol ty v
(* an operator symbol that begins with a slash (not followed by a second slash or a star: no_comment_start) *)
| it2_slash r ctxr : ctx = CSexp :: ctxr -> op_chars (47%N :: r) -> no_comment_start (47%N :: r) = true ->
    item_spells2 ann (47%N :: r) (f_op 47 r) TSymbol (XSymbol (name_symbol_token lst (47%N :: r)))
(* an operator symbol directly followed by a comment; the grammar ends an operator in front of `//` and `/*`,
   so its last character is not a slash *)
| it2_opc c r ctxr : ctx = CSexp :: ctxr -> op_chars (c :: r) -> no_comment_start (c :: r) = true ->
    item_spells2 ann (c :: r) (f_opc c r) TSymbol (XSymbol (name_symbol_token lst (c :: r))).

Lemma settled_number_eofc m wn body e :
  ws_run wn -> no_cr wn -> Forall not_nl body -> all_eof e ->
  terminated (zs (wn ++ 47 :: 47 :: body)%N ++ e) = true ->
  settled_w (unterm (pks m (zs (wn ++ 47 :: 47 :: body)%N ++ e))) tokenNumber true (47 :: 47 :: body)%N.
Proof.
  intros Hw Hcr Hb He Ht. set (wc := (wn ++ 47 :: 47 :: body)%N) in *.
  assert (Hc : eofc wc) by now constructor.
  destruct (eofc_pks wc e m Hc He) as (e' & He' & Ep & Et). rewrite Ep.
  assert (Htp : terminated (zs wc ++ e') = true) by (rewrite <- Ep; now apply terminated_pks).
  pose proof (runK_finish_value_number_eofc wc e' Hc He' Htp) as R.
  destruct (is_whitespace (shead (zs wc ++ e'))).
  - right. split; [exists body; auto|]. exists (eofT e'), []. split; [exact R|]. split; [constructor|]. split; [constructor|].
    split; [now apply ends_eofT|cbn; lia].
  - left. exists (unterm (zs wc ++ e')), wn. split; [exact R|]. repeat split; auto.
    + apply ends_unterm. unfold wc. rewrite zs_app, <- app_assoc. apply ends_zs_app. exists e'. auto.
    + etransitivity; [|apply nne_unterm_ge]. rewrite nne_app, nne_zs. unfold wc. lia.
Qed.

Lemma item_next2 ann lit fol ty v :
  item_spells2 ann lit fol ty v ->
  forall wn rest S2,
  no_cr lit -> ws_run wn -> no_cr wn -> fol wn rest -> ends S2 rest -> rest_ok ctx rest ->
  exists S' k' u', settled_w S' k' u' rest /\
    forall w k0 fld ty0 v0 kk fuel, ws_run w -> no_cr w ->
    rrun (x_next_loop pd pt api (S kk) fuel)
         (mkax (zs w ++ zs lit ++ zs wn ++ S2) k0 false BTA ctx false false lst fld ann ty0 v0) true
         (mkax S' k' u' (after_value_state ctx) ctx false false lst fld ann ty v).
Proof.
  intros Hit wn rest S2 Hcl Hwn Hcrn Hfol He Hrok.
  pose proof (ends_zs_app wn S2 rest He) as Hes.
  destruct Hrok as [[Hs2 Hdc]|[Ectx (body & -> & Hbody)]].
  - (* an ordinary rest *)
    rewrite <- (ends_ws_stop _ _ He) in Hs2. rewrite <- (ends_dcolon _ _ He) in Hdc.
    destruct Hit as [lit fol ty v Hit|r ctxr Ectx Hop Hnc|c r ctxr Ectx Hop Hnc].
    + destruct (item_next pd pt api lst ctx ann lit fol ty v Hit wn rest S2 Hcl Hwn Hcrn Hfol He Hs2 Hdc) as (S' & k' & u' & Hset & R).
      exists S', k', u'. split; [now left|exact R].
    + (* slash operator: SpellOp.next_op covers it *)
      destruct Hfol as (Hne & Hno & Hinf & Hdig).
      assert (Hne' : zs wn ++ S2 <> []).
      { destruct Hes as (e & _ & ->). destruct (zs (wn ++ rest)); [contradiction|discriminate]. }
      assert (Hno' : is_operator_char (shead (zs wn ++ S2)) = false) by (rewrite (ends_shead _ _ Hes); exact Hno).
      exists (sym_rest wn (pks (op_look 47 r - length wn) S2)), tokenSymbolOperator, false. split.
      * left. apply (settled_false _ _ rest []); [constructor|constructor|]. apply ends_sym_rest, pks_ends. exact He.
      * intros w k0 fld ty0 v0 kk fuel Hw Hcr. rewrite Ectx.
        apply (next_op pd pt api w 47%N r wn S2 k0 ctxr lst fld ann ty0 v0 kk fuel Hw Hcr Hop Hnc Hwn Hcrn Hs2 Hdc Hne' Hno');
          [intros [A|A]; discriminate A|intros A; discriminate A].
    + (* an operator in front of a comment *)
      destruct Hfol as (Hco & Hlast).
      assert (Hco' : comment_opener (zs wn ++ S2) = true).
      { unfold comment_opener in *. now rewrite (ends_shead _ _ Hes), (ends_shead2 _ _ Hes). }
      exists (after_dcolon (pks (op_lookc c r - length wn) S2)), tokenSymbolOperator, false. split.
      * left. apply (settled_false _ _ rest []); [constructor|constructor|]. now apply ends_after_dcolon, pks_ends.
      * intros w k0 fld ty0 v0 kk fuel Hw Hcr. rewrite Ectx.
        exact (next_opc pd pt api w c r wn S2 k0 ctxr lst fld ann ty0 v0 kk fuel Hw Hcr Hop Hnc Hlast Hwn Hcrn Hs2 Hdc Hco').
  - (* the final comment *)
    destruct He as (e & Hee & ES2).
    assert (Hc : eofc (wn ++ 47 :: 47 :: body)%N) by now constructor.
    assert (HT : zs wn ++ S2 = zs (wn ++ 47 :: 47 :: body)%N ++ e) by (rewrite ES2, zs_app, <- app_assoc; reflexivity).
    assert (He : ends S2 (47 :: 47 :: body)%N) by (exists e; auto).
    assert (Hre : rest_eofc (47 :: 47 :: body)%N) by (exists body; auto).
    destruct Hit as [lit fol ty v Hit|r ctxr Ectx' Hop Hnc|c r ctxr Ectx' Hop Hnc]; [|congruence|congruence].
    destruct Hit as [n ty v Hwf Hv|hex neg m dw p Hm|sh fields Hf Hpt|neg|body0 text Hb Hu|body0 ts Hb Hv|bw chars bytes Hbw Hb
                    |ws0 body0 bytes ws1 H0 Hb H1|ws0 body0 ts ws1 H0 Hb H1|id k Hid Hkw Hivm Hk|id ty v Hkv| |tn ty Hty Hmk
                    |body0 text Hb Hu|c r ctxr Ectx' Hop Hnc Hc47].
    + (* decimal-radix number *)
      assert (Ht : terminated (zs wn ++ S2) = true) by (rewrite (ends_terminated _ _ Hes); exact Hfol).
      exists (unterm (pks (num_look n) (zs wn ++ S2))), tokenNumber, true. split.
      * rewrite HT. rewrite HT in Ht. now apply settled_number_eofc.
      * intros w k0 fld ty0 v0 kk fuel Hw Hcr.
        exact (next_number pd pt api w n (zs wn ++ S2) ty v k0 ctx lst fld ann ty0 v0 kk fuel Hw Hcr Hwf Ht Hv).
    + assert (Ht : terminated (zs wn ++ S2) = true) by (rewrite (ends_terminated _ _ Hes); exact Hfol).
      exists (unterm (pks (3 - length dw) (zs wn ++ S2))), (if hex then tokenHex else tokenBinary), false. split.
      * left. apply (settled_false _ _ _ wn); auto. apply ends_unterm, pks_ends. exact Hes.
      * intros w k0 fld ty0 v0 kk fuel Hw Hcr.
        exact (next_radix pd pt api hex w neg m dw p (zs wn ++ S2) k0 ctx lst fld ann ty0 v0 kk fuel Hw Hcr Hm Ht).
    + assert (Ht : terminated (zs wn ++ S2) = true) by (rewrite (ends_terminated _ _ Hes); exact Hfol).
      exists (unterm (zs wn ++ S2)), tokenTimestamp, false. split.
      * left. apply (settled_false _ _ _ wn); auto. apply ends_unterm. exact Hes.
      * intros w k0 fld ty0 v0 kk fuel Hw Hcr.
        exact (next_timestamp pd pt api w sh fields (zs wn ++ S2) k0 ctx lst fld ann ty0 v0 kk fuel Hw Hcr Hf Hpt Ht).
    + assert (Ht : terminated (zs wn ++ S2) = true) by (rewrite (ends_terminated _ _ Hes); exact Hfol).
      exists (pks 2 (zs wn ++ S2)), (if neg then tokenFloatMinusInf else tokenFloatInf), false. split.
      * left. apply (settled_false _ _ _ wn); auto. apply pks_ends. exact Hes.
      * intros w k0 fld ty0 v0 kk fuel Hw Hcr.
        pose proof (next_inf pd pt api neg w (zs wn ++ S2) k0 ctx lst fld ann ty0 v0 kk fuel Hw Hcr Ht) as R.
        destruct neg; exact R.
    + apply no_cr_cons in Hcl as [_ Hcl]. apply no_cr_app in Hcl as [Hcb _].
      exists (zs wn ++ S2), tokenString, false. split; [left; apply (settled_false _ _ _ wn); auto|].
      intros w k0 fld ty0 v0 kk fuel Hw Hcr.
      pose proof (next_string pd pt api w body0 text (zs wn ++ S2) k0 ctx lst fld ann ty0 v0 kk fuel Hw Hcr Hb Hcb Hu) as R.
      eapply rrun_pre_eq; [exact R|]. f_equal; list_norm.
    + (* long string: the reader looks through the comment for another segment *)
      apply no_cr_cons in Hcl as [_ Hcl]. apply no_cr_cons in Hcl as [_ Hcl]. apply no_cr_cons in Hcl as [_ Hcb].
      exists (eofT e), tokenLongString, false. split.
      * right. split; [exact Hre|]. apply (settled_false _ _ [] []); [constructor|constructor|]. now apply ends_eofT.
      * intros w k0 fld ty0 v0 kk fuel Hw Hcr.
        pose proof (next_long_string_eofc pd pt api w body0 ts _ e k0 ctx lst fld ann ty0 v0 kk fuel Hw Hcr Hb Hcb Hv Hc Hee) as R.
        eapply rrun_pre_eq; [exact R|]. f_equal. rewrite <- HT. list_norm.
    + exists (zs wn ++ S2), tokenOpenDoubleBrace, false. split; [left; apply (settled_false _ _ _ wn); auto|].
      intros w k0 fld ty0 v0 kk fuel Hw Hcr.
      pose proof (next_blob pd pt api w bw chars bytes (zs wn ++ S2) k0 ctx lst fld ann ty0 v0 kk fuel Hw Hcr Hbw Hb) as R.
      eapply rrun_pre_eq; [exact R|]. f_equal; list_norm.
    + assert (Hcb : no_cr body0).
      { apply no_cr_cons in Hcl as [_ Hcl]. apply no_cr_cons in Hcl as [_ Hcl]. apply no_cr_app in Hcl as [_ Hcl].
        apply no_cr_cons in Hcl as [_ Hcl]. now apply no_cr_app in Hcl as [Hcl _]. }
      exists (zs wn ++ S2), tokenOpenDoubleBrace, false. split; [left; apply (settled_false _ _ _ wn); auto|].
      intros w k0 fld ty0 v0 kk fuel Hw Hcr.
      pose proof (next_short_clob pd pt api w ws0 body0 bytes ws1 (zs wn ++ S2) k0 ctx lst fld ann ty0 v0 kk fuel
                    Hw Hcr H0 Hb Hcb H1) as R.
      eapply rrun_pre_eq; [exact R|]. f_equal; list_norm.
    + assert (Hcb : no_cr body0).
      { apply no_cr_cons in Hcl as [_ Hcl]. apply no_cr_cons in Hcl as [_ Hcl]. apply no_cr_app in Hcl as [_ Hcl].
        apply no_cr_cons in Hcl as [_ Hcl]. apply no_cr_cons in Hcl as [_ Hcl]. apply no_cr_cons in Hcl as [_ Hcl].
        now apply no_cr_app in Hcl as [Hcl _]. }
      exists (zs wn ++ S2), tokenOpenDoubleBrace, false. split; [left; apply (settled_false _ _ _ wn); auto|].
      intros w k0 fld ty0 v0 kk fuel Hw Hcr.
      pose proof (next_long_clob pd pt api w ws0 body0 ts ws1 (zs wn ++ S2) k0 ctx lst fld ann ty0 v0 kk fuel
                    Hw Hcr H0 Hb Hcb H1) as R.
      eapply rrun_pre_eq; [exact R|]. f_equal; list_norm.
    + (* identifier symbol *)
      exists (eofT e), tokenSymbol, false. split.
      * right. split; [exact Hre|]. apply (settled_false _ _ [] []); [constructor|constructor|]. now apply ends_eofT.
      * intros w k0 fld ty0 v0 kk fuel Hw Hcr. rewrite HT.
        exact (next_ident_eofc pd pt api w id k _ e k0 ctx lst fld ann ty0 v0 kk fuel Hw Hcr Hid Hkw Hivm Hk Hc Hee).
    + exists (eofT e), tokenSymbol, false. split.
      * right. split; [exact Hre|]. apply (settled_false _ _ [] []); [constructor|constructor|]. now apply ends_eofT.
      * intros w k0 fld ty0 v0 kk fuel Hw Hcr. rewrite HT.
        exact (next_keyword_eofc pd pt api w id ty v _ e k0 ctx lst fld ann ty0 v0 kk fuel Hw Hcr Hkv Hc Hee).
    + exists (eofT e), tokenSymbol, false. split.
      * right. split; [exact Hre|]. apply (settled_false _ _ [] []); [constructor|constructor|]. now apply ends_eofT.
      * intros w k0 fld ty0 v0 kk fuel Hw Hcr. rewrite HT.
        exact (next_null_eofc pd pt api w _ e k0 ctx lst fld ann ty0 v0 kk fuel Hw Hcr Hc Hee).
    + assert (Hnp : is_identifier_part (shead (zs wn ++ S2)) = false) by (rewrite (ends_shead _ _ Hes); exact Hfol).
      exists (spush (zs wn ++ S2)), tokenSymbol, false. split.
      * left. apply (settled_false _ _ _ wn); auto. now apply ends_spush.
      * intros w k0 fld ty0 v0 kk fuel Hw Hcr.
        pose proof (next_typed_null pd pt api w tn ty (zs wn ++ S2) k0 ctx lst fld ann ty0 v0 kk fuel Hw Hcr Hty Hnp Hmk) as R.
        eapply rrun_pre_eq; [exact R|]. f_equal; list_norm.
    + apply no_cr_cons in Hcl as [_ Hcl]. apply no_cr_app in Hcl as [Hcb _].
      exists (eofT e), tokenSymbolQuoted, false. split.
      * right. split; [exact Hre|]. apply (settled_false _ _ [] []); [constructor|constructor|]. now apply ends_eofT.
      * intros w k0 fld ty0 v0 kk fuel Hw Hcr.
        pose proof (next_quoted_eofc pd pt api w body0 text _ e k0 ctx lst fld ann ty0 v0 kk fuel Hw Hcr Hb Hcb Hu Hc Hee) as R.
        eapply rrun_pre_eq; [exact R|]. f_equal. rewrite <- HT. list_norm.
    + congruence.
Qed.

(* ---- annotations in front of a literal --------------------------------------------------------------------------------------- *)
Inductive aval_spells2 : list tok -> list N -> (list N -> list N -> Prop) -> list tok -> N -> xvalue -> Prop :=
| av2_item ann lit fol ty v : item_spells2 ann lit fol ty v -> aval_spells2 ann lit fol ann ty v
| av2_id ann id k wn1 wn2 rest fol anns ty v :
    ident_chars id -> is_keyword id = false -> new_symbol_token lst id = Ok k -> ws_run wn1 -> ws_run wn2 ->
    aval_spells2 (ann ++ [k]) rest fol anns ty v ->
    aval_spells2 ann (id ++ wn1 ++ [58; 58]%N ++ wn2 ++ rest) fol anns ty v
| av2_quoted ann body text wn1 wn2 rest fol anns ty v :
    qbody 39 body text -> utf8_valid text = true -> ws_run wn1 -> ws_run wn2 ->
    aval_spells2 (ann ++ [tok_text text]) rest fol anns ty v ->
    aval_spells2 ann (39%N :: body ++ [39%N] ++ wn1 ++ [58; 58]%N ++ wn2 ++ rest) fol anns ty v.

Lemma aval_spells_incl ann text fol anns ty v :
  aval_spells pd pt lst ctx ann text fol anns ty v -> aval_spells2 ann text fol anns ty v.
Proof.
  induction 1 as [ann lit fol ty v Hit|ann id k wn1 wn2 rest' fol anns ty v Hid Hkw Hk Hw1 Hw2 Hav IH
                 |ann body txt wn1 wn2 rest' fol anns ty v Hb Hu Hw1 Hw2 Hav IH].
  - apply av2_item, it2_old, Hit.
  - now apply (av2_id ann id k).
  - now apply (av2_quoted ann body txt).
Qed.

Lemma aval_next2 ann text fol anns ty v :
  aval_spells2 ann text fol anns ty v ->
  forall wn rest S2,
  no_cr text -> ws_run wn -> no_cr wn -> fol wn rest -> ends S2 rest -> rest_ok ctx rest ->
  exists S' k' u', settled_w S' k' u' rest /\
    forall w k0 fld ty0 v0 kk fuel, (length text <= kk)%nat -> ws_run w -> no_cr w ->
    rrun (x_next_loop pd pt api (S kk) fuel)
         (mkax (zs w ++ zs text ++ zs wn ++ S2) k0 false BTA ctx false false lst fld ann ty0 v0) true
         (mkax S' k' u' (after_value_state ctx) ctx false false lst fld anns ty v).
Proof.
  induction 1 as [ann lit fol ty v Hit|ann id k wn1 wn2 rest' fol anns ty v Hid Hkw Hk Hw1 Hw2 Hav IH
                 |ann body txt wn1 wn2 rest' fol anns ty v Hb Hu Hw1 Hw2 Hav IH];
    intros wn rest S2 Hct Hwn Hcrn Hfol He Hrok.
  - destruct (item_next2 ann lit fol ty v Hit wn rest S2 Hct Hwn Hcrn Hfol He Hrok) as (S' & k' & u' & Hset & R).
    exists S', k', u'. split; [exact Hset|]. intros w k0 fld ty0 v0 kk fuel _ Hw Hcr. now apply R.
  - apply no_cr_app in Hct as [Hc1 Hct]. apply no_cr_app in Hct as [Hc2 Hct]. apply no_cr_app in Hct as [_ Hct].
    apply no_cr_app in Hct as [Hc3 Hc4].
    destruct (IH wn rest S2 Hc4 Hwn Hcrn Hfol He Hrok) as (S' & k' & u' & Hset & R).
    exists S', k', u'. split; [exact Hset|]. intros w k0 fld ty0 v0 kk fuel Hlen Hw Hcr.
    destruct kk as [|kk]; [rewrite !app_length in Hlen; destruct Hid; cbn [length] in Hlen; lia|].
    eapply rrun_pre_eq.
    + apply (ann_step_ident pd pt api w id k wn1 (zs wn2 ++ zs rest' ++ zs wn ++ S2) k0 ctx lst fld ann ty0 v0 (S kk) fuel true _
               Hw Hcr Hid Hkw Hk Hw1 Hc2).
      apply R; auto. rewrite !app_length in Hlen. cbn [length] in Hlen. lia.
    + f_equal; list_norm.
  - apply no_cr_cons in Hct as [_ Hct]. apply no_cr_app in Hct as [Hc1 Hct]. apply no_cr_app in Hct as [_ Hct].
    apply no_cr_app in Hct as [Hc2 Hct]. apply no_cr_app in Hct as [_ Hct]. apply no_cr_app in Hct as [Hc3 Hc4].
    destruct (IH wn rest S2 Hc4 Hwn Hcrn Hfol He Hrok) as (S' & k' & u' & Hset & R).
    exists S', k', u'. split; [exact Hset|]. intros w k0 fld ty0 v0 kk fuel Hlen Hw Hcr.
    destruct kk as [|kk]; [cbn [length] in Hlen; lia|].
    eapply rrun_pre_eq.
    + apply (ann_step_quoted pd pt api w body txt wn1 (zs wn2 ++ zs rest' ++ zs wn ++ S2) k0 ctx lst fld ann ty0 v0 (S kk) fuel
               true _ Hw Hcr Hb Hc1 Hu); auto.
      * intros _. apply (ws_run_head_not_quote pd pt); [exact Hw1|discriminate].
      * apply R; auto. cbn [length] in Hlen. rewrite !app_length in Hlen. cbn [length] in Hlen. lia.
    + f_equal; list_norm.
Qed.

(* ---- first characters and values ------------------------------------------------------------------------------------------------ *)
Lemma item_first2 ann lit fol ty v :
  item_spells2 ann lit fol ty v -> forall wn rest, fol wn rest -> startok (lit ++ wn ++ rest).
Proof.
  intros Hit wn rest Hfol. destruct Hit as [lit fol ty v Hit|r ctxr Ectx Hop Hnc|c r ctxr Ectx Hop Hnc].
  - destruct (item_first pd pt lst ctx ann lit fol ty v Hit) as (c & r & -> & Hc). cbn [app]. now apply val_start_startok.
  - destruct Hfol as (Hne & Hno & _).
    assert (Hne' : zs r ++ zs (wn ++ rest) <> []) by (destruct r; [exact Hne|discriminate]).
    destruct (op_first_stop pd pt 47%N r (zs (wn ++ rest)) Hop Hnc Hno Hne') as [Hst _].
    split.
    + exists 47%N, (r ++ wn ++ rest). split; [reflexivity|]. split; [reflexivity|discriminate].
    + cbn [app]. rewrite <- zs_app in Hst. exact Hst.
  - destruct Hfol as (Hco & Hlast). split.
    + exists c, (r ++ wn ++ rest). split; [reflexivity|]. inversion Hop; subst. now apply op_char_first.
    + exact (opc_startok_raw c r (wn ++ rest) Hop Hnc Hlast Hco).
Qed.
Lemma item_nonempty2 ann lit fol ty v : item_spells2 ann lit fol ty v -> first_ok lit.
Proof.
  intros Hit. destruct Hit as [lit fol ty v Hit|r ctxr Ectx Hop Hnc|c r ctxr Ectx Hop Hnc].
  - destruct (item_first pd pt lst ctx ann lit fol ty v Hit) as (c & r & -> & (Ha & Hb & Hd)). exists c, r. auto.
  - exists 47%N, r. split; [reflexivity|]. split; [reflexivity|discriminate].
  - exists c, r. split; [reflexivity|]. inversion Hop; subst. now apply op_char_first.
Qed.
Lemma aval_first2 ann text fol anns ty v :
  aval_spells2 ann text fol anns ty v -> forall wn rest, fol wn rest -> startok (text ++ wn ++ rest).
Proof.
  destruct 1 as [ann lit fol ty v Hit|ann id k wn1 wn2 rest' fol anns ty v Hid Hkw Hk Hw1 Hw2 Hav
                |ann body txt wn1 wn2 rest' fol anns ty v Hb Hu Hw1 Hw2 Hav]; intros wn rest Hfol.
  - exact (item_first2 ann lit fol ty v Hit wn rest Hfol).
  - destruct Hid as [c r Hc Hr]. cbn [app]. apply val_start_startok. now apply id_start_val_start.
  - cbn [app]. apply val_start_startok. unfold val_start; repeat split; (reflexivity || discriminate).
Qed.
Lemma aval_nonempty2 ann text fol anns ty v : aval_spells2 ann text fol anns ty v -> first_ok text.
Proof.
  destruct 1 as [ann lit fol ty v Hit|ann id k wn1 wn2 rest' fol anns ty v Hid Hkw Hk Hw1 Hw2 Hav
                |ann body txt wn1 wn2 rest' fol anns ty v Hb Hu Hw1 Hw2 Hav].
  - exact (item_nonempty2 ann lit fol ty v Hit).
  - destruct Hid as [c r Hc Hr]. destruct (id_start_val_start c Hc) as (Ha & Hb & Hd). exists c, (r ++ wn1 ++ [58; 58]%N ++ wn2 ++ rest').
    auto.
  - eexists _, _. split; [reflexivity|]. split; [reflexivity|discriminate].
Qed.
Lemma item_value2 ann lit fol ty v :
  item_spells2 ann lit fol ty v -> (v = XNil /\ ty <> 0%N) \/ (exists t, acc_token ty v = Some t).
Proof.
  intros Hit. destruct Hit as [lit fol ty v Hit|r ctxr Ectx Hop Hnc|c r ctxr Ectx Hop Hnc].
  - exact (item_value pd pt lst ctx ann lit fol ty v Hit).
  - right; eexists; reflexivity.
  - right; eexists; reflexivity.
Qed.
Lemma aval_value2 ann text fol anns ty v :
  aval_spells2 ann text fol anns ty v -> (v = XNil /\ ty <> 0%N) \/ (exists t, acc_token ty v = Some t).
Proof. induction 1; eauto using item_value2. Qed.
End Stream.
