(* SpellSymVal.v — C02, stage 8b (continued): Next on symbol tokens: identifiers, `$n`, quoted symbols,
   the keywords true / false / nan / null / null.<type>, +inf and -inf, and annotations `a ::`. *)
From Coq Require Import String List NArith ZArith Bool Lia ZifyBool ZifyN ZifyNat.
From IonV Require Import Base.Wire Base.Utf8 Data.Ion Bin.Bits Bin.BitStream Bin.BinReader Num.Float Text.Tokenizer Text.Skipper
  Text.TextReader Text.TextNum Text.SpellBase Text.SpellWs Text.SpellNum Text.SpellTok Text.SpellRead
  Text.SpellEsc Text.SpellStr Text.SpellLong Text.SpellIdent Text.SpellSym Text.SpellVal.
Import ListNotations.
Open Scope Z_scope.

Lemma list_eqb_eq (a b : list N) : list_eqb a b = true -> a = b.
Proof.
  revert b. induction a as [|x a IH]; intros [|y b]; cbn [list_eqb]; intros H; try discriminate; [reflexivity|].
  apply andb_true_iff in H. destruct H as [H1 H2]. apply N.eqb_eq in H1. subst. f_equal. auto.
Qed.

(* ---- SkipDoubleColon ------------------------------------------------------------------------------------------------------- *)
Definition dcolon (S2 : list Z) : bool := (shead S2 =? c_colon) && (shead (stail S2) =? c_colon).
(* the stream after the look-ahead for `::` that did not find it *)
Definition after_dcolon (S2 : list Z) : list Z := pks 2 (shead S2 :: after_stop S2).

Lemma shead_after_stop S2 : shead (after_stop S2) = shead (stail S2).
Proof. unfold after_stop. destruct (shead S2 =? c_slash); [apply shead_spush|reflexivity]. Qed.

Lemma run_skip_double_colon_no wn S2 :
  ws_run wn -> no_cr wn -> ws_stop S2 = true -> dcolon S2 = false ->
  run t_skip_double_colon (zs wn ++ S2) (false, nonempty wn) (after_dcolon S2).
Proof.
  intros Hw Hcr Hs Hd. unfold t_skip_double_colon.
  eapply run_bind; [apply (run_t_skip_whitespace wn S2 Hw Hcr Hs)|]. cbv beta iota.
  eapply run_bind; [apply run_unread|].
  eapply run_bind; [|apply run_ret]. unfold skip_double_colon, after_dcolon.
  eapply run_bind; [apply run_peekN_pk|].
  set (T := shead S2 :: after_stop S2).
  assert (Hpk : pk 2 T = ([], true) \/ (exists c, pk 2 T = ([c], true)) \/
                pk 2 T = ([shead S2; shead (stail S2)], false)).
  { unfold T. cbn [pk]. destruct (shead S2 =? -1); [now left|].
    destruct (after_stop S2) as [|d r] eqn:E.
    - right; left. eauto.
    - pose proof (shead_after_stop S2) as Hh. rewrite E in Hh. cbn [shead] in Hh.
      destruct (d =? -1); [right; left; eauto|]. right; right. now rewrite Hh. }
  destruct Hpk as [-> |[(c & ->)| ->]]; cbv beta iota; try apply run_ret.
  cbn [znth nth]. unfold dcolon in Hd. rewrite Hd. apply run_ret.
Qed.
Lemma run_skip_double_colon_yes wn r :
  ws_run wn -> no_cr wn ->
  run t_skip_double_colon (zs wn ++ 58 :: 58 :: r) (true, nonempty wn) r.
Proof.
  intros Hw Hcr. unfold t_skip_double_colon.
  eapply run_bind; [apply (run_t_skip_whitespace wn (58 :: 58 :: r) Hw Hcr); reflexivity|]. cbv beta iota.
  cbn [shead]. change (after_stop (58 :: 58 :: r)) with (58 :: r).
  eapply run_bind; [apply run_unread|].
  eapply run_bind; [|apply run_ret]. unfold skip_double_colon.
  eapply run_bind; [apply (run_peekN 2 [58; 58] r); [reflexivity|repeat constructor; discriminate]|].
  cbv beta iota. cbn [znth nth]. change ((58 =? c_colon) && (58 =? c_colon)) with true. cbv iota.
  eapply run_bind; [apply (run_skipN 2 [58; 58] r); [reflexivity|repeat constructor; discriminate]|]. apply run_ret.
Qed.
Lemma ends_after_dcolon S2 r : ends S2 r -> ends (after_dcolon S2) r.
Proof. intros H. unfold after_dcolon. apply pks_ends. now apply ends_head_after_stop. Qed.

Lemma spush_app wn S2 : spush (zs wn ++ S2) = zs wn ++ (if nonempty wn then S2 else spush S2).
Proof. destruct wn; reflexivity. Qed.
Lemma ws_stop_spush S2 : ws_stop (spush S2) = ws_stop S2.
Proof. reflexivity. Qed.
Lemma dcolon_spush S2 : dcolon (spush S2) = dcolon S2.
Proof. reflexivity. Qed.

(* ---- the symbol branch of nextBeforeTypeAnnotations ---------------------------------------------------------------------- *)
Section Values.
Variable pd : list N -> res dec.
Variable pt : list N -> res (list N).
Variable api : xstate -> xstate * res bool.
Notation BTA := trsBeforeTypeAnnotations.

Definition sym_branch (tok : N) (x : xstate) : R bool :=
    rdo v <- lift (t_read_value tok);
    rdo '(ok, ws) <- lift t_skip_double_colon;
    if ok then
      if (tok =? tokenSymbol)%N && is_keyword v then rfail
      else if (tok =? tokenSymbolOperator)%N || (tok =? tokenDot)%N then rfail
      else
        rdo x <- rget;
        rdo k <- (if (tok =? tokenSymbolQuoted)%N then rret (tok_text v)
                  else of_res (new_symbol_token (x_lst x) v));
        rdo _ <- rmod (fun x => xs_annots x (x_annots x ++ [k]));
        rret false
    else if (tok =? tokenSymbol)%N && list_eqb v (s "$ion_1_0"%string) && x_at_top x
            && match x_annots x with [] => true | _ => false end then
      rdo _ <- rmod (fun x => xs_lst x LSys); rret false
    else if (tok =? tokenSymbolQuoted)%N then
      rdo _ <- set_value TSymbol (XSymbol (tok_text v)); rret true
    else
      rdo _ <- on_symbol v ws;
      rdo x1 <- rget;
      if (x_type x1 =? TStruct)%N && x_is_null x1 && x_at_top x1 && is_ion_symbol_table (x_annots x1) then
        rdo _ <- rmod (fun x => xs_lst (x_clear x) LSys); rret false
      else rret true.

Lemma nbta_sym fuel x :
  t_token (x_tok x) = tokenSymbol \/ t_token (x_tok x) = tokenSymbolQuoted \/
  ((t_token (x_tok x) = tokenSymbolOperator \/ t_token (x_tok x) = tokenDot) /\ exists r, x_ctx x = CSexp :: r) ->
  next_before_type_annotations pd pt api fuel x = sym_branch (t_token (x_tok x)) x x.
Proof.
  intros H. unfold next_before_type_annotations, sym_branch. unfold rbind at 1. unfold rget. cbv zeta.
  destruct H as [H|[H|[[H|H] [r Hc]]]]; rewrite H; tok_cbn; rewrite ?andb_false_r; try reflexivity;
    rewrite Hc; reflexivity.
Qed.

(* one round of the loop on a symbol token, from the handler's triple *)
Lemma loop_sym w SS k0 tk more pos ctx lst fld ann ty0 v0 b X' kk fuel :
  ws_run w -> no_cr w -> ws_stop SS = true ->
  runK (next_dispatch (shead SS)) (after_stop SS, k0, false) tt (pos, tk, more) ->
  tk = tokenSymbol \/ tk = tokenSymbolQuoted \/ ((tk = tokenSymbolOperator \/ tk = tokenDot) /\ exists r, ctx = CSexp :: r) ->
  rrun (rbind rget (sym_branch tk)) (mkax pos tk more BTA ctx false false lst fld ann ty0 v0) b X' ->
  forall x, xok x -> xabs x = mkax (zs w ++ SS) k0 false BTA ctx false false lst fld ann ty0 v0 ->
  exists x2, xok x2 /\ xabs x2 = X' /\
    x_next_loop pd pt api (S kk) fuel x =
      if b then (x2, Ok (negb (x_eof x2))) else x_next_loop pd pt api kk fuel x2.
Proof.
  intros Hw Hcr Hs Hd Hp Hh x Hi Ha.
  pose proof (rrun_lift t_next (mkax (zs w ++ SS) k0 false BTA ctx false false lst fld ann ty0 v0)
                tt pos tk more (runK_t_next w SS k0 _ Hw Hcr Hs Hd)) as HL.
  destruct (HL x Hi Ha) as (x1 & E1 & Hi1 & Ha1).
  unfold ax_tok in Ha1. cbn [a_state a_ctx a_eof a_err a_lst a_field a_annots a_type a_value] in Ha1.
  destruct (Hh x1 Hi1 Ha1) as (x2 & E2 & Hi2 & Ha2).
  xfields Ha1. unfold rbind at 1 in E2. unfold rget in E2. rewrite <- Fk in E2.
  rewrite <- (nbta_sym fuel x1) in E2.
  2:{ rewrite Fk, Fctx. exact Hp. }
  exists x2. split; [exact Hi2|]. split; [exact Ha2|].
  apply (next_loop_bta pd pt api kk fuel x x1 x2 b E1 Fst E2).
Qed.

(* ---- identifiers (text symbols and $n), not keywords ----------------------------------------------------------------------- *)
Lemma dispatch_ident c : is_identifier_start c = true ->
  next_dispatch c = (tdo _ <- t_unread c; t_ok tokenSymbol true).
Proof.
  intros H. unfold next_dispatch. unfold is_identifier_start in H.
  replace (c =? -1) with false by lia. replace (c =? c_colon) with false by (unfold c_colon; lia).
  replace (c =? c_lbrace) with false by (unfold c_lbrace; lia). replace (c =? c_rbrace) with false by (unfold c_rbrace; lia).
  replace (c =? c_lbracket) with false by (unfold c_lbracket; lia). replace (c =? c_rbracket) with false by (unfold c_rbracket; lia).
  replace (c =? c_lparen) with false by (unfold c_lparen; lia). replace (c =? c_rparen) with false by (unfold c_rparen; lia).
  replace (c =? c_comma) with false by (unfold c_comma; lia). replace (c =? c_dot) with false by (unfold c_dot; lia).
  replace (c =? c_quote) with false by (unfold c_quote; lia). replace (c =? c_plus) with false by (unfold c_plus; lia).
  replace (c =? c_minus) with false by (unfold c_minus; lia).
  replace (is_operator_char c) with false by (unfold is_operator_char, zmem; cbn [existsb]; lia).
  replace (c =? c_dquote) with false by (unfold c_dquote; lia).
  unfold is_identifier_start. rewrite H. reflexivity.
Qed.

(* what follows the symbol, as the reader leaves it *)
Definition sym_rest (wn : list N) (S2 : list Z) : list Z := after_dcolon (if nonempty wn then S2 else spush S2).
Lemma ends_sym_rest wn S2 r : ends S2 r -> ends (sym_rest wn S2) r.
Proof. intros H. unfold sym_rest. apply ends_after_dcolon. destruct (nonempty wn); [exact H|now apply ends_spush]. Qed.

(* the version marker: an unannotated $ion_1_0 at the top level *)
Definition is_ivm (id : list N) (ctx : list ctype) (ann : list tok) : bool :=
  list_eqb id (s "$ion_1_0"%string) && match ctx with [] => true | _ => false end && match ann with [] => true | _ => false end.

Lemma ident_first id rest : ident_chars id ->
  exists c r, id = c :: r /\ is_identifier_start (Z.of_N c) = true /\ zs id ++ rest = Z.of_N c :: zs r ++ rest.
Proof. intros [c r Hc Hr]. exists c, r. split; [reflexivity|]. split; [now apply id_start_model|reflexivity]. Qed.
Lemma ident_start_stop c r : is_identifier_start c = true -> ws_stop (c :: r) = true /\ after_stop (c :: r) = r.
Proof.
  intros H. unfold is_identifier_start in H. split.
  - apply ws_stop_cons; [unfold is_whitespace, zmem; cbn [existsb]; lia|unfold c_slash; lia].
  - apply after_stop_cons. unfold c_slash. lia.
Qed.

(* the common part: an identifier that is not followed by `::`, up to onSymbol *)
Definition lst_marker (ty : N) (ctx : list ctype) (ann : list tok) : bool :=
  (ty =? TStruct)%N && match ctx with [] => true | _ => false end && is_ion_symbol_table ann.

Lemma next_ident_gen w id wn S2 S' k' ty v k0 ctx lst fld ann ty0 v0 kk fuel :
  ws_run w -> no_cr w -> ident_chars id -> is_ivm id ctx ann = false ->
  ws_run wn -> no_cr wn -> ws_stop S2 = true -> dcolon S2 = false ->
  is_identifier_part (shead (zs wn ++ S2)) = false ->
  rrun (on_symbol id (nonempty wn))
       (mkax (sym_rest wn S2) tokenSymbol false BTA ctx false false lst fld ann ty0 v0) tt
       (mkax S' k' false (after_value_state ctx) ctx false false lst fld ann ty v) ->
  lst_marker ty ctx ann = false \/ v <> XNil ->
  rrun (x_next_loop pd pt api (S kk) fuel)
       (mkax (zs w ++ zs id ++ zs wn ++ S2) k0 false BTA ctx false false lst fld ann ty0 v0) true
       (mkax S' k' false (after_value_state ctx) ctx false false lst fld ann ty v).
Proof.
  intros Hw Hcr Hid Hivm Hwn Hcrn Hs2 Hdc Hnp Hon Hmk x Hi Ha.
  destruct (ident_first id (zs wn ++ S2) Hid) as (c & r & Eid & Hc & Est).
  destruct (ident_start_stop (Z.of_N c) (zs r ++ zs wn ++ S2) Hc) as [Hst Has].
  destruct (loop_sym w (zs id ++ zs wn ++ S2) k0 tokenSymbol true (zs id ++ zs wn ++ S2) ctx lst fld ann ty0 v0 true
              (mkax S' k' false (after_value_state ctx) ctx false false lst fld ann ty v)
              kk fuel Hw Hcr) with (x := x) as (x2 & Hi2 & Ha2 & E); auto.
  - rewrite Est. exact Hst.
  - rewrite Est. cbn [shead]. rewrite Has, (dispatch_ident _ Hc).
    eapply runK_bind; [apply run_runK, run_unread|]. apply runK_t_ok.
  - apply rrun_rget_bind. intros y Hy Hay. xfields Hay. unfold sym_branch.
    eapply rrun_bind; [apply rrun_lift; cbn [a_s a_k a_u]; apply (run_read_value_symbol id (zs wn ++ S2) _ _ Hid Hnp)|].
    unfold ax_tok. cbn [a_s a_k a_u a_state a_ctx a_eof a_err a_lst a_field a_annots a_type a_value].
    rewrite spush_app.
    eapply rrun_bind.
    { apply rrun_lift_run. cbn [a_s].
      apply (run_skip_double_colon_no wn (if nonempty wn then S2 else spush S2) Hwn Hcrn).
      - destruct (nonempty wn); [exact Hs2|now rewrite ws_stop_spush].
      - destruct (nonempty wn); [exact Hdc|now rewrite dcolon_spush]. }
    cbv beta iota. unfold ax_tok. cbn [a_s a_k a_u a_state a_ctx a_eof a_err a_lst a_field a_annots a_type a_value].
    fold (sym_rest wn S2).
    assert (Hiv : (tokenSymbol =? tokenSymbol)%N && list_eqb id (s "$ion_1_0"%string) && x_at_top y
                  && match x_annots y with [] => true | _ :: _ => false end = false).
    { unfold x_at_top. rewrite Fctx, Fannots. unfold is_ivm in Hivm. cbn [N.eqb Pos.eqb tokenSymbol andb]. exact Hivm. }
    rewrite Hiv. tok_cbn.
    eapply rrun_bind; [exact Hon|].
    apply rrun_rget_bind. intros z Hz Haz. xfields Haz.
    assert (Hm : (x_type z =? TStruct)%N && x_is_null z && x_at_top z && is_ion_symbol_table (x_annots z) = false).
    { unfold x_at_top, x_is_null. rewrite Ftype0, Fvalue0, Fctx0, Fannots0. destruct Hmk as [Hmk|Hmk].
      - unfold lst_marker in Hmk. destruct ((ty =? TStruct)%N); [|reflexivity]. cbn [andb] in *.
        destruct (negb (ty =? 0)%N && match v with XNil => true | _ => false end); [|reflexivity]. cbn [andb]. exact Hmk.
      - destruct v; try contradiction; now rewrite !andb_false_r. }
    rewrite Hm. apply rrun_ret.
  - exists x2. rewrite E. xfields Ha2. rewrite Feof. auto.
Qed.

(* identifiers that are symbols: their own text, or $n *)
Lemma next_ident w id k wn S2 k0 ctx lst fld ann ty0 v0 kk fuel :
  ws_run w -> no_cr w -> ident_chars id -> is_keyword id = false -> is_ivm id ctx ann = false ->
  new_symbol_token lst id = Ok k ->
  ws_run wn -> no_cr wn -> ws_stop S2 = true -> dcolon S2 = false ->
  is_identifier_part (shead (zs wn ++ S2)) = false ->
  rrun (x_next_loop pd pt api (S kk) fuel)
       (mkax (zs w ++ zs id ++ zs wn ++ S2) k0 false BTA ctx false false lst fld ann ty0 v0) true
       (mkax (sym_rest wn S2) tokenSymbol false (after_value_state ctx) ctx false false lst fld ann TSymbol (XSymbol k)).
Proof.
  intros Hw Hcr Hid Hkw Hivm Hk Hwn Hcrn Hs2 Hdc Hnp.
  apply next_ident_gen; auto.
  - unfold on_symbol. unfold is_keyword in Hkw.
    apply orb_false_iff in Hkw as [Hkw K4]. apply orb_false_iff in Hkw as [Hkw K3]. apply orb_false_iff in Hkw as [K1 K2].
    rewrite K1, K2, K3, K4.
    apply rrun_rget_bind. intros z Hz Haz. xfields Haz. rewrite Flst.
    eapply rrun_bind; [apply rrun_of_res; exact Hk|]. apply rrun_set_value.
Qed.

(* true, false, nan *)
Definition keyword_value (id : list N) : option (N * xvalue) :=
  if list_eqb id (s "true"%string) then Some (TBool, XBool true)
  else if list_eqb id (s "false"%string) then Some (TBool, XBool false)
  else if list_eqb id (s "nan"%string) then Some (TFloat, XFloatBits canonical_nan64)
  else None.
Lemma keyword_ident id ty v : keyword_value id = Some (ty, v) -> ident_chars id /\ list_eqb id (s "null"%string) = false.
Proof.
  unfold keyword_value. intros H.
  assert (Hid : id = s "true"%string \/ id = s "false"%string \/ id = s "nan"%string).
  { destruct (list_eqb id (s "true"%string)) eqn:E1; [left; now apply list_eqb_eq|].
    destruct (list_eqb id (s "false"%string)) eqn:E2; [right; left; now apply list_eqb_eq|].
    destruct (list_eqb id (s "nan"%string)) eqn:E3; [right; right; now apply list_eqb_eq|discriminate]. }
  destruct Hid as [->|[->| ->]]; (split; [|reflexivity]);
    (constructor; [unfold id_start, letter; cbn; lia|]);
    repeat (apply Forall_cons; [unfold id_part, id_start, letter, digit; cbn; lia|]); apply Forall_nil.
Qed.
Lemma next_keyword w id ty v wn S2 k0 ctx lst fld ann ty0 v0 kk fuel :
  ws_run w -> no_cr w -> keyword_value id = Some (ty, v) ->
  ws_run wn -> no_cr wn -> ws_stop S2 = true -> dcolon S2 = false ->
  is_identifier_part (shead (zs wn ++ S2)) = false ->
  rrun (x_next_loop pd pt api (S kk) fuel)
       (mkax (zs w ++ zs id ++ zs wn ++ S2) k0 false BTA ctx false false lst fld ann ty0 v0) true
       (mkax (sym_rest wn S2) tokenSymbol false (after_value_state ctx) ctx false false lst fld ann ty v).
Proof.
  intros Hw Hcr Hkv Hwn Hcrn Hs2 Hdc Hnp. destruct (keyword_ident id ty v Hkv) as [Hid Hnull].
  assert (Hnn : v <> XNil).
  { unfold keyword_value in Hkv. destruct (list_eqb id (s "true"%string)); [injection Hkv as <- <-; discriminate|].
    destruct (list_eqb id (s "false"%string)); [injection Hkv as <- <-; discriminate|].
    destruct (list_eqb id (s "nan"%string)); [injection Hkv as <- <-; discriminate|discriminate]. }
  apply next_ident_gen; auto.
  - unfold is_ivm. unfold keyword_value in Hkv.
    destruct (list_eqb id (s "$ion_1_0"%string)) eqn:E; [|reflexivity]. apply list_eqb_eq in E. subst id. discriminate Hkv.
  - unfold on_symbol. rewrite Hnull. unfold keyword_value in Hkv.
    destruct (list_eqb id (s "true"%string)); [injection Hkv as <- <-; apply rrun_set_value|].
    destruct (list_eqb id (s "false"%string)); [injection Hkv as <- <-; apply rrun_set_value|].
    destruct (list_eqb id (s "nan"%string)); [injection Hkv as <- <-; apply rrun_set_value|discriminate].
Qed.

(* ---- null and null.<type> ------------------------------------------------------------------------------------------------ *)
Lemma null_ident : ident_chars (s "null"%string).
Proof.
  constructor; [unfold id_start, letter; cbn; lia|].
  repeat (apply Forall_cons; [unfold id_part, id_start, letter, digit; cbn; lia|]); apply Forall_nil.
Qed.
Lemma run_skip_dot_no S1 : shead S1 <> c_dot -> run t_skip_dot S1 false (spush S1).
Proof.
  intros H. unfold t_skip_dot. eapply run_bind; [apply run_peek|].
  destruct (Z.eqb_spec (shead S1) c_dot); [contradiction|]. apply run_ret.
Qed.
Lemma shead_after_dcolon S2 : shead (after_dcolon S2) = shead S2.
Proof. unfold after_dcolon. now rewrite shead_pks. Qed.

(* `null` followed by whitespace or by something that is neither an identifier character nor a dot *)
Lemma next_null w wn S2 k0 ctx lst fld ann ty0 v0 kk fuel :
  ws_run w -> no_cr w ->
  ws_run wn -> no_cr wn -> ws_stop S2 = true -> dcolon S2 = false ->
  is_identifier_part (shead (zs wn ++ S2)) = false -> (wn = [] -> shead S2 <> c_dot) ->
  rrun (x_next_loop pd pt api (S kk) fuel)
       (mkax (zs w ++ zs (s "null"%string) ++ zs wn ++ S2) k0 false BTA ctx false false lst fld ann ty0 v0) true
       (mkax (if nonempty wn then sym_rest wn S2 else spush (sym_rest wn S2)) tokenSymbol false
             (after_value_state ctx) ctx false false lst fld ann TNull XNil).
Proof.
  intros Hw Hcr Hwn Hcrn Hs2 Hdc Hnp Hdot.
  apply next_ident_gen; auto; [apply null_ident|].
  unfold on_symbol. change (list_eqb (s "null"%string) (s "null"%string)) with true. cbv iota. unfold on_null.
  destruct (nonempty wn) eqn:Ewn; cbn [negb].
  - eapply rrun_bind; [apply rrun_ret|]. apply rrun_set_value.
  - eapply rrun_bind.
    { eapply rrun_bind; [apply rrun_lift_run; cbn [a_s]; apply run_skip_dot_no|].
      - unfold sym_rest. rewrite Ewn, shead_after_dcolon, shead_spush. apply Hdot. destruct wn; [reflexivity|discriminate].
      - cbv iota. apply rrun_ret. }
    unfold ax_tok. cbn [a_s a_k a_u a_state a_ctx a_eof a_err a_lst a_field a_annots a_type a_value].
    apply rrun_set_value.
Qed.

Lemma null_type_ident tn ty : null_type_of tn = Some ty -> ident_chars tn.
Proof.
  unfold null_type_of. intros H.
  repeat match type of H with
  | (if list_eqb tn ?x then _ else _) = _ =>
      let E := fresh "E" in destruct (list_eqb tn x) eqn:E;
      [apply list_eqb_eq in E; subst tn; clear H;
       (constructor; [unfold id_start, letter; cbn; lia|]);
       repeat (apply Forall_cons; [unfold id_part, id_start, letter, digit; cbn; lia|]); apply Forall_nil|]
  end. discriminate H.
Qed.

(* `null.` directly followed by a type name *)
Lemma next_typed_null w tn ty s3 k0 ctx lst fld ann ty0 v0 kk fuel :
  ws_run w -> no_cr w -> null_type_of tn = Some ty -> is_identifier_part (shead s3) = false ->
  lst_marker ty ctx ann = false ->
  rrun (x_next_loop pd pt api (S kk) fuel)
       (mkax (zs w ++ zs (s "null"%string) ++ 46 :: zs tn ++ s3) k0 false BTA ctx false false lst fld ann ty0 v0) true
       (mkax (spush s3) tokenSymbol false (after_value_state ctx) ctx false false lst fld ann ty XNil).
Proof.
  intros Hw Hcr Hty Hs3 Hmk. pose proof (null_type_ident tn ty Hty) as Htn.
  destruct (ident_first tn s3 Htn) as (c & r & Etn & Hc & Est).
  set (S2 := 46 :: zs tn ++ s3).
  apply (next_ident_gen w (s "null"%string) [] S2); auto; try apply null_ident; try constructor.
  unfold on_symbol. change (list_eqb (s "null"%string) (s "null"%string)) with true. cbv iota. unfold on_null.
  cbn [nonempty negb].
  assert (Hrest : sym_rest [] S2 = 46 :: zs tn ++ s3).
  { unfold sym_rest, after_dcolon, S2. cbn [nonempty]. rewrite spush_cons. cbn [shead].
    rewrite after_stop_cons by discriminate. rewrite Est. cbn [pks].
    change (46 =? -1) with false. cbv iota. f_equal. cbn [pks]. destruct (Z.eqb_spec (Z.of_N c) (-1)); [lia|reflexivity]. }
  rewrite Hrest.
  eapply rrun_bind; [|apply rrun_set_value].
  eapply rrun_bind.
  { apply rrun_lift_run. cbn [a_s]. unfold t_skip_dot. eapply run_bind; [apply run_peek_cons|].
    change (46 =? c_dot) with true. cbn [negb]. eapply run_bind; [apply run_read_cons|]. apply run_ret. }
  cbv iota. unfold ax_tok. cbn [a_s a_k a_u a_state a_ctx a_eof a_err a_lst a_field a_annots a_type a_value].
  unfold read_null_type.
  eapply rrun_bind; [apply rrun_lift_run; cbn [a_s]; rewrite Est; apply run_peek_cons|].
  rewrite Hc. cbn [negb].
  unfold ax_tok. cbn [a_s a_k a_u a_state a_ctx a_eof a_err a_lst a_field a_annots a_type a_value].
  destruct (ident_start_stop (Z.of_N c) (zs r ++ s3) Hc) as [Hst Has].
  eapply rrun_bind.
  { apply rrun_lift. cbn [a_s a_k a_u].
    apply (runK_t_next [] (Z.of_N c :: zs r ++ s3) tokenSymbol (zs tn ++ s3, tokenSymbol, true)); [constructor|constructor|exact Hst|].
    cbn [shead]. rewrite Has, (dispatch_ident _ Hc).
    eapply runK_bind; [apply run_runK, run_unread|]. rewrite Est. apply runK_t_ok. }
  unfold ax_tok. cbn [a_s a_k a_u a_state a_ctx a_eof a_err a_lst a_field a_annots a_type a_value].
  apply rrun_rget_bind. intros z Hz Haz. xfields Haz. rewrite Fk. tok_cbn.
  eapply rrun_bind; [apply rrun_lift; cbn [a_s a_k a_u]; apply (run_read_value_symbol tn s3 _ _ Htn Hs3)|].
  rewrite Hty. unfold ax_tok. cbn [a_s a_k a_u a_state a_ctx a_eof a_err a_lst a_field a_annots a_type a_value].
  apply rrun_ret.
Qed.

(* ---- quoted symbols --------------------------------------------------------------------------------------------------------- *)
Lemma peek2_pks r : snd (peek2 r) = pks 2 r.
Proof.
  unfold peek2. destruct r as [|c [|d r]]; cbn [shead stail pks].
  - reflexivity.
  - destruct (Z.eqb_spec c (-1)) as [->|]; reflexivity.
  - destruct (Z.eqb_spec c (-1)) as [->|]; [reflexivity|]. destruct (Z.eqb_spec d (-1)) as [->|]; reflexivity.
Qed.
Lemma shead_stail_pks n s : shead (stail (pks n s)) = shead (stail s).
Proof.
  destruct n as [|n]; [reflexivity|]. cbn [pks]. destruct s as [|c r]; [reflexivity|].
  destruct (c =? -1); [reflexivity|]. cbn [stail]. apply shead_pks.
Qed.
Lemma ws_stop_pks n s : ws_stop (pks n s) = ws_stop s.
Proof. unfold ws_stop. now rewrite shead_pks, shead_stail_pks. Qed.
Lemma dcolon_pks n s : dcolon (pks n s) = dcolon s.
Proof. unfold dcolon. now rewrite shead_pks, shead_stail_pks. Qed.

(* the token `'` body `'` *)
Lemma runK_dispatch_quoted body s k0 :
  (body = [] -> shead s <> 39) -> (forall c r, body = c :: r -> c <> 39%N) ->
  runK (next_dispatch 39) (zs body ++ 39 :: s, k0, false) tt
       (zs body ++ 39 :: pks (1 - length body) s, tokenSymbolQuoted, true).
Proof.
  intros H0 H1.
  change (next_dispatch 39) with (tdo ok <- t_is_triple_quote; if ok then t_ok tokenLongString true else t_ok tokenSymbolQuoted true).
  eapply runK_bind; [apply run_runK, run_is_triple_quote|].
  assert (Ht : triple (zs body ++ 39 :: s) = false).
  { unfold triple. destruct body as [|c r]; cbn [zs map app shead stail].
    - change (39 =? 39) with true. cbn [andb]. specialize (H0 eq_refl). lia.
    - specialize (H1 c r eq_refl). lia. }
  rewrite Ht, peek2_pks. cbv iota.
  replace (pks 2 (zs body ++ 39 :: s)) with (zs body ++ 39 :: pks (1 - length body) s); [apply runK_t_ok|].
  change (zs body ++ 39 :: s) with (zs body ++ zs [39%N] ++ s). rewrite app_assoc, <- zs_app, pks_zs_app, zs_app, <- app_assoc.
  cbn [zs map app]. f_equal. f_equal. f_equal. rewrite app_length. cbn [length]. lia.
Qed.


Lemma qbody_first body text : qbody 39 body text -> forall c r, body = c :: r -> c <> 39%N.
Proof.
  intros H c r E. destruct H as [|c' w t Hc Hw|e cp w t He Hw|nl w t Hn Hw]; try discriminate.
  - injection E as <- <-. destruct Hc as (Hc & _). exact Hc.
  - cbn [app] in E. injection E as <- _. discriminate.
  - cbn [app] in E. injection E as <- _. discriminate.
Qed.

Lemma ws_run_head_not_id wn SS :
  ws_run wn -> is_identifier_part (shead SS) = false -> is_identifier_part (shead (zs wn ++ SS)) = false.
Proof.
  intros Hw Hs. inversion Hw as [|c w' Hc Hw'|body nl w' Hb Hn Hw'|body w' Hb Hw']; subst; cbn [zs map app shead]; auto.
  unfold ws_byte in Hc. unfold is_identifier_part, is_identifier_start, is_digit. lia.
Qed.

Lemma next_quoted w body text wn S2 k0 ctx lst fld ann ty0 v0 kk fuel :
  ws_run w -> no_cr w -> qbody 39 body text -> no_cr body -> utf8_valid text = true ->
  (body = [] -> shead (zs wn ++ S2) <> 39) ->
  ws_run wn -> no_cr wn -> ws_stop S2 = true -> dcolon S2 = false ->
  rrun (x_next_loop pd pt api (S kk) fuel)
       (mkax (zs w ++ 39 :: zs body ++ 39 :: zs wn ++ S2) k0 false BTA ctx false false lst fld ann ty0 v0) true
       (mkax (after_dcolon (pks (1 - length body - length wn) S2)) tokenSymbolQuoted false (after_value_state ctx) ctx false false lst fld ann
             TSymbol (XSymbol (tok_text text))).
Proof.
  intros Hw Hcr Hb Hcb Hu H0 Hwn Hcrn Hs2 Hdc.
  intros x Hi Ha.
  set (S2p := pks (1 - length body - length wn) S2).
  destruct (loop_sym w (39 :: zs body ++ 39 :: zs wn ++ S2) k0 tokenSymbolQuoted true (zs body ++ 39 :: zs wn ++ S2p)
              ctx lst fld ann ty0 v0 true
              (mkax (after_dcolon S2p) tokenSymbolQuoted false (after_value_state ctx) ctx false false lst fld ann
                    TSymbol (XSymbol (tok_text text)))
              kk fuel Hw Hcr) with (x := x) as (x2 & Hi2 & Ha2 & E); auto.
  - cbn [shead]. change (after_stop (39 :: zs body ++ 39 :: zs wn ++ S2)) with (zs body ++ 39 :: zs wn ++ S2).
    eapply eq_rect; [apply (runK_dispatch_quoted body (zs wn ++ S2) k0 H0 (qbody_first body text Hb))|].
    f_equal. f_equal. f_equal. f_equal. unfold S2p. rewrite pks_zs_app. reflexivity.
  - apply rrun_rget_bind. intros y Hy Hay. xfields Hay. unfold sym_branch.
    eapply rrun_bind.
    { apply rrun_lift. cbn [a_s a_k a_u].
      apply (runK_read_value tokenSymbolQuoted read_quoted_symbol); [reflexivity|].
      apply (run_read_quoted_symbol body text _ Hb Hcb Hu). }
    unfold ax_tok. cbn [a_s a_k a_u a_state a_ctx a_eof a_err a_lst a_field a_annots a_type a_value].
    eapply rrun_bind.
    { apply rrun_lift_run. cbn [a_s]. apply (run_skip_double_colon_no wn S2p Hwn Hcrn).
      - unfold S2p. now rewrite ws_stop_pks.
      - unfold S2p. now rewrite dcolon_pks. }
    cbv beta iota. unfold ax_tok. cbn [a_s a_k a_u a_state a_ctx a_eof a_err a_lst a_field a_annots a_type a_value].
    tok_cbn. eapply rrun_bind; [apply rrun_set_value|]. apply rrun_ret.
  - exists x2. rewrite E. xfields Ha2. rewrite Feof. auto.
Qed.

(* ---- annotations: a symbol followed by `::` ----------------------------------------------------------------------------------- *)
Lemma ann_step_ident w id k wn r k0 ctx lst fld ann ty0 v0 kk fuel b X' :
  ws_run w -> no_cr w -> ident_chars id -> is_keyword id = false -> new_symbol_token lst id = Ok k ->
  ws_run wn -> no_cr wn ->
  rrun (x_next_loop pd pt api kk fuel) (mkax r tokenSymbol false BTA ctx false false lst fld (ann ++ [k]) ty0 v0) b X' ->
  rrun (x_next_loop pd pt api (S kk) fuel)
       (mkax (zs w ++ zs id ++ zs wn ++ 58 :: 58 :: r) k0 false BTA ctx false false lst fld ann ty0 v0) b X'.
Proof.
  intros Hw Hcr Hid Hkw Hk Hwn Hcrn Hrest x Hi Ha.
  set (s1 := zs wn ++ 58 :: 58 :: r).
  assert (Hnp : is_identifier_part (shead s1) = false) by (apply ws_run_head_not_id; [exact Hwn|reflexivity]).
  destruct (ident_first id s1 Hid) as (c & r0 & Eid & Hc & Est).
  destruct (ident_start_stop (Z.of_N c) (zs r0 ++ s1) Hc) as [Hst Has].
  destruct (loop_sym w (zs id ++ s1) k0 tokenSymbol true (zs id ++ s1) ctx lst fld ann ty0 v0 false
              (mkax r tokenSymbol false BTA ctx false false lst fld (ann ++ [k]) ty0 v0)
              kk fuel Hw Hcr) with (x := x) as (x2 & Hi2 & Ha2 & E); auto.
  - rewrite Est. exact Hst.
  - rewrite Est. cbn [shead]. rewrite Has, (dispatch_ident _ Hc).
    eapply runK_bind; [apply run_runK, run_unread|]. apply runK_t_ok.
  - apply rrun_rget_bind. intros y Hy Hay. xfields Hay. unfold sym_branch.
    eapply rrun_bind; [apply rrun_lift; cbn [a_s a_k a_u]; apply (run_read_value_symbol id s1 _ _ Hid Hnp)|].
    unfold ax_tok. cbn [a_s a_k a_u a_state a_ctx a_eof a_err a_lst a_field a_annots a_type a_value].
    assert (Hsp : spush s1 = s1) by (unfold s1; destruct wn; reflexivity). rewrite Hsp.
    eapply rrun_bind; [apply rrun_lift_run; cbn [a_s]; apply (run_skip_double_colon_yes wn r Hwn Hcrn)|].
    cbv beta iota. unfold ax_tok. cbn [a_s a_k a_u a_state a_ctx a_eof a_err a_lst a_field a_annots a_type a_value].
    rewrite Hkw. tok_cbn.
    apply rrun_rget_bind. intros z Hz Haz. xfields Haz. rewrite Flst0.
    eapply rrun_bind; [apply rrun_of_res; exact Hk|].
    eapply rrun_bind; [|apply rrun_ret].
    apply rrun_rmod. intros z' Haz'. xfields Haz'. split; [|reflexivity].
    unfold xabs. cbn [x_tok x_state x_ctx x_eof x_err x_lst x_field x_annots x_type x_value xs_annots].
    rewrite Fs1, Fk1, Fu1, Fst1, Fctx1, Feof1, Ferr1, Flst1, Ffield1, Fannots1, Ftype1, Fvalue1. reflexivity.
  - rewrite E. exact (Hrest x2 Hi2 Ha2).
Qed.

Lemma ann_step_quoted w body text wn r k0 ctx lst fld ann ty0 v0 kk fuel b X' :
  ws_run w -> no_cr w -> qbody 39 body text -> no_cr body -> utf8_valid text = true ->
  (body = [] -> shead (zs wn ++ 58 :: 58 :: r) <> 39) ->
  ws_run wn -> no_cr wn ->
  rrun (x_next_loop pd pt api kk fuel)
       (mkax r tokenSymbolQuoted false BTA ctx false false lst fld (ann ++ [tok_text text]) ty0 v0) b X' ->
  rrun (x_next_loop pd pt api (S kk) fuel)
       (mkax (zs w ++ 39 :: zs body ++ 39 :: zs wn ++ 58 :: 58 :: r) k0 false BTA ctx false false lst fld ann ty0 v0) b X'.
Proof.
  intros Hw Hcr Hb Hcb Hu H0 Hwn Hcrn Hrest x Hi Ha.
  set (s1 := zs wn ++ 58 :: 58 :: r).
  assert (Hpk : pks (1 - length body) s1 = s1).
  { unfold s1. rewrite pks_zs_app. f_equal.
    assert (Hle : (1 - length body - length wn <= 1)%nat) by lia.
    destruct (1 - length body - length wn)%nat as [|[|n]]; [reflexivity|reflexivity|lia]. }
  destruct (loop_sym w (39 :: zs body ++ 39 :: s1) k0 tokenSymbolQuoted true (zs body ++ 39 :: s1)
              ctx lst fld ann ty0 v0 false
              (mkax r tokenSymbolQuoted false BTA ctx false false lst fld (ann ++ [tok_text text]) ty0 v0)
              kk fuel Hw Hcr) with (x := x) as (x2 & Hi2 & Ha2 & E); auto.
  - cbn [shead]. change (after_stop (39 :: zs body ++ 39 :: s1)) with (zs body ++ 39 :: s1).
    eapply eq_rect; [apply (runK_dispatch_quoted body s1 k0 H0 (qbody_first body text Hb))|].
    now rewrite Hpk.
  - apply rrun_rget_bind. intros y Hy Hay. xfields Hay. unfold sym_branch.
    eapply rrun_bind.
    { apply rrun_lift. cbn [a_s a_k a_u].
      apply (runK_read_value tokenSymbolQuoted read_quoted_symbol); [reflexivity|].
      apply (run_read_quoted_symbol body text _ Hb Hcb Hu). }
    unfold ax_tok. cbn [a_s a_k a_u a_state a_ctx a_eof a_err a_lst a_field a_annots a_type a_value].
    eapply rrun_bind; [apply rrun_lift_run; cbn [a_s]; apply (run_skip_double_colon_yes wn r Hwn Hcrn)|].
    cbv beta iota. unfold ax_tok. cbn [a_s a_k a_u a_state a_ctx a_eof a_err a_lst a_field a_annots a_type a_value].
    tok_cbn.
    apply rrun_rget_bind. intros z Hz Haz. xfields Haz.
    eapply rrun_bind; [apply rrun_ret|].
    eapply rrun_bind; [|apply rrun_ret].
    apply rrun_rmod. intros z' Haz'. xfields Haz'. split; [|reflexivity].
    unfold xabs. cbn [x_tok x_state x_ctx x_eof x_err x_lst x_field x_annots x_type x_value xs_annots].
    rewrite Fs1, Fk1, Fu1, Fst1, Fctx1, Feof1, Ferr1, Flst1, Ffield1, Fannots1, Ftype1, Fvalue1. reflexivity.
  - rewrite E. exact (Hrest x2 Hi2 Ha2).
Qed.

(* ---- +inf and -inf ------------------------------------------------------------------------------------------------------------ *)
Lemma run_is_inf c s :
  c = c_plus \/ c = c_minus -> terminated s = true ->
  run (t_is_inf c) (105 :: 110 :: 102 :: s) true (pks 2 s).
Proof.
  intros Hc Hs. unfold t_is_inf.
  replace (negb ((c =? c_plus) || (c =? c_minus))) with false by (destruct Hc as [-> | ->]; reflexivity).
  eapply run_bind; [apply run_peekN_pk|].
  assert (Hpks : pks 5 (105 :: 110 :: 102 :: s) = 105 :: 110 :: 102 :: pks 2 s).
  { change (105 :: 110 :: 102 :: s) with (zs [105; 110; 102]%N ++ s). rewrite pks_zs_app. reflexivity. }
  rewrite Hpks. clear Hpks.
  assert (Hpk : pk 5 (105 :: 110 :: 102 :: s) = (105 :: 110 :: 102 :: fst (pk 2 s), snd (pk 2 s))).
  { rewrite pk_cons by discriminate. rewrite pk_cons by discriminate. rewrite pk_cons by discriminate. reflexivity. }
  rewrite Hpk. cbv beta iota. cbn [length znth nth].
  change ((S (S (S (length (fst (pk 2 s))))) <? 3)%nat) with false.
  change ((105 =? 105) && (110 =? 110) && (102 =? 102)) with true. cbn [orb negb].
  assert (Hgo : run (tdo _ <- t_skipN 3; ret true) (105 :: 110 :: 102 :: pks 2 s) true (pks 2 s)).
  { eapply run_bind; [apply (run_skipN 3 [105; 110; 102] (pks 2 s)); [reflexivity|repeat constructor; discriminate]|]. apply run_ret. }
  unfold terminated, stops in Hs.
  destruct s as [|a r]; [exact Hgo|]. cbn [shead stail] in Hs.
  destruct (Z.eqb_spec a (-1)) as [->|Ha]; [cbn [pk]; exact Hgo|].
  rewrite pk_cons by exact Ha. cbn [fst length nth].
  change ((S (S (S (S (length (fst (pk 1 r)))))) =? 3)%nat) with false. cbn [orb].
  destruct (is_stop_char a) eqn:Hst; [exact Hgo|]. cbn [orb] in Hs. apply andb_true_iff in Hs as [Hs1 Hs2]. rewrite Hs1. cbn [andb].
  destruct r as [|b r']; [cbn [shead] in Hs2; discriminate Hs2|]. cbn [shead] in Hs2.
  assert (Hb : b <> -1) by (unfold c_slash, c_star in Hs2; lia).
  rewrite pk_cons by exact Hb. cbn [fst length nth].
  change ((4 <? S (S (S (S (S (length (fst (pk 0 r'))))))))%nat) with true. rewrite Hs2. exact Hgo.
Qed.

Lemma next_inf (neg : bool) w s k0 ctx lst fld ann ty0 v0 kk fuel :
  ws_run w -> no_cr w -> terminated s = true ->
  rrun (x_next_loop pd pt api (S kk) fuel)
       (mkax (zs w ++ (if neg then 45 else 43) :: 105 :: 110 :: 102 :: s) k0 false BTA ctx false false lst fld ann ty0 v0) true
       (mkax (pks 2 s) (if neg then tokenFloatMinusInf else tokenFloatInf) false (after_value_state ctx) ctx false false
             lst fld ann TFloat (XFloatBits (if neg then neg_inf_bits else inf_bits))).
Proof.
  intros Hw Hcr Hs.
  eapply (loop_plain pd pt api w ((if neg then 45 else 43) :: 105 :: 110 :: 102 :: s) k0
            (if neg then tokenFloatMinusInf else tokenFloatInf) false (pks 2 s)); auto.
  - destruct neg; reflexivity.
  - cbn [shead].
    replace (after_stop ((if neg then 45 else 43) :: 105 :: 110 :: 102 :: s)) with (105 :: 110 :: 102 :: s)
      by (destruct neg; reflexivity).
    destruct neg.
    + change (next_dispatch 45) with
        (tdo c2 <- t_peek;
         if is_digit c2 then
           tdo _ <- t_read; tdo k <- t_scan_numeric c2;
           if (k =? tokenTimestamp)%N then fail else tdo _ <- t_unread c2; tdo _ <- t_unread 45; t_ok k true
         else tdo ok <- t_is_inf 45; if ok then t_ok tokenFloatMinusInf false
              else tdo _ <- t_unread 45; t_ok tokenSymbolOperator true).
      eapply runK_bind; [apply run_runK, run_peek_cons|]. change (is_digit 105) with false. cbv iota.
      eapply runK_bind; [apply run_runK, (run_is_inf 45 s); [now right|exact Hs]|]. cbv iota. apply runK_t_ok.
    + change (next_dispatch 43) with
        (tdo ok <- t_is_inf 43; if ok then t_ok tokenFloatInf false else tdo _ <- t_unread 43; t_ok tokenSymbolOperator true).
      eapply runK_bind; [apply run_runK, (run_is_inf 43 s); [now left|exact Hs]|]. cbv iota. apply runK_t_ok.
  - destruct neg; reflexivity.
  - unfold plain_handler. destruct neg; tok_cbn; unfold on_number; tok_cbn;
      (eapply rrun_bind; [apply rrun_set_value|]); apply rrun_ret.
Qed.
End Values.
