(* SpellTreeEx.v — C02: an example for the nested-value theorem of SpellTree.v (the hypotheses are satisfiable on a
   non-trivial input), and the cross-check of the same input with the specification decoder. *)
From Coq Require Import String List NArith ZArith Bool Lia ZifyBool ZifyN ZifyNat.
From IonV Require Import Base.Wire Base.Utf8 Data.Ion Bin.Bits Bin.BitStream Bin.BinReader Num.Float Text.Tokenizer Text.Skipper
  Text.TextReader Text.TextNum Text.SpecText Text.SpellBase Text.SpellWs Text.SpellNum Text.SpellTok Text.SpellRead
  Text.SpellEsc Text.SpellStr Text.SpellLong Text.SpellIdent Text.SpellSym Text.SpellTs Text.SpellBlob
  Text.SpellVal Text.SpellSymVal Text.SpellStream Text.SpellCont Text.SpellTree.
Import ListNotations.
Open Scope Z_scope.

Notation PD := parse_decimal_text.
Notation PT := parse_ts_text.

Definition tree_example : list N := s " [1, (a <=> " ++ [34]%N ++ s "b" ++ [34]%N ++ s ")  , ] {x:2,'y':[]}".
Definition tk (t : string) (sid : Z) : tok := {| tk_text := Some (s t); tk_sid := sid |}.
Definition tree_example_values : list tval :=
  [ TCont [] TList [ (None, TScalar [] TInt (XInt (I64 1)));
                     (None, TCont [] TSexp [ (None, TScalar [] TSymbol (XSymbol (tk "a" (-1))));
                                             (None, TScalar [] TSymbol (XSymbol (tk "<=>" (-1))));
                                             (None, TScalar [] TString (XString (s "b"))) ]) ];
    TCont [] TStruct [ (Some (tk "x" (-1)), TScalar [] TInt (XInt (I64 2)));
                       (Some (tk "y" (-1)), TCont [] TList []) ] ].

Lemma int_item ctx ann d v :
  is_dec_b d = true -> d <> 48%N ->
  num_value PD {| n_neg := false; n_iw := [d]; n_ip := [d]; n_dot := false; n_fw := []; n_fp := []; n_exp := None |}
    = Some (TInt, XInt (I64 v)) ->
  item_spells PD PT LSys ctx ann [d] f_term TInt (XInt (I64 v)).
Proof.
  intros Hd H0 Hv.
  apply (it_num PD PT LSys ctx ann {| n_neg := false; n_iw := [d]; n_ip := [d]; n_dot := false; n_fw := []; n_fp := [];
                                      n_exp := None |} TInt (XInt (I64 v))); [|exact Hv].
  split; [|split; [|split]]; cbn.
  - apply usd; [exact Hd|apply ut_nil].
  - right. exact H0.
  - auto.
  - exact I.
Qed.

Example tree_example_spells :
  exists w0 text, norm tree_example = w0 ++ text /\ ws_run w0 /\ tops_spell PD PT LSys text tree_example_values.
Proof.
  exists (s " "),
    (([91]%N ++ [] ++ ([] ++ [] ++ s "1" ++ [] ++ ([44]%N ++ s " " ++ ([40]%N ++ [] ++ ([] ++ [] ++ s "a" ++ s " " ++
       ([] ++ [] ++ s "<=>" ++ s " " ++ ([] ++ [] ++ ([34]%N ++ s "b" ++ [34]%N) ++ [] ++ [41]%N)))) ++ s "  " ++ (44%N :: s " " ++ [93]%N))))
     ++ s " " ++
     (([123]%N ++ [] ++ ((s "x" ++ [] ++ [58]%N) ++ [] ++ s "2" ++ [] ++
        ((44%N :: [] ++ ([39]%N ++ s "y" ++ [39]%N) ++ [] ++ [58]%N) ++ [] ++ ([91]%N ++ [] ++ [93]%N) ++ [] ++ [125]%N)))
      ++ [] ++ [])).
  split; [reflexivity|]. split; [apply ws_ch; [reflexivity|constructor]|].
  (* the list *)
  eapply (tp_cons PD PT LSys _ f_any _ (s " ")).
  { apply (t_cont PD PT LSys [] [91]%N [] tokenOpenBracket [] _ _).
    - apply (ao_open LSys [] [] tokenOpenBracket). now left.
    - constructor.
    - discriminate.
    - eapply (cs_item PD PT LSys _ _ [] None 0 [] (s "1") f_term _ []).
      + apply sep_none.
      + constructor.
      + reflexivity.
      + apply t_scalar, av_item. apply int_item; [reflexivity|discriminate|reflexivity].
      + constructor.
      + intros outer. reflexivity.
      + eapply (cs_item PD PT LSys _ _ [44]%N None 1 (s " ") _ f_any _ (s "  ")).
        * apply sep_comma.
        * apply ws_ch; [reflexivity|constructor].
        * discriminate.
        * apply (t_cont PD PT LSys _ [40]%N [] tokenOpenParen [] _ _).
          -- apply (ao_open LSys _ [] tokenOpenParen). right; now left.
          -- constructor.
          -- discriminate.
          -- eapply (cs_item PD PT LSys _ _ [] None 0 [] (s "a") f_ident _ (s " ")).
             ++ apply sep_none.
             ++ constructor.
             ++ reflexivity.
             ++ apply t_scalar, av_item. apply it_sym; try reflexivity.
                constructor; [unfold id_start, letter; cbn; lia|constructor].
             ++ apply ws_ch; [reflexivity|constructor].
             ++ intros outer. reflexivity.
             ++ eapply (cs_item PD PT LSys _ _ [] None 0 [] (s "<=>") (f_op 60 [61; 62]%N) _ (s " ")).
                ** apply sep_none.
                ** constructor.
                ** reflexivity.
                ** apply t_scalar, av_item. apply (it_op PD PT LSys _ _ 60%N [61; 62]%N _ eq_refl); [|reflexivity|discriminate].
                   constructor; [unfold op_char; cbn; tauto|]. repeat (apply Forall_cons; [unfold op_char; cbn; tauto|]). apply Forall_nil.
                ** apply ws_ch; [reflexivity|constructor].
                ** intros outer. repeat split; discriminate.
                ** eapply (cs_item PD PT LSys _ _ [] None 0 [] ([34]%N ++ s "b" ++ [34]%N) f_any _ []).
                   --- apply sep_none.
                   --- constructor.
                   --- reflexivity.
                   --- apply t_scalar, av_item. apply (it_str PD PT LSys _ _ (s "b") (s "b")); [|reflexivity].
                       apply qb_raw; [unfold raw_char, str_ws; cbn; lia|apply qb_nil].
                   --- constructor.
                   --- intros outer. exact I.
                   --- apply (cs_close PD PT LSys _ _ _ tokenCloseParen 0). apply cl_sexp.
        * apply ws_ch; [reflexivity|]. apply ws_ch; [reflexivity|constructor].
        * intros outer. exact I.
        * apply (cs_close PD PT LSys _ _ _ tokenCloseBracket 1). apply cl_list_comma. apply ws_ch; [reflexivity|constructor]. }
  { apply ws_ch; [reflexivity|constructor]. }
  { exact I. }
  (* the struct *)
  eapply (tp_cons PD PT LSys _ f_any _ []).
  { apply (t_cont PD PT LSys [] [123]%N [] tokenOpenBrace [] _ _).
    - apply (ao_open LSys [] [] tokenOpenBrace). right; right. split; reflexivity.
    - constructor.
    - intros _. discriminate.
    - eapply (cs_item PD PT LSys _ _ (s "x" ++ [] ++ [58]%N) (Some (tk "x" (-1))) 1 [] (s "2") f_term _ []).
      + apply sep_field; [|constructor]. apply fn_id; try reflexivity.
        constructor; [unfold id_start, letter; cbn; lia|constructor].
      + constructor.
      + discriminate.
      + apply t_scalar, av_item. apply int_item; [reflexivity|discriminate|reflexivity].
      + constructor.
      + intros outer. reflexivity.
      + eapply (cs_item PD PT LSys _ _ (44%N :: [] ++ ([39]%N ++ s "y" ++ [39]%N) ++ [] ++ [58]%N) (Some (tk "y" (-1))) 2 []
                  ([91]%N ++ [] ++ [93]%N) f_any _ []).
        * apply sep_comma_field; [constructor| |constructor].
          apply (fn_quoted LSys (s "y") (s "y")); [|reflexivity].
          apply qb_raw; [unfold raw_char, str_ws; cbn; lia|apply qb_nil].
        * constructor.
        * discriminate.
        * apply (t_cont PD PT LSys _ [91]%N [] tokenOpenBracket [] _ _).
          -- apply (ao_open LSys _ [] tokenOpenBracket). now left.
          -- constructor.
          -- discriminate.
          -- apply (cs_close PD PT LSys _ _ _ tokenCloseBracket 0). apply cl_list_bta.
        * constructor.
        * intros outer. exact I.
        * apply (cs_close PD PT LSys _ _ _ tokenCloseBrace 0). apply cl_struct. }
  { constructor. }
  { exact I. }
  apply tp_nil.
Qed.

Example tree_example_trace : x_traverse PD PT tree_example false = ttrace tree_example_values.
Proof.
  destruct tree_example_spells as (w0 & text & Hn & Hw & Hv). exact (traverse_stream_text _ w0 text _ Hn Hw Hv).
Qed.
Example tree_example_ttrace :
  join_sp (ttrace tree_example_values) =
  s "T nil a[] y11 n0 ok T nil a[] y3 n0 I1 T nil a[] y12 n0 ok T nil a[] y7 n0 k61.-1 T nil a[] y7 n0 k3c3d3e.-1 T nil a[] y8 n0 Sx62 F ok F ok T nil a[] y13 n0 ok T k78.-1 a[] y3 n0 I2 T k79.-1 a[] y11 n0 ok F ok F ok F e0 F e0 F e0".
Proof. vm_compute. reflexivity. Qed.
Example tree_example_spec :
  option_map (fun v => show_str (show_values v)) (SpecText.tdecode tree_example)
  = Some "[ I1 ( Yt61 Yt3c3d3e Sx62 ) ] { ft78 I2 ft79 [ ] }"%string.
Proof. vm_compute. reflexivity. Qed.
