(* DenoteCallsTextNullP.v — C12, text Writer, ALL calls at the byte level: the bytes written are the canonical
   text of the MARKED forest (Text/DenoteCallsText.v: an untyped null written by WriteNull() / WriteNullType(NoType)
   carries the type code 0 and is spelled `null`), and erasing the marks gives the forest that the successful
   calls denote. *)
From Coq Require Import String List NArith ZArith Bool Lia ZifyBool ZifyN ZifyNat.
From IonV Require Import Base.Wire Base.Utf8 Data.Ion Num.Float Bin.BinWriter Bin.RoundTripBinS Bin.DenoteCalls
  Text.TextOut Text.TextWriter Text.TextWriterP Text.TextRoundtrip Text.WriteSpell Text.WriteSpellOut
  Text.DenoteCallsTextP Text.DenoteCallsText.
Import ListNotations.
Open Scope N_scope.

(* ---- erasing the marks commutes with the denotation machine ------------------------------------------------- *)
Lemma nz_attach a v : nz (attach a v) = attach a (nz v).
Proof. destruct a; reflexivity. Qed.
Lemma place_ok_nz stk fld : place_ok (map nz_frame stk) fld = place_ok stk fld.
Proof. destruct stk as [|fr r]; [reflexivity|]. cbn [map place_ok nz_frame fr_open]. destruct (fr_open fr); reflexivity. Qed.
Lemma push_nz fl dn stk fld v ds' : push_value fl dn stk fld v = Some ds' ->
  push_value (map nz fl) (map nz dn) (map nz_frame stk) fld (nz v) = Some (nz_state ds').
Proof.
  destruct stk as [|fr r]; cbn [push_value map].
  - destruct fld; [discriminate|]. intros E. injection E as <-. unfold nz_state. cbn [ds_flushed ds_done ds_stack ds_field ds_annots map].
    now rewrite map_app.
  - cbn [nz_frame fr_open fr_field fr_annots].
    destruct (fr_open fr) as [l|l|fs]; destruct fld; cbn [add_open nz_open]; try discriminate; intros E; injection E as <-;
      unfold nz_state, nz_frame; cbn [ds_flushed ds_done ds_stack ds_field ds_annots map fr_open fr_field fr_annots nz_open];
      now rewrite map_app.
Qed.
Lemma scalar_nz c v : scalar_of_call c = Some v -> nz v = v.
Proof.
  destruct c; cbn [scalar_of_call]; intros E; try discriminate; try (injection E as <-; reflexivity).
  - destruct (14 <=? t); [discriminate|]. injection E as <-. cbn [nz]. destruct (t =? 0) eqn:Et; [reflexivity|]. now rewrite Et.
  - destruct z; [|discriminate]. injection E as <-. reflexivity.
  - destruct d; [|discriminate]. injection E as <-. reflexivity.
Qed.
Lemma d_scalar_nz ds v ds' : d_scalar ds v = Some ds' -> d_scalar (nz_state ds) (nz v) = Some (nz_state ds').
Proof.
  unfold d_scalar. cbn [nz_state ds_flushed ds_done ds_stack ds_field ds_annots]. rewrite <- nz_attach. apply push_nz.
Qed.
Lemma d_begin_nz ds o ds' : nz_open o = o -> d_begin ds o = Some ds' -> d_begin (nz_state ds) o = Some (nz_state ds').
Proof.
  intros Ho. unfold d_begin. cbn [nz_state ds_flushed ds_done ds_stack ds_field ds_annots]. rewrite place_ok_nz.
  destruct (place_ok (ds_stack ds) (ds_field ds)); [|discriminate]. intros E. injection E as <-.
  unfold nz_state, nz_frame. cbn [ds_flushed ds_done ds_stack ds_field ds_annots map fr_open fr_field fr_annots]. now rewrite Ho.
Qed.
Lemma close_nz o c : close (nz_open o) c = option_map nz (close o c).
Proof. destruct o, c; reflexivity. Qed.
Lemma d_end_nz ds c ds' : d_end ds c = Some ds' -> d_end (nz_state ds) c = Some (nz_state ds').
Proof.
  unfold d_end. cbn [nz_state ds_flushed ds_done ds_stack ds_field ds_annots].
  destruct (ds_stack ds) as [|fr r]; [discriminate|]. cbn [map nz_frame fr_open fr_field fr_annots]. rewrite close_nz.
  destruct (close (fr_open fr) c); [|discriminate]. cbn [option_map]. rewrite <- nz_attach. apply push_nz.
Qed.
Lemma dstep_nz ds c ds' : dstep ds c = Some ds' -> dstep (nz_state ds) c = Some (nz_state ds').
Proof.
  destruct c; cbn [dstep];
    try (destruct (scalar_of_call _) eqn:Es; [|discriminate]; intros H; rewrite <- (scalar_nz _ _ Es); now apply d_scalar_nz);
    try (apply d_begin_nz; reflexivity); try apply d_end_nz.
  - destruct ds as [fl dn stk fld an]. cbn [nz_state ds_flushed ds_done ds_stack ds_field ds_annots].
    destruct stk as [|fr r]; [discriminate|]. cbn [map nz_frame fr_open]. destruct (fr_open fr); try discriminate.
    cbn [nz_open]. intros E. injection E as <-. reflexivity.
  - intros E. injection E as <-. reflexivity.
  - intros E. injection E as <-. reflexivity.
  - destruct ds as [fl dn stk fld an]. cbn [nz_state ds_flushed ds_done ds_stack ds_field ds_annots].
    destruct stk as [|fr r]; [|discriminate]. intros E. injection E as <-.
    unfold nz_state. cbn [ds_flushed ds_done ds_stack ds_field ds_annots map]. now rewrite map_app.
Qed.
Lemma dstep0_nz ds c ds' : dstep0 ds c = Some ds' -> dstep (nz_state ds) c = Some (nz_state ds').
Proof.
  unfold dstep0. destruct (bare_null c) eqn:Eb; [|apply dstep_nz].
  destruct c; try discriminate.
  - intros H. apply (d_scalar_nz ds (VNull 0)), H.
  - cbn [bare_null] in Eb. apply N.eqb_eq in Eb. subst t. intros H. apply (d_scalar_nz ds (VNull 0)), H.
Qed.
Lemma denote_from0_nz cs : forall ds oks ds', denote_from0 ds cs oks = Some ds' ->
  denote_from (nz_state ds) cs oks = Some (nz_state ds').
Proof.
  induction cs as [|c r IH]; intros ds oks ds'; destruct oks as [|ok o2]; cbn [denote_from0 denote_from]; try discriminate.
  - intros E. injection E as <-. reflexivity.
  - destruct ok; [|apply IH]. destruct (dstep0 ds c) as [ds1|] eqn:E1; [|discriminate].
    rewrite (dstep0_nz _ _ _ E1). apply IH.
Qed.

(* ---- the Writer against the marked machine ---------------------------------------------------------------------- *)
Section Text.
Variable F : formats.

Lemma plain_of_not_bare c : bare_null c = false -> plain_call c.
Proof. destruct c; cbn [bare_null]; intros H; split; try discriminate. intros E. injection E as ->. discriminate. Qed.

Lemma bare_step q w ds w' ok :
  Inv F true q w ds -> Ok (write_value [nth 0 text_nulls []] w) = Ok (w', ok) -> tw_err w' = false ->
  ok = true /\ exists ds', d_scalar ds (VNull 0) = Some ds' /\ Inv F true q w' ds'.
Proof.
  intros HI E Herr. injection E as E.
  apply (scalar_step F true q w ds (raws [nth 0 text_nulls []]) (concat [nth 0 text_nulls []]) (VNull 0) w' ok HI); auto.
  - intros p. apply runs_raws.
  - intros _ pa. rewrite (wt_attach_scalar F pa (VNull 0) I). cbn [scalar_bytes concat N.to_nat]. now rewrite app_nil_r.
Qed.

Lemma step0 q w ds c w' ok :
  Inv F true q w ds -> call_ok c -> tw_step F w c = Ok (w', ok) -> tw_err w' = false ->
  exists ds', (if ok then dstep0 ds c else Some ds) = Some ds' /\ Inv F true q w' ds' /\
     (c = CFinish -> ok = true -> ds_stack ds' = [] /\ ds_done ds' = []).
Proof.
  intros HI Hc E Herr. unfold dstep0. destruct (bare_null c) eqn:Eb.
  - assert (He : tw_err w = false).
    { destruct (inv_st _ _ _ _ _ HI) as (ec & es & i & wl & Hs). eapply tw_err_st, Hs. }
    assert (E' : Ok (write_value [nth 0 text_nulls []] w) = Ok (w', ok)).
    { destruct c; try discriminate; cbn [tw_step] in E.
      - rewrite (text_null_ok 0) in E by lia. exact E.
      - cbn [bare_null] in Eb. apply N.eqb_eq in Eb. subst t. rewrite He in E. change (14 <=? 0) with false in E. cbn iota in E.
        rewrite (text_null_ok 0) in E by lia. exact E. }
    destruct (bare_step q w ds w' ok HI E' Herr) as (-> & ds' & Ed & HI').
    exists ds'. split; [exact Ed|]. split; [exact HI'|]. intros ->. discriminate.
  - apply (step F true q w ds c w' ok HI Hc (fun _ => plain_of_not_bare c Eb) E Herr).
Qed.

Lemma run0 q cs : forall w ds w' oks,
  Inv F true q w ds -> Forall call_ok cs ->
  tw_drive F w cs = Ok (w', oks) -> tw_err w' = false ->
  exists ds', denote_from0 ds cs oks = Some ds' /\ Inv F true q w' ds' /\
    (final_finish_ok cs oks -> ds_stack ds' = [] /\ ds_done ds' = []).
Proof.
  induction cs as [|c r IH]; intros w ds w' oks HI Hc E Herr; cbn [tw_drive] in E.
  - injection E as <- <-. exists ds. split; [reflexivity|]. split; [exact HI|]. intros [].
  - destruct (tw_step F w c) as [[w1 ok]| | |] eqn:Es; try discriminate. cbn [bind] in E.
    destruct (tw_drive F w1 r) as [[w2 o2]| | |] eqn:Er; try discriminate. cbn [bind] in E. injection E as <- <-.
    assert (He1 : tw_err w1 = false).
    { destruct (tw_err w1) eqn:H1; [|reflexivity]. rewrite (drive_sticky F r _ _ _ H1 Er) in Herr. discriminate. }
    inversion Hc as [|? ? Hc1 Hc2]; subst.
    destruct (step0 q w ds c w1 ok HI Hc1 Es He1) as (ds1 & Ed1 & HI1 & Hfin1).
    destruct (IH w1 ds1 w2 o2 HI1 Hc2 Er Herr) as (ds2 & Ed2 & HI2 & Hfin2).
    exists ds2. split; [|split; [exact HI2|]].
    + cbn [denote_from0]. destruct ok.
      * rewrite Ed1. exact Ed2.
      * injection Ed1 as <-. exact Ed2.
    + destruct r as [|c2 r2].
      * cbn [tw_drive] in Er. injection Er as <- <-. cbn [denote_from0] in Ed2. injection Ed2 as <-.
        cbn [final_finish_ok]. intros Hf. destruct c; try contradiction. destruct ok; try contradiction.
        apply Hfin1; reflexivity.
      * intros Hf. apply Hfin2. destruct c; exact Hf.
Qed.

(* ALL calls: the bytes are the canonical text of the marked forest, whose erasure is the denoted forest *)
Theorem denote_text_sound_all quiet cs w oks : Forall call_ok cs ->
  tw_drive F (new_text_writer None false quiet) cs = Ok (w, oks) -> final_finish_ok cs oks ->
  exists vs0, denote0 cs oks = Some vs0 /\ denote cs oks = Some (map nz vs0) /\
              sink_bytes (tw_out w) = wt_stream F quiet vs0.
Proof.
  intros Hc E Hf.
  destruct (run0 quiet cs _ _ _ _ (inv_init F true quiet) Hc E (final_noerr F _ _ _ _ E Hf)) as (ds' & Ed & HI & Hfin).
  destruct (Hfin Hf) as (Hs & Hd). exists (ds_flushed ds').
  pose proof (denote_from0_nz _ _ _ _ Ed) as Edn. change (nz_state d_init) with d_init in Edn.
  unfold denote0, denote. rewrite Ed, Edn. cbn [nz_state ds_flushed ds_done ds_stack]. rewrite Hs, Hd. cbn [map].
  rewrite !app_nil_r. split; [reflexivity|]. split; [reflexivity|].
  destruct HI as (ec & es & i & wl & Hb & Hp & Ht & _). rewrite (Ht eq_refl), Hs, Hd. cbn [stack_text].
  unfold top_text. cbn [map items]. now rewrite app_nil_r.
Qed.

(* the marks are only on untyped nulls written by the two bare calls: without them the marked forest is the forest *)
Lemma dstep0_plain ds c : plain_call c -> dstep0 ds c = dstep ds c.
Proof.
  intros (H1 & H2). unfold dstep0. destruct c; try reflexivity; [now elim H1|].
  cbn [bare_null]. destruct (N.eqb_spec t 0) as [->|_]; [now elim H2|reflexivity].
Qed.
End Text.
