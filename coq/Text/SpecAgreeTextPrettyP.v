(* SpecAgreeTextPrettyP.v — C04, text half, PRETTY mode: for every well-formed forest, SpecText.tdecode reads the text
   Writer model's pretty output ([wtp_stream], Text/WriteSpellPretty.v: LF and tabs between members, `: ` after a field
   name) back as [canonical] of the forest.  The scalar, symbol and annotation lemmas are those of SpecAgreeTextP.v
   (a scalar's pretty text is its compact text); new here: the container and stream lemmas over whitespace runs. *)
From Coq Require Import String List NArith ZArith Bool Lia ZifyBool ZifyN ZifyNat.
From IonV Require Import Base.Wire Base.Utf8 Data.Ion Num.Float Num.Decimal Num.DecimalP Bin.BinWriter Bin.SpecBin Bin.RoundTripBinS
  Text.TextOut Text.TextWriter Text.TextWriterP Text.TextRoundtrip Text.Tokenizer Text.TextReader Text.TextNum
  Text.SpellBase Text.SpellNum Text.SpellIdent Text.SpellSym Text.SpellEsc Text.SpellStr Text.SpellBlob Text.SpellTs
  Text.SpellStream Text.SpellTree
  Text.WriteSpell Text.WriteSpellOut Text.WriteSpellScalar Text.WriteSpellTree Text.WriteSpellStream
  Text.SpecAgreeTextNum Text.SpecAgreeTextStr Text.SpecAgreeText Text.SpecAgreeTextP
  Text.WriteSpellPretty Text.WriteSpellPrettyOut.
From IonV Require Text.SpecText.
Import ListNotations.
Open Scope N_scope.
Local Notation p_val := SpecText.p_val.
Local Notation sctx := system_ctx.

(* ---- runs of plain whitespace -------------------------------------------------------------------------------------- *)
Definition wsr (w : list N) : Prop := Forall (fun c => SpecText.is_ws c = true) w.

Lemma skip_ws_run w l : wsr w -> SpecText.skip_ws (w ++ l) = SpecText.skip_ws l.
Proof.
  induction 1 as [|c w Hc Hw IH]; [reflexivity|]. cbn [app]. unfold SpecText.skip_ws in *. cbn [SpecText.skip_ws_st].
  change (0 =? 0) with true. cbv iota. rewrite Hc. exact IH.
Qed.
Lemma wsr_tabs n : wsr (repeat 9 n).
Proof. induction n as [|n IH]; cbn [repeat]; constructor; [reflexivity|exact IH]. Qed.
Lemma wsr_nl n : wsr (10 :: repeat 9 n).
Proof. constructor; [reflexivity|apply wsr_tabs]. Qed.
Lemma wsr_lf w : wsr w -> wsr (10 :: w).
Proof. intros H. constructor; [reflexivity|exact H]. Qed.

Lemma nows_close c : c = 93 \/ c = 41 \/ c = 125 -> nows c /\ c <> 58.
Proof. unfold nows, SpecText.is_ws, SpecText.in_rng. lia. Qed.

Lemma skip_ws_lf_run w c r : wsr w -> nows c -> SpecText.skip_ws (10 :: w ++ c :: r) = Some (c :: r).
Proof.
  intros Hw Hn. rewrite (skip_ws_one 10 _ (or_intror eq_refl)), (skip_ws_run w _ Hw). now apply skip_ws_nows.
Qed.

(* what follows a member in pretty mode when it is not a comma: LF, tabs, then a token that is not `::` *)
Lemma wfollow_lf w c r : wsr w -> nows c -> c <> 58 -> wfollow (10 :: w ++ c :: r).
Proof.
  intros Hw Hn Hc. split; [reflexivity|]. split; [reflexivity|]. split; [cbn [hd]; lia|].
  exists (c :: r). split; [now apply skip_ws_lf_run|]. intros r2 E. inversion E. contradiction.
Qed.

Lemma p_list_items_ws pv k w l : wsr w -> SpecText.p_list_items pv k (w ++ l) = SpecText.p_list_items pv k l.
Proof. intros H. destruct k; [reflexivity|]. cbn [SpecText.p_list_items]. now rewrite skip_ws_run. Qed.
Lemma p_sexp_items_ws pv k w l : wsr w -> SpecText.p_sexp_items pv k (w ++ l) = SpecText.p_sexp_items pv k l.
Proof. intros H. destruct k; [reflexivity|]. cbn [SpecText.p_sexp_items]. now rewrite skip_ws_run. Qed.
Lemma p_fields_ws pv pn k w l : wsr w -> SpecText.p_fields pv pn k (w ++ l) = SpecText.p_fields pv pn k l.
Proof. intros H. destruct k; [reflexivity|]. cbn [SpecText.p_fields]. now rewrite skip_ws_run. Qed.

Lemma p_fields_stepP pv pname k c l y c2 T v r4 r5 (comma : bool) : c <> 125 -> nows c ->
  pname (c :: l) = Some (y, 58 :: 32 :: c2 :: T) -> nows c2 -> pv (c2 :: T) = Some (v, r4) ->
  SpecText.skip_ws r4 = Some ((if comma then 44 else 125) :: r5) ->
  SpecText.p_fields pv pname (S k) (c :: l) =
  if comma then match SpecText.p_fields pv pname k r5 with Some (fs, r6) => Some ((y, v) :: fs, r6) | None => None end
  else Some ([(y, v)], r5).
Proof.
  intros H Hn Hp Hn2 Hv Hs. cbn [SpecText.p_fields]. rewrite (skip_ws_nows c l Hn).
  destruct c as [|p]; [|do 7 (try (destruct p as [p|p|]))]; try contradiction;
    rewrite Hp; change (SpecText.skip_ws (58 :: 32 :: c2 :: T)) with (Some (58 :: 32 :: c2 :: T)); cbv iota;
    rewrite (skip_ws_one 32 _ (or_introl eq_refl)), (skip_ws_nows c2 T Hn2), Hv, Hs; destruct comma; reflexivity.
Qed.

Lemma pitems_len {A} (g : A -> list N) s sep j r : (length r <= length (pitems (s :: sep) j true false (map g r)))%nat.
Proof. induction r as [|y r IH]; cbn [map pitems length app]; [lia|]. rewrite !app_length. lia. Qed.

Section AgreeP.
Variable F : formats.

Ltac vst := apply vstart_of; [reflexivity|discriminate..].
Ltac len := repeat first [rewrite app_length in * | rewrite repeat_length in * | progress cbn [length] in *]; lia.

Lemma wtp_sc i pa v : is_scalar v -> wtp F i pa v = wt F pa v.
Proof. intros H. destruct v; try contradiction; reflexivity. Qed.

Lemma wtp_pa v : forall i pa, wtp F i pa v = ann_bytes pa ++ wtp F i [] v.
Proof.
  induction v as [v Hsc|l IH|l IH|fs IH|a0 x IH] using value_ind'; intros i pa; try reflexivity.
  - destruct v; try contradiction; reflexivity.
  - cbn [wtp app]. rewrite (IH i (pa ++ a0)), (IH i a0), ann_bytes_app, <- app_assoc. reflexivity.
Qed.

Lemma wtp_tstart v : wf_value F v -> forall i pa rest, Forall wf_sym pa -> wfollow rest -> tstart (wtp F i pa v ++ rest).
Proof.
  induction v as [v Hsc|l IH|l IH|fs IH|a0 x IH] using value_ind'; intros Hw i pa rest Hpa Hfol;
    (destruct pa as [|y pa'];
     [|rewrite wtp_pa; cbn [ann_bytes flat_map]; rewrite <- !app_assoc; cbn [app];
       inversion Hpa; subst; apply wsym_vstart; [now apply sym_spec_wf|apply stail_colons]]).
  - rewrite (wtp_sc i [] v Hsc). apply wt_tstart; auto.
  - cbn [wtp ann_bytes flat_map app]. apply tstart_char; [vst|discriminate].
  - cbn [wtp ann_bytes flat_map app]. apply tstart_char; [vst|discriminate].
  - cbn [wtp ann_bytes flat_map app]. apply tstart_char; [vst|discriminate].
  - destruct Hw as [Ha Hx]. cbn [wtp app]. apply IH; auto.
Qed.

(* ---- containers ------------------------------------------------------------------------------------------------------------------ *)
Definition PvS (v : value) : Prop :=
  wf_value F v -> spec_fmt F v -> forall i pa, Forall wf_sym pa ->
  forall fuel sx anns rest, wfollow rest -> (length (wtp F i pa v) < fuel)%nat ->
  p_val fuel sctx sx anns (wtp F i pa v ++ rest) = Some (canon_a (anns ++ map csym pa) v, rest).

Definition ptexts (j : nat) (l : list value) : list (list N) := map (wtp F j []) l.
Definition pftexts (j : nat) (fs : list (symv * value)) : list (list N) :=
  map (fun '(n, x) => wsym n ++ [58; 32] ++ wtp F j [] x) fs.

Lemma PvS_inner x j f sx tail : PvS x -> wf_value F x -> spec_fmt F x -> wfollow tail -> (length (wtp F j [] x) < f)%nat ->
  p_val f sctx sx [] (wtp F j [] x ++ tail) = Some (canon x, tail).
Proof. intros HP Hw Hs Hfol Hl. exact (HP Hw Hs j [] (Forall_nil _) f sx [] tail Hfol Hl). Qed.

Lemma list_items_specP f j cl rest : wsr cl -> forall r, Forall PvS r -> wf_list F r -> sf_list F r ->
  forall x k, PvS x -> wf_value F x -> spec_fmt F x ->
  (length (wtp F j [] x ++ pitems [44%N; 10%N] j true false (ptexts j r)) < f)%nat -> (length r <= k)%nat ->
  SpecText.p_list_items (p_val f sctx false []) (S k)
    (wtp F j [] x ++ pitems [44; 10] j true false (ptexts j r) ++ 10 :: cl ++ 93 :: rest)
  = Some (canon x :: map canon r, rest).
Proof.
  intros Hcl. induction 1 as [|y r Hy Hr IH]; intros Hw Hs x k Hx Hwx Hsx Hlen Hk.
  - cbn [ptexts map pitems app] in *. rewrite app_nil_r in Hlen.
    destruct (nows_close 93 ltac:(lia)) as [Hn93 H58].
    assert (Hfol : wfollow (10 :: cl ++ 93 :: rest)) by (now apply wfollow_lf).
    destruct (wtp_tstart x Hwx j [] _ (Forall_nil _) Hfol) as (c & l & E & (Hn & _ & H93 & _) & _).
    rewrite E, (p_list_items_step _ k c l H93 Hn), <- E, (PvS_inner x j f false _ Hx Hwx Hsx Hfol Hlen).
    rewrite (skip_ws_lf_run cl 93 rest Hcl Hn93). reflexivity.
  - destruct Hw as [Hwy Hwr]. destruct Hs as [Hsy Hsr]. cbn [ptexts map pitems] in *. fold (ptexts j r) in *.
    rewrite <- ?app_assoc. cbn [app]. rewrite <- ?app_assoc.
    set (tl := wtp F j [] y ++ pitems [44; 10] j true false (ptexts j r) ++ 10 :: cl ++ 93 :: rest).
    assert (Hfol : wfollow (44 :: 10 :: repeat 9 j ++ tl)) by (apply wfollow_close; lia).
    destruct (wtp_tstart x Hwx j [] _ (Forall_nil _) Hfol) as (c & l & E & (Hn & _ & H93 & _) & _).
    destruct k as [|k]; [cbn [length] in Hk; lia|].
    rewrite E, (p_list_items_step _ (S k) c l H93 Hn), <- E.
    rewrite (PvS_inner x j f false _ Hx Hwx Hsx Hfol) by (rewrite !app_length in Hlen; lia).
    change (SpecText.skip_ws (44 :: ?t)) with (Some (44 :: t)). cbv iota.
    change (10 :: repeat 9 j ++ tl) with ((10 :: repeat 9 j) ++ tl). rewrite (p_list_items_ws _ (S k) _ tl (wsr_nl j)).
    unfold tl. rewrite (IH Hwr Hsr y k Hy Hwy Hsy); [reflexivity| |cbn [length] in Hk; lia].
    clear - Hlen. len.
Qed.

Lemma sexp_tail_followP j cl rest : wsr cl -> forall r, wf_list F r ->
  wfollow (pitems [10] j true false (ptexts j r) ++ 10 :: cl ++ 41 :: rest).
Proof.
  intros Hcl. induction r as [|y r IH]; intros Hw; cbn [ptexts map pitems app].
  - destruct (nows_close 41 ltac:(lia)) as [Hn H58]. now apply wfollow_lf.
  - destruct Hw as [Hwy Hwr]. fold (ptexts j r). rewrite <- ?app_assoc.
    destruct (wtp_tstart y Hwy j [] _ (Forall_nil _) (IH Hwr)) as (c & l & E & (Hn & H58 & _) & _).
    rewrite E. now apply wfollow_lf; [apply wsr_tabs| |].
Qed.

Lemma sexp_items_specP f j cl rest : wsr cl -> forall r, Forall PvS r -> wf_list F r -> sf_list F r ->
  forall x k, PvS x -> wf_value F x -> spec_fmt F x ->
  (length (wtp F j [] x ++ pitems [10%N] j true false (ptexts j r)) < f)%nat -> (length r < k)%nat ->
  SpecText.p_sexp_items (p_val f sctx true []) (S k)
    (wtp F j [] x ++ pitems [10] j true false (ptexts j r) ++ 10 :: cl ++ 41 :: rest)
  = Some (canon x :: map canon r, rest).
Proof.
  intros Hcl. induction 1 as [|y r Hy Hr IH]; intros Hw Hs x k Hx Hwx Hsx Hlen Hk.
  - cbn [ptexts map pitems app] in *. rewrite app_nil_r in Hlen.
    pose proof (sexp_tail_followP j cl rest Hcl [] I) as Hfol. cbn [ptexts map pitems app] in Hfol.
    destruct (wtp_tstart x Hwx j [] _ (Forall_nil _) Hfol) as (c & l & E & (Hn & _ & _ & H41 & _) & _).
    rewrite E, (p_sexp_items_step _ k c l H41 Hn), <- E, (PvS_inner x j f true _ Hx Hwx Hsx Hfol Hlen).
    destruct k as [|k]; [cbn [length] in Hk; lia|].
    change (10 :: cl ++ 41 :: rest) with ((10 :: cl) ++ 41 :: rest). rewrite (p_sexp_items_ws _ (S k) _ _ (wsr_lf cl Hcl)).
    reflexivity.
  - pose proof (sexp_tail_followP j cl rest Hcl (y :: r) Hw) as Hfol.
    destruct Hw as [Hwy Hwr]. destruct Hs as [Hsy Hsr]. cbn [ptexts map pitems] in *. fold (ptexts j r) in *.
    rewrite <- ?app_assoc. cbn [app]. rewrite <- ?app_assoc. rewrite <- ?app_assoc in Hfol. cbn [app] in Hfol. rewrite <- ?app_assoc in Hfol.
    set (tl := wtp F j [] y ++ pitems [10] j true false (ptexts j r) ++ 10 :: cl ++ 41 :: rest) in *.
    destruct (wtp_tstart x Hwx j [] _ (Forall_nil _) Hfol) as (c & l & E & (Hn & _ & _ & H41 & _) & _).
    destruct k as [|k]; [cbn [length] in Hk; lia|].
    rewrite E, (p_sexp_items_step _ (S k) c l H41 Hn), <- E.
    rewrite (PvS_inner x j f true _ Hx Hwx Hsx Hfol) by (rewrite !app_length in Hlen; lia).
    change (10 :: repeat 9 j ++ tl) with ((10 :: repeat 9 j) ++ tl). rewrite (p_sexp_items_ws _ (S k) _ tl (wsr_nl j)).
    unfold tl. rewrite (IH Hwr Hsr y k Hy Hwy Hsy); [reflexivity| |cbn [length] in Hk; lia].
    clear - Hlen. len.
Qed.

Lemma fields_specP f j cl rest : wsr cl ->
  forall fs, Forall (fun p => PvS (snd p)) fs -> wf_fields F fs -> sf_fields F fs ->
  forall n x k, wf_sym n -> PvS x -> wf_value F x -> spec_fmt F x ->
  (length (wsym n ++ [58%N; 32%N] ++ wtp F j [] x ++ pitems [44%N; 10%N] j true false (pftexts j fs)) < f)%nat ->
  (length fs <= k)%nat ->
  SpecText.p_fields (p_val f sctx false []) (SpecText.p_field_name f sctx) (S k)
    (wsym n ++ 58 :: 32 :: wtp F j [] x ++ pitems [44; 10] j true false (pftexts j fs) ++ 10 :: cl ++ 125 :: rest)
  = Some ((csym n, canon x) :: map cfield fs, rest).
Proof.
  intros Hcl. induction 1 as [|[n' x'] fs Hy Hr IH]; intros Hw Hs n x k Hn Hx Hwx Hsx Hlen Hk.
  - cbn [pftexts map pitems app] in *. rewrite app_nil_r in Hlen.
    destruct (nows_close 125 ltac:(lia)) as [Hn125 H58].
    assert (Hfol : wfollow (10 :: cl ++ 125 :: rest)) by (now apply wfollow_lf).
    destruct (wtp_tstart x Hwx j [] _ (Forall_nil _) Hfol) as (c2 & T & E2 & (Hn2 & _) & _).
    destruct (wsym_vstart n (58 :: 32 :: wtp F j [] x ++ 10 :: cl ++ 125 :: rest) (sym_spec_wf n Hn) (stail_colon _))
      as (c & l & E & (Hnc & _ & _ & _ & H125 & _) & _).
    pose proof (p_field_name_sym f n (32 :: wtp F j [] x ++ 10 :: cl ++ 125 :: rest) (sym_spec_wf n Hn) ltac:(len)) as Hp.
    pose proof (PvS_inner x j f false _ Hx Hwx Hsx Hfol ltac:(len)) as Hv.
    rewrite E in *. rewrite E2 in *.
    exact (p_fields_stepP _ _ k c l (csym n) c2 T (canon x) _ rest false H125 Hnc Hp Hn2 Hv (skip_ws_lf_run cl 125 rest Hcl Hn125)).
  - destruct Hw as (Hwn' & Hwy & Hwr). destruct Hs as [Hsy Hsr]. cbn [snd] in Hy.
    cbn [pftexts map pitems] in *. fold (pftexts j fs) in *.
    rewrite <- ?app_assoc. cbn [app]. rewrite <- ?app_assoc. cbn [app].
    set (tl := wsym n' ++ 58 :: 32 :: wtp F j [] x' ++ pitems [44; 10] j true false (pftexts j fs) ++ 10 :: cl ++ 125 :: rest).
    assert (Hfol : wfollow (44 :: 10 :: repeat 9 j ++ tl)) by (apply wfollow_close; lia).
    destruct (wtp_tstart x Hwx j [] _ (Forall_nil _) Hfol) as (c2 & T & E2 & (Hn2 & _) & _).
    destruct (wsym_vstart n (58 :: 32 :: wtp F j [] x ++ 44 :: 10 :: repeat 9 j ++ tl) (sym_spec_wf n Hn) (stail_colon _))
      as (c & l & E & (Hnc & _ & _ & _ & H125 & _) & _).
    pose proof (p_field_name_sym f n (32 :: wtp F j [] x ++ 44 :: 10 :: repeat 9 j ++ tl) (sym_spec_wf n Hn) ltac:(len)) as Hp.
    pose proof (PvS_inner x j f false _ Hx Hwx Hsx Hfol ltac:(len)) as Hv.
    destruct k as [|k]; [cbn [length] in Hk; lia|].
    rewrite E in *. rewrite E2 in *.
    rewrite (p_fields_stepP _ _ (S k) c l (csym n) c2 T (canon x) _ (10 :: repeat 9 j ++ tl) true H125 Hnc Hp Hn2 Hv eq_refl).
    change (10 :: repeat 9 j ++ tl) with ((10 :: repeat 9 j) ++ tl). rewrite (p_fields_ws _ _ (S k) _ tl (wsr_nl j)).
    unfold tl. rewrite (IH Hwr Hsr n' x' k Hwn' Hy Hwy Hsy); [reflexivity| |cbn [length] in Hk; lia].
    clear - Hlen. len.
Qed.

(* ---- every value ------------------------------------------------------------------------------------------------------------------ *)
Ltac asc := unfold ptexts, pftexts; repeat first [rewrite <- app_assoc | progress cbn [app]]; reflexivity.

Theorem value_specP v : PvS v.
Proof.
  induction v as [v Hsc|l IH|l IH|fs IH|a0 x IH] using value_ind'; intros Hw Hs i pa Hpa fuel sx anns rest Hfol Hlen.
  - rewrite (wtp_sc i pa v Hsc) in *. exact (value_spec F v Hw Hs pa Hpa fuel sx anns rest Hfol Hlen).
  - rewrite wf_list_eq in Hw. cbn [wtp canon_a] in *.
    replace ((ann_bytes pa ++ [91] ++ pitems [44; 10] (S i) false true (map (wtp F (S i) []) l) ++ pclose i l ++ [93]) ++ rest)
      with (ann_bytes pa ++ (91 :: pitems [44; 10] (S i) false true (ptexts (S i) l) ++ pclose i l ++ [93]) ++ rest) by asc.
    destruct (p_val_anns pa Hpa fuel sx anns (91 :: pitems [44; 10] (S i) false true (ptexts (S i) l) ++ pclose i l ++ [93]) rest Hlen
                ltac:(cbn [app]; apply tstart_char; [vst|discriminate])) as (f' & Hf' & ->).
    destruct f' as [|f']; [lia|]. cbn [app]. rewrite <- !app_assoc. cbn [app]. rewrite p_val_list.
    destruct l as [|x r].
    + cbn [ptexts map pitems pclose app]. destruct f' as [|f']; [cbn [length app] in Hf'; lia|]. reflexivity.
    + inversion IH as [|? ? Hx Hr]; subst. destruct Hw as [Hwx Hwr]. destruct Hs as [Hsx Hsr].
      cbn [ptexts map pitems pclose app] in *. fold (ptexts (S i) r) in *. rewrite <- ?app_assoc. cbn [app].
      destruct f' as [|f']; [cbn [length app] in Hf'; lia|].
      change (10 :: repeat 9 (S i) ++ ?t) with ((10 :: repeat 9 (S i)) ++ t). rewrite (p_list_items_ws _ _ _ _ (wsr_nl (S i))).
      pose proof (pitems_len (wtp F (S i) []) 44 [10] (S i) r) as Hpl. fold (ptexts (S i) r) in Hpl.
      rewrite (list_items_specP (S f') (S i) (repeat 9 i) rest (wsr_tabs i) r Hr Hwr Hsr x f' Hx Hwx Hsx); [reflexivity| |];
        clear - Hf' Hpl; len.
  - rewrite wf_sexp_eq in Hw. cbn [wtp canon_a] in *.
    replace ((ann_bytes pa ++ [40] ++ pitems [10] (S i) false true (map (wtp F (S i) []) l) ++ pclose i l ++ [41]) ++ rest)
      with (ann_bytes pa ++ (40 :: pitems [10] (S i) false true (ptexts (S i) l) ++ pclose i l ++ [41]) ++ rest) by asc.
    destruct (p_val_anns pa Hpa fuel sx anns (40 :: pitems [10] (S i) false true (ptexts (S i) l) ++ pclose i l ++ [41]) rest Hlen
                ltac:(cbn [app]; apply tstart_char; [vst|discriminate])) as (f' & Hf' & ->).
    destruct f' as [|f']; [lia|]. cbn [app]. rewrite <- !app_assoc. cbn [app]. rewrite p_val_sexp.
    destruct l as [|x r].
    + cbn [ptexts map pitems pclose app]. destruct f' as [|f']; [cbn [length app] in Hf'; lia|]. reflexivity.
    + inversion IH as [|? ? Hx Hr]; subst. destruct Hw as [Hwx Hwr]. destruct Hs as [Hsx Hsr].
      cbn [ptexts map pitems pclose app] in *. fold (ptexts (S i) r) in *. rewrite <- ?app_assoc. cbn [app].
      destruct f' as [|f']; [cbn [length app] in Hf'; lia|].
      change (10 :: repeat 9 (S i) ++ ?t) with ((10 :: repeat 9 (S i)) ++ t). rewrite (p_sexp_items_ws _ _ _ _ (wsr_nl (S i))).
      pose proof (pitems_len (wtp F (S i) []) 10 [] (S i) r) as Hpl. fold (ptexts (S i) r) in Hpl.
      rewrite (sexp_items_specP (S f') (S i) (repeat 9 i) rest (wsr_tabs i) r Hr Hwr Hsr x f' Hx Hwx Hsx); [reflexivity| |];
        clear - Hf' Hpl; len.
  - rewrite wf_struct_eq in Hw. cbn [wtp canon_a] in *.
    replace ((ann_bytes pa ++ [123] ++ pitems [44; 10] (S i) false true (map (fun '(n, x) => wsym n ++ [58; 32] ++ wtp F (S i) [] x) fs)
              ++ pclose i fs ++ [125]) ++ rest)
      with (ann_bytes pa ++ (123 :: pitems [44; 10] (S i) false true (pftexts (S i) fs) ++ pclose i fs ++ [125]) ++ rest) by asc.
    destruct (p_val_anns pa Hpa fuel sx anns (123 :: pitems [44; 10] (S i) false true (pftexts (S i) fs) ++ pclose i fs ++ [125]) rest Hlen
                ltac:(cbn [app]; apply tstart_char; [vst|discriminate])) as (f' & Hf' & ->).
    destruct f' as [|f']; [lia|]. cbn [app]. rewrite <- !app_assoc. cbn [app].
    destruct fs as [|[n x] r].
    + cbn [pftexts map pitems pclose app]. rewrite p_val_struct by (cbn [hd]; lia).
      destruct f' as [|f']; [cbn [length app] in Hf'; lia|]. reflexivity.
    + inversion IH as [|? ? Hx Hr]; subst. destruct Hw as (Hn & Hwx & Hwr). destruct Hs as [Hsx Hsr]. cbn [snd] in Hx.
      cbn [pftexts map pitems pclose app] in *. fold (pftexts (S i) r) in *. rewrite <- ?app_assoc. cbn [app]. rewrite <- ?app_assoc.
      rewrite p_val_struct by (cbn [hd]; lia).
      destruct f' as [|f']; [cbn [length app] in Hf'; lia|].
      change (10 :: repeat 9 (S i) ++ ?t) with ((10 :: repeat 9 (S i)) ++ t). rewrite (p_fields_ws _ _ _ _ _ (wsr_nl (S i))).
      pose proof (pitems_len (fun '(n, x) => wsym n ++ [58; 32] ++ wtp F (S i) [] x) 44 [10] (S i) r) as Hpl. fold (pftexts (S i) r) in Hpl.
      cbn [app].
      change (map (fun '(n0, x0) => wsym n0 ++ 58 :: 32 :: wtp F (S i) [] x0) r) with (pftexts (S i) r) in *.
      rewrite (fields_specP (S f') (S i) (repeat 9 i) rest (wsr_tabs i) r Hr Hwr Hsr n x f' Hn Hx Hwx Hsx); [reflexivity| |];
        clear - Hf' Hpl; len.
  - destruct Hw as [Ha Hx]. cbn [wtp canon_a spec_fmt] in *.
    rewrite (IH Hx Hs i (pa ++ a0) ltac:(apply Forall_app; now split) fuel sx anns rest Hfol Hlen).
    rewrite map_app, app_assoc. reflexivity.
Qed.

(* ---- the top level ------------------------------------------------------------------------------------------------------------------ *)
Lemma stream_tail_followP fin : fin_ok fin -> forall r, Forall (wf_top F) r -> wfollow (pitems [10] 0 true false (ptexts 0 r) ++ fin).
Proof.
  intros Hfin. induction 1 as [|y r [Hwy _] Hr IH]; cbn [ptexts map pitems repeat app].
  - destruct Hfin as [->| ->]; [apply wfollow_nil|apply wfollow_ws; [now right|now left]].
  - fold (ptexts 0 r). rewrite <- app_assoc. apply wfollow_ws; [now right|right]. apply wtp_tstart; [exact Hwy|constructor|exact IH].
Qed.

Lemma stream_specP fuel fin : fin_ok fin -> forall r, Forall (wf_top F) r -> Forall (spec_fmt F) r ->
  forall x k, wf_top F x -> spec_fmt F x ->
  Forall (fun y => (length (wtp F 0 [] y) < fuel)%nat) (x :: r) -> (length r < k)%nat ->
  SpecText.p_stream (S k) fuel sctx (wtp F 0 [] x ++ pitems [10] 0 true false (ptexts 0 r) ++ fin) = Some (canon x :: map canon r).
Proof.
  intros Hfin. induction 1 as [|y r Hy Hr IH]; intros Hs x k [Hwx Htx] Hsx Hlen Hk.
  - cbn [ptexts map pitems app].
    assert (Hfol : wfollow fin) by (apply (stream_tail_followP fin Hfin []); constructor).
    destruct (wtp_tstart x Hwx 0%nat [] fin (Forall_nil _) Hfol) as (c & l & E & (Hn & _) & Hft).
    pose proof (value_specP x Hwx Hsx 0%nat [] (Forall_nil _) fuel false [] fin Hfol (Forall_inv Hlen)) as Hv.
    cbn [app map] in Hv. rewrite E in *. cbn [SpecText.p_stream]. rewrite (skip_ws_nows c l Hn).
    unfold first_tok_ok in Hft. destruct (SpecText.p_ident (c :: l)) as [t r0]. cbn [fst] in Hft. rewrite Hft, Hv.
    pose proof (not_lst F x Hwx [] (Forall_nil _) Htx) as Hnl. cbn [map] in Hnl. rewrite Hnl. destruct k as [|k]; [lia|].
    destruct Hfin as [->| ->]; reflexivity.
  - inversion Hs as [|? ? Hsy Hsr]; subst. cbn [ptexts map pitems repeat] in *. fold (ptexts 0 r) in *.
    rewrite <- ?app_assoc. cbn [app]. rewrite <- ?app_assoc.
    set (tl := wtp F 0 [] y ++ pitems [10] 0 true false (ptexts 0 r) ++ fin).
    assert (Hfol : wfollow (10 :: tl)).
    { apply wfollow_ws; [now right|right]. unfold tl. apply wtp_tstart; [exact (proj1 Hy)|constructor|].
      now apply stream_tail_followP. }
    destruct (wtp_tstart x Hwx 0%nat [] (10 :: tl) (Forall_nil _) Hfol) as (c & l & E & (Hn & _) & Hft).
    pose proof (value_specP x Hwx Hsx 0%nat [] (Forall_nil _) fuel false [] (10 :: tl) Hfol (Forall_inv Hlen)) as Hv.
    cbn [app map] in Hv. rewrite E in *. cbn [SpecText.p_stream]. rewrite (skip_ws_nows c l Hn).
    unfold first_tok_ok in Hft. destruct (SpecText.p_ident (c :: l)) as [t r0]. cbn [fst] in Hft. rewrite Hft, Hv.
    pose proof (not_lst F x Hwx [] (Forall_nil _) Htx) as Hnl. cbn [map] in Hnl. rewrite Hnl. rewrite p_stream_lf.
    destruct k as [|k]; [cbn [length] in Hk; lia|]. unfold tl.
    rewrite (IH Hsr y k Hy Hsy (Forall_inv_tail Hlen)); [reflexivity|cbn [length] in Hk; lia].
Qed.

Lemma pitems_lengths (r : list value) :
  (length r <= length (pitems [10%N] 0 true false (ptexts 0 r)))%nat /\
  Forall (fun y => (length (wtp F 0 [] y) <= length (pitems [10%N] 0 true false (ptexts 0 r)))%nat) r.
Proof.
  induction r as [|y r [H1 H2]]; cbn [ptexts map pitems repeat length app]; [split; [lia|constructor]|].
  fold (ptexts 0 r). rewrite !app_length. cbn [length]. split; [lia|].
  constructor; [lia|]. eapply Forall_impl; [|exact H2]. cbn beta. intros a Ha. lia.
Qed.

Theorem tdecode_stream_pretty quiet vs : Forall (wf_top F) vs -> Forall (spec_fmt F) vs ->
  SpecText.tdecode (wtp_stream F quiet vs) = Some (canonical vs).
Proof.
  intros Hw Hs. destruct vs as [|x r]; [reflexivity|].
  inversion Hw as [|? ? Hwx Hwr]; subst. inversion Hs as [|? ? Hsx Hsr]; subst.
  unfold wtp_stream, SpecText.tdecode, SpecText.tdecode_ctx, canonical. cbn [map pitems repeat app]. fold (ptexts 0 r).
  set (fin := if quiet then [] else [10]).
  assert (Hfin : fin_ok fin) by (unfold fin, fin_ok; destruct quiet; auto).
  rewrite <- app_assoc.
  destruct (pitems_lengths r) as [H1 H2].
  apply (stream_specP _ fin Hfin r Hwr Hsr x _ Hwx Hsx).
  - constructor; [rewrite !app_length; lia|]. eapply Forall_impl; [|exact H2]. cbn beta. intros a Ha. rewrite !app_length. lia.
  - rewrite !app_length.
    assert (1 <= length (wtp F 0 [] x))%nat.
    { destruct (wtp_tstart x (proj1 Hwx) 0%nat [] [] (Forall_nil _) wfollow_nil) as (c & l & E & _). rewrite app_nil_r in E. rewrite E. cbn [length]. lia. }
    lia.
Qed.
End AgreeP.

(* ---- composed with the Writer model (pretty mode) ---------------------------------------------------------------------------------- *)
Theorem writer_output_decodes_pretty F quiet vs : Forall (wf_top F) vs -> Forall (spec_fmt F) vs ->
  exists w oks, tw_drive F (new_text_writer None true quiet) (calls_of_stream vs) = Ok (w, oks) /\
                forallb (fun b => b) oks = true /\
                sink_bytes (tw_out w) = wtp_stream F quiet vs /\
                SpecText.tdecode (sink_bytes (tw_out w)) = Some (canonical vs).
Proof.
  intros Hw Hs.
  assert (Hv : Forall (wf_value F) vs) by (eapply Forall_impl; [|exact Hw]; intros v [Hv _]; exact Hv).
  destruct (forest_written_pretty F quiet vs Hv) as (w & oks & E & Hok & Hout).
  exists w, oks. rewrite Hout. repeat split; auto. now apply tdecode_stream_pretty.
Qed.
Corollary writer_output_recovered_pretty F quiet vs : Forall (wf_top F) vs -> Forall (spec_fmt F) vs -> Forall plain_value vs ->
  exists w oks vs', tw_drive F (new_text_writer None true quiet) (calls_of_stream vs) = Ok (w, oks) /\
                forallb (fun b => b) oks = true /\
                SpecText.tdecode (sink_bytes (tw_out w)) = Some vs' /\ show_values vs' = show_values vs.
Proof.
  intros Hw Hs Hp. destruct (writer_output_decodes_pretty F quiet vs Hw Hs) as (w & oks & E & Hok & _ & Hd).
  exists w, oks, (canonical vs). repeat split; auto. now apply show_canonical.
Qed.
