(* SpellNum.v — C02, stages 2 and 3: numbers.

   Spelling freedom of numeric literals, from the Ion text grammar:
   [us_digits isd w p]: w is a digit run in which single underscores may stand between
   two digits; p is the same run without the underscores.
   A decimal-radix literal ([numsp]): optional '-', an integer part without leading
   zeros, optionally '.' and a (possibly empty) fraction, optionally an exponent
   e/E (float) or d/D (decimal) with optional sign and plain digits.
   A radix literal: optional '-', 0x/0X or 0b/0B, a digit run with underscores.

   Theorems: ReadNumber / readRadix started on the literal followed by a terminator return
   exactly the underscore-free text and the kind, and push the terminator back; the
   conversion functions of the reader model (parseInt, ParseDecimal as transcribed in
   TextNum.v) map that text to the integer / (coefficient, exponent, negative zero) the
   grammar denotes; for floats the text handed to strconv.ParseFloat (not modelled, and
   not re-proved here) is the underscore-free spelling and passes the model's syntax check. *)
From Coq Require Import String List NArith ZArith Bool Lia ZifyBool ZifyN ZifyNat.
From IonV Require Import Base.Wire Base.Utf8 Data.Ion Bin.BitStream Bin.BinReader Text.Tokenizer Text.Skipper
  Text.TextReader Text.TextNum Text.SpellBase.
Import ListNotations.
Open Scope Z_scope.
Ltac Zify.zify_post_hook ::= Z.div_mod_to_equations.

(* ---- digit runs --------------------------------------------------------------------------------------- *)
Definition is_dec_b (c : N) : bool := ((48 <=? c) && (c <=? 57))%N.
Definition is_bin_b (c : N) : bool := ((c =? 48) || (c =? 49))%N.
Definition is_hex_b (c : N) : bool :=
  (is_dec_b c || ((65 <=? c) && (c <=? 70)) || ((97 <=? c) && (c <=? 102)))%N.
(* the value of a digit character *)
Definition dval (c : N) : N := (if c <=? 57 then c - 48 else if c <=? 70 then c - 55 else c - 87)%N.
Definition digits_value (radix : N) (p : list N) : N := fold_left (fun a c => (a * radix + dval c)%N) p 0%N.
Definition sgn (neg : bool) (n : N) : Z := if neg then - Z.of_N n else Z.of_N n.

Section Us.
Variable isd : N -> bool.
(* what may follow a digit: nothing, a digit, or an underscore and a digit *)
Inductive us_tail : list N -> list N -> Prop :=
| ut_nil : us_tail [] []
| ut_digit c w p : isd c = true -> us_tail w p -> us_tail (c :: w) (c :: p)
| ut_under c w p : isd c = true -> us_tail (c :: w) p -> us_tail (95%N :: c :: w) p.
Inductive us_digits : list N -> list N -> Prop :=
| usd c w p : isd c = true -> us_tail w p -> us_digits (c :: w) (c :: p).
Lemma us_tail_plain w p : us_tail w p -> Forall (fun c => isd c = true) p.
Proof. induction 1; auto. Qed.
Lemma us_digits_plain w p : us_digits w p -> Forall (fun c => isd c = true) p /\ p <> [].
Proof. destruct 1 as [c w p Hc Ht]. split; [constructor; auto; eapply us_tail_plain; eauto|discriminate]. Qed.
Lemma us_tail_length w p : us_tail w p -> (length p <= length w)%nat.
Proof. induction 1; cbn [length] in *; lia. Qed.
End Us.

Definition sign_bytes (neg : bool) : list N := if neg then [45%N] else [].
(* no leading zeros: the digits are `0`, or do not begin with 0 *)
Definition no_lead0 (p : list N) : Prop := p = [48%N] \/ hd 0%N p <> 48%N.

(* ---- terminators ------------------------------------------------------------------------------------------ *)
(* the stream after the terminator has been read, checked (a slash with a look-ahead) and pushed back *)
Definition unterm (s : list Z) : list Z :=
  shead s :: (if shead s =? c_slash then spush (stail s) else stail s).
Lemma unterm_cons c r : c <> c_slash -> unterm (c :: r) = c :: r.
Proof. intros H. unfold unterm. cbn [shead stail]. destruct (Z.eqb_spec c c_slash); [contradiction|reflexivity]. Qed.
Lemma unterm_cons2 c c2 r : unterm (c :: c2 :: r) = c :: c2 :: r.
Proof. unfold unterm. cbn [shead stail]. destruct (c =? c_slash); reflexivity. Qed.
(* [stops c s]: SpellBase; the terminator of a stream *)
Definition terminated (s : list Z) : bool := stops (shead s) (stail s).

Lemma stop_char_cases c : is_stop_char c = true ->
  c = -1 \/ c = 123 \/ c = 125 \/ c = 91 \/ c = 93 \/ c = 40 \/ c = 41 \/ c = 44 \/ c = 34 \/ c = 39 \/
  c = 32 \/ c = 9 \/ c = 10 \/ c = 13 \/ c = 11 \/ c = 12.
Proof. unfold is_stop_char, zmem. cbn [existsb]. lia. Qed.
Lemma stops_cases c s : stops c s = true -> is_stop_char c = true \/ c = c_slash.
Proof.
  unfold stops. intros H. apply orb_true_iff in H as [H|H]; [now left|right].
  apply andb_true_iff in H as [H _]. now apply Z.eqb_eq.
Qed.
Lemma run_finish_number {A} (a : A) s :
  terminated s = true ->
  run (tdo ok <- t_is_stop_char (shead s); if negb ok then fail else tdo _ <- t_unread (shead s); ret a)
      (stail s) a (unterm s).
Proof.
  intros Hs. unfold terminated in Hs. eapply run_bind; [apply run_is_stop_char|]. rewrite Hs. cbn [negb].
  eapply run_bind; [apply run_unread|]. unfold unterm.
  destruct (stops_cases _ _ Hs) as [H| ->].
  - rewrite H. destruct (Z.eqb_spec (shead s) c_slash) as [E|E]; [rewrite E in H; discriminate|]. apply run_ret.
  - change (is_stop_char c_slash) with false. change (c_slash =? c_slash) with true. cbv iota. apply run_ret.
Qed.

(* ---- the digit loops ---------------------------------------------------------------------------------------- *)
Lemma byte_of_N c : (c < 256)%N -> byte_of (Z.of_N c) = c.
Proof. unfold byte_of. lia. Qed.

Section Loop.
Variable valid : Z -> bool.
Variable isd : N -> bool.
Hypothesis isd_valid : forall c, isd c = true -> valid (Z.of_N c) = true /\ (c < 256)%N /\ c <> 95%N.

Lemma run_radix_tail : forall w p, us_tail isd w p -> forall f acc s,
  valid (shead s) = false -> shead s <> c_under -> (length w < f)%nat ->
  run (read_radix_digits f valid acc) (zs w ++ s) (shead s, rev p ++ acc) (stail s).
Proof.
  induction 1 as [|c w p Hc Ht IH|c w p Hc Ht IH]; intros f acc s Hv Hu Hf;
    (destruct f as [|f]; [lia|]); cbn [read_radix_digits zs map app].
  - eapply run_bind; [apply run_read|]. destruct (Z.eqb_spec (shead s) c_under); [contradiction|].
    rewrite Hv. apply run_ret.
  - destruct (isd_valid c Hc) as (Hv1 & Hv2 & Hv3).
    eapply run_bind; [apply run_read_cons|]. destruct (Z.eqb_spec (Z.of_N c) c_under) as [E|E]; [unfold c_under in E; lia|].
    rewrite Hv1. cbn [negb]. rewrite (byte_of_N c Hv2).
    eapply run_eq; [apply (IH f (c :: acc) s)|f_equal|reflexivity]; auto; [cbn [length] in Hf; lia|].
    cbn [rev]. now rewrite <- app_assoc.
  - destruct (isd_valid c Hc) as (Hv1 & Hv2 & Hv3).
    eapply run_bind; [apply run_read_cons|]. change (Z.of_N 95 =? c_under) with true. cbv iota.
    eapply run_bind; [apply run_peek_cons|]. rewrite Hv1. cbn [negb].
    apply (IH f acc s); auto. cbn [length] in *. lia.
Qed.

Lemma run_radix_digits w p f acc s :
  us_digits isd w p -> valid (shead s) = false -> shead s <> c_under -> (length w < f)%nat ->
  run (read_radix_digits f valid acc) (zs w ++ s) (shead s, rev p ++ acc) (stail s).
Proof.
  intros [c w' p' Hc Ht] Hv Hu Hf. apply run_radix_tail; auto. now constructor.
Qed.
End Loop.

Lemma dec_valid c : is_dec_b c = true -> is_digit (Z.of_N c) = true /\ (c < 256)%N /\ c <> 95%N.
Proof. unfold is_dec_b, is_digit. lia. Qed.
Lemma hex_valid c : is_hex_b c = true -> is_hex_digit (Z.of_N c) = true /\ (c < 256)%N /\ c <> 95%N.
Proof. unfold is_hex_b, is_dec_b, is_hex_digit, is_digit. lia. Qed.
Lemma bin_valid c : is_bin_b c = true -> is_bin_digit (Z.of_N c) = true /\ (c < 256)%N /\ c <> 95%N.
Proof. unfold is_bin_b, is_bin_digit. lia. Qed.

(* readDigits when the first digit c has been read: the rest of the run follows *)
Lemma run_read_digits c w p acc s :
  is_dec_b c = true -> us_tail is_dec_b w p -> is_digit (shead s) = false -> shead s <> c_under ->
  run (read_digits (Z.of_N c) acc) (zs w ++ s) (shead s, rev (c :: p) ++ acc) (stail s).
Proof.
  intros Hc Ht Hv Hu. unfold read_digits. destruct (dec_valid c Hc) as (Hv1 & Hv2 & _). rewrite Hv1. cbn [negb].
  apply run_with_fuel. intros f Hf. rewrite (byte_of_N c Hv2).
  eapply run_eq; [apply (run_radix_tail is_digit is_dec_b dec_valid w p Ht f (c :: acc) s)|f_equal|reflexivity]; auto.
  - rewrite nne_app, nne_zs in Hf. lia.
  - cbn [rev]. now rewrite <- app_assoc.
Qed.
Lemma run_read_digits_none c acc s : is_digit c = false -> run (read_digits c acc) s (c, acc) s.
Proof. intros H. unfold read_digits. rewrite H. apply run_ret. Qed.

(* readPlainDigits: c has been read *)
Lemma run_plain_digits_loop : forall ed f c acc s,
  Forall (fun c => is_dec_b c = true) ed -> is_digit c = false -> (length ed < f)%nat ->
  run (read_plain_digits_loop f c acc) s (c, acc) s /\
  forall c0, is_dec_b c0 = true -> (length ed + 1 < f)%nat -> is_digit (shead s) = false ->
  run (read_plain_digits_loop f (Z.of_N c0) acc) (zs ed ++ s) (shead s, rev ed ++ c0 :: acc) (stail s).
Proof.
  induction ed as [|d ed IH]; intros f c acc s He Hc Hf.
  - split.
    + destruct f as [|f]; [lia|]. cbn [read_plain_digits_loop]. rewrite Hc. apply run_ret.
    + intros c0 Hc0 Hf' Hs. destruct f as [|[|f]]; try (cbn [length] in Hf'; lia).
      cbn [read_plain_digits_loop zs map app rev]. destruct (dec_valid c0 Hc0) as (Hv1 & Hv2 & _). rewrite Hv1.
      eapply run_bind; [apply run_read|]. rewrite Hs, (byte_of_N c0 Hv2). apply run_ret.
  - inversion He as [|? ? Hd He']; subst. split.
    + destruct f as [|f]; [lia|]. cbn [read_plain_digits_loop]. rewrite Hc. apply run_ret.
    + intros c0 Hc0 Hf' Hs. destruct f as [|f]; [lia|].
      cbn [read_plain_digits_loop zs map app]. destruct (dec_valid c0 Hc0) as (Hv1 & Hv2 & _). rewrite Hv1.
      eapply run_bind; [apply run_read_cons|]. rewrite (byte_of_N c0 Hv2).
      destruct (IH f c (c0 :: acc) s He' Hc ltac:(cbn [length] in *; lia)) as [_ IH2].
      eapply run_eq; [apply (IH2 d Hd)|f_equal|reflexivity]; auto; [cbn [length] in *; lia|].
      cbn [rev]. now rewrite <- app_assoc.
Qed.
Lemma run_plain_digits c0 ed acc s :
  is_dec_b c0 = true -> Forall (fun c => is_dec_b c = true) ed -> is_digit (shead s) = false ->
  run (read_plain_digits (Z.of_N c0) acc) (zs ed ++ s) (shead s, rev (c0 :: ed) ++ acc) (stail s).
Proof.
  intros Hc He Hs. unfold read_plain_digits. apply run_with_fuel. intros f Hf.
  rewrite nne_app, nne_zs in Hf.
  destruct (run_plain_digits_loop ed f (-1) acc s He eq_refl ltac:(lia)) as [_ H].
  eapply run_eq; [apply (H c0 Hc)|f_equal|reflexivity]; auto; [lia|].
  cbn [rev]. now rewrite <- app_assoc.
Qed.

(* ---- decimal-radix literals ------------------------------------------------------------------------------------ *)
Record numsp := {
  n_neg : bool;
  n_iw : list N; n_ip : list N;                      (* integer part: as spelled, without underscores *)
  n_dot : bool;
  n_fw : list N; n_fp : list N;                      (* fraction: as spelled, without underscores *)
  n_exp : option (N * list N * list N)               (* exponent: marker, sign bytes, digits *)
}.
Definition exp_wf (e : option (N * list N * list N)) : Prop :=
  match e with
  | None => True
  | Some (m, sg, ed) =>
    (m = 101 \/ m = 69 \/ m = 100 \/ m = 68)%N /\ (sg = [] \/ sg = [43%N] \/ sg = [45%N]) /\
    ed <> [] /\ Forall (fun c => is_dec_b c = true) ed
  end.
Definition num_wf (n : numsp) : Prop :=
  us_digits is_dec_b (n_iw n) (n_ip n) /\ no_lead0 (n_ip n) /\
  (if n_dot n then (n_fw n = [] /\ n_fp n = []) \/ us_digits is_dec_b (n_fw n) (n_fp n)
   else n_fw n = [] /\ n_fp n = []) /\
  exp_wf (n_exp n).
Definition exp_text (e : option (N * list N * list N)) : list N :=
  match e with None => [] | Some (m, sg, ed) => m :: sg ++ ed end.
(* the literal as written, and as handed to the parsers *)
Definition num_text (n : numsp) : list N :=
  sign_bytes (n_neg n) ++ n_iw n ++ (if n_dot n then 46%N :: n_fw n else []) ++ exp_text (n_exp n).
Definition num_plain (n : numsp) : list N :=
  sign_bytes (n_neg n) ++ n_ip n ++ (if n_dot n then 46%N :: n_fp n else []) ++ exp_text (n_exp n).
Definition num_kind (n : numsp) : numkind :=
  match n_exp n with
  | Some (m, _, _) => if ((m =? 101) || (m =? 69))%N then NKFloat else NKDecimal
  | None => if n_dot n then NKDecimal else NKInt
  end.

(* the blocks of ReadNumber, named *)
Definition dot_block (c : Z) (w : list N) : M (Z * list N * numkind) :=
  if c =? c_dot then
    tdo c2 <- t_read;
    tdo '(c3, w3) <- read_digits c2 (46%N :: w);
    ret (c3, w3, NKDecimal)
  else ret (c, w, NKInt).
Definition exp_block (c : Z) (w : list N) (kd : numkind) : M (Z * list N * numkind) :=
  if (c =? 101) || (c =? 69) then
    tdo '(c2, w2) <- read_exponent (byte_of c :: w); ret (c2, w2, NKFloat)
  else if (c =? 100) || (c =? 68) then
    tdo '(c2, w2) <- read_exponent (byte_of c :: w); ret (c2, w2, NKDecimal)
  else ret (c, w, kd).

Lemma terminated_head s : terminated s = true ->
  is_digit (shead s) = false /\ shead s <> c_under /\ shead s <> c_dot /\
  shead s <> 101 /\ shead s <> 69 /\ shead s <> 100 /\ shead s <> 68 /\ shead s <> c_minus.
Proof.
  unfold terminated. intros H. destruct (stops_cases _ _ H) as [H1|H1].
  - apply stop_char_cases in H1. unfold is_digit, c_under, c_dot, c_minus. lia.
  - rewrite H1. unfold is_digit, c_under, c_dot, c_minus, c_slash. lia.
Qed.

Lemma run_exp_block e acc kd s :
  exp_wf e -> terminated s = true ->
  run (exp_block (shead (zs (exp_text e) ++ s)) acc kd) (stail (zs (exp_text e) ++ s))
      (shead s, rev (exp_text e) ++ acc,
       match e with Some (m, _, _) => if ((m =? 101) || (m =? 69))%N then NKFloat else NKDecimal | None => kd end)
      (stail s).
Proof.
  intros He Hs. destruct (terminated_head s Hs) as (T1 & T2 & T3 & T4 & T5 & T6 & T7 & T8).
  destruct e as [[[m sg] ed]|]; cbn [exp_text zs map app rev shead stail].
  - destruct He as (Hm & Hsg & Hed & Hd). destruct ed as [|e0 ed']; [contradiction|].
    inversion Hd as [|? ? He0 Hd']; subst.
    assert (Hb : byte_of (Z.of_N m) = m) by (apply byte_of_N; lia).
    assert (R : forall sgl, run (read_plain_digits (Z.of_N e0) (sgl ++ m :: acc)) (zs ed' ++ s)
                  (shead s, rev (e0 :: ed') ++ sgl ++ m :: acc) (stail s)).
    { intros sgl. apply run_plain_digits; auto. }
    assert (RE : run (read_exponent (m :: acc)) (zs (sg ++ e0 :: ed') ++ s)
                   (shead s, rev (m :: sg ++ e0 :: ed') ++ acc) (stail s)).
    { unfold read_exponent. destruct (dec_valid e0 He0) as (Hv1 & Hv2 & _).
      destruct Hsg as [->|[->| ->]]; cbn [app zs map].
      - eapply run_bind; [apply run_read_cons|].
        replace ((Z.of_N e0 =? c_plus) || (Z.of_N e0 =? c_minus)) with false
          by (unfold is_digit, c_plus, c_minus in *; lia).
        eapply run_eq; [apply (R [])|f_equal|reflexivity]. cbn [rev app]. now rewrite <- !app_assoc.
      - eapply run_bind; [apply run_read_cons|]. change ((Z.of_N 43 =? c_plus) || (Z.of_N 43 =? c_minus)) with true. cbv iota.
        eapply run_bind; [apply run_read_cons|]. change (byte_of (Z.of_N 43)) with 43%N.
        eapply run_eq; [apply (R [43%N])|f_equal|reflexivity]. cbn [rev app]. now rewrite <- !app_assoc.
      - eapply run_bind; [apply run_read_cons|]. change ((Z.of_N 45 =? c_plus) || (Z.of_N 45 =? c_minus)) with true. cbv iota.
        eapply run_bind; [apply run_read_cons|]. change (byte_of (Z.of_N 45)) with 45%N.
        eapply run_eq; [apply (R [45%N])|f_equal|reflexivity]. cbn [rev app]. now rewrite <- !app_assoc. }
    unfold exp_block. rewrite Hb.
    change (map Z.of_N (sg ++ e0 :: ed')) with (zs (sg ++ e0 :: ed')).
    destruct Hm as [->|[->|[->| ->]]]; cbv [N.eqb Pos.eqb orb Z.of_N Z.eqb]; cbv iota;
      (eapply run_bind; [exact RE|]); cbv beta iota; apply run_ret.
  - unfold exp_block.
    replace ((shead s =? 101) || (shead s =? 69)) with false by lia.
    replace ((shead s =? 100) || (shead s =? 68)) with false by lia. apply run_ret.
Qed.

Lemma run_dot_block dot fw fp acc S2 :
  (if dot : bool then (fw = [] /\ fp = []) \/ us_digits is_dec_b fw fp else fw = [] /\ fp = []) ->
  is_digit (shead S2) = false -> shead S2 <> c_under -> shead S2 <> c_dot ->
  run (dot_block (shead (zs (if dot then 46%N :: fw else []) ++ S2)) acc)
      (stail (zs (if dot then 46%N :: fw else []) ++ S2))
      (shead S2, rev (if dot then 46%N :: fp else []) ++ acc, if dot then NKDecimal else NKInt) (stail S2).
Proof.
  intros Hf H1 H2 H3. unfold dot_block. destruct dot; cbn [zs map app shead stail].
  - change (Z.of_N 46 =? c_dot) with true. cbv iota. destruct Hf as [[-> ->]|Hf].
    + cbn [zs map app rev]. eapply run_bind; [apply run_read|].
      eapply run_bind; [apply run_read_digits_none; exact H1|]. cbv beta iota. apply run_ret.
    + destruct Hf as [c w p Hc Ht]. cbn [zs map app]. eapply run_bind; [apply run_read_cons|].
      eapply run_bind; [apply (run_read_digits c w p); auto|]. cbv beta iota.
      eapply run_eq; [apply run_ret|f_equal|reflexivity]. f_equal. cbn [rev]. now rewrite <- !app_assoc.
  - destruct (Z.eqb_spec (shead S2) c_dot); [contradiction|]. cbn [rev app]. apply run_ret.
Qed.

Lemma exp_head e s : exp_wf e -> terminated s = true ->
  is_digit (shead (zs (exp_text e) ++ s)) = false /\ shead (zs (exp_text e) ++ s) <> c_under /\
  shead (zs (exp_text e) ++ s) <> c_dot.
Proof.
  intros He Hs. destruct e as [[[m sg] ed]|]; cbn [exp_text zs map app shead].
  - destruct He as (Hm & _). unfold is_digit, c_under, c_dot. lia.
  - destruct (terminated_head s Hs) as (T1 & T2 & T3 & _). auto.
Qed.

(* ReadNumber on every decimal-radix literal *)
Theorem run_read_number n s :
  num_wf n -> terminated s = true ->
  run t_read_number (zs (num_text n) ++ s) (num_plain n, num_kind n) (unterm s).
Proof.
  intros (Hi & Hl & Hf & He) Hs. destruct n as [neg iw ip dot fw fp e]. cbn [n_neg n_iw n_ip n_dot n_fw n_fp n_exp] in *.
  unfold num_text, num_plain, num_kind. cbn [n_neg n_iw n_ip n_dot n_fw n_fp n_exp].
  destruct Hi as [c0 iw' ip' Hc0 Ht].
  set (S2 := zs (exp_text e) ++ s).
  set (S1 := zs (if dot then 46%N :: fw else []) ++ S2).
  destruct (exp_head e s He Hs) as (E1 & E2 & E3). fold S2 in E1, E2, E3.
  assert (F1 : is_digit (shead S1) = false /\ shead S1 <> c_under).
  { unfold S1. destruct dot; cbn [zs map app shead]; [unfold is_digit, c_under; lia|auto]. }
  destruct F1 as [F1 F2].
  assert (Hstream : zs (sign_bytes neg ++ (c0 :: iw') ++ (if dot then 46%N :: fw else []) ++ exp_text e) ++ s
                    = zs (sign_bytes neg) ++ Z.of_N c0 :: zs iw' ++ S1).
  { unfold S1, S2. rewrite !zs_app, <- !app_assoc. reflexivity. }
  rewrite Hstream. clear Hstream.
  destruct (dec_valid c0 Hc0) as (Hv1 & Hv2 & _).
  unfold t_read_number.
  (* sign and first digit *)
  eapply run_bind with (a := Z.of_N (if neg then 45%N else c0))
                       (s1 := if neg then Z.of_N c0 :: zs iw' ++ S1 else zs iw' ++ S1).
  { destruct neg; cbn [sign_bytes zs map app]; apply run_read_cons. }
  eapply run_bind with (a := (Z.of_N c0, sign_bytes neg)) (s1 := zs iw' ++ S1).
  { destruct neg; cbn [sign_bytes].
    - change (Z.of_N 45 =? c_minus) with true. cbv iota. eapply run_bind; [apply run_read_cons|]. apply run_ret.
    - replace (Z.of_N c0 =? c_minus) with false by (unfold is_digit, c_minus in *; lia). apply run_ret. }
  cbv beta iota.
  eapply run_bind; [apply (run_read_digits c0 iw' ip' (sign_bytes neg) S1); auto|]. cbv beta iota.
  (* no leading zero *)
  replace ((Z.of_N c0 =? c_0) && (1 <? length (rev (c0 :: ip') ++ sign_bytes neg) - length (sign_bytes neg))%nat)
    with false.
  2:{ symmetry. destruct (Z.eqb_spec (Z.of_N c0) c_0) as [E|E]; [|reflexivity]. cbn [andb].
      assert (c0 = 48%N) by (unfold c_0 in E; lia). subst c0.
      destruct Hl as [Hl|Hl]; [|cbn [hd] in Hl; congruence]. injection Hl as ->.
      rewrite app_length. cbn [rev app length]. apply Nat.ltb_ge. lia. }
  eapply run_bind; [apply (run_dot_block dot fw fp _ S2 Hf E1 E2 E3)|]. cbv beta iota.
  eapply run_bind; [apply (run_exp_block e _ _ s He Hs)|]. cbv beta iota.
  eapply run_eq; [apply (run_finish_number _ s Hs)|f_equal|reflexivity].
  - rewrite !rev_app_distr, !rev_involutive. cbn [rev app].
    rewrite <- ?app_assoc. destruct neg; cbn [sign_bytes rev app]; rewrite <- ?app_assoc; reflexivity.
Qed.

(* ---- radix literals ------------------------------------------------------------------------------------------- *)
Lemma terminated_not_hex s : terminated s = true ->
  is_hex_digit (shead s) = false /\ is_bin_digit (shead s) = false.
Proof.
  unfold terminated. intros H. destruct (stops_cases _ _ H) as [H1|H1].
  - apply stop_char_cases in H1. unfold is_hex_digit, is_bin_digit, is_digit. lia.
  - rewrite H1. split; reflexivity.
Qed.

(* a raw continuation after a peek (readRadix ignores the peek's error; the peek cannot fail here) *)
Lemma run_peek_match {A} (k : Z -> M A) (e : tstate -> res (A * tstate)) s b s2 :
  run (k (shead s)) (spush s) b s2 ->
  run (fun t => match t_peek t with
                | Err => e t
                | Panic => Panic
                | OutOfFuel => OutOfFuel
                | Ok (nx, t1) => k nx t1
                end) s b s2.
Proof.
  intros Hk kk u t Hi Ha. destruct (run_peek s kk u t Hi Ha) as (t1 & E & Hi1 & Ha1).
  rewrite E. apply (Hk kk u t1 Hi1 Ha1).
Qed.

Section Radix.
Variable is_marker valid : Z -> bool.
Variable isd : N -> bool.
Hypothesis isd_valid : forall c, isd c = true -> valid (Z.of_N c) = true /\ (c < 256)%N /\ c <> 95%N.

Lemma run_read_radix neg m w p s :
  is_marker (Z.of_N m) = true -> (m < 256)%N -> us_digits isd w p ->
  valid (shead s) = false -> terminated s = true ->
  run (read_radix is_marker valid) (zs (sign_bytes neg ++ 48%N :: m :: w) ++ s)
      (sign_bytes neg ++ 48%N :: m :: p) (unterm s).
Proof.
  intros Hm Hm2 Hw Hv Hs. destruct (terminated_head s Hs) as (_ & T2 & _).
  unfold read_radix.
  eapply run_bind with (a := Z.of_N (if neg then 45%N else 48%N))
                       (s1 := if neg then 48 :: Z.of_N m :: zs w ++ s else Z.of_N m :: zs w ++ s).
  { destruct neg; cbn [sign_bytes zs map app]; apply run_read_cons. }
  eapply run_bind with (a := (48, sign_bytes neg)) (s1 := Z.of_N m :: zs w ++ s).
  { destruct neg; cbn [sign_bytes].
    - change (Z.of_N 45 =? c_minus) with true. cbv iota. eapply run_bind; [apply run_read_cons|]. apply run_ret.
    - change (Z.of_N 48 =? c_minus) with false. apply run_ret. }
  cbv beta iota. change (48 =? c_0) with true. cbn [negb].
  eapply run_bind; [apply run_read_cons|]. rewrite Hm. cbn [negb]. rewrite (byte_of_N m Hm2).
  apply run_peek_match.
  destruct Hw as [c w' p' Hc Ht]. cbn [zs map app shead spush stail].
  destruct (isd_valid c Hc) as (Hv1 & Hv2 & Hv3).
  destruct (Z.eqb_spec (Z.of_N c) c_under) as [E|E]; [unfold c_under in E; lia|].
  eapply run_bind.
  { rewrite spush_cons. apply run_with_fuel. intros f Hf.
    apply (run_radix_digits valid isd isd_valid (c :: w') (c :: p') f (m :: 48%N :: sign_bytes neg) s); auto.
    - now constructor.
    - change (Z.of_N c :: map Z.of_N w' ++ s) with (zs (c :: w') ++ s) in Hf. rewrite nne_app, nne_zs in Hf. lia. }
  cbv beta iota.
  eapply run_eq; [apply (run_finish_number _ s Hs)|f_equal|reflexivity].
  rewrite rev_app_distr, rev_involutive. cbn [rev app].
  destruct neg; cbn [sign_bytes rev app]; rewrite <- ?app_assoc; reflexivity.
Qed.
End Radix.

Theorem run_read_hex neg m w p s :
  (m = 120 \/ m = 88)%N -> us_digits is_hex_b w p -> terminated s = true ->
  run read_hex (zs (sign_bytes neg ++ 48%N :: m :: w) ++ s) (sign_bytes neg ++ 48%N :: m :: p) (unterm s).
Proof.
  intros Hm Hw Hs. apply (run_read_radix is_x is_hex_digit is_hex_b hex_valid); auto.
  - unfold is_x. lia.
  - lia.
  - apply terminated_not_hex; auto.
Qed.
Theorem run_read_binary neg m w p s :
  (m = 98 \/ m = 66)%N -> us_digits is_bin_b w p -> terminated s = true ->
  run read_binary (zs (sign_bytes neg ++ 48%N :: m :: w) ++ s) (sign_bytes neg ++ 48%N :: m :: p) (unterm s).
Proof.
  intros Hm Hw Hs. apply (run_read_radix is_b is_bin_digit is_bin_b bin_valid); auto.
  - unfold is_b. lia.
  - lia.
  - apply terminated_not_hex; auto.
Qed.

(* ---- parseInt ------------------------------------------------------------------------------------------------------ *)
Definition mk_int (z : Z) : intval := if in_int64 z then I64 z else IBig z.
Definition digit_in (radix : N) (c : N) : Prop := hexval c = Some (dval c) /\ (dval c < radix)%N.

Lemma fold_go radix : forall p a, Forall (digit_in radix) p ->
  fold_left (fun acc c => match acc, hexval c with
                          | Some a, Some d => if (d <? radix)%N then Some (a * Z.of_N radix + Z.of_N d) else None
                          | _, _ => None
                          end) p (Some (Z.of_N a))
  = Some (Z.of_N (fold_left (fun a c => (a * radix + dval c)%N) p a)).
Proof.
  induction p as [|c p IH]; intros a Hp; [reflexivity|]. inversion Hp as [|? ? [H1 H2] Hp']; subst.
  cbn [fold_left]. rewrite H1. destruct (N.ltb_spec (dval c) radix); [|lia].
  replace (Z.of_N a * Z.of_N radix + Z.of_N (dval c)) with (Z.of_N (a * radix + dval c)) by lia.
  apply IH; auto.
Qed.
Lemma go_digits_val_spec radix p : p <> [] -> Forall (digit_in radix) p ->
  go_digits_val radix p = Some (Z.of_N (digits_value radix p)).
Proof.
  intros Hn Hp. unfold go_digits_val, digits_value. destruct p as [|c r]; [contradiction|].
  apply (fold_go radix (c :: r) 0%N Hp).
Qed.
Lemma go_signed_val_nosign radix c r : c <> 45%N -> c <> 43%N ->
  go_signed_val radix (c :: r) = go_digits_val radix (c :: r).
Proof.
  intros H1 H2. unfold go_signed_val. destruct c as [|q]; [reflexivity|].
  do 6 (try (destruct q as [q|q|]; try reflexivity)); congruence.
Qed.
Lemma digit_in_not_sign radix c : digit_in radix c -> c <> 45%N /\ c <> 43%N.
Proof. intros [H _]. split; intros ->; discriminate H. Qed.
Lemma go_signed_val_spec radix neg p : p <> [] -> Forall (digit_in radix) p ->
  go_signed_val radix (sign_bytes neg ++ p) = Some (sgn neg (digits_value radix p)).
Proof.
  intros Hn Hp. destruct neg; cbn [sign_bytes app sgn].
  - cbn [go_signed_val]. now rewrite (go_digits_val_spec radix p Hn Hp).
  - destruct p as [|c r]; [contradiction|]. inversion Hp as [|? ? Hc _]; subst.
    destruct (digit_in_not_sign _ _ Hc). rewrite go_signed_val_nosign by auto.
    apply go_digits_val_spec; auto.
Qed.

Lemma hex_digit_in c : is_hex_b c = true -> digit_in 16 c.
Proof.
  unfold is_hex_b, is_dec_b, digit_in, hexval, dval. intros H.
  assert (Hc : (c <= 57 \/ (57 < c /\ c <= 70) \/ 70 < c)%N) by lia. destruct Hc as [Hc|[Hc|Hc]].
  - replace ((48 <=? c)%N) with true by lia. replace ((c <=? 57)%N) with true by lia. split; [reflexivity|lia].
  - replace ((c <=? 57)%N) with false by lia. replace ((97 <=? c)%N) with false by lia.
    replace ((65 <=? c)%N) with true by lia. replace ((c <=? 70)%N) with true by lia.
    rewrite andb_false_r. cbn [andb]. split; [reflexivity|lia].
  - replace ((c <=? 57)%N) with false by lia. replace ((97 <=? c)%N) with true by lia.
    replace ((c <=? 102)%N) with true by lia. replace ((c <=? 70)%N) with false by lia.
    rewrite andb_false_r. cbn [andb]. split; [reflexivity|lia].
Qed.
Lemma dec_digit_in c : is_dec_b c = true -> digit_in 10 c.
Proof.
  intros H. destruct (hex_digit_in c) as [H1 H2]; [unfold is_hex_b; now rewrite H|]. split; [exact H1|].
  unfold is_dec_b in H. unfold dval. replace ((c <=? 57)%N) with true by lia. lia.
Qed.
Lemma bin_digit_in c : is_bin_b c = true -> digit_in 2 c.
Proof.
  intros H. destruct (hex_digit_in c) as [H1 H2]; [unfold is_hex_b, is_dec_b, is_bin_b in *; lia|]. split; [exact H1|].
  unfold is_bin_b in H. unfold dval. replace ((c <=? 57)%N) with true by lia. lia.
Qed.
Lemma Forall_digit_in (isd : N -> bool) radix p :
  (forall c, isd c = true -> digit_in radix c) -> Forall (fun c => isd c = true) p -> Forall (digit_in radix) p.
Proof. intros H Hp. eapply Forall_impl; [|exact Hp]. exact H. Qed.

(* decimal: the text is handed over as it is *)
Theorem parse_int_dec neg w p :
  us_digits is_dec_b w p ->
  parse_int (sign_bytes neg ++ p) 10 = Ok (mk_int (sgn neg (digits_value 10 p))).
Proof.
  intros Hw. destruct (us_digits_plain _ _ _ Hw) as [Hp Hn].
  unfold parse_int. change ((10 =? 10)%N) with true. cbv iota. cbn [bind].
  rewrite (go_signed_val_spec 10 neg p Hn (Forall_digit_in _ _ _ dec_digit_in Hp)). reflexivity.
Qed.
(* radix 16 / 2: sign, then `0x` / `0b` dropped *)
Lemma parse_int_radix radix (isd : N -> bool) neg m w p :
  radix <> 10%N -> (forall c, isd c = true -> digit_in radix c) -> us_digits isd w p ->
  parse_int (sign_bytes neg ++ 48%N :: m :: p) radix = Ok (mk_int (sgn neg (digits_value radix p))).
Proof.
  intros Hr Hd Hw. destruct (us_digits_plain _ _ _ Hw) as [Hp Hn].
  unfold parse_int. destruct (N.eqb_spec radix 10); [contradiction|].
  pose proof (go_signed_val_spec radix neg p Hn (Forall_digit_in _ _ _ Hd Hp)) as G.
  destruct neg; cbn [sign_bytes app] in *.
  - change ((45 =? 45)%N) with true. cbv iota. cbn [bind]. rewrite G. reflexivity.
  - change ((48 =? 45)%N) with false. cbv iota. cbn [bind]. rewrite G. reflexivity.
Qed.
Theorem parse_int_hex neg m w p :
  us_digits is_hex_b w p ->
  parse_int (sign_bytes neg ++ 48%N :: m :: p) 16 = Ok (mk_int (sgn neg (digits_value 16 p))).
Proof. apply parse_int_radix; [discriminate|exact hex_digit_in]. Qed.
Theorem parse_int_bin neg m w p :
  us_digits is_bin_b w p ->
  parse_int (sign_bytes neg ++ 48%N :: m :: p) 2 = Ok (mk_int (sgn neg (digits_value 2 p))).
Proof. apply parse_int_radix; [discriminate|exact bin_digit_in]. Qed.

(* ---- ParseDecimal (TextNum.parse_decimal_text) on the underscore-free text ------------------------------------ *)
Definition exp_value (e : option (N * list N * list N)) : Z :=
  match e with
  | None => 0
  | Some (_, sg, ed) => match sg with [45%N] => - Z.of_N (digits_value 10 ed) | _ => Z.of_N (digits_value 10 ed) end
  end.
(* what the grammar says a decimal literal denotes *)
Definition dec_denotes (n : numsp) : dec :=
  let co := digits_value 10 (n_ip n ++ n_fp n) in
  {| d_coef := sgn (n_neg n) co;
     d_exp := exp_value (n_exp n) - Z.of_nat (length (n_fp n));
     d_negzero := n_neg n && (co =? 0)%N |}.

(* the WRITTEN exponent can be read by strconv.ParseInt(_, 10, 64) -- a predicate on the spelling *)
Definition written_exp_int64 (n : numsp) : bool := in_int64 (exp_value (n_exp n)).

Definition isD (c : N) : bool := ((c =? 68) || (c =? 100))%N.
Definition pd_step1 (inp : list N) : res (Z * list N) :=
  match split_at_first isD inp [] with
  | Some (m, ex) =>
    match ex with
    | [] => Err
    | _ => match go_signed_val 10 ex with
           | Some z => if in_int64 z then Ok (z, m) else Err
           | None => Err
           end
    end
  | None => Ok (0%Z, inp)
  end.
Definition pd_step2 (e0 : Z) (inp : list N) : Z * list N :=
  match split_at_first (fun c => (c =? 46)%N) inp [] with
  | Some (ip, fp) => (wrap64z (e0 - wrap64z (Z.of_nat (length fp))), ip ++ fp)
  | None => (e0, inp)
  end.
Definition pd_step3 (e1 : Z) (inp : list N) : res dec :=
  if negb (in_int32 e1) then Err else
  match go_signed_val 10 inp with
  | None => Err
  | Some n =>
    let negzero := (n =? 0)%Z && match inp with 45%N :: _ => true | _ => false end in
    Ok {| d_coef := n; d_exp := wrap32 (- wrap32 (- e1)); d_negzero := negzero |}
  end.
Lemma pd_unfold c r :
  parse_decimal_text (c :: r) =
  bind (pd_step1 (c :: r)) (fun '(e0, inp) => let '(e1, inp) := pd_step2 e0 inp in pd_step3 e1 inp).
Proof.
  unfold parse_decimal_text, pd_step1, pd_step2, pd_step3, isD.
  destruct (split_at_first _ (c :: r) []) as [[m ex]|]; [|cbn [bind]].
  - destruct ex as [|x ex]; [reflexivity|]. destruct (go_signed_val 10 (x :: ex)) as [z|]; [|reflexivity].
    destruct (in_int64 z); [|reflexivity]. cbn [bind]. destruct (split_at_first _ m []) as [[ip fp]|]; reflexivity.
  - destruct (split_at_first _ (c :: r) []) as [[ip fp]|]; reflexivity.
Qed.

Lemma split_found (p : N -> bool) : forall a c b acc,
  Forall (fun x => p x = false) a -> p c = true -> split_at_first p (a ++ c :: b) acc = Some (rev acc ++ a, b).
Proof.
  induction a as [|x a IH]; intros c b acc Ha Hc; cbn [app split_at_first].
  - rewrite Hc. now rewrite app_nil_r.
  - inversion Ha as [|? ? Hx Ha']; subst. rewrite Hx. rewrite IH by auto. cbn [rev]. now rewrite <- app_assoc.
Qed.
Lemma split_none (p : N -> bool) : forall a acc, Forall (fun x => p x = false) a -> split_at_first p a acc = None.
Proof.
  induction a as [|x a IH]; intros acc Ha; cbn [split_at_first]; [reflexivity|].
  inversion Ha as [|? ? Hx Ha']; subst. rewrite Hx. now apply IH.
Qed.

Lemma dec_not c : is_dec_b c = true -> isD c = false /\ (c =? 46)%N = false.
Proof. unfold is_dec_b, isD. lia. Qed.
Lemma sign_not neg : Forall (fun x => isD x = false) (sign_bytes neg) /\ Forall (fun x => (x =? 46)%N = false) (sign_bytes neg).
Proof. destruct neg; cbn [sign_bytes]; split; repeat constructor. Qed.
Lemma digits_not p : Forall (fun c => is_dec_b c = true) p ->
  Forall (fun x => isD x = false) p /\ Forall (fun x => (x =? 46)%N = false) p.
Proof.
  intros H. split; (eapply Forall_impl; [|exact H]); intros a Ha; now destruct (dec_not a Ha).
Qed.

Lemma wrap32_id z : in_int32 z = true -> wrap32 z = z.
Proof. unfold in_int32, wrap32. lia. Qed.
Lemma wrap32_negneg z : (-2147483648 <= z <= 2147483647) -> wrap32 (- wrap32 (- z)) = z.
Proof. unfold wrap32. lia. Qed.

Lemma frac_plain (dot : bool) fw fp :
  (if dot then (fw = [] /\ fp = []) \/ us_digits is_dec_b fw fp else fw = [] /\ fp = []) ->
  Forall (fun c => is_dec_b c = true) fp /\ (dot = false -> fp = []).
Proof.
  destruct dot.
  - intros [[_ ->]|H]; [split; [constructor|discriminate]|]. split; [|discriminate]. now destruct (us_digits_plain _ _ _ H).
  - intros [_ ->]. split; [constructor|reflexivity].
Qed.

Lemma starts45 c (r : list N) : c <> 45%N -> match c :: r with 45%N :: _ => true | _ => false end = false.
Proof.
  intros H. destruct c as [|q]; [reflexivity|]. do 6 (try (destruct q as [q|q|]; try reflexivity)); congruence.
Qed.

Lemma wrap64z_sub w l : in_int64 w = true -> in_int32 (w - l) = true -> wrap64z (w - wrap64z l) = w - l.
Proof. unfold in_int64, in_int32, wrap64z. lia. Qed.
Lemma wrap64z_sub_out w l : in_int64 w = true -> 0 <= l < 4611686018427387904 -> in_int32 (w - l) = false ->
  in_int32 (wrap64z (w - wrap64z l)) = false.
Proof. unfold in_int64, in_int32, wrap64z. lia. Qed.

(* ParseDecimal on the text of a decimal literal, in general: the written exponent must be readable as an
   int64, the fraction digits lower it (in int64), and the result must fit int32 *)
Lemma parse_decimal_spelling_gen n :
  num_wf n -> num_kind n = NKDecimal ->
  parse_decimal_text (num_plain n) =
  if written_exp_int64 n then
    let e1 := wrap64z (exp_value (n_exp n) - wrap64z (Z.of_nat (length (n_fp n)))) in
    if in_int32 e1 then Ok {| d_coef := d_coef (dec_denotes n); d_exp := e1; d_negzero := d_negzero (dec_denotes n) |}
    else Err
  else Err.
Proof.
  intros (Hi & Hl & Hf & He) Hk. destruct n as [neg iw ip dot fw fp e].
  unfold num_kind, num_plain, dec_denotes, written_exp_int64 in *.
  cbn [n_neg n_iw n_ip n_dot n_fw n_fp n_exp d_exp d_coef d_negzero] in *.
  destruct (us_digits_plain _ _ _ Hi) as [Hip Hipn].
  destruct (frac_plain dot fw fp Hf) as [Hfp Hfp0].
  destruct (digits_not ip Hip) as [Hip1 Hip2]. destruct (digits_not fp Hfp) as [Hfp1 Hfp2].
  destruct (sign_not neg) as [Hsg1 Hsg2].
  (* the text is not empty *)
  assert (Hne : exists c r, sign_bytes neg ++ ip ++ (if dot then 46%N :: fp else []) ++ exp_text e = c :: r).
  { destruct neg; cbn [sign_bytes app]; [eauto|]. destruct ip as [|c r]; [contradiction|]. cbn [app]. eauto. }
  destruct Hne as (c & r & Hne). rewrite Hne, pd_unfold, <- Hne. clear c r Hne.
  (* the mantissa *)
  set (mant := sign_bytes neg ++ ip ++ (if dot then 46%N :: fp else [])).
  assert (HmD : Forall (fun x => isD x = false) mant).
  { unfold mant. apply Forall_app; split; [auto|]. apply Forall_app; split; [auto|].
    destruct dot; [constructor; [reflexivity|auto]|constructor]. }
  assert (S1 : pd_step1 (sign_bytes neg ++ ip ++ (if dot then 46%N :: fp else []) ++ exp_text e)
               = if in_int64 (exp_value e) then Ok (exp_value e, mant) else Err).
  { unfold pd_step1. replace (sign_bytes neg ++ ip ++ (if dot then 46%N :: fp else []) ++ exp_text e)
      with (mant ++ exp_text e) by (unfold mant; now rewrite <- !app_assoc).
    destruct e as [[[m sg] ed]|]; cbn [exp_text exp_value] in *.
    - destruct He as (Hm & Hsg & Hed & Hd).
      assert (Hm' : isD m = true) by (unfold isD; destruct Hm as [->|[->|[->| ->]]]; try reflexivity; discriminate Hk).
      rewrite (split_found isD mant m (sg ++ ed) [] HmD Hm'). cbn [rev app].
      assert (G : go_signed_val 10 (sg ++ ed) =
                  Some (match sg with [45%N] => - Z.of_N (digits_value 10 ed) | _ => Z.of_N (digits_value 10 ed) end)).
      { pose proof (Forall_digit_in _ _ _ dec_digit_in Hd) as Hd'.
        destruct Hsg as [->|[->| ->]].
        - apply (go_signed_val_spec 10 false ed Hed Hd').
        - cbn [app go_signed_val]. apply go_digits_val_spec; auto.
        - apply (go_signed_val_spec 10 true ed Hed Hd'). }
      destruct (sg ++ ed) as [|x y] eqn:Ex; [destruct sg; [contradiction|discriminate]|].
      rewrite G. reflexivity.
    - rewrite app_nil_r, (split_none isD mant [] HmD). reflexivity. }
  rewrite S1. destruct (in_int64 (exp_value e)) eqn:H64; [|reflexivity]. cbn [bind]. cbv beta iota.
  assert (S2 : pd_step2 (exp_value e) mant =
               (wrap64z (exp_value e - wrap64z (Z.of_nat (length fp))), sign_bytes neg ++ ip ++ fp)).
  { unfold pd_step2, mant. destruct dot.
    - rewrite app_assoc, (split_found (fun c => (c =? 46)%N) (sign_bytes neg ++ ip) 46%N fp []);
        [|apply Forall_app; split; auto|reflexivity]. cbn [rev app]. now rewrite <- app_assoc.
    - rewrite (Hfp0 eq_refl), !app_nil_r. rewrite split_none by (apply Forall_app; split; auto).
      cbn [length]. f_equal. unfold in_int64, wrap64z in *. lia. }
  rewrite S2. cbv beta iota zeta.
  unfold pd_step3.
  destruct (in_int32 (wrap64z (exp_value e - wrap64z (Z.of_nat (length fp))))) eqn:H32; cbn [negb]; [|reflexivity].
  assert (Hall : Forall (digit_in 10) (ip ++ fp)).
  { apply (Forall_digit_in _ _ _ dec_digit_in). apply Forall_app; split; auto. }
  assert (Hnn : ip ++ fp <> []) by (destruct ip; [contradiction|discriminate]).
  rewrite (go_signed_val_spec 10 neg (ip ++ fp) Hnn Hall).
  rewrite wrap32_negneg by (unfold in_int32 in H32; lia).
  f_equal. f_equal.
  destruct neg; cbn [sign_bytes app sgn andb].
  - destruct (digits_value 10 (ip ++ fp)); reflexivity.
  - destruct ip as [|c0 ip']; [contradiction|]. cbn [app]. inversion Hip as [|? ? Hc0 _]; subst.
    assert (c0 <> 45%N) by (unfold is_dec_b in Hc0; lia).
    pose proof (starts45 c0 [] H) as H45. cbv beta iota in H45. rewrite H45. now rewrite andb_false_r.
Qed.

(* ParseDecimal gives the denoted decimal whenever the exponent of the VALUE fits int32: the written exponent may be
   beyond int32 (0.5d2147483648 is 5d2147483647), it only has to be readable by ParseInt(_, 10, 64) *)
Theorem parse_decimal_spelling n :
  num_wf n -> num_kind n = NKDecimal ->
  -2147483648 <= d_exp (dec_denotes n) <= 2147483647 ->
  written_exp_int64 n = true ->
  parse_decimal_text (num_plain n) = Ok (dec_denotes n).
Proof.
  intros Hwf Hk Hr H64. rewrite (parse_decimal_spelling_gen n Hwf Hk), H64. cbv zeta.
  unfold written_exp_int64 in H64. unfold dec_denotes in *. cbn [d_exp d_coef d_negzero] in *.
  rewrite wrap64z_sub by (try exact H64; unfold in_int32; lia).
  replace (in_int32 _) with true by (unfold in_int32; lia). reflexivity.
Qed.

(* outside that range the literal is refused with an error -- never a panic, never a wrapped exponent.  (The bound
   on the number of fraction digits only says that the literal is a Go string: its length is an int.) *)
Theorem parse_decimal_spelling_out_of_range n :
  num_wf n -> num_kind n = NKDecimal ->
  Z.of_nat (length (n_fp n)) < 4611686018427387904 ->
  in_int32 (d_exp (dec_denotes n)) = false \/ written_exp_int64 n = false ->
  parse_decimal_text (num_plain n) = Err.
Proof.
  intros Hwf Hk Hlen Hout. rewrite (parse_decimal_spelling_gen n Hwf Hk).
  destruct (written_exp_int64 n) eqn:H64; [|reflexivity]. destruct Hout as [Hout|Hout]; [|discriminate]. cbv zeta.
  unfold written_exp_int64 in H64. unfold dec_denotes in Hout. cbn [d_exp] in Hout.
  rewrite wrap64z_sub_out by (try assumption; lia). reflexivity.
Qed.

(* the literal that the 32-bit parse of the written exponent used to refuse, and both ends of the range *)
Definition dexp_witness : numsp :=
  {| n_neg := false; n_iw := [48%N]; n_ip := [48%N]; n_dot := true; n_fw := [53%N]; n_fp := [53%N];
     n_exp := Some (100%N, [], s "2147483648") |}.
Lemma dexp_witness_wf : num_wf dexp_witness.
Proof.
  unfold num_wf, dexp_witness. cbn [n_iw n_ip n_dot n_fw n_fp n_exp]. split; [|split; [|split]].
  - repeat constructor.
  - left; reflexivity.
  - right. repeat constructor.
  - cbn. split; [auto|]. split; [auto|]. split; [discriminate|]. repeat constructor.
Qed.

(* ---- floats: the text handed to strconv.ParseFloat ------------------------------------------------------------------ *)
Lemma span_digits_app : forall p r, Forall (fun c => is_dec_b c = true) p ->
  (match r with c :: _ => is_dec_b c = false | [] => True end) ->
  span_digits (p ++ r) = (length p, r).
Proof.
  induction p as [|c p IH]; intros r Hp Hr; cbn [app].
  - destruct r as [|c r]; [reflexivity|]. cbn [span_digits]. unfold is_dec_b in Hr. now rewrite Hr.
  - inversion Hp as [|? ? Hc Hp']; subst. cbn [span_digits]. unfold is_dec_b in Hc. rewrite Hc.
    rewrite (IH r Hp' Hr). reflexivity.
Qed.

(* a float literal passes the model's ParseFloat syntax check; its value is strconv.ParseFloat of exactly the
   underscore-free text [num_plain n] (strconv.ParseFloat itself is outside the model and not re-proved) *)
Theorem float_syntax_spelling n :
  num_wf n -> num_kind n = NKFloat -> float_syntax_ok (num_plain n) = true.
Proof.
  intros (Hi & Hl & Hf & He) Hk. destruct n as [neg iw ip dot fw fp e].
  unfold num_kind, num_plain in *. cbn [n_neg n_iw n_ip n_dot n_fw n_fp n_exp] in *.
  destruct (us_digits_plain _ _ _ Hi) as [Hip Hipn].
  destruct (frac_plain dot fw fp Hf) as [Hfp Hfp0].
  destruct e as [[[m sg] ed]|]; [|destruct dot; discriminate Hk].
  destruct He as (Hm & Hsg & Hed & Hd). cbn [exp_text].
  assert (Hm' : (m = 101 \/ m = 69)%N).
  { destruct Hm as [->|[->|[->| ->]]]; auto; discriminate Hk. }
  unfold float_syntax_ok.
  (* after the sign *)
  assert (Hs : match sign_bytes neg ++ ip ++ (if dot then 46%N :: fp else []) ++ m :: sg ++ ed with
               | 43%N :: r | 45%N :: r => r
               | _ => sign_bytes neg ++ ip ++ (if dot then 46%N :: fp else []) ++ m :: sg ++ ed end
               = ip ++ (if dot then 46%N :: fp else []) ++ m :: sg ++ ed).
  { destruct neg; cbn [sign_bytes app]; [reflexivity|]. destruct ip as [|c0 ip']; [contradiction|].
    inversion Hip as [|? ? Hc0 _]; subst. cbn [app]. unfold is_dec_b in Hc0.
    destruct c0 as [|q]; [reflexivity|]. do 6 (try (destruct q as [q|q|]; try reflexivity)); cbv in Hc0; discriminate Hc0. }
  rewrite Hs.
  assert (Hmnd : is_dec_b m = false) by (destruct Hm' as [-> | ->]; reflexivity).
  assert (Hexp : forall n1 n2, (n1 + n2 =? 0)%nat = false ->
     (if (n1 + n2 =? 0)%nat then false else
      match m :: sg ++ ed with
      | [] => true
      | c :: r =>
        if ((c =? 101) || (c =? 69))%N then
          let r := match r with 43%N :: r' | 45%N :: r' => r' | _ => r end in
          let '(n3, r) := span_digits r in
          negb (n3 =? 0)%nat && match r with [] => true | _ => false end
        else false
      end) = true).
  { intros n1 n2 ->. replace ((m =? 101) || (m =? 69))%N with true by lia.
    assert (Hr : match sg ++ ed with 43%N :: r' | 45%N :: r' => r' | _ => sg ++ ed end = ed).
    { destruct Hsg as [->|[->| ->]]; [|reflexivity|reflexivity]. cbn [app].
      destruct ed as [|e0 ed']; [contradiction|]. inversion Hd as [|? ? He0 _]; subst. unfold is_dec_b in He0.
      destruct e0 as [|q]; [reflexivity|]. do 6 (try (destruct q as [q|q|]; try reflexivity)); cbv in He0; discriminate He0. }
    cbv zeta. rewrite Hr. rewrite <- (app_nil_r ed), (span_digits_app ed [] Hd I).
    destruct ed; [contradiction|]. reflexivity. }
  destruct dot; cbn [app].
  - rewrite (span_digits_app ip (46%N :: fp ++ m :: sg ++ ed) Hip eq_refl).
    rewrite (span_digits_app fp (m :: sg ++ ed) Hfp Hmnd).
    apply Hexp. destruct ip; [contradiction|]. reflexivity.
  - rewrite (span_digits_app ip (m :: sg ++ ed) Hip Hmnd).
    assert (Hm46 : match m :: sg ++ ed with 46%N :: r => span_digits r | _ => (O, m :: sg ++ ed) end = (O, m :: sg ++ ed)).
    { destruct Hm' as [-> | ->]; reflexivity. }
    rewrite Hm46. apply Hexp. destruct ip; [contradiction|]. reflexivity.
Qed.

(* ---- on a concrete input ------------------------------------------------------------------------------------------------------- *)
Lemma us_tail_no_cr (isd : N -> bool) w p : (forall c, isd c = true -> c <> 13%N) -> us_tail isd w p -> no_cr w.
Proof.
  intros Hd. induction 1 as [|c w p Hc Ht IH|c w p Hc Ht IH]; [constructor|constructor; auto|].
  constructor; [discriminate|exact IH].
Qed.
Lemma us_digits_no_cr (isd : N -> bool) w p : (forall c, isd c = true -> c <> 13%N) -> us_digits isd w p -> no_cr w.
Proof. intros Hd [c w' p' Hc Ht]. constructor; [auto|]. eapply us_tail_no_cr; eauto. Qed.
Lemma dec_not_cr c : is_dec_b c = true -> c <> 13%N.
Proof. unfold is_dec_b. lia. Qed.
Lemma hex_not_cr c : is_hex_b c = true -> c <> 13%N.
Proof. unfold is_hex_b, is_dec_b. lia. Qed.
Lemma bin_not_cr c : is_bin_b c = true -> c <> 13%N.
Proof. unfold is_bin_b. lia. Qed.
Lemma sign_no_cr neg : no_cr (sign_bytes neg).
Proof. destruct neg; repeat constructor. discriminate. Qed.

Lemma num_text_no_cr n : num_wf n -> no_cr (num_text n).
Proof.
  intros (Hi & _ & Hf & He). unfold num_text.
  apply no_cr_app. split; [apply sign_no_cr|]. apply no_cr_app. split; [exact (us_digits_no_cr _ _ _ dec_not_cr Hi)|].
  apply no_cr_app. split.
  - destruct (n_dot n); [|constructor]. constructor; [discriminate|].
    destruct Hf as [[-> _]|Hf]; [constructor|exact (us_digits_no_cr _ _ _ dec_not_cr Hf)].
  - destruct (n_exp n) as [[[m sg] ed]|]; [|constructor]. destruct He as (Hm & Hsg & _ & Hd). cbn [exp_text].
    constructor; [lia|]. apply no_cr_app. split.
    + destruct Hsg as [->|[->| ->]]; repeat constructor; discriminate.
    + eapply Forall_impl; [|exact Hd]. intros a Ha. now apply dec_not_cr.
Qed.

(* the first byte of [rest] is not LF when [rest] terminates a token *)
Lemma terminated_hd rest : terminated (zs (norm rest)) = true -> hd 0%N rest <> 10%N \/ True.
Proof. intros _. right. exact I. Qed.

Lemma norm_lit_app lit rest : no_cr lit -> norm (lit ++ rest) = lit ++ norm rest.
Proof. apply norm_app_nocr. Qed.

Theorem read_number_spelling n rest t :
  num_wf n -> terminated (zs (norm rest)) = true ->
  t_ioerr t = false -> t_buf t = [] -> t_in t = num_text n ++ rest ->
  exists t', t_read_number t = Ok ((num_plain n, num_kind n), t') /\
             stream t' = unterm (zs (norm rest)) /\ t_ioerr t' = false /\
             t_token t' = t_token t /\ t_unfinished t' = t_unfinished t.
Proof.
  intros Hwf Hs Hi Hb Hin.
  pose proof (run_read_number n (zs (norm rest)) Hwf Hs) as R.
  destruct (run_apply _ _ _ _ t R Hi) as (t' & E & Hi' & Hs' & Hk & Hu).
  - rewrite (stream_in t Hb), Hin, (norm_lit_app _ _ (num_text_no_cr n Hwf)), zs_app. reflexivity.
  - exists t'. auto.
Qed.
Theorem read_radix_spelling (hex : bool) neg m w p rest t :
  (if hex then (m = 120 \/ m = 88)%N /\ us_digits is_hex_b w p else (m = 98 \/ m = 66)%N /\ us_digits is_bin_b w p) ->
  terminated (zs (norm rest)) = true ->
  t_ioerr t = false -> t_buf t = [] -> t_in t = (sign_bytes neg ++ 48%N :: m :: w) ++ rest ->
  exists t', (if hex then read_hex else read_binary) t = Ok (sign_bytes neg ++ 48%N :: m :: p, t') /\
             stream t' = unterm (zs (norm rest)) /\ t_ioerr t' = false /\
             t_token t' = t_token t /\ t_unfinished t' = t_unfinished t.
Proof.
  intros Hm Hs Hi Hb Hin.
  assert (Hcr : no_cr (sign_bytes neg ++ 48%N :: m :: w)).
  { apply no_cr_app. split; [apply sign_no_cr|]. constructor; [discriminate|].
    destruct hex; destruct Hm as [Hm Hd]; (constructor; [lia|]).
    - exact (us_digits_no_cr _ _ _ hex_not_cr Hd).
    - exact (us_digits_no_cr _ _ _ bin_not_cr Hd). }
  assert (R : run (if hex then read_hex else read_binary) (zs (sign_bytes neg ++ 48%N :: m :: w) ++ zs (norm rest))
                  (sign_bytes neg ++ 48%N :: m :: p) (unterm (zs (norm rest)))).
  { destruct hex; destruct Hm as [Hm Hd]; [apply run_read_hex|apply run_read_binary]; auto. }
  destruct (run_apply _ _ _ _ t R Hi) as (t' & E & Hi' & Hs' & Hk & Hu).
  - rewrite (stream_in t Hb), Hin, (norm_lit_app _ _ Hcr), zs_app. reflexivity.
  - exists t'. auto.
Qed.

(* the hypotheses are satisfiable: -1_234.5_0e-07 followed by a comment, and -0xdead_BEEF followed by `]` *)
Definition num_example : numsp :=
  {| n_neg := true; n_iw := s "1_234"; n_ip := s "1234"; n_dot := true; n_fw := s "5_0"; n_fp := s "50";
     n_exp := Some (101%N, [45%N], s "07") |}.
Example num_example_wf : num_wf num_example.
Proof.
  unfold num_wf, num_example. cbn [n_iw n_ip n_dot n_fw n_fp n_exp]. split; [|split; [|split]].
  - cbn. apply usd; [reflexivity|]. apply ut_under; [reflexivity|].
    repeat (apply ut_digit; [reflexivity|]). apply ut_nil.
  - right. cbn. discriminate.
  - right. cbn. apply usd; [reflexivity|]. apply ut_under; [reflexivity|]. apply ut_digit; [reflexivity|]. apply ut_nil.
  - cbn. split; [auto|]. split; [auto|]. split; [discriminate|]. repeat constructor.
Qed.
Example num_example_text : num_text num_example = s "-1_234.5_0e-07" /\ num_plain num_example = s "-1234.50e-07".
Proof. split; reflexivity. Qed.
Example num_example_read :
  exists t', t_read_number (t_init (s "-1_234.5_0e-07/**/ 1") false) = Ok ((s "-1234.50e-07", NKFloat), t').
Proof.
  destruct (read_number_spelling num_example (s "/**/ 1") (t_init (s "-1_234.5_0e-07/**/ 1") false) num_example_wf)
    as (t' & E & _); try reflexivity. exists t'. exact E.
Qed.
Example radix_example_read :
  exists t', read_hex (t_init (s "-0xdead_BEEF]") false) = Ok (s "-0xdeadBEEF", t') /\
             parse_int (s "-0xdeadBEEF") 16 = Ok (I64 (-3735928559)).
Proof.
  assert (Hd : us_digits is_hex_b (s "dead_BEEF") (s "deadBEEF")).
  { cbn. apply usd; [reflexivity|]. do 3 (apply ut_digit; [reflexivity|]). apply ut_under; [reflexivity|].
    do 4 (apply ut_digit; [reflexivity|]). apply ut_nil. }
  destruct (read_radix_spelling true true 120%N (s "dead_BEEF") (s "deadBEEF") (s "]") (t_init (s "-0xdead_BEEF]") false))
    as (t' & E & _); try reflexivity; [split; [now left|exact Hd]|].
  exists t'. split; [exact E|]. exact (parse_int_hex true 120%N _ _ Hd).
Qed.
