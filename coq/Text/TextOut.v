(* TextOut.v — pure functions of ion/textutils.go and ion/consts.go used by the text
   Writer: character classes, symbolNeedsQuoting, the escape tables, writeSymbol /
   writeSymbolFromString, textNulls, integer text, formatFloat's post-processing, and
   the write pattern of encoding/base64's stream encoder (go1.23 base64.go).

   Everything that reaches the io.Writer is produced as a list of CHUNKS: one chunk =
   one Write call, in the order the Go code issues them (writeRawChar = one 1-byte
   write, writeRawString / writeRawChars = one write, possibly of zero bytes).

   Not modelled (trusted inputs of the model, see TextWriter.v [formats]):
   strconv.FormatFloat(val,'e',-1,64) for finite non-zero val, Decimal.String,
   Timestamp.String.  No proofs in this file. *)
From Coq Require Import String List NArith ZArith Bool.
From IonV Require Import Base.Wire Data.Ion Num.Float Bin.BinWriter.
Import ListNotations.
Open Scope N_scope.

Definition chunk := list N.

(* ---- character classes (textutils.go) ------------------------------------------------ *)
Definition in_rng (lo hi c : N) : bool := (lo <=? c) && (c <=? hi).
Definition is_digit_c (c : N) : bool := in_rng 48 57 c.
Definition is_identifier_start (c : N) : bool :=
  in_rng 97 122 c || in_rng 65 90 c || (c =? 95) || (c =? 36).
Definition is_identifier_part (c : N) : bool := is_identifier_start c || is_digit_c c.
Definition is_hex_digit (c : N) : bool := is_digit_c c || in_rng 97 102 c || in_rng 65 70 c.
Definition mem_N (c : N) (l : list N) : bool := existsb (N.eqb c) l.
(* ! # % & * + - . / ; < = > ? @ ^ ` | ~ *)
Definition is_operator_char (c : N) : bool :=
  mem_N c [33; 35; 37; 38; 42; 43; 45; 46; 47; 59; 60; 61; 62; 63; 64; 94; 96; 124; 126].
(* braces, brackets, parentheses, comma, double quote, single quote, space, tab, LF, CR, VT, FF
   (the case -1 = end of input is not a byte) *)
Definition is_stop_char (c : N) : bool :=
  mem_N c [123; 125; 91; 93; 40; 41; 44; 34; 39; 32; 9; 10; 13; 11; 12].
Definition is_whitespace (c : N) : bool := mem_N c [32; 9; 10; 13; 11; 12].

(* ---- symbolNeedsQuoting ------------------------------------------------------------------ *)
Definition keywords : list text :=
  [ []; s "null"; s "true"; s "false"; s "nan" ].
(* looksLikeVersionMarker: $ion_<digits>_<digits> *)
Fixpoint span_digits (l : list N) : list N * list N :=
  match l with
  | c :: r => if is_digit_c c then let '(d, t) := span_digits r in (c :: d, t) else ([], l)
  | [] => ([], [])
  end.
Fixpoint strip_prefix (p l : list N) : option (list N) :=
  match p, l with
  | [], _ => Some l
  | a :: p', b :: l' => if a =? b then strip_prefix p' l' else None
  | _ :: _, [] => None
  end.
Definition looks_like_version_marker (sym : text) : bool :=
  match strip_prefix (s "$ion_") sym with
  | Some rest =>
    let '(d1, r1) := span_digits rest in
    match d1, r1 with
    | _ :: _, 95 :: r2 =>
      let '(d2, r3) := span_digits r2 in
      match d2, r3 with _ :: _, [] => true | _, _ => false end
    | _, _ => false
    end
  | None => false
  end.
Definition symbol_needs_quoting (sym : text) : bool :=
  if existsb (list_eqb sym) keywords then true
  else match sym with
       | [] => true                                   (* not reached: "" is in the switch *)
       | c :: r => negb (is_identifier_start c) || negb (forallb is_identifier_part r)
                   (* '$' digits that symbolIdentifier rejects (does not fit an int): ordinary text *)
                   || ((c =? 36) && negb (list_eqb r []) && forallb is_digit_c r
                       && match symbol_identifier sym with Some _ => false | None => true end)
                   (* a bare $ion_1_0 at top level is a version marker, not a symbol value *)
                   || looks_like_version_marker sym
       end.

(* ---- writeEscapedChar ----------------------------------------------------------------------- *)
Definition hex_char_upper (d : N) : N := if d <? 10 then 48 + d else 55 + d.   (* hexChars *)
Definition escaped_char (c : N) : chunk :=
  if c =? 0 then [92; 48]            (* \0 *)
  else if c =? 7 then [92; 97]       (* \a *)
  else if c =? 8 then [92; 98]       (* \b *)
  else if c =? 9 then [92; 116]      (* \t *)
  else if c =? 10 then [92; 110]     (* \n *)
  else if c =? 12 then [92; 102]     (* \f *)
  else if c =? 13 then [92; 114]     (* \r *)
  else if c =? 11 then [92; 118]     (* \v *)
  else if c =? 39 then [92; 39]      (* backslash quote *)
  else if c =? 34 then [92; 34]      (* backslash dquote *)
  else if c =? 92 then [92; 92]      (* \\ *)
  else [92; 120; hex_char_upper ((c / 16) mod 16); hex_char_upper (c mod 16)].

(* one chunk per input byte *)
Definition esc_symbol_char (c : N) : chunk :=
  if (c <? 32) || (c =? 92) || (c =? 39) then escaped_char c else [c].
Definition esc_string_char (c : N) : chunk :=
  if (c <? 32) || (c =? 92) || (c =? 34) then escaped_char c else [c].
Definition esc_clob_char (c : N) : chunk :=
  if (c <? 32) || (c =? 92) || (c =? 34) || (127 <? c) then escaped_char c else [c].

Definition escaped_symbol (sym : text) : list chunk := map esc_symbol_char sym.
Definition escaped_string (str : text) : list chunk := map esc_string_char str.
Definition escaped_clob (b : list N) : list chunk := map esc_clob_char b.

(* ---- writeSymbolFromString / writeSymbol ---------------------------------------------------- *)
Definition write_symbol_from_string (sym : text) : list chunk :=
  if symbol_needs_quoting sym then [[39]] ++ escaped_symbol sym ++ [[39]]
  else [sym].

(* None = "ion: invalid symbol token", returned before anything is written *)
Definition write_symbol (t : tok) : option (list chunk) :=
  match tk_text t with
  | Some x =>
    match symbol_identifier x with
    | Some _ => Some [[39] ++ x ++ [39]]             (* fmt.Sprintf of the text between single quotes: one write, no escaping *)
    | None => Some (write_symbol_from_string x)
    end
  | None =>
    if negb (tk_sid t =? -1)%Z then Some (write_symbol_from_string (36 :: dec_of_Z (tk_sid t)))
    else None
  end.

(* ---- textNulls -------------------------------------------------------------------------------- *)
Definition text_nulls : list text :=
  [ s "null"; s "null.null"; s "null.bool"; s "null.int"; s "null.float"; s "null.decimal";
    s "null.timestamp"; s "null.symbol"; s "null.string"; s "null.clob"; s "null.blob";
    s "null.list"; s "null.sexp"; s "null.struct" ].
(* textNulls[t]: index out of range panics *)
Definition text_null (t : N) : res text :=
  match nth_error text_nulls (N.to_nat t) with
  | Some x => Ok x
  | None => Panic
  end.

(* ---- formatFloat ---------------------------------------------------------------------------------- *)
(* strings.Index(str, "e") *)
Fixpoint index_e (l : list N) (i : N) : option N :=
  match l with
  | [] => None
  | c :: r => if c =? 101 then Some i else index_e r (i + 1)
  end.
Definition nth_N (l : list N) (i : N) : option N := nth_error l (N.to_nat i).
(* the part of formatFloat after strconv.FormatFloat and the special-value switch *)
Definition fix_exponent (str : list N) : list N :=
  match index_e str 0 with
  | None => str ++ [101; 48]                                     (* str += "e0" *)
  | Some idx =>
    if (idx + 2 <? N.of_nat (length str)) &&
       (match nth_N str (idx + 2) with Some 48 => true | _ => false end)
    then firstn (N.to_nat (idx + 2)) str ++ skipn (N.to_nat (idx + 3)) str
    else str
  end.
Definition f64_is_inf (b : N) : bool := (f64_exp b =? 2047) && (f64_man b =? 0).
(* [raw] = strconv.FormatFloat(val,'e',-1,64) of a finite, non-zero val *)
Definition format_float (raw : N -> list N) (bits : N) : list N :=
  if f64_is_nan bits then s "nan"
  else if f64_is_inf bits then (if f64_sign bits =? 0 then s "+inf" else s "-inf")
  else if bits =? 0 then fix_exponent (s "0e+00")
  else if bits =? 2 ^ 63 then fix_exponent (s "-0e+00")
  else fix_exponent (raw bits).

(* ---- encoding/base64: StdEncoding through NewEncoder(...).Write(val); Close() ----------------- *)
Definition b64_char (v : N) : N :=
  if v <? 26 then 65 + v else if v <? 52 then 97 + (v - 26) else if v <? 62 then 48 + (v - 52)
  else if v =? 62 then 43 else 47.
(* Encoding.Encode *)
Fixpoint b64_encode (l : list N) : list N :=
  match l with
  | [] => []
  | [a] => [b64_char (a / 4); b64_char ((a mod 4) * 16); 61; 61]
  | [a; b] => [b64_char (a / 4); b64_char ((a mod 4) * 16 + b / 16); b64_char ((b mod 16) * 4); 61]
  | a :: b :: c :: r =>
    b64_char (a / 4) :: b64_char ((a mod 4) * 16 + b / 16) :: b64_char ((b mod 16) * 4 + c / 64)
    :: b64_char (c mod 64) :: b64_encode r
  end.
(* encoder.Write on a fresh encoder (nbuf = 0): "large interior chunks" of at most
   len(e.out)/4*3 = 768 input bytes (a multiple of 3), one Write of the encoded text each;
   fewer than 3 bytes left are buffered and written by Close (one Write, padded). *)
Fixpoint b64_writes (fuel : nat) (p : list N) : list chunk :=
  match fuel with
  | O => []
  | S f =>
    let n := length p in
    if Nat.leb 3 n then
      let nn := if Nat.ltb 768 n then 768%nat else (n - Nat.modulo n 3)%nat in
      b64_encode (firstn nn p) :: b64_writes f (skipn nn p)
    else match p with
         | [] => []
         | _ => [b64_encode p]                                    (* Close *)
         end
  end.
Definition blob_body (val : list N) : list chunk := b64_writes (S (length val)) val.

(* ---- specification side: how the Ion text specification READS the body of a short quoted
   token (used by theorems only).  [q] is the delimiter; \xHH below 128 is the code point /
   byte HH; in a clob ([lob] = true) \xHH is the byte HH for every HH and raw bytes must be
   printable ASCII; in strings and symbols raw bytes from 128 on are UTF-8 text, passed on. *)
Definition simple_escape (e : N) : option N :=
  if e =? 48 then Some 0 else if e =? 97 then Some 7 else if e =? 98 then Some 8
  else if e =? 116 then Some 9 else if e =? 110 then Some 10 else if e =? 102 then Some 12
  else if e =? 114 then Some 13 else if e =? 118 then Some 11 else if e =? 63 then Some 63
  else if e =? 34 then Some 34 else if e =? 39 then Some 39 else if e =? 47 then Some 47
  else if e =? 92 then Some 92 else None.
Fixpoint unescape (lob : bool) (q : N) (l : list N) : option (list N) :=
  match l with
  | [] => Some []
  | c :: r =>
    if c =? 92 then
      match r with
      | [] => None
      | e :: r1 =>
        if e =? 120 then
          match r1 with
          | h1 :: h2 :: r2 =>
            match hexval h1, hexval h2 with
            | Some a, Some b =>
              let v := a * 16 + b in
              if lob || (v <? 128) then option_map (cons v) (unescape lob q r2) else None
            | _, _ => None
            end
          | _ => None
          end
        else match simple_escape e with
             | Some v => option_map (cons v) (unescape lob q r1)
             | None => None
             end
      end
    else if (c =? q) || (c <? 32) || (lob && (127 <? c)) then None
    else option_map (cons c) (unescape lob q r)
  end.
