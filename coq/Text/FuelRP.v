(* FuelRP.v — the text reader model never runs out of fuel: every iteration of the loop of Next that
   goes round again has taken at least one character off [t_rem], so the [t_rem] + 2 iterations it is
   given suffice; StepOut and the accessors have no loop of their own. *)
From Coq Require Import String List NArith ZArith Bool Lia.
From IonV Require Import Base.Wire Base.Utf8 Bin.Bits Data.Ion Num.Float Bin.BitStream Bin.BinReader
  Text.Tokenizer Text.Skipper Text.TextReader Text.TokenizerP Text.FuelP.
Import ListNotations.
Open Scope N_scope.

Definition xrem (x : xstate) : nat := t_rem (x_tok x).
Definition rwp {A} (r : xstate * res A) (Q : A -> xstate -> Prop) : Prop :=
  match r with (x', Ok a) => Q a x' | (_, OutOfFuel) => False | _ => True end.

Lemma rwp_bind {A B} (m : R A) (f : A -> R B) x Q :
  rwp (m x) (fun a x' => rwp (f a x') Q) -> rwp (rbind m f x) Q.
Proof. unfold rwp, rbind. destruct (m x) as [x' [a| | |]]; auto. Qed.
Lemma rwp_mono {A} (r : xstate * res A) (Q Q' : A -> xstate -> Prop) :
  rwp r Q -> (forall a x', Q a x' -> Q' a x') -> rwp r Q'.
Proof. unfold rwp. destruct r as [x' [a| | |]]; auto. Qed.
Lemma rwp_lift {A} (m : M A) x (Q : A -> xstate -> Prop) :
  wp m (x_tok x) (fun a t' => Q a (xs_tok x t')) -> rwp (lift m x) Q.
Proof. unfold rwp, lift, wp. destruct (m (x_tok x)) as [[a t]| | |]; auto. Qed.
Lemma rwp_ret {A} (a : A) x (Q : A -> xstate -> Prop) : Q a x -> rwp (rret a x) Q.
Proof. exact (fun H => H). Qed.
Lemma rwp_fail {A} x Q : rwp (@rfail A x) Q. Proof. exact I. Qed.
Lemma rwp_panic {A} x Q : rwp (@rpanic A x) Q. Proof. exact I. Qed.
Lemma rwp_get x (Q : xstate -> xstate -> Prop) : Q x x -> rwp (rget x) Q.
Proof. exact (fun H => H). Qed.
Lemma rwp_mod f x (Q : unit -> xstate -> Prop) : Q tt (f x) -> rwp (rmod f x) Q.
Proof. exact (fun H => H). Qed.
Lemma rwp_of_res {A} (r : res A) x (Q : A -> xstate -> Prop) :
  r <> OutOfFuel -> (forall a, Q a x) -> rwp (of_res r x) Q.
Proof. unfold rwp, of_res. destruct r; auto. Qed.

Definition in_sexp (x : xstate) : bool := match x_ctx x with CSexp :: _ => true | _ => false end.
(* nothing given back, context stack unchanged *)
Definition basic {A} (r : nat) (c : list ctype) : A -> xstate -> Prop :=
  fun _ x' => (xrem x' <= r)%nat /\ x_ctx x' = c.

Ltac xs := unfold xrem in *; cbn [x_tok x_ctx x_eof x_state x_type x_value x_annots xs_tok xs_state xs_ctx xs_eof xs_lst xs_field xs_annots xs_val
                x_clear x_explode fst snd] in *.
Ltac rlift L := apply rwp_lift; eapply wp_mono; [eapply L|cbn beta; intros; wsimp; xs].
Ltac rstep :=
  match goal with
  | |- rwp (rbind _ _ _) _ => apply rwp_bind
  | |- rwp (rret _ _) _ => apply rwp_ret; cbn beta
  | |- rwp (rfail _) _ => apply rwp_fail
  | |- rwp (rpanic _) _ => apply rwp_panic
  | |- rwp (rget _) _ => apply rwp_get; cbn beta
  | |- rwp (rmod _ _) _ => apply rwp_mod; cbn beta
  | |- rwp (lift _ _) _ =>
    apply rwp_lift; eapply wp_mono; [solve [eauto 2 with wps nocore]|cbn beta; intros; wsimp; xs]
  | |- rwp ((if ?b then _ else _) _) _ => destruct b eqn:?
  | |- rwp ((let '(_, _) := ?p in _) _) _ => destruct p
  | |- rwp (match ?v with _ => _ end _) _ => destruct v eqn:?
  | |- rwp (if ?b then _ else _) _ => destruct b eqn:?
  | |- rwp (match ?v with _ => _ end) _ => destruct v eqn:?
  end.
Ltac bfin := unfold basic; xs; try (split; [wfin|try reflexivity; try assumption; try congruence]).

#[export] Hint Resolve read_value_spec read_number_spec skip_dot_spec t_skip_double_colon_spec skip_lob_ws_spec
  read_short_clob_spec read_long_clob_spec' read_blob_spec finish_value_spec skip_container_contents_spec : wps.
Lemma next_cost t : wp t_next t (fun _ t' => (t_rem t' + tok_cost (t_token t') <= t_rem t)%nat).
Proof. eapply wp_mono; [apply next_spec|]. cbn beta. intros _ t' [H _]. exact H. Qed.
#[export] Hint Resolve next_cost : wps.

Section Reader.
Variable pd : list N -> res dec.
Variable pt : list N -> res (list N).
Hypothesis pd_nof : forall l, pd l <> OutOfFuel.
Hypothesis pt_nof : forall l, pt l <> OutOfFuel.

Lemma new_symbol_token_nof l t : new_symbol_token l t <> OutOfFuel.
Proof.
  unfold new_symbol_token. destruct (symbol_identifier t).
  - destruct (z <? 0)%Z; [discriminate|]. destruct (tok_by_sid l (Z.to_N z)); discriminate.
  - destruct (symbol_id_out_of_range t); discriminate.
Qed.
Lemma parse_int_nof v radix : parse_int v radix <> OutOfFuel.
Proof.
  unfold parse_int. destruct (radix =? 10).
  - cbn [bind]. destruct (go_signed_val radix v); discriminate.
  - destruct v as [|c r]; [discriminate|]. destruct (if c =? 45 then r else c :: r) as [|a [|b d2]]; try discriminate.
    cbn [bind]. match goal with |- context [go_signed_val ?r ?d] => destruct (go_signed_val r d) end; discriminate.
Qed.

Lemma set_value_spec ty v x : rwp (set_value ty v x) (basic (xrem x) (x_ctx x)).
Proof. unfold set_value. rstep. bfin. Qed.
Lemma read_null_type_spec x : rwp (read_null_type x) (basic (xrem x) (x_ctx x)).
Proof. unfold read_null_type. repeat rstep; bfin. Qed.
Lemma on_null_spec ws x : rwp (on_null ws x) (basic (xrem x) (x_ctx x)).
Proof.
  unfold on_null. destruct (negb ws); [|rstep; bfin]. rstep. rstep. destruct a.
  - eapply rwp_mono; [apply read_null_type_spec|]. unfold basic; xs. intros ? ? [? ?]. split; [lia|assumption].
  - rstep. bfin.
Qed.
Lemma on_symbol_spec v ws x : rwp (on_symbol v ws x) (basic (xrem x) (x_ctx x)).
Proof.
  unfold on_symbol.
  repeat match goal with |- rwp ((if ?b then _ else _) _) _ => destruct b end;
    try (eapply rwp_mono; [apply set_value_spec|intros ? ? K; exact K]).
  - rstep. eapply rwp_mono; [apply on_null_spec|]. cbn beta. intros ty x1 [K1 K2].
    eapply rwp_mono; [apply set_value_spec|]. unfold basic. intros ? ? [? ?]. split; [lia|congruence].
  - rstep. rstep. rstep. apply rwp_of_res; [apply new_symbol_token_nof|]. intros k.
    eapply rwp_mono; [apply set_value_spec|intros ? ? K; exact K].
Qed.

(* what the number handler is sure to consume *)
Definition hd_num (t : tstate) : bool :=
  match t_buf t with c :: _ => is_digit c || (c =? c_minus)%Z | [] => false end.
Definition nd (tok : N) (x : xstate) : nat :=
  if numlike tok then 1%nat else if (tok =? tokenNumber) && hd_num (x_tok x) then 1%nat else O.
Lemma read_number_nd t : wp t_read_number t (fun _ t' => (t_rem t' + (if hd_num t then 1 else 0) <= t_rem t)%nat).
Proof.
  unfold hd_num. destruct (t_buf t) as [|c b] eqn:E.
  - eapply wp_mono; [apply read_number_spec|cbn beta; intros; lia].
  - destruct (is_digit c || (c =? c_minus)%Z) eqn:D.
    + eapply wp_mono; [eapply read_number_strict; eassumption|cbn beta; intros; lia].
    + eapply wp_mono; [apply read_number_spec|cbn beta; intros; lia].
Qed.
Lemma on_number_spec tok x :
  rwp (on_number pd tok x) (fun _ x' => (xrem x' + nd tok x <= xrem x)%nat /\ x_ctx x' = x_ctx x).
Proof.
  unfold on_number, nd, numlike.
  destruct (tok =? tokenBinary) eqn:E1.
  { cbn [orb]. rstep. rlift read_value_numlike_strict. { unfold numlike; rewrite E1; reflexivity. }
    rstep. apply rwp_of_res; [apply parse_int_nof|]. intros i.
    eapply rwp_mono; [apply set_value_spec|]. unfold basic; xs. intros ? ? [? ?]. split; [lia|assumption]. }
  destruct (tok =? tokenHex) eqn:E2.
  { cbn [orb]. rstep. rlift read_value_numlike_strict. { unfold numlike; rewrite E1, E2; reflexivity. }
    rstep. apply rwp_of_res; [apply parse_int_nof|]. intros i.
    eapply rwp_mono; [apply set_value_spec|]. unfold basic; xs. intros ? ? [? ?]. split; [lia|assumption]. }
  cbn [orb].
  destruct (tok =? tokenNumber) eqn:E3.
  { assert (Et : (tok =? tokenTimestamp) = false).
    { apply N.eqb_eq in E3. subst tok. reflexivity. }
    rewrite Et. cbn [andb]. rstep. rlift read_number_nd.
    assert (Hm : forall ty v, rwp (set_value ty v (xs_tok x t')) (fun _ x' =>
              (xrem x' + (if hd_num (x_tok x) then 1 else 0) <= xrem x)%nat /\ x_ctx x' = x_ctx x)).
    { intros ty v. eapply rwp_mono; [apply set_value_spec|]. unfold basic; xs. intros ? ? [? ?]. split; [lia|assumption]. }
    destruct n.
    - rstep. apply rwp_of_res; [apply parse_int_nof|]. intros i. apply Hm.
    - destruct (float_syntax_ok l); [apply Hm|apply rwp_fail].
    - rstep. apply rwp_of_res; [apply pd_nof|]. intros i. apply Hm. }
  assert (Hz : (if (tok =? tokenTimestamp) then 1%nat else if false && hd_num (x_tok x) then 1%nat else 0%nat)
               = (if (tok =? tokenTimestamp) then 1%nat else 0%nat)) by (destruct (tok =? tokenTimestamp); reflexivity).
  rewrite Hz.
  assert (Hm : forall ty v, rwp (set_value ty v x) (fun _ x' =>
            (xrem x' + (if (tok =? tokenTimestamp)%N then 1 else 0) <= xrem x)%nat /\ x_ctx x' = x_ctx x) \/ (tok =? tokenTimestamp) = true).
  { intros ty v. destruct (tok =? tokenTimestamp); [right; reflexivity|left].
    eapply rwp_mono; [apply set_value_spec|]. unfold basic; xs. intros ? ? [? ?]. split; [lia|assumption]. }
  destruct (tok =? tokenFloatInf) eqn:E4.
  { destruct (Hm TFloat (XFloatBits inf_bits)) as [K|K]; [exact K|]. apply N.eqb_eq in E4. subst tok. discriminate K. }
  destruct (tok =? tokenFloatMinusInf) eqn:E5.
  { destruct (Hm TFloat (XFloatBits neg_inf_bits)) as [K|K]; [exact K|]. apply N.eqb_eq in E5. subst tok. discriminate K. }
  apply rwp_panic.
Qed.
Lemma on_timestamp_spec x :
  rwp (on_timestamp pt x) (fun _ x' => (xrem x' + 1 <= xrem x)%nat /\ x_ctx x' = x_ctx x).
Proof.
  unfold on_timestamp. rstep. rlift read_value_numlike_strict. { reflexivity. }
  rstep. apply rwp_of_res; [apply pt_nof|]. intros i.
  eapply rwp_mono; [apply set_value_spec|]. unfold basic; xs. intros ? ? [? ?]. split; [lia|assumption].
Qed.
Lemma on_lob_spec x : rwp (on_lob x) (basic (xrem x) (x_ctx x)).
Proof.
  unfold on_lob.
  assert (Hm : forall ty v t', (t_rem t' <= xrem x)%nat -> rwp (set_value ty v (xs_tok x t')) (basic (xrem x) (x_ctx x))).
  { intros ty v t' Ht. eapply rwp_mono; [apply set_value_spec|]. unfold basic; xs. intros ? ? [? ?]. split; [lia|assumption]. }
  rstep. rstep. rstep; [|rstep].
  - rstep. rstep. apply Hm. xs. wfin.
  - rstep. rstep. rstep; [apply rwp_fail|]. rstep. rstep. apply Hm. xs. wfin.
  - rstep. rstep. rstep. rstep. rstep; [apply Hm; xs; wfin|apply rwp_fail].
Qed.

Definition hd_sym (t : tstate) : bool :=
  match t_buf t with c :: _ => is_identifier_start c | [] => false end.
Definition rvd (tok : N) (t : tstate) : nat :=
  if numlike tok then 1%nat else if (tok =? tokenSymbol) && hd_sym t then 1%nat else O.
Lemma read_value_d tok t : wp (t_read_value tok) t (fun _ t' => (t_rem t' + rvd tok t <= t_rem t)%nat).
Proof.
  unfold rvd. destruct (numlike tok) eqn:E.
  - eapply wp_mono; [apply read_value_numlike_strict; exact E|cbn beta; intros; lia].
  - destruct (tok =? tokenSymbol) eqn:E2; cbn [andb].
    + apply N.eqb_eq in E2. subst tok. unfold hd_sym. destruct (t_buf t) as [|c b] eqn:Eb.
      * eapply wp_mono; [apply read_value_spec|cbn beta; intros; lia].
      * destruct (is_identifier_start c) eqn:D.
        -- eapply wp_mono; [eapply read_value_symbol_strict; eassumption|cbn beta; intros; lia].
        -- eapply wp_mono; [apply read_value_spec|cbn beta; intros; lia].
    + eapply wp_mono; [apply read_value_spec|cbn beta; intros; lia].
Qed.

Variable api_next : xstate -> xstate * res bool.
Variable fuel : nat.
Hypothesis HL : forall x, x_type x = TStruct -> (xrem x < fuel)%nat -> rwp (read_local_symbol_table api_next fuel x) (basic (xrem x) (x_ctx x)).

Create HintDb rwps.
Hint Resolve on_symbol_spec on_number_spec on_timestamp_spec on_lob_spec set_value_spec HL : rwps.
Ltac rcall := eapply rwp_mono; [solve [eauto 2 with rwps nocore | apply HL; [reflexivity|]; unfold xrem in *; cbn [x_tok xs_tok xs_state xs_val xs_annots xs_field xs_lst xs_eof xs_ctx] in *; lia]|cbn beta; unfold basic; intros; wsimp; xs].
Ltac rres := apply rwp_of_res; [first [apply new_symbol_token_nof | apply parse_int_nof | apply pd_nof | apply pt_nof]|intros].
Ltac rgo := repeat first [rstep | rres | rcall].

Definition iter_post (r : nat) (x : xstate) (b : bool) (x' : xstate) : Prop :=
  (xrem x' <= r)%nat /\ x_ctx x' = x_ctx x /\ (b = false -> (xrem x' + 1 <= r)%nat) /\
  (b = true -> x_eof x' = false -> in_sexp x = false -> (xrem x' + 1 <= r)%nat).

Ltac tokcases :=
  repeat match goal with
         | H : (_ || _) = true |- _ => apply orb_true_iff in H; destruct H
         | H : (_ && _) = true |- _ => apply andb_true_iff in H; destruct H
         | H : negb _ = false |- _ => apply negb_false_iff in H
         | H : (?k =? _) = true |- _ => apply N.eqb_eq in H; first [subst k | rewrite H in *]
         end.
Ltac costs :=
  repeat match goal with
         | H : context [tok_cost ?k] |- _ => let v := eval vm_compute in (tok_cost k) in change (tok_cost k) with v in H
         | H : context [rvd ?k ?t] |- _ => unfold rvd in H
         | H : context [nd ?k ?t] |- _ => unfold nd in H
         end.

Lemma next_after_value_spec x tok r : t_token (x_tok x) = tok -> (xrem x + tok_cost tok <= r)%nat ->
  rwp (next_after_value x) (iter_post r x).
Proof.
  intros Htok Hr. unfold next_after_value. rstep. rstep. cbn zeta. rewrite Htok. clear Htok.
  rgo; unfold iter_post; xs; tokcases; costs; repeat split; intros; try discriminate; try lia.
Qed.
Lemma next_before_field_name_spec x tok r : t_token (x_tok x) = tok -> (xrem x + tok_cost tok <= r)%nat ->
  rwp (next_before_field_name x) (iter_post r x).
Proof.
  intros Htok Hr. unfold next_before_field_name. rstep. rstep. cbn zeta. rewrite Htok. clear Htok.
  rgo; unfold iter_post; xs; tokcases; costs; repeat split; intros; try discriminate; try wfin.
Qed.
Ltac rgo2 := repeat first
  [ match goal with |- rwp (lift (t_read_value _) _) _ => rlift read_value_d end
  | rstep | rres | rcall ].
Ltac nbta_fin x Hs Hn :=
  try congruence;
  try (specialize (Hs eq_refl); rewrite Hs in * ); try (specialize (Hn eq_refl); rewrite Hn in * );
  unfold x_at_top, in_sexp in *; destruct (x_ctx x) as [|[| |] ?];
  repeat match goal with H : x_ctx ?y = _, H' : context [x_ctx ?y] |- _ => rewrite H in H' end;
  cbv [numlike tokenSymbol tokenBinary tokenHex tokenTimestamp tokenNumber tokenSymbolOperator tokenDot tokenSymbolQuoted
       tokenEOF tokenCloseBracket tokenCloseParen N.eqb Pos.eqb orb andb negb] in *;
  try discriminate; try lia.
Lemma nbta_spec x tok r : (r < fuel)%nat -> t_token (x_tok x) = tok -> (xrem x + tok_cost tok <= r)%nat ->
  (tok = tokenSymbol -> hd_sym (x_tok x) = true) -> (tok = tokenNumber -> hd_num (x_tok x) = true) ->
  rwp (next_before_type_annotations pd pt api_next fuel x) (iter_post r x).
Proof.
  intros Hrf Htok Hr Hs Hn. unfold next_before_type_annotations. rstep. rstep. cbn zeta. rewrite Htok. clear Htok.
  rgo2; unfold iter_post; xs; tokcases; costs; repeat split; intros; try discriminate; try wfin; nbta_fin x Hs Hn.
Qed.

(* the loop of Next: an iteration that goes round again has consumed a character *)
Definition next_post_x (x : xstate) (b : bool) (x' : xstate) : Prop :=
  if b then (xrem x' <= xrem x)%nat /\ x_ctx x' = x_ctx x /\ (in_sexp x = false -> (xrem x' + 1 <= xrem x)%nat)
  else x_err x' = true \/ ((xrem x' <= xrem x)%nat /\ x_ctx x' = x_ctx x).
Lemma hd_sym_of t : (exists c b, t_buf t = c :: b /\ is_identifier_start c = true) -> hd_sym t = true.
Proof. intros [c [b [E H]]]. unfold hd_sym. rewrite E. exact H. Qed.
Lemma hd_num_of t : (exists c b, t_buf t = c :: b /\ is_digit c || (c =? c_minus)%Z = true) -> hd_num t = true.
Proof. intros [c [b [E H]]]. unfold hd_num. rewrite E. exact H. Qed.
Lemma next_loop_spec : forall k x, (xrem x < k)%nat -> (xrem x < fuel)%nat ->
  rwp (x_next_loop pd pt api_next k fuel x) (next_post_x x).
Proof.
  induction k as [|k IH]; intros x Hk Hf; [lia|]. cbn [x_next_loop].
  pose proof (next_spec (x_tok x)) as HN. unfold lift. unfold wp in HN. fold t_next in HN.
  destruct (t_next (x_tok x)) as [[u t1]| | |] eqn:EN; try exact I; try contradiction.
  - destruct HN as [N1 [N2 N3]].
    set (x1 := xs_tok x t1).
    assert (HS : forall step : R bool, rwp (step x1) (iter_post (xrem x) x1) ->
              rwp (match step x1 with
                   | (x2, Err) => (x_explode x2, Ok false)
                   | (x2, Panic) => (x2, Panic)
                   | (x2, OutOfFuel) => (x2, OutOfFuel)
                   | (x2, Ok true) => (x2, Ok (negb (x_eof x2)))
                   | (x2, Ok false) => x_next_loop pd pt api_next k fuel x2
                   end) (next_post_x x)).
    { intros step Hs. unfold rwp in Hs. destruct (step x1) as [x2 [[|]| | |]]; try exact I; try contradiction.
      - destruct Hs as [S1 [S2 [S3 S4]]]. unfold rwp, next_post_x. destruct (x_eof x2) eqn:Ee; cbn [negb].
        + right. split; [exact S1|exact S2].
        + split; [exact S1|]. split; [exact S2|]. intros Hx. apply S4; auto.
      - destruct Hs as [S1 [S2 [S3 S4]]]. specialize (S3 eq_refl).
        eapply rwp_mono; [apply IH; lia|]. intros b x3. unfold next_post_x.
        change (x_ctx x1) with (x_ctx x) in S2. assert (in_sexp x2 = in_sexp x) by (unfold in_sexp; rewrite S2; reflexivity).
        destruct b.
        * intros [K1 [K2 K3]]. split; [lia|]. split; [congruence|]. intros Hx. rewrite H in K3. specialize (K3 Hx). lia.
        * intros [K|[K1 K2]]; [left; exact K|right]. split; [lia|congruence].
      - unfold rwp, next_post_x. left. reflexivity. }
    change (xs_tok x t1) with x1.
    destruct (x_state x1 =? trsAfterValue).
    { apply HS. eapply next_after_value_spec; [reflexivity|exact N1]. }
    destruct (x_state x1 =? trsBeforeFieldName).
    { apply HS. eapply next_before_field_name_spec; [reflexivity|exact N1]. }
    destruct (x_state x1 =? trsBeforeTypeAnnotations).
    { apply HS. eapply nbta_spec; [exact Hf|reflexivity|exact N1| |].
      - intros E. apply hd_sym_of, N2, E.
      - intros E. apply hd_num_of, N3, E. }
    apply HS. exact I.
  - unfold rwp, next_post_x. left. reflexivity.
Qed.
Lemma next_with_spec x : (xrem x < fuel)%nat -> rwp (x_next_with pd pt api_next fuel x) (next_post_x x).
Proof.
  intros Hf. unfold x_next_with.
  destruct ((x_state x =? trsDone) || x_eof x); [right; split; [lia|reflexivity]|].
  assert (HF : rwp (x_finish_value x) (basic (xrem x) (x_ctx x))).
  { unfold x_finish_value. rstep. rstep. destruct a; [rstep|rstep]; bfin. }
  unfold rwp in HF. destruct (x_finish_value x) as [x1 [u| | |]]; try exact I; try contradiction.
  - destruct HF as [F1 F2].
    eapply rwp_mono; [apply next_loop_spec; unfold xrem in *; cbn [x_clear x_tok xs_val xs_annots xs_field]; lia|].
    intros b x2. unfold next_post_x, in_sexp, xrem. cbn [x_clear x_tok x_ctx xs_val xs_annots xs_field]. rewrite F2.
    unfold xrem in F1. destruct b.
    + intros [K1 [K2 K3]]. split; [lia|]. split; [exact K2|]. intros Hx. specialize (K3 Hx). lia.
    + intros [K|[K1 K2]]; [left; exact K|right]. split; [lia|exact K2].
  - left. reflexivity.
Qed.
End Reader.

(* StepIn / StepOut have no loop of their own *)
Lemma step_in_nof x : snd (x_step_in x) <> OutOfFuel.
Proof.
  unfold x_step_in. destruct (x_err x); [discriminate|]. destruct (negb (x_state x =? trsBeforeContainer)); [discriminate|].
  destruct (x_type x =? TList); [discriminate|]. destruct (x_type x =? TSexp); [discriminate|].
  destruct (x_type x =? TStruct); discriminate.
Qed.
Lemma step_out_nof x : snd (x_step_out x) <> OutOfFuel.
Proof.
  unfold x_step_out. destruct (x_err x); [discriminate|]. destruct (x_ctx x) as [|c rest]; [discriminate|].
  pose proof (finish_value_spec (x_tok x)) as HF. unfold lift at 1. unfold wp in HF.
  destruct (t_finish_value (x_tok x)) as [[b t1]| | |]; try discriminate; try contradiction.
  destruct (x_eof (xs_tok x t1)); [discriminate|].
  pose proof (skip_container_contents_spec c (x_tok (xs_tok x t1))) as HS. unfold lift. unfold wp in HS.
  destruct (t_skip_container_contents c (x_tok (xs_tok x t1))) as [[u t2]| | |]; try discriminate; try contradiction.
Qed.

Lemma step_in_no_err x : snd (x_step_in x) <> Err.
Proof.
  unfold x_step_in. destruct (x_err x); [discriminate|]. destruct (negb (x_state x =? trsBeforeContainer)); [discriminate|].
  destruct (x_type x =? TList); [discriminate|]. destruct (x_type x =? TSexp); [discriminate|].
  destruct (x_type x =? TStruct); discriminate.
Qed.
Lemma step_out_no_err x : snd (x_step_out x) <> Err.
Proof.
  unfold x_step_out. destruct (x_err x); [discriminate|]. destruct (x_ctx x) as [|c rest]; [discriminate|].
  destruct (lift t_finish_value x) as [x1 [b| | |]]; try discriminate.
  destruct (if x_eof x1 then (x1, Ok tt) else lift (t_skip_container_contents c) x1) as [x2 [u| | |]]; discriminate.
Qed.
Lemma next_loop_no_err pd pt api fuel : forall k x, snd (x_next_loop pd pt api k fuel x) <> Err.
Proof.
  induction k as [|k IH]; intros x; cbn [x_next_loop]; [discriminate|].
  destruct (lift t_next x) as [x1 [u| | |]]; try discriminate.
  match goal with |- snd (match ?e with _ => _ end) <> _ => destruct e as [x2 [[|]| | |]] end; try discriminate.
  apply IH.
Qed.
Lemma next_with_no_err pd pt api fuel x : snd (x_next_with pd pt api fuel x) <> Err.
Proof.
  unfold x_next_with. destruct ((x_state x =? trsDone) || x_eof x); [discriminate|].
  destruct (x_finish_value x) as [x1 [u| | |]]; try discriminate. apply next_loop_no_err.
Qed.

Section Top.
Variable pd : list N -> res dec.
Variable pt : list N -> res (list N).
Hypothesis pd_nof : forall l, pd l <> OutOfFuel.
Hypothesis pt_nof : forall l, pt l <> OutOfFuel.

(* the inner Next (the one readLocalSymbolTable drives): never out of fuel, on any state *)
Lemma lst_dummy fuel x Q : (0 < fuel)%nat ->
  rwp (read_local_symbol_table (fun x0 => (x0, Panic)) fuel x) Q.
Proof.
  intros Hf. unfold read_local_symbol_table. pose proof (step_in_nof x) as HI.
  destruct (x_step_in x) as [x1 [[|]| | |]]; cbn [snd keep_bad] in *; try exact I; try congruence.
  destruct fuel as [|f]; [lia|]. cbn [read_lst_loop keep_bad]. exact I.
Qed.
Theorem next_inner_spec x : rwp (x_next_inner pd pt x) (next_post_x x).
Proof.
  unfold x_next_inner. apply next_with_spec; try assumption.
  - intros x0 _ H0. apply lst_dummy. lia.
  - unfold x_fuel, t_fuel, xrem. lia.
Qed.
Corollary next_inner_nof x : snd (x_next_inner pd pt x) <> OutOfFuel.
Proof. pose proof (next_inner_spec x) as H. unfold rwp in H. destruct (x_next_inner pd pt x) as [x1 [b| | |]]; cbn [snd]; try discriminate. contradiction. Qed.

(* what is left to prove for the outer Next: reading a local symbol table through the inner Next, with fuel above the
   characters left, never runs out of fuel and gives no character back *)
Definition LstFuelOK : Prop :=
  forall fuel x, x_type x = TStruct -> (xrem x < fuel)%nat ->
    rwp (read_local_symbol_table (x_next_inner pd pt) fuel x) (basic (xrem x) (x_ctx x)).

Theorem next_spec_x : LstFuelOK -> forall x, rwp (x_next pd pt x) (next_post_x x).
Proof.
  intros HL x. unfold x_next. apply next_with_spec; try assumption.
  - intros x0 T0 H0. apply HL; assumption.
  - unfold x_fuel, t_fuel, xrem. lia.
Qed.

Definition OOF : list N := s "outoffuel"%string.
Lemma op_nof : LstFuelOK -> forall x o,
  match x_op_res pd pt x o with (_, Ok _) => True | (_, Panic) => True | _ => False end.
Proof.
  intros HL x o. destruct o; cbn [x_op_res];
    repeat match goal with
           | |- match (if ?b then _ else _) with _ => _ end => destruct b
           | |- match (match ?v with _ => _ end) with _ => _ end =>
             lazymatch v with
             | x_next _ _ _ => fail
             | x_step_in _ => fail
             | x_step_out _ => fail
             | _ => destruct v
             end
           end; try exact I.
  - pose proof (next_spec_x HL x) as H. unfold rwp in H.
    pose proof (next_with_no_err pd pt (x_next_inner pd pt) (x_fuel x) x) as HE. fold (x_next pd pt x) in HE.
    destruct (x_next pd pt x) as [x1 [b| | |]]; cbn [snd keep_bad] in *; try exact I; try contradiction; try congruence.
  - pose proof (step_in_nof x) as H. pose proof (step_in_no_err x) as HE.
    destruct (x_step_in x) as [x1 [b| | |]]; cbn [snd keep_bad] in *; try exact I; try congruence.
  - pose proof (step_out_nof x) as H. pose proof (step_out_no_err x) as HE.
    destruct (x_step_out x) as [x1 [b| | |]]; cbn [snd keep_bad] in *; try exact I; try congruence.
Qed.

(* no answer token of a call is the word "outoffuel" *)
Lemma op_token_oof x o x' t : x_op_res pd pt x o = (x', Ok t) -> t <> OOF.
Proof.
  unfold OOF. destruct o; cbn [x_op_res];
    repeat match goal with
           | |- (if ?b then _ else _) = _ -> _ => destruct b
           | |- (match ?v with _ => _ end) = _ -> _ => destruct v
           | |- (let (_, _) := ?v in _) = _ -> _ => destruct v
           end; try discriminate;
    intros H; injection H as _ <-; try discriminate;
    repeat match goal with
           | |- (if ?b then _ else _) <> _ => destruct b
           | |- (match ?v with _ => _ end) <> _ => destruct v
           end; try discriminate.
  all: unfold show_tok; repeat match goal with |- (match ?v with _ => _ end) <> _ => destruct v end; discriminate.
Qed.

Lemma run_nof : LstFuelOK -> forall p x acc, ~ In OOF acc -> ~ In OOF (snd (x_run pd pt x p acc)).
Proof.
  intros HL. induction p as [|o p IH]; intros x acc Ha; cbn [x_run].
  - cbn [snd]. rewrite <- in_rev. exact Ha.
  - pose proof (op_nof HL x o) as H. pose proof (op_token_oof x o) as Ht.
    destruct (x_op_res pd pt x o) as [x1 [t| | |]]; try contradiction.
    + apply IH. intros [K|K]; [exact (Ht x1 t eq_refl K)|exact (Ha K)].
    + cbn [snd]. rewrite <- in_rev. intros [K|K]; [vm_compute in K; discriminate K|exact (Ha K)].
Qed.
End Top.

(* ---- the driver's decimal / timestamp parsers are total ------------------------------------------------------ *)
From IonV Require Import Text.TextNum.
Lemma parse_decimal_text_nof l : parse_decimal_text l <> OutOfFuel.
Proof.
  unfold parse_decimal_text. destruct l as [|c l]; [discriminate|].
  match goal with |- bind ?m _ <> _ => assert (Hm : m <> OutOfFuel); [ | destruct m as [[e0 inp]| | |]; try discriminate; try congruence ] end.
  { destruct (split_at_first _ (c :: l) []) as [[m ex]|]; [|discriminate].
    destruct ex; [discriminate|]. destruct (go_signed_val 10 (n :: ex)); [|discriminate].
    destruct (in_int64 z); discriminate. }
  cbn [bind]. destruct (split_at_first _ inp []) as [[ip fp]|].
  - destruct (negb (in_int32 _)); [discriminate|].
    match goal with |- context [go_signed_val 10 ?v] => destruct (go_signed_val 10 v) end; discriminate.
  - destruct (negb (in_int32 _)); [discriminate|].
    match goal with |- context [go_signed_val 10 ?v] => destruct (go_signed_val 10 v) end; discriminate.
Qed.
Lemma parse_ts_text_nof l : parse_ts_text l <> OutOfFuel.
Proof.
  unfold parse_ts_text.
  repeat match goal with
         | |- (if ?b then _ else _) <> _ => destruct b
         | |- (match ?v with _ => _ end) <> _ => destruct v
         | |- (let '(_, _) := ?v in _) <> _ => destruct v
         end; discriminate.
Qed.
