(* SpellTree.v — C02, stage 8e: nested values.  Lists, s-expressions and structs around the scalar values of
   SpellStream, with whitespace runs between all tokens, annotations on containers, field names spelled as
   identifiers / $n / quoted symbols / short strings, and one trailing comma in lists and structs.
   Theorem: the reader model's full traversal of such a text is exactly the trace of the denoted value tree. *)
From Coq Require Import String List NArith ZArith Bool Lia ZifyBool ZifyN ZifyNat.
From IonV Require Import Base.Wire Base.Utf8 Data.Ion Bin.Bits Bin.BitStream Bin.BinReader Num.Float Text.Tokenizer Text.Skipper
  Text.TextReader Text.TextNum Text.SpellBase Text.SpellWs Text.SpellNum Text.SpellTok Text.SpellRead
  Text.SpellEsc Text.SpellStr Text.SpellLong Text.SpellIdent Text.SpellSym Text.SpellTs Text.SpellBlob
  Text.SpellVal Text.SpellSymVal Text.SpellStream Text.SpellCont.
Import ListNotations.
Open Scope Z_scope.

(* ---- Next from the state between two values, in any context --------------------------------------------------------------- *)
Section NextGen.
Variable pd : list N -> res dec.
Variable pt : list N -> res (list N).

Lemma rrun_finish_settled_gen S0 k u S1 st ctx lst fld ann ty v :
  (u = true -> st = after_value_state ctx) ->
  runK t_finish_value (S0, k, u) u (S1, k, false) ->
  rrun x_finish_value (mkax S0 k u st ctx false false lst fld ann ty v) tt (mkax S1 k false st ctx false false lst fld ann ty v).
Proof.
  intros Hst Rf. unfold x_finish_value. eapply rrun_bind; [apply rrun_lift; cbn [a_s a_k a_u]; exact Rf|].
  unfold ax_tok. cbn [a_s a_k a_u a_state a_ctx a_eof a_err a_lst a_field a_annots a_type a_value].
  destruct u; [|apply rrun_ret]. rewrite (Hst eq_refl).
  apply rrun_rmod. intros x Ha. xfields Ha. split; [|reflexivity].
  unfold xabs, state_after_value, after_value_state. cbn [x_tok x_state x_ctx x_eof x_err x_lst x_field x_annots x_type x_value xs_state].
  rewrite Fs, Fk, Fu, Fctx, Feof, Ferr, Flst, Ffield, Fannots, Ftype, Fvalue. reflexivity.
Qed.

Lemma x_next_settled x S0 k u st ctx lst fld ann ty v text b (Post : ax -> Prop) :
  xok x -> xabs x = mkax S0 k u st ctx false false lst fld ann ty v -> st <> trsDone ->
  (u = true -> st = after_value_state ctx) -> settled S0 k u text ->
  (forall S1 w1 kk fuel, ws_run w1 -> no_cr w1 -> ends S1 (w1 ++ text) -> (length (w1 ++ text) <= kk)%nat ->
     exists X2, rrun (x_next_loop pd pt (x_next_inner pd pt) (S kk) fuel)
                     (mkax S1 k false st ctx false false lst None [] 0%N XNil) b X2 /\ Post X2) ->
  exists x2, x_next pd pt x = (x2, Ok b) /\ xok x2 /\ Post (xabs x2).
Proof.
  intros Hi Ha Hnd Hst (S1 & w1 & Rf & Hw1 & Hcr1 & He1 & Hlen) Hloop.
  xfields Ha.
  assert (Hk : (length (w1 ++ text) <= S (t_rem (x_tok x)))%nat).
  { pose proof (stream_rem (x_tok x)) as Hr. rewrite Fs in Hr. lia. }
  destruct (Hloop S1 w1 _ (x_fuel x) Hw1 Hcr1 He1 Hk) as (X2 & R & HP).
  assert (Hnd' : x_state x <> trsDone) by now rewrite Fst.
  assert (Hfin : rrun x_finish_value (xabs x) tt (mkax S1 k false st ctx false false lst fld ann ty v))
    by (rewrite Ha; now apply rrun_finish_settled_gen).
  assert (Hl : rrun (x_next_loop pd pt (x_next_inner pd pt) (x_fuel x) (x_fuel x))
                 (ax_clear (mkax S1 k false st ctx false false lst fld ann ty v)) b X2) by exact R.
  destruct (x_next_with_ok pd pt (x_next_inner pd pt) (x_fuel x) x _ b X2 Hi Hnd' Feof Hfin Hl) as (x2 & E & Hi2 & Ha2).
  exists x2. rewrite Ha2. auto.
Qed.
End NextGen.

(* ---- value trees and their traces ----------------------------------------------------------------------------------------------- *)
(* a value as the reader presents it: a scalar, or a container (type TList / TSexp / TStruct) with its members;
   a member of a struct carries its field name *)
Inductive tval :=
| TScalar (anns : list tok) (ty : N) (v : xvalue)
| TCont (anns : list tok) (ty : N) (items : list (option tok * tval)).

Fixpoint tr_tval (fld : option tok) (tv : tval) : list (list N) :=
  match tv with
  | TScalar anns ty v =>
    match v with
    | XNil => tr_head fld anns ty true
    | _ => tr_head fld anns ty false ++ match acc_token ty v with Some t => [t] | None => [] end
    end
  | TCont anns ty items =>
    tr_head fld anns ty false ++ [s "ok"%string] ++ flat_map (fun '(f, x) => tr_tval f x) items ++ [[70%N]; s "ok"%string]
  end.
(* rounds of the traversal loop *)
Fixpoint cost (tv : tval) : nat :=
  match tv with
  | TScalar _ _ _ => 1
  | TCont _ _ items => 2 + fold_right (fun p n => cost (snd p) + n)%nat 0%nat items
  end.
Definition cost_items (items : list (option tok * tval)) : nat := fold_right (fun p n => cost (snd p) + n)%nat 0%nat items.

Section Tree.
Variable pd : list N -> res dec.
Variable pt : list N -> res (list N).
Variable lst : rlst.
Notation BTA := trsBeforeTypeAnnotations.
Notation api := (x_next_inner pd pt).

(* ---- annotated opening brackets ------------------------------------------------------------------------------------------------ *)
Definition open_byte (tok : N) : N := if (tok =? tokenOpenBracket)%N then 91%N else if (tok =? tokenOpenParen)%N then 40%N else 123%N.
Definition open_ok (ctx : list ctype) (ann : list tok) (tok : N) : Prop :=
  tok = tokenOpenBracket \/ tok = tokenOpenParen \/
  (tok = tokenOpenBrace /\ match ctx with [] => true | _ => false end && is_ion_symbol_table ann = false).
Inductive aopen_spells (ctx : list ctype) : list tok -> list N -> list tok -> N -> Prop :=
| ao_open ann tok : open_ok ctx ann tok -> aopen_spells ctx ann [open_byte tok] ann tok
| ao_id ann id k wn1 wn2 rest anns tok :
    ident_chars id -> is_keyword id = false -> new_symbol_token lst id = Ok k -> ws_run wn1 -> ws_run wn2 ->
    aopen_spells ctx (ann ++ [k]) rest anns tok ->
    aopen_spells ctx ann (id ++ wn1 ++ [58; 58]%N ++ wn2 ++ rest) anns tok
| ao_quoted ann body text wn1 wn2 rest anns tok :
    qbody 39 body text -> utf8_valid text = true -> ws_run wn1 -> ws_run wn2 ->
    aopen_spells ctx (ann ++ [tok_text text]) rest anns tok ->
    aopen_spells ctx ann (39%N :: body ++ [39%N] ++ wn1 ++ [58; 58]%N ++ wn2 ++ rest) anns tok.

Lemma aopen_next ctx ann otext anns tok :
  aopen_spells ctx ann otext anns tok ->
  forall w r k0 fld ty0 v0 kk fuel,
  (length otext <= kk)%nat -> ws_run w -> no_cr w -> no_cr otext -> (tok = tokenOpenBrace -> shead r <> 123) ->
  rrun (x_next_loop pd pt api (S kk) fuel)
       (mkax (zs w ++ zs otext ++ r) k0 false BTA ctx false false lst fld ann ty0 v0) true
       (mkax (if (tok =? tokenOpenBrace)%N then spush r else r) tok true trsBeforeContainer ctx false false lst fld anns
             (open_type tok) XContainer).
Proof.
  induction 1 as [ann tok Hok|ann id k wn1 wn2 rest' anns tok Hid Hkw Hk Hw1 Hw2 Hav IH
                 |ann body txt wn1 wn2 rest' anns tok Hb Hu Hw1 Hw2 Hav IH];
    intros w r k0 fld ty0 v0 kk fuel Hlen Hw Hcr Hct Hr.
  - eapply rrun_pre_eq.
    + apply (open_next pd pt api w r tok k0 ctx lst fld ann ty0 v0 kk fuel Hw Hcr).
      destruct Hok as [H|[H|[H H']]]; auto. right; right. split; [exact H|]. split; [now apply Hr|exact H'].
    + f_equal. unfold open_char, open_byte. destruct Hok as [->|[->|[-> _]]]; reflexivity.
  - apply no_cr_app in Hct as [Hc1 Hct]. apply no_cr_app in Hct as [Hc2 Hct]. apply no_cr_app in Hct as [_ Hct].
    apply no_cr_app in Hct as [Hc3 Hc4].
    destruct kk as [|kk]; [rewrite !app_length in Hlen; destruct Hid; cbn [length] in Hlen; lia|].
    eapply rrun_pre_eq.
    + apply (ann_step_ident pd pt api w id k wn1 (zs wn2 ++ zs rest' ++ r) k0 ctx lst fld ann ty0 v0 (S kk) fuel true _
               Hw Hcr Hid Hkw Hk Hw1 Hc2).
      apply IH; auto. rewrite !app_length in Hlen. cbn [length] in Hlen. lia.
    + f_equal; list_norm.
  - apply no_cr_cons in Hct as [_ Hct]. apply no_cr_app in Hct as [Hc1 Hct]. apply no_cr_app in Hct as [_ Hct].
    apply no_cr_app in Hct as [Hc2 Hct]. apply no_cr_app in Hct as [_ Hct]. apply no_cr_app in Hct as [Hc3 Hc4].
    destruct kk as [|kk]; [cbn [length] in Hlen; lia|].
    eapply rrun_pre_eq.
    + apply (ann_step_quoted pd pt api w body txt wn1 (zs wn2 ++ zs rest' ++ r) k0 ctx lst fld ann ty0 v0 (S kk) fuel
               true _ Hw Hcr Hb Hc1 Hu); auto.
      * intros _. apply (ws_run_head_not_quote pd pt); [exact Hw1|discriminate].
      * apply IH; auto. cbn [length] in Hlen. rewrite !app_length in Hlen. cbn [length] in Hlen. lia.
    + f_equal; list_norm.
Qed.
Lemma aopen_first ctx ann otext anns tok : aopen_spells ctx ann otext anns tok -> exists c r, otext = c :: r /\ val_start c.
Proof.
  destruct 1 as [ann tok Hok|ann id k wn1 wn2 rest' anns tok Hid Hkw Hk Hw1 Hw2 Hav
                |ann body txt wn1 wn2 rest' anns tok Hb Hu Hw1 Hw2 Hav].
  - eexists _, _. split; [reflexivity|]. unfold open_byte, val_start.
    destruct Hok as [->|[->|[-> _]]]; repeat split; (reflexivity || discriminate).
  - destruct Hid as [c r Hc Hr]. eexists _, _. split; [reflexivity|]. now apply id_start_val_start.
  - eexists _, _. split; [reflexivity|]. unfold val_start; repeat split; (reflexivity || discriminate).
Qed.

(* ---- field names ------------------------------------------------------------------------------------------------------------------ *)
Inductive fname_spells : list N -> tok -> Prop :=
| fn_id id k : ident_chars id -> is_keyword id = false -> new_symbol_token lst id = Ok k -> fname_spells id k
| fn_quoted body text : qbody 39 body text -> utf8_valid text = true -> fname_spells (39%N :: body ++ [39%N]) (tok_text text)
| fn_string body text : qbody 34 body text -> utf8_valid text = true ->
                        fname_spells (34%N :: body ++ [34%N]) (name_symbol_token lst text).

Lemma field_step ctx nm k w wn1 r k0 fld ann ty0 v0 kk fuel b X' :
  fname_spells nm k -> no_cr nm -> ws_run w -> no_cr w -> ws_run wn1 -> no_cr wn1 -> shead r <> 58 ->
  rrun (x_next_loop pd pt api kk fuel)
       (mkax (spush r) tokenColon false BTA ctx false false lst (Some k) ann ty0 v0) b X' ->
  rrun (x_next_loop pd pt api (S kk) fuel)
       (mkax (zs w ++ zs nm ++ zs wn1 ++ 58 :: r) k0 false trsBeforeFieldName ctx false false lst fld ann ty0 v0) b X'.
Proof.
  intros Hnm Hcn Hw Hcr Hwn Hcrn Hr Hrest.
  set (s1 := zs wn1 ++ 58 :: r).
  assert (Hsp : spush s1 = s1) by (unfold s1; destruct wn1; reflexivity).
  destruct Hnm as [id k Hid Hkw Hk|body text Hb Hu|body text Hb Hu].
  - assert (Hnp : is_identifier_part (shead s1) = false) by (apply (ws_run_head_not_id pd pt); [exact Hwn|reflexivity]).
    destruct (ident_first id s1 Hid) as (c & r0 & Eid & Hc & Est).
    destruct (ident_start_stop (Z.of_N c) (zs r0 ++ s1) Hc) as [Hst Has].
    apply (field_step_gen pd pt api w (zs id ++ s1) tokenSymbol (zs id ++ s1) id k wn1 r); auto.
    + rewrite Est. exact Hst.
    + rewrite Est. cbn [shead]. rewrite Has, (dispatch_ident _ Hc).
      eapply runK_bind; [apply run_runK, run_unread|]. apply runK_t_ok.
    + intros k1 u1. pose proof (run_read_value_symbol id s1 k1 u1 Hid Hnp) as R. rewrite Hsp in R. exact R.
  - apply no_cr_cons in Hcn as [_ Hcn]. apply no_cr_app in Hcn as [Hcb _].
    assert (H0 : body = [] -> shead s1 <> 39) by (intros _; apply (ws_run_head_not_quote pd pt); [exact Hwn|discriminate]).
    assert (Hpk : pks (1 - length body) s1 = s1).
    { unfold s1. rewrite pks_zs_app. f_equal.
      assert (Hle : (1 - length body - length wn1 <= 1)%nat) by lia.
      destruct (1 - length body - length wn1)%nat as [|[|n]]; [reflexivity|reflexivity|lia]. }
    eapply rrun_pre_eq.
    + apply (field_step_gen pd pt api w (39 :: zs body ++ 39 :: s1) tokenSymbolQuoted (zs body ++ 39 :: s1) text (tok_text text)
               wn1 r k0 ctx lst fld ann ty0 v0 kk fuel b X'); auto.
      * cbn [shead]. change (after_stop (39 :: zs body ++ 39 :: s1)) with (zs body ++ 39 :: s1).
        pose proof (runK_dispatch_quoted pd pt body s1 k0 H0 (qbody_first body text Hb)) as R. rewrite Hpk in R. exact R.
      * intros k1 u1. apply (runK_read_value tokenSymbolQuoted read_quoted_symbol); [reflexivity|].
        apply (run_read_quoted_symbol body text s1 Hb Hcb Hu).
      * discriminate.
    + f_equal; unfold s1; list_norm.
  - apply no_cr_cons in Hcn as [_ Hcn]. apply no_cr_app in Hcn as [Hcb _].
    eapply rrun_pre_eq.
    + apply (field_step_gen pd pt api w (34 :: zs body ++ 34 :: s1) tokenString (zs body ++ 34 :: s1) text
               (name_symbol_token lst text) wn1 r k0 ctx lst fld ann ty0 v0 kk fuel b X'); auto.
      * cbn [shead]. change (after_stop (34 :: zs body ++ 34 :: s1)) with (zs body ++ 34 :: s1).
        change (next_dispatch 34) with (t_ok tokenString true). apply runK_t_ok.
      * intros k1 u1. apply (runK_read_value tokenString read_string); [reflexivity|].
        apply (run_read_string body text s1 Hb Hcb Hu).
      * discriminate.
    + f_equal; unfold s1; list_norm.
Qed.

(* ---- what stands between two members of a container ------------------------------------------------------------------------ *)
(* [sep_spells ctx st pre fld n]: in context ctx and reader state st, the text [pre] (a comma, a field name and its
   colon, or nothing) leads to the next member, which gets the field name [fld]; n = rounds of the loop of Next *)
Inductive sep_spells : list ctype -> N -> list N -> option tok -> nat -> Prop :=
| sep_none ctx : sep_spells ctx BTA [] None 0
| sep_comma ctx : sep_spells (CList :: ctx) trsAfterValue [44%N] None 1
| sep_field ctx nm k wn1 : fname_spells nm k -> ws_run wn1 ->
    sep_spells (CStruct :: ctx) trsBeforeFieldName (nm ++ wn1 ++ [58%N]) (Some k) 1
| sep_comma_field ctx w nm k wn1 : ws_run w -> fname_spells nm k -> ws_run wn1 ->
    sep_spells (CStruct :: ctx) trsAfterValue (44%N :: w ++ nm ++ wn1 ++ [58%N]) (Some k) 2.

Lemma ws_first_not_colon wb tail : ws_run wb -> shead tail <> 58 -> shead (zs wb ++ tail) <> 58.
Proof.
  intros Hw Ht. inversion Hw as [|c w' Hc Hw'|body nl w' Hb Hn Hw'|body w' Hb Hw']; subst; cbn [zs map app shead]; auto; try lia.
  unfold ws_byte in Hc. lia.
Qed.
Lemma spush_nonempty (r : list Z) : r <> [] -> spush r = r.
Proof. destruct r; [contradiction|reflexivity]. Qed.

Lemma sep_loop ctx st pre fld n :
  sep_spells ctx st pre fld n ->
  forall wa wb tail k0 kk fuel b X',
  ws_run wa -> ws_run wb -> no_cr (wa ++ pre ++ wb) -> (pre = [] -> wb = []) -> tail <> [] -> shead tail <> 58 ->
  (forall k1 w', ws_run w' -> no_cr w' ->
     rrun (x_next_loop pd pt api kk fuel) (mkax (zs w' ++ tail) k1 false BTA ctx false false lst fld [] 0%N XNil) b X') ->
  rrun (x_next_loop pd pt api (n + kk) fuel)
       (mkax (zs wa ++ zs pre ++ zs wb ++ tail) k0 false st ctx false false lst None [] 0%N XNil) b X'.
Proof.
  intros Hsep wa wb tail k0 kk fuel b X' Hwa Hwb Hcr Hpw Htl Hcolon Hk.
  apply no_cr_app in Hcr as [Hca Hcr]. apply no_cr_app in Hcr as [Hcp Hcb].
  assert (Hr0 : zs wb ++ tail <> []) by (destruct wb; [exact Htl|discriminate]).
  destruct Hsep as [ctx|ctx|ctx nm k wn1 Hnm Hw1|ctx w nm k wn1 Hw Hnm Hw1]; cbn [Nat.add].
  - rewrite (Hpw eq_refl). cbn [zs map app]. apply (Hk k0 wa Hwa Hca).
  - change (zs [44%N] ++ zs wb ++ tail) with (44 :: zs wb ++ tail).
    apply (comma_step pd pt api wa (zs wb ++ tail) CList k0 ctx lst None [] 0%N XNil kk fuel b X' Hwa Hca); [now left|].
    apply (Hk tokenComma wb Hwb Hcb).
  - apply no_cr_app in Hcp as [Hcn Hcp]. apply no_cr_app in Hcp as [Hc1 _].
    eapply rrun_pre_eq.
    + apply (field_step (CStruct :: ctx) nm k wa wn1 (zs wb ++ tail) k0 None [] 0%N XNil kk fuel b X' Hnm Hcn Hwa Hca Hw1 Hc1).
      * now apply ws_first_not_colon.
      * rewrite (spush_nonempty _ Hr0). apply (Hk tokenColon wb Hwb Hcb).
    + f_equal; list_norm.
  - apply no_cr_cons in Hcp as [_ Hcp]. apply no_cr_app in Hcp as [Hcw Hcp]. apply no_cr_app in Hcp as [Hcn Hcp].
    apply no_cr_app in Hcp as [Hc1 _].
    eapply rrun_pre_eq.
    + apply (comma_step pd pt api wa (zs w ++ zs nm ++ zs wn1 ++ 58 :: zs wb ++ tail) CStruct k0 ctx lst None [] 0%N XNil
               (S kk) fuel b X' Hwa Hca); [now right|].
      apply (field_step (CStruct :: ctx) nm k w wn1 (zs wb ++ tail) tokenComma None [] 0%N XNil kk fuel b X' Hnm Hcn Hw Hcw Hw1 Hc1).
      * now apply ws_first_not_colon.
      * rewrite (spush_nonempty _ Hr0). apply (Hk tokenColon wb Hwb Hcb).
    + f_equal; list_norm.
Qed.

(* [close_spells ctx st pre tok n]: the closing bracket of the container, possibly after one trailing comma *)
Inductive close_spells : list ctype -> N -> list N -> N -> nat -> Prop :=
| cl_list_bta ctx : close_spells (CList :: ctx) BTA [93%N] tokenCloseBracket 0
| cl_list ctx : close_spells (CList :: ctx) trsAfterValue [93%N] tokenCloseBracket 0
| cl_list_comma ctx w : ws_run w -> close_spells (CList :: ctx) trsAfterValue (44%N :: w ++ [93%N]) tokenCloseBracket 1
| cl_sexp ctx : close_spells (CSexp :: ctx) BTA [41%N] tokenCloseParen 0
| cl_struct_first ctx : close_spells (CStruct :: ctx) trsBeforeFieldName [125%N] tokenCloseBrace 0
| cl_struct ctx : close_spells (CStruct :: ctx) trsAfterValue [125%N] tokenCloseBrace 0
| cl_struct_comma ctx w : ws_run w -> close_spells (CStruct :: ctx) trsAfterValue (44%N :: w ++ [125%N]) tokenCloseBrace 1.

Lemma close_loop ctx st pre tok n :
  close_spells ctx st pre tok n ->
  forall wa tail k0 kk fuel, ws_run wa -> no_cr (wa ++ pre) ->
  exists st',
  rrun (x_next_loop pd pt api (n + S kk) fuel)
       (mkax (zs wa ++ zs pre ++ tail) k0 false st ctx false false lst None [] 0%N XNil) false
       (mkax tail tok false st' ctx true false lst None [] 0%N XNil).
Proof.
  intros Hcl wa tail k0 kk fuel Hwa Hcr. apply no_cr_app in Hcr as [Hca Hcp].
  destruct Hcl as [ctx|ctx|ctx w Hw|ctx|ctx|ctx|ctx w Hw]; cbn [Nat.add zs map app].
  - exists BTA. apply (close_bta pd pt api wa tail tokenCloseBracket CList k0 ctx lst None 0%N XNil kk fuel Hwa Hca). now left.
  - exists trsAfterValue.
    apply (close_after_value pd pt api wa tail tokenCloseBracket CList k0 ctx lst None [] 0%N XNil kk fuel Hwa Hca). now left.
  - exists BTA. apply no_cr_cons in Hcp as [_ Hcp]. apply no_cr_app in Hcp as [Hcw _].
    eapply rrun_pre_eq.
    + apply (comma_step pd pt api wa (zs w ++ 93 :: tail) CList k0 ctx lst None [] 0%N XNil (S kk) fuel false _ Hwa Hca); [now left|].
      apply (close_bta pd pt api w tail tokenCloseBracket CList tokenComma ctx lst None 0%N XNil kk fuel Hw Hcw). now left.
    + f_equal; list_norm.
  - exists BTA. apply (close_bta pd pt api wa tail tokenCloseParen CSexp k0 ctx lst None 0%N XNil kk fuel Hwa Hca). now right.
  - exists trsBeforeFieldName. apply (close_field_name pd pt api wa tail k0 (CStruct :: ctx) lst None [] 0%N XNil kk fuel Hwa Hca).
  - exists trsAfterValue.
    apply (close_after_value pd pt api wa tail tokenCloseBrace CStruct k0 ctx lst None [] 0%N XNil kk fuel Hwa Hca). now right.
  - exists trsBeforeFieldName. apply no_cr_cons in Hcp as [_ Hcp]. apply no_cr_app in Hcp as [Hcw _].
    eapply rrun_pre_eq.
    + apply (comma_step pd pt api wa (zs w ++ 125 :: tail) CStruct k0 ctx lst None [] 0%N XNil (S kk) fuel false _ Hwa Hca); [now right|].
      apply (close_field_name pd pt api w tail tokenComma (CStruct :: ctx) lst None [] 0%N XNil kk fuel Hw Hcw).
    + f_equal; list_norm.
Qed.

(* ---- the traversal steps into and out of a container --------------------------------------------------------------------------- *)
Lemma traverse_enter f x x1 x2 depth acc ty :
  x_op pd pt x ONext = (x1, Some [84%N]) -> x_err x1 = false -> x_type x1 = ty -> x_value x1 = XContainer ->
  ty = TList \/ ty = TSexp \/ ty = TStruct -> x_step_in x1 = (x2, Ok true) ->
  x_traverse_loop pd pt (S f) x depth acc =
  x_traverse_loop pd pt f x2 (S depth) (s "ok"%string :: rev (tr_head (x_field x1) (x_annots x1) ty false) ++ acc).
Proof.
  intros E He Hty Hv Hc Es. cbn [x_traverse_loop]. rewrite E.
  change (list_eqb [84%N] [70%N]) with false. cbv iota.
  rewrite (x_op_field pd pt x1 He), (x_op_annots pd pt x1 He), x_op_type, x_op_isnull.
  assert (Hnn : x_is_null x1 = false) by (unfold x_is_null; rewrite Hv; now rewrite andb_false_r).
  rewrite Hnn, Hty.
  assert (Hacc : accessor_of ty = None) by (destruct Hc as [->|[->| ->]]; reflexivity). rewrite Hacc.
  unfold x_op at 1. unfold x_op_res. rewrite Es. cbv iota.
  change (list_eqb (s "ok"%string) (s "ok"%string)) with true. cbv iota. reflexivity.
Qed.
Lemma traverse_exit f x x1 x2 depth acc :
  x_op pd pt x ONext = (x1, Some [70%N]) -> x_step_out x1 = (x2, Ok true) ->
  x_traverse_loop pd pt (S f) x (S depth) acc = x_traverse_loop pd pt f x2 depth (s "ok"%string :: [70%N] :: acc).
Proof.
  intros E Es. cbn [x_traverse_loop]. rewrite E. change (list_eqb [70%N] [70%N]) with true. cbv iota.
  unfold x_op at 1. unfold x_op_res. rewrite Es. cbv iota.
  change (list_eqb (s "ok"%string) (s "ok"%string)) with true. cbv iota. reflexivity.
Qed.

(* ---- the spelling of value trees ------------------------------------------------------------------------------------------------ *)
Definition first_state (tok : N) : N := if (tok =? tokenOpenBrace)%N then trsBeforeFieldName else BTA.
Definition open_ctype (tok : N) : ctype :=
  if (tok =? tokenOpenBracket)%N then CList else if (tok =? tokenOpenParen)%N then CSexp else CStruct.

Inductive tspell : list ctype -> list N -> (list N -> list N -> Prop) -> tval -> Prop :=
| t_scalar ctx text fol anns ty v :
    aval_spells pd pt lst ctx [] text fol anns ty v -> tspell ctx text fol (TScalar anns ty v)
| t_cont ctx otext anns tok w0 body items :
    aopen_spells ctx [] otext anns tok -> ws_run w0 ->
    (tok = tokenOpenBrace -> hd 0%N (w0 ++ body) <> 123%N) ->          (* `{{` opens a lob *)
    cseq (open_ctype tok :: ctx) (first_state tok) body items ->
    tspell ctx (otext ++ w0 ++ body) f_any (TCont anns (open_type tok) items)
(* from reader state st inside the container: the members and the closing bracket; no whitespace in front *)
with cseq : list ctype -> N -> list N -> list (option tok * tval) -> Prop :=
| cs_close ctx st pre tok n : close_spells ctx st pre tok n -> cseq ctx st pre []
| cs_item ctx st pre fld n wb text fol tv wn rest items :
    sep_spells ctx st pre fld n -> ws_run wb -> (pre = [] -> wb = []) ->
    tspell ctx text fol tv -> ws_run wn -> (forall outer, fol wn (rest ++ outer)) ->
    cseq ctx (after_value_state ctx) rest items ->
    cseq ctx st (pre ++ wb ++ text ++ wn ++ rest) ((fld, tv) :: items).

Scheme tspell_mind := Minimality for tspell Sort Prop
  with cseq_mind := Minimality for cseq Sort Prop.
Combined Scheme tspell_cseq_ind from tspell_mind, cseq_mind.

(* first characters *)
Lemma tspell_first ctx text fol tv : tspell ctx text fol tv -> exists c r, text = c :: r /\ val_start c.
Proof.
  destruct 1 as [ctx text fol anns ty v Hav|ctx otext anns tok w0 body items Hao Hw0 Hb123 Hcs].
  - exact (aval_first pd pt lst ctx [] text fol anns ty v Hav).
  - destruct (aopen_first ctx [] otext anns tok Hao) as (c & r & -> & Hc). cbn [app]. eauto.
Qed.
Definition sep_start (c : N) : Prop := is_whitespace (Z.of_N c) = false /\ c <> 47%N /\ c <> 58%N.
Lemma fname_first nm k : fname_spells nm k -> exists c r, nm = c :: r /\ sep_start c.
Proof.
  destruct 1 as [id k Hid Hkw Hk|body text Hb Hu|body text Hb Hu].
  - destruct Hid as [c r Hc Hr]. exists c, r. split; [reflexivity|]. exact (id_start_val_start c Hc).
  - eexists _, _. split; [reflexivity|]. unfold sep_start; repeat split; (reflexivity || discriminate).
  - eexists _, _. split; [reflexivity|]. unfold sep_start; repeat split; (reflexivity || discriminate).
Qed.
Lemma cseq_first ctx st text items : cseq ctx st text items -> exists c r, text = c :: r /\ sep_start c.
Proof.
  destruct 1 as [ctx st pre tok n Hcl|ctx st pre fld n wb text fol tv wn rest items Hsep Hwb Hpw Htv Hwn Hfol Hcs].
  - destruct Hcl; eexists _, _; (split; [reflexivity|]); unfold sep_start; repeat split; (reflexivity || discriminate).
  - destruct Hsep as [ctx|ctx|ctx nm k wn1 Hnm Hw1|ctx w nm k wn1 Hw Hnm Hw1].
    + rewrite (Hpw eq_refl). cbn [app]. destruct (tspell_first ctx text fol tv Htv) as (c & r & -> & Hc). cbn [app]. eauto.
    + eexists _, _. split; [reflexivity|]. unfold sep_start; repeat split; (reflexivity || discriminate).
    + destruct (fname_first nm k Hnm) as (c & r & -> & Hc). cbn [app]. eauto.
    + eexists _, _. split; [reflexivity|]. unfold sep_start; repeat split; (reflexivity || discriminate).
Qed.
Lemma sep_start_stop c r : sep_start c -> ws_stop (zs (c :: r)) = true /\ dcolon (zs (c :: r)) = false.
Proof. exact (val_start_stop c r). Qed.

(* ---- the traversal of a value tree ------------------------------------------------------------------------------------------------ *)
Lemma sep_facts ctx st pre fld n : sep_spells ctx st pre fld n -> (n <= length pre)%nat /\ st <> trsDone.
Proof.
  destruct 1 as [ctx|ctx|ctx nm k wn1 Hnm Hw1|ctx w nm k wn1 Hw Hnm Hw1]; (split; [|discriminate]); cbn [length]; try lia.
  - destruct (fname_first nm k Hnm) as (c & r & -> & _). cbn [app length]. lia.
  - destruct (fname_first nm k Hnm) as (c & r & -> & _). rewrite !app_length. cbn [app length]. lia.
Qed.
Lemma close_facts ctx st pre tok n : close_spells ctx st pre tok n -> (n < length pre)%nat /\ st <> trsDone /\ exists c ctx', ctx = c :: ctx'.
Proof.
  destruct 1; (split; [|split; [discriminate|eauto]]); cbn [length]; try lia; rewrite app_length; cbn [length]; lia.
Qed.

Definition tr_items (items : list (option tok * tval)) : list (list N) := flat_map (fun '(f, x) => tr_tval f x) items.

Definition P_val (ctx : list ctype) (text : list N) (fol : list N -> list N -> Prop) (tv : tval) : Prop :=
  forall pre st fld n wb, sep_spells ctx st pre fld n -> ws_run wb -> (pre = [] -> wb = []) ->
  forall x S0 k u fld0 ann0 ty0 v0 wn rest depth f acc,
  xok x -> xabs x = mkax S0 k u st ctx false false lst fld0 ann0 ty0 v0 -> (u = true -> st = after_value_state ctx) ->
  settled S0 k u (pre ++ wb ++ text ++ wn ++ rest) -> no_cr (pre ++ wb ++ text ++ wn) -> ws_run wn -> fol wn rest ->
  ws_stop (zs rest) = true -> dcolon (zs rest) = false ->
  exists x' S' k' u' fld' ann' ty' v',
    x_traverse_loop pd pt (cost tv + f) x depth acc = x_traverse_loop pd pt f x' depth (rev (tr_tval fld tv) ++ acc) /\
    xok x' /\ xabs x' = mkax S' k' u' (after_value_state ctx) ctx false false lst fld' ann' ty' v' /\
    settled S' k' u' rest.
Definition P_seq (ctx : list ctype) (st : N) (text : list N) (items : list (option tok * tval)) : Prop :=
  forall c ctx', ctx = c :: ctx' ->
  forall x S0 k u fld0 ann0 ty0 v0 outer depth f acc,
  xok x -> xabs x = mkax S0 k u st ctx false false lst fld0 ann0 ty0 v0 -> (u = true -> st = after_value_state ctx) ->
  settled S0 k u (text ++ outer) -> no_cr text ->
  exists x' S' k',
    x_traverse_loop pd pt (cost_items items + 1 + f) x (S depth) acc =
      x_traverse_loop pd pt f x' depth (s "ok"%string :: [70%N] :: rev (tr_items items) ++ acc) /\
    xok x' /\ xabs x' = mkax S' k' false (after_value_state ctx') ctx' false false lst None [] 0%N XNil /\ ends S' outer.

Lemma ends_split S1 a b : ends S1 (a ++ b) -> exists S2, S1 = zs a ++ S2 /\ ends S2 b.
Proof. apply ends_app. Qed.

Lemma app_cons_split (c : N) r (outer : list N) : (c :: r) ++ outer = c :: (r ++ outer).
Proof. reflexivity. Qed.

Theorem traverse_tree :
  (forall ctx text fol tv, tspell ctx text fol tv -> P_val ctx text fol tv) /\
  (forall ctx st text items, cseq ctx st text items -> P_seq ctx st text items).
Proof.
  apply tspell_cseq_ind.
  - (* a scalar *)
    intros ctx text fol anns ty v Hav pre st fld n wb Hsep Hwb Hpw x S0 k u fld0 ann0 ty0 v0 wn rest depth f acc
           Hi Ha Hst Hset Hcr Hwn Hfol Hrs Hrd.
    destruct (sep_facts _ _ _ _ _ Hsep) as [Hn Hnd].
    destruct (aval_first pd pt lst ctx [] text fol anns ty v Hav) as (c0 & r0 & Etext & Hc0).
    assert (Hcr' := Hcr). apply no_cr_app in Hcr' as [Hcp Hcr']. apply no_cr_app in Hcr' as [Hcb Hcr'].
    apply no_cr_app in Hcr' as [Hct Hcn].
    destruct (x_next_settled pd pt x S0 k u st ctx lst fld0 ann0 ty0 v0 (pre ++ wb ++ text ++ wn ++ rest) true
                (fun X2 => exists S' k' u', X2 = mkax S' k' u' (after_value_state ctx) ctx false false lst fld anns ty v /\
                                            settled S' k' u' rest) Hi Ha Hnd Hst Hset) as (x1 & E & Hi1 & HP).
    { intros S1 w1 kk fuel Hw1 Hcr1 He1 Hlen.
      destruct (ends_split S1 _ _ He1) as (Sa & -> & Hea). destruct (ends_split Sa _ _ Hea) as (Sb & -> & Heb).
      destruct (ends_split Sb _ _ Heb) as (Sc & -> & Hec). destruct (ends_split Sc _ _ Hec) as (Sd & -> & Hed).
      destruct (ends_split Sd _ _ Hed) as (S2 & -> & He2).
      rewrite !app_length in Hlen.
      destruct (aval_next pd pt api lst ctx [] text fol anns ty v Hav wn rest S2 Hct Hwn Hcn Hfol He2)
        as (S' & k' & u' & Hset' & R).
      { now rewrite (ends_ws_stop _ _ He2). }
      { now rewrite (ends_dcolon _ _ He2). }
      exists (mkax S' k' u' (after_value_state ctx) ctx false false lst fld anns ty v). split; [|eauto].
      replace (S kk) with (n + S (kk - n))%nat by lia.
      apply (sep_loop ctx st pre fld n Hsep w1 wb (zs text ++ zs wn ++ S2) k (S (kk - n)) fuel true); auto.
      - apply no_cr_app. split; [exact Hcr1|]. apply no_cr_app. auto.
      - rewrite Etext. discriminate.
      - rewrite Etext. cbn [zs map app shead]. destruct Hc0 as (_ & _ & H58). lia.
      - intros k1 w' Hw' Hcw'. apply R; auto. lia. }
    destruct HP as (S' & k' & u' & Ha1 & Hset1). pose proof (x_op_next pd pt x x1 true E) as Eo. xfields Ha1.
    exists x1, S', k', u', fld, anns, ty, v. split; [|auto].
    cbn [cost Nat.add].
    destruct (aval_value pd pt lst ctx [] text fol anns ty v Hav) as [[-> Hty]|[t Ht]].
    + rewrite (traverse_null pd pt f x x1 depth acc ty Eo Ferr Ftype Hty Fvalue). rewrite Ffield, Fannots. reflexivity.
    + rewrite (traverse_scalar pd pt f x x1 depth acc ty v t Eo Ferr Ftype Fvalue Ht). rewrite Ffield, Fannots.
      cbn [tr_tval]. rewrite Ht.
      replace (match v with XNil => tr_head fld anns ty true | _ => tr_head fld anns ty false ++ [t] end)
        with (tr_head fld anns ty false ++ [t]) by (destruct v; try reflexivity; discriminate Ht).
      rewrite rev_app_distr. reflexivity.
  - (* a container *)
    intros ctx otext anns tok w0 body items Hao Hw0 Hb123 Hcs IHseq pre st fld n wb Hsep Hwb Hpw x S0 k u fld0 ann0 ty0 v0
           wn rest depth f acc Hi Ha Hst Hset Hcr Hwn Hfol Hrs Hrd.
    destruct (sep_facts _ _ _ _ _ Hsep) as [Hn Hnd].
    destruct (aopen_first ctx [] otext anns tok Hao) as (c0 & r0 & Etext & Hc0).
    destruct (cseq_first _ _ _ _ Hcs) as (cb & rb & Ebody & Hcb0).
    assert (Hcr' := Hcr). apply no_cr_app in Hcr' as [Hcp Hcr']. apply no_cr_app in Hcr' as [Hcb Hcr'].
    apply no_cr_app in Hcr' as [Hct Hcn]. apply no_cr_app in Hct as [Hco Hct]. apply no_cr_app in Hct as [Hcw0 Hcbody].
    set (brace := (tok =? tokenOpenBrace)%N).
    (* Next: the opening bracket *)
    destruct (x_next_settled pd pt x S0 k u st ctx lst fld0 ann0 ty0 v0 (pre ++ wb ++ (otext ++ w0 ++ body) ++ wn ++ rest) true
                (fun X2 => exists r, X2 = mkax r tok true trsBeforeContainer ctx false false lst fld anns (open_type tok) XContainer /\
                                     ends r (w0 ++ body ++ wn ++ rest))
                Hi Ha Hnd Hst Hset) as (x1 & E & Hi1 & HP).
    { intros S1 w1 kk fuel Hw1 Hcr1 He1 Hlen.
      destruct (ends_split S1 _ _ He1) as (Sa & -> & Hea). destruct (ends_split Sa _ _ Hea) as (Sb & -> & Heb).
      destruct (ends_split Sb _ _ Heb) as (Sc & -> & Hec). rewrite <- !app_assoc in Hec.
      destruct (ends_split Sc _ _ Hec) as (Sd & -> & Hed).
      rewrite !app_length in Hlen.
      assert (Hbr : tok = tokenOpenBrace -> shead Sd <> 123).
      { intros Ht. specialize (Hb123 Ht). rewrite (ends_shead _ _ Hed).
        destruct w0 as [|cw w0']; cbn [app] in *.
        - rewrite Ebody in *. cbn [app zs map shead hd] in *. lia.
        - cbn [zs map shead hd] in *. lia. }
      exists (mkax (if brace then spush Sd else Sd) tok true trsBeforeContainer ctx false false lst fld anns (open_type tok) XContainer).
      split; [|exists (if brace then spush Sd else Sd); split; [reflexivity|]; destruct brace; [now apply ends_spush|exact Hed]].
      replace (S kk) with (n + S (kk - n))%nat by lia.
      apply (sep_loop ctx st pre fld n Hsep w1 wb (zs otext ++ Sd) k (S (kk - n)) fuel true); auto.
      - apply no_cr_app. split; [exact Hcr1|]. apply no_cr_app. auto.
      - rewrite Etext. discriminate.
      - rewrite Etext. cbn [zs map app shead]. destruct Hc0 as (_ & _ & H58). lia.
      - intros k1 w' Hw' Hcw'.
        apply (aopen_next ctx [] otext anns tok Hao w' Sd k1 fld 0%N XNil (kk - n) fuel); auto. lia. }
    destruct HP as (r & Ha1 & Her). pose proof (x_op_next pd pt x x1 true E) as Eo. xfields Ha1.
    (* StepIn *)
    assert (Hty : open_type tok = TList \/ open_type tok = TSexp \/ open_type tok = TStruct).
    { unfold open_type. destruct (tok =? tokenOpenBracket)%N; [now left|]. destruct (tok =? tokenOpenParen)%N; [right; now left|right; now right]. }
    destruct (rrun_step_in r tok true ctx lst fld anns (open_type tok) Hty x1 Hi1 Ha1) as (x2 & Es & Hi2 & Ha2).
    assert (Hok : open_ok ctx [] tok \/ True) by (right; exact I). clear Hok.
    assert (Htokc : tok = tokenOpenBracket \/ tok = tokenOpenParen \/ tok = tokenOpenBrace).
    { clear -Hao. induction Hao as [ann tok Hok| |]; auto. destruct Hok as [H|[H|[H _]]]; auto. }
    assert (Hctx : ctype_of (open_type tok) = open_ctype tok /\
                   (match open_ctype tok with CStruct => trsBeforeFieldName | _ => BTA end) = first_state tok).
    { destruct Htokc as [->|[->| ->]]; split; reflexivity. }
    destruct Hctx as [Hc1 Hc2]. rewrite Hc1, Hc2 in Ha2.
    (* the members *)
    destruct (IHseq (open_ctype tok) ctx eq_refl x2 r tok false None [] 0%N XNil (wn ++ rest) depth f
                (s "ok"%string :: rev (tr_head fld anns (open_type tok) false) ++ acc) Hi2 Ha2 ltac:(discriminate))
      as (x3 & S3 & k3 & Et & Hi3 & Ha3 & He3).
    { apply (settled_false _ _ _ w0); auto. }
    { exact Hcbody. }
    exists x3, S3, k3, false, None, [], 0%N, XNil. split; [|split; [exact Hi3|split; [exact Ha3|]]].
    + replace (cost (TCont anns (open_type tok) items) + f)%nat with (S (cost_items items + 1 + f))
        by (cbn [cost]; unfold cost_items; lia).
      rewrite (traverse_enter (cost_items items + 1 + f) x x1 x2 depth acc (open_type tok) Eo Ferr Ftype Fvalue Hty Es).
      rewrite Ffield, Fannots, Et. cbn [tr_tval]. fold (tr_items items).
      rewrite !rev_app_distr. cbn [rev app]. rewrite <- !app_assoc. cbn [app]. reflexivity.
    + apply (settled_false _ _ rest wn); auto.
  - (* the closing bracket *)
    intros ctx st pre tok n Hcl c ctx' Ectx x S0 k u fld0 ann0 ty0 v0 outer depth f acc Hi Ha Hst Hset Hcr.
    destruct (close_facts _ _ _ _ _ Hcl) as (Hn & Hnd & _).
    destruct (x_next_settled pd pt x S0 k u st ctx lst fld0 ann0 ty0 v0 (pre ++ outer) false
                (fun X2 => exists S2 st', X2 = mkax S2 tok false st' ctx true false lst None [] 0%N XNil /\ ends S2 outer)
                Hi Ha Hnd Hst Hset) as (x1 & E & Hi1 & HP).
    { intros S1 w1 kk fuel Hw1 Hcr1 He1 Hlen.
      destruct (ends_split S1 _ _ He1) as (Sa & -> & Hea). destruct (ends_split Sa _ _ Hea) as (S2 & -> & He2).
      rewrite !app_length in Hlen.
      destruct (close_loop ctx st pre tok n Hcl w1 S2 k (kk - n) fuel Hw1) as (st' & R).
      { apply no_cr_app. auto. }
      exists (mkax S2 tok false st' ctx true false lst None [] 0%N XNil). split; [|eauto].
      replace (S kk) with (n + S (kk - n))%nat by lia. exact R. }
    destruct HP as (S2 & st' & Ha1 & He2). pose proof (x_op_next pd pt x x1 false E) as Eo.
    subst ctx.
    destruct (rrun_step_out S2 tok st' c ctx' lst None [] 0%N XNil x1 Hi1 Ha1) as (x2 & Es & Hi2 & Ha2).
    exists x2, S2, tok. split; [|auto].
    change (cost_items [] + 1 + f)%nat with (S f).
    rewrite (traverse_exit f x x1 x2 depth acc Eo Es). reflexivity.
  - (* a member, then the rest *)
    intros ctx st pre fld n wb text fol tv wn rest items Hsep Hwb Hpw Htv IHv Hwn Hfol Hcs IHs
           c ctx' Ectx x S0 k u fld0 ann0 ty0 v0 outer depth f acc Hi Ha Hst Hset Hcr.
    destruct (cseq_first _ _ _ _ Hcs) as (cr & rr & Erest & Hcr0).
    assert (Hcr' := Hcr). apply no_cr_app in Hcr' as [Hcp Hcr']. apply no_cr_app in Hcr' as [Hcb Hcr'].
    apply no_cr_app in Hcr' as [Hct Hcr']. apply no_cr_app in Hcr' as [Hcn Hcrest].
    destruct (sep_start_stop cr (rr ++ outer) Hcr0) as [Hrs Hrd].
    destruct (IHv pre st fld n wb Hsep Hwb Hpw x S0 k u fld0 ann0 ty0 v0 wn (rest ++ outer) (S depth)
                (cost_items items + 1 + f)%nat acc Hi Ha Hst) as (x1 & S1 & k1 & u1 & fld1 & ann1 & ty1 & v1 & Et & Hi1 & Ha1 & Hset1).
    { rewrite <- !app_assoc in Hset. exact Hset. }
    { repeat (apply no_cr_app; split); auto. }
    { exact Hwn. }
    { apply Hfol. }
    { rewrite Erest, app_cons_split. exact Hrs. }
    { rewrite Erest, app_cons_split. exact Hrd. }
    destruct (IHs c ctx' Ectx x1 S1 k1 u1 fld1 ann1 ty1 v1 outer depth f (rev (tr_tval fld tv) ++ acc) Hi1 Ha1)
      as (x2 & S2 & k2 & Et2 & Hi2 & Ha2 & He2); auto.
    exists x2, S2, k2. split; [|auto].
    replace (cost_items ((fld, tv) :: items) + 1 + f)%nat with (cost tv + (cost_items items + 1 + f))%nat
      by (unfold cost_items; cbn [fold_right snd]; lia).
    rewrite Et, Et2. unfold tr_items. cbn [flat_map]. rewrite rev_app_distr, <- !app_assoc. reflexivity.
Qed.
End Tree.

(* ---- top-level streams of value trees ---------------------------------------------------------------------------------------- *)
Section TopTree.
Variable pd : list N -> res dec.
Variable pt : list N -> res (list N).
Variable lst : rlst.
Notation BTA := trsBeforeTypeAnnotations.

Inductive tops_spell : list N -> list tval -> Prop :=
| tp_nil : tops_spell [] []
| tp_cons text fol tv wn rest tvs :
    tspell pd pt lst [] text fol tv -> ws_run wn -> fol wn rest -> tops_spell rest tvs ->
    tops_spell (text ++ wn ++ rest) (tv :: tvs).
Definition ttrace (tvs : list tval) : list (list N) := flat_map (tr_tval None) tvs ++ tr_tail.

Lemma tops_first rest tvs : tops_spell rest tvs -> ws_stop (zs rest) = true /\ dcolon (zs rest) = false.
Proof.
  destruct 1 as [|text fol tv wn rest tvs Htv Hwn Hfol Hvs]; [split; reflexivity|].
  destruct (tspell_first pd pt lst [] text fol tv Htv) as (c & r & -> & Hc). cbn [app].
  exact (val_start_stop c _ Hc).
Qed.

Lemma cost_bound :
  (forall ctx text fol tv, tspell pd pt lst ctx text fol tv -> (cost tv <= length text)%nat) /\
  (forall ctx st text items, cseq pd pt lst ctx st text items -> (cost_items items + 1 <= length text)%nat).
Proof.
  apply tspell_cseq_ind.
  - intros ctx text fol anns ty v Hav. destruct (aval_first pd pt lst ctx [] text fol anns ty v Hav) as (c & r & -> & _).
    cbn [cost length]. lia.
  - intros ctx otext anns tok w0 body items Hao Hw0 Hb123 Hcs IH.
    destruct (aopen_first lst ctx [] otext anns tok Hao) as (c & r & -> & _).
    cbn [cost]. fold (cost_items items). rewrite !app_length. cbn [length]. lia.
  - intros ctx st pre tok n Hcl. destruct (close_facts pd pt _ _ _ _ _ Hcl) as (Hn & _). cbn [cost_items fold_right]. lia.
  - intros ctx st pre fld n wb text fol tv wn rest items Hsep Hwb Hpw Htv IHv Hwn Hfol Hcs IHs.
    unfold cost_items in *. cbn [fold_right snd]. rewrite !app_length. lia.
Qed.

Lemma traverse_tops : forall text tvs, tops_spell text tvs -> no_cr text ->
  forall x S0 k u fld ann ty v f acc,
  xok x -> xabs x = mkax S0 k u BTA [] false false lst fld ann ty v -> settled S0 k u text ->
  exists x', x_traverse_loop pd pt (fold_right (fun tv n => cost tv + n)%nat 0%nat tvs + 1 + f) x 0 acc
             = (x', [70%N] :: rev (flat_map (tr_tval None) tvs) ++ acc, false) /\
             x_eof x' = true /\ x_err x' = false.
Proof.
  induction 1 as [|text fol tv wn rest tvs Htv Hwn Hfol Hvs IH]; intros Hcr x S0 k u fld ann ty v f acc Hi Ha Hset.
  - destruct (top_eof pd pt lst x S0 k u fld ann ty v Hi Ha Hset) as (x' & E & He & Hr).
    cbn [fold_right Nat.add x_traverse_loop].
    rewrite (x_op_next pd pt x x' false E). change (list_eqb [70%N] [70%N]) with true. cbv iota.
    exists x'. cbn [flat_map rev app]. auto.
  - destruct (vals_no_cr_split _ _ _ Hcr) as [Hcr1 Hcr2].
    destruct (tops_first rest tvs Hvs) as [Hst Hdc].
    destruct (proj1 (traverse_tree pd pt lst) [] text fol tv Htv [] BTA None 0%nat [] (sep_none lst []) ws_nil (fun _ => eq_refl)
                x S0 k u fld ann ty v wn rest 0%nat
                (fold_right (fun tv n => cost tv + n)%nat 0%nat tvs + 1 + f)%nat acc Hi Ha ltac:(reflexivity) Hset Hcr1 Hwn Hfol Hst Hdc)
      as (x1 & S' & k' & u' & fld' & ann' & ty' & v' & Et & Hi1 & Ha1 & Hset1).
    destruct (IH Hcr2 x1 S' k' u' fld' ann' ty' v' f (rev (tr_tval None tv) ++ acc) Hi1 Ha1 Hset1) as (x' & Et' & He & Hr).
    exists x'. split; [|auto]. cbn [fold_right].
    replace (cost tv + fold_right (fun tv0 n => cost tv0 + n) 0 tvs + 1 + f)%nat
      with (cost tv + (fold_right (fun tv0 n => cost tv0 + n) 0 tvs + 1 + f))%nat by lia.
    rewrite Et, Et'. cbn [flat_map]. rewrite rev_app_distr, <- app_assoc. reflexivity.
Qed.

Theorem traverse_stream inp w0 text tvs :
  norm inp = w0 ++ text -> ws_run w0 -> tops_spell text tvs ->
  lst = LSys -> x_traverse pd pt inp false = ttrace tvs.
Proof.
  intros Hn Hw0 Hvs Hl. unfold x_traverse.
  pose proof (norm_no_cr inp) as Hcr. rewrite Hn in Hcr. apply no_cr_app in Hcr as [Hcr0 Hcrt].
  assert (Hi : xok (x_init inp false)) by reflexivity.
  assert (Ha : xabs (x_init inp false)
               = mkax (zs (norm inp)) tokenError false BTA [] false false lst None [] 0%N XNil) by (rewrite Hl; reflexivity).
  assert (Hset : settled (zs (norm inp)) tokenError false text).
  { apply (settled_false _ _ text w0); auto. rewrite Hn. exists []. split; [constructor|now rewrite app_nil_r]. }
  set (c := fold_right (fun tv n => cost tv + n)%nat 0%nat tvs).
  assert (Hf : (c + 1 <= 4 * length inp + 17)%nat).
  { assert (Hl' : forall t v, tops_spell t v -> (fold_right (fun tv n => cost tv + n)%nat 0%nat v <= length t)%nat).
    { induction 1 as [|tx fol tv wn rest vs' Htv Hwn Hfol Hv IH]; [cbn; lia|].
      pose proof (proj1 cost_bound [] tx fol tv Htv). cbn [fold_right]. rewrite !app_length. lia. }
    pose proof (Hl' _ _ Hvs). pose proof (norm_length inp) as Hnl. rewrite Hn, app_length in Hnl. unfold c. lia. }
  destruct (traverse_tops text tvs Hvs Hcrt (x_init inp false) _ _ _ _ _ _ _ (4 * length inp + 17 - (c + 1))%nat [] Hi Ha Hset)
    as (x' & Et & He & Hr).
  replace (fold_right (fun tv n => cost tv + n)%nat 0%nat tvs + 1 + (4 * length inp + 17 - (c + 1)))%nat
    with (4 * length inp + 17)%nat in Et by (fold c; lia).
  rewrite Et. cbv iota.
  assert (Hnext : x_next pd pt x' = (x', Ok false)).
  { unfold x_next, x_next_with. rewrite He, orb_true_r. reflexivity. }
  cbn [x_run]. unfold x_op_res at 1. rewrite Hr. cbv iota.
  cbn [x_run]. unfold x_op_res at 1. rewrite Hnext.
  cbn [x_run]. unfold x_op_res at 1. rewrite Hr. cbv iota.
  cbn [x_run]. unfold x_op_res at 1. rewrite Hnext.
  cbn [x_run]. unfold x_op_res at 1. rewrite Hr. cbv iota.
  cbn [x_run rev app]. unfold ttrace, tr_tail. rewrite app_nil_r.
  rewrite rev_involutive, <- app_assoc. reflexivity.
Qed.
End TopTree.

Theorem traverse_stream_text inp w0 text tvs :
  norm inp = w0 ++ text -> ws_run w0 -> tops_spell parse_decimal_text parse_ts_text LSys text tvs ->
  x_traverse parse_decimal_text parse_ts_text inp false = ttrace tvs.
Proof. intros Hn Hw Hv. exact (traverse_stream parse_decimal_text parse_ts_text LSys inp w0 text tvs Hn Hw Hv eq_refl). Qed.
