(* WriteSpellPrettyTree.v — C01, text half, PRETTY mode, steps 3 and 4: the text [wtp] the Writer model emits with
   TextWriterPretty is a spelling ([tspell] of Text/SpellTree.v) of the value as the reader presents it — the
   newlines and tabs fill the whitespace slots of the spelling relations — hence the text READER model's full
   traversal of the Writer model's pretty output is the trace of the forest.
   Follows WriteSpellTree.v / WriteSpellStream.v; annotations, field names and scalars are reused from there. *)
From Coq Require Import String List NArith ZArith Bool Lia ZifyBool ZifyN ZifyNat.
From IonV Require Import Base.Wire Base.Utf8 Data.Ion Num.Float Bin.BinWriter Bin.BitStream Bin.BinReader Bin.RoundTripBinS
  Text.TextOut Text.TextWriter Text.TextRoundtrip Text.Tokenizer Text.Skipper Text.TextReader Text.TextNum
  Text.SpellBase Text.SpellWs Text.SpellNum Text.SpellIdent Text.SpellSym Text.SpellEsc Text.SpellStr Text.SpellBlob
  Text.SpellTs Text.SpellRead Text.SpellVal Text.SpellSymVal Text.SpellStream Text.SpellCont Text.SpellTree
  Text.WriteSpell Text.WriteSpellOut Text.WriteSpellScalar Text.WriteSpellTree Text.WriteSpellStream
  Text.WriteSpellPretty Text.WriteSpellPrettyOut.
Import ListNotations.
Open Scope N_scope.

(* ---- newline and indentation: whitespace without CR ------------------------------------------------------------- *)
Definition nl (n : nat) : list N := 10 :: repeat 9 n.

Lemma ws_tabs n : ws_run (repeat 9 n).
Proof. induction n as [|n IH]; cbn [repeat]; [constructor|]. apply ws_ch; [reflexivity|exact IH]. Qed.
Lemma ws_nl n : ws_run (nl n).
Proof. unfold nl. apply ws_ch; [reflexivity|apply ws_tabs]. Qed.
Lemma no_cr_tabs n : no_cr (repeat 9 n).
Proof. induction n as [|n IH]; cbn [repeat]; constructor; [discriminate|exact IH]. Qed.
Lemma no_cr_nl n : no_cr (nl n).
Proof. unfold nl. constructor; [discriminate|apply no_cr_tabs]. Qed.

Lemma no_cr_pitems sep i ns ec l : no_cr sep -> Forall (@no_cr) l -> no_cr (pitems sep i ns ec l).
Proof.
  intros Hs H. revert ns ec. induction H as [|x r Hx Hr IH]; intros ns ec; cbn [pitems]; [constructor|].
  apply no_cr_app. split; [destruct ns; [exact Hs|constructor]|].
  apply no_cr_app. split; [destruct ec; repeat constructor; discriminate|].
  apply no_cr_app. split; [apply no_cr_tabs|]. apply no_cr_app. split; [exact Hx|apply IH].
Qed.
Lemma no_cr_pclose {A} i (l : list A) : no_cr (pclose i l).
Proof. destruct l; cbn [pclose]; [constructor|apply (no_cr_nl i)]. Qed.

Ltac papp_eq := unfold nl; cbn [pitems map app]; repeat first [rewrite <- app_assoc | progress (cbn [app])]; try reflexivity.

Section Tree.
Variable F : formats.

Definition Psp (v : value) : Prop :=
  wf_value F v -> forall i pa, Forall wf_sym pa ->
  no_cr (wtp F i pa v) /\
  forall ctx, (ctx = [] -> top_ok_ann pa v) ->
  exists fol, fol_ok fol /\ tspell PD PT LSys ctx (wtp F i pa v) fol (tv F pa v).

Lemma Psp_no_cr i l : Forall Psp l -> wf_list F l -> Forall (@no_cr) (map (wtp F i []) l).
Proof.
  induction 1 as [|x r Hx Hr IH]; intros Hw; cbn [map]; [constructor|]. destruct Hw as [Hwx Hwr].
  constructor; [exact (proj1 (Hx Hwx i [] (Forall_nil _)))|auto].
Qed.
Lemma Psp_inner x i ctx c : Psp x -> wf_value F x ->
  exists fol, fol_ok fol /\ tspell PD PT LSys (c :: ctx) (wtp F i [] x) fol (tv F [] x).
Proof. intros Hx Hw. apply (proj2 (Hx Hw i [] (Forall_nil _))). discriminate. Qed.

(* members of a non-empty list: [x], then [l]; the container itself at indentation i.
   `,` is the separator, LF + tabs the whitespace after it; the LF + tabs in front of `]` belong to the last member *)
Lemma list_cseq_p ctx i l : Forall Psp l -> wf_list F l -> forall x, Psp x -> wf_value F x -> forall first : bool,
  cseq PD PT LSys (CList :: ctx) (if first then trsBeforeTypeAnnotations else trsAfterValue)
       ((if first then [] else 44 :: nl (S i)) ++ wtp F (S i) [] x ++
        pitems [44; 10] (S i) true false (map (wtp F (S i) []) l) ++ nl i ++ [93])
       ((None, tv F [] x) :: map (fun x => (None, tv F [] x)) l).
Proof.
  induction 1 as [|y r Hy Hr IH]; intros Hw x Hx Hwx first;
    destruct (Psp_inner x (S i) ctx CList Hx Hwx) as (fol & Hfol & Hsp).
  - destruct first.
    + eapply cseq_eq; [eapply (cs_item PD PT LSys (CList :: ctx) _ [] None 0 [] (wtp F (S i) [] x) fol (tv F [] x) (nl i) [93]);
                       [apply sep_none|constructor|reflexivity|exact Hsp|apply ws_nl|
                        intros outer; apply Hfol; apply good_follow_cons; lia|
                        eapply cs_close; apply cl_list]|].
      papp_eq.
    + eapply cseq_eq; [eapply (cs_item PD PT LSys (CList :: ctx) _ [44] None 1 (nl (S i)) (wtp F (S i) [] x) fol (tv F [] x) (nl i) [93]);
                       [apply sep_comma|apply ws_nl|discriminate|exact Hsp|apply ws_nl|
                        intros outer; apply Hfol; apply good_follow_cons; lia|
                        eapply cs_close; apply cl_list]|].
      papp_eq.
  - destruct Hw as [Hwy Hwr]. specialize (IH Hwr y Hy Hwy false). cbv iota in IH. cbn [map].
    destruct first.
    + eapply cseq_eq; [refine (cs_item PD PT LSys (CList :: ctx) _ [] None 0 [] (wtp F (S i) [] x) fol (tv F [] x) [] _ _ _ _ _ Hsp _ _ IH);
                       [apply sep_none|constructor|reflexivity|constructor|
                        intros outer; apply Hfol; apply good_follow_cons; lia]|].
      papp_eq.
    + eapply cseq_eq; [refine (cs_item PD PT LSys (CList :: ctx) _ [44] None 1 (nl (S i)) (wtp F (S i) [] x) fol (tv F [] x) [] _ _ _ _ _ Hsp _ _ IH);
                       [apply sep_comma|apply ws_nl|discriminate|constructor|
                        intros outer; apply Hfol; apply good_follow_cons; lia]|].
      papp_eq.
Qed.

(* members of a non-empty s-expression: the LF + tabs belong to the member in front of them *)
Lemma sexp_cseq_p ctx i l : Forall Psp l -> wf_list F l -> forall x, Psp x -> wf_value F x ->
  cseq PD PT LSys (CSexp :: ctx) trsBeforeTypeAnnotations
       (wtp F (S i) [] x ++ pitems [10] (S i) true false (map (wtp F (S i) []) l) ++ nl i ++ [41])
       ((None, tv F [] x) :: map (fun x => (None, tv F [] x)) l).
Proof.
  induction 1 as [|y r Hy Hr IH]; intros Hw x Hx Hwx;
    destruct (Psp_inner x (S i) ctx CSexp Hx Hwx) as (fol & Hfol & Hsp).
  - eapply cseq_eq; [eapply (cs_item PD PT LSys (CSexp :: ctx) _ [] None 0 [] (wtp F (S i) [] x) fol (tv F [] x) (nl i) [41]);
                     [apply sep_none|constructor|reflexivity|exact Hsp|apply ws_nl|
                      intros outer; apply Hfol; apply good_follow_cons; lia|
                      eapply cs_close; apply cl_sexp]|].
    papp_eq.
  - destruct Hw as [Hwy Hwr]. specialize (IH Hwr y Hy Hwy). cbn [map].
    eapply cseq_eq; [refine (cs_item PD PT LSys (CSexp :: ctx) _ [] None 0 [] (wtp F (S i) [] x) fol (tv F [] x) (nl (S i)) _ _ _ _ _ Hsp _ _ IH);
                     [apply sep_none|constructor|reflexivity|apply ws_nl|
                      intros outer; apply Hfol; apply good_follow_cons; lia]|].
    papp_eq.
Qed.

(* fields of a non-empty struct: a space after the colon *)
Lemma struct_cseq_p ctx i fs : Forall (fun p => Psp (snd p)) fs -> wf_fields F fs ->
  forall n x, wf_sym n -> Psp x -> wf_value F x -> forall first : bool,
  cseq PD PT LSys (CStruct :: ctx) (if first then trsBeforeFieldName else trsAfterValue)
       ((if first then [] else 44 :: nl (S i)) ++ wsym n ++ [58; 32] ++ wtp F (S i) [] x ++
        pitems [44; 10] (S i) true false (map (fun '(n, x) => wsym n ++ [58; 32] ++ wtp F (S i) [] x) fs) ++ nl i ++ [125])
       ((Some (rd_sym n), tv F [] x) :: map (fun '(n, x) => (Some (rd_sym n), tv F [] x)) fs).
Proof.
  induction 1 as [|[m y] r Hy Hr IH]; intros Hw n x Hn Hx Hwx first;
    destruct (Psp_inner x (S i) ctx CStruct Hx Hwx) as (fol & Hfol & Hsp); destruct (sym_fname n Hn) as [Hfn _];
    assert (Hne : wsym n ++ [] ++ [58] = [] -> [32] = []) by (intros E; destruct (wsym n); discriminate E).
  - destruct first.
    + eapply cseq_eq; [eapply (cs_item PD PT LSys (CStruct :: ctx) _ (wsym n ++ [] ++ [58]) (Some (rd_sym n)) 1 [32] (wtp F (S i) [] x) fol (tv F [] x) (nl i) [125]);
                       [apply sep_field; [exact Hfn|constructor]|apply ws_ch; [reflexivity|constructor]|exact Hne|exact Hsp|apply ws_nl|
                        intros outer; apply Hfol; apply good_follow_cons; lia|
                        eapply cs_close; apply cl_struct]|].
      papp_eq.
    + eapply cseq_eq; [eapply (cs_item PD PT LSys (CStruct :: ctx) _ (44 :: nl (S i) ++ wsym n ++ [] ++ [58]) (Some (rd_sym n)) 2 [32] (wtp F (S i) [] x) fol (tv F [] x) (nl i) [125]);
                       [apply sep_comma_field; [apply ws_nl|exact Hfn|constructor]|apply ws_ch; [reflexivity|constructor]|discriminate|exact Hsp|apply ws_nl|
                        intros outer; apply Hfol; apply good_follow_cons; lia|
                        eapply cs_close; apply cl_struct]|].
      papp_eq.
  - destruct Hw as (Hm & Hwy & Hwr). cbn [snd] in Hy. specialize (IH Hwr m y Hm Hy Hwy false). cbv iota in IH. cbn [map].
    destruct first.
    + eapply cseq_eq; [refine (cs_item PD PT LSys (CStruct :: ctx) _ (wsym n ++ [] ++ [58]) (Some (rd_sym n)) 1 [32] (wtp F (S i) [] x) fol (tv F [] x) [] _ _ _ _ _ Hsp _ _ IH);
                       [apply sep_field; [exact Hfn|constructor]|apply ws_ch; [reflexivity|constructor]|exact Hne|constructor|
                        intros outer; apply Hfol; apply good_follow_cons; lia]|].
      papp_eq.
    + eapply cseq_eq; [refine (cs_item PD PT LSys (CStruct :: ctx) _ (44 :: nl (S i) ++ wsym n ++ [] ++ [58]) (Some (rd_sym n)) 2 [32] (wtp F (S i) [] x) fol (tv F [] x) [] _ _ _ _ _ Hsp _ _ IH);
                       [apply sep_comma_field; [apply ws_nl|exact Hfn|constructor]|apply ws_ch; [reflexivity|constructor]|discriminate|constructor|
                        intros outer; apply Hfol; apply good_follow_cons; lia]|].
      papp_eq.
Qed.

Lemma fields_no_cr_p i fs : Forall (fun p => Psp (snd p)) fs -> wf_fields F fs ->
  Forall (@no_cr) (map (fun '(n, x) => wsym n ++ [58; 32] ++ wtp F i [] x) fs).
Proof.
  induction 1 as [|[n x] r Hx Hr IH]; intros Hw; cbn [map]; [constructor|]. destruct Hw as (Hn & Hwx & Hwr). cbn [snd] in Hx.
  constructor; [|auto]. apply no_cr_app. split; [now apply wsym_no_cr|]. constructor; [discriminate|]. constructor; [discriminate|].
  exact (proj1 (Hx Hwx i [] (Forall_nil _))).
Qed.

Lemma wtp_scalar' i pa v : is_scalar v -> wtp F i pa v = ann_bytes pa ++ scalar_bytes F v.
Proof. destruct v; try contradiction; reflexivity. Qed.

Theorem value_spells_p v : Psp v.
Proof.
  induction v as [v Hsc|l IH|l IH|fs IH|a0 x IH] using value_ind'; intros Hw i pa Hpa.
  - (* scalars *)
    assert (Hws : wf_scalar F v) by (destruct v; try contradiction; exact Hw).
    rewrite (wtp_scalar' i pa v Hsc).
    assert (Htv : tv F pa v = TScalar (map rd_sym pa) (scalar_ty v) (scalar_xv F v)) by (destruct v; try contradiction; reflexivity).
    split.
    + apply no_cr_app. split; [now apply ann_no_cr|].
      destruct (scalar_item F [] [] v Hsc Hws) as (fol & _ & Hcr & _); [|exact Hcr].
      intros t _. unfold lst_marker. cbn. now rewrite andb_false_r.
    + intros ctx Htop. rewrite Htv.
      destruct (scalar_item F ctx (map rd_sym pa) v Hsc Hws) as (fol & Hfol & _ & Hit).
      { intros t ->. unfold lst_marker. destruct ctx as [|c ctx']; [|now rewrite andb_false_r].
        specialize (Htop eq_refl). cbn [top_ok_ann] in Htop.
        destruct (N.eqb_spec t TStruct) as [->|Ht]; [|reflexivity]. cbn [andb]. exact Htop. }
      exists fol. split; [exact Hfol|]. apply t_scalar.
      exact (ann_aval ctx pa Hpa [] _ fol _ _ Hit).
  - (* lists *)
    rewrite wf_list_eq in Hw. cbn [wtp tv]. split.
    + apply no_cr_app. split; [now apply ann_no_cr|]. constructor; [discriminate|]. apply no_cr_app.
      split; [apply no_cr_pitems; [repeat constructor; discriminate|now apply Psp_no_cr]|].
      apply no_cr_app. split; [apply no_cr_pclose|repeat constructor; discriminate].
    + intros ctx Htop. exists f_any. split; [exact fol_any|].
      destruct l as [|x r].
      * eapply tspell_eq; [apply (t_cont PD PT LSys ctx (ann_bytes pa ++ [91]) (map rd_sym pa) tokenOpenBracket [] [93] []
                                    (ann_aopen ctx tokenOpenBracket pa Hpa [] (or_introl eq_refl)) ws_nil ltac:(discriminate));
                           eapply cs_close; apply cl_list_bta|].
        cbn [map pitems pclose]. papp_eq.
      * inversion IH as [|? ? Hx Hr]; subst. destruct Hw as [Hwx Hwr].
        eapply tspell_eq; [apply (t_cont PD PT LSys ctx (ann_bytes pa ++ [91]) (map rd_sym pa) tokenOpenBracket (nl (S i)) _ _
                                    (ann_aopen ctx tokenOpenBracket pa Hpa [] (or_introl eq_refl)) (ws_nl (S i)) ltac:(discriminate)
                                    (list_cseq_p ctx i r Hr Hwr x Hx Hwx true))|].
        cbn [map pitems pclose]. papp_eq.
  - (* s-expressions *)
    rewrite wf_sexp_eq in Hw. cbn [wtp tv]. split.
    + apply no_cr_app. split; [now apply ann_no_cr|]. constructor; [discriminate|]. apply no_cr_app.
      split; [apply no_cr_pitems; [repeat constructor; discriminate|now apply Psp_no_cr]|].
      apply no_cr_app. split; [apply no_cr_pclose|repeat constructor; discriminate].
    + intros ctx Htop. exists f_any. split; [exact fol_any|].
      destruct l as [|x r].
      * eapply tspell_eq; [apply (t_cont PD PT LSys ctx (ann_bytes pa ++ [40]) (map rd_sym pa) tokenOpenParen [] [41] []
                                    (ann_aopen ctx tokenOpenParen pa Hpa [] (or_intror (or_introl eq_refl))) ws_nil ltac:(discriminate));
                           eapply cs_close; apply cl_sexp|].
        cbn [map pitems pclose]. papp_eq.
      * inversion IH as [|? ? Hx Hr]; subst. destruct Hw as [Hwx Hwr].
        eapply tspell_eq; [apply (t_cont PD PT LSys ctx (ann_bytes pa ++ [40]) (map rd_sym pa) tokenOpenParen (nl (S i)) _ _
                                    (ann_aopen ctx tokenOpenParen pa Hpa [] (or_intror (or_introl eq_refl))) (ws_nl (S i)) ltac:(discriminate)
                                    (sexp_cseq_p ctx i r Hr Hwr x Hx Hwx))|].
        cbn [map pitems pclose]. papp_eq.
  - (* structs *)
    rewrite wf_struct_eq in Hw. cbn [wtp tv]. split.
    + apply no_cr_app. split; [now apply ann_no_cr|]. constructor; [discriminate|]. apply no_cr_app.
      split; [apply no_cr_pitems; [repeat constructor; discriminate|now apply fields_no_cr_p]|].
      apply no_cr_app. split; [apply no_cr_pclose|repeat constructor; discriminate].
    + intros ctx Htop. exists f_any. split; [exact fol_any|].
      assert (Hok : open_ok ctx ([] ++ map rd_sym pa) tokenOpenBrace).
      { apply (open_ok_ctx ctx pa (VStruct fs)); [exact Htop|intros _; eauto|auto]. }
      destruct fs as [|[n x] r].
      * eapply tspell_eq; [apply (t_cont PD PT LSys ctx (ann_bytes pa ++ [123]) (map rd_sym pa) tokenOpenBrace [] [125] []
                                    (ann_aopen ctx tokenOpenBrace pa Hpa [] Hok) ws_nil ltac:(discriminate));
                           eapply cs_close; apply cl_struct_first|].
        cbn [map pitems pclose]. papp_eq.
      * inversion IH as [|? ? Hx Hr]; subst. destruct Hw as (Hn & Hwx & Hwr). cbn [snd] in Hx.
        eapply tspell_eq; [apply (t_cont PD PT LSys ctx (ann_bytes pa ++ [123]) (map rd_sym pa) tokenOpenBrace (nl (S i)) _ _
                                    (ann_aopen ctx tokenOpenBrace pa Hpa [] Hok) (ws_nl (S i)) ltac:(discriminate)
                                    (struct_cseq_p ctx i r Hr Hwr n x Hn Hx Hwx true))|].
        cbn [map pitems pclose]. papp_eq.
  - (* annotations *)
    destruct Hw as [Ha0 Hwx]. cbn [wtp tv top_ok_ann].
    apply (IH Hwx i (pa ++ a0)). apply Forall_app. now split.
Qed.

Theorem value_spells_pretty v : wf_value F v -> forall i pa, Forall wf_sym pa ->
  no_cr (wtp F i pa v) /\
  forall ctx, (ctx = [] -> top_ok_ann pa v) ->
  exists fol, fol_ok fol /\ tspell PD PT LSys ctx (wtp F i pa v) fol (tv F pa v).
Proof. exact (value_spells_p v). Qed.

(* ---- the whole stream ------------------------------------------------------------------------------------------------ *)
Lemma tops_from_p quiet l : Forall (wf_top F) l -> forall x, wf_top F x ->
  tops_spell PD PT LSys (wtp F 0 [] x ++ pitems [10] 0 true false (map (wtp F 0 []) l) ++ fin_of quiet) (tv F [] x :: map (tv F []) l).
Proof.
  induction 1 as [|y r Hy Hr IH]; intros x [Hwx Htx]; cbn [map pitems app repeat];
    destruct (proj2 (value_spells_p x Hwx 0%nat [] (Forall_nil _)) [] (fun _ => Htx)) as (fol & Hfol & Hsp).
  - eapply tops_eq; [apply (tp_cons PD PT LSys (wtp F 0 [] x) fol (tv F [] x) (fin_of quiet) [] []); [exact Hsp| | |apply tp_nil]|].
    + destruct quiet; [constructor|apply ws_ch; [reflexivity|constructor]].
    + apply Hfol. rewrite app_nil_r. destruct quiet; [now left|apply good_follow_cons; lia].
    + now rewrite app_nil_r.
  - eapply tops_eq; [apply (tp_cons PD PT LSys (wtp F 0 [] x) fol (tv F [] x) [10]
                              (wtp F 0 [] y ++ pitems [10] 0 true false (map (wtp F 0 []) r) ++ fin_of quiet) (tv F [] y :: map (tv F []) r) Hsp);
                     [| |apply (IH y Hy)]|].
    + apply ws_ch; [reflexivity|constructor].
    + apply Hfol. apply good_follow_cons. lia.
    + repeat first [rewrite <- app_assoc | progress (cbn [app])]. reflexivity.
Qed.

Theorem stream_spells_pretty quiet vs : Forall (wf_top F) vs ->
  tops_spell PD PT LSys (wtp_stream F quiet vs) (tvs F vs) /\ no_cr (wtp_stream F quiet vs).
Proof.
  intros H. split.
  - unfold wtp_stream, tvs. destruct vs as [|x r]; cbn [map pitems app repeat]; [apply tp_nil|].
    inversion H as [|? ? Hx Hr]; subst.
    eapply tops_eq; [apply (tops_from_p quiet r Hr x Hx)|]. unfold fin_of. now rewrite <- app_assoc.
  - unfold wtp_stream. apply no_cr_app. split.
    + apply no_cr_pitems; [repeat constructor; discriminate|].
      induction H as [|x r [Hwx _] Hr IH]; cbn [map]; constructor; [|exact IH].
      exact (proj1 (value_spells_p x Hwx 0%nat [] (Forall_nil _))).
    + destruct vs; [constructor|]. destruct quiet; repeat constructor; discriminate.
Qed.

(* the two models composed *)
Theorem write_then_read_pretty quiet vs : Forall (wf_top F) vs ->
  exists w oks, tw_drive F (new_text_writer None true quiet) (calls_of_stream vs) = Ok (w, oks) /\
                forallb (fun b => b) oks = true /\
                sink_bytes (tw_out w) = wtp_stream F quiet vs /\
                tops_spell PD PT LSys (sink_bytes (tw_out w)) (tvs F vs) /\
                x_traverse PD PT (sink_bytes (tw_out w)) false = ttrace (tvs F vs).
Proof.
  intros H.
  assert (Hw : Forall (wf_value F) vs) by (eapply Forall_impl; [|exact H]; intros v [Hv _]; exact Hv).
  destruct (forest_written_pretty F quiet vs Hw) as (w & oks & E & Hok & Hout).
  destruct (stream_spells_pretty quiet vs H) as [Hsp Hcr].
  exists w, oks. rewrite Hout. repeat split; auto.
  apply (traverse_stream_text (wtp_stream F quiet vs) [] (wtp_stream F quiet vs) (tvs F vs)); [|constructor|exact Hsp].
  cbn [app]. now apply norm_id.
Qed.
End Tree.
