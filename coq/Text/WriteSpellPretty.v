(* WriteSpellPretty.v — C01, text half, PRETTY mode (TextWriterPretty): what the text Writer model emits.
   Definitions only; the lemmas are in WriteSpellPrettyOut.v (the Writer model emits [wtp_stream]) and
   WriteSpellPrettyTree.v (the bytes are a spelling of the forest; composition with the reader).

   [wtp i pa v]  the bytes the Writer model emits, in pretty mode, for the calls of [v] with the annotations [pa]
                 pending, when the value itself stands at indentation level i (its members at i+1) — from the
                 first annotation to the end of the value.  As for [wt], the separator, the newline, the
                 indentation and the field name in front of the value are the container's business ([pitems]).
   The value as the reader presents it ([tv], [tvs]) and the well-formedness conditions do not depend on the
   mode: they are those of WriteSpell.v. *)
From Coq Require Import String List NArith ZArith Bool.
From IonV Require Import Base.Wire Data.Ion Bin.BinWriter Text.TextOut Text.TextWriter Text.WriteSpell.
Import ListNotations.
Open Scope N_scope.

(* what beginValue writes in front of every member, then the member:
   writeSeparator if needsSeparator ([ns]; `,` LF in a list or struct, LF in an s-expression and at top level),
   LF if emptyContainer ([ec]: the first member of a container), w.indent tabs *)
Fixpoint pitems (sep : list N) (i : nat) (ns ec : bool) (l : list (list N)) : list N :=
  match l with
  | [] => []
  | x :: r => (if ns then sep else []) ++ (if ec then [10] else []) ++ repeat 9 i ++ x ++ pitems sep i true false r
  end.

(* what end() writes in front of the closing bracket of a container that is not empty: LF and the indentation
   of the container itself *)
Definition pclose {A} (i : nat) (l : list A) : list N :=
  match l with [] => [] | _ => 10 :: repeat 9 i end.

Section Defs.
Variable F : formats.

Fixpoint wtp (i : nat) (pa : list symv) (v : value) : list N :=
  match v with
  | VAnn a x => wtp i (pa ++ a) x
  | VList l => ann_bytes pa ++ [91] ++ pitems [44; 10] (S i) false true (map (wtp (S i) []) l) ++ pclose i l ++ [93]
  | VSexp l => ann_bytes pa ++ [40] ++ pitems [10] (S i) false true (map (wtp (S i) []) l) ++ pclose i l ++ [41]
  | VStruct fs =>
    ann_bytes pa ++ [123] ++
    pitems [44; 10] (S i) false true (map (fun '(n, x) => wsym n ++ [58; 32] ++ wtp (S i) [] x) fs) ++ pclose i fs ++ [125]
  | _ => ann_bytes pa ++ scalar_bytes F v
  end.

(* top level: indentation 0, a newline between values, and one after the last unless TextWriterQuietFinish *)
Definition wtp_stream (quiet : bool) (vs : list value) : list N :=
  pitems [10] 0 false false (map (wtp 0 []) vs) ++ (match vs with [] => [] | _ => if quiet then [] else [10] end).
End Defs.
