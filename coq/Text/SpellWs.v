(* SpellWs.v — C02, stage 1: whitespace and comments.

   [ws_run w]: w is any concatenation of space, tab, LF, CR, VT, FF, `//...` up to the
   first LF or CR, and `/*...*/` (the body is any text without `*/`).  Defined from the
   Ion text grammar, independently of the tokenizer.
   [ws_plain w]: whitespace characters only (what may separate things inside {{ }}).

   Theorems: skipWhitespace (the comment-skipping variant) started on  w ++ rest,
   where rest begins with something that cannot continue a whitespace run, consumes
   exactly w and answers the first character of rest; the lob variant does the same
   for plain whitespace and stops at a slash. *)
From Coq Require Import String List NArith ZArith Bool Lia ZifyBool ZifyN ZifyNat.
From IonV Require Import Base.Wire Base.Utf8 Text.Tokenizer Text.Skipper Text.SpellBase.
Import ListNotations.
Open Scope Z_scope.

(* ---- the relation ---------------------------------------------------------------------------------- *)
Definition ws_byte (c : N) : bool :=
  ((c =? 32) || (c =? 9) || (c =? 10) || (c =? 13) || (c =? 11) || (c =? 12))%N.
Definition not_nl (c : N) : Prop := c <> 10%N /\ c <> 13%N.
(* no `*/` inside *)
Fixpoint no_close (l : list N) : bool :=
  match l with
  | [] => true
  | c :: r => negb ((c =? 42)%N && match r with c2 :: _ => (c2 =? 47)%N | [] => false end) && no_close r
  end.

Inductive ws_run : list N -> Prop :=
| ws_nil : ws_run []
| ws_ch c w : ws_byte c = true -> ws_run w -> ws_run (c :: w)
| ws_line body nl w : Forall not_nl body -> (nl = 10 \/ nl = 13)%N -> ws_run w ->
                      ws_run (47 :: 47 :: body ++ nl :: w)%N
| ws_block body w : no_close body = true -> ws_run w ->
                    ws_run (47 :: 42 :: body ++ 42 :: 47 :: w)%N.
Inductive ws_plain : list N -> Prop :=
| wsp_nil : ws_plain []
| wsp_ch c w : ws_byte c = true -> ws_plain w -> ws_plain (c :: w).
Definition nonempty {A} (l : list A) : bool := match l with [] => false | _ => true end.

Lemma ws_plain_run w : ws_plain w -> ws_run w.
Proof. induction 1; [constructor|now constructor]. Qed.
Lemma ws_run_app a b : ws_run a -> ws_run b -> ws_run (a ++ b).
Proof.
  induction 1 as [|c w Hc Hw IH|body nl w Hb Hn Hw IH|body w Hb Hw IH]; intros Hb'; cbn [app].
  - exact Hb'.
  - apply ws_ch; auto.
  - rewrite <- app_assoc. cbn [app]. apply ws_line; auto.
  - rewrite <- app_assoc. cbn [app]. apply ws_block; auto.
Qed.

(* what may follow a whitespace run: a character that is not whitespace and not the start of a comment;
   [s] is a stream, its end counts as the character -1 *)
Definition ws_stop (s : list Z) : bool :=
  negb (is_whitespace (shead s)) &&
  negb ((shead s =? c_slash) && ((shead (stail s) =? c_slash) || (shead (stail s) =? c_star))).
(* the stream after the stop character has been read (a slash is checked with a look-ahead) *)
Definition after_stop (s : list Z) : list Z :=
  if shead s =? c_slash then spush (stail s) else stail s.

Lemma ws_byte_is_whitespace c : ws_byte c = true -> is_whitespace (Z.of_N c) = true.
Proof.
  unfold ws_byte, is_whitespace, zmem. cbn [existsb]. intros H.
  repeat (apply orb_true_iff in H; destruct H as [H|H]); apply N.eqb_eq in H; subst c; reflexivity.
Qed.

(* ---- comments ---------------------------------------------------------------------------------------- *)
Lemma run_single_line : forall body f r,
  Forall (fun c => c <> 10%N) body -> (length body < f)%nat ->
  run (skip_single_line_comment f) (zs body ++ 10 :: r) tt r.
Proof.
  induction body as [|c body IH]; intros f r Hb Hf; (destruct f as [|f]; [lia|]); cbn [skip_single_line_comment zs map app].
  - eapply run_bind; [apply run_read_cons|]. cbn. apply run_ret.
  - inversion Hb as [|? ? Hc Hb']; subst. eapply run_bind; [apply run_read_cons|].
    replace ((Z.of_N c =? -1) || (Z.of_N c =? c_nl)) with false by (unfold c_nl; lia).
    apply IH; auto. cbn [length] in Hf. lia.
Qed.
Lemma run_single_line_eof : forall body f s,
  Forall (fun c => c <> 10%N) body -> (length body < f)%nat -> shead s = -1 ->
  run (skip_single_line_comment f) (zs body ++ s) tt (stail s).
Proof.
  induction body as [|c body IH]; intros f s Hb Hf Hs; (destruct f as [|f]; [lia|]); cbn [skip_single_line_comment zs map app].
  - eapply run_bind; [apply run_read|]. rewrite Hs. cbn. apply run_ret.
  - inversion Hb as [|? ? Hc Hb']; subst. eapply run_bind; [apply run_read_cons|].
    replace ((Z.of_N c =? -1) || (Z.of_N c =? c_nl)) with false by (unfold c_nl; lia).
    apply IH; auto. cbn [length] in Hf. lia.
Qed.
Lemma run_block : forall body star f r,
  no_close body = true -> (star = true -> hd 0%N body <> 47%N) -> (length body + 1 < f)%nat ->
  run (skip_block_comment f star) (zs body ++ 42 :: 47 :: r) tt r.
Proof.
  induction body as [|c body IH]; intros star f r Hb Hs Hf.
  - destruct f as [|[|f]]; try (cbn [length] in Hf; lia). cbn [skip_block_comment zs map app].
    eapply run_bind; [apply run_read_cons|]. cbn [Z.eqb]. rewrite andb_false_r.
    eapply run_bind; [apply run_read_cons|]. cbn. apply run_ret.
  - destruct f as [|f]; [lia|]. cbn [skip_block_comment zs map app].
    eapply run_bind; [apply run_read_cons|].
    replace (Z.of_N c =? -1) with false by lia.
    assert (Hsc : star && (Z.of_N c =? c_slash) = false).
    { destruct star; [|reflexivity]. cbn [andb]. specialize (Hs eq_refl). cbn [hd] in Hs. unfold c_slash. lia. }
    rewrite Hsc. cbn [no_close] in Hb. apply andb_true_iff in Hb as [Hb1 Hb2].
    apply IH; auto; [|cbn [length] in Hf; lia].
    intros Hst. unfold c_star in Hst. destruct body as [|c2 body']; [cbn; lia|]. cbn [hd].
    apply negb_true_iff in Hb1. destruct (N.eqb_spec c 42); [|lia]. cbn [andb] in Hb1. lia.
Qed.

Lemma run_handler_line body r :
  Forall not_nl body ->
  run (run_handler HSkipComments) (47 :: zs body ++ 10 :: r) true r.
Proof.
  intros Hb. cbn [run_handler]. eapply run_bind; [apply run_peek_cons|].
  change (47 =? c_slash) with true. cbv iota.
  eapply run_bind; [|apply run_ret].
  apply run_with_fuel. intros f Hf.
  change (47 :: zs body ++ 10 :: r) with (zs (47%N :: body) ++ 10 :: r).
  apply run_single_line.
  - constructor; [discriminate|]. eapply Forall_impl; [|exact Hb]. intros a [Ha _]. exact Ha.
  - change (47 :: zs body ++ 10 :: r) with (zs (47%N :: body) ++ 10 :: r) in Hf.
    rewrite nne_app, nne_zs in Hf. lia.
Qed.
Lemma run_handler_line_eof body s :
  Forall not_nl body -> shead s = -1 ->
  run (run_handler HSkipComments) (47 :: zs body ++ s) true (stail s).
Proof.
  intros Hb Hs. cbn [run_handler]. eapply run_bind; [apply run_peek_cons|].
  change (47 =? c_slash) with true. cbv iota.
  eapply run_bind; [|apply run_ret].
  apply run_with_fuel. intros f Hf.
  change (47 :: zs body ++ s) with (zs (47%N :: body) ++ s).
  apply run_single_line_eof; auto.
  - constructor; [discriminate|]. eapply Forall_impl; [|exact Hb]. intros a [Ha _]. exact Ha.
  - change (47 :: zs body ++ s) with (zs (47%N :: body) ++ s) in Hf.
    rewrite nne_app, nne_zs in Hf. lia.
Qed.
Lemma run_handler_block body r :
  no_close body = true ->
  run (run_handler HSkipComments) (42 :: zs body ++ 42 :: 47 :: r) true r.
Proof.
  intros Hb. cbn [run_handler]. eapply run_bind; [apply run_peek_cons|].
  change (42 =? c_slash) with false. change (42 =? c_star) with true. cbv iota.
  eapply run_bind; [apply run_read_cons|].
  eapply run_bind; [|apply run_ret].
  apply run_with_fuel. intros f Hf. apply run_block; auto; [discriminate|].
  rewrite nne_app, nne_zs in Hf. lia.
Qed.
Lemma run_handler_none s :
  (shead s =? c_slash) || (shead s =? c_star) = false ->
  run (run_handler HSkipComments) s false (spush s).
Proof.
  intros H. apply orb_false_iff in H as [H1 H2]. cbn [run_handler].
  eapply run_bind; [apply run_peek|]. rewrite H1, H2. apply run_ret.
Qed.

(* ---- skipWhitespace, comments skipped ---------------------------------------------------------------- *)
Lemma run_skip_ws_stop f h sk s :
  (0 < f)%nat -> ws_stop s = true -> h = HSkipComments \/ (h = HStopForComments) ->
  run (skip_whitespace_with f h sk) s (shead s, sk)
      (match h with HSkipComments => after_stop s | _ => stail s end).
Proof.
  intros Hf Hs Hh. destruct f as [|f]; [lia|]. cbn [skip_whitespace_with].
  unfold ws_stop in Hs. apply andb_true_iff in Hs as [Hs1 Hs2]. apply negb_true_iff in Hs1, Hs2.
  eapply run_bind; [apply run_read|]. rewrite Hs1. unfold after_stop.
  destruct (shead s =? c_slash) eqn:E.
  - cbn [andb] in Hs2. assert (Hc : shead s = c_slash) by lia. rewrite Hc. destruct Hh as [-> | ->].
    + eapply run_bind; [apply run_handler_none; exact Hs2|]. cbv iota. apply run_ret.
    + cbn [run_handler]. eapply run_bind; [apply run_ret|]. cbv iota. apply run_ret.
  - destruct Hh as [-> | ->]; apply run_ret.
Qed.

(* continuation form: a whitespace run in front changes nothing but the `skipped` flag *)
Lemma run_skip_ws_k : forall w, ws_run w -> forall f sk s (a : Z * bool) s',
  no_cr w -> (length w <= f)%nat ->
  (forall f', (f - length w <= f')%nat -> run (skip_whitespace_with f' HSkipComments (sk || nonempty w)) s a s') ->
  run (skip_whitespace_with f HSkipComments sk) (zs w ++ s) a s'.
Proof.
  induction 1 as [|c w Hc Hw IH|body nl w Hb Hn Hw IH|body w Hb Hw IH]; intros f sk s a s' Hcr Hf Hk.
  - cbn [zs map app nonempty length] in *. rewrite orb_false_r in Hk. apply Hk. lia.
  - destruct f as [|f]; [cbn [length] in Hf; lia|]. cbn [skip_whitespace_with zs map app nonempty].
    eapply run_bind; [apply run_read_cons|]. rewrite (ws_byte_is_whitespace c Hc).
    inversion Hcr; subst. apply IH; auto; [cbn [length] in Hf; lia|].
    intros f' Hf'. cbn [nonempty] in Hk. rewrite orb_true_r in Hk. cbn [orb]. apply Hk. cbn [length]. lia.
  - destruct f as [|f]; [cbn [length] in Hf; lia|]. cbn [skip_whitespace_with zs map app nonempty].
    eapply run_bind; [apply run_read_cons|]. change (is_whitespace (Z.of_N 47)) with false.
    change (Z.of_N 47 =? c_slash) with true. cbv iota.
    rewrite zs_app, <- app_assoc. cbn [zs map app].
    change (47 :: 47 :: body ++ nl :: w)%N with ([47; 47]%N ++ body ++ nl :: w) in Hcr.
    apply no_cr_app in Hcr as [_ Hcr]. apply no_cr_app in Hcr as [_ Hcr]. inversion Hcr as [|? ? Hnl Hcr']; subst.
    assert (Hnl' : Z.of_N nl = 10) by lia. rewrite Hnl'.
    eapply run_bind; [apply (run_handler_line body _ Hb)|]. cbv iota.
    cbn [length] in Hf, Hk. rewrite app_length in Hf, Hk. cbn [length] in Hf, Hk.
    apply IH; auto; [lia|].
    intros f' Hf'. cbn [nonempty] in Hk. rewrite orb_true_r in Hk. cbn [orb]. apply Hk. lia.
  - destruct f as [|f]; [cbn [length] in Hf; lia|]. cbn [skip_whitespace_with zs map app nonempty].
    eapply run_bind; [apply run_read_cons|]. change (is_whitespace (Z.of_N 47)) with false.
    change (Z.of_N 47 =? c_slash) with true. cbv iota.
    rewrite zs_app, <- app_assoc. cbn [zs map app].
    eapply run_bind; [apply (run_handler_block body _ Hb)|]. cbv iota.
    change (47 :: 42 :: body ++ 42 :: 47 :: w)%N with ([47; 42]%N ++ body ++ [42; 47]%N ++ w) in Hcr.
    apply no_cr_app in Hcr as [_ Hcr]. apply no_cr_app in Hcr as [_ Hcr]. apply no_cr_app in Hcr as [_ Hcr].
    cbn [length] in Hf, Hk. rewrite app_length in Hf, Hk. cbn [length] in Hf, Hk.
    apply IH; auto; [lia|].
    intros f' Hf'. cbn [nonempty] in Hk. rewrite orb_true_r in Hk. cbn [orb]. apply Hk. lia.
Qed.

Lemma run_skip_ws : forall w, ws_run w -> forall f sk s,
  no_cr w -> ws_stop s = true -> (length w < f)%nat ->
  run (skip_whitespace_with f HSkipComments sk) (zs w ++ s) (shead s, sk || nonempty w) (after_stop s).
Proof.
  intros w Hw f sk s Hcr Hs Hf. apply run_skip_ws_k; auto; [lia|]. intros f' Hf'.
  apply (run_skip_ws_stop _ HSkipComments); auto. lia.
Qed.

Lemma run_t_skip_whitespace w s :
  ws_run w -> no_cr w -> ws_stop s = true ->
  run t_skip_whitespace (zs w ++ s) (shead s, nonempty w) (after_stop s).
Proof.
  intros Hw Hcr Hs. unfold t_skip_whitespace. apply run_with_fuel. intros f Hf.
  apply (run_skip_ws w Hw f false s); auto. rewrite nne_app, nne_zs in Hf. lia.
Qed.

(* a `//` comment that runs to the end of the input *)
Definition all_eof (s : list Z) : Prop := Forall (fun c => c = -1) s.
Lemma all_eof_shead s : all_eof s -> shead s = -1.
Proof. destruct 1; [reflexivity|assumption]. Qed.
Lemma all_eof_stail s : all_eof s -> all_eof (stail s).
Proof. destruct 1; [constructor|assumption]. Qed.
Lemma ws_stop_eof s : shead s = -1 -> ws_stop s = true.
Proof. unfold ws_stop. now intros ->. Qed.
Lemma run_t_skip_whitespace_eof_comment w body s :
  ws_run w -> no_cr w -> Forall not_nl body -> all_eof s ->
  run t_skip_whitespace (zs (w ++ 47 :: 47 :: body)%N ++ s) (-1, true) (stail (stail s)).
Proof.
  intros Hw Hcr Hb Hs. unfold t_skip_whitespace. apply run_with_fuel. intros f Hf.
  rewrite zs_app, <- app_assoc. rewrite zs_app, <- app_assoc, !nne_app, !nne_zs in Hf. cbn [length] in Hf.
  apply run_skip_ws_k; auto; [lia|]. intros f1 Hf1.
  destruct f1 as [|[|f1]]; try lia.
  cbn [skip_whitespace_with zs map app]. eapply run_bind; [apply run_read_cons|].
  change (is_whitespace (Z.of_N 47)) with false. change (Z.of_N 47 =? c_slash) with true. cbv iota.
  eapply run_bind; [apply (run_handler_line_eof body s Hb (all_eof_shead _ Hs))|]. cbv iota.
  eapply run_bind; [apply run_read|]. rewrite (all_eof_shead _ (all_eof_stail _ Hs)).
  cbn. apply run_ret.
Qed.

(* ---- skipLobWhitespace: no comments inside {{ }} ------------------------------------------------------------ *)
Lemma run_skip_lob_ws_k : forall w, ws_plain w -> forall h f sk s (a : Z * bool) s',
  (length w <= f)%nat ->
  (forall f', (f - length w <= f')%nat -> run (skip_whitespace_with f' h (sk || nonempty w)) s a s') ->
  run (skip_whitespace_with f h sk) (zs w ++ s) a s'.
Proof.
  induction 1 as [|c w Hc Hw IH]; intros h f sk s a s' Hf Hk.
  - cbn [zs map app nonempty length] in *. rewrite orb_false_r in Hk. apply Hk. lia.
  - destruct f as [|f]; [cbn [length] in Hf; lia|]. cbn [skip_whitespace_with zs map app nonempty].
    eapply run_bind; [apply run_read_cons|]. rewrite (ws_byte_is_whitespace c Hc).
    apply IH; auto; [cbn [length] in Hf; lia|].
    intros f' Hf'. cbn [nonempty] in Hk. rewrite orb_true_r in Hk. cbn [orb]. apply Hk. cbn [length]. lia.
Qed.
Lemma run_t_skip_lob_whitespace w s :
  ws_plain w -> is_whitespace (shead s) = false ->
  run t_skip_lob_whitespace (zs w ++ s) (shead s, nonempty w) (stail s).
Proof.
  intros Hw Hs. unfold t_skip_lob_whitespace. apply run_with_fuel. intros f Hf.
  rewrite nne_app, nne_zs in Hf. apply run_skip_lob_ws_k; auto; [lia|]. intros f1 Hf1.
  destruct f1 as [|f1]; [lia|].
  cbn [skip_whitespace_with]. eapply run_bind; [apply run_read|]. rewrite Hs.
  destruct (shead s =? c_slash) eqn:E.
  - cbn [run_handler]. eapply run_bind; [apply run_ret|]. cbv iota.
    assert (Hc : shead s = c_slash) by lia. rewrite Hc. apply run_ret.
  - apply run_ret.
Qed.

(* ---- the relation is closed under newline normalisation ------------------------------------------------------ *)
Lemma hd47_norm r :
  match norm r with c2 :: _ => (c2 =? 47)%N | [] => false end = match r with c2 :: _ => (c2 =? 47)%N | [] => false end.
Proof.
  destruct r as [|c2 r2]; [reflexivity|]. cbn [norm]. destruct (N.eqb_spec c2 13) as [->|]; reflexivity.
Qed.
Lemma no_close_norm : forall n body, length body = n -> no_close body = true -> no_close (norm body) = true.
Proof.
  induction n as [n IH] using lt_wf_ind. intros body Hn Hb. destruct body as [|c r]; [reflexivity|].
  cbn [norm]. cbn [no_close] in Hb. apply andb_true_iff in Hb as [Hb1 Hb2]. cbn [length] in Hn.
  destruct (N.eqb_spec c 13) as [->|Hc].
  - cbn [no_close]. change ((10 =? 42)%N) with false. cbn [andb negb].
    destruct r as [|c2 r2]; [reflexivity|]. destruct (N.eqb_spec c2 10) as [->|Hc2].
    + cbn [no_close] in Hb2. apply andb_true_iff in Hb2 as [_ Hb2]. eapply IH; [|reflexivity|exact Hb2].
      cbn [length] in Hn. lia.
    + eapply IH; [|reflexivity|exact Hb2]. lia.
  - cbn [no_close]. rewrite hd47_norm, Hb1. cbn [andb]. eapply IH; [|reflexivity|exact Hb2]. lia.
Qed.
Lemma not_nl_no_cr body : Forall not_nl body -> no_cr body.
Proof. intros H. eapply Forall_impl; [|exact H]. intros a [_ Ha]. exact Ha. Qed.

Lemma ws_norm_nl nl w : (nl = 10 \/ nl = 13)%N -> ws_run w ->
  exists w', norm (nl :: w) = 10%N :: norm w' /\ ws_run w' /\ (length w' <= length w)%nat.
Proof.
  intros [->| ->] Hw.
  - exists w. cbn [norm]. change ((10 =? 13)%N) with false. auto.
  - cbn [norm]. change ((13 =? 13)%N) with true. cbv iota. destruct w as [|c2 r2].
    + exists []. auto.
    + destruct (N.eqb_spec c2 10) as [->|Hc2].
      * exists r2. split; [reflexivity|]. split; [|cbn [length]; lia].
        inversion Hw; subst; assumption.
      * exists (c2 :: r2). auto.
Qed.
Lemma ws_norm : forall n w, length w = n -> ws_run w -> ws_run (norm w).
Proof.
  induction n as [n IH] using lt_wf_ind. intros w Hn Hw.
  inversion Hw as [|c w' Hc Hw'|body nl w' Hb Hnl Hw'|body w' Hb Hw']; subst.
  - constructor.
  - assert (Hc' : (c = 13 \/ c <> 13)%N) by lia. destruct Hc' as [->|Hc'].
    + destruct (ws_norm_nl 13 w' (or_intror eq_refl) Hw') as (w2 & E & Hw2 & Hl). rewrite E.
      apply ws_ch; [reflexivity|]. eapply IH; [|reflexivity|exact Hw2]. cbn [length]. lia.
    + cbn [norm]. destruct (N.eqb_spec c 13); [contradiction|]. apply ws_ch; [exact Hc|].
      eapply IH; [|reflexivity|exact Hw']. cbn [length]. lia.
  - cbn [norm]. change ((47 =? 13)%N) with false. cbv iota.
    rewrite (norm_app_nocr body _ (not_nl_no_cr _ Hb)).
    destruct (ws_norm_nl nl w' Hnl Hw') as (w2 & E & Hw2 & Hl). rewrite E.
    apply ws_line; auto. eapply IH; [|reflexivity|exact Hw2]. cbn [length]. rewrite app_length. cbn [length]. lia.
  - cbn [norm]. change ((47 =? 13)%N) with false. change ((42 =? 13)%N) with false. cbv iota.
    rewrite norm_app by (right; cbn; lia). cbn [norm]. change ((47 =? 13)%N) with false. change ((42 =? 13)%N) with false. cbv iota.
    apply ws_block; [eapply no_close_norm; [reflexivity|exact Hb]|].
    eapply IH; [|reflexivity|exact Hw']. cbn [length]. rewrite app_length. cbn [length]. lia.
Qed.
Lemma ws_plain_norm : forall n w, length w = n -> ws_plain w -> ws_plain (norm w).
Proof.
  induction n as [n IH] using lt_wf_ind. intros w Hn Hw.
  inversion Hw as [|c w' Hc Hw']; subst; [constructor|].
  cbn [norm]. destruct (N.eqb_spec c 13) as [->|Hc'].
  - apply wsp_ch; [reflexivity|]. destruct w' as [|c2 r2]; [constructor|].
    destruct (N.eqb_spec c2 10) as [->|Hc2].
    + inversion Hw'; subst. eapply IH; [|reflexivity|eassumption]. cbn [length]. lia.
    + eapply IH; [|reflexivity|exact Hw']. cbn [length]. lia.
  - apply wsp_ch; [exact Hc|]. eapply IH; [|reflexivity|exact Hw']. cbn [length]. lia.
Qed.
Lemma nonempty_norm (w : list N) : nonempty (norm w) = nonempty w.
Proof. destruct w as [|c r]; [reflexivity|]. cbn [norm]. destruct (c =? 13)%N; reflexivity. Qed.

(* ---- on a concrete input ---------------------------------------------------------------------------------------- *)
(* the first byte of [rest] is not LF when the stream of [rest] is a stop *)
Lemma ws_stop_hd rest : ws_stop (zs (norm rest)) = true -> hd 0%N rest <> 10%N.
Proof.
  destruct rest as [|c r]; [cbn; lia|]. cbn [hd norm]. intros H ->. discriminate H.
Qed.

Theorem skip_whitespace_spelling w rest t :
  ws_run w -> ws_stop (zs (norm rest)) = true ->
  t_ioerr t = false -> t_buf t = [] -> t_in t = w ++ rest ->
  exists t', t_skip_whitespace t = Ok ((shead (zs (norm rest)), nonempty w), t') /\
             stream t' = after_stop (zs (norm rest)) /\ t_ioerr t' = false /\
             t_token t' = t_token t /\ t_unfinished t' = t_unfinished t.
Proof.
  intros Hw Hs Hi Hb Hin.
  pose proof (run_t_skip_whitespace (norm w) (zs (norm rest)) (ws_norm _ w eq_refl Hw) (norm_no_cr w) Hs) as R.
  rewrite nonempty_norm in R.
  destruct (run_apply _ _ _ _ t R Hi) as (t' & E & Hi' & Hs' & Hk & Hu).
  - rewrite (stream_in t Hb), Hin, norm_app, zs_app; [reflexivity|]. right. apply ws_stop_hd. exact Hs.
  - exists t'. auto.
Qed.

Theorem skip_lob_whitespace_spelling w rest t :
  ws_plain w -> is_whitespace (shead (zs (norm rest))) = false ->
  t_ioerr t = false -> t_buf t = [] -> t_in t = w ++ rest ->
  exists t', t_skip_lob_whitespace t = Ok ((shead (zs (norm rest)), nonempty w), t') /\
             stream t' = stail (zs (norm rest)) /\ t_ioerr t' = false /\
             t_token t' = t_token t /\ t_unfinished t' = t_unfinished t.
Proof.
  intros Hw Hs Hi Hb Hin.
  pose proof (run_t_skip_lob_whitespace (norm w) (zs (norm rest)) (ws_plain_norm _ w eq_refl Hw) Hs) as R.
  rewrite nonempty_norm in R.
  destruct (run_apply _ _ _ _ t R Hi) as (t' & E & Hi' & Hs' & Hk & Hu).
  - rewrite (stream_in t Hb), Hin, norm_app, zs_app; [reflexivity|]. right.
    destruct rest as [|c r]; [cbn; lia|]. cbn [hd norm] in *. intros ->. discriminate Hs.
  - exists t'. auto.
Qed.

(* a `//` comment may also end the input *)
Theorem skip_whitespace_spelling_eof_comment w body t :
  ws_run w -> Forall not_nl body ->
  t_ioerr t = false -> t_buf t = [] -> t_in t = w ++ (47 :: 47 :: body)%N ->
  exists t', t_skip_whitespace t = Ok ((-1, true), t') /\
             stream t' = [] /\ t_ioerr t' = false /\
             t_token t' = t_token t /\ t_unfinished t' = t_unfinished t.
Proof.
  intros Hw Hbd Hi Hb Hin.
  pose proof (run_t_skip_whitespace_eof_comment (norm w) body [] (ws_norm _ w eq_refl Hw) (norm_no_cr w) Hbd
                (Forall_nil _)) as R.
  destruct (run_apply _ _ _ _ t R Hi) as (t' & E & Hi' & Hs' & Hk & Hu).
  - rewrite (stream_in t Hb), Hin, app_nil_r, norm_app by (right; cbn; lia).
    f_equal. f_equal. cbn [norm]. change ((47 =? 13)%N) with false. cbv iota. now rewrite (norm_id body (not_nl_no_cr _ Hbd)).
  - exists t'. auto.
Qed.

(* the hypotheses are satisfiable: a run with all six characters and both comment forms, nested-looking stars *)
Definition ws_example : list N := s " 	" ++ [10; 13; 11; 12]%N ++ s "// c /* x" ++ [13; 10]%N ++ s "/*/ ** / */" ++ s "/**/".
Example ws_example_ok : ws_run ws_example.
Proof.
  unfold ws_example. cbn.
  repeat (apply ws_ch; [reflexivity|]).
  apply (ws_line (s " c /* x") 13%N); [repeat constructor; discriminate|now right|].
  apply ws_ch; [reflexivity|].
  apply (ws_block (s "/ ** / ")); [reflexivity|].
  apply (ws_block []); [reflexivity|]. constructor.
Qed.
