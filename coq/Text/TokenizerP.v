(* TokenizerP.v — progress lemmas for the tokenizer model: the fuelled loops for
   whitespace, comments and digit runs never run out of fuel when the fuel
   exceeds the number of characters still to be read ([t_rem]); [t_fuel] is
   that number plus two. *)
From Coq Require Import String List NArith ZArith Bool Lia.
From IonV Require Import Base.Wire Text.Tokenizer Text.Skipper.
Import ListNotations.
Open Scope Z_scope.

(* ---- the measure under read / unread / peek ---------------------------------------------------- *)
Lemma rem_set_buf t b :
  t_rem (set_buf t b) = (length (t_in t) + length (filter (fun c => negb (c =? -1)%Z) b))%nat.
Proof. reflexivity. Qed.
Lemma rem_set_in t i :
  t_rem (set_in t i) = (length i + length (filter (fun c => negb (c =? -1)%Z) (t_buf t)))%nat.
Proof. reflexivity. Qed.

Lemma read_rem t c t' :
  t_read t = Ok (c, t') -> (t_rem t' <= t_rem t)%nat /\ (c <> -1 -> (t_rem t' < t_rem t)%nat).
Proof.
  unfold t_read. destruct (t_buf t) as [|b bs] eqn:Eb.
  - destruct (t_in t) as [|i is] eqn:Ei.
    + destruct (t_ioerr t); [discriminate|]. intros E; injection E as <- <-. split; [lia|congruence].
    + destruct (i =? 13)%N.
      * destruct is as [|i2 is2].
        -- destruct (t_ioerr t); [discriminate|]. intros E; injection E as <- <-.
           rewrite rem_set_in. unfold t_rem. rewrite Ei, Eb. cbn. split; lia.
        -- destruct (i2 =? 10)%N; intros E; injection E as <- <-;
             rewrite rem_set_in; unfold t_rem; rewrite Ei, Eb; cbn; split; lia.
      * intros E; injection E as <- <-. rewrite rem_set_in. unfold t_rem. rewrite Ei, Eb. cbn. split; lia.
  - intros E; injection E as <- <-. rewrite rem_set_buf. unfold t_rem. rewrite Eb. cbn [filter].
    destruct (b =? -1) eqn:B; cbn [negb length]; split; try lia.
    all: try (apply Z.eqb_eq in B; congruence).
Qed.

Lemma read_not_oof t : t_read t <> OutOfFuel.
Proof.
  unfold t_read. destruct (t_buf t); [|discriminate]. destruct (t_in t) as [|i is]; [destruct (t_ioerr t); discriminate|].
  destruct (i =? 13)%N; [|discriminate]. destruct is as [|i2 is2]; [destruct (t_ioerr t); discriminate|].
  destruct (i2 =? 10)%N; discriminate.
Qed.
Lemma peek_not_oof t : t_peek t <> OutOfFuel.
Proof.
  unfold t_peek. destruct (t_buf t); [|discriminate]. unfold mbind.
  pose proof (read_not_oof t). destruct (t_read t) as [[c t1]| | |]; try discriminate; try congruence.
Qed.

Lemma unread_rem c t u t' :
  t_unread c t = Ok (u, t') -> (t_rem t' <= S (t_rem t))%nat /\ (c = -1 -> t_rem t' = t_rem t).
Proof.
  unfold t_unread. intros E; injection E as _ <-. rewrite rem_set_buf. unfold t_rem. cbn [filter].
  destruct (c =? -1) eqn:B; cbn [negb length]; split; try lia.
  all: try (intros ->; discriminate).
Qed.

Lemma peek_rem t c t' : t_peek t = Ok (c, t') -> (t_rem t' <= t_rem t)%nat.
Proof.
  unfold t_peek. destruct (t_buf t) as [|b bs] eqn:Eb.
  - unfold mbind. destruct (t_read t) as [[c1 t1]| | |] eqn:Er; try discriminate.
    destruct (t_unread c1 t1) as [[u t2]| | |] eqn:Eu; try discriminate.
    unfold ret. intros E; injection E as <- <-.
    destruct (read_rem _ _ _ Er) as [H1 H2]. destruct (unread_rem _ _ _ _ Eu) as [H3 H4].
    destruct (Z.eq_dec c1 (-1)) as [->|Hn]; [rewrite H4; [exact H1|reflexivity]|].
    specialize (H2 Hn). lia.
  - intros E; injection E as <- <-. lia.
Qed.

(* ---- comments ------------------------------------------------------------------------------------ *)
Lemma single_line_progress : forall fuel t,
  (t_rem t < fuel)%nat ->
  skip_single_line_comment fuel t <> OutOfFuel /\
  (forall u t', skip_single_line_comment fuel t = Ok (u, t') -> (t_rem t' <= t_rem t)%nat).
Proof.
  induction fuel as [|f IH]; intros t Hf; [lia|].
  cbn [skip_single_line_comment]. unfold mbind.
  destruct (t_read t) as [[c t1]| | |] eqn:Er; try (split; [discriminate|intros; discriminate]);
    try (exfalso; exact (read_not_oof _ Er)).
  destruct (read_rem _ _ _ Er) as [H1 H2].
  destruct ((c =? -1) || (c =? c_nl)) eqn:B.
  - unfold ret. split; [discriminate|]. intros u t' E; injection E as _ <-. exact H1.
  - apply orb_false_elim in B as [B _]. apply Z.eqb_neq in B. specialize (H2 B).
    destruct (IH t1 ltac:(lia)) as [I1 I2]. split; [exact I1|].
    intros u t' E. specialize (I2 u t' E). lia.
Qed.

Lemma block_progress : forall fuel star t,
  (t_rem t < fuel)%nat ->
  skip_block_comment fuel star t <> OutOfFuel /\
  (forall u t', skip_block_comment fuel star t = Ok (u, t') -> (t_rem t' <= t_rem t)%nat).
Proof.
  induction fuel as [|f IH]; intros star t Hf; [lia|].
  cbn [skip_block_comment]. unfold mbind.
  destruct (t_read t) as [[c t1]| | |] eqn:Er; try (split; [discriminate|intros; discriminate]);
    try (exfalso; exact (read_not_oof _ Er)).
  destruct (read_rem _ _ _ Er) as [H1 H2].
  destruct (c =? -1) eqn:B; [unfold fail; split; [discriminate|intros; discriminate]|].
  apply Z.eqb_neq in B. specialize (H2 B).
  destruct (star && (c =? c_slash)).
  - unfold ret. split; [discriminate|]. intros u t' E; injection E as _ <-. exact H1.
  - destruct (IH (c =? c_star) t1 ltac:(lia)) as [I1 I2]. split; [exact I1|].
    intros u t' E. specialize (I2 u t' E). lia.
Qed.

Lemma handler_progress h t :
  run_handler h t <> OutOfFuel /\
  (forall b t', run_handler h t = Ok (b, t') -> (t_rem t' <= t_rem t)%nat).
Proof.
  destruct h; cbn [run_handler].
  - unfold mbind. destruct (t_peek t) as [[c t1]| | |] eqn:Ep; try (split; [discriminate|intros; discriminate]);
      try (exfalso; exact (peek_not_oof _ Ep)).
    pose proof (peek_rem _ _ _ Ep) as H1.
    destruct (c =? c_slash).
    + unfold with_fuel. destruct (single_line_progress (t_fuel t1) t1 ltac:(unfold t_fuel; lia)) as [I1 I2].
      destruct (skip_single_line_comment (t_fuel t1) t1) as [[u t2]| | |] eqn:Es;
        try (split; [discriminate|intros; discriminate]); [|congruence].
      unfold ret. split; [discriminate|]. intros b t' E; injection E as _ <-. specialize (I2 _ _ eq_refl). lia.
    + destruct (c =? c_star).
      * unfold with_fuel. destruct (block_progress (t_fuel t1) false t1 ltac:(unfold t_fuel; lia)) as [I1 I2].
        destruct (skip_block_comment (t_fuel t1) false t1) as [[u t2]| | |] eqn:Es;
          try (split; [discriminate|intros; discriminate]); [|congruence].
        unfold ret. split; [discriminate|]. intros b t' E; injection E as _ <-. specialize (I2 _ _ eq_refl). lia.
      * unfold ret. split; [discriminate|]. intros b t' E; injection E as _ <-. exact H1.
  - unfold ret. split; [discriminate|]. intros b t' E; injection E as _ <-. lia.
  - unfold fail. split; [discriminate|intros; discriminate].
Qed.

(* ---- whitespace ------------------------------------------------------------------------------------- *)
Lemma ws_not_eof c : is_whitespace c = true -> c <> -1.
Proof. intros H ->. discriminate. Qed.

Lemma whitespace_progress : forall fuel h sk t,
  (t_rem t < fuel)%nat ->
  skip_whitespace_with fuel h sk t <> OutOfFuel /\
  (forall r t', skip_whitespace_with fuel h sk t = Ok (r, t') -> (t_rem t' <= t_rem t)%nat).
Proof.
  induction fuel as [|f IH]; intros h sk t Hf; [lia|].
  cbn [skip_whitespace_with]. unfold mbind.
  destruct (t_read t) as [[c t1]| | |] eqn:Er; try (split; [discriminate|intros; discriminate]);
    try (exfalso; exact (read_not_oof _ Er)).
  destruct (read_rem _ _ _ Er) as [H1 H2].
  destruct (is_whitespace c) eqn:W.
  - specialize (H2 (ws_not_eof c W)).
    destruct (IH h true t1 ltac:(lia)) as [I1 I2]. split; [exact I1|].
    intros r t' E. specialize (I2 r t' E). lia.
  - destruct (c =? c_slash) eqn:S.
    + apply Z.eqb_eq in S. assert (Hc : c <> -1) by (rewrite S; discriminate). specialize (H2 Hc).
      destruct (handler_progress h t1) as [G1 G2].
      destruct (run_handler h t1) as [[b t2]| | |] eqn:Eh;
        try (split; [discriminate|intros; discriminate]); [|congruence].
      specialize (G2 _ _ eq_refl).
      destruct b.
      * destruct (IH h true t2 ltac:(lia)) as [I1 I2]. split; [exact I1|].
        intros r t' E. specialize (I2 r t' E). lia.
      * unfold ret. split; [discriminate|]. intros r t' E; injection E as _ <-. lia.
    + unfold ret. split; [discriminate|]. intros r t' E; injection E as _ <-. exact H1.
Qed.

(* skipWhitespace / skipLobWhitespace / the clob variant, with the fuel the model gives them *)
Lemma skip_whitespace_h_progress h t : t_skip_whitespace_h h t <> OutOfFuel.
Proof. unfold t_skip_whitespace_h, with_fuel. apply whitespace_progress. unfold t_fuel. lia. Qed.

(* ---- digit runs ----------------------------------------------------------------------------------------- *)
Lemma radix_digits_progress : forall fuel valid w t,
  valid (-1) = false ->
  (t_rem t < fuel)%nat ->
  read_radix_digits fuel valid w t <> OutOfFuel.
Proof.
  induction fuel as [|f IH]; intros valid w t Hv Hf; [lia|].
  cbn [read_radix_digits]. unfold mbind.
  destruct (t_read t) as [[c t1]| | |] eqn:Er; try discriminate; try (exfalso; exact (read_not_oof _ Er)).
  destruct (read_rem _ _ _ Er) as [H1 H2].
  destruct (c =? c_under) eqn:U.
  - apply Z.eqb_eq in U. assert (Hc : c <> -1) by (rewrite U; discriminate). specialize (H2 Hc).
    destruct (t_peek t1) as [[nx t2]| | |] eqn:Ep; try discriminate; try (exfalso; exact (peek_not_oof _ Ep)).
    pose proof (peek_rem _ _ _ Ep). destruct (negb (valid nx)); [discriminate|].
    apply IH; [exact Hv|lia].
  - destruct (valid c) eqn:V; cbn [negb]; [|discriminate].
    assert (Hc : c <> -1) by (intros ->; congruence). specialize (H2 Hc).
    apply IH; [exact Hv|lia].
Qed.
Lemma read_digits_progress c w t : read_digits c w t <> OutOfFuel.
Proof.
  unfold read_digits. destruct (negb (is_digit c)); [discriminate|].
  unfold with_fuel. apply radix_digits_progress; [reflexivity|unfold t_fuel; lia].
Qed.

Lemma skip_digits_loop_progress : forall fuel c t,
  (S (t_rem t) < fuel)%nat -> skip_digits_loop fuel c t <> OutOfFuel.
Proof.
  induction fuel as [|f IH]; intros c t Hf; [lia|].
  cbn [skip_digits_loop]. destruct (is_digit c) eqn:D; [|discriminate].
  unfold mbind. destruct (t_read t) as [[c2 t1]| | |] eqn:Er; try discriminate; try (exfalso; exact (read_not_oof _ Er)).
  destruct (read_rem _ _ _ Er) as [H1 H2].
  destruct (is_digit c2) eqn:D2.
  - assert (Hc : c2 <> -1) by (intros ->; discriminate). specialize (H2 Hc). apply IH. lia.
  - destruct f; [lia|]. cbn [skip_digits_loop]. rewrite D2. discriminate.
Qed.
Lemma skip_digits_progress c t : skip_digits c t <> OutOfFuel.
Proof. unfold skip_digits, with_fuel. apply skip_digits_loop_progress. unfold t_fuel. lia. Qed.

(* the fuel is linear in what is left of the input *)
Lemma filter_len {A} (p : A -> bool) (l : list A) : (length (filter p l) <= length l)%nat.
Proof. induction l as [|a l IH]; cbn; [lia|]. destruct (p a); cbn; lia. Qed.
Lemma fuel_linear t : (t_fuel t <= length (t_in t) + length (t_buf t) + 2)%nat.
Proof.
  unfold t_fuel, t_rem. pose proof (filter_len (fun c => negb (c =? -1)%Z) (t_buf t)). lia.
Qed.
