(* TokenizerP.v — progress lemmas for the tokenizer model: the fuelled loops for
   whitespace, comments and digit runs never run out of fuel when the fuel
   exceeds the number of characters still to be read ([t_rem]); [t_fuel] is
   that number plus two. *)
From Coq Require Import String List NArith ZArith Bool Lia.
From IonV Require Import Base.Wire Base.Utf8 Text.Tokenizer Text.Skipper.
Import ListNotations.
Open Scope Z_scope.

(* ---- the measure under read / unread / peek ---------------------------------------------------- *)
Lemma rem_set_buf t b :
  t_rem (set_buf t b) = (length (t_in t) + length (filter (fun c => negb (c =? -1)%Z) b))%nat.
Proof. reflexivity. Qed.
Lemma rem_set_in t i :
  t_rem (set_in t i) = (length i + length (filter (fun c => negb (c =? -1)%Z) (t_buf t)))%nat.
Proof. reflexivity. Qed.

Lemma read_rem t c t' :
  t_read t = Ok (c, t') -> (t_rem t' <= t_rem t)%nat /\ (c <> -1 -> (t_rem t' < t_rem t)%nat).
Proof.
  unfold t_read. destruct (t_buf t) as [|b bs] eqn:Eb.
  - destruct (t_in t) as [|i is] eqn:Ei.
    + destruct (t_ioerr t); [discriminate|]. intros E; injection E as <- <-. split; [lia|congruence].
    + destruct (i =? 13)%N.
      * destruct is as [|i2 is2].
        -- destruct (t_ioerr t); [discriminate|]. intros E; injection E as <- <-.
           rewrite rem_set_in. unfold t_rem. rewrite Ei, Eb. cbn. split; lia.
        -- destruct (i2 =? 10)%N; intros E; injection E as <- <-;
             rewrite rem_set_in; unfold t_rem; rewrite Ei, Eb; cbn; split; lia.
      * intros E; injection E as <- <-. rewrite rem_set_in. unfold t_rem. rewrite Ei, Eb. cbn. split; lia.
  - intros E; injection E as <- <-. rewrite rem_set_buf. unfold t_rem. rewrite Eb. cbn [filter].
    destruct (b =? -1) eqn:B; cbn [negb length]; split; try lia.
    all: try (apply Z.eqb_eq in B; congruence).
Qed.

Lemma read_not_oof t : t_read t <> OutOfFuel.
Proof.
  unfold t_read. destruct (t_buf t); [|discriminate]. destruct (t_in t) as [|i is]; [destruct (t_ioerr t); discriminate|].
  destruct (i =? 13)%N; [|discriminate]. destruct is as [|i2 is2]; [destruct (t_ioerr t); discriminate|].
  destruct (i2 =? 10)%N; discriminate.
Qed.
Lemma peek_not_oof t : t_peek t <> OutOfFuel.
Proof.
  unfold t_peek. destruct (t_buf t); [|discriminate]. unfold mbind.
  pose proof (read_not_oof t). destruct (t_read t) as [[c t1]| | |]; try discriminate; try congruence.
Qed.

Lemma unread_rem c t u t' :
  t_unread c t = Ok (u, t') -> (t_rem t' <= S (t_rem t))%nat /\ (c = -1 -> t_rem t' = t_rem t).
Proof.
  unfold t_unread. intros E; injection E as _ <-. rewrite rem_set_buf. unfold t_rem. cbn [filter].
  destruct (c =? -1) eqn:B; cbn [negb length]; split; try lia.
  all: try (intros ->; discriminate).
Qed.

Lemma peek_rem t c t' : t_peek t = Ok (c, t') -> (t_rem t' <= t_rem t)%nat.
Proof.
  unfold t_peek. destruct (t_buf t) as [|b bs] eqn:Eb.
  - unfold mbind. destruct (t_read t) as [[c1 t1]| | |] eqn:Er; try discriminate.
    destruct (t_unread c1 t1) as [[u t2]| | |] eqn:Eu; try discriminate.
    unfold ret. intros E; injection E as <- <-.
    destruct (read_rem _ _ _ Er) as [H1 H2]. destruct (unread_rem _ _ _ _ Eu) as [H3 H4].
    destruct (Z.eq_dec c1 (-1)) as [->|Hn]; [rewrite H4; [exact H1|reflexivity]|].
    specialize (H2 Hn). lia.
  - intros E; injection E as <- <-. lia.
Qed.

(* ---- comments ------------------------------------------------------------------------------------ *)
Lemma single_line_progress : forall fuel t,
  (t_rem t < fuel)%nat ->
  skip_single_line_comment fuel t <> OutOfFuel /\
  (forall u t', skip_single_line_comment fuel t = Ok (u, t') -> (t_rem t' <= t_rem t)%nat).
Proof.
  induction fuel as [|f IH]; intros t Hf; [lia|].
  cbn [skip_single_line_comment]. unfold mbind.
  destruct (t_read t) as [[c t1]| | |] eqn:Er; try (split; [discriminate|intros; discriminate]);
    try (exfalso; exact (read_not_oof _ Er)).
  destruct (read_rem _ _ _ Er) as [H1 H2].
  destruct ((c =? -1) || (c =? c_nl)) eqn:B.
  - unfold ret. split; [discriminate|]. intros u t' E; injection E as _ <-. exact H1.
  - apply orb_false_elim in B as [B _]. apply Z.eqb_neq in B. specialize (H2 B).
    destruct (IH t1 ltac:(lia)) as [I1 I2]. split; [exact I1|].
    intros u t' E. specialize (I2 u t' E). lia.
Qed.

Lemma block_progress : forall fuel star t,
  (t_rem t < fuel)%nat ->
  skip_block_comment fuel star t <> OutOfFuel /\
  (forall u t', skip_block_comment fuel star t = Ok (u, t') -> (t_rem t' <= t_rem t)%nat).
Proof.
  induction fuel as [|f IH]; intros star t Hf; [lia|].
  cbn [skip_block_comment]. unfold mbind.
  destruct (t_read t) as [[c t1]| | |] eqn:Er; try (split; [discriminate|intros; discriminate]);
    try (exfalso; exact (read_not_oof _ Er)).
  destruct (read_rem _ _ _ Er) as [H1 H2].
  destruct (c =? -1) eqn:B; [unfold fail; split; [discriminate|intros; discriminate]|].
  apply Z.eqb_neq in B. specialize (H2 B).
  destruct (star && (c =? c_slash)).
  - unfold ret. split; [discriminate|]. intros u t' E; injection E as _ <-. exact H1.
  - destruct (IH (c =? c_star) t1 ltac:(lia)) as [I1 I2]. split; [exact I1|].
    intros u t' E. specialize (I2 u t' E). lia.
Qed.

Lemma handler_progress h t :
  run_handler h t <> OutOfFuel /\
  (forall b t', run_handler h t = Ok (b, t') -> (t_rem t' <= t_rem t)%nat).
Proof.
  destruct h; cbn [run_handler].
  - unfold mbind. destruct (t_peek t) as [[c t1]| | |] eqn:Ep; try (split; [discriminate|intros; discriminate]);
      try (exfalso; exact (peek_not_oof _ Ep)).
    pose proof (peek_rem _ _ _ Ep) as H1.
    destruct (c =? c_slash).
    + unfold with_fuel. destruct (single_line_progress (t_fuel t1) t1 ltac:(unfold t_fuel; lia)) as [I1 I2].
      destruct (skip_single_line_comment (t_fuel t1) t1) as [[u t2]| | |] eqn:Es;
        try (split; [discriminate|intros; discriminate]); [|congruence].
      unfold ret. split; [discriminate|]. intros b t' E; injection E as _ <-. specialize (I2 _ _ eq_refl). lia.
    + destruct (c =? c_star).
      * destruct (t_read t1) as [[c0 t0]| | |] eqn:Er0; try (split; [discriminate|intros; discriminate]);
          try (exfalso; exact (read_not_oof _ Er0)).
        destruct (read_rem _ _ _ Er0) as [H0 _].
        unfold with_fuel. destruct (block_progress (t_fuel t0) false t0 ltac:(unfold t_fuel; lia)) as [I1 I2].
        destruct (skip_block_comment (t_fuel t0) false t0) as [[u t2]| | |] eqn:Es;
          try (split; [discriminate|intros; discriminate]); [|congruence].
        unfold ret. split; [discriminate|]. intros b t' E; injection E as _ <-. specialize (I2 _ _ eq_refl). lia.
      * unfold ret. split; [discriminate|]. intros b t' E; injection E as _ <-. exact H1.
  - unfold ret. split; [discriminate|]. intros b t' E; injection E as _ <-. lia.
  - unfold fail. split; [discriminate|intros; discriminate].
Qed.

(* ---- whitespace ------------------------------------------------------------------------------------- *)
Lemma ws_not_eof c : is_whitespace c = true -> c <> -1.
Proof. intros H ->. discriminate. Qed.

Lemma whitespace_progress : forall fuel h sk t,
  (t_rem t < fuel)%nat ->
  skip_whitespace_with fuel h sk t <> OutOfFuel /\
  (forall r t', skip_whitespace_with fuel h sk t = Ok (r, t') -> (t_rem t' <= t_rem t)%nat).
Proof.
  induction fuel as [|f IH]; intros h sk t Hf; [lia|].
  cbn [skip_whitespace_with]. unfold mbind.
  destruct (t_read t) as [[c t1]| | |] eqn:Er; try (split; [discriminate|intros; discriminate]);
    try (exfalso; exact (read_not_oof _ Er)).
  destruct (read_rem _ _ _ Er) as [H1 H2].
  destruct (is_whitespace c) eqn:W.
  - specialize (H2 (ws_not_eof c W)).
    destruct (IH h true t1 ltac:(lia)) as [I1 I2]. split; [exact I1|].
    intros r t' E. specialize (I2 r t' E). lia.
  - destruct (c =? c_slash) eqn:S.
    + apply Z.eqb_eq in S. assert (Hc : c <> -1) by (rewrite S; discriminate). specialize (H2 Hc).
      destruct (handler_progress h t1) as [G1 G2].
      destruct (run_handler h t1) as [[b t2]| | |] eqn:Eh;
        try (split; [discriminate|intros; discriminate]); [|congruence].
      specialize (G2 _ _ eq_refl).
      destruct b.
      * destruct (IH h true t2 ltac:(lia)) as [I1 I2]. split; [exact I1|].
        intros r t' E. specialize (I2 r t' E). lia.
      * unfold ret. split; [discriminate|]. intros r t' E; injection E as _ <-. lia.
    + unfold ret. split; [discriminate|]. intros r t' E; injection E as _ <-. exact H1.
Qed.

(* skipWhitespace / skipLobWhitespace / the clob variant, with the fuel the model gives them *)
Lemma skip_whitespace_h_progress h t : t_skip_whitespace_h h t <> OutOfFuel.
Proof. unfold t_skip_whitespace_h, with_fuel. apply whitespace_progress. unfold t_fuel. lia. Qed.

(* ---- digit runs ----------------------------------------------------------------------------------------- *)
Lemma radix_digits_progress : forall fuel valid w t,
  valid (-1) = false ->
  (t_rem t < fuel)%nat ->
  read_radix_digits fuel valid w t <> OutOfFuel.
Proof.
  induction fuel as [|f IH]; intros valid w t Hv Hf; [lia|].
  cbn [read_radix_digits]. unfold mbind.
  destruct (t_read t) as [[c t1]| | |] eqn:Er; try discriminate; try (exfalso; exact (read_not_oof _ Er)).
  destruct (read_rem _ _ _ Er) as [H1 H2].
  destruct (c =? c_under) eqn:U.
  - apply Z.eqb_eq in U. assert (Hc : c <> -1) by (rewrite U; discriminate). specialize (H2 Hc).
    destruct (t_peek t1) as [[nx t2]| | |] eqn:Ep; try discriminate; try (exfalso; exact (peek_not_oof _ Ep)).
    pose proof (peek_rem _ _ _ Ep). destruct (negb (valid nx)); [discriminate|].
    apply IH; [exact Hv|lia].
  - destruct (valid c) eqn:V; cbn [negb]; [|discriminate].
    assert (Hc : c <> -1) by (intros ->; congruence). specialize (H2 Hc).
    apply IH; [exact Hv|lia].
Qed.
Lemma read_digits_progress c w t : read_digits c w t <> OutOfFuel.
Proof.
  unfold read_digits. destruct (negb (is_digit c)); [discriminate|].
  unfold with_fuel. apply radix_digits_progress; [reflexivity|unfold t_fuel; lia].
Qed.

Lemma skip_digits_loop_progress : forall fuel c t,
  (S (t_rem t) < fuel)%nat -> skip_digits_loop fuel c t <> OutOfFuel.
Proof.
  induction fuel as [|f IH]; intros c t Hf; [lia|].
  cbn [skip_digits_loop]. destruct (is_digit c) eqn:D; [|discriminate].
  unfold mbind. destruct (t_read t) as [[c2 t1]| | |] eqn:Er; try discriminate; try (exfalso; exact (read_not_oof _ Er)).
  destruct (read_rem _ _ _ Er) as [H1 H2].
  destruct (is_digit c2) eqn:D2.
  - assert (Hc : c2 <> -1) by (intros ->; discriminate). specialize (H2 Hc). apply IH. lia.
  - destruct f; [lia|]. cbn [skip_digits_loop]. rewrite D2. discriminate.
Qed.
Lemma skip_digits_progress c t : skip_digits c t <> OutOfFuel.
Proof. unfold skip_digits, with_fuel. apply skip_digits_loop_progress. unfold t_fuel. lia. Qed.

(* the fuel is linear in what is left of the input *)
Lemma filter_len {A} (p : A -> bool) (l : list A) : (length (filter p l) <= length l)%nat.
Proof. induction l as [|a l IH]; cbn; [lia|]. destruct (p a); cbn; lia. Qed.
Lemma fuel_linear t : (t_fuel t <= length (t_in t) + length (t_buf t) + 2)%nat.
Proof.
  unfold t_fuel, t_rem. pose proof (filter_len (fun c => negb (c =? -1)%Z) (t_buf t)). lia.
Qed.

(* ---- no operation of the string / lob / container-skipping code runs out of fuel --------------------------------- *)
(* [ni m t]: from [t], [m] does not run out of fuel and does not give characters back *)
Definition ni {A} (m : M A) (t : tstate) : Prop :=
  match m t with
  | Ok (_, t') => (t_rem t' <= t_rem t)%nat
  | OutOfFuel => False
  | _ => True
  end.
Definition nonincr {A} (m : M A) : Prop := forall t, ni m t.

Lemma ni_ret {A} (a : A) t : ni (ret a) t. Proof. unfold ni, ret. lia. Qed.
Lemma ni_fail {A} t : ni (@fail A) t. Proof. exact I. Qed.
Lemma ni_bind {A B} (m : M A) (k : A -> M B) t :
  ni m t -> (forall a t1, m t = Ok (a, t1) -> ni (k a) t1) -> ni (mbind m k) t.
Proof.
  unfold ni, mbind. intros Hm Hk. destruct (m t) as [[a t1]| | |]; auto.
  specialize (Hk a t1 eq_refl). destruct (k a t1) as [[b t2]| | |]; auto. lia.
Qed.
Lemma nonincr_bind {A B} (m : M A) (k : A -> M B) : nonincr m -> (forall a, nonincr (k a)) -> nonincr (mbind m k).
Proof. intros Hm Hk t. apply ni_bind; [apply Hm|intros; apply Hk]. Qed.
Lemma nonincr_read : nonincr t_read.
Proof.
  intros t. unfold ni. pose proof (read_not_oof t). destruct (t_read t) as [[c t1]| | |] eqn:E; auto.
  apply (read_rem _ _ _ E).
Qed.
Lemma nonincr_peek : nonincr t_peek.
Proof.
  intros t. unfold ni. pose proof (peek_not_oof t). destruct (t_peek t) as [[c t1]| | |] eqn:E; auto.
  apply (peek_rem _ _ _ E).
Qed.
(* reading a character that is not EOF leaves room for one more loop iteration *)
Lemma ni_read_loop {A} (k : Z -> M A) fuel t :
  (t_rem t < S fuel)%nat ->
  (forall c t1, (t_rem t1 <= t_rem t)%nat -> (c <> -1 -> (t_rem t1 < fuel)%nat) -> ni (k c) t1) ->
  ni (mbind t_read k) t.
Proof.
  intros Hf Hk. apply ni_bind; [apply nonincr_read|]. intros c t1 E.
  destruct (read_rem _ _ _ E) as [H1 H2]. apply Hk; [exact H1|]. intros Hc. specialize (H2 Hc). lia.
Qed.
Lemma ni_weaken {A} (m : M A) t : ni m t -> ni m t. Proof. auto. Qed.
Lemma nonincr_with_fuel {A} (g : nat -> M A) :
  (forall f t, (t_rem t < f)%nat -> ni (g f) t) -> nonincr (with_fuel g).
Proof. intros H t. unfold with_fuel. apply H. unfold t_fuel. lia. Qed.

(* look-ahead gives back exactly what it took *)
Lemma unread_all_rem : forall l t, (forall c, In c l -> c <> -1) ->
  exists t', unread_all l t = Ok (tt, t') /\ t_rem t' = (t_rem t + length l)%nat.
Proof.
  induction l as [|c l IH]; intros t Hl; cbn [unread_all].
  - exists t. split; [reflexivity|cbn; lia].
  - unfold mbind. destruct (t_unread c t) as [[u t1]| | |] eqn:E; try discriminate E.
    assert (R1 : t_rem t1 = S (t_rem t)).
    { unfold t_unread in E. injection E as _ <-. rewrite rem_set_buf. unfold t_rem. cbn [filter].
      assert (Hc : (c =? -1) = false) by (apply Z.eqb_neq, Hl; left; reflexivity). rewrite Hc. cbn. lia. }
    destruct (IH t1 (fun c0 H => Hl c0 (or_intror H))) as [t' [E' R']]. exists t'. split; [exact E'|].
    rewrite R', R1. cbn. lia.
Qed.
Lemma peekN_loop_rem : forall n acc t cs e t1,
  (forall c, In c acc -> c <> -1) ->
  peekN_loop n acc t = Ok ((cs, e), t1) ->
  (forall c, In c cs -> c <> -1) /\ (t_rem t1 + length cs <= t_rem t + length acc)%nat.
Proof.
  induction n as [|n IH]; intros acc t cs e t1 Ha; cbn [peekN_loop].
  - unfold ret. intros E; injection E as <- <- <-. split; [intros c H; apply Ha; rewrite in_rev; exact H|rewrite rev_length; lia].
  - unfold mbind. destruct (t_read t) as [[c t0]| | |] eqn:Er; try discriminate.
    destruct (read_rem _ _ _ Er) as [R1 R2].
    destruct (c =? -1) eqn:C.
    + unfold ret. intros E; injection E as <- <- <-. split; [intros c0 H; apply Ha; rewrite in_rev; exact H|rewrite rev_length; lia].
    + apply Z.eqb_neq in C. specialize (R2 C). intros E. apply IH in E.
      * destruct E as [E1 E2]. split; [exact E1|]. cbn [length] in E2. lia.
      * intros c0 [<-|H]; [exact C|apply Ha; exact H].
Qed.
Lemma nonincr_peekN n : nonincr (t_peekN n).
Proof.
  intros t. unfold ni, t_peekN, mbind.
  destruct (peekN_loop n [] t) as [[[cs e] t1]| | |] eqn:E1.
  - apply peekN_loop_rem in E1; [|intros c []]. destruct E1 as [Hcs R1]. cbn [length] in R1.
    set (t2 := if e then set_buf t1 (-1 :: t_buf t1) else t1).
    assert (E2 : (if e then t_unread (-1) else ret tt) t1 = Ok (tt, t2)) by (destruct e; reflexivity).
    assert (R2 : t_rem t2 = t_rem t1) by (subst t2; destruct e; reflexivity).
    rewrite E2. destruct (unread_all_rem (rev cs) t2) as [t3 [E3 R3]].
    { intros c H. apply Hcs. rewrite in_rev. exact H. }
    rewrite E3. unfold ret. rewrite R3, R2, rev_length. lia.
  - exact I.
  - exact I.
  - (* the look-ahead loop is structural: it cannot run out of fuel *)
    exfalso. revert E1. generalize (@nil Z). generalize t. induction n as [|n IH]; intros t0 acc; cbn [peekN_loop]; [discriminate|].
    unfold mbind. pose proof (read_not_oof t0). destruct (t_read t0) as [[c t4]| | |]; try discriminate; try congruence.
    destruct (c =? -1); [discriminate|apply IH].
Qed.
Lemma nonincr_skipN : forall n, nonincr (t_skipN n).
Proof.
  induction n as [|n IH]; intros t; cbn [t_skipN]; [apply ni_ret|].
  apply ni_bind; [apply nonincr_read|]. intros c t1 _. destruct (c =? -1); [apply ni_ret|apply IH].
Qed.
Lemma nonincr_is_triple_quote : nonincr t_is_triple_quote.
Proof.
  intros t. unfold t_is_triple_quote. apply ni_bind; [apply nonincr_peekN|]. intros [cs e] t1 _.
  destruct e; [apply ni_ret|]. destruct ((znth cs 0 =? c_quote) && (znth cs 1 =? c_quote)); [|apply ni_ret].
  apply ni_bind; [apply nonincr_skipN|]. intros; apply ni_ret.
Qed.
Lemma nonincr_expect f : nonincr (t_expect f).
Proof. intros t. unfold t_expect. apply ni_bind; [apply nonincr_read|]. intros c t1 _. destruct (f c); [apply ni_ret|exact I]. Qed.

(* whitespace: the character handed back to the caller has been consumed *)
Definition wt (c : Z) : nat := if c =? -1 then O else 1%nat.
Lemma whitespace_hand : forall fuel h sk t,
  (t_rem t < fuel)%nat ->
  match skip_whitespace_with fuel h sk t with
  | Ok ((c, _), t') => (t_rem t' + wt c <= t_rem t)%nat
  | OutOfFuel => False
  | _ => True
  end.
Proof.
  induction fuel as [|f IH]; intros h sk t Hf; [lia|].
  cbn [skip_whitespace_with]. unfold mbind.
  destruct (t_read t) as [[c t1]| | |] eqn:Er; try exact I; try (exfalso; exact (read_not_oof _ Er)).
  destruct (read_rem _ _ _ Er) as [H1 H2].
  destruct (is_whitespace c) eqn:W.
  - specialize (H2 (ws_not_eof c W)). specialize (IH h true t1 ltac:(lia)).
    destruct (skip_whitespace_with f h true t1) as [[[c' s'] t']| | |]; auto. lia.
  - destruct (c =? c_slash) eqn:S.
    + apply Z.eqb_eq in S. assert (Hc : c <> -1) by (rewrite S; discriminate). specialize (H2 Hc).
      destruct (handler_progress h t1) as [G1 G2].
      destruct (run_handler h t1) as [[b t2]| | |] eqn:Eh; try exact I; [|congruence].
      specialize (G2 _ _ eq_refl). destruct b.
      * specialize (IH h true t2 ltac:(lia)).
        destruct (skip_whitespace_with f h true t2) as [[[c' s'] t']| | |]; auto. lia.
      * unfold ret. cbn. lia.
    + unfold ret. unfold wt. destruct (c =? -1) eqn:C; [lia|]. apply Z.eqb_neq in C. specialize (H2 C). lia.
Qed.
Lemma nonincr_skip_whitespace_h h : nonincr (t_skip_whitespace_h h).
Proof.
  intros t. unfold ni, t_skip_whitespace_h, with_fuel.
  pose proof (whitespace_hand (t_fuel t) h false t ltac:(unfold t_fuel; lia)) as H.
  destruct (skip_whitespace_with (t_fuel t) h false t) as [[[c s'] t']| | |]; auto. lia.
Qed.
Lemma unread_wt c t : exists t', t_unread c t = Ok (tt, t') /\ t_rem t' = (t_rem t + wt c)%nat.
Proof.
  exists (set_buf t (c :: t_buf t)). split; [reflexivity|]. rewrite rem_set_buf. unfold t_rem, wt. cbn [filter].
  destruct (c =? -1); cbn; lia.
Qed.
Lemma nonincr_end_of_long_string h : nonincr (t_skip_end_of_long_string h).
Proof.
  intros t. unfold t_skip_end_of_long_string. apply ni_bind; [apply nonincr_peekN|]. intros [cs e] t1 _.
  match goal with |- ni (if ?b then _ else _) _ => destruct b end; [apply ni_ret|].
  apply ni_bind; [apply nonincr_skipN|]. intros u t2 _.
  unfold ni, mbind at 1, t_skip_whitespace_h, with_fuel.
  pose proof (whitespace_hand (t_fuel t2) h false t2 ltac:(unfold t_fuel; lia)) as H.
  destruct (skip_whitespace_with (t_fuel t2) h false t2) as [[[c s'] t3]| | |]; auto.
  unfold mbind at 1.
  assert (Hq : ni (if c =? c_quote then t_is_triple_quote else ret false) t3)
    by (destruct (c =? c_quote); [apply nonincr_is_triple_quote|apply ni_ret]).
  unfold ni in Hq. destruct ((if c =? c_quote then t_is_triple_quote else ret false) t3) as [[again t4]| | |] eqn:Eq; auto.
  destruct again; [unfold ret; lia|].
  (* not another segment: then nothing was consumed by the test, and c is given back *)
  unfold mbind. destruct (unread_wt c t4) as [t5 [E5 R5]]. rewrite E5. unfold ret. rewrite R5. lia.
Qed.

Lemma nonincr_hex_escape : forall n v, nonincr (read_hex_escape_seq n v).
Proof.
  induction n as [|n IH]; intros v t; cbn [read_hex_escape_seq]; [apply ni_ret|].
  apply ni_bind; [apply nonincr_read|]. intros c t1 _. destruct (from_hex c); [apply IH|exact I].
Qed.
Lemma nonincr_surrogate_pair hi : nonincr (read_surrogate_pair hi).
Proof.
  intros t. unfold read_surrogate_pair. destruct (56320 <=? hi); [exact I|].
  apply ni_bind; [apply nonincr_expect|]. intros u1 t1 _.
  apply ni_bind; [apply nonincr_expect|]. intros u2 t2 _.
  apply ni_bind; [apply nonincr_hex_escape|]. intros lo t3 _.
  match goal with |- ni (if ?b then _ else _) _ => destruct b end; [exact I|apply ni_ret].
Qed.
Lemma nonincr_escaped_char k : nonincr (read_escaped_char k).
Proof.
  intros t. unfold read_escaped_char. apply ni_bind; [apply nonincr_read|]. intros c t1 _.
  destruct (simple_escape c); [apply ni_ret|].
  destruct (c =? 85).
  { destruct k; [exact I|]. apply ni_bind; [apply nonincr_hex_escape|]. intros r t2 _.
    match goal with |- ni (if ?b then _ else _) _ => destruct b end; [exact I|apply ni_ret]. }
  destruct (c =? 117).
  { destruct k; [exact I|]. apply ni_bind; [apply nonincr_hex_escape|]. intros r t2 _.
    destruct (is_surrogate r); [apply nonincr_surrogate_pair|apply ni_ret]. }
  destruct (c =? 120); [apply nonincr_hex_escape|exact I].
Qed.
Lemma nonincr_backslash k : nonincr (process_backslash k).
Proof.
  intros t. unfold process_backslash. apply ni_bind; [apply nonincr_peek|]. intros c t1 _.
  destruct (c =? c_nl).
  - apply ni_bind; [apply nonincr_read|]. intros; apply ni_ret.
  - apply ni_bind; [apply nonincr_escaped_char|]. intros; apply ni_ret.
Qed.

Lemma ni_check_utf8 v t : ni (check_utf8 v) t.
Proof. unfold check_utf8. destruct (utf8_valid v); [apply ni_ret|exact I]. Qed.

Lemma string_loop_progress : forall fuel w t, (t_rem t < fuel)%nat -> ni (read_string_loop fuel w) t.
Proof.
  induction fuel as [|f IH]; intros w t Hf; [lia|]. cbn [read_string_loop].
  apply (ni_read_loop _ f); [exact Hf|]. intros c t1 R1 R2.
  destruct (Z.eq_dec c (-1)) as [->|Hc]; [exact I|]. specialize (R2 Hc).
  match goal with |- ni (if ?b then _ else _) _ => destruct b end; [exact I|].
  destruct (c =? c_dquote); [apply ni_check_utf8|].
  destruct (c =? c_bslash); [|apply IH; exact R2].
  apply ni_bind; [apply nonincr_backslash|]. intros bs t2 E2.
  pose proof (nonincr_backslash false t1) as H. unfold ni in H. rewrite E2 in H. apply IH. lia.
Qed.
Lemma clob_loop_progress : forall fuel w t, (t_rem t < fuel)%nat -> ni (read_clob_loop fuel w) t.
Proof.
  induction fuel as [|f IH]; intros w t Hf; [lia|]. cbn [read_clob_loop].
  apply (ni_read_loop _ f); [exact Hf|]. intros c t1 R1 R2.
  destruct (Z.eq_dec c (-1)) as [->|Hc]; [exact I|]. specialize (R2 Hc).
  match goal with |- ni (if ?b then _ else _) _ => destruct b end; [exact I|].
  destruct (c =? c_dquote); [apply ni_ret|].
  destruct (c =? c_bslash); [|apply IH; exact R2].
  apply ni_bind; [apply nonincr_backslash|]. intros bs t2 E2.
  pose proof (nonincr_backslash true t1) as H. unfold ni in H. rewrite E2 in H. apply IH. lia.
Qed.
Lemma quoted_symbol_loop_progress : forall fuel w t, (t_rem t < fuel)%nat -> ni (read_quoted_symbol_loop fuel w) t.
Proof.
  induction fuel as [|f IH]; intros w t Hf; [lia|]. cbn [read_quoted_symbol_loop].
  apply (ni_read_loop _ f); [exact Hf|]. intros c t1 R1 R2.
  destruct (Z.eq_dec c (-1)) as [->|Hc]; [exact I|]. specialize (R2 Hc).
  match goal with |- ni (if ?b then _ else _) _ => destruct b end; [exact I|].
  match goal with |- ni (if ?b then _ else _) _ => destruct b end; [exact I|].
  destruct (c =? c_quote); [apply ni_check_utf8|].
  destruct (c =? c_bslash); [|apply IH; exact R2].
  apply ni_bind; [apply nonincr_peek|]. intros c2 t2 E2.
  pose proof (nonincr_peek t1) as H. unfold ni in H. rewrite E2 in H.
  destruct (c2 =? c_nl).
  - apply ni_bind; [apply nonincr_read|]. intros c3 t3 E3.
    pose proof (nonincr_read t2) as H3. unfold ni in H3. rewrite E3 in H3. apply IH. lia.
  - apply ni_bind; [apply nonincr_escaped_char|]. intros r t3 E3.
    pose proof (nonincr_escaped_char false t2) as H3. unfold ni in H3. rewrite E3 in H3. apply IH. lia.
Qed.
Lemma long_string_loop_progress : forall fuel w seg t, (t_rem t < fuel)%nat -> ni (read_long_string_loop fuel w seg) t.
Proof.
  induction fuel as [|f IH]; intros w seg t Hf; [lia|]. cbn [read_long_string_loop].
  apply (ni_read_loop _ f); [exact Hf|]. intros c t1 R1 R2.
  destruct (Z.eq_dec c (-1)) as [->|Hc]; [exact I|]. specialize (R2 Hc).
  match goal with |- ni (if ?b then _ else _) _ => destruct b end; [exact I|].
  destruct (c =? c_quote).
  { apply ni_bind; [apply nonincr_end_of_long_string|]. intros [e cns] t2 E2.
    pose proof (nonincr_end_of_long_string HSkipComments t1) as H. unfold ni in H. rewrite E2 in H.
    destruct cns.
    - destruct (negb (utf8_valid (rev seg))); [exact I|]. destruct e; [apply ni_ret|apply IH; lia].
    - destruct e; [apply ni_ret|apply IH; lia]. }
  destruct (c =? c_bslash); [|apply IH; exact R2].
  apply ni_bind; [apply nonincr_backslash|]. intros bs t2 E2.
  pose proof (nonincr_backslash false t1) as H. unfold ni in H. rewrite E2 in H. apply IH. lia.
Qed.
Lemma long_clob_loop_progress : forall fuel w t, (t_rem t < fuel)%nat -> ni (read_long_clob_loop fuel w) t.
Proof.
  induction fuel as [|f IH]; intros w t Hf; [lia|]. cbn [read_long_clob_loop].
  apply (ni_read_loop _ f); [exact Hf|]. intros c t1 R1 R2.
  destruct (Z.eq_dec c (-1)) as [->|Hc]; [exact I|]. specialize (R2 Hc).
  match goal with |- ni (if ?b then _ else _) _ => destruct b end; [exact I|].
  destruct (c =? c_quote).
  { apply ni_bind; [apply nonincr_end_of_long_string|]. intros [e cns] t2 E2.
    pose proof (nonincr_end_of_long_string HEnsureNoComments t1) as H. unfold ni in H. rewrite E2 in H.
    destruct e; [apply ni_ret|]. destruct (negb cns); apply IH; lia. }
  destruct (c =? c_bslash); [|apply IH; exact R2].
  apply ni_bind; [apply nonincr_backslash|]. intros bs t2 E2.
  pose proof (nonincr_backslash true t1) as H. unfold ni in H. rewrite E2 in H. apply IH. lia.
Qed.

(* skipper.go *)
Lemma skip_quoted_progress : forall fuel q t, (t_rem t < fuel)%nat -> ni (skip_quoted_helper fuel q) t.
Proof.
  induction fuel as [|f IH]; intros q t Hf; [lia|]. cbn [skip_quoted_helper].
  apply (ni_read_loop _ f); [exact Hf|]. intros c t1 R1 R2.
  destruct (Z.eq_dec c (-1)) as [->|Hc]; [exact I|]. specialize (R2 Hc).
  match goal with |- ni (if ?b then _ else _) _ => destruct b end; [exact I|].
  destruct (c =? q); [apply ni_ret|].
  destruct (c =? c_bslash); [|apply IH; exact R2].
  apply ni_bind; [apply nonincr_read|]. intros c3 t3 E3.
  pose proof (nonincr_read t1) as H3. unfold ni in H3. rewrite E3 in H3. apply IH. lia.
Qed.
Lemma nonincr_skip_string_helper : nonincr skip_string_helper.
Proof. apply nonincr_with_fuel. intros; apply skip_quoted_progress; assumption. Qed.
Lemma nonincr_skip_symbol_quoted_helper : nonincr skip_symbol_quoted_helper.
Proof. apply nonincr_with_fuel. intros; apply skip_quoted_progress; assumption. Qed.
Lemma skip_long_string_progress : forall fuel h t, (t_rem t < fuel)%nat -> ni (skip_long_string_loop fuel h) t.
Proof.
  induction fuel as [|f IH]; intros h t Hf; [lia|]. cbn [skip_long_string_loop].
  apply (ni_read_loop _ f); [exact Hf|]. intros c t1 R1 R2.
  destruct (Z.eq_dec c (-1)) as [->|Hc]; [exact I|]. specialize (R2 Hc).
  destruct (c =? -1); [exact I|].
  destruct (c =? c_quote).
  { apply ni_bind; [apply nonincr_end_of_long_string|]. intros [e cns] t2 E2.
    pose proof (nonincr_end_of_long_string h t1) as H. unfold ni in H. rewrite E2 in H.
    destruct e; [apply ni_ret|apply IH; lia]. }
  destruct (c =? c_bslash); [|apply IH; exact R2].
  apply ni_bind; [apply nonincr_read|]. intros c3 t3 E3.
  pose proof (nonincr_read t1) as H3. unfold ni in H3. rewrite E3 in H3. apply IH. lia.
Qed.
Lemma nonincr_skip_long_string_helper h : nonincr (skip_long_string_helper h).
Proof. apply nonincr_with_fuel. intros; apply skip_long_string_progress; assumption. Qed.

Lemma lob_whitespace_hand t :
  match t_skip_lob_whitespace t with
  | Ok ((c, _), t') => (t_rem t' + wt c <= t_rem t)%nat
  | OutOfFuel => False
  | _ => True
  end.
Proof. unfold t_skip_lob_whitespace, with_fuel. apply whitespace_hand. unfold t_fuel. lia. Qed.
Lemma skip_whitespace_hand t :
  match t_skip_whitespace t with
  | Ok ((c, _), t') => (t_rem t' + wt c <= t_rem t)%nat
  | OutOfFuel => False
  | _ => True
  end.
Proof. unfold t_skip_whitespace, with_fuel. apply whitespace_hand. unfold t_fuel. lia. Qed.

Lemma skip_blob_loop_progress : forall fuel c t, (t_rem t < fuel)%nat -> ni (skip_blob_loop fuel c) t.
Proof.
  induction fuel as [|f IH]; intros c t Hf; [lia|]. cbn [skip_blob_loop].
  destruct (c =? c_rbrace); [apply ni_ret|].
  unfold ni, mbind. pose proof (lob_whitespace_hand t) as H.
  destruct (t_skip_lob_whitespace t) as [[[c2 s2] t1]| | |]; auto.
  destruct (c2 =? -1) eqn:C; [exact I|].
  assert (W : wt c2 = 1%nat) by (unfold wt; rewrite C; reflexivity).
  specialize (IH c2 t1 ltac:(lia)). unfold ni in IH.
  destruct (skip_blob_loop f c2 t1) as [[u t2]| | |]; auto. lia.
Qed.
Lemma nonincr_skip_lob_whitespace : nonincr t_skip_lob_whitespace.
Proof.
  intros t. unfold ni. pose proof (lob_whitespace_hand t) as H.
  destruct (t_skip_lob_whitespace t) as [[[c s0] t1]| | |]; auto. lia.
Qed.
Lemma nonincr_skip_blob_helper : nonincr skip_blob_helper.
Proof.
  intros t. unfold skip_blob_helper. apply ni_bind; [apply nonincr_skip_lob_whitespace|]. intros [c s0] t1 _.
  apply ni_bind.
  { destruct (c =? c_dquote).
    - apply ni_bind; [apply nonincr_skip_string_helper|]. intros u t2 _.
      apply ni_bind; [apply nonincr_skip_lob_whitespace|]. intros [c2 s2] t3 _. apply ni_ret.
    - destruct (c =? c_quote); [|apply ni_ret].
      apply ni_bind; [apply nonincr_is_triple_quote|]. intros ok t2 _.
      destruct (negb ok); [exact I|].
      apply ni_bind; [apply nonincr_skip_long_string_helper|]. intros u t3 _.
      apply ni_bind; [apply nonincr_skip_lob_whitespace|]. intros [c2 s2] t4 _. apply ni_ret. }
  intros c' t2 _.
  apply ni_bind; [apply nonincr_with_fuel; intros; apply skip_blob_loop_progress; assumption|].
  intros; apply nonincr_expect.
Qed.
Lemma read_blob_loop_progress : forall fuel w t, (t_rem t < fuel)%nat -> ni (read_blob_loop fuel w) t.
Proof.
  induction fuel as [|f IH]; intros w t Hf; [lia|]. cbn [read_blob_loop].
  unfold ni, mbind. pose proof (lob_whitespace_hand t) as H.
  destruct (t_skip_lob_whitespace t) as [[[c2 s2] t1]| | |]; auto.
  destruct (c2 =? -1) eqn:C; [exact I|].
  assert (W : wt c2 = 1%nat) by (unfold wt; rewrite C; reflexivity).
  destruct (c2 =? c_rbrace); [unfold ret; lia|].
  specialize (IH (byte_of c2 :: w) t1 ltac:(lia)). unfold ni in IH.
  destruct (read_blob_loop f (byte_of c2 :: w) t1) as [[u t2]| | |]; auto. lia.
Qed.

(* skipContainerHelper: nested containers, strings, symbols, lobs and comments inside; never out of fuel *)
Lemma skip_container_loop_progress : forall fuel top terms t,
  (t_rem t < fuel)%nat -> ni (skip_container_loop fuel top terms) t.
Proof.
  induction fuel as [|f IH]; intros top terms t Hf; [lia|]. cbn [skip_container_loop].
  unfold ni, mbind at 1. pose proof (skip_whitespace_hand t) as H.
  destruct (t_skip_whitespace t) as [[[c s0] t1]| | |]; auto.
  destruct (c =? -1) eqn:C; [exact I|].
  assert (W : wt c = 1%nat) by (unfold wt; rewrite C; reflexivity).
  assert (Hf1 : (t_rem t1 < f)%nat) by lia.
  (* every branch: something that does not give characters back, then the loop again *)
  assert (Hthen : forall (m : M unit) top' terms', ni m t1 -> ni (tdo _ <- m; skip_container_loop f top' terms') t1).
  { intros m top' terms' Hm. apply ni_bind; [exact Hm|]. intros u t2 E2. unfold ni in Hm. rewrite E2 in Hm. apply IH. lia. }
  assert (Hgoal : forall k : M unit, ni k t1 ->
            match k t1 with Ok (_, t') => (t_rem t' <= t_rem t)%nat | OutOfFuel => False | _ => True end).
  { intros k Hk. unfold ni in Hk. destruct (k t1) as [[u t2]| | |]; auto. lia. }
  destruct (c =? top).
  { destruct terms as [|t0 rest]; [unfold ret; lia|apply Hgoal, IH, Hf1]. }
  destruct (c =? c_dquote); [apply Hgoal, Hthen, nonincr_skip_string_helper|].
  destruct (c =? c_quote).
  { apply Hgoal. apply ni_bind; [apply nonincr_is_triple_quote|]. intros ok t2 E2.
    pose proof (nonincr_is_triple_quote t1) as H2. unfold ni in H2. rewrite E2 in H2.
    apply ni_bind; [destruct ok; [apply nonincr_skip_long_string_helper|apply nonincr_skip_symbol_quoted_helper]|].
    intros u t3 E3.
    assert (H3 : (t_rem t3 <= t_rem t2)%nat).
    { destruct ok; [pose proof (nonincr_skip_long_string_helper HSkipComments t2) as K|pose proof (nonincr_skip_symbol_quoted_helper t2) as K];
        unfold ni in K; rewrite E3 in K; exact K. }
    apply IH. lia. }
  destruct (c =? c_lparen); [apply Hgoal, IH, Hf1|].
  destruct (c =? c_lbracket); [apply Hgoal, IH, Hf1|].
  destruct (c =? c_lbrace); [|apply Hgoal, IH, Hf1].
  apply Hgoal. apply ni_bind; [apply nonincr_peek|]. intros c2 t2 E2.
  pose proof (nonincr_peek t1) as H2. unfold ni in H2. rewrite E2 in H2.
  destruct (c2 =? c_lbrace).
  - apply ni_bind; [apply nonincr_read|]. intros c3 t3 E3.
    pose proof (nonincr_read t2) as H3. unfold ni in H3. rewrite E3 in H3.
    apply ni_bind; [apply nonincr_skip_blob_helper|]. intros u t4 E4.
    pose proof (nonincr_skip_blob_helper t3) as H4. unfold ni in H4. rewrite E4 in H4. apply IH. lia.
  - destruct (c2 =? c_rbrace).
    + apply ni_bind; [apply nonincr_read|]. intros c3 t3 E3.
      pose proof (nonincr_read t2) as H3. unfold ni in H3. rewrite E3 in H3. apply IH. lia.
    + apply IH. lia.
Qed.
Lemma skip_container_progress : forall fuel term t, (t_rem t < fuel)%nat -> ni (skip_container_helper fuel term) t.
Proof. intros. unfold skip_container_helper. apply skip_container_loop_progress. assumption. Qed.
Lemma skip_container_contents_progress c t : t_skip_container_contents c t <> OutOfFuel.
Proof.
  pose proof (nonincr_with_fuel (fun f => skip_container_helper f (term_of c))
                (fun f t0 H => skip_container_progress f (term_of c) t0 H) t) as H.
  unfold ni in H. unfold t_skip_container_contents, t_skip_container_helper. intros E. rewrite E in H. exact H.
Qed.
Lemma read_string_progress t : read_string t <> OutOfFuel.
Proof.
  pose proof (nonincr_with_fuel (fun f => read_string_loop f []) (fun f t0 H => string_loop_progress f [] t0 H) t) as H.
  unfold ni in H. unfold read_string. intros E. rewrite E in H. exact H.
Qed.
Lemma read_long_string_progress t : read_long_string t <> OutOfFuel.
Proof.
  pose proof (nonincr_with_fuel (fun f => read_long_string_loop f [] []) (fun f t0 H => long_string_loop_progress f [] [] t0 H) t) as H.
  unfold ni in H. unfold read_long_string. intros E. rewrite E in H. exact H.
Qed.
Lemma read_quoted_symbol_progress t : read_quoted_symbol t <> OutOfFuel.
Proof.
  pose proof (nonincr_with_fuel (fun f => read_quoted_symbol_loop f []) (fun f t0 H => quoted_symbol_loop_progress f [] t0 H) t) as H.
  unfold ni in H. unfold read_quoted_symbol. intros E. rewrite E in H. exact H.
Qed.
Lemma read_clob_progress t : read_clob t <> OutOfFuel /\ read_long_clob t <> OutOfFuel.
Proof.
  split.
  - pose proof (nonincr_with_fuel (fun f => read_clob_loop f []) (fun f t0 H => clob_loop_progress f [] t0 H) t) as H.
    unfold ni in H. unfold read_clob. intros E. rewrite E in H. exact H.
  - pose proof (nonincr_with_fuel (fun f => read_long_clob_loop f []) (fun f t0 H => long_clob_loop_progress f [] t0 H) t) as H.
    unfold ni in H. unfold read_long_clob. intros E. rewrite E in H. exact H.
Qed.

(* readPlainDigits (exponents, fractional seconds) *)
Lemma plain_digits_loop_progress : forall fuel c w t,
  (S (t_rem t) < fuel)%nat -> read_plain_digits_loop fuel c w t <> OutOfFuel.
Proof.
  induction fuel as [|f IH]; intros c w t Hf; [lia|].
  cbn [read_plain_digits_loop]. destruct (is_digit c) eqn:D; [|discriminate].
  unfold mbind. destruct (t_read t) as [[c2 t1]| | |] eqn:Er; try discriminate; try (exfalso; exact (read_not_oof _ Er)).
  destruct (read_rem _ _ _ Er) as [H1 H2].
  destruct (is_digit c2) eqn:D2.
  - assert (Hc : c2 <> -1) by (intros ->; discriminate). specialize (H2 Hc). apply IH. lia.
  - destruct f; [lia|]. cbn [read_plain_digits_loop]. rewrite D2. discriminate.
Qed.
Lemma read_plain_digits_progress c w t : read_plain_digits c w t <> OutOfFuel.
Proof. unfold read_plain_digits, with_fuel. apply plain_digits_loop_progress. unfold t_fuel. lia. Qed.
