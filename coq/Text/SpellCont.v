(* SpellCont.v — C02, stage 8d: containers.  The punctuation tokens, the container branches of the reader's
   state handlers (nextBeforeTypeAnnotations on [ ( { ] ), nextAfterValue, nextBeforeFieldName), StepIn and
   StepOut, as triples over the abstraction of SpellRead. *)
From Coq Require Import String List NArith ZArith Bool Lia ZifyBool ZifyN ZifyNat.
From IonV Require Import Base.Wire Base.Utf8 Data.Ion Bin.Bits Bin.BitStream Bin.BinReader Num.Float Text.Tokenizer Text.Skipper
  Text.TextReader Text.TextNum Text.SpellBase Text.SpellWs Text.SpellNum Text.SpellTok Text.SpellRead
  Text.SpellEsc Text.SpellStr Text.SpellLong Text.SpellIdent Text.SpellSym Text.SpellTs Text.SpellBlob
  Text.SpellVal Text.SpellSymVal Text.SpellStream.
Import ListNotations.
Open Scope Z_scope.

(* ---- punctuation ----------------------------------------------------------------------------------------------------------- *)
Lemma runK_dispatch_simple c tok more rest k0 :
  next_dispatch c = t_ok tok more -> runK (next_dispatch c) (rest, k0, false) tt (rest, tok, more).
Proof. intros ->. apply runK_t_ok. Qed.
Lemma dispatch_lbracket : next_dispatch 91 = t_ok tokenOpenBracket true. Proof. reflexivity. Qed.
Lemma dispatch_rbracket : next_dispatch 93 = t_ok tokenCloseBracket false. Proof. reflexivity. Qed.
Lemma dispatch_lparen : next_dispatch 40 = t_ok tokenOpenParen true. Proof. reflexivity. Qed.
Lemma dispatch_rparen : next_dispatch 41 = t_ok tokenCloseParen false. Proof. reflexivity. Qed.
Lemma dispatch_rbrace : next_dispatch 125 = t_ok tokenCloseBrace false. Proof. reflexivity. Qed.
Lemma dispatch_comma : next_dispatch 44 = t_ok tokenComma false. Proof. reflexivity. Qed.
(* `{` not followed by another, `:` not followed by another *)
Lemma runK_dispatch_lbrace rest k0 : shead rest <> 123 ->
  runK (next_dispatch 123) (rest, k0, false) tt (spush rest, tokenOpenBrace, true).
Proof.
  intros H.
  change (next_dispatch 123) with
    (tdo c2 <- t_peek; if c2 =? c_lbrace then tdo _ <- t_read; t_ok tokenOpenDoubleBrace true else t_ok tokenOpenBrace true).
  eapply runK_bind; [apply run_runK, run_peek|]. destruct (Z.eqb_spec (shead rest) c_lbrace); [contradiction|]. apply runK_t_ok.
Qed.
Lemma runK_dispatch_colon rest k0 : shead rest <> 58 ->
  runK (next_dispatch 58) (rest, k0, false) tt (spush rest, tokenColon, false).
Proof.
  intros H.
  change (next_dispatch 58) with
    (tdo c2 <- t_peek; if c2 =? c_colon then tdo _ <- t_read; t_ok tokenDoubleColon false else t_ok tokenColon false).
  eapply runK_bind; [apply run_runK, run_peek|]. destruct (Z.eqb_spec (shead rest) c_colon); [contradiction|]. apply runK_t_ok.
Qed.

(* Next on a whitespace run and a punctuation character *)
Lemma rrun_next_punct w c rest pos tok more X :
  ws_run w -> no_cr w -> is_whitespace c = false -> c <> c_slash ->
  a_s X = zs w ++ c :: rest -> a_u X = false ->
  runK (next_dispatch c) (rest, a_k X, false) tt (pos, tok, more) ->
  rrun (lift t_next) X tt (ax_tok X pos tok more).
Proof.
  intros Hw Hcr Hc1 Hc2 Hs Hu Hd. apply rrun_lift. rewrite Hs, Hu.
  apply (runK_t_next w (c :: rest)); auto; [now apply ws_stop_cons|].
  cbn [shead]. now rewrite after_stop_cons.
Qed.

Section Cont.
Variable pd : list N -> res dec.
Variable pt : list N -> res (list N).
Variable api : xstate -> xstate * res bool.
Notation BTA := trsBeforeTypeAnnotations.
Notation nbta := (next_before_type_annotations pd pt api).

(* ---- nextBeforeTypeAnnotations on the container tokens ------------------------------------------------------------------------ *)
Definition open_type (tok : N) : N :=
  if (tok =? tokenOpenBracket)%N then TList else if (tok =? tokenOpenParen)%N then TSexp else TStruct.
Lemma rrun_nbta_open fuel tok s u ctx lst fld ann ty0 v0 :
  tok = tokenOpenBracket \/ tok = tokenOpenParen \/
  (tok = tokenOpenBrace /\ (match ctx with [] => true | _ => false end && is_ion_symbol_table ann = false)) ->
  rrun (nbta fuel) (mkax s tok u BTA ctx false false lst fld ann ty0 v0) true
       (mkax s tok u trsBeforeContainer ctx false false lst fld ann (open_type tok) XContainer).
Proof.
  intros Htok x Hi Ha. xfields Ha.
  unfold next_before_type_annotations. unfold rbind at 1. unfold rget. cbv zeta. rewrite Fk.
  destruct Htok as [->|[->|[-> Hm]]]; tok_cbn; rewrite ?andb_false_r; cbv iota.
  - exists (xs_val (xs_state x trsBeforeContainer) TList XContainer). split; [reflexivity|]. split; [exact Hi|].
    unfold xabs. cbn [x_tok x_state x_ctx x_eof x_err x_lst x_field x_annots x_type x_value xs_val xs_state].
    rewrite Fs, Fk, Fu, Fctx, Feof, Ferr, Flst, Ffield, Fannots. reflexivity.
  - exists (xs_val (xs_state x trsBeforeContainer) TSexp XContainer). split; [reflexivity|]. split; [exact Hi|].
    unfold xabs. cbn [x_tok x_state x_ctx x_eof x_err x_lst x_field x_annots x_type x_value xs_val xs_state].
    rewrite Fs, Fk, Fu, Fctx, Feof, Ferr, Flst, Ffield, Fannots. reflexivity.
  - exists (xs_val (xs_state x trsBeforeContainer) TStruct XContainer). split.
    + unfold rbind, rmod, rget, rret. cbn [fst snd].
      unfold x_at_top. cbn [x_ctx x_annots xs_val xs_state]. rewrite Fctx, Fannots, Hm. reflexivity.
    + split; [exact Hi|].
      unfold xabs. cbn [x_tok x_state x_ctx x_eof x_err x_lst x_field x_annots x_type x_value xs_val xs_state].
      rewrite Fs, Fk, Fu, Fctx, Feof, Ferr, Flst, Ffield, Fannots. reflexivity.
Qed.

(* a closing ] or ) where a value could stand: the end of the container *)
Lemma rrun_nbta_close fuel tok s u c ctx lst fld ty0 v0 :
  (tok = tokenCloseBracket /\ c = CList) \/ (tok = tokenCloseParen /\ c = CSexp) ->
  rrun (nbta fuel) (mkax s tok u BTA (c :: ctx) false false lst fld [] ty0 v0) true
       (mkax s tok u BTA (c :: ctx) true false lst fld [] ty0 v0).
Proof.
  intros Htok x Hi Ha. xfields Ha.
  unfold next_before_type_annotations. unfold rbind at 1. unfold rget. cbv zeta. rewrite Fk, Fannots, Fctx.
  destruct Htok as [[-> ->]|[-> ->]]; tok_cbn; cbv iota;
    (exists (xs_eof x true); split; [reflexivity|]; split; [exact Hi|]);
    unfold xabs; cbn [x_tok x_state x_ctx x_eof x_err x_lst x_field x_annots x_type x_value xs_eof];
    rewrite Fs, Fk, Fu, Fst, Fctx, Ferr, Flst, Ffield, Fannots, Ftype, Fvalue; reflexivity.
Qed.

(* ---- nextAfterValue ---------------------------------------------------------------------------------------------------------- *)
Lemma rrun_after_value_comma s u c ctx lst fld ann ty0 v0 :
  c = CList \/ c = CStruct ->
  rrun next_after_value (mkax s tokenComma u trsAfterValue (c :: ctx) false false lst fld ann ty0 v0) false
       (mkax s tokenComma u (match c with CStruct => trsBeforeFieldName | _ => BTA end) (c :: ctx) false false lst fld ann ty0 v0).
Proof.
  intros Hc x Hi Ha. xfields Ha. unfold next_after_value. unfold rbind at 1. unfold rget. rewrite Fk. tok_cbn. rewrite Fctx.
  destruct Hc as [-> | ->].
  - exists (xs_state x BTA). split; [reflexivity|]. split; [exact Hi|].
    unfold xabs. cbn [x_tok x_state x_ctx x_eof x_err x_lst x_field x_annots x_type x_value xs_state].
    rewrite Fs, Fk, Fu, Fctx, Feof, Ferr, Flst, Ffield, Fannots, Ftype, Fvalue. reflexivity.
  - exists (xs_state x trsBeforeFieldName). split; [reflexivity|]. split; [exact Hi|].
    unfold xabs. cbn [x_tok x_state x_ctx x_eof x_err x_lst x_field x_annots x_type x_value xs_state].
    rewrite Fs, Fk, Fu, Fctx, Feof, Ferr, Flst, Ffield, Fannots, Ftype, Fvalue. reflexivity.
Qed.
Lemma rrun_after_value_close tok s u c ctx lst fld ann ty0 v0 :
  (tok = tokenCloseBracket /\ c = CList) \/ (tok = tokenCloseBrace /\ c = CStruct) ->
  rrun next_after_value (mkax s tok u trsAfterValue (c :: ctx) false false lst fld ann ty0 v0) true
       (mkax s tok u trsAfterValue (c :: ctx) true false lst fld ann ty0 v0).
Proof.
  intros Htok x Hi Ha. xfields Ha. unfold next_after_value. unfold rbind at 1. unfold rget. rewrite Fk.
  destruct Htok as [[-> ->]|[-> ->]]; tok_cbn; unfold x_in_struct; rewrite Fctx;
    (exists (xs_eof x true); split; [reflexivity|]; split; [exact Hi|]);
    unfold xabs; cbn [x_tok x_state x_ctx x_eof x_err x_lst x_field x_annots x_type x_value xs_eof];
    rewrite Fs, Fk, Fu, Fst, Fctx, Ferr, Flst, Ffield, Fannots, Ftype, Fvalue; reflexivity.
Qed.

(* ---- StepIn, StepOut ----------------------------------------------------------------------------------------------------------- *)
Definition ctype_of (ty : N) : ctype := if (ty =? TList)%N then CList else if (ty =? TSexp)%N then CSexp else CStruct.
Lemma rrun_step_in s k u ctx lst fld ann ty :
  ty = TList \/ ty = TSexp \/ ty = TStruct ->
  rrun x_step_in (mkax s k u trsBeforeContainer ctx false false lst fld ann ty XContainer) true
       (mkax s k false (match ctype_of ty with CStruct => trsBeforeFieldName | _ => BTA end) (ctype_of ty :: ctx)
             false false lst None [] 0%N XNil).
Proof.
  intros Hty x Hi Ha. xfields Ha. unfold x_step_in. rewrite Ferr, Fst. tok_cbn. change (trsBeforeContainer =? trsBeforeContainer)%N with true.
  cbn [negb]. rewrite Ftype.
  destruct Hty as [->|[->| ->]]; cbn [N.eqb Pos.eqb TList TSexp TStruct ctype_of];
    (eexists; split; [reflexivity|]; split; [exact Hi|]);
    unfold xabs, x_clear, stream, set_unfinished, set_tok;
    cbn [x_tok x_state x_ctx x_eof x_err x_lst x_field x_annots x_type x_value xs_tok xs_val xs_annots xs_field xs_state xs_ctx
         t_token t_unfinished t_buf t_in];
    change (t_buf (x_tok x) ++ zs (norm (t_in (x_tok x)))) with (stream (x_tok x));
    rewrite Fs, Fk, Fctx, Feof, Ferr, Flst; reflexivity.
Qed.
Lemma rrun_step_out s k st c ctx lst fld ann ty v :
  rrun x_step_out (mkax s k false st (c :: ctx) true false lst fld ann ty v) true
       (mkax s k false (after_value_state ctx) ctx false false lst None [] 0%N XNil).
Proof.
  intros x Hi Ha. xfields Ha. unfold x_step_out. rewrite Ferr, Fctx.
  pose proof (rrun_lift t_finish_value (mkax s k false st (c :: ctx) true false lst fld ann ty v) false s k false
                (runK_finish_value_noop s k)) as HL.
  destruct (HL x Hi Ha) as (x1 & E1 & Hi1 & Ha1). rewrite E1.
  unfold ax_tok in Ha1. cbn [a_state a_ctx a_eof a_err a_lst a_field a_annots a_type a_value] in Ha1.
  xfields Ha1. rewrite Feof0.
  eexists. split; [reflexivity|]. split; [exact Hi1|].
  unfold xabs, x_clear, state_after_value, after_value_state.
  cbn [x_tok x_state x_ctx x_eof x_err x_lst x_field x_annots x_type x_value xs_tok xs_val xs_annots xs_field xs_state xs_ctx xs_eof].
  rewrite Fs0, Fk0, Fu0, Ferr0, Flst0. reflexivity.
Qed.

(* ---- rounds of the loop of Next on separators and brackets ------------------------------------------------------------------ *)
(* a comma after a value, in a list or struct: the loop goes on *)
Lemma comma_step w r c k0 ctx lst fld ann ty0 v0 kk fuel b X' :
  ws_run w -> no_cr w -> c = CList \/ c = CStruct ->
  rrun (x_next_loop pd pt api kk fuel)
       (mkax r tokenComma false (match c with CStruct => trsBeforeFieldName | _ => BTA end) (c :: ctx) false false lst fld ann ty0 v0) b X' ->
  rrun (x_next_loop pd pt api (S kk) fuel)
       (mkax (zs w ++ 44 :: r) k0 false trsAfterValue (c :: ctx) false false lst fld ann ty0 v0) b X'.
Proof.
  intros Hw Hcr Hc Hrest x Hi Ha.
  pose proof (rrun_next_punct w 44 r r tokenComma false
                (mkax (zs w ++ 44 :: r) k0 false trsAfterValue (c :: ctx) false false lst fld ann ty0 v0)
                Hw Hcr eq_refl ltac:(discriminate) eq_refl eq_refl (runK_dispatch_simple 44 _ _ r k0 dispatch_comma)) as HL.
  destruct (HL x Hi Ha) as (x1 & E1 & Hi1 & Ha1).
  unfold ax_tok in Ha1. cbn [a_state a_ctx a_eof a_err a_lst a_field a_annots a_type a_value] in Ha1.
  destruct (rrun_after_value_comma r false c ctx lst fld ann ty0 v0 Hc x1 Hi1 Ha1) as (x2 & E2 & Hi2 & Ha2).
  xfields Ha1. rewrite (next_loop_after_value pd pt api kk fuel x x1 x2 false E1 Fst E2).
  exact (Hrest x2 Hi2 Ha2).
Qed.

(* a closing bracket: Next answers false with eof set *)
Lemma close_after_value w r tok c k0 ctx lst fld ann ty0 v0 kk fuel :
  ws_run w -> no_cr w ->
  (tok = tokenCloseBracket /\ c = CList) \/ (tok = tokenCloseBrace /\ c = CStruct) ->
  rrun (x_next_loop pd pt api (S kk) fuel)
       (mkax (zs w ++ (if (tok =? tokenCloseBracket)%N then 93 else 125) :: r) k0 false trsAfterValue (c :: ctx) false false
             lst fld ann ty0 v0) false
       (mkax r tok false trsAfterValue (c :: ctx) true false lst fld ann ty0 v0).
Proof.
  intros Hw Hcr Htok x Hi Ha.
  assert (HL : rrun (lift t_next)
                 (mkax (zs w ++ (if (tok =? tokenCloseBracket)%N then 93 else 125) :: r) k0 false trsAfterValue (c :: ctx)
                       false false lst fld ann ty0 v0) tt
                 (mkax r tok false trsAfterValue (c :: ctx) false false lst fld ann ty0 v0)).
  { destruct Htok as [[-> ->]|[-> ->]]; tok_cbn.
    - apply (rrun_next_punct w 93 r r tokenCloseBracket false); auto; try reflexivity; try discriminate.
      apply runK_dispatch_simple, dispatch_rbracket.
    - apply (rrun_next_punct w 125 r r tokenCloseBrace false); auto; try reflexivity; try discriminate.
      apply runK_dispatch_simple, dispatch_rbrace. }
  destruct (HL x Hi Ha) as (x1 & E1 & Hi1 & Ha1).
  destruct (rrun_after_value_close tok r false c ctx lst fld ann ty0 v0 Htok x1 Hi1 Ha1) as (x2 & E2 & Hi2 & Ha2).
  xfields Ha1. exists x2. rewrite (next_loop_after_value pd pt api kk fuel x x1 x2 true E1 Fst E2).
  xfields Ha2. rewrite Feof0. auto.
Qed.
Lemma close_bta w r tok c k0 ctx lst fld ty0 v0 kk fuel :
  ws_run w -> no_cr w ->
  (tok = tokenCloseBracket /\ c = CList) \/ (tok = tokenCloseParen /\ c = CSexp) ->
  rrun (x_next_loop pd pt api (S kk) fuel)
       (mkax (zs w ++ (if (tok =? tokenCloseBracket)%N then 93 else 41) :: r) k0 false BTA (c :: ctx) false false
             lst fld [] ty0 v0) false
       (mkax r tok false BTA (c :: ctx) true false lst fld [] ty0 v0).
Proof.
  intros Hw Hcr Htok x Hi Ha.
  assert (HL : rrun (lift t_next)
                 (mkax (zs w ++ (if (tok =? tokenCloseBracket)%N then 93 else 41) :: r) k0 false BTA (c :: ctx)
                       false false lst fld [] ty0 v0) tt
                 (mkax r tok false BTA (c :: ctx) false false lst fld [] ty0 v0)).
  { destruct Htok as [[-> ->]|[-> ->]]; tok_cbn.
    - apply (rrun_next_punct w 93 r r tokenCloseBracket false); auto; try reflexivity; try discriminate.
      apply runK_dispatch_simple, dispatch_rbracket.
    - apply (rrun_next_punct w 41 r r tokenCloseParen false); auto; try reflexivity; try discriminate.
      apply runK_dispatch_simple, dispatch_rparen. }
  destruct (HL x Hi Ha) as (x1 & E1 & Hi1 & Ha1).
  destruct (rrun_nbta_close fuel tok r false c ctx lst fld ty0 v0 Htok x1 Hi1 Ha1) as (x2 & E2 & Hi2 & Ha2).
  xfields Ha1. exists x2. rewrite (next_loop_bta pd pt api kk fuel x x1 x2 true E1 Fst E2).
  xfields Ha2. rewrite Feof0. auto.
Qed.

(* an opening bracket where a value may stand *)
Definition open_char (tok : N) : Z := if (tok =? tokenOpenBracket)%N then 91 else if (tok =? tokenOpenParen)%N then 40 else 123.
Lemma open_next w r tok k0 ctx lst fld ann ty0 v0 kk fuel :
  ws_run w -> no_cr w ->
  tok = tokenOpenBracket \/ tok = tokenOpenParen \/
  (tok = tokenOpenBrace /\ shead r <> 123 /\ (match ctx with [] => true | _ => false end && is_ion_symbol_table ann = false)) ->
  rrun (x_next_loop pd pt api (S kk) fuel)
       (mkax (zs w ++ open_char tok :: r) k0 false BTA ctx false false lst fld ann ty0 v0) true
       (mkax (if (tok =? tokenOpenBrace)%N then spush r else r) tok true trsBeforeContainer ctx false false lst fld ann
             (open_type tok) XContainer).
Proof.
  intros Hw Hcr Htok x Hi Ha.
  assert (HL : rrun (lift t_next)
                 (mkax (zs w ++ open_char tok :: r) k0 false BTA ctx false false lst fld ann ty0 v0) tt
                 (mkax (if (tok =? tokenOpenBrace)%N then spush r else r) tok true BTA ctx false false lst fld ann ty0 v0)).
  { destruct Htok as [->|[->|[-> [Hr _]]]]; unfold open_char; tok_cbn.
    - apply (rrun_next_punct w 91 r r tokenOpenBracket true); auto; try reflexivity; try discriminate.
      apply runK_dispatch_simple, dispatch_lbracket.
    - apply (rrun_next_punct w 40 r r tokenOpenParen true); auto; try reflexivity; try discriminate.
      apply runK_dispatch_simple, dispatch_lparen.
    - apply (rrun_next_punct w 123 r (spush r) tokenOpenBrace true); auto; try reflexivity; try discriminate.
      now apply runK_dispatch_lbrace. }
  destruct (HL x Hi Ha) as (x1 & E1 & Hi1 & Ha1).
  assert (Htok' : tok = tokenOpenBracket \/ tok = tokenOpenParen \/
                  (tok = tokenOpenBrace /\ (match ctx with [] => true | _ => false end && is_ion_symbol_table ann = false)))
    by (destruct Htok as [H|[H|[H [_ H']]]]; auto).
  destruct (rrun_nbta_open fuel tok _ true ctx lst fld ann ty0 v0 Htok' x1 Hi1 Ha1) as (x2 & E2 & Hi2 & Ha2).
  xfields Ha1. exists x2. rewrite (next_loop_bta pd pt api kk fuel x x1 x2 true E1 Fst E2).
  xfields Ha2. rewrite Feof0. auto.
Qed.

(* ---- field names ------------------------------------------------------------------------------------------------------------- *)
Lemma rrun_field_name_close s u ctx lst fld ann ty0 v0 :
  rrun next_before_field_name (mkax s tokenCloseBrace u trsBeforeFieldName ctx false false lst fld ann ty0 v0) true
       (mkax s tokenCloseBrace u trsBeforeFieldName ctx true false lst fld ann ty0 v0).
Proof.
  intros x Hi Ha. xfields Ha. unfold next_before_field_name. unfold rbind at 1. unfold rget. rewrite Fk. tok_cbn.
  exists (xs_eof x true). split; [reflexivity|]. split; [exact Hi|].
  unfold xabs. cbn [x_tok x_state x_ctx x_eof x_err x_lst x_field x_annots x_type x_value xs_eof].
  rewrite Fs, Fk, Fu, Fst, Fctx, Ferr, Flst, Ffield, Fannots, Ftype, Fvalue. reflexivity.
Qed.
Lemma close_field_name w r k0 ctx lst fld ann ty0 v0 kk fuel :
  ws_run w -> no_cr w ->
  rrun (x_next_loop pd pt api (S kk) fuel)
       (mkax (zs w ++ 125 :: r) k0 false trsBeforeFieldName ctx false false lst fld ann ty0 v0) false
       (mkax r tokenCloseBrace false trsBeforeFieldName ctx true false lst fld ann ty0 v0).
Proof.
  intros Hw Hcr x Hi Ha.
  pose proof (rrun_next_punct w 125 r r tokenCloseBrace false
                (mkax (zs w ++ 125 :: r) k0 false trsBeforeFieldName ctx false false lst fld ann ty0 v0)
                Hw Hcr eq_refl ltac:(discriminate) eq_refl eq_refl (runK_dispatch_simple 125 _ _ r k0 dispatch_rbrace)) as HL.
  destruct (HL x Hi Ha) as (x1 & E1 & Hi1 & Ha1).
  unfold ax_tok in Ha1. cbn [a_state a_ctx a_eof a_err a_lst a_field a_annots a_type a_value] in Ha1.
  destruct (rrun_field_name_close r false ctx lst fld ann ty0 v0 x1 Hi1 Ha1) as (x2 & E2 & Hi2 & Ha2).
  xfields Ha1. exists x2. rewrite (next_loop_field_name pd pt api kk fuel x x1 x2 true E1 Fst E2).
  xfields Ha2. rewrite Feof0. auto.
Qed.

(* the token a field name becomes *)
Definition field_token (tk : N) (lst : rlst) (v : list N) : res tok :=
  if (tk =? tokenSymbolQuoted)%N then Ok (tok_text v)
  else if ((tk =? tokenString) || (tk =? tokenLongString))%N then Ok (name_symbol_token lst v)
  else new_symbol_token lst v.

(* name, whitespace, colon: the loop goes on in front of the value *)
Lemma field_step_gen w SS tk pos v k wn1 r k0 ctx lst fld ann ty0 v0 kk fuel b X' :
  ws_run w -> no_cr w -> ws_stop SS = true ->
  runK (next_dispatch (shead SS)) (after_stop SS, k0, false) tt (pos, tk, true) ->
  tk = tokenSymbol \/ tk = tokenSymbolQuoted \/ tk = tokenString ->
  (forall k1 u1, runK (t_read_value tk) (pos, k1, u1) v (zs wn1 ++ 58 :: r, k1, false)) ->
  (tk = tokenSymbol -> is_keyword v = false) -> field_token tk lst v = Ok k ->
  ws_run wn1 -> no_cr wn1 -> shead r <> 58 ->
  rrun (x_next_loop pd pt api kk fuel)
       (mkax (spush r) tokenColon false BTA ctx false false lst (Some k) ann ty0 v0) b X' ->
  rrun (x_next_loop pd pt api (S kk) fuel)
       (mkax (zs w ++ SS) k0 false trsBeforeFieldName ctx false false lst fld ann ty0 v0) b X'.
Proof.
  intros Hw Hcr Hst Hd Htk Hrd Hkw Hk Hwn Hcrn Hr Hrest x Hi Ha.
  pose proof (rrun_lift t_next (mkax (zs w ++ SS) k0 false trsBeforeFieldName ctx false false lst fld ann ty0 v0)
                tt pos tk true (runK_t_next w SS k0 _ Hw Hcr Hst Hd)) as HL.
  destruct (HL x Hi Ha) as (x1 & E1 & Hi1 & Ha1).
  unfold ax_tok in Ha1. cbn [a_state a_ctx a_eof a_err a_lst a_field a_annots a_type a_value] in Ha1.
  assert (HF : rrun next_before_field_name (mkax pos tk true trsBeforeFieldName ctx false false lst fld ann ty0 v0) false
                 (mkax (spush r) tokenColon false BTA ctx false false lst (Some k) ann ty0 v0)).
  { unfold next_before_field_name. apply rrun_rget_bind. intros y Hy Hay. xfields Hay. cbv beta zeta. rewrite Fk.
    assert (Hsel : (tk =? tokenCloseBrace)%N = false /\
                   ((tk =? tokenSymbol) || (tk =? tokenSymbolQuoted) || (tk =? tokenString) || (tk =? tokenLongString))%N = true).
    { destruct Htk as [->|[->| ->]]; split; reflexivity. }
    destruct Hsel as [Hs1 Hs2]. rewrite Hs1, Hs2.
    eapply rrun_bind; [apply rrun_lift; cbn [a_s a_k a_u]; apply Hrd|].
    unfold ax_tok. cbn [a_s a_k a_u a_state a_ctx a_eof a_err a_lst a_field a_annots a_type a_value].
    assert (Hkw' : (tk =? tokenSymbol)%N && is_keyword v = false).
    { destruct (N.eqb_spec tk tokenSymbol) as [E|E]; [cbn [andb]; now apply Hkw|reflexivity]. }
    rewrite Hkw'.
    eapply rrun_bind with (a := k).
    { unfold field_token in Hk. rewrite Flst.
      destruct ((tk =? tokenSymbolQuoted)%N); [injection Hk as <-; apply rrun_ret|].
      destruct (((tk =? tokenString) || (tk =? tokenLongString))%N); [injection Hk as <-; apply rrun_ret|].
      apply rrun_of_res. exact Hk. }
    eapply rrun_bind.
    { apply rrun_rmod. intros z Haz. xfields Haz. split; [|reflexivity].
      unfold xabs. cbn [x_tok x_state x_ctx x_eof x_err x_lst x_field x_annots x_type x_value xs_field].
      rewrite Fs0, Fk0, Fu0, Fst0, Fctx0, Feof0, Ferr0, Flst0, Fannots0, Ftype0, Fvalue0. reflexivity. }
    eapply rrun_bind.
    { apply (rrun_next_punct wn1 58 r (spush r) tokenColon false); auto; try reflexivity; try discriminate.
      cbn [a_k]. now apply runK_dispatch_colon. }
    unfold ax_tok. cbn [a_s a_k a_u a_state a_ctx a_eof a_err a_lst a_field a_annots a_type a_value].
    apply rrun_rget_bind. intros z Hz Haz. xfields Haz. rewrite Fk0. tok_cbn.
    eapply rrun_bind; [|apply rrun_ret].
    apply rrun_rmod. intros z' Haz'. xfields Haz'. split; [|reflexivity].
    unfold xabs. cbn [x_tok x_state x_ctx x_eof x_err x_lst x_field x_annots x_type x_value xs_state].
    rewrite Fs1, Fk1, Fu1, Fctx1, Feof1, Ferr1, Flst1, Ffield1, Fannots1, Ftype1, Fvalue1. reflexivity. }
  destruct (HF x1 Hi1 Ha1) as (x2 & E2 & Hi2 & Ha2).
  xfields Ha1. rewrite (next_loop_field_name pd pt api kk fuel x x1 x2 false E1 Fst E2).
  exact (Hrest x2 Hi2 Ha2).
Qed.
End Cont.
