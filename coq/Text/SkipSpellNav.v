(* SkipSpellNav.v — C08 for text, stage 3: the reader (Text/TextReader.v) around the skipper.

   [next_scalar], [next_container]: Next in front of any spelled value: a scalar is delivered and the reader is left
   settled in front of what follows it; a container is delivered un-entered (state trsBeforeContainer, token unfinished).
   [skip_value]: that un-entered state is ALREADY settled in front of what follows the container: FinishValue (the
   first thing the next Next or a StepOut does) runs the skipper over the whole container and lands exactly where
   StepIn + full traversal + StepOut lands ([c02b_traverse_tree]'s conclusion).
   [step_out_early]: StepOut from ANY member boundary inside a container lands there too.
   [x_next_at_rest]: the bridge back to the traversal machinery: Next from a state that is settled in front of T —
   be it behind a scalar, behind a StepOut, or on a container that was not entered — runs the loop of Next in front
   of a whitespace run and T. *)
From Coq Require Import String List NArith ZArith Bool Lia ZifyBool ZifyN ZifyNat.
From IonV Require Import Base.Wire Base.Utf8 Data.Ion Bin.Bits Bin.BitStream Bin.BinReader Num.Float Text.Tokenizer Text.Skipper
  Text.TextReader Text.TextNum Text.SpellBase Text.SpellWs Text.SpellNum Text.SpellTok Text.SpellRead
  Text.SpellEsc Text.SpellStr Text.SpellLong Text.SpellIdent Text.SpellSym Text.SpellTs Text.SpellBlob
  Text.SpellVal Text.SpellSymVal Text.SpellOp Text.SpellStream Text.SpellCont Text.SpellTree
  Text.SpellEofc Text.SpellOp2 Text.SpellStream2 Text.SpellIvm Text.SpellTree2 Text.SkipSpell Text.SkipSpellTree.
Import ListNotations.
Open Scope Z_scope.

Section Nav.
Variable pd : list N -> res dec.
Variable pt : list N -> res (list N).
Variable lst : rlst.
Notation BTA := trsBeforeTypeAnnotations.
Notation api := (x_next_inner pd pt).

(* the state in which the loop of Next starts after FinishValue *)
Definition loop_state (u : bool) (st : N) (ctx : list ctype) : N := if u then after_value_state ctx else st.

Lemma rrun_finish_at_rest S0 k u S1 st ctx fld ann ty v :
  runK t_finish_value (S0, k, u) u (S1, k, false) ->
  rrun x_finish_value (mkax S0 k u st ctx false false lst fld ann ty v) tt
       (mkax S1 k false (loop_state u st ctx) ctx false false lst fld ann ty v).
Proof.
  intros Rf. unfold x_finish_value. eapply rrun_bind; [apply rrun_lift; cbn [a_s a_k a_u]; exact Rf|].
  unfold ax_tok. cbn [a_s a_k a_u a_state a_ctx a_eof a_err a_lst a_field a_annots a_type a_value].
  destruct u; cbn [loop_state]; [|apply rrun_ret].
  apply rrun_rmod. intros x Ha. xfields Ha. split; [|reflexivity].
  unfold xabs, state_after_value, after_value_state. cbn [x_tok x_state x_ctx x_eof x_err x_lst x_field x_annots x_type x_value xs_state].
  rewrite Fs, Fk, Fu, Fctx, Feof, Ferr, Flst, Ffield, Fannots, Ftype, Fvalue. reflexivity.
Qed.

(* Next from a settled state, whatever the reader's own state word says when the token is unfinished *)
Lemma x_next_at_rest x S0 k u st ctx fld ann ty v text b (Post : ax -> Prop) :
  xok x -> xabs x = mkax S0 k u st ctx false false lst fld ann ty v -> st <> trsDone ->
  settled S0 k u text ->
  (forall S1 w1 kk fuel, ws_run w1 -> no_cr w1 -> ends S1 (w1 ++ text) -> (length (w1 ++ text) <= kk)%nat ->
     exists X2, rrun (x_next_loop pd pt api (S kk) fuel)
                     (mkax S1 k false (loop_state u st ctx) ctx false false lst None [] 0%N XNil) b X2 /\ Post X2) ->
  exists x2, x_next pd pt x = (x2, Ok b) /\ xok x2 /\ Post (xabs x2).
Proof.
  intros Hi Ha Hnd (S1 & w1 & Rf & Hw1 & Hcr1 & He1 & Hlen) Hloop.
  xfields Ha.
  assert (Hk : (length (w1 ++ text) <= S (t_rem (x_tok x)))%nat).
  { pose proof (stream_rem (x_tok x)) as Hr. rewrite Fs in Hr. lia. }
  destruct (Hloop S1 w1 _ (x_fuel x) Hw1 Hcr1 He1 Hk) as (X2 & R & HP).
  assert (Hnd' : x_state x <> trsDone) by now rewrite Fst.
  assert (Hfin : rrun x_finish_value (xabs x) tt (mkax S1 k false (loop_state u st ctx) ctx false false lst fld ann ty v))
    by (rewrite Ha; now apply rrun_finish_at_rest).
  assert (Hl : rrun (x_next_loop pd pt api (x_fuel x) (x_fuel x))
                 (ax_clear (mkax S1 k false (loop_state u st ctx) ctx false false lst fld ann ty v)) b X2) by exact R.
  destruct (x_next_with_ok pd pt api (x_fuel x) x _ b X2 Hi Hnd' Feof Hfin Hl) as (x2 & E & Hi2 & Ha2).
  exists x2. rewrite Ha2. auto.
Qed.
Lemma nextable_at_rest x S0 k u st ctx fld ann ty v T :
  xok x -> xabs x = mkax S0 k u st ctx false false lst fld ann ty v -> st <> trsDone ->
  settled S0 k u T -> nextable pd pt lst x (loop_state u st ctx) ctx T.
Proof.
  intros Hi Ha Hnd Hset b Post Hloop.
  apply (x_next_at_rest x S0 k u st ctx fld ann ty v T b Post Hi Ha Hnd Hset).
  intros S1 w1 kk fuel. apply Hloop.
Qed.

(* ---- Next in front of a value ------------------------------------------------------------------------------------------------ *)
Lemma next_scalar ctx text fol anns ty v :
  aval_spells2 pd pt lst ctx [] text fol anns ty v ->
  forall pre st fld n wb, sep_spells2 lst ctx st pre fld n -> ws_run wb -> (pre = [] -> wb = []) ->
  forall x wn rest,
  nextable pd pt lst x st ctx (pre ++ wb ++ text ++ wn ++ rest) -> no_cr (pre ++ wb ++ text ++ wn) -> ws_run wn -> fol wn rest ->
  rest_ok ctx rest ->
  exists x1 S' k' u', x_next pd pt x = (x1, Ok true) /\ xok x1 /\
    xabs x1 = mkax S' k' u' (after_value_state ctx) ctx false false lst fld anns ty v /\ settled_w S' k' u' rest.
Proof.
  intros Hav pre st fld n wb Hsep Hwb Hpw x wn rest Hnx Hcr Hwn Hfol Hrok.
  destruct (sep_facts2 pd pt lst _ _ _ _ _ Hsep) as [Hn Hnd].
  destruct (aval_nonempty2 pd pt lst ctx [] text fol anns ty v Hav) as (c0 & r0 & Etext & _ & Hc58).
  assert (Hcr' := Hcr). apply no_cr_app in Hcr' as [Hcp Hcr']. apply no_cr_app in Hcr' as [Hcb Hcr'].
  apply no_cr_app in Hcr' as [Hct Hcn].
  destruct (Hnx true
              (fun X2 => exists S' k' u', X2 = mkax S' k' u' (after_value_state ctx) ctx false false lst fld anns ty v /\
                                          settled_w S' k' u' rest)) as (x1 & E & Hi1 & HP).
  { intros S1 w1 k kk fuel Hw1 Hcr1 He1 Hlen.
    destruct (ends_split S1 _ _ He1) as (Sa & -> & Hea). destruct (ends_split Sa _ _ Hea) as (Sb & -> & Heb).
    destruct (ends_split Sb _ _ Heb) as (Sc & -> & Hec). destruct (ends_split Sc _ _ Hec) as (Sd & -> & Hed).
    destruct (ends_split Sd _ _ Hed) as (S2 & -> & He2).
    rewrite !app_length in Hlen.
    destruct (aval_next2 pd pt api lst ctx [] text fol anns ty v Hav wn rest S2 Hct Hwn Hcn Hfol He2 Hrok)
      as (S' & k' & u' & Hset' & R).
    exists (mkax S' k' u' (after_value_state ctx) ctx false false lst fld anns ty v). split; [|eauto].
    replace (S kk) with (n + S (kk - n))%nat by lia.
    apply (sep_loop2 pd pt lst ctx st pre fld n Hsep w1 wb (zs text ++ zs wn ++ S2) k (S (kk - n)) fuel true); auto.
    - apply no_cr_app. split; [exact Hcr1|]. apply no_cr_app. auto.
    - rewrite Etext. discriminate.
    - rewrite Etext. cbn [zs map app shead]. lia.
    - intros k1 w' Hw' Hcw'. apply R; auto. lia. }
  destruct HP as (S' & k' & u' & Ha1 & Hset1). exists x1, S', k', u'. auto.
Qed.

Lemma aopen_tok ctx ann otext anns tok : aopen_spells lst ctx ann otext anns tok ->
  tok = tokenOpenBracket \/ tok = tokenOpenParen \/ tok = tokenOpenBrace.
Proof. induction 1 as [ann tok Hok| |]; auto. destruct Hok as [H|[H|[H _]]]; auto. Qed.

Lemma next_container ctx otext anns tok w0 body items :
  aopen_spells lst ctx [] otext anns tok -> ws_run w0 ->
  (tok = tokenOpenBrace -> hd 0%N (w0 ++ body) <> 123%N) ->
  cseq2 pd pt lst (open_ctype tok :: ctx) (first_state tok) body items ->
  forall pre st fld n wb, sep_spells2 lst ctx st pre fld n -> ws_run wb -> (pre = [] -> wb = []) ->
  forall x wn rest,
  nextable pd pt lst x st ctx (pre ++ wb ++ (otext ++ w0 ++ body) ++ wn ++ rest) ->
  no_cr (pre ++ wb ++ (otext ++ w0 ++ body) ++ wn) -> ws_run wn ->
  exists x1 r, x_next pd pt x = (x1, Ok true) /\ xok x1 /\
    xabs x1 = mkax r tok true trsBeforeContainer ctx false false lst fld anns (open_type tok) XContainer /\
    ends r (w0 ++ body ++ wn ++ rest).
Proof.
  intros Hao Hw0 Hb123 Hcs pre st fld n wb Hsep Hwb Hpw x wn rest Hnx Hcr Hwn.
  destruct (sep_facts2 pd pt lst _ _ _ _ _ Hsep) as [Hn Hnd].
  destruct (aopen_first lst ctx [] otext anns tok Hao) as (c0 & r0 & Etext & Hc0).
  destruct (cseq_first2 pd pt lst _ _ _ _ Hcs) as [(cb & rb & Ebody & _) _].
  assert (Hcr' := Hcr). apply no_cr_app in Hcr' as [Hcp Hcr']. apply no_cr_app in Hcr' as [Hcb Hcr'].
  apply no_cr_app in Hcr' as [Hct Hcn]. apply no_cr_app in Hct as [Hco Hct]. apply no_cr_app in Hct as [Hcw0 Hcbody].
  set (brace := (tok =? tokenOpenBrace)%N).
  destruct (Hnx true
              (fun X2 => exists r, X2 = mkax r tok true trsBeforeContainer ctx false false lst fld anns (open_type tok) XContainer /\
                                   ends r (w0 ++ body ++ wn ++ rest))) as (x1 & E & Hi1 & HP).
  { intros S1 w1 k kk fuel Hw1 Hcr1 He1 Hlen.
    destruct (ends_split S1 _ _ He1) as (Sa & -> & Hea). destruct (ends_split Sa _ _ Hea) as (Sb & -> & Heb).
    destruct (ends_split Sb _ _ Heb) as (Sc & -> & Hec). rewrite <- !app_assoc in Hec.
    destruct (ends_split Sc _ _ Hec) as (Sd & -> & Hed).
    rewrite !app_length in Hlen.
    assert (Hbr : tok = tokenOpenBrace -> shead Sd <> 123).
    { intros Ht. specialize (Hb123 Ht). rewrite (ends_shead _ _ Hed).
      destruct w0 as [|cw w0']; cbn [app] in *.
      - rewrite Ebody in *. cbn [app zs map shead hd] in *. lia.
      - cbn [zs map shead hd] in *. lia. }
    exists (mkax (if brace then spush Sd else Sd) tok true trsBeforeContainer ctx false false lst fld anns (open_type tok) XContainer).
    split; [|exists (if brace then spush Sd else Sd); split; [reflexivity|]; destruct brace; [now apply ends_spush|exact Hed]].
    replace (S kk) with (n + S (kk - n))%nat by lia.
    apply (sep_loop2 pd pt lst ctx st pre fld n Hsep w1 wb (zs otext ++ Sd) k (S (kk - n)) fuel true); auto.
    - apply no_cr_app. split; [exact Hcr1|]. apply no_cr_app. auto.
    - rewrite Etext. discriminate.
    - rewrite Etext. cbn [zs map app shead]. destruct Hc0 as (_ & _ & H58). lia.
    - intros k1 w' Hw' Hcw'.
      apply (aopen_next pd pt lst ctx [] otext anns tok Hao w' Sd k1 fld 0%N XNil (kk - n) fuel); auto. lia. }
  destruct HP as (r & Ha1 & Her). exists x1, r. auto.
Qed.

(* ---- (1) a container that is not entered is settled in front of what follows it ------------------------------------------------ *)
Lemma open_tok_ctype tok : tok = tokenOpenBracket \/ tok = tokenOpenParen \/ tok = tokenOpenBrace ->
  open_tok (open_ctype tok) = tok.
Proof. intros [->|[->| ->]]; reflexivity. Qed.

Theorem skip_value ctx otext anns tok w0 body items :
  aopen_spells lst ctx [] otext anns tok -> ws_run w0 ->
  cseq2 pd pt lst (open_ctype tok :: ctx) (first_state tok) body items ->
  forall r wn rest, ws_run wn -> no_cr (w0 ++ body ++ wn) -> ends r (w0 ++ body ++ wn ++ rest) -> rest_ok ctx rest ->
  settled_w r tok true rest.
Proof.
  intros Hao Hw0 Hcs r wn rest Hwn Hcr He Hrok.
  pose proof (aopen_tok _ _ _ _ _ Hao) as Htokc.
  rewrite <- (open_tok_ctype tok Htokc).
  exact (settled_container pd pt lst ctx (open_ctype tok) (first_state tok) body items w0 wn rest r Hcs Hw0 Hwn Hcr He Hrok).
Qed.

(* ---- (2) StepOut from any member boundary -------------------------------------------------------------------------------------- *)
Theorem step_out_early c ctx' st text items :
  cseq2 pd pt lst (c :: ctx') st text items ->
  forall x S0 k u st0 fld ann ty v outer,
  xok x -> xabs x = mkax S0 k u st0 (c :: ctx') false false lst fld ann ty v ->
  settled S0 k u (text ++ outer) -> no_cr text ->
  exists x' S' k', x_step_out x = (x', Ok true) /\ xok x' /\
    xabs x' = mkax S' k' false (after_value_state ctx') ctx' false false lst None [] 0%N XNil /\ ends S' outer.
Proof.
  intros Hcs x S0 k u st0 fld ann ty v outer Hi Ha (S1 & w1 & Rf & Hw1 & Hcr1 & He1 & _) Hcr.
  xfields Ha. unfold x_step_out. rewrite Ferr, Fctx.
  pose proof (rrun_lift t_finish_value (mkax S0 k u st0 (c :: ctx') false false lst fld ann ty v) u S1 k false Rf) as HL.
  destruct (HL x Hi Ha) as (x1 & E1 & Hi1 & Ha1). rewrite E1.
  unfold ax_tok in Ha1. cbn [a_state a_ctx a_eof a_err a_lst a_field a_annots a_type a_value] in Ha1.
  xfields Ha1. rewrite Feof0.
  destruct (run_skip_container_helper pd pt lst ctx' c st text items w1 outer S1 Hcs Hw1 ltac:(apply no_cr_app; auto) He1)
    as (S2 & R2 & He2).
  pose proof (rrun_lift_run (t_skip_container_contents c)
                (mkax S1 k false st0 (c :: ctx') false false lst fld ann ty v) tt S2 R2) as HL2.
  destruct (HL2 x1 Hi1 Ha1) as (x2 & E2 & Hi2 & Ha2). rewrite E2.
  unfold ax_tok in Ha2. cbn [a_s a_k a_u a_state a_ctx a_eof a_err a_lst a_field a_annots a_type a_value] in Ha2.
  xfields Ha2.
  eexists _, S2, k. split; [reflexivity|]. split; [exact Hi2|]. split; [|exact He2].
  unfold xabs, x_clear, state_after_value, after_value_state.
  cbn [x_tok x_state x_ctx x_eof x_err x_lst x_field x_annots x_type x_value xs_tok xs_val xs_annots xs_field xs_state xs_ctx xs_eof].
  rewrite Fs1, Fk1, Fu1, Ferr1, Flst1. reflexivity.
Qed.

(* ---- (1) as one statement: Next delivers the container; not entering it and entering it, reading every member and
   stepping out both leave the reader settled in front of the same rest ------------------------------------------------------ *)
Theorem skip_equals_read ctx otext anns tok w0 body items :
  aopen_spells lst ctx [] otext anns tok -> ws_run w0 ->
  (tok = tokenOpenBrace -> hd 0%N (w0 ++ body) <> 123%N) ->
  cseq2 pd pt lst (open_ctype tok :: ctx) (first_state tok) body items ->
  forall pre st fld n wb, sep_spells2 lst ctx st pre fld n -> ws_run wb -> (pre = [] -> wb = []) ->
  forall x wn rest,
  nextable pd pt lst x st ctx (pre ++ wb ++ (otext ++ w0 ++ body) ++ wn ++ rest) ->
  no_cr (pre ++ wb ++ (otext ++ w0 ++ body) ++ wn) -> ws_run wn -> rest_ok ctx rest ->
  (exists x1 r, x_next pd pt x = (x1, Ok true) /\ xok x1 /\
     xabs x1 = mkax r tok true trsBeforeContainer ctx false false lst fld anns (open_type tok) XContainer /\
     settled_w r tok true rest) /\
  (forall depth f acc, exists x' S' k' u' fld' ann' ty' v',
     x_traverse_loop pd pt (cost (TCont anns (open_type tok) items) + f) x depth acc =
       x_traverse_loop pd pt f x' depth (rev (tr_tval fld (TCont anns (open_type tok) items)) ++ acc) /\
     xok x' /\ xabs x' = mkax S' k' u' (after_value_state ctx) ctx false false lst fld' ann' ty' v' /\
     settled_w S' k' u' rest).
Proof.
  intros Hao Hw0 Hb123 Hcs pre st fld n wb Hsep Hwb Hpw x wn rest Hnx Hcr Hwn Hrok. split.
  - destruct (next_container ctx otext anns tok w0 body items Hao Hw0 Hb123 Hcs pre st fld n wb Hsep Hwb Hpw x wn rest Hnx Hcr Hwn)
      as (x1 & r & E & Hi1 & Ha1 & Her).
    exists x1, r. split; [exact E|]. split; [exact Hi1|]. split; [exact Ha1|].
    assert (Hcr' := Hcr). apply no_cr_app in Hcr' as [Hcp Hcr']. apply no_cr_app in Hcr' as [Hcb Hcr'].
    apply no_cr_app in Hcr' as [Hct Hcn]. apply no_cr_app in Hct as [Hco Hct]. apply no_cr_app in Hct as [Hcw0 Hcbody].
    apply (skip_value ctx otext anns tok w0 body items Hao Hw0 Hcs r wn rest Hwn); auto.
    apply no_cr_app. split; [exact Hcw0|]. apply no_cr_app. auto.
  - intros depth f acc.
    exact (proj1 (traverse_tree2 pd pt lst) ctx _ f_any _ (t2_cont pd pt lst ctx otext anns tok w0 body items Hao Hw0 Hb123 Hcs)
             pre st fld n wb Hsep Hwb Hpw x wn rest depth f acc Hnx Hcr Hwn I Hrok).
Qed.
End Nav.
