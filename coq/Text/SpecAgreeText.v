(* SpecAgreeText.v — C04, text half: vocabulary of "the specification decoder SpecText.tdecode reads the text
   Writer's output back as the values written".  Definitions only; lemmas in SpecAgreeTextNum.v (numbers),
   SpecAgreeTextStr.v (quoted text, lobs), SpecAgreeTextP.v (values, containers, streams).

   [canonical vs]: the forest as the SPECIFICATION presents it.  It differs from the forest handed to the Writer in
   exactly three presentation points, each forced by the Ion data model:
   - a symbol written by ID ($1..$9: the Writer emits `$n`) is, in text, the system symbol with that ID: the
     specification resolves it to its text ([resolve_sid system_ctx]); $0 stays the symbol without text;
   - every NaN is written `nan` and read as the one NaN of the text format (0x7FF8000000000000);
   - nested annotation wrappers [VAnn a (VAnn b x)] are one annotation list a ++ b, [VAnn [] x] is x
     ([show_value] prints both the same way already).
   [float_spec_ok], [dec_len_ok]: what SpecText needs of the [formats] oracle beyond WriteSpell's hypotheses. *)
From Coq Require Import String List NArith ZArith Bool.
From IonV Require Import Base.Wire Data.Ion Num.Float Bin.SpecBin Text.TextOut Text.TextWriter Text.Tokenizer Text.TextReader
  Text.SpellNum Text.WriteSpell Text.SpecAgreeTextNum.
Import ListNotations.
Open Scope N_scope.

Definition csym (y : symv) : symv :=
  match y with
  | SymText _ => y
  | SymSid n => match resolve_sid system_ctx n with Some y' => y' | None => y end
  end.
Definition cfloat (b : N) : N :=
  if f64_is_nan b then canonical_nan64
  else if f64_is_inf b then (if f64_sign b =? 0 then inf_bits else neg_inf_bits)     (* = b when b < 2^64 *)
  else b.
Definition mk_ann (a : list symv) (v : value) : value := match a with [] => v | _ => VAnn a v end.

(* [acc]: the annotations collected so far, already canonical *)
Fixpoint canon_a (acc : list symv) (v : value) : value :=
  match v with
  | VAnn a x => canon_a (acc ++ map csym a) x
  | VList l => mk_ann acc (VList (map (canon_a []) l))
  | VSexp l => mk_ann acc (VSexp (map (canon_a []) l))
  | VStruct fs => mk_ann acc (VStruct (map (fun '(n, x) => (csym n, canon_a [] x)) fs))
  | VFloat b => mk_ann acc (VFloat (cfloat b))
  | VSymbol y => mk_ann acc (VSymbol (csym y))
  | _ => mk_ann acc v
  end.
Definition canon (v : value) : value := canon_a [] v.
Definition canonical (vs : list value) : list value := map canon vs.

(* values on which [canonical] changes nothing observable: no symbol by ID other than $0, NaN canonical,
   float bit patterns below 2^64 *)
Definition plain_sym (y : symv) : Prop := match y with SymText _ => True | SymSid n => n = 0 end.
Fixpoint plain_value (v : value) : Prop :=
  match v with
  | VAnn a x => Forall plain_sym a /\ plain_value x
  | VList l => (fix go (l : list value) : Prop := match l with [] => True | x :: r => plain_value x /\ go r end) l
  | VSexp l => (fix go (l : list value) : Prop := match l with [] => True | x :: r => plain_value x /\ go r end) l
  | VStruct fs => (fix go (l : list (symv * value)) : Prop :=
                     match l with [] => True | (n, x) :: r => plain_sym n /\ plain_value x /\ go r end) fs
  | VFloat b => b < 2 ^ 64 /\ (f64_is_nan b = true -> b = canonical_nan64)
  | VSymbol y => plain_sym y
  | _ => True
  end.

(* ---- what the specification needs of the formats oracle ------------------------------------------------------------ *)
Section Fmt.
Variable F : formats.
(* the float text is a literal of the grammar (as [float_fmt_ok]) AND the correctly rounded binary64 of the decimal
   it spells is the value written: strconv.FormatFloat(v,'e',-1,64) is the shortest text that rounds back to v;
   neither it nor strconv.ParseFloat is modelled, so this is a hypothesis on the oracle *)
Definition float_spec_ok (bits : N) : Prop :=
  exists n, plain_num n /\ num_kind n = NKFloat /\ format_float (fmt_float F) bits = num_text n /\ float_denotes n = bits.
(* the decimal text is a Go string: shorter than 2^62 bytes (with 2^64 fraction digits ParseDecimal's int64
   exponent arithmetic would wrap and [dec_fmt_ok] would not pin the value) *)
Definition dec_len_ok (d : dec) : Prop := (Z.of_nat (length (fmt_dec F d)) < 4611686018427387904)%Z.

Fixpoint spec_fmt (v : value) : Prop :=
  match v with
  | VAnn _ x => spec_fmt x
  | VList l => (fix go (l : list value) : Prop := match l with [] => True | x :: r => spec_fmt x /\ go r end) l
  | VSexp l => (fix go (l : list value) : Prop := match l with [] => True | x :: r => spec_fmt x /\ go r end) l
  | VStruct fs => (fix go (l : list (symv * value)) : Prop :=
                     match l with [] => True | (_, x) :: r => spec_fmt x /\ go r end) fs
  | VFloat b => f64_is_nan b = true \/ f64_is_inf b = true \/ float_spec_ok b
  | VDecimal d => dec_len_ok d
  | _ => True
  end.
End Fmt.
