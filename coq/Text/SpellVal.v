(* SpellVal.v — C02, stage 8b: one round of the reader's Next on every class of scalar literal.

   For each class: tokenizer.Next classifies the first character(s), the handler of
   nextBeforeTypeAnnotations reads the literal with the stage 2-7 theorems and sets type and
   value.  Every lemma has the shape
     rrun (x_next_loop ... (S kk) fuel) (state: stream = zs w ++ zs literal ++ s, state BeforeTypeAnnotations)
          true (same state with type/value set, stream = what is left)
   for any whitespace run w in front, in any container context. *)
From Coq Require Import String List NArith ZArith Bool Lia ZifyBool ZifyN ZifyNat.
From IonV Require Import Base.Wire Base.Utf8 Data.Ion Bin.Bits Bin.BitStream Bin.BinReader Text.Tokenizer Text.Skipper
  Text.TextReader Text.TextNum Text.SpellBase Text.SpellWs Text.SpellNum Text.SpellTok Text.SpellRead
  Text.SpellEsc Text.SpellStr Text.SpellLong Text.SpellTs Text.SpellBlob.
Import ListNotations.
Open Scope Z_scope.

(* the first character of a token is a stop for the whitespace before it *)
Lemma ws_stop_cons c r : is_whitespace c = false -> c <> c_slash -> ws_stop (c :: r) = true.
Proof.
  intros H1 H2. unfold ws_stop. cbn [shead stail]. rewrite H1. destruct (Z.eqb_spec c c_slash); [contradiction|reflexivity].
Qed.
Lemma after_stop_cons c r : c <> c_slash -> after_stop (c :: r) = r.
Proof. intros H. unfold after_stop. cbn [shead stail]. destruct (Z.eqb_spec c c_slash); [contradiction|reflexivity]. Qed.

Lemma shead_pks n s : shead (pks n s) = shead s.
Proof. destruct n; [reflexivity|]. cbn [pks]. destruct s as [|c r]; [reflexivity|]. destruct (c =? -1); reflexivity. Qed.
Lemma pks_zs_app : forall a n s, pks n (zs a ++ s) = zs a ++ pks (n - length a) s.
Proof.
  induction a as [|c a IH]; intros n s; cbn [zs map app length].
  - now rewrite Nat.sub_0_r.
  - destruct n as [|n]; [reflexivity|]. cbn [pks]. destruct (Z.eqb_spec (Z.of_N c) (-1)); [lia|].
    cbn [Nat.sub]. f_equal. apply IH.
Qed.
Lemma terminated_pks n s : terminated s = true -> terminated (pks n s) = true.
Proof.
  unfold terminated, stops. intros H. rewrite shead_pks. destruct (is_stop_char (shead s)); [reflexivity|]. cbn [orb] in *.
  apply andb_true_iff in H as [H1 H2]. rewrite H1. cbn [andb].
  destruct n as [|n]; [exact H2|]. cbn [pks]. destruct s as [|c r]; [discriminate H1|].
  cbn [shead stail] in *. assert (c = c_slash) by lia. subst c. change (c_slash =? -1) with false. cbv iota.
  cbn [stail]. now rewrite shead_pks.
Qed.

Section Values.
Variable pd : list N -> res dec.
Variable pt : list N -> res (list N).
Variable api : xstate -> xstate * res bool.
Notation BTA := trsBeforeTypeAnnotations.

(* ---- decimal-radix numbers ------------------------------------------------------------------------------------------ *)
(* how far the look-ahead of scanForNumericType reaches beyond the literal *)
Definition num_look (n : numsp) : nat :=
  (4 - (length (n_iw n) - 1 + length ((if n_dot n then 46%N :: n_fw n else []) ++ exp_text (n_exp n))))%nat.
Lemma next_number w n s ty v k0 ctx lst fld ann ty0 v0 kk fuel :
  ws_run w -> no_cr w -> num_wf n -> terminated s = true -> num_value pd n = Some (ty, v) ->
  rrun (x_next_loop pd pt api (S kk) fuel)
       (mkax (zs w ++ zs (num_text n) ++ s) k0 false BTA ctx false false lst fld ann ty0 v0) true
       (mkax (unterm (pks (num_look n) s)) tokenNumber true (after_value_state ctx) ctx false false lst fld ann ty v).
Proof.
  intros Hw Hcr Hwf Hs Hv. pose proof Hwf as (Hi & Hl & Hf & He).
  inversion Hi as [c0 iw' ip' Hc0 Ht Hiw Hip].
  set (tl := iw' ++ (if n_dot n then 46%N :: n_fw n else []) ++ exp_text (n_exp n)).
  set (m := (4 - length tl)%nat).
  assert (Hm : num_look n = m).
  { unfold num_look, m, tl. rewrite <- Hiw. rewrite !app_length. cbn [length]. lia. }
  rewrite Hm.
  destruct (dec_valid c0 Hc0) as (Hd & _ & _).
  (* the stream, with the first character(s) exposed *)
  assert (Hlit : num_text n = sign_bytes (n_neg n) ++ c0 :: tl).
  { unfold num_text, tl. rewrite <- Hiw. cbn [app]. reflexivity. }
  assert (Hkind : scan_kind (Z.of_N c0) (zs tl ++ s) = tokenNumber).
  { unfold tl. apply (scan_kind_number n c0 iw' ip' s); auto. }
  set (SS := zs (num_text n) ++ s).
  assert (HSS : SS = (if n_neg n then c_minus :: Z.of_N c0 :: zs tl ++ s else Z.of_N c0 :: zs tl ++ s)).
  { unfold SS. rewrite Hlit, zs_app, <- app_assoc. destruct (n_neg n); reflexivity. }
  assert (Hhd : shead SS = (if n_neg n then c_minus else Z.of_N c0)) by (rewrite HSS; destruct (n_neg n); reflexivity).
  assert (Hst : ws_stop SS = true).
  { rewrite HSS. destruct (n_neg n); apply ws_stop_cons; try reflexivity; try discriminate.
    - unfold is_digit in Hd. unfold is_whitespace, zmem. cbn [existsb]. lia.
    - unfold is_digit, c_slash in *. lia. }
  assert (Has : after_stop SS = (if n_neg n then Z.of_N c0 :: zs tl ++ s else zs tl ++ s)).
  { rewrite HSS. destruct (n_neg n); apply after_stop_cons; [discriminate|]. unfold is_digit, c_slash in *. lia. }
  eapply (loop_plain pd pt api w SS k0 tokenNumber true (zs (num_text n) ++ pks m s)); auto.
  - rewrite Hhd, Has.
    eapply eq_rect; [apply (runK_dispatch_number (n_neg n) (Z.of_N c0) (zs tl ++ s) k0 false tokenNumber Hd Hkind); discriminate|].
    f_equal. f_equal. rewrite Hlit, zs_app, <- app_assoc, pks_zs_app. fold m.
    destruct (n_neg n); reflexivity.
  - apply (rrun_plain_number pd pt n (pks m s) ty v); auto. now apply terminated_pks.
Qed.

(* ReadValue = the reader of the token kind, then the unfinished flag is cleared *)
Lemma runK_read_value tok (m : M (list N)) s k u a s' :
  (forall t, t_read_value tok t = (tdo str <- m; tdo _ <- finish; ret str) t) ->
  run m s a s' -> runK (t_read_value tok) (s, k, u) a (s', k, false).
Proof.
  intros Hsel Hm t Hi Ha. rewrite Hsel.
  revert t Hi Ha. change (runK (tdo str <- m; tdo _ <- finish; ret str) (s, k, u) a (s', k, false)).
  eapply runK_bind; [apply run_runK, Hm|]. eapply runK_bind; [apply runK_finish|]. apply runK_ret.
Qed.

(* ---- 0x / 0b integers -------------------------------------------------------------------------------------------------- *)
Lemma pk_cons n c r : c <> -1 -> pk (S n) (c :: r) = (c :: fst (pk n r), snd (pk n r)).
Proof. intros H. cbn [pk]. destruct (Z.eqb_spec c (-1)); [contradiction|]. destruct (pk n r); reflexivity. Qed.
Lemma scan_kind_radix m r : (0 <= m) -> is_b m = true \/ is_x m = true ->
  scan_kind 48 (m :: r) = if is_b m then tokenBinary else tokenHex.
Proof.
  intros Hm Hbx. unfold scan_kind. rewrite pk_cons by lia. cbn [fst length znth nth].
  change (48 =? c_0) with true. change (0 <? S (length (fst (pk 3 r))))%nat with true. cbn [andb].
  destruct (is_b m); [reflexivity|]. destruct Hbx as [Hb|Hx]; [discriminate|]. now rewrite Hx.
Qed.

Lemma next_radix (hex : bool) w neg m dw p s k0 ctx lst fld ann ty0 v0 kk fuel :
  ws_run w -> no_cr w ->
  (if hex then (m = 120 \/ m = 88)%N /\ us_digits is_hex_b dw p else (m = 98 \/ m = 66)%N /\ us_digits is_bin_b dw p) ->
  terminated s = true ->
  rrun (x_next_loop pd pt api (S kk) fuel)
       (mkax (zs w ++ zs (sign_bytes neg ++ 48%N :: m :: dw) ++ s) k0 false BTA ctx false false lst fld ann ty0 v0) true
       (mkax (unterm (pks (3 - length dw) s)) (if hex then tokenHex else tokenBinary) false (after_value_state ctx) ctx false false lst fld ann
             TInt (XInt (mk_int (sgn neg (digits_value (if hex then 16 else 2) p))))).
Proof.
  intros Hw Hcr Hm Hs.
  set (tk := if hex then tokenHex else tokenBinary).
  set (SS := zs (sign_bytes neg ++ 48%N :: m :: dw) ++ s).
  assert (Hm0 : (m = 120 \/ m = 88 \/ m = 98 \/ m = 66)%N) by (destruct hex; destruct Hm as [[?|?] _]; auto).
  assert (Hkind : scan_kind 48 (Z.of_N m :: zs dw ++ s) = tk).
  { unfold tk. destruct hex; destruct Hm as [[->| ->] _]; (rewrite scan_kind_radix; [reflexivity|lia|]); (now left) || (now right). }
  assert (HSS : SS = (if neg then c_minus :: 48 :: Z.of_N m :: zs dw ++ s else 48 :: Z.of_N m :: zs dw ++ s)).
  { unfold SS. rewrite zs_app, <- app_assoc. destruct neg; reflexivity. }
  assert (Hhd : shead SS = (if neg then c_minus else 48)) by (rewrite HSS; destruct neg; reflexivity).
  assert (Hst : ws_stop SS = true) by (rewrite HSS; destruct neg; reflexivity).
  assert (Has : after_stop SS = (if neg then 48 :: Z.of_N m :: zs dw ++ s else Z.of_N m :: zs dw ++ s)).
  { rewrite HSS. destruct neg; reflexivity. }
  assert (Hpks : pks 4 (Z.of_N m :: zs dw ++ s) = Z.of_N m :: zs dw ++ pks (3 - length dw) s).
  { change (Z.of_N m :: zs dw ++ s) with (zs (m :: dw) ++ s). rewrite pks_zs_app. reflexivity. }
  eapply (loop_plain pd pt api w SS k0 tk true (zs (sign_bytes neg ++ 48%N :: m :: dw) ++ pks (3 - length dw) s)); auto.
  - rewrite Hhd, Has.
    eapply eq_rect; [apply (runK_dispatch_number neg 48 (Z.of_N m :: zs dw ++ s) k0 false tk eq_refl Hkind)|].
    + unfold tk. destruct hex; discriminate.
    + f_equal. f_equal. rewrite Hpks, zs_app, <- app_assoc. destruct neg; reflexivity.
  - unfold tk. destruct hex; reflexivity.
  - pose proof (terminated_pks (3 - length dw) s Hs) as Hs'.
    assert (Hut : unterm (pks (3 - length dw) s) = unterm s \/ True) by (right; exact I). clear Hut.
    unfold plain_handler, tk. destruct hex; tok_cbn; unfold on_number; tok_cbn; destruct Hm as [Hm Hd].
    + eapply rrun_bind; [|apply rrun_ret].
      eapply rrun_bind.
      { apply rrun_lift. cbn [a_s a_k a_u].
        apply (runK_read_value tokenHex read_hex); [reflexivity|].
        apply (run_read_hex neg m dw p _ Hm Hd Hs'). }
      eapply rrun_bind; [apply rrun_of_res, (parse_int_hex neg m dw p Hd)|].
      unfold ax_tok. cbn [a_s a_k a_u a_state a_ctx a_eof a_err a_lst a_field a_annots a_type a_value].
      apply rrun_set_value.
    + eapply rrun_bind; [|apply rrun_ret].
      eapply rrun_bind.
      { apply rrun_lift. cbn [a_s a_k a_u].
        apply (runK_read_value tokenBinary read_binary); [reflexivity|].
        apply (run_read_binary neg m dw p _ Hm Hd Hs'). }
      eapply rrun_bind; [apply rrun_of_res, (parse_int_bin neg m dw p Hd)|].
      unfold ax_tok. cbn [a_s a_k a_u a_state a_ctx a_eof a_err a_lst a_field a_annots a_type a_value].
      apply rrun_set_value.
Qed.

(* ---- short strings ------------------------------------------------------------------------------------------------------- *)
Lemma next_string w body text s k0 ctx lst fld ann ty0 v0 kk fuel :
  ws_run w -> no_cr w -> qbody 34 body text -> no_cr body -> utf8_valid text = true ->
  rrun (x_next_loop pd pt api (S kk) fuel)
       (mkax (zs w ++ 34 :: zs body ++ 34 :: s) k0 false BTA ctx false false lst fld ann ty0 v0) true
       (mkax s tokenString false (after_value_state ctx) ctx false false lst fld ann TString (XString text)).
Proof.
  intros Hw Hcr Hb Hcb Hu.
  eapply (loop_plain pd pt api w (34 :: zs body ++ 34 :: s) k0 tokenString true (zs body ++ 34 :: s)); auto.
  - cbn [shead]. change (after_stop (34 :: zs body ++ 34 :: s)) with (zs body ++ 34 :: s).
    change (next_dispatch 34) with (t_ok tokenString true). apply runK_t_ok.
  - unfold plain_handler. tok_cbn.
    eapply rrun_bind.
    { apply rrun_lift. cbn [a_s a_k a_u].
      apply (runK_read_value tokenString read_string); [reflexivity|].
      apply (run_read_string body text s Hb Hcb Hu). }
    unfold ax_tok. cbn [a_s a_k a_u a_state a_ctx a_eof a_err a_lst a_field a_annots a_type a_value].
    eapply rrun_bind; [apply rrun_set_value|]. apply rrun_ret.
Qed.

(* ---- long strings --------------------------------------------------------------------------------------------------------- *)
Lemma next_long_string w body ts ws s k0 ctx lst fld ann ty0 v0 kk fuel :
  ws_run w -> no_cr w -> lsegs body ts -> no_cr body -> valid_segs ts ->
  ws_run ws -> no_cr ws -> ws_stop s = true -> starts3 s = false ->
  rrun (x_next_loop pd pt api (S kk) fuel)
       (mkax (zs w ++ 39 :: 39 :: 39 :: zs body ++ zs ws ++ s) k0 false BTA ctx false false lst fld ann ty0 v0) true
       (mkax (long_end s) tokenLongString false (after_value_state ctx) ctx false false lst fld ann
             TString (XString (concat ts))).
Proof.
  intros Hw Hcr Hb Hcb Hv Hws Hcws Hs H3.
  set (rest := zs body ++ zs ws ++ s).
  eapply (loop_plain pd pt api w (39 :: 39 :: 39 :: rest) k0 tokenLongString true rest); auto.
  - cbn [shead]. change (after_stop (39 :: 39 :: 39 :: rest)) with (39 :: 39 :: rest).
    change (next_dispatch 39) with (tdo ok <- t_is_triple_quote; if ok then t_ok tokenLongString true else t_ok tokenSymbolQuoted true).
    eapply runK_bind; [apply run_runK, run_is_triple_quote|].
    change (triple (39 :: 39 :: rest)) with true. cbv iota. cbn [stail]. apply runK_t_ok.
  - unfold plain_handler. tok_cbn.
    eapply rrun_bind.
    { apply rrun_lift. cbn [a_s a_k a_u].
      apply (runK_read_value tokenLongString read_long_string); [reflexivity|].
      apply (run_read_long_string body ts ws s); auto. }
    unfold ax_tok. cbn [a_s a_k a_u a_state a_ctx a_eof a_err a_lst a_field a_annots a_type a_value].
    eapply rrun_bind; [apply rrun_set_value|]. apply rrun_ret.
Qed.

(* ---- timestamps ------------------------------------------------------------------------------------------------------------ *)
Lemma ts_text_head sh rest : ts_fits sh = true ->
  exists a b c d e r, ts_text sh ++ rest = a :: b :: c :: d :: e :: r /\
    is_dec_b a = true /\ is_dec_b b = true /\ is_dec_b c = true /\ is_dec_b d = true /\ (e = 84 \/ e = 45)%N.
Proof.
  intros Hf. pose proof (looks_like_timestamp_spelling sh rest Hf) as H. unfold SpecText.looks_like_timestamp in H.
  destruct (ts_text sh ++ rest) as [|a [|b [|c [|d [|e r]]]]]; try discriminate H.
  exists a, b, c, d, e, r. split; [reflexivity|].
  unfold SpecText.is_digit, SpecText.in_rng, is_dec_b in *. lia.
Qed.
Lemma scan_kind_ts a b c d e r :
  is_dec_b a = true -> is_dec_b b = true -> is_dec_b c = true -> is_dec_b d = true -> (e = 84 \/ e = 45)%N ->
  scan_kind (Z.of_N a) (Z.of_N b :: Z.of_N c :: Z.of_N d :: Z.of_N e :: r) = tokenTimestamp.
Proof.
  intros Ha Hb Hc Hd He. unfold scan_kind.
  rewrite pk_cons by lia. rewrite pk_cons by lia. rewrite pk_cons by lia. rewrite pk_cons by lia.
  cbn [fst snd pk length znth nth].
  unfold is_dec_b in *. unfold is_b, is_x, is_digit, c_minus, c_T.
  replace (Z.of_N b =? 98) with false by lia. replace (Z.of_N b =? 66) with false by lia.
  replace (Z.of_N b =? 120) with false by lia. replace (Z.of_N b =? 88) with false by lia.
  rewrite !andb_false_r. cbn [orb].
  replace ((48 <=? Z.of_N b) && (Z.of_N b <=? 57)) with true by lia.
  replace ((48 <=? Z.of_N c) && (Z.of_N c <=? 57)) with true by lia.
  replace ((48 <=? Z.of_N d) && (Z.of_N d <=? 57)) with true by lia.
  replace ((Z.of_N e =? 45) || (Z.of_N e =? 84)) with true by lia. reflexivity.
Qed.

Lemma next_timestamp w sh fields s k0 ctx lst fld ann ty0 v0 kk fuel :
  ws_run w -> no_cr w -> ts_fits sh = true -> pt (ts_text sh) = Ok fields -> terminated s = true ->
  rrun (x_next_loop pd pt api (S kk) fuel)
       (mkax (zs w ++ zs (ts_text sh) ++ s) k0 false BTA ctx false false lst fld ann ty0 v0) true
       (mkax (unterm s) tokenTimestamp false (after_value_state ctx) ctx false false lst fld ann
             TTimestamp (XTimestamp fields)).
Proof.
  intros Hw Hcr Hf Hpt Hs.
  destruct (ts_text_head sh [] Hf) as (a & b & c & d & e & r & E & Ha & Hb & Hc & Hd & He).
  rewrite app_nil_r in E.
  set (tl := b :: c :: d :: e :: r).
  change (unterm s) with (unterm (pks (4 - length tl) s)).
  destruct (dec_valid a Ha) as (Hda & _ & _).
  assert (Hkind : scan_kind (Z.of_N a) (zs tl ++ s) = tokenTimestamp).
  { unfold tl. cbn [zs map app]. apply scan_kind_ts; auto. }
  eapply (loop_plain pd pt api w (zs (ts_text sh) ++ s) k0 tokenTimestamp true
            (zs (ts_text sh) ++ pks (4 - length tl) s)); auto.
  - rewrite E. cbn [zs map app]. apply ws_stop_cons.
    + unfold is_digit in Hda. unfold is_whitespace, zmem. cbn [existsb]. lia.
    + unfold is_digit, c_slash in *. lia.
  - rewrite E. cbn [zs map app shead]. rewrite after_stop_cons by (unfold is_digit, c_slash in *; lia).
    eapply eq_rect; [apply (runK_dispatch_number false (Z.of_N a) (zs tl ++ s) k0 false tokenTimestamp Hda Hkind)|].
    + discriminate.
    + cbn [app]. f_equal. f_equal. rewrite pks_zs_app. reflexivity.
  - unfold plain_handler. tok_cbn. unfold on_timestamp.
    eapply rrun_bind; [|apply rrun_ret].
    eapply rrun_bind.
    { apply rrun_lift. cbn [a_s a_k a_u].
      apply (runK_read_value tokenTimestamp read_timestamp); [reflexivity|].
      apply (read_timestamp_run sh _ Hf). apply (terminated_pks _ s Hs). }
    eapply rrun_bind; [apply rrun_of_res; exact Hpt|].
    unfold ax_tok. cbn [a_s a_k a_u a_state a_ctx a_eof a_err a_lst a_field a_annots a_type a_value].
    apply rrun_set_value.
Qed.

(* ---- blobs and clobs -------------------------------------------------------------------------------------------------------- *)
(* Next on `{{` *)
Lemma runK_dispatch_lob rest k0 :
  runK (next_dispatch 123) (123 :: rest, k0, false) tt (rest, tokenOpenDoubleBrace, true).
Proof.
  change (next_dispatch 123) with
    (tdo c2 <- t_peek; if c2 =? c_lbrace then tdo _ <- t_read; t_ok tokenOpenDoubleBrace true else t_ok tokenOpenBrace true).
  eapply runK_bind; [apply run_runK, run_peek_cons|]. change (123 =? c_lbrace) with true. cbv iota.
  eapply runK_bind; [apply run_runK, run_read_cons|]. apply runK_t_ok.
Qed.
Lemma loop_lob w rest k0 ctx lst fld ann ty0 v0 X' kk fuel :
  ws_run w -> no_cr w ->
  rrun on_lob (mkax rest tokenOpenDoubleBrace true BTA ctx false false lst fld ann ty0 v0) tt X' -> a_eof X' = false ->
  rrun (x_next_loop pd pt api (S kk) fuel)
       (mkax (zs w ++ 123 :: 123 :: rest) k0 false BTA ctx false false lst fld ann ty0 v0) true X'.
Proof.
  intros Hw Hcr Hl He.
  eapply (loop_plain pd pt api w (123 :: 123 :: rest) k0 tokenOpenDoubleBrace true rest); auto.
  - cbn [shead]. change (after_stop (123 :: 123 :: rest)) with (123 :: rest). apply runK_dispatch_lob.
  - unfold plain_handler. tok_cbn. eapply rrun_bind; [exact Hl|]. apply rrun_ret.
Qed.

Lemma b64_text_head c chars bytes : b64_text (c :: chars) bytes -> c <> 34%N /\ c <> 39%N /\ blob_byte c.
Proof.
  intros H. assert (Hc : exists v, b64_char c v) by (inversion H; subst; eauto).
  destruct Hc as (v & Hv). split; [|split; [|exact (b64_char_blob_byte c v Hv)]];
    intros ->; discriminate Hv.
Qed.

Lemma next_blob w bw chars bytes s k0 ctx lst fld ann ty0 v0 kk fuel :
  ws_run w -> no_cr w -> interleaved bw chars -> b64_text chars bytes ->
  rrun (x_next_loop pd pt api (S kk) fuel)
       (mkax (zs w ++ 123 :: 123 :: zs bw ++ 125 :: 125 :: s) k0 false BTA ctx false false lst fld ann ty0 v0) true
       (mkax s tokenOpenDoubleBrace false (after_value_state ctx) ctx false false lst fld ann TBlob (XBytes bytes)).
Proof.
  intros Hw Hcr Hbw Hb. apply loop_lob; auto. unfold on_lob.
  (* the leading whitespace, then the first character is pushed back *)
  assert (Hsplit : exists ws0 bw', ws_plain ws0 /\ bw = ws0 ++ bw' /\ interleaved bw' chars /\
                   is_whitespace (shead (zs bw' ++ 125 :: 125 :: s)) = false /\
                   shead (zs bw' ++ 125 :: 125 :: s) <> c_dquote /\ shead (zs bw' ++ 125 :: 125 :: s) <> c_quote).
  { inversion Hbw as [ws0 Hws0|ws0 c w1 chars1 Hws0 Hc Hw1]; subst.
    - exists bw, []. rewrite app_nil_r. repeat split; auto; [constructor; constructor|discriminate|discriminate].
    - exists ws0, (c :: w1). destruct (b64_text_head c chars1 bytes Hb) as (H34 & H39 & _).
      repeat split; auto.
      + change (c :: w1) with ([] ++ c :: w1). apply il_ch; auto. constructor.
      + cbn [zs map app shead]. destruct Hc as (Hc1 & _ & Hc3). unfold ws_byte in Hc1. unfold is_whitespace, zmem. cbn [existsb]. lia.
      + cbn [zs map app shead]. unfold c_dquote. lia.
      + cbn [zs map app shead]. unfold c_quote. lia. }
  destruct Hsplit as (ws0 & bw' & Hws0 & -> & Hbw' & Hnws & H34 & H39).
  set (S1 := zs bw' ++ 125 :: 125 :: s) in *.
  eapply rrun_bind.
  { apply rrun_lift_run. cbn [a_s]. unfold t_skip_lob_ws.
    rewrite zs_app, <- app_assoc. fold S1.
    eapply run_bind; [apply (run_t_skip_lob_whitespace ws0 S1 Hws0 Hnws)|]. cbv beta iota. apply run_ret. }
  unfold ax_tok. cbn [a_s a_k a_u a_state a_ctx a_eof a_err a_lst a_field a_annots a_type a_value].
  destruct (Z.eqb_spec (shead S1) c_dquote); [contradiction|]. destruct (Z.eqb_spec (shead S1) c_quote); [contradiction|].
  eapply rrun_bind; [apply rrun_lift_run; cbn [a_s]; apply run_unread|].
  unfold ax_tok. cbn [a_s a_k a_u a_state a_ctx a_eof a_err a_lst a_field a_annots a_type a_value].
  assert (HS1 : shead S1 :: stail S1 = S1).
  { unfold S1. destruct bw'; reflexivity. }
  rewrite HS1.
  eapply rrun_bind; [apply rrun_lift; cbn [a_s a_k a_u]; apply (run_t_read_blob bw' chars s _ _ Hbw')|].
  rewrite (b64_decode_text chars bytes Hb).
  unfold ax_tok. cbn [a_s a_k a_u a_state a_ctx a_eof a_err a_lst a_field a_annots a_type a_value].
  apply rrun_set_value.
Qed.

Lemma next_short_clob w ws0 body bytes ws1 s k0 ctx lst fld ann ty0 v0 kk fuel :
  ws_run w -> no_cr w -> ws_plain ws0 -> cbody body bytes -> no_cr body -> ws_plain ws1 ->
  rrun (x_next_loop pd pt api (S kk) fuel)
       (mkax (zs w ++ 123 :: 123 :: zs ws0 ++ 34 :: zs body ++ 34 :: zs ws1 ++ 125 :: 125 :: s) k0 false BTA ctx
             false false lst fld ann ty0 v0) true
       (mkax s tokenOpenDoubleBrace false (after_value_state ctx) ctx false false lst fld ann TClob (XBytes bytes)).
Proof.
  intros Hw Hcr Hws0 Hb Hcb Hws1. apply loop_lob; auto. unfold on_lob.
  eapply rrun_bind.
  { apply rrun_lift_run. cbn [a_s]. unfold t_skip_lob_ws.
    eapply run_bind; [apply (run_t_skip_lob_whitespace ws0 _ Hws0); reflexivity|]. cbv beta iota. apply run_ret. }
  unfold ax_tok. cbn [a_s a_k a_u a_state a_ctx a_eof a_err a_lst a_field a_annots a_type a_value shead stail].
  change (34 =? c_dquote) with true. cbv iota.
  eapply rrun_bind.
  { apply rrun_lift. cbn [a_s a_k a_u].
    apply (run_t_read_short_clob _ bytes ws1 s); [|exact Hws1]. apply (run_read_clob body bytes _ Hb Hcb). }
  unfold ax_tok. cbn [a_s a_k a_u a_state a_ctx a_eof a_err a_lst a_field a_annots a_type a_value].
  apply rrun_set_value.
Qed.

Lemma next_long_clob w ws0 body ts ws1 s k0 ctx lst fld ann ty0 v0 kk fuel :
  ws_run w -> no_cr w -> ws_plain ws0 -> lcsegs body ts -> no_cr body -> ws_plain ws1 ->
  rrun (x_next_loop pd pt api (S kk) fuel)
       (mkax (zs w ++ 123 :: 123 :: zs ws0 ++ 39 :: 39 :: 39 :: zs body ++ zs ws1 ++ 125 :: 125 :: s) k0 false BTA ctx
             false false lst fld ann ty0 v0) true
       (mkax s tokenOpenDoubleBrace false (after_value_state ctx) ctx false false lst fld ann TClob (XBytes (concat ts))).
Proof.
  intros Hw Hcr Hws0 Hb Hcb Hws1. apply loop_lob; auto. unfold on_lob.
  eapply rrun_bind.
  { apply rrun_lift_run. cbn [a_s]. unfold t_skip_lob_ws.
    eapply run_bind; [apply (run_t_skip_lob_whitespace ws0 _ Hws0); reflexivity|]. cbv beta iota. apply run_ret. }
  unfold ax_tok. cbn [a_s a_k a_u a_state a_ctx a_eof a_err a_lst a_field a_annots a_type a_value shead stail].
  change (39 =? c_dquote) with false. change (39 =? c_quote) with true. cbv iota.
  eapply rrun_bind; [apply rrun_lift_run; cbn [a_s]; apply run_is_triple_quote|].
  match goal with |- context [triple ?r] => change (triple r) with true end. cbv iota. cbn [negb stail].
  unfold ax_tok. cbn [a_s a_k a_u a_state a_ctx a_eof a_err a_lst a_field a_annots a_type a_value].
  eapply rrun_bind.
  { apply rrun_lift. cbn [a_s a_k a_u].
    apply (run_t_read_long_clob _ (concat ts) [] s); [|constructor].
    eapply run_eq; [apply (run_read_long_clob body ts ws1 (125 :: 125 :: s)); auto; reflexivity|reflexivity|].
    apply long_end_lob_other. discriminate. }
  unfold ax_tok. cbn [a_s a_k a_u a_state a_ctx a_eof a_err a_lst a_field a_annots a_type a_value].
  apply rrun_set_value.
Qed.
End Values.
