(* SpellStr.v — C02, stage 3: short strings, quoted symbols, short clob text.

   [qbody q w text]: the bytes [w] between the quotes [q] (34 for a string, 39 for a quoted
   symbol) spell [text].  A body is a sequence of
     - raw bytes: anything but the quote, the backslash, LF, CR and the control characters
       other than HT VT FF (bytes above 127 are raw pieces of UTF-8 sequences),
     - escapes: a backslash and an [esc_spells] spelling, denoting the UTF-8 encoding
       ([SpecText.utf8_enc], the specification's encoder) of the code point,
     - line continuations: a backslash and LF, CR or CR LF, denoting nothing.
   [cbody w bytes]: the body of a short clob: raw printable ASCII and HT VT FF, the clob
   escapes (one byte each), line continuations.
   Written from the Ion text grammar, independently of the tokenizer.

   Theorems: readString / readQuotedSymbol / readClob, started behind the opening quote of
   ANY such spelling followed by the closing quote, answer exactly the denoted text (for a
   string or symbol: provided the text is valid UTF-8, which is what makes the spelling one
   of an Ion string) and consume exactly the body and the closing quote. *)
From Coq Require Import String List NArith ZArith Bool Lia ZifyBool ZifyN ZifyNat.
From IonV Require Import Base.Wire Base.Utf8 Text.Tokenizer Text.Skipper Text.SpellBase Text.SpellEsc.
From IonV Require Text.SpecText.
Import ListNotations.
Open Scope Z_scope.

(* ---- the relations ---------------------------------------------------------------------------------------- *)
(* HT VT FF: the control characters allowed raw *)
Definition str_ws (c : N) : Prop := (c = 9 \/ c = 11 \/ c = 12)%N.
Definition raw_char (q c : N) : Prop :=
  (c <> q /\ c <> 92 /\ c <> 10 /\ c <> 13 /\ c < 256 /\ (32 <= c \/ str_ws c))%N.
Inductive line_cont : list N -> Prop :=
| lc_lf : line_cont [10%N]
| lc_cr : line_cont [13%N]
| lc_crlf : line_cont [13%N; 10%N].

Inductive qbody (q : N) : list N -> list N -> Prop :=
| qb_nil : qbody q [] []
| qb_raw c w t : raw_char q c -> qbody q w t -> qbody q (c :: w) (c :: t)
| qb_esc e cp w t : esc_spells e cp -> qbody q w t ->
                    qbody q (92%N :: e ++ w) (SpecText.utf8_enc (Z.to_N cp) ++ t)
| qb_cont nl w t : line_cont nl -> qbody q w t -> qbody q (92%N :: nl ++ w) t.

(* clob text: 7-bit *)
Definition clob_raw (c : N) : Prop := (c <> 34 /\ c <> 92 /\ (32 <= c <= 127 \/ str_ws c))%N.
Inductive cbody : list N -> list N -> Prop :=
| cb_nil : cbody [] []
| cb_raw c w t : clob_raw c -> cbody w t -> cbody (c :: w) (c :: t)
| cb_esc e cp w t : esc_spells_clob e cp -> cbody w t -> cbody (92%N :: e ++ w) (Z.to_N cp :: t)
| cb_cont nl w t : line_cont nl -> cbody w t -> cbody (92%N :: nl ++ w) t.

Lemma qbody_app q a ta b tb : qbody q a ta -> qbody q b tb -> qbody q (a ++ b) (ta ++ tb).
Proof.
  induction 1 as [|c w t Hc Hw IH|e cp w t He Hw IH|nl w t Hn Hw IH]; intros Hb; cbn [app].
  - exact Hb.
  - apply qb_raw; auto.
  - rewrite <- !app_assoc. apply qb_esc; auto.
  - rewrite <- app_assoc. apply qb_cont; auto.
Qed.
Lemma cbody_app a ta b tb : cbody a ta -> cbody b tb -> cbody (a ++ b) (ta ++ tb).
Proof.
  induction 1 as [|c w t Hc Hw IH|e cp w t He Hw IH|nl w t Hn Hw IH]; intros Hb; cbn [app].
  - exact Hb.
  - apply cb_raw; auto.
  - rewrite <- app_assoc. apply cb_esc; auto.
  - rewrite <- app_assoc. apply cb_cont; auto.
Qed.

(* ---- character facts ---------------------------------------------------------------------------------------- *)
Lemma ctl_ok c : (c < 256 -> 32 <= c \/ str_ws c -> is_prohibited_control_char (Z.of_N c) = false)%N.
Proof.
  unfold str_ws, is_prohibited_control_char. intros Hb [H|[->|[->| ->]]]; try reflexivity.
  replace ((Z.of_N c <? 0) || (31 <? Z.of_N c)) with true by lia. reflexivity.
Qed.
Lemma byte_of_N c : (c < 256)%N -> byte_of (Z.of_N c) = c.
Proof. intros H. unfold byte_of. rewrite Z.mod_small by lia. apply N2Z.id. Qed.

Lemma raw_char_facts q c : raw_char q c ->
  (Z.of_N c =? -1) = false /\ (Z.of_N c =? c_nl) = false /\ is_prohibited_control_char (Z.of_N c) = false /\
  (Z.of_N c =? c_bslash) = false /\ (Z.of_N c =? Z.of_N q) = false /\ byte_of (Z.of_N c) = c.
Proof.
  intros (Hq & Hb & Hn & Hr & H256 & Hc). unfold c_nl, c_bslash.
  repeat split; try lia; [apply ctl_ok; assumption|apply byte_of_N; assumption].
Qed.
Lemma clob_raw_facts c : clob_raw c ->
  (Z.of_N c =? -1) = false /\ (Z.of_N c =? c_nl) = false /\ is_prohibited_control_char (Z.of_N c) = false /\
  is_ascii (Z.of_N c) = true /\
  (Z.of_N c =? c_bslash) = false /\ (Z.of_N c =? c_dquote) = false /\ byte_of (Z.of_N c) = c.
Proof.
  intros (Hq & Hb & Hc). unfold c_nl, c_bslash, c_dquote, is_ascii.
  assert (H256 : (c < 256)%N) by (unfold str_ws in Hc; lia).
  assert (Hc' : (32 <= c \/ str_ws c)%N) by (destruct Hc as [Hc|Hc]; [left; lia|right; exact Hc]).
  repeat split; try (unfold str_ws in Hc; lia); [apply ctl_ok; assumption|apply byte_of_N; assumption].
Qed.
(* in a CR-free spelling the only line continuation is backslash LF *)
Lemma line_cont_no_cr nl : line_cont nl -> no_cr nl -> nl = [10%N].
Proof.
  intros [ | | ] H; [reflexivity| |]; inversion H as [|? ? Hc _]; subst; contradiction.
Qed.
Lemma no_cr_cons c l : no_cr (c :: l) -> c <> 13%N /\ no_cr l.
Proof. intros H. inversion H; subst. auto. Qed.

(* ---- readString ------------------------------------------------------------------------------------------------ *)
Lemma run_read_string_loop : forall w t, qbody 34 w t -> forall f acc s,
  no_cr w -> (length w < f)%nat -> utf8_valid (rev acc ++ t) = true ->
  run (read_string_loop f acc) (zs w ++ 34 :: s) (rev acc ++ t) s.
Proof.
  induction 1 as [|c w t Hc Hw IH|e cp w t He Hw IH|nl w t Hn Hw IH]; intros f acc s Hcr Hf Hu;
    (destruct f as [|f]; [cbn [length] in Hf; lia|]); cbn [read_string_loop].
  - cbn [zs map app]. eapply run_bind; [apply run_read_cons|].
    change ((34 =? -1) || (34 =? c_nl) || is_prohibited_control_char 34) with false.
    change (34 =? c_dquote) with true. cbv iota. rewrite app_nil_r in *. unfold check_utf8. rewrite Hu. apply run_ret.
  - cbn [zs map app]. eapply run_bind; [apply run_read_cons|].
    destruct (raw_char_facts 34 c Hc) as (H1 & H2 & H3 & H4 & H5 & H6).
    rewrite H1, H2, H3. cbn [orb]. unfold c_dquote. change 34 with (Z.of_N 34). rewrite H5, H4, H6.
    apply no_cr_cons in Hcr as [_ Hcr].
    eapply run_eq; [apply (IH f (c :: acc) s)| |reflexivity]; auto.
    + cbn [length] in Hf. lia.
    + cbn [rev]. rewrite <- app_assoc. exact Hu.
    + cbn [rev]. rewrite <- app_assoc. reflexivity.
  - cbn [zs map app]. rewrite zs_app, <- app_assoc. eapply run_bind; [apply run_read_cons|].
    change ((Z.of_N 92 =? -1) || (Z.of_N 92 =? c_nl) || is_prohibited_control_char (Z.of_N 92)) with false.
    change (Z.of_N 92 =? c_dquote) with false. change (Z.of_N 92 =? c_bslash) with true. cbv iota.
    eapply run_bind; [apply (run_process_backslash e cp _ He)|].
    rewrite (esc_spells_enc e cp He) in *.
    apply no_cr_cons in Hcr as [_ Hcr]. apply no_cr_app in Hcr as [_ Hcr].
    eapply run_eq; [apply (IH f (rev (SpecText.utf8_enc (Z.to_N cp)) ++ acc) s)| |reflexivity]; auto.
    + cbn [length] in Hf. rewrite app_length in Hf. lia.
    + rewrite rev_app_distr, rev_involutive, <- app_assoc. exact Hu.
    + rewrite rev_app_distr, rev_involutive, <- app_assoc. reflexivity.
  - apply no_cr_cons in Hcr as [_ Hcr]. apply no_cr_app in Hcr as [Hcn Hcr].
    rewrite (line_cont_no_cr nl Hn Hcn) in *. cbn [zs map app].
    eapply run_bind; [apply run_read_cons|].
    change ((Z.of_N 92 =? -1) || (Z.of_N 92 =? c_nl) || is_prohibited_control_char (Z.of_N 92)) with false.
    change (Z.of_N 92 =? c_dquote) with false. change (Z.of_N 92 =? c_bslash) with true. cbv iota.
    eapply run_bind; [apply run_process_backslash_nl|]. cbn [rev app].
    apply IH; auto. cbn [length app] in Hf. lia.
Qed.
Theorem run_read_string w text s :
  qbody 34 w text -> no_cr w -> utf8_valid text = true ->
  run read_string (zs w ++ 34 :: s) text s.
Proof.
  intros Hw Hcr Hu. unfold read_string. apply run_with_fuel. intros f Hf.
  rewrite nne_app, nne_zs in Hf.
  apply (run_read_string_loop w text Hw f [] s); auto. lia.
Qed.

(* ---- readQuotedSymbol ------------------------------------------------------------------------------------------------ *)
Lemma run_read_quoted_symbol_loop : forall w t, qbody 39 w t -> forall f acc s,
  no_cr w -> (length w < f)%nat -> utf8_valid (rev acc ++ t) = true ->
  run (read_quoted_symbol_loop f acc) (zs w ++ 39 :: s) (rev acc ++ t) s.
Proof.
  induction 1 as [|c w t Hc Hw IH|e cp w t He Hw IH|nl w t Hn Hw IH]; intros f acc s Hcr Hf Hu;
    (destruct f as [|f]; [cbn [length] in Hf; lia|]); cbn [read_quoted_symbol_loop].
  - cbn [zs map app]. eapply run_bind; [apply run_read_cons|].
    change (is_prohibited_control_char 39) with false. change ((39 =? -1) || (39 =? c_nl)) with false.
    change (39 =? c_quote) with true. cbv iota. rewrite app_nil_r in *. unfold check_utf8. rewrite Hu. apply run_ret.
  - cbn [zs map app]. eapply run_bind; [apply run_read_cons|].
    destruct (raw_char_facts 39 c Hc) as (H1 & H2 & H3 & H4 & H5 & H6).
    rewrite H1, H2, H3. cbn [orb]. unfold c_quote. change 39 with (Z.of_N 39). rewrite H5, H4, H6.
    apply no_cr_cons in Hcr as [_ Hcr].
    eapply run_eq; [apply (IH f (c :: acc) s)| |reflexivity]; auto.
    + cbn [length] in Hf. lia.
    + cbn [rev]. rewrite <- app_assoc. exact Hu.
    + cbn [rev]. rewrite <- app_assoc. reflexivity.
  - cbn [zs map app]. rewrite zs_app, <- app_assoc. eapply run_bind; [apply run_read_cons|].
    change (is_prohibited_control_char (Z.of_N 92)) with false.
    change ((Z.of_N 92 =? -1) || (Z.of_N 92 =? c_nl)) with false.
    change (Z.of_N 92 =? c_quote) with false. change (Z.of_N 92 =? c_bslash) with true. cbv iota.
    destruct (esc_spells_hd e cp He) as (c0 & r0 & E & Hc0).
    eapply run_bind; [rewrite E; apply (run_peek_cons (Z.of_N c0) (zs r0 ++ _))|].
    replace (Z.of_N c0 =? c_nl) with false by (unfold c_nl; lia).
    change (Z.of_N c0 :: zs r0 ++ zs w ++ 39 :: s) with (zs (c0 :: r0) ++ zs w ++ 39 :: s). rewrite <- E.
    eapply run_bind; [apply (run_read_escaped_char e cp _ He)|].
    rewrite (esc_spells_enc e cp He) in *.
    apply no_cr_cons in Hcr as [_ Hcr]. apply no_cr_app in Hcr as [_ Hcr].
    eapply run_eq; [apply (IH f (rev (SpecText.utf8_enc (Z.to_N cp)) ++ acc) s)| |reflexivity]; auto.
    + cbn [length] in Hf. rewrite app_length in Hf. lia.
    + rewrite rev_app_distr, rev_involutive, <- app_assoc. exact Hu.
    + rewrite rev_app_distr, rev_involutive, <- app_assoc. reflexivity.
  - apply no_cr_cons in Hcr as [_ Hcr]. apply no_cr_app in Hcr as [Hcn Hcr].
    rewrite (line_cont_no_cr nl Hn Hcn) in *. cbn [zs map app].
    eapply run_bind; [apply run_read_cons|].
    change (is_prohibited_control_char (Z.of_N 92)) with false.
    change ((Z.of_N 92 =? -1) || (Z.of_N 92 =? c_nl)) with false.
    change (Z.of_N 92 =? c_quote) with false. change (Z.of_N 92 =? c_bslash) with true. cbv iota.
    eapply run_bind; [apply run_peek_cons|]. change (Z.of_N 10 =? c_nl) with true. cbv iota.
    eapply run_bind; [apply run_read_cons|].
    apply IH; auto. cbn [length app] in Hf. lia.
Qed.
Theorem run_read_quoted_symbol w text s :
  qbody 39 w text -> no_cr w -> utf8_valid text = true ->
  run read_quoted_symbol (zs w ++ 39 :: s) text s.
Proof.
  intros Hw Hcr Hu. unfold read_quoted_symbol. apply run_with_fuel. intros f Hf.
  rewrite nne_app, nne_zs in Hf.
  apply (run_read_quoted_symbol_loop w text Hw f [] s); auto. lia.
Qed.

(* ---- readClob (the text between the quotes of a short clob) ---------------------------------------------------------- *)
Lemma run_read_clob_loop : forall w t, cbody w t -> forall f acc s,
  no_cr w -> (length w < f)%nat ->
  run (read_clob_loop f acc) (zs w ++ 34 :: s) (rev acc ++ t) s.
Proof.
  induction 1 as [|c w t Hc Hw IH|e cp w t He Hw IH|nl w t Hn Hw IH]; intros f acc s Hcr Hf;
    (destruct f as [|f]; [cbn [length] in Hf; lia|]); cbn [read_clob_loop].
  - cbn [zs map app]. eapply run_bind; [apply run_read_cons|].
    change ((34 =? -1) || (34 =? c_nl) || is_prohibited_control_char 34 || negb (is_ascii 34)) with false.
    change (34 =? c_dquote) with true. cbv iota. rewrite app_nil_r. apply run_ret.
  - cbn [zs map app]. eapply run_bind; [apply run_read_cons|].
    destruct (clob_raw_facts c Hc) as (H1 & H2 & H3 & H4 & H5 & H6 & H7).
    rewrite H1, H2, H3, H4, H5, H6, H7. cbn [orb negb].
    apply no_cr_cons in Hcr as [_ Hcr].
    eapply run_eq; [apply (IH f (c :: acc) s)| |reflexivity]; auto.
    + cbn [length] in Hf. lia.
    + cbn [rev]. rewrite <- app_assoc. reflexivity.
  - cbn [zs map app]. rewrite zs_app, <- app_assoc. eapply run_bind; [apply run_read_cons|].
    change ((Z.of_N 92 =? -1) || (Z.of_N 92 =? c_nl) || is_prohibited_control_char (Z.of_N 92) || negb (is_ascii (Z.of_N 92))) with false.
    change (Z.of_N 92 =? c_dquote) with false. change (Z.of_N 92 =? c_bslash) with true. cbv iota.
    eapply run_bind; [apply (run_process_backslash_clob e cp _ He)|].
    apply no_cr_cons in Hcr as [_ Hcr]. apply no_cr_app in Hcr as [_ Hcr].
    eapply run_eq; [apply (IH f (rev [Z.to_N cp] ++ acc) s)| |reflexivity]; auto.
    + cbn [length] in Hf. rewrite app_length in Hf. lia.
    + cbn [rev app]. rewrite <- app_assoc. reflexivity.
  - apply no_cr_cons in Hcr as [_ Hcr]. apply no_cr_app in Hcr as [Hcn Hcr].
    rewrite (line_cont_no_cr nl Hn Hcn) in *. cbn [zs map app].
    eapply run_bind; [apply run_read_cons|].
    change ((Z.of_N 92 =? -1) || (Z.of_N 92 =? c_nl) || is_prohibited_control_char (Z.of_N 92) || negb (is_ascii (Z.of_N 92))) with false.
    change (Z.of_N 92 =? c_dquote) with false. change (Z.of_N 92 =? c_bslash) with true. cbv iota.
    eapply run_bind; [apply run_process_backslash_nl|]. cbn [rev app].
    apply IH; auto. cbn [length app] in Hf. lia.
Qed.
Theorem run_read_clob w bytes s :
  cbody w bytes -> no_cr w -> run read_clob (zs w ++ 34 :: s) bytes s.
Proof.
  intros Hw Hcr. unfold read_clob. apply run_with_fuel. intros f Hf.
  rewrite nne_app, nne_zs in Hf.
  apply (run_read_clob_loop w bytes Hw f [] s); auto. lia.
Qed.

(* ---- the relations are closed under newline normalisation --------------------------------------------------------------- *)
Lemma norm_cons_nocr c l : c <> 13%N -> norm (c :: l) = c :: norm l.
Proof. intros H. cbn [norm]. destruct (N.eqb_spec c 13); [contradiction|reflexivity]. Qed.
(* a continuation in front of a body that cannot begin with LF *)
Lemma norm_line_cont nl w : line_cont nl -> hd 0%N w <> 10%N -> norm (nl ++ w) = 10%N :: norm w.
Proof.
  intros [ | | ] Hw; cbn [app].
  - apply norm_cons_nocr. discriminate.
  - cbn [norm]. change ((13 =? 13)%N) with true. cbv iota. destruct w as [|c2 r2]; [reflexivity|].
    cbn [hd] in Hw. destruct (N.eqb_spec c2 10); [contradiction|reflexivity].
  - reflexivity.
Qed.
Lemma qbody_hd q w t : qbody q w t -> hd 0%N w <> 10%N.
Proof.
  destruct 1 as [|c w t Hc Hw|e cp w t He Hw|nl w t Hn Hw]; cbn [hd]; try discriminate.
  destruct Hc as (_ & _ & Hc & _). exact Hc.
Qed.
Lemma cbody_hd w t : cbody w t -> hd 0%N w <> 10%N.
Proof.
  destruct 1 as [|c w t Hc Hw|e cp w t He Hw|nl w t Hn Hw]; cbn [hd]; try discriminate.
  destruct Hc as (_ & _ & Hc). unfold str_ws in Hc. lia.
Qed.
Lemma qbody_norm q w t : qbody q w t -> qbody q (norm w) t.
Proof.
  induction 1 as [|c w t Hc Hw IH|e cp w t He Hw IH|nl w t Hn Hw IH].
  - constructor.
  - rewrite norm_cons_nocr by (destruct Hc as (_ & _ & _ & Hc & _); exact Hc). apply qb_raw; assumption.
  - rewrite norm_cons_nocr by discriminate. rewrite (norm_app_nocr e w (esc_spells_no_cr e cp He)).
    apply qb_esc; assumption.
  - rewrite norm_cons_nocr by discriminate. rewrite (norm_line_cont nl w Hn (qbody_hd q w t Hw)).
    apply (qb_cont q [10%N]); [constructor|assumption].
Qed.
Lemma cbody_norm w t : cbody w t -> cbody (norm w) t.
Proof.
  induction 1 as [|c w t Hc Hw IH|e cp w t He Hw IH|nl w t Hn Hw IH].
  - constructor.
  - rewrite norm_cons_nocr by (destruct Hc as (_ & _ & Hc); unfold str_ws in Hc; lia). apply cb_raw; assumption.
  - rewrite norm_cons_nocr by discriminate.
    rewrite (norm_app_nocr e w (esc_spells_no_cr e cp (esc_clob_text e cp He))). apply cb_esc; assumption.
  - rewrite norm_cons_nocr by discriminate. rewrite (norm_line_cont nl w Hn (cbody_hd w t Hw)).
    apply (cb_cont [10%N]); [constructor|assumption].
Qed.

(* ---- on a concrete input -------------------------------------------------------------------------------------------------- *)
Lemma stream_quoted t w q rest :
  t_buf t = [] -> t_in t = w ++ q :: rest -> q <> 10%N -> q <> 13%N ->
  stream t = zs (norm w) ++ Z.of_N q :: zs (norm rest).
Proof.
  intros Hb Hin Hq Hq'. rewrite (stream_in t Hb), Hin, norm_app by (right; exact Hq).
  rewrite zs_app, norm_cons_nocr by exact Hq'. reflexivity.
Qed.

Theorem read_string_spelling w text rest t :
  qbody 34 w text -> utf8_valid text = true ->
  t_ioerr t = false -> t_buf t = [] -> t_in t = w ++ 34%N :: rest ->
  exists t', read_string t = Ok (text, t') /\
             stream t' = zs (norm rest) /\ t_ioerr t' = false /\
             t_token t' = t_token t /\ t_unfinished t' = t_unfinished t.
Proof.
  intros Hw Hu Hi Hb Hin.
  pose proof (run_read_string (norm w) text (zs (norm rest)) (qbody_norm _ _ _ Hw) (norm_no_cr w) Hu) as R.
  destruct (run_apply _ _ _ _ t R Hi) as (t' & E & Hi' & Hs' & Hk & Hu').
  - apply (stream_quoted t w 34%N rest); auto; discriminate.
  - exists t'. auto.
Qed.
Theorem read_quoted_symbol_spelling w text rest t :
  qbody 39 w text -> utf8_valid text = true ->
  t_ioerr t = false -> t_buf t = [] -> t_in t = w ++ 39%N :: rest ->
  exists t', read_quoted_symbol t = Ok (text, t') /\
             stream t' = zs (norm rest) /\ t_ioerr t' = false /\
             t_token t' = t_token t /\ t_unfinished t' = t_unfinished t.
Proof.
  intros Hw Hu Hi Hb Hin.
  pose proof (run_read_quoted_symbol (norm w) text (zs (norm rest)) (qbody_norm _ _ _ Hw) (norm_no_cr w) Hu) as R.
  destruct (run_apply _ _ _ _ t R Hi) as (t' & E & Hi' & Hs' & Hk & Hu').
  - apply (stream_quoted t w 39%N rest); auto; discriminate.
  - exists t'. auto.
Qed.
Theorem read_clob_spelling w bytes rest t :
  cbody w bytes ->
  t_ioerr t = false -> t_buf t = [] -> t_in t = w ++ 34%N :: rest ->
  exists t', read_clob t = Ok (bytes, t') /\
             stream t' = zs (norm rest) /\ t_ioerr t' = false /\
             t_token t' = t_token t /\ t_unfinished t' = t_unfinished t.
Proof.
  intros Hw Hi Hb Hin.
  pose proof (run_read_clob (norm w) bytes (zs (norm rest)) (cbody_norm _ _ Hw) (norm_no_cr w)) as R.
  destruct (run_apply _ _ _ _ t R Hi) as (t' & E & Hi' & Hs' & Hk & Hu').
  - apply (stream_quoted t w 34%N rest); auto; discriminate.
  - exists t'. auto.
Qed.

(* ---- examples: the hypotheses are satisfiable, and the specification decoder agrees ------------------------------------------ *)
(* raw bytes (a quote of the other kind, a tab), the thirteen one-character escapes, \x \u \u\u \U in both
   cases, the three line continuations (CR LF; LF; CR before a non-LF), raw two-, three- and four-byte UTF-8 *)
Definition str_ex_w : list N :=
  s "a'" ++ [9%N] ++ s "\0\a\b\t\n\f\r\v\""\'\?\\\/" ++ s "\x41\xe9\" ++ s "u00e9\" ++ s "u20AC\" ++ s "uD83d\" ++ s "uDe00\U0001F600"
  ++ [92; 13; 10]%N ++ [195; 169; 226; 130; 172; 240; 159; 152; 128]%N ++ [92; 10; 92; 13]%N ++ s "z".
Definition str_ex_t : list N :=
  s "a'" ++ [9%N] ++ [0; 7; 8; 9; 10; 12; 13; 11; 34; 39; 63; 92; 47]%N
  ++ [65; 195; 169; 195; 169; 226; 130; 172; 240; 159; 152; 128; 240; 159; 152; 128]%N
  ++ [195; 169; 226; 130; 172; 240; 159; 152; 128]%N ++ s "z".

Ltac q_raw := apply qb_raw; [unfold raw_char, str_ws; lia|].
Ltac q_one q c cp := apply (qb_esc q [c] cp); [apply es_one; cbn; tauto|].
Ltac q_cont q nl := apply (qb_cont q nl); [constructor|].

Example str_ex_ok : qbody 34 str_ex_w str_ex_t.
Proof.
  vm_compute. do 3 q_raw.
  q_one 34%N 48%N 0. q_one 34%N 97%N 7. q_one 34%N 98%N 8. q_one 34%N 116%N 9. q_one 34%N 110%N 10.
  q_one 34%N 102%N 12. q_one 34%N 114%N 13. q_one 34%N 118%N 11. q_one 34%N 34%N 34. q_one 34%N 39%N 39.
  q_one 34%N 63%N 63. q_one 34%N 92%N 92. q_one 34%N 47%N 47.
  apply (qb_esc 34 (s "x41") 65); [apply (es_x (s "41") 65%N); split; reflexivity|].
  apply (qb_esc 34 (s "xe9") 233); [apply (es_x (s "e9") 233%N); split; reflexivity|].
  apply (qb_esc 34 (s "u00e9") 233); [apply (es_u (s "00e9") 233%N); [split; reflexivity|unfold surrogate; lia]|].
  apply (qb_esc 34 (s "u20AC") 8364); [apply (es_u (s "20AC") 8364%N); [split; reflexivity|unfold surrogate; lia]|].
  apply (qb_esc 34 (s "uD83d\uDe00") 128512); [exact esc_ex_pair|].
  apply (qb_esc 34 (s "U0001F600") 128512);
    [apply (es_U (s "0001F600") 128512%N); [split; reflexivity|lia|unfold surrogate; lia]|].
  q_cont 34%N [13; 10]%N. do 9 q_raw. q_cont 34%N [10%N]. q_cont 34%N [13%N]. q_raw. constructor.
Qed.
Example str_ex_utf8 : utf8_valid str_ex_t = true.
Proof. vm_compute. reflexivity. Qed.
Example str_ex_spec :
  SpecText.p_quoted 100 34 false (str_ex_w ++ 34%N :: s "rest") [] = Some (str_ex_t, s "rest").
Proof. vm_compute. reflexivity. Qed.
Example str_ex_model :
  read_string (t_init (str_ex_w ++ 34%N :: s "rest") false) = Ok (str_ex_t, t_init (s "rest") false).
Proof. vm_compute. reflexivity. Qed.
(* the theorem, instantiated *)
Example str_ex_thm : exists t',
  read_string (t_init (str_ex_w ++ 34%N :: s "rest") false) = Ok (str_ex_t, t') /\ stream t' = zs (s "rest").
Proof.
  destruct (read_string_spelling str_ex_w str_ex_t (s "rest") (t_init (str_ex_w ++ 34%N :: s "rest") false)
              str_ex_ok str_ex_utf8 eq_refl eq_refl eq_refl) as (t' & E & Hs & _).
  exists t'. split; [exact E|exact Hs].
Qed.

(* a quoted symbol: the double quote is raw, the quote escaped *)
Definition sym_ex_w : list N := s "it\'s ""\" ++ s "u00e9" ++ [92; 13; 10]%N ++ [195; 169]%N.
Definition sym_ex_t : list N := s "it's """ ++ [195; 169; 195; 169]%N.
Example sym_ex_ok : qbody 39 sym_ex_w sym_ex_t.
Proof.
  vm_compute. do 2 q_raw. q_one 39%N 39%N 39. do 3 q_raw.
  apply (qb_esc 39 (s "u00e9") 233); [apply (es_u (s "00e9") 233%N); [split; reflexivity|unfold surrogate; lia]|].
  q_cont 39%N [13; 10]%N. do 2 q_raw. constructor.
Qed.
Example sym_ex_spec :
  SpecText.p_quoted 100 39 false (sym_ex_w ++ 39%N :: s "::x") [] = Some (sym_ex_t, s "::x").
Proof. vm_compute. reflexivity. Qed.
Example sym_ex_model :
  read_quoted_symbol (t_init (sym_ex_w ++ 39%N :: s "::x") false) = Ok (sym_ex_t, t_init (s "::x") false).
Proof. vm_compute. reflexivity. Qed.

(* clob text: raw ASCII, one-character and \x escapes (a byte above 127), continuations *)
Definition clob_ex_w : list N := s "a'~" ++ [9; 127]%N ++ s "\0\n\""\xfE\x7f" ++ [92; 13; 10; 92; 13; 92; 10]%N ++ s "z".
Definition clob_ex_t : list N := s "a'~" ++ [9; 127]%N ++ [0; 10; 34; 254; 127]%N ++ s "z".
Example clob_ex_ok : cbody clob_ex_w clob_ex_t.
Proof.
  vm_compute. do 5 (apply cb_raw; [unfold clob_raw, str_ws; lia|]).
  apply (cb_esc [48%N] 0); [apply esc_one; cbn; tauto|].
  apply (cb_esc [110%N] 10); [apply esc_one; cbn; tauto|].
  apply (cb_esc [34%N] 34); [apply esc_one; cbn; tauto|].
  apply (cb_esc (s "xfE") 254); [exact esc_ex_x|].
  apply (cb_esc (s "x7f") 127); [apply (esc_x (s "7f") 127%N); split; reflexivity|].
  apply (cb_cont [13; 10]%N); [constructor|]. apply (cb_cont [13%N]); [constructor|].
  apply (cb_cont [10%N]); [constructor|]. apply cb_raw; [unfold clob_raw, str_ws; lia|]. constructor.
Qed.
Example clob_ex_spec :
  SpecText.p_quoted 100 34 true (clob_ex_w ++ 34%N :: s " }}") [] = Some (clob_ex_t, s " }}").
Proof. vm_compute. reflexivity. Qed.
Example clob_ex_model :
  read_clob (t_init (clob_ex_w ++ 34%N :: s " }}") false) = Ok (clob_ex_t, t_init (s " }}") false).
Proof. vm_compute. reflexivity. Qed.
(* what the grammar excludes is refused by both: a raw newline, a raw NUL, a byte above 127 in a clob *)
Example str_ex_bad :
  SpecText.p_quoted 100 34 false ([97; 10; 34]%N) [] = None /\ read_string (t_init [97; 10; 34]%N false) = Err /\
  SpecText.p_quoted 100 34 false ([97; 0; 34]%N) [] = None /\ read_string (t_init [97; 0; 34]%N false) = Err /\
  SpecText.p_quoted 100 34 true ([97; 200; 34]%N) [] = None /\ read_clob (t_init [97; 200; 34]%N false) = Err.
Proof. vm_compute. auto 10. Qed.
