(* TextRoundtrip.v — ties the text Writer MODEL (Text/TextWriter.v) to the text SPECIFICATION
   decoder (Text/SpecText.v) on a finite universe of values: the calls that write a value,
   the universe, and the executable check "the bytes written decode to exactly the value".
   The universe has no finite non-zero float, decimal or timestamp (their text is an input
   of the model) and not the top-level symbol $ion_1_0 (known finding).  No proofs. *)
From Coq Require Import String List NArith ZArith Bool.
From IonV Require Import Base.Wire Data.Ion Num.Float Bin.BinWriter Text.TextOut Text.TextWriter Text.SpecText.
Import ListNotations.
Open Scope N_scope.

Definition tok_of_sym (y : symv) : tok :=
  match y with SymText t => tok_text t | SymSid n => tok_sid (Z.of_N n) end.

(* the Writer calls a user makes to write [v] *)
Fixpoint calls_of_value (v : value) : list wcall :=
  match v with
  | VNull t => [CNullType t]
  | VBool b => [CBool b]
  | VInt z => [CBigInt (Some z)]
  | VFloat b => [CFloat b]
  | VDecimal d => [CDecimal (Some d)]
  | VTimestamp body => [CTimestamp (N.of_nat (length body)) body]
  | VSymbol y => [CSymbol (tok_of_sym y)]
  | VString t => [CString t]
  | VClob b => [CClob b]
  | VBlob b => [CBlob b]
  | VList l => CBeginList :: flat_map calls_of_value l ++ [CEndList]
  | VSexp l => CBeginSexp :: flat_map calls_of_value l ++ [CEndSexp]
  | VStruct l => CBeginStruct :: flat_map (fun '(n, x) => CFieldName (tok_of_sym n) :: calls_of_value x) l
                 ++ [CEndStruct]
  | VAnn a x => map (fun y => CAnnotation (tok_of_sym y)) a ++ calls_of_value x
  end.
Definition calls_of_stream (vs : list value) : list wcall := flat_map calls_of_value vs ++ [CFinish].

(* formats are not consulted on the universe below *)
Definition no_formats : formats :=
  {| fmt_float := fun _ => []; fmt_dec := fun _ => []; fmt_ts := fun _ _ => [] |}.

(* every call returns nil and the specification decoder reads the bytes back as exactly [vs] *)
Definition rt_ok (pretty quiet : bool) (vs : list value) : bool :=
  match tw_drive no_formats (new_text_writer None pretty quiet) (calls_of_stream vs) with
  | Ok (w, rs) =>
    forallb (fun b => b) rs &&
    match tdecode (sink_bytes (tw_out w)) with
    | Some got => list_eqb (show_values got) (show_values vs)
    | None => false
    end
  | _ => false
  end.

(* ---- the universe --------------------------------------------------------------------------- *)
Fixpoint upto (n : nat) : list N :=             (* n-1 ... 0 *)
  match n with O => [] | S k => N.of_nat k :: upto k end.
Definition txt (x : string) : text := s x.
Definition sy (x : string) : symv := SymText (s x).

Definition u_ints : list Z :=
  map (fun n => (Z.of_N n - 1100)%Z) (upto 2201)
  ++ [9223372036854775807; -9223372036854775808; 18446744073709551616;
      1000000000000000000000000000000; -1000000000000000000000000000000]%Z.
Definition u_floats : list N :=                 (* nan, +inf, -inf, 0e+0, -0e+0 *)
  [9221120237041090560; 9218868437227405312; 18442240474082181120; 0; 9223372036854775808].
Definition u_texts : list text :=
  [[]] ++ map (fun c => [c]) (upto 128)
  ++ [txt "a""b\c'd"; [195; 169]; [240; 159; 152; 128]; [97; 10; 98; 9; 0; 127]; txt "null"; txt "true"; txt "false";
      txt "nan"; txt "$7"; txt "$0"; txt "$ion"; txt "$ion_symbol_table"; txt "foo"; txt "foo_Bar9"; txt "a b";
      txt "+"; txt "//"; txt "/*"; txt "{{"; txt "a::b"; txt "'''"; txt "9a"; txt "$18446744073709551616"].
Definition u_clobs : list (list N) := [[]] ++ map (fun c => [c]) (upto 256) ++ [[0; 34; 92; 125; 125; 255; 65]].
Definition u_blobs : list (list N) :=
  [[]; [0]; [255]; [1; 2]; [1; 2; 3]; [250; 251; 252; 253]; [1; 2; 3; 4; 5]; rev (upto 256);
   map (fun n => (n * 7) mod 256) (upto 770)].
Definition u_scalars : list value :=
  map VNull [1; 2; 3; 4; 5; 6; 7; 8; 9; 10; 11; 12; 13] ++ [VBool true; VBool false]
  ++ map VInt u_ints ++ map VFloat u_floats
  ++ map VString u_texts ++ map (fun t => VSymbol (SymText t)) u_texts
  ++ map VClob u_clobs ++ map VBlob u_blobs.

(* a few scalars to put inside containers *)
Definition u_small : list value :=
  [VNull 1; VNull 13; VBool true; VInt (-5); VFloat 9221120237041090560; VString (txt "a""\"); VString [];
   VSymbol (sy "nan"); VSymbol (sy "foo"); VSymbol (sy "$7"); VSymbol (sy "+"); VSymbol (sy "$ion_1_0");
   VClob [34; 125]; VBlob [1; 2]].
Definition u_names : list symv := [sy "foo"; sy "null"; sy "$7"; sy ""; sy "a b"; sy "$ion_1_0"; sy "$ion_symbol_table"].
Definition u_flat : list value :=
  [VList []; VSexp []; VStruct []; VList u_small; VSexp u_small;
   VStruct (combine (u_names ++ u_names) u_small)]
  ++ map (fun x => VList [x]) u_small ++ map (fun x => VSexp [x]) u_small
  ++ flat_map (fun n => map (fun x => VStruct [(n, x)]) u_small) u_names.
Definition u_annotated : list value :=
  flat_map (fun a => map (fun x => VAnn [a] x) (u_small ++ [VList []; VSexp [VInt 1]; VStruct [(sy "k", VInt 1)]]))
           u_names
  ++ [VAnn [sy "a"; sy "null"; sy "$7"; sy ""] (VInt 1)].
Definition u_nested : list value :=
  [VList u_flat; VSexp u_flat; VStruct (map (fun x => (sy "f", x)) u_flat);
   VList u_annotated; VStruct (map (fun x => (sy "true", x)) u_annotated);
   VAnn [sy "x"] (VList [VAnn [sy "y"] (VSexp [VAnn [sy "z"] (VStruct [(sy "w", VAnn [sy "v"] (VList []))])])])].
(* $ion_symbol_table::{...} at top level would be a symbol table, $ion_1_0 at top level is a known finding *)
Definition top_ok (v : value) : bool :=
  match v with
  | VSymbol (SymText t) => negb (list_eqb t (s "$ion_1_0"))
  | VAnn (SymText a :: _) (VStruct _) => negb (list_eqb a (s "$ion_symbol_table"))
  | _ => true
  end.
Definition universe : list value :=
  filter top_ok (u_scalars ++ u_small ++ u_flat ++ u_annotated ++ u_nested).

Definition rt_all (pretty quiet : bool) : bool := forallb (fun v => rt_ok pretty quiet [v]) universe.
(* the whole universe as ONE stream, Finish after every 50 values *)
Fixpoint chunks50 (fuel : nat) (l : list value) : list (list value) :=
  match fuel with
  | O => []
  | S f => match l with [] => [] | _ => firstn 50 l :: chunks50 f (skipn 50 l) end
  end.
Definition rt_batches (pretty quiet : bool) : bool :=
  let bs := chunks50 (length universe) universe in
  match tw_drive no_formats (new_text_writer None pretty quiet) (flat_map calls_of_stream bs) with
  | Ok (w, rs) =>
    forallb (fun b => b) rs &&
    match tdecode (sink_bytes (tw_out w)) with
    | Some got => list_eqb (show_values got) (show_values universe)
    | None => false
    end
  | _ => false
  end.
