(* SkipNav.v — C08 for text: navigation plans.  Definitions only.

   A [plan] says, for a value, how the caller navigates it: a scalar is read (FieldName, Annotations, Type, IsNull
   and the accessor of its type, as in the plain full traversal); a container is either not entered ([PSkip]: the
   caller goes on with Next, so the reader must skip it) or entered ([PEnter ps fin]: StepIn, the first
   [length ps] members navigated by the plans [ps], then — when [fin] — one more Next, which reports the end of the
   container, and StepOut).  [PEnter] with [length ps] < number of members is a StepOut in the middle of a container.
   [prog]: the program of API calls of a plan over a value forest (the calls a caller would issue);
   [etr]: the answers the plain full traversal gives to exactly those calls (the projection of the full trace
   [tr_tval] onto the plan);  [plan_ok]: the plan fits the value. *)
From Coq Require Import String List NArith ZArith Bool.
From IonV Require Import Base.Wire Data.Ion Bin.BitStream Bin.BinReader Text.TextReader Text.SpellRead Text.SpellTree.
Import ListNotations.

Inductive plan :=
| PSkip
| PEnter (ps : list plan) (fin : bool).

Definition head_ops : list rop := [ONext; OFieldName; OAnnotations; OType; OIsNull].
Definition acc_ops (ty : N) (v : xvalue) : list rop :=
  match v with
  | XNil => []
  | _ => match accessor_of ty with Some o => [o] | None => [] end
  end.

Fixpoint prog (tv : tval) (p : plan) : list rop :=
  match tv with
  | TScalar _ ty v => head_ops ++ acc_ops ty v
  | TCont _ _ items =>
    match p with
    | PSkip => head_ops
    | PEnter ps fin =>
      head_ops ++ [OStepIn] ++
      (fix go (its : list (option tok * tval)) (qs : list plan) : list rop :=
         match its, qs with
         | (_, t) :: its', q :: qs' => prog t q ++ go its' qs'
         | _, _ => []
         end) items ps ++ (if fin then [ONext] else []) ++ [OStepOut]
    end
  end.
Fixpoint progs (its : list (option tok * tval)) (qs : list plan) : list rop :=
  match its, qs with
  | (_, t) :: its', q :: qs' => prog t q ++ progs its' qs'
  | _, _ => []
  end.

Fixpoint etr (fld : option tok) (tv : tval) (p : plan) : list (list N) :=
  match tv with
  | TScalar _ _ _ => tr_tval fld tv
  | TCont anns ty items =>
    match p with
    | PSkip => tr_head fld anns ty false
    | PEnter ps fin =>
      tr_head fld anns ty false ++ [s "ok"%string] ++
      (fix go (its : list (option tok * tval)) (qs : list plan) : list (list N) :=
         match its, qs with
         | (f, t) :: its', q :: qs' => etr f t q ++ go its' qs'
         | _, _ => []
         end) items ps ++ (if fin then [[70%N]] else []) ++ [s "ok"%string]
    end
  end.
Fixpoint etrs (its : list (option tok * tval)) (qs : list plan) : list (list N) :=
  match its, qs with
  | (f, t) :: its', q :: qs' => etr f t q ++ etrs its' qs'
  | _, _ => []
  end.

Fixpoint plan_ok (tv : tval) (p : plan) : Prop :=
  match tv with
  | TScalar _ _ _ => True
  | TCont _ _ items =>
    match p with
    | PSkip => True
    | PEnter ps fin =>
      (fix go (its : list (option tok * tval)) (qs : list plan) : Prop :=
         match qs, its with
         | [], [] => True
         | [], _ :: _ => fin = false
         | q :: qs', (_, t) :: its' => plan_ok t q /\ go its' qs'
         | _ :: _, [] => False
         end) items ps
    end
  end.
Definition plans_ok (its : list (option tok * tval)) (qs : list plan) (fin : bool) : Prop :=
  (fix go (its : list (option tok * tval)) (qs : list plan) : Prop :=
     match qs, its with
     | [], [] => True
     | [], _ :: _ => fin = false
     | q :: qs', (_, t) :: its' => plan_ok t q /\ go its' qs'
     | _ :: _, [] => False
     end) its qs.

(* the plan of the plain full traversal *)
Fixpoint full_plan (tv : tval) : plan :=
  match tv with
  | TScalar _ _ _ => PSkip
  | TCont _ _ items => PEnter (map (fun it => full_plan (snd it)) items) true
  end.

(* top level: the first [length qs] values of the stream *)
Fixpoint top_prog (tvs : list tval) (qs : list plan) : list rop :=
  match tvs, qs with
  | t :: tvs', q :: qs' => prog t q ++ top_prog tvs' qs'
  | _, _ => []
  end.
Fixpoint top_etr (tvs : list tval) (qs : list plan) : list (list N) :=
  match tvs, qs with
  | t :: tvs', q :: qs' => etr None t q ++ top_etr tvs' qs'
  | _, _ => []
  end.
Fixpoint top_ok (tvs : list tval) (qs : list plan) : Prop :=
  match qs, tvs with
  | [], _ => True
  | q :: qs', t :: tvs' => plan_ok t q /\ top_ok tvs' qs'
  | _ :: _, [] => False
  end.
