(* SpellTree3.v — C02, stage 8k: top-level streams whose symbol context changes.
   [tops_spell3 lst text tvs]: from the symbol context lst, the text spells the values tvs, where the text may contain
     - value trees (SpellTree2.tspell2, spelled against the CURRENT context),
     - the version marker $ion_1_0, also directly in front of the final unterminated `//` comment: the context becomes
       the system table,
     - local symbol tables `$ion_symbol_table::{...}` (SpellLst.lopen_spells / lstbody): the context becomes
       [install lst oi os]; tables whose `symbols` list has an entry that is not a string are excluded ([gap_free]:
       the known defect D16, the reader gives such a slot the text "").
   [traverse_stream3]: the reader model's full traversal is exactly the trace of the values.
   [tops_spell2_incl]: the relation of SpellTree2 (context = system table throughout) is included. *)
From Coq Require Import String List NArith ZArith Bool Lia ZifyBool ZifyN ZifyNat.
From IonV Require Sym.LstSpec.
From IonV Require Import Base.Wire Base.Utf8 Data.Ion Bin.Bits Bin.BitStream Bin.BinReader Num.Float Text.Tokenizer Text.Skipper
  Text.TextReader Text.TextNum Text.SpellBase Text.SpellWs Text.SpellNum Text.SpellTok Text.SpellRead
  Text.SpellEsc Text.SpellStr Text.SpellLong Text.SpellIdent Text.SpellSym Text.SpellTs Text.SpellBlob
  Text.SpellVal Text.SpellSymVal Text.SpellOp Text.SpellStream Text.SpellCont Text.SpellTree
  Text.SpellEofc Text.SpellOp2 Text.SpellStream2 Text.SpellIvm Text.SpellTree2 Text.SpellLst.
Import ListNotations.
Open Scope Z_scope.

Definition gap_free (os : option (list (option (list N)))) : Prop :=
  match os with Some sy => Forall (fun o => o <> None) sy | None => True end.

Section TopTree3.
Variable pd : list N -> res dec.
Variable pt : list N -> res (list N).
Notation BTA := trsBeforeTypeAnnotations.
Notation api := (x_next_inner pd pt).

(* ---- the version marker, as an equation (SpellIvm.ivm_step), and in front of the final comment ------------------------ *)
Lemma ivm_to w wn S2 k0 lst fld ty0 v0 kk fuel :
  ws_run w -> no_cr w -> ws_run wn -> no_cr wn -> ws_stop S2 = true -> dcolon S2 = false ->
  is_identifier_part (shead (zs wn ++ S2)) = false ->
  loop_to pd pt api kk fuel
    (mkax (zs w ++ zs ivm_text ++ zs wn ++ S2) k0 false BTA [] false false lst fld [] ty0 v0)
    (mkax (sym_rest wn S2) tokenSymbol false BTA [] false false LSys fld [] ty0 v0).
Proof.
  intros Hw Hcr Hwn Hcrn Hs2 Hdc Hnp x Hi Ha.
  pose proof ivm_ident as Hid.
  set (s1 := zs wn ++ S2) in *.
  destruct (ident_first ivm_text s1 Hid) as (c & r0 & Eid & Hc & Est).
  destruct (ident_start_stop (Z.of_N c) (zs r0 ++ s1) Hc) as [Hst Has].
  destruct (loop_sym pd pt api w (zs ivm_text ++ s1) k0 tokenSymbol true (zs ivm_text ++ s1) [] lst fld [] ty0 v0 false
              (mkax (sym_rest wn S2) tokenSymbol false BTA [] false false LSys fld [] ty0 v0)
              kk fuel Hw Hcr) with (x := x) as (x2 & Hi2 & Ha2 & E); auto.
  - rewrite Est. cbn [shead]. rewrite Has, (dispatch_ident _ Hc).
    eapply runK_bind; [apply run_runK, run_unread|]. apply runK_t_ok.
  - apply rrun_rget_bind. intros y Hy Hay. xfields Hay. unfold sym_branch.
    eapply rrun_bind; [apply rrun_lift; cbn [a_s a_k a_u]; apply (run_read_value_symbol ivm_text s1 _ _ Hid Hnp)|].
    unfold ax_tok. cbn [a_s a_k a_u a_state a_ctx a_eof a_err a_lst a_field a_annots a_type a_value].
    unfold s1. rewrite spush_app.
    eapply rrun_bind.
    { apply rrun_lift_run. cbn [a_s].
      apply (run_skip_double_colon_no wn (if nonempty wn then S2 else spush S2) Hwn Hcrn).
      - destruct (nonempty wn); [exact Hs2|now rewrite ws_stop_spush].
      - destruct (nonempty wn); [exact Hdc|now rewrite dcolon_spush]. }
    cbv beta iota. unfold ax_tok. cbn [a_s a_k a_u a_state a_ctx a_eof a_err a_lst a_field a_annots a_type a_value].
    fold (sym_rest wn S2).
    assert (Hiv : (tokenSymbol =? tokenSymbol)%N && list_eqb ivm_text (s "$ion_1_0"%string) && x_at_top y
                  && match x_annots y with [] => true | _ :: _ => false end = true).
    { unfold x_at_top. rewrite Fctx, Fannots. reflexivity. }
    rewrite Hiv.
    eapply rrun_bind; [|apply rrun_ret].
    apply rrun_rmod. intros z' Haz'. xfields Haz'. split; [|reflexivity].
    unfold xabs. cbn [x_tok x_state x_ctx x_eof x_err x_lst x_field x_annots x_type x_value xs_lst].
    rewrite Fs0, Fk0, Fu0, Fst0, Fctx0, Feof0, Ferr0, Ffield0, Fannots0, Ftype0, Fvalue0. reflexivity.
  - exists x2. auto.
Qed.

Lemma ivm_eofc_to w wc e k0 lst fld ty0 v0 kk fuel :
  ws_run w -> no_cr w -> eofc wc -> all_eof e ->
  loop_to pd pt api kk fuel
    (mkax (zs w ++ zs ivm_text ++ zs wc ++ e) k0 false BTA [] false false lst fld [] ty0 v0)
    (mkax (eofT e) tokenSymbol false BTA [] false false LSys fld [] ty0 v0).
Proof.
  intros Hw Hcr Hc He x Hi Ha.
  pose proof ivm_ident as Hid.
  set (s1 := zs wc ++ e) in *.
  assert (Hnp : is_identifier_part (shead s1) = false).
  { unfold s1. destruct (eofc_cons wc Hc) as (c & r & -> & [Hb| ->]); cbn [zs map app shead]; [|reflexivity].
    unfold ws_byte in Hb. unfold is_identifier_part, is_identifier_start, is_digit. lia. }
  destruct (ident_first ivm_text s1 Hid) as (c & r0 & Eid & Hc0 & Est).
  destruct (ident_start_stop (Z.of_N c) (zs r0 ++ s1) Hc0) as [Hst Has].
  destruct (loop_sym pd pt api w (zs ivm_text ++ s1) k0 tokenSymbol true (zs ivm_text ++ s1) [] lst fld [] ty0 v0 false
              (mkax (eofT e) tokenSymbol false BTA [] false false LSys fld [] ty0 v0)
              kk fuel Hw Hcr) with (x := x) as (x2 & Hi2 & Ha2 & E); auto.
  - rewrite Est. cbn [shead]. rewrite Has, (dispatch_ident _ Hc0).
    eapply runK_bind; [apply run_runK, run_unread|]. apply runK_t_ok.
  - apply rrun_rget_bind. intros y Hy Hay. xfields Hay. unfold sym_branch.
    eapply rrun_bind; [apply rrun_lift; cbn [a_s a_k a_u]; apply (run_read_value_symbol ivm_text s1 _ _ Hid Hnp)|].
    unfold ax_tok. cbn [a_s a_k a_u a_state a_ctx a_eof a_err a_lst a_field a_annots a_type a_value].
    unfold s1. rewrite (eofc_spush wc e Hc).
    eapply rrun_bind.
    { apply rrun_lift_run. cbn [a_s]. apply (run_skip_double_colon_eofc wc e Hc He). }
    cbv beta iota. unfold ax_tok. cbn [a_s a_k a_u a_state a_ctx a_eof a_err a_lst a_field a_annots a_type a_value].
    assert (Hiv : (tokenSymbol =? tokenSymbol)%N && list_eqb ivm_text (s "$ion_1_0"%string) && x_at_top y
                  && match x_annots y with [] => true | _ :: _ => false end = true).
    { unfold x_at_top. rewrite Fctx, Fannots. reflexivity. }
    rewrite Hiv.
    eapply rrun_bind; [|apply rrun_ret].
    apply rrun_rmod. intros z' Haz'. xfields Haz'. split; [|reflexivity].
    unfold xabs. cbn [x_tok x_state x_ctx x_eof x_err x_lst x_field x_annots x_type x_value xs_lst].
    rewrite Fs0, Fk0, Fu0, Fst0, Fctx0, Feof0, Ferr0, Ffield0, Fannots0, Ftype0, Fvalue0. reflexivity.
  - exists x2. auto.
Qed.

(* ---- Next at the top level, with the fuel for readLocalSymbolTable in view ------------------------------------------- *)
Definition nextable3 (lst : rlst) (x : xstate) (T : list N) : Prop :=
  forall b (Post : ax -> Prop),
  (forall S1 w1 k1 kk fuel, ws_run w1 -> no_cr w1 -> ends S1 (w1 ++ T) -> (length (w1 ++ T) <= kk)%nat ->
     (length (w1 ++ T) <= fuel)%nat ->
     rrunP (x_next_loop pd pt api (S kk) fuel) (mkax S1 k1 false BTA [] false false lst None [] 0%N XNil) b Post) ->
  exists x2, x_next pd pt x = (x2, Ok b) /\ xok x2 /\ Post (xabs x2).

Lemma nextable3_weaken lst x T : nextable3 lst x T -> nextable pd pt lst x BTA [] T.
Proof.
  intros H b Post Hl. apply H. intros S1 w1 k1 kk fuel H1 H2 H3 H4 _.
  destruct (Hl S1 w1 k1 kk fuel H1 H2 H3 H4) as (X2 & R & HP). exact (rrun_rrunP _ _ _ X2 Post R HP).
Qed.

Lemma x_next_with_okP fuel x X1 b (Post : ax -> Prop) :
  xok x -> x_state x <> trsDone -> x_eof x = false ->
  rrun x_finish_value (xabs x) tt X1 ->
  rrunP (x_next_loop pd pt api fuel fuel) (ax_clear X1) b Post ->
  exists x2, x_next_with pd pt api fuel x = (x2, Ok b) /\ xok x2 /\ Post (xabs x2).
Proof.
  intros Hi Hst Heof Hf Hl. unfold x_next_with.
  destruct (N.eqb_spec (x_state x) trsDone); [contradiction|]. rewrite Heof. cbn [orb].
  destruct (Hf x Hi eq_refl) as (x1 & E1 & Hi1 & Ha1). rewrite E1.
  destruct (Hl (x_clear x1)) as (x2 & E2 & Hi2 & Ha2); [exact Hi1|now rewrite xabs_clear, Ha1|].
  exists x2. auto.
Qed.

Lemma nextable3_settled x S0 k u lst fld ann ty v T :
  xok x -> xabs x = mkax S0 k u BTA [] false false lst fld ann ty v -> settled S0 k u T -> nextable3 lst x T.
Proof.
  intros Hi Ha (S1 & w1 & Rf & Hw1 & Hcr1 & He1 & Hlen) b Post Hloop.
  xfields Ha.
  assert (Hk : (length (w1 ++ T) <= S (t_rem (x_tok x)))%nat).
  { pose proof (stream_rem (x_tok x)) as Hr. rewrite Fs in Hr. lia. }
  assert (Hfu : (length (w1 ++ T) <= x_fuel x)%nat) by (unfold x_fuel, t_fuel; lia).
  pose proof (Hloop S1 w1 k _ (x_fuel x) Hw1 Hcr1 He1 Hk Hfu) as R.
  assert (Hnd' : x_state x <> trsDone) by (rewrite Fst; discriminate).
  assert (Hfin : rrun x_finish_value (xabs x) tt (mkax S1 k false BTA [] false false lst fld ann ty v)).
  { rewrite Ha. apply rrun_finish_settled_gen; [reflexivity|exact Rf]. }
  assert (Hl : rrunP (x_next_loop pd pt api (x_fuel x) (x_fuel x))
                 (ax_clear (mkax S1 k false BTA [] false false lst fld ann ty v)) b Post) by exact R.
  exact (x_next_with_okP (x_fuel x) x _ b Post Hi Hnd' Feof Hfin Hl).
Qed.

(* the version marker is passed within the same call of Next *)
Lemma nextable3_ivm lst x wn rest :
  ws_run wn -> no_cr wn -> f_ident wn rest -> ws_stop (zs rest) = true -> dcolon (zs rest) = false ->
  nextable3 lst x (ivm_text ++ wn ++ rest) -> nextable3 LSys x rest.
Proof.
  intros Hwn Hcrn Hfi Hst Hdc Hnx b Post Hloop. apply Hnx.
  intros S1 w1 k1 kk fuel Hw1 Hcr1 He1 Hlen Hfu.
  destruct (ends_split S1 _ _ He1) as (Sa & -> & Hea). destruct (ends_split Sa _ _ Hea) as (Sb & -> & Heb).
  destruct (ends_split Sb _ _ Heb) as (S2 & -> & He2).
  rewrite !app_length in Hlen, Hfu. change (length ivm_text) with 8%nat in Hlen, Hfu.
  destruct kk as [|kk]; [lia|].
  apply (loop_to_rrunP pd pt api (S kk) fuel _ (mkax (sym_rest wn S2) tokenSymbol false BTA [] false false LSys None [] 0%N XNil)).
  2:{ apply (Hloop (sym_rest wn S2) [] tokenSymbol kk fuel ws_nil (Forall_nil _)).
      - cbn [app]. now apply ends_sym_rest.
      - cbn [app length]. lia.
      - cbn [app length]. lia. }
  apply (ivm_to w1 wn S2 k1 lst None 0%N XNil (S kk) fuel); auto.
  - now rewrite (ends_ws_stop _ _ He2).
  - now rewrite (ends_dcolon _ _ He2).
  - rewrite (ends_shead _ _ (ends_zs_app wn S2 rest He2)). exact Hfi.
Qed.
(* ... also when only the final comment follows *)
Lemma nextable3_ivm_eofc lst x wn body :
  ws_run wn -> no_cr wn -> Forall not_nl body ->
  nextable3 lst x (ivm_text ++ wn ++ 47 :: 47 :: body)%N -> nextable3 LSys x [].
Proof.
  intros Hwn Hcrn Hb Hnx b Post Hloop. apply Hnx.
  intros S1 w1 k1 kk fuel Hw1 Hcr1 He1 Hlen Hfu.
  destruct (ends_split S1 _ _ He1) as (Sa & -> & Hea). destruct (ends_split Sa _ _ Hea) as (Sb & -> & Heb).
  destruct Heb as (e & Hee & ->).
  rewrite !app_length in Hlen, Hfu. change (length ivm_text) with 8%nat in Hlen, Hfu.
  destruct kk as [|kk]; [lia|].
  apply (loop_to_rrunP pd pt api (S kk) fuel _ (mkax (eofT e) tokenSymbol false BTA [] false false LSys None [] 0%N XNil)).
  2:{ apply (Hloop (eofT e) [] tokenSymbol kk fuel ws_nil (Forall_nil _)).
      - cbn [app]. now apply ends_eofT.
      - cbn [app length]. lia.
      - cbn [app length]. lia. }
  apply (ivm_eofc_to w1 (wn ++ 47 :: 47 :: body)%N e k1 lst None 0%N XNil (S kk) fuel); auto.
  now constructor.
Qed.

(* a local symbol table is passed within the same call of Next *)
Lemma nextable3_lst lst x otext w0 body oi os wn rest :
  lopen_spells lst [] otext -> ws_run w0 -> lstbody pd pt lst trsBeforeFieldName body oi os ->
  hd 0%N (w0 ++ body) <> 123%N -> ws_run wn -> no_cr (otext ++ w0 ++ body ++ wn) ->
  nextable3 lst x (otext ++ w0 ++ body ++ wn ++ rest) -> nextable3 (install lst oi os) x rest.
Proof.
  intros Hlo Hw0 Hbody H123 Hwn Hcr Hnx b Post Hloop. apply Hnx.
  intros S1 w1 k1 kk fuel Hw1 Hcr1 He1 Hlen Hfu.
  apply no_cr_app in Hcr as [Hco Hcr]. apply no_cr_app in Hcr as [Hcw0 Hcr]. apply no_cr_app in Hcr as [Hcb Hcn].
  destruct (ends_split S1 _ _ He1) as (Sa & -> & Hea). destruct (ends_split Sa _ _ Hea) as (r & -> & Her).
  rewrite !app_length in Hlen, Hfu.
  apply (lst_step pd pt lst [] otext Hlo w1 r w0 body oi os (wn ++ rest) k1 None 0%N XNil kk fuel b Post); auto; try lia.
  intros kk' S3 tok Hk' He3.
  destruct kk' as [|kk']; [lia|].
  apply (Hloop S3 wn tok kk' fuel); auto; rewrite ?app_length; lia.
Qed.

(* ---- top-level streams ------------------------------------------------------------------------------------------------ *)
Inductive tops_spell3 : rlst -> list N -> list tval -> Prop :=
| tp3_nil lst : tops_spell3 lst [] []
(* a `//` comment that runs to the end of the input *)
| tp3_comment lst body : Forall not_nl body -> tops_spell3 lst (47 :: 47 :: body)%N []
(* a value, spelled against the current context *)
| tp3_cons lst text fol tv wn rest tvs :
    tspell2 pd pt lst [] text fol tv -> ws_run wn -> fol wn rest -> tops_spell3 lst rest tvs ->
    tops_spell3 lst (text ++ wn ++ rest) (tv :: tvs)
(* the version marker (not followed by `::`); what follows may also be the final comment: the context is reset *)
| tp3_ivm lst wn rest tvs :
    ws_run wn -> f_ident wn rest -> ws_stop (zs rest) = true \/ rest_eofc rest -> tops_spell3 LSys rest tvs ->
    tops_spell3 lst (ivm_text ++ wn ++ rest) tvs
(* a local symbol table: annotations, `{`, the fields, `}`; the context becomes [install lst oi os] *)
| tp3_lst lst otext w0 body oi os wn rest tvs :
    lopen_spells lst [] otext -> ws_run w0 -> lstbody pd pt lst trsBeforeFieldName body oi os ->
    hd 0%N (w0 ++ body) <> 123%N -> gap_free os -> ws_run wn ->
    tops_spell3 (install lst oi os) rest tvs ->
    tops_spell3 lst (otext ++ w0 ++ body ++ wn ++ rest) tvs.

Lemma tops_spell2_incl text tvs : tops_spell2 pd pt LSys text tvs -> tops_spell3 LSys text tvs.
Proof.
  induction 1 as [|body Hb|text fol tv wn rest tvs Htv Hwn Hfol Hvs IH|wn rest tvs Hwn Hfi Hst Hvs IH].
  - constructor.
  - now constructor.
  - now apply (tp3_cons LSys text fol).
  - apply tp3_ivm; auto.
Qed.

Lemma lopen_first lst ann otext : lopen_spells lst ann otext -> exists c r, otext = c :: r /\ val_start c.
Proof.
  destruct 1 as [ann Hist|ann id k wn1 wn2 rest' Hid Hkw Hk Hw1 Hw2 Hlo|ann qb txt wn1 wn2 rest' Hb Hu Hw1 Hw2 Hlo].
  - eexists _, _. split; [reflexivity|]. unfold val_start; repeat split; (reflexivity || discriminate).
  - destruct Hid as [c r Hc Hr]. eexists _, _. split; [reflexivity|]. now apply id_start_val_start.
  - eexists _, _. split; [reflexivity|]. unfold val_start; repeat split; (reflexivity || discriminate).
Qed.

Lemma tops_first3 lst rest tvs : tops_spell3 lst rest tvs -> rest_ok [] rest.
Proof.
  destruct 1 as [lst|lst body Hb|lst text fol tv wn rest tvs Htv Hwn Hfol Hvs|lst wn rest tvs Hwn Hfi Hst Hvs
                |lst otext w0 body oi os wn rest tvs Hlo Hw0 Hbody H123 Hgf Hwn Hvs].
  - left; split; reflexivity.
  - right; split; [reflexivity|exists body; auto].
  - destruct (tspell_first2 pd pt lst [] text fol tv Htv) as [_ Hst]. specialize (Hst wn rest Hfol).
    now apply startok_rest_ok.
  - apply startok_rest_ok, ivm_startok.
  - destruct (lopen_first lst [] otext Hlo) as (c & r & -> & Hc). cbn [app]. apply startok_rest_ok. now apply val_start_startok.
Qed.

Definition topready3 (lst : rlst) (x : xstate) (text : list N) : Prop :=
  nextable3 lst x text \/ (rest_eofc text /\ nextable3 lst x []).

Lemma topready3_settled lst x S' k' u' fld ann ty v rest :
  xok x -> xabs x = mkax S' k' u' BTA [] false false lst fld ann ty v -> settled_w S' k' u' rest -> topready3 lst x rest.
Proof.
  intros Hi Ha [Hset|[He Hset]]; [left|right; split; [exact He|]];
    apply (nextable3_settled x S' k' u' lst fld ann ty v); auto.
Qed.

Definition cost_sum (tvs : list tval) : nat := fold_right (fun tv n => cost tv + n)%nat 0%nat tvs.

Lemma traverse_tops3 : forall lst text tvs, tops_spell3 lst text tvs -> no_cr text ->
  forall x f acc, topready3 lst x text ->
  exists x', x_traverse_loop pd pt (cost_sum tvs + 1 + f) x 0 acc
             = (x', [70%N] :: rev (flat_map (tr_tval None) tvs) ++ acc, false) /\
             x_eof x' = true /\ x_err x' = false.
Proof.
  assert (Hend : forall x x' f acc, x_next pd pt x = (x', Ok false) -> x_eof x' = true -> x_err x' = false ->
            exists x', x_traverse_loop pd pt (cost_sum [] + 1 + f) x 0 acc
                       = (x', [70%N] :: rev (flat_map (tr_tval None) []) ++ acc, false) /\ x_eof x' = true /\ x_err x' = false).
  { intros x x' f acc E He Hr. cbn [cost_sum fold_right Nat.add x_traverse_loop].
    rewrite (x_op_next pd pt x x' false E). change (list_eqb [70%N] [70%N]) with true. cbv iota.
    exists x'. cbn [flat_map rev app]. auto. }
  induction 1 as [lst|lst body Hb|lst text fol tv wn rest tvs Htv Hwn Hfol Hvs IH|lst wn rest tvs Hwn Hfi Hst Hvs IH
                 |lst otext w0 body oi os wn rest tvs Hlo Hw0 Hbody H123 Hgf Hwn Hvs IH];
    intros Hcr x f acc Hrd.
  - assert (Hnx : nextable pd pt lst x BTA [] []) by (destruct Hrd as [H|[_ H]]; now apply nextable3_weaken).
    destruct (top_eof_n pd pt lst x Hnx) as (x' & E & He & Hr). eauto.
  - destruct Hrd as [Hnx|[_ Hnx]]; apply nextable3_weaken in Hnx.
    + destruct (top_eof_eofc_n pd pt lst x body Hb Hnx) as (x' & E & He & Hr). eauto.
    + destruct (top_eof_n pd pt lst x Hnx) as (x' & E & He & Hr). eauto.
  - destruct (vals_no_cr_split _ _ _ Hcr) as [Hcr1 Hcr2].
    pose proof (tops_first3 lst rest tvs Hvs) as Hrok.
    destruct (tspell_first2 pd pt lst [] text fol tv Htv) as [_ Hst]. specialize (Hst wn rest Hfol).
    assert (Hnx : nextable pd pt lst x BTA [] (text ++ wn ++ rest)).
    { destruct Hrd as [H|[H _]]; [now apply nextable3_weaken|]. now apply startok_not_eofc in H. }
    destruct (proj1 (traverse_tree2 pd pt lst) [] text fol tv Htv [] BTA None 0%nat [] (sep2_none lst []) ws_nil (fun _ => eq_refl)
                x wn rest 0%nat (cost_sum tvs + 1 + f)%nat acc Hnx Hcr1 Hwn Hfol Hrok)
      as (x1 & S' & k' & u' & fld' & ann' & ty' & v' & Et & Hi1 & Ha1 & Hset1).
    destruct (IH Hcr2 x1 f (rev (tr_tval None tv) ++ acc) (topready3_settled lst x1 S' k' u' fld' ann' ty' v' rest Hi1 Ha1 Hset1))
      as (x' & Et' & He & Hr).
    exists x'. split; [|auto]. cbn [cost_sum fold_right]. fold (cost_sum tvs).
    replace (cost tv + cost_sum tvs + 1 + f)%nat with (cost tv + (cost_sum tvs + 1 + f))%nat by lia.
    rewrite Et, Et'. cbn [flat_map]. rewrite rev_app_distr, <- app_assoc. reflexivity.
  - apply no_cr_app in Hcr as [_ Hcr]. apply no_cr_app in Hcr as [Hcrn Hcr2].
    assert (Hnx : nextable3 lst x (ivm_text ++ wn ++ rest)).
    { destruct Hrd as [H|[H _]]; [exact H|]. now apply (startok_not_eofc _ (ivm_startok (wn ++ rest))) in H. }
    apply (IH Hcr2 x f acc). destruct Hst as [Hst|(body & -> & Hb)].
    + assert (Hdc : dcolon (zs rest) = false).
      { destruct (tops_first3 LSys rest tvs Hvs) as [[_ H]|[_ (body & -> & _)]]; [exact H|discriminate Hst]. }
      left. now apply (nextable3_ivm lst x wn rest).
    + right. split; [exists body; auto|]. now apply (nextable3_ivm_eofc lst x wn body).
  - assert (Hcr' := Hcr). rewrite !app_assoc in Hcr'. apply no_cr_app in Hcr' as [Hcr' Hcr2]. rewrite <- !app_assoc in Hcr'.
    assert (Hnx : nextable3 lst x (otext ++ w0 ++ body ++ wn ++ rest)).
    { destruct Hrd as [H|[H _]]; [exact H|]. destruct (lopen_first lst [] otext Hlo) as (c & r & -> & Hc).
      cbn [app] in H. now apply (startok_not_eofc _ (val_start_startok c _ Hc)) in H. }
    apply (IH Hcr2 x f acc). left. now apply (nextable3_lst lst x otext w0 body oi os wn rest).
Qed.

Lemma cost_sum_le lst t v : tops_spell3 lst t v -> (cost_sum v <= length t)%nat.
Proof.
  induction 1 as [lst|lst body Hb|lst tx fol tv wn rest vs' Htv Hwn Hfol Hv IH|lst wn rest vs' Hwn Hfi Hst Hv IH
                 |lst otext w0 body oi os wn rest vs' Hlo Hw0 Hbody H123 Hgf Hwn Hv IH]; [cbn; lia|cbn; lia| | |].
  - pose proof (proj1 (cost_bound2 pd pt lst) [] tx fol tv Htv). cbn [cost_sum fold_right]. fold (cost_sum vs').
    rewrite !app_length. lia.
  - rewrite !app_length. lia.
  - rewrite !app_length. lia.
Qed.

Theorem traverse_stream3 inp w0 text tvs :
  norm inp = w0 ++ text -> ws_run w0 -> tops_spell3 LSys text tvs ->
  x_traverse pd pt inp false = ttrace tvs.
Proof.
  intros Hn Hw0 Hvs. unfold x_traverse.
  pose proof (norm_no_cr inp) as Hcr. rewrite Hn in Hcr. apply no_cr_app in Hcr as [Hcr0 Hcrt].
  assert (Hi : xok (x_init inp false)) by reflexivity.
  assert (Ha : xabs (x_init inp false)
               = mkax (zs (norm inp)) tokenError false BTA [] false false LSys None [] 0%N XNil) by reflexivity.
  assert (Hset : settled_w (zs (norm inp)) tokenError false text).
  { left. apply (settled_false _ _ text w0); auto. rewrite Hn. exists []. split; [constructor|now rewrite app_nil_r]. }
  set (c := cost_sum tvs).
  assert (Hf : (c + 1 <= 4 * length inp + 17)%nat).
  { pose proof (cost_sum_le _ _ _ Hvs). pose proof (norm_length inp) as Hnl. rewrite Hn, app_length in Hnl. unfold c. lia. }
  destruct (traverse_tops3 LSys text tvs Hvs Hcrt (x_init inp false) (4 * length inp + 17 - (c + 1))%nat []
              (topready3_settled _ _ _ _ _ _ _ _ _ _ Hi Ha Hset))
    as (x' & Et & He & Hr).
  replace (cost_sum tvs + 1 + (4 * length inp + 17 - (c + 1)))%nat
    with (4 * length inp + 17)%nat in Et by (fold c; lia).
  rewrite Et. cbv iota.
  assert (Hnext : x_next pd pt x' = (x', Ok false)).
  { unfold x_next, x_next_with. rewrite He, orb_true_r. reflexivity. }
  cbn [x_run]. unfold x_op_res at 1. rewrite Hr. cbv iota.
  cbn [x_run]. unfold x_op_res at 1. rewrite Hnext.
  cbn [x_run]. unfold x_op_res at 1. rewrite Hr. cbv iota.
  cbn [x_run]. unfold x_op_res at 1. rewrite Hnext.
  cbn [x_run]. unfold x_op_res at 1. rewrite Hr. cbv iota.
  cbn [x_run rev app]. unfold ttrace, tr_tail. rewrite app_nil_r.
  rewrite rev_involutive, <- app_assoc. reflexivity.
Qed.
End TopTree3.

Theorem traverse_stream3_text inp w0 text tvs :
  norm inp = w0 ++ text -> ws_run w0 -> tops_spell3 parse_decimal_text parse_ts_text LSys text tvs ->
  x_traverse parse_decimal_text parse_ts_text inp false = ttrace tvs.
Proof. exact (traverse_stream3 parse_decimal_text parse_ts_text inp w0 text tvs). Qed.

(* ---- the installed table against the SPECIFICATION of symbol contexts (Sym/LstSpec.v) ------------------------------------ *)
(* the context a reader table denotes: every import trimmed / padded to its max_id, then the local symbols *)
Definition rslots (l : rlst) : LstSpec.ctx :=
  match l with
  | LSys => LstSpec.system_ctx
  | LTab tb => flat_map (fun i => LstSpec.fit (im_maxid i) (map Some (im_syms i))) (lt_imps tb) ++ map Some (lt_locals tb)
  end.
(* the system symbols come first *)
Definition lst_ok (l : rlst) : Prop := match l with LSys => True | LTab tb => exists r, lt_imps tb = sys_imp :: r end.
(* the item of the specification that the fields of a table struct denote ([lstbody]'s indices) *)
Definition spec_item (oi : option bool) (os : option (list (option (list N)))) : LstSpec.item :=
  LstSpec.LocalTable (match oi with Some true => LstSpec.ImpAppend | _ => LstSpec.ImpList [] end)
                     (match os with Some sy => sy | None => [] end).

Lemma gap_free_map sy : Forall (fun o : option (list N) => o <> None) sy -> map Some (map entry_text sy) = sy.
Proof. induction 1 as [|o sy Ho _ IH]; [reflexivity|]. cbn [map]. rewrite IH. destruct o; [reflexivity|contradiction]. Qed.
Lemma fit_all (l : list text) :
  LstSpec.fit (N.of_nat (length l)) (@map text (option text) (@Some text) l) = @map text (option text) (@Some text) l.
Proof.
  unfold LstSpec.fit. rewrite Nnat.Nat2N.id, map_length, Nat.sub_diag. cbn [repeat]. rewrite app_nil_r.
  rewrite <- (map_length (@Some text) l) at 1. apply firstn_all.
Qed.

(* [install] computes the context the specification prescribes for the table (for every catalog: no import is declared) *)
Theorem install_spec cat lst oi os : lst_ok lst -> gap_free os ->
  LstSpec.spec_step cat (rslots lst) (spec_item oi os) = Ok (rslots (install lst oi os)) /\ lst_ok (install lst oi os).
Proof.
  intros Hok Hgf.
  assert (Hsy : @map text (option text) (@Some text) (match os with Some sy => map entry_text sy | None => [] end)
                = match os with Some sy => sy | None => [] end).
  { destruct os as [sy|]; [now apply gap_free_map|reflexivity]. }
  assert (Hrepl : forall oi', match oi' with Some true => False | _ => True end ->
            LstSpec.spec_step cat (rslots lst) (spec_item oi' os) = Ok (rslots (install lst oi' os)) /\ lst_ok (install lst oi' os)).
  { intros oi' Hn. assert (E : install lst oi' os = LTab {| lt_imps := [sys_imp]; lt_locals := match os with Some sy => map entry_text sy | None => [] end |}).
    { destruct oi' as [[|]|]; [contradiction|reflexivity|reflexivity]. }
    rewrite E. split; [|exists []; reflexivity].
    set (c := rslots lst). unfold spec_item, rslots. cbv iota. cbn [lt_imps lt_locals flat_map]. rewrite Hsy.
    destruct oi' as [[|]|]; [contradiction| |]; reflexivity. }
  destruct oi as [[|]|]; [|now apply Hrepl|now apply Hrepl].
  destruct lst as [|t0].
  - split; [|exists []; reflexivity].
    change (install LSys (Some true) os) with (LTab {| lt_imps := [sys_imp]; lt_locals := match os with Some sy => map entry_text sy | None => [] end |}).
    unfold spec_item, rslots. cbn [lt_imps lt_locals flat_map]. rewrite Hsy. reflexivity.
  - destruct Hok as (r & Er). destruct t0 as [imps0 loc0]. cbn [lt_imps] in Er. subst imps0.
    assert (E : install (LTab {| lt_imps := sys_imp :: r; lt_locals := loc0 |}) (Some true) os =
                LTab {| lt_imps := (sys_imp :: r) ++ [{| im_syms := loc0; im_maxid := N.of_nat (length loc0) |}];
                        lt_locals := match os with Some sy => map entry_text sy | None => [] end |}) by reflexivity.
    rewrite E. split; [|exists (r ++ [{| im_syms := loc0; im_maxid := N.of_nat (length loc0) |}]); reflexivity].
    unfold spec_item, rslots. cbn [lt_imps lt_locals LstSpec.spec_step]. rewrite Hsy.
    f_equal. rewrite flat_map_app. cbn [flat_map im_syms im_maxid]. rewrite (fit_all loc0), app_nil_r. reflexivity.
Qed.
